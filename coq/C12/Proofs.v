(* C12/Proofs.v — lemmas about the model of C12/Model.v. *)
From XV Require Import lib.Bytes gen.StreamHdr C12.Model.
From Coq Require Import NArith Lia ZifyBool ZifyNat ZifyN.
Local Open Scope N_scope.

(* ------------------------------------------------------------------ *)
(* 0. Tables: the source still says what the model assumes             *)

Lemma tbl_send_literals :
  send_literals =
  [ str "<open xmlns=""urn:ietf:params:xml:ns:xmpp-framing"" version='%s'";
    str "<stream:stream xmlns='%s' xmlns:stream='http://etherx.jabber.org/streams' version='%s'";
    str "id"; str "to"; str "from"; str "xml:lang";
    str "/>"; str ">" ] /\
  write_attr_literals = [ str " %s='" ] /\
  send_attr_calls = [ (str "id", str "id"); (str "to", str "to"); (str "from", str "from"); (str "xml:lang", str "lang") ] /\
  send_escaped_params = [ str "value" ].
Proof. vm_compute. repeat split; reflexivity. Qed.

Lemma tbl_namespaces :
  ns_stream = str "http://etherx.jabber.org/streams" /\
  ns_stream_error = str "urn:ietf:params:xml:ns:xmpp-streams" /\
  ns_client = str "jabber:client" /\ ns_server = str "jabber:server" /\
  ns_ws = str "urn:ietf:params:xml:ns:xmpp-framing" /\
  ns_bind = str "urn:ietf:params:xml:ns:xmpp-bind" /\
  ns_xml = str "http://www.w3.org/XML/1998/namespace" /\
  xml_header = str "<?xml version=""1.0"" encoding=""UTF-8""?>" /\
  default_version = (1, 0) /\
  iq_set = str "set" /\ iq_result = str "result" /\ iq_error = str "error".
Proof. vm_compute. repeat split; reflexivity. Qed.

(* ------------------------------------------------------------------ *)
(* 1. Generic helpers                                                  *)

Lemma jid_eqb_eq a b : jid_eqb a b = true <-> a = b.
Proof.
  unfold jid_eqb. destruct a as [l d r], b as [l' d' r']; cbn. split.
  - intro H. apply andb_true_iff in H. destruct H as [H H3]. apply andb_true_iff in H. destruct H as [H1 H2].
    apply bytes_eqb_eq in H1, H2, H3. congruence.
  - intro H. inversion H; subst.
    rewrite !(proj2 (bytes_eqb_eq _ _) eq_refl). reflexivity.
Qed.

Lemma jid_eqb_refl a : jid_eqb a a = true.
Proof. apply jid_eqb_eq. reflexivity. Qed.

Lemma jid_eqb_neq a b : jid_eqb a b = false <-> a <> b.
Proof.
  split.
  - intros H E. apply jid_eqb_eq in E. congruence.
  - intro H. destruct (jid_eqb a b) eqn:E; [apply jid_eqb_eq in E; contradiction | reflexivity].
Qed.

Lemma bytes_eqb_refl a : bytes_eqb a a = true.
Proof. apply bytes_eqb_eq. reflexivity. Qed.

Lemma bytes_eqb_neq a b : bytes_eqb a b = false <-> a <> b.
Proof.
  split.
  - intros H E. apply bytes_eqb_eq in E. congruence.
  - intro H. destruct (bytes_eqb a b) eqn:E; [apply bytes_eqb_eq in E; contradiction | reflexivity].
Qed.

Lemma is_nil_true b : is_nil b = true <-> b = [].
Proof. destruct b; cbn; split; intro H; congruence. Qed.

(* ------------------------------------------------------------------ *)
(* 2. EscapeText on clean text is a byte-wise map                      *)

Definition hi (b : byte) : bool := 128 <=? bN b.

Definition okb (b : byte) : bool := (32 <=? bN b) || is_space b.

Fixpoint all_hi (k : nat) (s : bytes) : bool :=
  match k with
  | O => true
  | S k' => match s with [] => false | b :: r => hi b && all_hi k' r end
  end.

Lemma esc1_hi b : hi b = true -> esc1 b = [b].
Proof. destruct b; intro H; try discriminate H; reflexivity. Qed.

Lemma hi_okb b : hi b = true -> okb b = true.
Proof. unfold hi, okb. intro H. apply orb_true_iff. left. lia. Qed.

Lemma in_rng_hi b lo up : in_rng b lo up = true -> 128 <= lo -> hi b = true.
Proof. unfold in_rng, hi. intros H L. lia. Qed.

Lemma classify_multi b r w :
  classify (b :: r) = CMulti w -> hi b = true /\ all_hi (w - 1) r = true.
Proof.
  unfold classify.
  destruct (bN b <? 128) eqn:E0; [discriminate|].
  assert (Hb : hi b = true) by (unfold hi; lia).
  destruct ((194 <=? bN b) && (bN b <=? 223)) eqn:E1.
  { destruct r as [|b1 r1]; [discriminate|].
    destruct (is_cont b1) eqn:C1; [|discriminate].
    intro H; inversion H; subst. split; [exact Hb|]. cbn.
    rewrite (in_rng_hi b1 128 191 C1) by lia. reflexivity. }
  destruct ((224 <=? bN b) && (bN b <=? 239)) eqn:E2.
  { destruct r as [|b1 [|b2 r2]]; try discriminate.
    destruct (in_rng b1 (if bN b =? 224 then 160 else 128) (if bN b =? 237 then 159 else 191)) eqn:C1; cbn [andb]; [|discriminate].
    destruct (is_cont b2) eqn:C2; [|discriminate].
    destruct ((bN b =? 239) && (bN b1 =? 191) && (190 <=? bN b2)); [discriminate|].
    intro H; inversion H; subst. split; [exact Hb|]. cbn.
    assert (H1 : hi b1 = true).
    { destruct (bN b =? 224); eapply in_rng_hi; try exact C1; lia. }
    rewrite H1, (in_rng_hi b2 128 191 C2) by lia. reflexivity. }
  destruct ((240 <=? bN b) && (bN b <=? 244)) eqn:E3; [|discriminate].
  destruct r as [|b1 [|b2 [|b3 r3]]]; try discriminate.
  destruct (in_rng b1 (if bN b =? 240 then 144 else 128) (if bN b =? 244 then 143 else 191)) eqn:C1; cbn [andb]; [|discriminate].
  destruct (is_cont b2) eqn:C2; cbn [andb]; [|discriminate].
  destruct (is_cont b3) eqn:C3; [|discriminate].
  intro H; inversion H; subst. split; [exact Hb|]. cbn.
  assert (H1 : hi b1 = true).
  { destruct (bN b =? 240); eapply in_rng_hi; try exact C1; lia. }
  rewrite H1, (in_rng_hi b2 128 191 C2), (in_rng_hi b3 128 191 C3) by lia. reflexivity.
Qed.

Lemma esc_flat : forall s k,
  all_hi k s = true -> tok_ok k s = true ->
  esc k s = flat_map esc1 s /\ forallb okb s = true.
Proof.
  induction s as [|b r IH]; intros k Hh Ht.
  - destruct k; cbn in *; [split; reflexivity | discriminate].
  - destruct k as [|k'].
    + cbn [esc tok_ok] in *.
      destruct (classify (b :: r)) eqn:C; try discriminate.
      * apply andb_true_iff in Ht. destruct Ht as [Hb Hr].
        destruct (IH 0%nat eq_refl Hr) as [E F].
        cbn [flat_map forallb]. rewrite E, F. unfold okb at 1. rewrite Hb. split; reflexivity.
      * destruct (classify_multi b r w C) as [Hb Hw].
        destruct (IH (w - 1)%nat Hw Ht) as [E F].
        cbn [flat_map forallb]. rewrite E, F, (esc1_hi b Hb), (hi_okb b Hb). split; reflexivity.
    + cbn [all_hi] in Hh. apply andb_true_iff in Hh. destruct Hh as [Hb Hr].
      cbn [esc tok_ok] in *.
      destruct (IH k' Hr Ht) as [E F].
      cbn [flat_map forallb]. rewrite E, F, (esc1_hi b Hb), (hi_okb b Hb). split; reflexivity.
Qed.

Lemma escape_text_clean s : text_ok s = true -> escape_text s = flat_map esc1 s /\ forallb okb s = true.
Proof. intro H. apply (esc_flat s 0%nat eq_refl H). Qed.

(* ------------------------------------------------------------------ *)
(* 3. The start-tag reader on what Send prints                         *)

Lemma feed_app : forall a b st,
  feed st (a ++ b) = match feed st a with Some st' => feed st' b | None => None end.
Proof.
  induction a as [|x a IH]; intros b st; cbn; [reflexivity|].
  destruct (step st x); try reflexivity. apply IH.
Qed.

Lemma run_feed : forall a b st st', feed st a = Some st' -> run st (a ++ b) = run st' b.
Proof.
  induction a as [|x a IH]; intros b st st' H; cbn in *.
  - inversion H; reflexivity.
  - destruct (step st x); try discriminate. apply IH. exact H.
Qed.

Definition quote : byte := "'"%byte.

(* one byte of clean text, escaped, read back inside a single-quoted value *)
Lemma feed_esc1 n at_ an acc b :
  okb b = true ->
  feed (PVal n at_ an quote acc None) (esc1 b) = Some (PVal n at_ an quote (b :: acc) None).
Proof. destruct b; intro H; try discriminate H; reflexivity. Qed.

Lemma feed_flat n at_ an : forall v acc,
  forallb okb v = true ->
  feed (PVal n at_ an quote acc None) (flat_map esc1 v) = Some (PVal n at_ an quote (rev v ++ acc) None).
Proof.
  induction v as [|b v IH]; intros acc H; cbn [flat_map forallb] in *.
  - reflexivity.
  - apply andb_true_iff in H. destruct H as [Hb Hv].
    rewrite feed_app, (feed_esc1 n at_ an acc b Hb), (IH (b :: acc) Hv).
    cbn [rev]. rewrite <- app_assoc. reflexivity.
Qed.

(* an escaped value and its closing quote *)
Lemma feed_escaped n at_ an v :
  text_ok v = true ->
  feed (PVal n at_ an quote [] None) (escape_text v ++ [quote]) = Some (PGap n (mkra an v :: at_)).
Proof.
  intro H. destruct (escape_text_clean v H) as [E F].
  rewrite feed_app, E, (feed_flat n at_ an v [] F). rewrite app_nil_r.
  cbn [feed step]. unfold quote. rewrite byte_eqb_refl. rewrite rev_involutive, H. reflexivity.
Qed.

(* values printed raw (%s): no quote, ampersand or angle bracket in them *)
Definition plainb (b : byte) : bool :=
  okb b && negb (byte_eqb b quote) && negb (byte_eqb b "<"%byte) && negb (byte_eqb b "&"%byte).

Lemma feed_plain1 n at_ an acc b :
  plainb b = true ->
  feed (PVal n at_ an quote acc None) [b] = Some (PVal n at_ an quote (b :: acc) None).
Proof.
  unfold plainb. intro H. cbn [feed step].
  destruct (byte_eqb b quote); [cbn in H; rewrite ?andb_false_r in H; discriminate|].
  destruct (byte_eqb b "<"%byte); [cbn in H; rewrite ?andb_false_r in H; discriminate|].
  destruct (byte_eqb b "&"%byte); [cbn in H; rewrite ?andb_false_r in H; discriminate|].
  reflexivity.
Qed.

Lemma feed_plain n at_ an : forall v acc,
  forallb plainb v = true ->
  feed (PVal n at_ an quote acc None) v = Some (PVal n at_ an quote (rev v ++ acc) None).
Proof.
  induction v as [|b v IH]; intros acc H; cbn [forallb] in *.
  - reflexivity.
  - apply andb_true_iff in H. destruct H as [Hb Hv].
    change (b :: v) with ([b] ++ v).
    rewrite feed_app, (feed_plain1 n at_ an acc b Hb), (IH (b :: acc) Hv).
    cbn [app rev]. rewrite <- app_assoc. reflexivity.
Qed.

Lemma feed_raw n at_ an v :
  forallb plainb v = true -> text_ok v = true ->
  feed (PVal n at_ an quote [] None) (v ++ [quote]) = Some (PGap n (mkra an v :: at_)).
Proof.
  intros P H. rewrite feed_app, (feed_plain n at_ an v [] P), app_nil_r.
  cbn [feed step]. unfold quote. rewrite byte_eqb_refl, rev_involutive, H. reflexivity.
Qed.

(* the four attributes Send prints through writeAttr *)
Definition ra_opt (name value : bytes) : list rattr := if is_nil value then [] else [mkra name value].

Lemma feed_opt_attr n at_ name pre v :
  (forall at', feed (PGap n at') (str " " ++ name ++ str "='") = Some (PVal n at' pre quote [] None)) ->
  text_ok v = true ->
  feed (PGap n at_) (opt_attr name v) = Some (PGap n (rev (ra_opt pre v) ++ at_)).
Proof.
  intros Hpre H. unfold opt_attr, ra_opt. destruct (is_nil v); [reflexivity|].
  unfold write_attr.
  replace (str " " ++ name ++ str "='" ++ escape_text v ++ str "'")
    with ((str " " ++ name ++ str "='") ++ (escape_text v ++ [quote]))
    by (rewrite <- !app_assoc; reflexivity).
  rewrite feed_app, Hpre. apply feed_escaped. exact H.
Qed.

Lemma pre_id n at' : feed (PGap n at') (str " " ++ str "id" ++ str "='") = Some (PVal n at' (str "id") quote [] None).
Proof. reflexivity. Qed.
Lemma pre_to n at' : feed (PGap n at') (str " " ++ str "to" ++ str "='") = Some (PVal n at' (str "to") quote [] None).
Proof. reflexivity. Qed.
Lemma pre_from n at' : feed (PGap n at') (str " " ++ str "from" ++ str "='") = Some (PVal n at' (str "from") quote [] None).
Proof. reflexivity. Qed.
Lemma pre_lang n at' : feed (PGap n at') (str " " ++ str "xml:lang" ++ str "='") = Some (PVal n at' (str "xml:lang") quote [] None).
Proof. reflexivity. Qed.

Lemma feed_four n at_ lang to from id :
  text_ok lang = true -> text_ok to = true -> text_ok from = true -> text_ok id = true ->
  feed (PGap n at_)
       (opt_attr (str "id") id ++ opt_attr (str "to") to ++ opt_attr (str "from") from ++ opt_attr (str "xml:lang") lang)
  = Some (PGap n (rev (ra_opt (str "id") id ++ ra_opt (str "to") to ++ ra_opt (str "from") from ++
                       ra_opt (str "xml:lang") lang) ++ at_)).
Proof.
  intros Hl Ht Hf Hi.
  rewrite feed_app, (feed_opt_attr n at_ _ _ id (pre_id n) Hi).
  rewrite feed_app, (feed_opt_attr n _ _ _ to (pre_to n) Ht).
  rewrite feed_app, (feed_opt_attr n _ _ _ from (pre_from n) Hf).
  rewrite (feed_opt_attr n _ _ _ lang (pre_lang n) Hl).
  rewrite !rev_app_distr, <- !app_assoc. reflexivity.
Qed.

(* decimal digits of a version number *)
Lemma plain_dec3 n : n < 256 -> forallb plainb (dec3 n) = true /\ text_ok (dec3 n) = true.
Proof.
  intro H.
  assert (E : forallb (fun k => forallb plainb (dec3 (N.of_nat k)) && text_ok (dec3 (N.of_nat k)))
                      (seq 0 256) = true) by (vm_compute; reflexivity).
  rewrite forallb_forall in E.
  specialize (E (N.to_nat n)). rewrite N2Nat.id in E.
  apply andb_true_iff. apply E. apply in_seq. lia.
Qed.

Lemma forallb_plain_okb v : forallb plainb v = true -> forallb okb v = true.
Proof.
  induction v as [|b v IH]; cbn; [reflexivity|]. intro H.
  apply andb_true_iff in H. destruct H as [Hb Hv]. rewrite (IH Hv), andb_true_r.
  unfold plainb in Hb. destruct (okb b); [reflexivity | discriminate].
Qed.

(* text_ok of a concatenation of two clean texts *)
Lemma tok_ok_app : forall a k b, tok_ok k a = true -> tok_ok 0 b = true -> tok_ok k (a ++ b) = true.
Proof.
  induction a as [|x a IH]; intros k b Ha Hb.
  - destruct k; cbn in *; [exact Hb | discriminate].
  - destruct k as [|k'].
    + cbn [tok_ok app] in *.
      assert (C : classify (x :: a ++ b) = classify (x :: a) \/ classify (x :: a) = CBad).
      { unfold classify.
        destruct (bN x <? 128); [left; reflexivity|].
        destruct ((194 <=? bN x) && (bN x <=? 223)).
        { destruct a as [|a1 a']; [right; reflexivity | left; reflexivity]. }
        destruct ((224 <=? bN x) && (bN x <=? 239)).
        { destruct a as [|a1 [|a2 a']]; [right; reflexivity | right; reflexivity | left; reflexivity]. }
        destruct ((240 <=? bN x) && (bN x <=? 244)); [|left; reflexivity].
        destruct a as [|a1 [|a2 [|a3 a']]]; try (right; reflexivity). left; reflexivity. }
      destruct C as [C|C]; [|rewrite C in Ha; discriminate].
      rewrite C. destruct (classify (x :: a)); try discriminate.
      * apply andb_true_iff in Ha. destruct Ha as [H1 H2]. rewrite H1. cbn. apply IH; assumption.
      * apply IH; assumption.
    + cbn [tok_ok app] in *. apply IH; assumption.
Qed.

Lemma text_ok_app a b : text_ok a = true -> text_ok b = true -> text_ok (a ++ b) = true.
Proof. apply tok_ok_app. Qed.

Lemma plain_version v :
  fst v < 256 -> snd v < 256 ->
  forallb plainb (version_string v) = true /\ text_ok (version_string v) = true.
Proof.
  intros Ha Hb. unfold version_string.
  destruct (plain_dec3 _ Ha) as [P1 T1]. destruct (plain_dec3 _ Hb) as [P2 T2].
  split.
  - rewrite !forallb_app, P1, P2. reflexivity.
  - apply text_ok_app; [exact T1|]. apply text_ok_app; [reflexivity | exact T2].
Qed.

(* ---- the whole header ---- *)

Definition hdr_attrs (lang to from id : bytes) : list rattr :=
  ra_opt (str "id") id ++ ra_opt (str "to") to ++ ra_opt (str "from") from ++ ra_opt (str "xml:lang") lang.

Lemma run_tcp xmlns ver lang to from id rest :
  forallb plainb xmlns = true -> text_ok xmlns = true ->
  fst ver < 256 -> snd ver < 256 ->
  text_ok lang = true -> text_ok to = true -> text_ok from = true -> text_ok id = true ->
  run (PStart false) (send_header false xmlns ver lang to from id ++ rest) =
  Some (str "stream:stream",
        [mkra (str "xmlns") xmlns; mkra (str "xmlns:stream") (str "http://etherx.jabber.org/streams");
         mkra (str "version") (version_string ver)] ++ hdr_attrs lang to from id,
        false, rest).
Proof.
  intros Px Tx Ha Hb Hl Ht Hf Hi.
  destruct (plain_version ver Ha Hb) as [Pv Tv].
  unfold send_header. cbv beta iota.
  set (four := opt_attr (str "id") id ++ opt_attr (str "to") to ++ opt_attr (str "from") from ++ opt_attr (str "xml:lang") lang).
  replace (((xml_header ++ str "<stream:stream xmlns='" ++ xmlns ++
            str "' xmlns:stream='http://etherx.jabber.org/streams' version='" ++ version_string ver ++ str "'") ++
           four ++ str ">") ++ rest)
    with ((xml_header ++ str "<stream:stream xmlns='") ++ ((xmlns ++ [quote]) ++
          (str " xmlns:stream='http://etherx.jabber.org/streams' version='" ++ ((version_string ver ++ [quote]) ++
          (four ++ (str ">" ++ rest)))))).
  2:{ rewrite <- !app_assoc. reflexivity. }
  rewrite (run_feed (xml_header ++ str "<stream:stream xmlns='") _ (PStart false)
                    (PVal (str "stream:stream") [] (str "xmlns") quote [] None)) by (vm_compute; reflexivity).
  rewrite (run_feed (xmlns ++ [quote]) _ _ _ (feed_raw _ _ _ xmlns Px Tx)).
  rewrite (run_feed (str " xmlns:stream='http://etherx.jabber.org/streams' version='") _ _
                    (PVal (str "stream:stream")
                          [mkra (str "xmlns:stream") (str "http://etherx.jabber.org/streams"); mkra (str "xmlns") xmlns]
                          (str "version") quote [] None)) by reflexivity.
  rewrite (run_feed (version_string ver ++ [quote]) _ _ _ (feed_raw _ _ _ _ Pv Tv)).
  rewrite (run_feed four _ _ _ (feed_four _ _ lang to from id Hl Ht Hf Hi)).
  cbn [run step app str list_byte_of_string]. unfold hdr_attrs.
  rewrite rev_app_distr, rev_involutive. cbn [rev app]. reflexivity.
Qed.

Lemma run_ws xmlns ver lang to from id rest :
  fst ver < 256 -> snd ver < 256 ->
  text_ok lang = true -> text_ok to = true -> text_ok from = true -> text_ok id = true ->
  run (PStart false) (send_header true xmlns ver lang to from id ++ rest) =
  Some (str "open",
        [mkra (str "xmlns") (str "urn:ietf:params:xml:ns:xmpp-framing");
         mkra (str "version") (version_string ver)] ++ hdr_attrs lang to from id,
        true, rest).
Proof.
  intros Ha Hb Hl Ht Hf Hi.
  destruct (plain_version ver Ha Hb) as [Pv Tv].
  unfold send_header. cbv beta iota.
  set (four := opt_attr (str "id") id ++ opt_attr (str "to") to ++ opt_attr (str "from") from ++ opt_attr (str "xml:lang") lang).
  replace (((str "<open xmlns=""urn:ietf:params:xml:ns:xmpp-framing"" version='" ++ version_string ver ++ str "'") ++
           four ++ str "/>") ++ rest)
    with (str "<open xmlns=""urn:ietf:params:xml:ns:xmpp-framing"" version='" ++ ((version_string ver ++ [quote]) ++
          (four ++ (str "/>" ++ rest)))).
  2:{ rewrite <- !app_assoc. reflexivity. }
  rewrite (run_feed (str "<open xmlns=""urn:ietf:params:xml:ns:xmpp-framing"" version='") _ (PStart false)
                    (PVal (str "open") [mkra (str "xmlns") (str "urn:ietf:params:xml:ns:xmpp-framing")]
                          (str "version") quote [] None)) by (vm_compute; reflexivity).
  rewrite (run_feed (version_string ver ++ [quote]) _ _ _ (feed_raw _ _ _ _ Pv Tv)).
  rewrite (run_feed four _ _ _ (feed_four _ _ lang to from id Hl Ht Hf Hi)).
  cbn [run step app str list_byte_of_string]. unfold hdr_attrs.
  rewrite rev_app_distr, rev_involutive. cbn [rev app]. reflexivity.
Qed.
