(* C12/Proofs.v — lemmas about the model of C12/Model.v. *)
From XV Require Import lib.Bytes gen.StreamHdr C12.Model.
From Coq Require Import NArith Lia ZifyBool ZifyNat ZifyN.
Local Open Scope N_scope.

(* ------------------------------------------------------------------ *)
(* 0. Tables: the source still says what the model assumes             *)

Lemma tbl_send_literals :
  send_literals =
  [ str "open"; str "stream";
    str "<open xmlns=""urn:ietf:params:xml:ns:xmpp-framing"" version='%s'";
    str "<stream:stream xmlns='%s' xmlns:stream='http://etherx.jabber.org/streams' version='%s'";
    str "id"; str "to"; str "from"; str "xml:lang";
    str "/>"; str ">" ] /\
  write_attr_literals = [ str " %s='" ] /\
  send_attr_calls = [ (str "id", str "id"); (str "to", str "to"); (str "from", str "from"); (str "xml:lang", str "lang") ] /\
  send_escaped_params = [ str "value" ] /\
  send_recorded_names = [ (str "wsNamespace", str "open"); (str "stream.NS", str "stream") ].
Proof. vm_compute. repeat split; reflexivity. Qed.

Lemma tbl_namespaces :
  ns_stream = str "http://etherx.jabber.org/streams" /\
  ns_stream_error = str "urn:ietf:params:xml:ns:xmpp-streams" /\
  ns_client = str "jabber:client" /\ ns_server = str "jabber:server" /\
  ns_ws = str "urn:ietf:params:xml:ns:xmpp-framing" /\
  ns_bind = str "urn:ietf:params:xml:ns:xmpp-bind" /\
  ns_xml = str "http://www.w3.org/XML/1998/namespace" /\
  xml_header = str "<?xml version=""1.0"" encoding=""UTF-8""?>" /\
  default_version = (1, 0) /\
  iq_set = str "set" /\ iq_result = str "result" /\ iq_error = str "error".
Proof. vm_compute. repeat split; reflexivity. Qed.

(* ------------------------------------------------------------------ *)
(* 1. Generic helpers                                                  *)

Lemma jid_eqb_eq a b : jid_eqb a b = true <-> a = b.
Proof.
  unfold jid_eqb. destruct a as [l d r], b as [l' d' r']; cbn. split.
  - intro H. apply andb_true_iff in H. destruct H as [H H3]. apply andb_true_iff in H. destruct H as [H1 H2].
    apply bytes_eqb_eq in H1, H2, H3. congruence.
  - intro H. inversion H; subst.
    rewrite !(proj2 (bytes_eqb_eq _ _) eq_refl). reflexivity.
Qed.

Lemma jid_eqb_refl a : jid_eqb a a = true.
Proof. apply jid_eqb_eq. reflexivity. Qed.

Lemma jid_eqb_neq a b : jid_eqb a b = false <-> a <> b.
Proof.
  split.
  - intros H E. apply jid_eqb_eq in E. congruence.
  - intro H. destruct (jid_eqb a b) eqn:E; [apply jid_eqb_eq in E; contradiction | reflexivity].
Qed.

Lemma bytes_eqb_refl a : bytes_eqb a a = true.
Proof. apply bytes_eqb_eq. reflexivity. Qed.

Lemma bytes_eqb_neq a b : bytes_eqb a b = false <-> a <> b.
Proof.
  split.
  - intros H E. apply bytes_eqb_eq in E. congruence.
  - intro H. destruct (bytes_eqb a b) eqn:E; [apply bytes_eqb_eq in E; contradiction | reflexivity].
Qed.

Lemma is_nil_true b : is_nil b = true <-> b = [].
Proof. destruct b; cbn; split; intro H; congruence. Qed.

(* ------------------------------------------------------------------ *)
(* 2. EscapeText on clean text is a byte-wise map                      *)

Definition hi (b : byte) : bool := 128 <=? bN b.

Definition okb (b : byte) : bool := (32 <=? bN b) || is_space b.

Fixpoint all_hi (k : nat) (s : bytes) : bool :=
  match k with
  | O => true
  | S k' => match s with [] => false | b :: r => hi b && all_hi k' r end
  end.

Lemma esc1_hi b : hi b = true -> esc1 b = [b].
Proof. destruct b; intro H; try discriminate H; reflexivity. Qed.

Lemma hi_okb b : hi b = true -> okb b = true.
Proof. unfold hi, okb. intro H. apply orb_true_iff. left. lia. Qed.

Lemma in_rng_hi b lo up : in_rng b lo up = true -> 128 <= lo -> hi b = true.
Proof. unfold in_rng, hi. intros H L. lia. Qed.

Lemma classify_multi b r w :
  classify (b :: r) = CMulti w -> hi b = true /\ all_hi (w - 1) r = true.
Proof.
  unfold classify.
  destruct (bN b <? 128) eqn:E0; [discriminate|].
  assert (Hb : hi b = true) by (unfold hi; lia).
  destruct ((194 <=? bN b) && (bN b <=? 223)) eqn:E1.
  { destruct r as [|b1 r1]; [discriminate|].
    destruct (is_cont b1) eqn:C1; [|discriminate].
    intro H; inversion H; subst. split; [exact Hb|]. cbn.
    rewrite (in_rng_hi b1 128 191 C1) by lia. reflexivity. }
  destruct ((224 <=? bN b) && (bN b <=? 239)) eqn:E2.
  { destruct r as [|b1 [|b2 r2]]; try discriminate.
    destruct (in_rng b1 (if bN b =? 224 then 160 else 128) (if bN b =? 237 then 159 else 191)) eqn:C1; cbn [andb]; [|discriminate].
    destruct (is_cont b2) eqn:C2; [|discriminate].
    destruct ((bN b =? 239) && (bN b1 =? 191) && (190 <=? bN b2)); [discriminate|].
    intro H; inversion H; subst. split; [exact Hb|]. cbn.
    assert (H1 : hi b1 = true).
    { destruct (bN b =? 224); eapply in_rng_hi; try exact C1; lia. }
    rewrite H1, (in_rng_hi b2 128 191 C2) by lia. reflexivity. }
  destruct ((240 <=? bN b) && (bN b <=? 244)) eqn:E3; [|discriminate].
  destruct r as [|b1 [|b2 [|b3 r3]]]; try discriminate.
  destruct (in_rng b1 (if bN b =? 240 then 144 else 128) (if bN b =? 244 then 143 else 191)) eqn:C1; cbn [andb]; [|discriminate].
  destruct (is_cont b2) eqn:C2; cbn [andb]; [|discriminate].
  destruct (is_cont b3) eqn:C3; [|discriminate].
  intro H; inversion H; subst. split; [exact Hb|]. cbn.
  assert (H1 : hi b1 = true).
  { destruct (bN b =? 240); eapply in_rng_hi; try exact C1; lia. }
  rewrite H1, (in_rng_hi b2 128 191 C2), (in_rng_hi b3 128 191 C3) by lia. reflexivity.
Qed.

Lemma esc_flat : forall s k,
  all_hi k s = true -> tok_ok k s = true ->
  esc k s = flat_map esc1 s /\ forallb okb s = true.
Proof.
  induction s as [|b r IH]; intros k Hh Ht.
  - destruct k; cbn in *; [split; reflexivity | discriminate].
  - destruct k as [|k'].
    + cbn [esc tok_ok] in *.
      destruct (classify (b :: r)) eqn:C; try discriminate.
      * apply andb_true_iff in Ht. destruct Ht as [Hb Hr].
        destruct (IH 0%nat eq_refl Hr) as [E F].
        cbn [flat_map forallb]. rewrite E, F. unfold okb at 1. rewrite Hb. split; reflexivity.
      * destruct (classify_multi b r w C) as [Hb Hw].
        destruct (IH (w - 1)%nat Hw Ht) as [E F].
        cbn [flat_map forallb]. rewrite E, F, (esc1_hi b Hb), (hi_okb b Hb). split; reflexivity.
    + cbn [all_hi] in Hh. apply andb_true_iff in Hh. destruct Hh as [Hb Hr].
      cbn [esc tok_ok] in *.
      destruct (IH k' Hr Ht) as [E F].
      cbn [flat_map forallb]. rewrite E, F, (esc1_hi b Hb), (hi_okb b Hb). split; reflexivity.
Qed.

Lemma escape_text_clean s : text_ok s = true -> escape_text s = flat_map esc1 s /\ forallb okb s = true.
Proof. intro H. apply (esc_flat s 0%nat eq_refl H). Qed.

(* ------------------------------------------------------------------ *)
(* 3. The start-tag reader on what Send prints                         *)

Lemma feed_app : forall a b st,
  feed st (a ++ b) = match feed st a with Some st' => feed st' b | None => None end.
Proof.
  induction a as [|x a IH]; intros b st; cbn; [reflexivity|].
  destruct (step st x); try reflexivity. apply IH.
Qed.

Lemma run_feed : forall a b st st', feed st a = Some st' -> run st (a ++ b) = run st' b.
Proof.
  induction a as [|x a IH]; intros b st st' H; cbn in *.
  - inversion H; reflexivity.
  - destruct (step st x); try discriminate. apply IH. exact H.
Qed.

Definition quote : byte := "'"%byte.

(* one byte of clean text, escaped, read back inside a single-quoted value *)
Lemma feed_esc1 n at_ an acc b :
  okb b = true ->
  feed (PVal n at_ an quote acc None) (esc1 b) = Some (PVal n at_ an quote (b :: acc) None).
Proof. destruct b; intro H; try discriminate H; reflexivity. Qed.

Lemma feed_flat n at_ an : forall v acc,
  forallb okb v = true ->
  feed (PVal n at_ an quote acc None) (flat_map esc1 v) = Some (PVal n at_ an quote (rev v ++ acc) None).
Proof.
  induction v as [|b v IH]; intros acc H; cbn [flat_map forallb] in *.
  - reflexivity.
  - apply andb_true_iff in H. destruct H as [Hb Hv].
    rewrite feed_app, (feed_esc1 n at_ an acc b Hb), (IH (b :: acc) Hv).
    cbn [rev]. rewrite <- app_assoc. reflexivity.
Qed.

(* an escaped value and its closing quote *)
Lemma feed_escaped n at_ an v :
  text_ok v = true ->
  feed (PVal n at_ an quote [] None) (escape_text v ++ [quote]) = Some (PGap n (mkra an v :: at_)).
Proof.
  intro H. destruct (escape_text_clean v H) as [E F].
  rewrite feed_app, E, (feed_flat n at_ an v [] F). rewrite app_nil_r.
  cbn [feed step]. unfold quote. rewrite byte_eqb_refl. rewrite rev_involutive, H. reflexivity.
Qed.

(* values printed raw (%s): no quote, ampersand or angle bracket in them *)
Definition plainb (b : byte) : bool :=
  okb b && negb (byte_eqb b quote) && negb (byte_eqb b "<"%byte) && negb (byte_eqb b "&"%byte).

Lemma feed_plain1 n at_ an acc b :
  plainb b = true ->
  feed (PVal n at_ an quote acc None) [b] = Some (PVal n at_ an quote (b :: acc) None).
Proof.
  unfold plainb. intro H. cbn [feed step].
  destruct (byte_eqb b quote); [cbn in H; rewrite ?andb_false_r in H; discriminate|].
  destruct (byte_eqb b "<"%byte); [cbn in H; rewrite ?andb_false_r in H; discriminate|].
  destruct (byte_eqb b "&"%byte); [cbn in H; rewrite ?andb_false_r in H; discriminate|].
  reflexivity.
Qed.

Lemma feed_plain n at_ an : forall v acc,
  forallb plainb v = true ->
  feed (PVal n at_ an quote acc None) v = Some (PVal n at_ an quote (rev v ++ acc) None).
Proof.
  induction v as [|b v IH]; intros acc H; cbn [forallb] in *.
  - reflexivity.
  - apply andb_true_iff in H. destruct H as [Hb Hv].
    change (b :: v) with ([b] ++ v).
    rewrite feed_app, (feed_plain1 n at_ an acc b Hb), (IH (b :: acc) Hv).
    cbn [app rev]. rewrite <- app_assoc. reflexivity.
Qed.

Lemma feed_raw n at_ an v :
  forallb plainb v = true -> text_ok v = true ->
  feed (PVal n at_ an quote [] None) (v ++ [quote]) = Some (PGap n (mkra an v :: at_)).
Proof.
  intros P H. rewrite feed_app, (feed_plain n at_ an v [] P), app_nil_r.
  cbn [feed step]. unfold quote. rewrite byte_eqb_refl, rev_involutive, H. reflexivity.
Qed.

(* the four attributes Send prints through writeAttr *)
Definition ra_opt (name value : bytes) : list rattr := if is_nil value then [] else [mkra name value].

Lemma feed_opt_attr n at_ name pre v :
  (forall at', feed (PGap n at') (str " " ++ name ++ str "='") = Some (PVal n at' pre quote [] None)) ->
  text_ok v = true ->
  feed (PGap n at_) (opt_attr name v) = Some (PGap n (rev (ra_opt pre v) ++ at_)).
Proof.
  intros Hpre H. unfold opt_attr, ra_opt. destruct (is_nil v); [reflexivity|].
  unfold write_attr.
  replace (str " " ++ name ++ str "='" ++ escape_text v ++ str "'")
    with ((str " " ++ name ++ str "='") ++ (escape_text v ++ [quote]))
    by (rewrite <- !app_assoc; reflexivity).
  rewrite feed_app, Hpre. apply feed_escaped. exact H.
Qed.

Lemma pre_id n at' : feed (PGap n at') (str " " ++ str "id" ++ str "='") = Some (PVal n at' (str "id") quote [] None).
Proof. reflexivity. Qed.
Lemma pre_to n at' : feed (PGap n at') (str " " ++ str "to" ++ str "='") = Some (PVal n at' (str "to") quote [] None).
Proof. reflexivity. Qed.
Lemma pre_from n at' : feed (PGap n at') (str " " ++ str "from" ++ str "='") = Some (PVal n at' (str "from") quote [] None).
Proof. reflexivity. Qed.
Lemma pre_lang n at' : feed (PGap n at') (str " " ++ str "xml:lang" ++ str "='") = Some (PVal n at' (str "xml:lang") quote [] None).
Proof. reflexivity. Qed.

Lemma feed_four n at_ lang to from id :
  text_ok lang = true -> text_ok to = true -> text_ok from = true -> text_ok id = true ->
  feed (PGap n at_)
       (opt_attr (str "id") id ++ opt_attr (str "to") to ++ opt_attr (str "from") from ++ opt_attr (str "xml:lang") lang)
  = Some (PGap n (rev (ra_opt (str "id") id ++ ra_opt (str "to") to ++ ra_opt (str "from") from ++
                       ra_opt (str "xml:lang") lang) ++ at_)).
Proof.
  intros Hl Ht Hf Hi.
  rewrite feed_app, (feed_opt_attr n at_ _ _ id (pre_id n) Hi).
  rewrite feed_app, (feed_opt_attr n _ _ _ to (pre_to n) Ht).
  rewrite feed_app, (feed_opt_attr n _ _ _ from (pre_from n) Hf).
  rewrite (feed_opt_attr n _ _ _ lang (pre_lang n) Hl).
  rewrite !rev_app_distr, <- !app_assoc. reflexivity.
Qed.

(* decimal digits of a version number *)
Lemma plain_dec3 n : n < 256 -> forallb plainb (dec3 n) = true /\ text_ok (dec3 n) = true.
Proof.
  intro H.
  assert (E : forallb (fun k => forallb plainb (dec3 (N.of_nat k)) && text_ok (dec3 (N.of_nat k)))
                      (seq 0 256) = true) by (vm_compute; reflexivity).
  rewrite forallb_forall in E.
  specialize (E (N.to_nat n)). rewrite N2Nat.id in E.
  apply andb_true_iff. apply E. apply in_seq. lia.
Qed.

Lemma forallb_plain_okb v : forallb plainb v = true -> forallb okb v = true.
Proof.
  induction v as [|b v IH]; cbn; [reflexivity|]. intro H.
  apply andb_true_iff in H. destruct H as [Hb Hv]. rewrite (IH Hv), andb_true_r.
  unfold plainb in Hb. destruct (okb b); [reflexivity | discriminate].
Qed.

(* text_ok of a concatenation of two clean texts *)
Lemma tok_ok_app : forall a k b, tok_ok k a = true -> tok_ok 0 b = true -> tok_ok k (a ++ b) = true.
Proof.
  induction a as [|x a IH]; intros k b Ha Hb.
  - destruct k; cbn in *; [exact Hb | discriminate].
  - destruct k as [|k'].
    + cbn [tok_ok app] in *.
      assert (C : classify (x :: a ++ b) = classify (x :: a) \/ classify (x :: a) = CBad).
      { unfold classify.
        destruct (bN x <? 128); [left; reflexivity|].
        destruct ((194 <=? bN x) && (bN x <=? 223)).
        { destruct a as [|a1 a']; [right; reflexivity | left; reflexivity]. }
        destruct ((224 <=? bN x) && (bN x <=? 239)).
        { destruct a as [|a1 [|a2 a']]; [right; reflexivity | right; reflexivity | left; reflexivity]. }
        destruct ((240 <=? bN x) && (bN x <=? 244)); [|left; reflexivity].
        destruct a as [|a1 [|a2 [|a3 a']]]; try (right; reflexivity). left; reflexivity. }
      destruct C as [C|C]; [|rewrite C in Ha; discriminate].
      rewrite C. destruct (classify (x :: a)); try discriminate.
      * apply andb_true_iff in Ha. destruct Ha as [H1 H2]. rewrite H1. cbn. apply IH; assumption.
      * apply IH; assumption.
    + cbn [tok_ok app] in *. apply IH; assumption.
Qed.

Lemma text_ok_app a b : text_ok a = true -> text_ok b = true -> text_ok (a ++ b) = true.
Proof. apply tok_ok_app. Qed.

Lemma plain_version v :
  fst v < 256 -> snd v < 256 ->
  forallb plainb (version_string v) = true /\ text_ok (version_string v) = true.
Proof.
  intros Ha Hb. unfold version_string.
  destruct (plain_dec3 _ Ha) as [P1 T1]. destruct (plain_dec3 _ Hb) as [P2 T2].
  split.
  - rewrite !forallb_app, P1, P2. reflexivity.
  - apply text_ok_app; [exact T1|]. apply text_ok_app; [reflexivity | exact T2].
Qed.

(* ---- the whole header ---- *)

Lemma run_close n at_ rest : run (PGap n at_) (str ">" ++ rest) = Some (n, rev at_, false, rest).
Proof. reflexivity. Qed.

Lemma run_selfclose n at_ rest : run (PGap n at_) (str "/>" ++ rest) = Some (n, rev at_, true, rest).
Proof. reflexivity. Qed.

Definition hdr_attrs (lang to from id : bytes) : list rattr :=
  ra_opt (str "id") id ++ ra_opt (str "to") to ++ ra_opt (str "from") from ++ ra_opt (str "xml:lang") lang.

Lemma run_tcp xmlns ver lang to from id rest :
  forallb plainb xmlns = true -> text_ok xmlns = true ->
  fst ver < 256 -> snd ver < 256 ->
  text_ok lang = true -> text_ok to = true -> text_ok from = true -> text_ok id = true ->
  run (PStart false) (send_header false xmlns ver lang to from id ++ rest) =
  Some (str "stream:stream",
        [mkra (str "xmlns") xmlns; mkra (str "xmlns:stream") (str "http://etherx.jabber.org/streams");
         mkra (str "version") (version_string ver)] ++ hdr_attrs lang to from id,
        false, rest).
Proof.
  intros Px Tx Ha Hb Hl Ht Hf Hi.
  destruct (plain_version ver Ha Hb) as [Pv Tv].
  unfold send_header. cbv beta iota.
  set (four := opt_attr (str "id") id ++ opt_attr (str "to") to ++ opt_attr (str "from") from ++ opt_attr (str "xml:lang") lang).
  match goal with |- run _ ?x = _ =>
    assert (E : x = (xml_header ++ str "<stream:stream xmlns='") ++ ((xmlns ++ [quote]) ++
          (str " xmlns:stream='http://etherx.jabber.org/streams' version='" ++ ((version_string ver ++ [quote]) ++
          (four ++ (str ">" ++ rest))))))
      by (unfold four; rewrite <- !app_assoc; reflexivity);
    rewrite E; clear E
  end.
  rewrite (run_feed (xml_header ++ str "<stream:stream xmlns='") _ (PStart false)
                    (PVal (str "stream:stream") [] (str "xmlns") quote [] None)) by (vm_compute; reflexivity).
  rewrite (run_feed (xmlns ++ [quote]) _ _ _ (feed_raw _ _ _ xmlns Px Tx)).
  rewrite (run_feed (str " xmlns:stream='http://etherx.jabber.org/streams' version='") _ _
                    (PVal (str "stream:stream")
                          [mkra (str "xmlns:stream") (str "http://etherx.jabber.org/streams"); mkra (str "xmlns") xmlns]
                          (str "version") quote [] None)) by reflexivity.
  rewrite (run_feed (version_string ver ++ [quote]) _ _ _ (feed_raw _ _ _ _ Pv Tv)).
  rewrite (run_feed four _ _ _ (feed_four _ _ lang to from id Hl Ht Hf Hi)).
  rewrite run_close. unfold hdr_attrs.
  rewrite rev_app_distr, rev_involutive. cbn [rev app]. reflexivity.
Qed.

Lemma run_ws xmlns ver lang to from id rest :
  fst ver < 256 -> snd ver < 256 ->
  text_ok lang = true -> text_ok to = true -> text_ok from = true -> text_ok id = true ->
  run (PStart false) (send_header true xmlns ver lang to from id ++ rest) =
  Some (str "open",
        [mkra (str "xmlns") (str "urn:ietf:params:xml:ns:xmpp-framing");
         mkra (str "version") (version_string ver)] ++ hdr_attrs lang to from id,
        true, rest).
Proof.
  intros Ha Hb Hl Ht Hf Hi.
  destruct (plain_version ver Ha Hb) as [Pv Tv].
  unfold send_header. cbv beta iota.
  set (four := opt_attr (str "id") id ++ opt_attr (str "to") to ++ opt_attr (str "from") from ++ opt_attr (str "xml:lang") lang).
  match goal with |- run _ ?x = _ =>
    assert (E : x = str "<open xmlns=""urn:ietf:params:xml:ns:xmpp-framing"" version='" ++ ((version_string ver ++ [quote]) ++
          (four ++ (str "/>" ++ rest))))
      by (unfold four; rewrite <- !app_assoc; reflexivity);
    rewrite E; clear E
  end.
  rewrite (run_feed (str "<open xmlns=""urn:ietf:params:xml:ns:xmpp-framing"" version='") _ (PStart false)
                    (PVal (str "open") [mkra (str "xmlns") (str "urn:ietf:params:xml:ns:xmpp-framing")]
                          (str "version") quote [] None)) by (vm_compute; reflexivity).
  rewrite (run_feed (version_string ver ++ [quote]) _ _ _ (feed_raw _ _ _ _ Pv Tv)).
  rewrite (run_feed four _ _ _ (feed_four _ _ lang to from id Hl Ht Hf Hi)).
  rewrite run_selfclose. unfold hdr_attrs.
  rewrite rev_app_distr, rev_involutive. cbn [rev app]. reflexivity.
Qed.

(* what a peer's parser hands on: the start element of the header *)
Definition at_opt (space local value : bytes) : list attr :=
  if is_nil value then [] else [mkattr space local value].

Definition hdr_token_attrs (lang to from id : bytes) : list attr :=
  at_opt [] (str "id") id ++ at_opt [] (str "to") to ++ at_opt [] (str "from") from ++ at_opt ns_xml (str "lang") lang.

Definition tcp_token (xmlns : bytes) (ver : N * N) (lang to from id : bytes) : tok :=
  TStart ns_stream (str "stream")
    ([mkattr [] (str "xmlns") xmlns; mkattr (str "xmlns") (str "stream") ns_stream;
      mkattr [] (str "version") (version_string ver)] ++ hdr_token_attrs lang to from id).

Definition ws_token (ver : N * N) (lang to from id : bytes) : tok :=
  TStart ns_ws (str "open")
    ([mkattr [] (str "xmlns") ns_ws; mkattr [] (str "version") (version_string ver)] ++ hdr_token_attrs lang to from id).

Lemma read_start_tcp xmlns ver lang to from id rest :
  forallb plainb xmlns = true -> text_ok xmlns = true ->
  fst ver < 256 -> snd ver < 256 ->
  text_ok lang = true -> text_ok to = true -> text_ok from = true -> text_ok id = true ->
  read_start (send_header false xmlns ver lang to from id ++ rest) =
  Some (tcp_token xmlns ver lang to from id, false, rest).
Proof.
  intros Px Tx Ha Hb Hl Ht Hf Hi. unfold read_start.
  rewrite (run_tcp xmlns ver lang to from id rest Px Tx Ha Hb Hl Ht Hf Hi).
  unfold hdr_attrs, tcp_token, hdr_token_attrs, ra_opt, at_opt.
  destruct (is_nil id), (is_nil to), (is_nil from), (is_nil lang); reflexivity.
Qed.

Lemma read_start_ws xmlns ver lang to from id rest :
  fst ver < 256 -> snd ver < 256 ->
  text_ok lang = true -> text_ok to = true -> text_ok from = true -> text_ok id = true ->
  read_start (send_header true xmlns ver lang to from id ++ rest) =
  Some (ws_token ver lang to from id, true, rest).
Proof.
  intros Ha Hb Hl Ht Hf Hi. unfold read_start.
  rewrite (run_ws xmlns ver lang to from id rest Ha Hb Hl Ht Hf Hi).
  unfold hdr_attrs, ws_token, hdr_token_attrs, ra_opt, at_opt.
  destruct (is_nil id), (is_nil to), (is_nil from), (is_nil lang); reflexivity.
Qed.

(* ------------------------------------------------------------------ *)
(* 4. Versions                                                         *)

Lemma parse_version_string v :
  fst v < 256 -> snd v < 256 -> parse_version (version_string v) = Some v.
Proof.
  destruct v as [a b]. cbn [fst snd]. intros Ha Hb.
  assert (E : forallb (fun x => forallb (fun y =>
                match parse_version (version_string (N.of_nat x, N.of_nat y)) with
                | Some (p, q) => (p =? N.of_nat x) && (q =? N.of_nat y)
                | None => false
                end) (seq 0 256)) (seq 0 256) = true) by (vm_compute; reflexivity).
  rewrite forallb_forall in E.
  assert (Ia : In (N.to_nat a) (seq 0 256)) by (apply in_seq; lia).
  assert (Ib : In (N.to_nat b) (seq 0 256)) by (apply in_seq; lia).
  specialize (E (N.to_nat a) Ia). rewrite forallb_forall in E. specialize (E (N.to_nat b) Ib).
  rewrite !N2Nat.id in E.
  destruct (parse_version (version_string (a, b))) as [[p q]|]; [|discriminate E].
  apply andb_true_iff in E. destruct E as [E1 E2].
  apply N.eqb_eq in E1, E2. subst. reflexivity.
Qed.

(* ------------------------------------------------------------------ *)
(* 5. Expect on the header Send printed                                *)

Section WithParse.
Variable parse : bytes -> option jid.

Lemma from_attrs_app : forall l1 l2 i,
  from_attrs parse (l1 ++ l2) i =
  match from_attrs parse l1 i with
  | (None, i') => from_attrs parse l2 i'
  | r => r
  end.
Proof.
  induction l1 as [|a l1 IH]; intros l2 i; [reflexivity|].
  cbn [app from_attrs].
  destruct (is_nil (a_space a)).
  - destruct (bytes_eqb (a_local a) (str "xmlns")); [apply IH|].
    destruct (bytes_eqb (a_local a) (str "to")).
    { destruct (is_nil (a_val a)); [apply IH|]. destruct (parse (a_val a)); [apply IH | reflexivity]. }
    destruct (bytes_eqb (a_local a) (str "from")).
    { destruct (is_nil (a_val a)); [apply IH|]. destruct (parse (a_val a)); [apply IH | reflexivity]. }
    destruct (bytes_eqb (a_local a) (str "id")); [apply IH|].
    destruct (bytes_eqb (a_local a) (str "version")); [|apply IH].
    destruct (parse_version (a_val a)); [apply IH | reflexivity].
  - destruct ((bytes_eqb (a_space a) ns_xml || bytes_eqb (a_space a) (str "xml")) && bytes_eqb (a_local a) (str "lang")); apply IH.
Qed.

(* a printed address: nothing when the JID is empty, else a string jid.Parse maps back *)
Definition addr_ok (j : jid) : Prop := jid_string j = [] \/ parse (jid_string j) = Some j.

Lemma from_attrs_id i id :
  from_attrs parse (at_opt [] (str "id") id) i = (None, if is_nil id then i else set_id i id).
Proof. unfold at_opt. destruct (is_nil id); reflexivity. Qed.

Lemma from_attrs_to i j :
  addr_ok j ->
  from_attrs parse (at_opt [] (str "to") (jid_string j)) i = (None, if is_nil (jid_string j) then i else set_to i j).
Proof.
  intros [E|E]; unfold at_opt.
  - rewrite E. reflexivity.
  - destruct (is_nil (jid_string j)) eqn:N; [reflexivity|].
    cbn [from_attrs a_space a_local a_val is_nil].
    change (bytes_eqb (str "to") (str "xmlns")) with false.
    change (bytes_eqb (str "to") (str "to")) with true. cbv iota.
    rewrite N, E. reflexivity.
Qed.

Lemma from_attrs_from i j :
  addr_ok j ->
  from_attrs parse (at_opt [] (str "from") (jid_string j)) i = (None, if is_nil (jid_string j) then i else set_from i j).
Proof.
  intros [E|E]; unfold at_opt.
  - rewrite E. reflexivity.
  - destruct (is_nil (jid_string j)) eqn:N; [reflexivity|].
    cbn [from_attrs a_space a_local a_val is_nil].
    change (bytes_eqb (str "from") (str "xmlns")) with false.
    change (bytes_eqb (str "from") (str "to")) with false.
    change (bytes_eqb (str "from") (str "from")) with true. cbv iota.
    rewrite N, E. reflexivity.
Qed.

(* xml:lang arrives in the XML name space *)
Lemma from_attrs_lang i lang :
  from_attrs parse (at_opt ns_xml (str "lang") lang) i = (None, if is_nil lang then i else set_lang i lang).
Proof. unfold at_opt. destruct (is_nil lang); reflexivity. Qed.

Definition recovered (i0 : info) (ns l xmlns : bytes) (jto jfrom : jid) (id lang : bytes) : info :=
  mkinfo ns l xmlns
         (if is_nil (jid_string jto) then i_to i0 else jto)
         (if is_nil (jid_string jfrom) then i_from i0 else jfrom)
         (if is_nil id then i_id i0 else id)
         default_version (if is_nil lang then i_lang i0 else lang).

Lemma from_start_tcp i0 xmlns lang jto jfrom id :
  addr_ok jto -> addr_ok jfrom ->
  from_start_element parse ns_stream (str "stream")
    ([mkattr [] (str "xmlns") xmlns; mkattr (str "xmlns") (str "stream") ns_stream;
      mkattr [] (str "version") (version_string default_version)] ++
     hdr_token_attrs lang (jid_string jto) (jid_string jfrom) id) i0
  = (None, recovered i0 ns_stream (str "stream") xmlns jto jfrom id lang).
Proof.
  intros Ht Hf. unfold from_start_element, hdr_token_attrs.
  rewrite from_attrs_app.
  replace (from_attrs parse [mkattr [] (str "xmlns") xmlns; mkattr (str "xmlns") (str "stream") ns_stream;
                             mkattr [] (str "version") (version_string default_version)]
                      (set_name i0 ns_stream (str "stream")))
    with (@None eres, set_ver (set_xmlns (set_name i0 ns_stream (str "stream")) xmlns) default_version) by reflexivity.
  rewrite from_attrs_app, from_attrs_id.
  rewrite from_attrs_app, (from_attrs_to _ jto Ht).
  rewrite from_attrs_app, (from_attrs_from _ jfrom Hf).
  rewrite from_attrs_lang.
  unfold recovered. destruct (is_nil id), (is_nil (jid_string jto)), (is_nil (jid_string jfrom)), (is_nil lang); reflexivity.
Qed.

Lemma from_start_ws i0 lang jto jfrom id :
  addr_ok jto -> addr_ok jfrom ->
  from_start_element parse ns_ws (str "open")
    ([mkattr [] (str "xmlns") ns_ws; mkattr [] (str "version") (version_string default_version)] ++
     hdr_token_attrs lang (jid_string jto) (jid_string jfrom) id) i0
  = (None, recovered i0 ns_ws (str "open") ns_ws jto jfrom id lang).
Proof.
  intros Ht Hf. unfold from_start_element, hdr_token_attrs.
  rewrite from_attrs_app.
  replace (from_attrs parse [mkattr [] (str "xmlns") ns_ws; mkattr [] (str "version") (version_string default_version)]
                      (set_name i0 ns_ws (str "open")))
    with (@None eres, set_ver (set_xmlns (set_name i0 ns_ws (str "open")) ns_ws) default_version) by reflexivity.
  rewrite from_attrs_app, from_attrs_id.
  rewrite from_attrs_app, (from_attrs_to _ jto Ht).
  rewrite from_attrs_app, (from_attrs_from _ jfrom Hf).
  rewrite from_attrs_lang.
  unfold recovered. destruct (is_nil id), (is_nil (jid_string jto)), (is_nil (jid_string jfrom)), (is_nil lang); reflexivity.
Qed.

(* Expect on the printed header: every value comes back *)
Lemma expect_tcp_header recv i0 xmlns lang jto jfrom id rest :
  xmlns = ns_client \/ xmlns = ns_server ->
  addr_ok jto -> addr_ok jfrom ->
  let i' := recovered i0 ns_stream (str "stream") xmlns jto jfrom id lang in
  expect parse recv false i0
         (tcp_token xmlns default_version lang (jid_string jto) (jid_string jfrom) id :: rest) =
  if negb recv && is_nil (i_id i') then (EStream c_bad_format, i', []) else (EOk, i', rest).
Proof.
  intros Hx Ht Hf i'. unfold expect, tcp_token. cbn [expect_go].
  change (bytes_eqb ns_stream ns_stream && bytes_eqb (str "stream") (str "error")) with false.
  change (bytes_eqb ns_stream ns_stream && negb (bytes_eqb (str "stream") (str "stream"))) with false.
  cbv iota. unfold expect_start.
  change (bytes_eqb (str "stream") (str "stream") && bytes_eqb ns_stream ns_stream) with true.
  cbv beta iota zeta. cbn [negb].
  rewrite (from_start_tcp i0 xmlns lang jto jfrom id Ht Hf). fold i'.
  assert (V : ver_eqb (i_ver i') default_version = true) by reflexivity.
  rewrite V. cbn [negb].
  assert (X : negb (bytes_eqb (i_xmlns i') ns_client) && negb (bytes_eqb (i_xmlns i') ns_server) = false).
  { unfold i', recovered; cbn [i_xmlns]. destruct Hx as [-> | ->]; reflexivity. }
  cbn [andb]. rewrite X. reflexivity.
Qed.

Lemma expect_ws_header recv i0 lang jto jfrom id rest :
  addr_ok jto -> addr_ok jfrom ->
  let i' := recovered i0 ns_ws (str "open") ns_ws jto jfrom id lang in
  expect parse recv true i0
         (ws_token default_version lang (jid_string jto) (jid_string jfrom) id :: TEnd ns_ws (str "open") :: rest) =
  if negb recv && is_nil (i_id i') then (EStream c_bad_format, i', []) else (EOk, i', rest).
Proof.
  intros Ht Hf i'. unfold expect, ws_token. cbn [expect_go].
  change (bytes_eqb ns_ws ns_stream && bytes_eqb (str "open") (str "error")) with false.
  change (bytes_eqb ns_ws ns_stream && negb (bytes_eqb (str "open") (str "stream"))) with false.
  cbv iota. unfold expect_start.
  change (bytes_eqb (str "open") (str "open") && bytes_eqb ns_ws ns_ws) with true.
  cbv beta iota zeta. cbn [negb].
  change (ws_skip 0 (TEnd ns_ws (str "open") :: rest)) with (EOk, rest).
  cbv beta iota zeta.
  rewrite (from_start_ws i0 lang jto jfrom id Ht Hf). fold i'.
  assert (V : ver_eqb (i_ver i') default_version = true) by reflexivity.
  rewrite V. cbn [negb andb]. reflexivity.
Qed.

End WithParse.

(* ------------------------------------------------------------------ *)
(* 6. What Expect accepts                                              *)

(* encoding/xml never delivers an end element before the first start element *)
Fixpoint no_end_before_start (ts : list tok) : bool :=
  match ts with
  | [] => true
  | TStart _ _ _ :: _ => true
  | TEnd _ _ :: _ => false
  | _ :: r => no_end_before_start r
  end.

(* white space, after at most one leading XML declaration *)
Fixpoint clean_prefix (started : bool) (pre : list tok) : bool :=
  match pre with
  | [] => true
  | TChar b :: r => all_space b && clean_prefix true r
  | TProcInst tg :: r => negb started && bytes_eqb tg (str "xml") && clean_prefix true r
  | _ => false
  end.

Definition is_header (ws : bool) (ns l : bytes) : Prop :=
  if ws then l = str "open" /\ ns = ns_ws else l = str "stream" /\ ns = ns_stream.

Lemma ver_eqb_eq a b : ver_eqb a b = true -> a = b.
Proof.
  destruct a, b; unfold ver_eqb; cbn. intro H. apply andb_true_iff in H. destruct H as [H1 H2].
  apply N.eqb_eq in H1, H2. congruence.
Qed.

Lemma stream_error_not_ok : forall ts sk c, stream_error sk c ts <> EOk.
Proof.
  induction ts as [|t r IH]; intros sk c; cbn [stream_error]; [discriminate|].
  destruct sk as [d|].
  - destruct t; try apply IH.
  - destruct t as [ns l a|ns l| | | |]; try apply IH. discriminate.
Qed.

Section Accept.
Variable parse : bytes -> option jid.

Lemma from_attrs_err : forall attrs i e i1,
  from_attrs parse attrs i = (Some e, i1) -> exists c, e = EStream c.
Proof.
  induction attrs as [|a r IH]; intros i e i1 H; cbn [from_attrs] in H; [discriminate|].
  destruct (is_nil (a_space a)).
  - destruct (bytes_eqb (a_local a) (str "xmlns")); [eapply IH; exact H|].
    destruct (bytes_eqb (a_local a) (str "to")).
    { destruct (is_nil (a_val a)); [eapply IH; exact H|].
      destruct (parse (a_val a)); [eapply IH; exact H|]. inversion H; eexists; reflexivity. }
    destruct (bytes_eqb (a_local a) (str "from")).
    { destruct (is_nil (a_val a)); [eapply IH; exact H|].
      destruct (parse (a_val a)); [eapply IH; exact H|]. inversion H; eexists; reflexivity. }
    destruct (bytes_eqb (a_local a) (str "id")); [eapply IH; exact H|].
    destruct (bytes_eqb (a_local a) (str "version")); [|eapply IH; exact H].
    destruct (parse_version (a_val a)); [eapply IH; exact H|]. inversion H; eexists; reflexivity.
  - destruct ((bytes_eqb (a_space a) ns_xml || bytes_eqb (a_space a) (str "xml")) && bytes_eqb (a_local a) (str "lang")); eapply IH; exact H.
Qed.

Lemma expect_start_ok recv ws ns l attrs i r i' rest :
  expect_start parse recv ws ns l attrs i r = (EOk, i', rest) ->
  is_header ws ns l /\
  from_start_element parse ns l attrs i = (None, i') /\
  i_ver i' = default_version /\
  (ws = false -> i_xmlns i' = ns_client \/ i_xmlns i' = ns_server) /\
  (recv = false -> i_id i' <> []) /\
  (if ws then ws_skip 0 r = (EOk, rest) else rest = r).
Proof.
  unfold expect_start.
  destruct (negb (if ws then bytes_eqb l (str "open") && bytes_eqb ns ns_ws
                  else bytes_eqb l (str "stream") && bytes_eqb ns ns_stream)) eqn:Hh; [discriminate|].
  assert (Hhdr : is_header ws ns l).
  { unfold is_header. apply negb_false_iff in Hh. destruct ws; apply andb_true_iff in Hh; destruct Hh as [A B];
      apply bytes_eqb_eq in A, B; split; assumption. }
  destruct (if ws then ws_skip 0 r else (EOk, r)) as [e r'] eqn:Hs.
  destruct e; try discriminate.
  destruct (from_start_element parse ns l attrs i) as [[err|] i1] eqn:Hf.
  { intro H; inversion H; subst. destruct (from_attrs_err _ _ _ _ Hf) as [c Hc]. discriminate Hc. }
  destruct (negb (ver_eqb (i_ver i1) default_version)) eqn:Hv; [discriminate|].
  destruct (negb ws && negb (bytes_eqb (i_xmlns i1) ns_client) && negb (bytes_eqb (i_xmlns i1) ns_server)) eqn:Hx; [discriminate|].
  destruct (negb recv && is_nil (i_id i1)) eqn:Hi; [discriminate|].
  intro H; inversion H; subst. repeat split.
  - exact Hhdr.
  - apply ver_eqb_eq. apply negb_false_iff in Hv. exact Hv.
  - intro W; subst ws. cbn [negb andb] in Hx.
    destruct (bytes_eqb (i_xmlns i') ns_client) eqn:C; [left; apply bytes_eqb_eq; exact C|].
    destruct (bytes_eqb (i_xmlns i') ns_server) eqn:S; [right; apply bytes_eqb_eq; exact S|].
    discriminate.
  - intro R; subst recv. cbn [negb andb] in Hi. intro E. rewrite E in Hi. discriminate.
  - destruct ws; [exact Hs | inversion Hs; reflexivity].
Qed.

Lemma expect_go_ok : forall ts recv ws started i i' rest,
  no_end_before_start ts = true ->
  expect_go parse recv ws started false i ts = (EOk, i', rest) ->
  exists pre ns l attrs post,
    ts = pre ++ TStart ns l attrs :: post /\
    clean_prefix started pre = true /\
    is_header ws ns l /\
    from_start_element parse ns l attrs i = (None, i') /\
    i_ver i' = default_version /\
    (ws = false -> i_xmlns i' = ns_client \/ i_xmlns i' = ns_server) /\
    (recv = false -> i_id i' <> []) /\
    (if ws then ws_skip 0 post = (EOk, rest) else rest = post).
Proof.
  induction ts as [|t r IH]; intros recv ws started i i' rest Hn H; [discriminate|].
  destruct t as [ns l attrs|ns l|b| |tg|]; cbn [expect_go] in H; cbn [no_end_before_start] in Hn.
  - (* start *)
    destruct (bytes_eqb ns ns_stream && bytes_eqb l (str "error")).
    { inversion H as [[E1 E2 E3]]. exfalso. exact (stream_error_not_ok _ _ _ E1). }
    destruct (bytes_eqb ns ns_stream && negb (bytes_eqb l (str "stream"))); [discriminate|].
    destruct (expect_start_ok _ _ _ _ _ _ _ _ _ H) as (A & B & C & D & E & F).
    exists [], ns, l, attrs, r. repeat split; assumption.
  - discriminate.
  - (* character data *)
    cbn [orb] in H. destruct (all_space b) eqn:Sp; [|discriminate].
    destruct (IH _ _ _ _ _ _ Hn H) as (pre & ns & l & attrs & post & E & Cl & Rest).
    exists (TChar b :: pre), ns, l, attrs, post. split; [rewrite E; reflexivity|].
    split; [cbn [clean_prefix]; rewrite Sp, Cl; reflexivity | exact Rest].
  - discriminate.
  - (* processing instruction *)
    destruct (negb started && bytes_eqb tg (str "xml")) eqn:D; [|discriminate].
    destruct (IH _ _ _ _ _ _ Hn H) as (pre & ns & l & attrs & post & E & Cl & Rest).
    exists (TProcInst tg :: pre), ns, l, attrs, post. split; [rewrite E; reflexivity|].
    split; [cbn [clean_prefix]; rewrite D, Cl; reflexivity | exact Rest].
  - discriminate.
Qed.

End Accept.

(* ------------------------------------------------------------------ *)
(* 7. Where the fields of the Info come from                           *)

Section Fields.
Variable parse : bytes -> option jid.

Definition has_attr (attrs : list attr) (local : bytes) (P : bytes -> Prop) : Prop :=
  exists a, In a attrs /\ a_space a = [] /\ a_local a = local /\ P (a_val a).

Lemma has_attr_cons a attrs local P : has_attr attrs local P -> has_attr (a :: attrs) local P.
Proof. intros (x & I & R). exists x. split; [right; exact I | exact R]. Qed.

Ltac fa_step H IH a :=
  cbn [from_attrs] in H;
  destruct (is_nil (a_space a)) eqn:Sp;
  [ destruct (bytes_eqb (a_local a) (str "xmlns")) eqn:L1;
    [ | destruct (bytes_eqb (a_local a) (str "to")) eqn:L2;
        [ destruct (is_nil (a_val a)) eqn:V2; [ | destruct (parse (a_val a)) as [j2|] eqn:P2; [ | discriminate H ] ]
        | destruct (bytes_eqb (a_local a) (str "from")) eqn:L3;
          [ destruct (is_nil (a_val a)) eqn:V3; [ | destruct (parse (a_val a)) as [j3|] eqn:P3; [ | discriminate H ] ]
          | destruct (bytes_eqb (a_local a) (str "id")) eqn:L4;
            [ | destruct (bytes_eqb (a_local a) (str "version")) eqn:L5;
                [ destruct (parse_version (a_val a)) as [v5|] eqn:P5; [ | discriminate H ] | ] ] ] ] ]
  | destruct ((bytes_eqb (a_space a) ns_xml || bytes_eqb (a_space a) (str "xml")) && bytes_eqb (a_local a) (str "lang")) ];
  specialize (IH _ _ H).

(* where an address of the Info comes from: the empty attribute is the zero
   JID, any other value goes through jid.Parse *)
Definition addr_src (j : jid) (v : bytes) : Prop :=
  if is_nil v then j = jid_zero else parse v = Some j.

Lemma from_attrs_to_src : forall attrs i i',
  from_attrs parse attrs i = (None, i') ->
  i_to i' = i_to i \/ has_attr attrs (str "to") (addr_src (i_to i')).
Proof.
  induction attrs as [|a r IH]; intros i i' H; [inversion H; left; reflexivity|].
  fa_step H IH a; cbn in IH;
    try (destruct IH as [IH|IH]; [left; exact IH | right; apply has_attr_cons; exact IH]).
  all: destruct IH as [IH|IH]; [|right; apply has_attr_cons; exact IH].
  all: right; exists a; split; [left; reflexivity|]; apply is_nil_true in Sp; apply bytes_eqb_eq in L2;
       repeat split; try assumption; unfold addr_src; rewrite V2; first [exact IH | rewrite IH; exact P2].
Qed.

Lemma from_attrs_from_src : forall attrs i i',
  from_attrs parse attrs i = (None, i') ->
  i_from i' = i_from i \/ has_attr attrs (str "from") (addr_src (i_from i')).
Proof.
  induction attrs as [|a r IH]; intros i i' H; [inversion H; left; reflexivity|].
  fa_step H IH a; cbn in IH;
    try (destruct IH as [IH|IH]; [left; exact IH | right; apply has_attr_cons; exact IH]).
  all: destruct IH as [IH|IH]; [|right; apply has_attr_cons; exact IH].
  all: right; exists a; split; [left; reflexivity|]; apply is_nil_true in Sp; apply bytes_eqb_eq in L3;
       repeat split; try assumption; unfold addr_src; rewrite V3; first [exact IH | rewrite IH; exact P3].
Qed.

Lemma from_attrs_id_src : forall attrs i i',
  from_attrs parse attrs i = (None, i') ->
  i_id i' = i_id i \/ has_attr attrs (str "id") (fun v => v = i_id i').
Proof.
  induction attrs as [|a r IH]; intros i i' H; [inversion H; left; reflexivity|].
  fa_step H IH a; cbn in IH;
    try (destruct IH as [IH|IH]; [left; exact IH | right; apply has_attr_cons; exact IH]).
  destruct IH as [IH|IH]; [|right; apply has_attr_cons; exact IH].
  right. exists a. split; [left; reflexivity|]. apply is_nil_true in Sp. apply bytes_eqb_eq in L4.
  repeat split; try assumption. symmetry; exact IH.
Qed.

Lemma from_attrs_xmlns_src : forall attrs i i',
  from_attrs parse attrs i = (None, i') ->
  i_xmlns i' = i_xmlns i \/ has_attr attrs (str "xmlns") (fun v => v = i_xmlns i').
Proof.
  induction attrs as [|a r IH]; intros i i' H; [inversion H; left; reflexivity|].
  fa_step H IH a; cbn in IH;
    try (destruct IH as [IH|IH]; [left; exact IH | right; apply has_attr_cons; exact IH]).
  destruct IH as [IH|IH]; [|right; apply has_attr_cons; exact IH].
  right. exists a. split; [left; reflexivity|]. apply is_nil_true in Sp. apply bytes_eqb_eq in L1.
  repeat split; try assumption. symmetry; exact IH.
Qed.

Lemma from_attrs_ver_src : forall attrs i i',
  from_attrs parse attrs i = (None, i') ->
  i_ver i' = i_ver i \/ has_attr attrs (str "version") (fun v => parse_version v = Some (i_ver i')).
Proof.
  induction attrs as [|a r IH]; intros i i' H; [inversion H; left; reflexivity|].
  fa_step H IH a; cbn in IH;
    try (destruct IH as [IH|IH]; [left; exact IH | right; apply has_attr_cons; exact IH]).
  destruct IH as [IH|IH]; [|right; apply has_attr_cons; exact IH].
  right. exists a. split; [left; reflexivity|]. apply is_nil_true in Sp. apply bytes_eqb_eq in L5.
  repeat split; try assumption. rewrite IH. exact P5.
Qed.

End Fields.

(* ------------------------------------------------------------------ *)
(* 8. A stream error in place of a header                              *)

Lemma node_ind2 (P : node -> Prop) :
  (forall b, P (NText b)) ->
  (forall ns l a ks, Forall P ks -> P (NElem ns l a ks)) ->
  forall n, P n.
Proof.
  intros Ht He. fix IH 1. intros [ns l a ks|b].
  - apply He. induction ks as [|k ks IHks]; constructor; [apply IH | exact IHks].
  - apply Ht.
Qed.

Lemma skip_node : forall n d c r,
  stream_error (Some d) c (flatten n ++ r) = stream_error (Some d) c r.
Proof.
  induction n as [b|ns l a ks IHks] using node_ind2; intros d c r.
  - reflexivity.
  - cbn [flatten app stream_error].
    assert (K : forall d' r', stream_error (Some d') c (flat_map flatten ks ++ r') = stream_error (Some d') c r').
    { induction IHks as [|k ks Hk _ IHl]; intros d' r'; [reflexivity|].
      cbn [flat_map]. rewrite <- app_assoc, Hk. apply IHl. }
    rewrite <- app_assoc, K. reflexivity.
Qed.

(* the condition UnmarshalXML reports: the last child in the stream error name
   space that is not <text/> *)
Fixpoint cond_of (kids : list node) (c : bytes) : bytes :=
  match kids with
  | [] => c
  | NElem ns l _ _ :: r =>
      cond_of r (if bytes_eqb ns ns_stream_error && negb (bytes_eqb l (str "text")) then l else c)
  | NText _ :: r => cond_of r c
  end.

Lemma stream_error_children : forall kids c ens el rest,
  stream_error None c (flat_map flatten kids ++ TEnd ens el :: rest) = EStream (cond_of kids c).
Proof.
  induction kids as [|k kids IH]; intros c ens el rest; [reflexivity|].
  destruct k as [ns l a ks|b].
  - cbn [flat_map flatten cond_of]. cbn [app stream_error].
    rewrite <- !app_assoc.
    assert (K : forall d c' r', stream_error (Some d) c' (flat_map flatten ks ++ r') = stream_error (Some d) c' r').
    { clear. induction ks as [|k ks IHl]; intros d c' r'; [reflexivity|].
      cbn [flat_map]. rewrite <- app_assoc, skip_node. apply IHl. }
    rewrite K. cbn [app stream_error]. apply IH.
  - cbn [flat_map flatten app stream_error cond_of]. apply IH.
Qed.

(* ------------------------------------------------------------------ *)
(* 9. Addresses across restarts                                        *)

Section Restart.
Variable parse : bytes -> option jid.

Lemma expect_go_from_start : forall ts recv ws started deep i i' rest,
  expect_go parse recv ws started deep i ts = (EOk, i', rest) ->
  exists ns l attrs, In (TStart ns l attrs) ts /\ from_start_element parse ns l attrs i = (None, i').
Proof.
  induction ts as [|t r IH]; intros recv ws started deep i i' rest H; [discriminate|].
  assert (K : forall recv ws started deep, expect_go parse recv ws started deep i r = (EOk, i', rest) ->
              exists ns l attrs, In (TStart ns l attrs) (t :: r) /\ from_start_element parse ns l attrs i = (None, i')).
  { intros rc w st dp G. destruct (IH _ _ _ _ _ _ _ G) as (ns' & l' & at' & I & F).
    exists ns', l', at'. split; [right; exact I | exact F]. }
  destruct t as [ns l attrs|ns l|b| |tg|]; cbn [expect_go] in H.
  - destruct (bytes_eqb ns ns_stream && bytes_eqb l (str "error")).
    { inversion H as [[E1 E2 E3]]. exfalso. exact (stream_error_not_ok _ _ _ E1). }
    destruct (bytes_eqb ns ns_stream && negb (bytes_eqb l (str "stream"))); [discriminate|].
    destruct (expect_start_ok _ _ _ _ _ _ _ _ _ _ H) as (_ & B & _). exists ns, l, attrs.
    split; [left; reflexivity | exact B].
  - destruct (bytes_eqb ns ns_stream); [destruct (bytes_eqb l (str "stream")); discriminate|].
    eapply K; exact H.
  - destruct (deep || all_space b); [eapply K; exact H | discriminate].
  - discriminate.
  - destruct (negb started && bytes_eqb tg (str "xml")); [eapply K; exact H | discriminate].
  - discriminate.
Qed.

(* a start element of the script that carries an empty "to" attribute *)
Definition empty_to_in (ts : list tok) : Prop :=
  exists ns l attrs, In (TStart ns l attrs) ts /\ has_attr attrs (str "to") (fun v => v = []).

(* after an accepted header, an address is the one before, one jid.Parse
   produced, or the zero JID of an empty attribute *)
Lemma expect_to : forall recv ws i ts i' rest,
  expect parse recv ws i ts = (EOk, i', rest) ->
  i_to i' = i_to i \/ (exists v, parse v = Some (i_to i')) \/ (i_to i' = jid_zero /\ empty_to_in ts).
Proof.
  intros recv ws i ts i' rest H. destruct (expect_go_from_start _ _ _ _ _ _ _ _ H) as (ns & l & attrs & I & F).
  unfold from_start_element in F. destruct (from_attrs_to_src parse _ _ _ F) as [E|(a & Ia & Sp & Lo & P)].
  - left. exact E.
  - right. unfold addr_src in P. destruct (is_nil (a_val a)) eqn:V.
    + right. split; [exact P|]. exists ns, l, attrs. split; [exact I|].
      exists a. repeat split; try assumption. apply is_nil_true. exact V.
    + left. exists (a_val a). exact P.
Qed.

Lemma expect_from : forall recv ws i ts i' rest,
  expect parse recv ws i ts = (EOk, i', rest) ->
  i_from i' = i_from i \/ (exists v, parse v = Some (i_from i')) \/ i_from i' = jid_zero.
Proof.
  intros recv ws i ts i' rest H. destruct (expect_go_from_start _ _ _ _ _ _ _ _ H) as (ns & l & attrs & I & F).
  unfold from_start_element in F. destruct (from_attrs_from_src parse _ _ _ F) as [E|(a & _ & _ & _ & P)].
  - left. exact E.
  - right. unfold addr_src in P. destruct (is_nil (a_val a)); [right; exact P | left; exists (a_val a); exact P].
Qed.

Lemma round_recv s2s ws lang rid i ts i' w :
  neg_round parse true s2s ws lang rid i ts = (NOk, i', w) ->
  (i_to i = jid_zero \/ i_to i' = i_to i) /\
  ((s2s = false /\ i_from i = jid_zero) \/ i_from i' = i_from i) /\
  w = send_header ws (content_ns s2s) default_version lang (jid_string (i_from i')) (jid_string (i_to i')) rid.
Proof.
  unfold neg_round. destruct (expect parse true ws i ts) as [[e i1] r1] eqn:E.
  destruct e; try discriminate.
  destruct (negb ((negb s2s && jid_eqb (i_from i) jid_zero) || jid_eqb (i_from i) (i_from i1))) eqn:O; [discriminate|].
  destruct (negb (jid_eqb (i_to i) jid_zero || jid_eqb (i_to i) (i_to i1))) eqn:L; [discriminate|].
  intro H; inversion H; subst. apply negb_false_iff in O, L. repeat split.
  - apply orb_true_iff in L. destruct L as [L|L]; apply jid_eqb_eq in L; [left | right]; congruence.
  - apply orb_true_iff in O. destruct O as [O|O].
    + apply andb_true_iff in O. destruct O as [O1 O2]. left. split; [destruct s2s; [discriminate|reflexivity] | apply jid_eqb_eq; exact O2].
    + right. apply jid_eqb_eq in O. congruence.
Qed.


(* One (re)start on the initiating side: the peer's address must be the one
   established; a header whose "to" is another address is refused, one without
   "to" (or with an empty one) is tolerated and our address is kept. *)
Lemma round_init s2s ws lang rid i ts i' w :
  neg_round parse false s2s ws lang rid i ts = (NOk, i', w) ->
  i_from i' = i_from i /\ i_to i' = i_to i /\
  w = send_header ws (content_ns s2s) default_version lang (jid_string (i_from i)) (jid_string (i_to i)) [].
Proof.
  unfold neg_round. destruct (expect parse false ws i ts) as [[e i1] r1] eqn:E.
  destruct e; try discriminate.
  destruct (negb (jid_eqb (i_from i) (i_from i1))) eqn:L; [discriminate|].
  destruct (negb (jid_eqb (i_to i1) jid_zero) && negb (jid_eqb (i_to i) (i_to i1))) eqn:O; [discriminate|].
  apply negb_false_iff in L. apply jid_eqb_eq in L.
  destruct (jid_eqb (i_to i1) jid_zero) eqn:Z; intro H; inversion H; subst.
  - repeat split. cbn. congruence.
  - cbn [negb andb] in O. apply negb_false_iff in O. apply jid_eqb_eq in O. repeat split; congruence.
Qed.

Lemma reset_to i : i_to (reset_info i) = i_to i. Proof. reflexivity. Qed.
Lemma reset_from i : i_from (reset_info i) = i_from i. Proof. reflexivity. Qed.

Lemma rounds_init s2s ws lang : forall rounds i i' wires,
  neg_rounds parse false s2s ws lang i rounds = (NOk, i', wires) ->
  i_to i' = i_to i /\ i_from i' = i_from i.
Proof.
  induction rounds as [|[rid ts] rest IH]; intros i i' wires H; cbn [neg_rounds] in H.
  - inversion H; split; reflexivity.
  - destruct (neg_round parse false s2s ws lang rid (reset_info i) ts) as [[res i1] w] eqn:R.
    destruct res; try discriminate.
    destruct (neg_rounds parse false s2s ws lang i1 rest) as [[res2 i2] ws'] eqn:R2.
    inversion H; subst.
    destruct (round_init _ _ _ _ _ _ _ _ R) as (F & T & _).
    destruct (IH _ _ _ R2) as (T2 & F2). rewrite reset_to in T. rewrite reset_from in F. split; congruence.
Qed.

Lemma rounds_recv s2s ws lang : forall rounds i i' wires,
  neg_rounds parse true s2s ws lang i rounds = (NOk, i', wires) ->
  (i_to i <> jid_zero -> i_to i' = i_to i) /\
  (i_from i <> jid_zero -> i_from i' = i_from i) /\
  (s2s = true -> i_from i' = i_from i).
Proof.
  induction rounds as [|[rid ts] rest IH]; intros i i' wires H; cbn [neg_rounds] in H.
  - inversion H; repeat split; reflexivity.
  - destruct (neg_round parse true s2s ws lang rid (reset_info i) ts) as [[res i1] w] eqn:R.
    destruct res; try discriminate.
    destruct (neg_rounds parse true s2s ws lang i1 rest) as [[res2 i2] ws'] eqn:R2.
    inversion H; subst.
    destruct (round_recv _ _ _ _ _ _ _ _ R) as (T & F & _).
    destruct (IH _ _ _ R2) as (T2 & F2 & S2). rewrite reset_to in T. rewrite reset_from in F.
    repeat split.
    + intro N. destruct T as [T|T]; [contradiction|]. rewrite <- T in N. rewrite (T2 N). exact T.
    + intro N. destruct F as [[_ F]|F]; [contradiction|]. rewrite <- F in N. rewrite (F2 N). exact F.
    + intro S. destruct F as [[F _]|F]; [congruence|]. rewrite (S2 S). exact F.
Qed.

End Restart.

(* ------------------------------------------------------------------ *)
(* 10. Resource binding                                                *)

Section Bind.
Variable parse : bytes -> option jid.

Definition opt_id (reqid : bytes) : list attr := if is_nil reqid then [] else [mkattr [] (str "id") reqid].

Lemma iq_attrs_plain type reqid :
  iq_attrs type jid_zero jid_zero reqid = mkattr [] (str "type") type :: opt_id reqid.
Proof. reflexivity. Qed.

(* the receiving side's decoding of the initiating side's request *)
Lemma decode_request reqid res :
  decode_bind_iq parse (iq_attrs iq_set jid_zero jid_zero reqid)
                 [NElem ns_bind (str "bind") [] (payload_nodes res jid_zero)]
  = Some (mkbiq reqid iq_set jid_zero jid_zero res jid_zero false).
Proof.
  rewrite iq_attrs_plain. unfold decode_bind_iq, opt_id, payload_nodes.
  destruct (is_nil reqid) eqn:Ni; destruct (is_nil res) eqn:Nr; cbn [negb];
    try (apply is_nil_true in Ni; subst reqid); try (apply is_nil_true in Nr; subst res);
    cbn; rewrite ?app_nil_r; reflexivity.
Qed.

Lemma request_id reqid : attr_first (str "id") (iq_attrs iq_set jid_zero jid_zero reqid) = reqid.
Proof.
  rewrite iq_attrs_plain. unfold opt_id. destruct (is_nil reqid) eqn:N; [apply is_nil_true in N; subst|]; reflexivity.
Qed.

Lemma server_gets_resource reqid res v :
  snd (fst (bind_server parse false (IElem (bind_request reqid res)) v)) =
  Some res.
Proof.
  unfold bind_server, bind_request.
  change (negb (bytes_eqb ns_client (content_ns false) && bytes_eqb (str "iq") (str "iq"))) with false. cbv iota.
  rewrite decode_request. destruct v; reflexivity.
Qed.

(* what the initiating side accepts *)
Lemma bind_client_spec reqid reply local res l' :
  bind_client parse reqid reply local = (res, l') ->
  (res = BReady ->
     exists attrs kids q,
       reply = IElem (NElem ns_client (str "iq") attrs kids) /\
       decode_bind_iq parse attrs kids = Some q /\
       b_id q = reqid /\ b_type q = iq_result /\ b_jid q <> jid_zero /\ l' = b_jid q) /\
  (res <> BReady -> l' = local).
Proof.
  unfold bind_client. intro H.
  destruct reply as [[ns l attrs kids|b]| |r].
  - destruct (negb (bytes_eqb ns ns_client && bytes_eqb l (str "iq"))) eqn:N.
    { inversion H; subst. split; [discriminate | reflexivity]. }
    apply negb_false_iff, andb_true_iff in N. destruct N as [N1 N2]. apply bytes_eqb_eq in N1, N2. subst ns l.
    destruct (decode_bind_iq parse attrs kids) as [q|] eqn:D.
    2:{ inversion H; subst. split; [discriminate | reflexivity]. }
    destruct (negb (bytes_eqb (b_id q) reqid)) eqn:I.
    { inversion H; subst. split; [discriminate | reflexivity]. }
    apply negb_false_iff, bytes_eqb_eq in I.
    destruct (bytes_eqb (b_type q) iq_result) eqn:T.
    2:{ inversion H; subst. split; [discriminate | reflexivity]. }
    apply bytes_eqb_eq in T.
    destruct (jid_eqb (b_jid q) jid_zero) eqn:Z.
    { inversion H; subst. split; [discriminate | reflexivity]. }
    apply jid_eqb_neq in Z. inversion H; subst. split; [|intro C; contradiction].
    intros _. exists attrs, kids, q. repeat split; assumption.
  - inversion H; subst. split; [discriminate | reflexivity].
  - inversion H; subst. split; [discriminate | reflexivity].
  - inversion H; subst. split; [|reflexivity].
    intro R. destruct r; discriminate R.
Qed.

(* request -> receiving side -> reply -> initiating side *)
Lemma bind_roundtrip_jid reqid res j local :
  is_nil (jid_string j) = false -> parse (jid_string j) = Some j -> j <> jid_zero ->
  exists n,
    bind_server parse false (IElem (bind_request reqid res)) (VJid j) = (BReady, Some res, flatten n) /\
    bind_client parse reqid (IElem n) local = (BReady, j).
Proof.
  intros Ns P Z.
  exists (NElem ns_client (str "iq") (iq_attrs iq_result jid_zero jid_zero reqid)
                [NElem ns_bind (str "bind") [] (payload_nodes [] j)]).
  split.
  - unfold bind_server, bind_request.
    change (negb (bytes_eqb ns_client (content_ns false) && bytes_eqb (str "iq") (str "iq"))) with false. cbv iota.
    rewrite decode_request, request_id. reflexivity.
  - unfold bind_client.
    change (negb (bytes_eqb ns_client ns_client && bytes_eqb (str "iq") (str "iq"))) with false. cbv iota.
    assert (D : decode_bind_iq parse (iq_attrs iq_result jid_zero jid_zero reqid)
                               [NElem ns_bind (str "bind") [] (payload_nodes [] j)]
                = Some (mkbiq reqid iq_result jid_zero jid_zero [] j false)).
    { rewrite iq_attrs_plain. unfold decode_bind_iq, opt_id, payload_nodes. cbn [is_nil negb]. rewrite Ns. cbn [negb].
      destruct (is_nil reqid) eqn:Ni; [apply is_nil_true in Ni; subst reqid|];
        cbn; rewrite ?app_nil_r, P; reflexivity. }
    rewrite D. cbn [b_id b_type b_jid]. rewrite bytes_eqb_refl. cbn [negb].
    change (bytes_eqb iq_result iq_result) with true. cbv iota.
    apply jid_eqb_neq in Z. rewrite Z. reflexivity.
Qed.

Lemma bind_roundtrip_error reqid res ens a ks local :
  exists n,
    bind_server parse false (IElem (bind_request reqid res)) (VStanzaErr [NElem ens (str "error") a ks])
      = (BStanzaErr, Some res, flatten n) /\
    bind_client parse reqid (IElem n) local = (BStanzaErr, local).
Proof.
  exists (NElem ns_client (str "iq") (iq_attrs iq_error jid_zero jid_zero reqid) [NElem ens (str "error") a ks]).
  split.
  - unfold bind_server, bind_request.
    change (negb (bytes_eqb ns_client (content_ns false) && bytes_eqb (str "iq") (str "iq"))) with false. cbv iota.
    rewrite decode_request, request_id. reflexivity.
  - unfold bind_client.
    change (negb (bytes_eqb ns_client ns_client && bytes_eqb (str "iq") (str "iq"))) with false. cbv iota.
    assert (D : decode_bind_iq parse (iq_attrs iq_error jid_zero jid_zero reqid) [NElem ens (str "error") a ks]
                = Some (mkbiq reqid iq_error jid_zero jid_zero [] jid_zero true)).
    { rewrite iq_attrs_plain. unfold decode_bind_iq, opt_id.
      destruct (is_nil reqid) eqn:Ni; [apply is_nil_true in Ni; subst reqid|];
        cbn [jid_attr a_local a_val attr_last iq_kids];
        change (bytes_eqb (str "error") (str "bind")) with false; cbn [andb];
        change (bytes_eqb (str "error") (str "error")) with true; reflexivity. }
    rewrite D. cbn [b_id b_type]. rewrite bytes_eqb_refl. cbn [negb].
    change (bytes_eqb iq_error iq_result) with false. reflexivity.
Qed.

(* the reply answers the request's id, with the addresses swapped, in every case *)
Lemma bind_server_reply s2s attrs kids v q :
  decode_bind_iq parse attrs kids = Some q ->
  bind_server parse s2s (IElem (NElem (content_ns s2s) (str "iq") attrs kids)) v =
  match v with
  | VFail => (BOther, Some (b_resource q), [])
  | VJid j =>
      (BReady, Some (b_resource q),
       flatten (NElem (content_ns s2s) (str "iq") (iq_attrs iq_result (b_from q) (b_to q) (attr_first (str "id") attrs))
                      [NElem ns_bind (str "bind") [] (payload_nodes [] j)]))
  | VStanzaErr en =>
      (BStanzaErr, Some (b_resource q),
       flatten (NElem (content_ns s2s) (str "iq") (iq_attrs iq_error (b_from q) (b_to q) (attr_first (str "id") attrs)) en))
  end.
Proof.
  intro D. unfold bind_server. rewrite bytes_eqb_refl.
  change (bytes_eqb (str "iq") (str "iq")) with true. cbn [andb negb]. rewrite D. reflexivity.
Qed.

End Bind.

(* ------------------------------------------------------------------ *)
(* 11. Statements assembled for Properties.v                           *)

Definition valid_value (s : bytes) : Prop := text_ok s = true.

(* a valid address in the model: its string is clean text that jid.Parse maps back to it *)
Definition valid_jid (parse : bytes -> option jid) (j : jid) : Prop :=
  text_ok (jid_string j) = true /\ (jid_string j = [] \/ parse (jid_string j) = Some j).

Lemma header_end_to_end_tcp parse recv i0 xmlns lang jto jfrom id rest :
  xmlns = ns_client \/ xmlns = ns_server ->
  valid_jid parse jto -> valid_jid parse jfrom -> valid_value lang -> valid_value id ->
  exists t,
    read_start (send_header false xmlns default_version lang (jid_string jto) (jid_string jfrom) id ++ rest)
      = Some (t, false, rest) /\
    t = tcp_token xmlns default_version lang (jid_string jto) (jid_string jfrom) id /\
    let i' := recovered i0 ns_stream (str "stream") xmlns jto jfrom id lang in
    expect parse recv false i0 [t] =
      if negb recv && is_nil (i_id i') then (EStream c_bad_format, i', []) else (EOk, i', []).
Proof.
  intros Hx [Tt At] [Tf Af] Hl Hi.
  exists (tcp_token xmlns default_version lang (jid_string jto) (jid_string jfrom) id).
  split; [|split; [reflexivity|]].
  - apply read_start_tcp; try assumption; try (cbn; lia);
      destruct Hx as [-> | ->]; reflexivity.
  - apply expect_tcp_header; assumption.
Qed.

Lemma header_end_to_end_ws parse recv i0 xmlns lang jto jfrom id rest :
  valid_jid parse jto -> valid_jid parse jfrom -> valid_value lang -> valid_value id ->
  exists t,
    read_start (send_header true xmlns default_version lang (jid_string jto) (jid_string jfrom) id ++ rest)
      = Some (t, true, rest) /\
    t = ws_token default_version lang (jid_string jto) (jid_string jfrom) id /\
    let i' := recovered i0 ns_ws (str "open") ns_ws jto jfrom id lang in
    expect parse recv true i0 [t; TEnd ns_ws (str "open")] =
      if negb recv && is_nil (i_id i') then (EStream c_bad_format, i', []) else (EOk, i', []).
Proof.
  intros [Tt At] [Tf Af] Hl Hi.
  exists (ws_token default_version lang (jid_string jto) (jid_string jfrom) id).
  split; [|split; [reflexivity|]].
  - apply read_start_ws; try assumption; cbn; lia.
  - apply expect_ws_header; assumption.
Qed.

(* a fresh Info (negotiateSession resets it before every header): the accepted
   element itself declares the version, the content name space and the id *)
Lemma accepted_declares parse recv ws ts i i' rest :
  no_end_before_start ts = true ->
  i_ver i <> default_version -> i_xmlns i = [] -> i_id i = [] ->
  expect parse recv ws i ts = (EOk, i', rest) ->
  exists pre ns l attrs post,
    ts = pre ++ TStart ns l attrs :: post /\ clean_prefix false pre = true /\ is_header ws ns l /\
    has_attr attrs (str "version") (fun v => parse_version v = Some default_version) /\
    (ws = false -> has_attr attrs (str "xmlns") (fun v => v = ns_client \/ v = ns_server)) /\
    (recv = false -> has_attr attrs (str "id") (fun v => v <> [])) /\
    (if ws then ws_skip 0 post = (EOk, rest) else rest = post).
Proof.
  intros Hn Hv Hx Hi H. unfold expect in H.
  destruct (expect_go_ok parse _ _ _ _ _ _ _ Hn H) as (pre & ns & l & attrs & post & E & Cl & Hd & F & V & X & I & R).
  exists pre, ns, l, attrs, post. unfold from_start_element in F.
  repeat split; try assumption.
  - destruct (from_attrs_ver_src parse _ _ _ F) as [A|(a & In_ & S & L & P)].
    + cbn in A. congruence.
    + exists a. rewrite V in P. repeat split; assumption.
  - intro W. destruct (from_attrs_xmlns_src parse _ _ _ F) as [A|(a & In_ & S & L & P)].
    + cbn in A. rewrite Hx in A. destruct (X W) as [C|C]; rewrite A in C; discriminate C.
    + exists a. repeat split; try assumption. rewrite P. exact (X W).
  - intro Rv. destruct (from_attrs_id_src parse _ _ _ F) as [A|(a & In_ & S & L & P)].
    + cbn in A. rewrite Hi in A. exfalso. exact (I Rv A).
    + exists a. repeat split; try assumption. rewrite P. exact (I Rv).
Qed.

(* a complete stream error, whatever its children *)
Lemma stream_error_returned parse recv ws i attrs kids ens el rest :
  expect parse recv ws i (TStart ns_stream (str "error") attrs :: flat_map flatten kids ++ TEnd ens el :: rest)
  = (EStream (cond_of kids []), i, []).
Proof.
  unfold expect. cbn [expect_go].
  change (bytes_eqb ns_stream ns_stream && bytes_eqb (str "error") (str "error")) with true. cbv iota.
  rewrite (stream_error_children kids [] ens el rest). reflexivity.
Qed.

Lemma expect_skips_clean_prefix parse recv ws : forall pre started i ts,
  clean_prefix started pre = true ->
  expect_go parse recv ws started false i (pre ++ ts) = expect_go parse recv ws true false i ts \/ pre = [].
Proof.
  induction pre as [|t pre IH]; intros started i ts H; [right; reflexivity|]. left.
  destruct t as [| |b| |tg|]; cbn [clean_prefix] in H; try discriminate.
  - apply andb_true_iff in H. destruct H as [Sp Cl]. cbn [app expect_go orb]. rewrite Sp.
    destruct (IH true i ts Cl) as [E|E]; [exact E | subst; reflexivity].
  - apply andb_true_iff in H. destruct H as [D Cl]. cbn [app expect_go]. rewrite D.
    destruct (IH true i ts Cl) as [E|E]; [exact E | subst; reflexivity].
Qed.

(* a header that changes an established address is refused *)
Lemma changed_address_rejected_recv parse s2s ws lang rid i ts res i' w :
  neg_round parse true s2s ws lang rid i ts = (res, i', w) ->
  (i_to i <> jid_zero /\ i_to i' <> i_to i) \/
  (i_from i <> jid_zero /\ i_from i' <> i_from i) \/
  (s2s = true /\ i_from i' <> i_from i) ->
  res <> NOk.
Proof.
  intros H C E. subst res. destruct (round_recv _ _ _ _ _ _ _ _ _ H) as (T & F & _).
  destruct C as [[N D]|[[N D]|[S D]]].
  - destruct T as [T|T]; contradiction.
  - destruct F as [[_ F]|F]; contradiction.
  - destruct F as [[F _]|F]; [congruence | contradiction].
Qed.

Lemma changed_address_rejected_init parse s2s ws lang rid i ts res i' w :
  neg_round parse false s2s ws lang rid i ts = (res, i', w) ->
  i_to i' <> i_to i \/ i_from i' <> i_from i ->
  res <> NOk.
Proof.
  intros H C E. subst res. destruct (round_init _ _ _ _ _ _ _ _ _ H) as (F & T & _).
  destruct C; contradiction.
Qed.

(* the default verdict of the receiving side: a resource on the peer's bare
   address; none when no address is known for the peer *)
Lemma default_verdict_spec remote rid :
  (j_domain remote <> [] ->
   default_verdict remote rid = VJid (mkjid (j_local remote) (j_domain remote) rid)) /\
  (j_domain remote = [] -> default_verdict remote rid = VFail).
Proof.
  unfold default_verdict. split; intro H.
  - destruct (j_domain remote); [contradiction | reflexivity].
  - rewrite H. reflexivity.
Qed.

(* the Info after a recovered header holds the values sent *)
Lemma recovered_values i0 ns l xmlns jto jfrom id lang :
  let i' := recovered i0 ns l xmlns jto jfrom id lang in
  i_ns i' = ns /\ i_local i' = l /\ i_xmlns i' = xmlns /\ i_ver i' = default_version /\
  (jid_string jto <> [] -> i_to i' = jto) /\ (jid_string jfrom <> [] -> i_from i' = jfrom) /\
  (id <> [] -> i_id i' = id) /\ (lang <> [] -> i_lang i' = lang).
Proof.
  unfold recovered; cbn. repeat split.
  - intro H. destruct (jid_string jto); [contradiction | reflexivity].
  - intro H. destruct (jid_string jfrom); [contradiction | reflexivity].
  - intro H. destruct id; [contradiction | reflexivity].
  - intro H. destruct lang; [contradiction | reflexivity].
Qed.

(* the element Send records in the output stream info is the element a peer
   reads from the printed header *)
Definition tok_name (t : tok) : bytes * bytes :=
  match t with TStart ns l _ => (ns, l) | _ => ([], []) end.

Lemma send_name_is_printed :
  (forall xmlns ver lang to from id, tok_name (tcp_token xmlns ver lang to from id) = send_name false) /\
  (forall ver lang to from id, tok_name (ws_token ver lang to from id) = send_name true).
Proof. split; reflexivity. Qed.

(* Several default binds with one feature value: the k-th negotiation assigns
   the k-th random draw as resource on its peer's bare address; distinct draws
   give pairwise distinct resources. *)
Definition neg_ok (parse : bytes -> option jid) (s2s : bool) (n : jid * item * bytes) : Prop :=
  j_domain (fst (fst n)) <> [] /\
  exists attrs kids q, snd (fst n) = IElem (NElem (content_ns s2s) (str "iq") attrs kids) /\
                       decode_bind_iq parse attrs kids = Some q.

Definition assigned (n : jid * item * bytes) : jid :=
  mkjid (j_local (fst (fst n))) (j_domain (fst (fst n))) (snd n).

Definition default_reply (parse : bytes -> option jid) (s2s : bool) (n : jid * item * bytes) : bres * list tok :=
  let '(res, _, reply) := bind_server parse s2s (snd (fst n)) (VJid (assigned n)) in (res, reply).

Lemma bind_default_many_fresh parse s2s : forall negs,
  Forall (neg_ok parse s2s) negs ->
  bind_default_many parse s2s negs = map (default_reply parse s2s) negs /\
  Forall (fun r => fst r = BReady) (bind_default_many parse s2s negs) /\
  map j_res (map assigned negs) = map snd negs.
Proof.
  induction negs as [|[[remote request] rid] r IH]; intro F; [repeat split; constructor|].
  inversion F as [|x l [D (attrs & kids & q & Rq & Dq)] Fr]; subst.
  destruct (IH Fr) as (E & R & M). cbn [fst snd] in D, Rq.
  assert (V : default_verdict remote rid = VJid (assigned (remote, request, rid))).
  { unfold default_verdict, assigned. cbn [fst snd]. destruct (j_domain remote); [contradiction | reflexivity]. }
  cbn [bind_default_many map]. unfold default_reply at 1. cbn [fst snd]. rewrite V.
  pose proof (bind_server_reply parse s2s attrs kids (VJid (assigned (remote, request, rid))) q Dq) as B.
  rewrite <- Rq in B. rewrite B.
  repeat split.
  - f_equal. exact E.
  - constructor; [reflexivity | exact R].
  - cbn [map assigned j_res snd]. f_equal. exact M.
Qed.

Lemma bind_default_many_nodup parse s2s negs :
  Forall (neg_ok parse s2s) negs ->
  NoDup (map snd negs) ->
  NoDup (map j_res (map assigned negs)).
Proof.
  intros F N. destruct (bind_default_many_fresh parse s2s negs F) as (_ & _ & M). rewrite M. exact N.
Qed.

Lemma bind_fresh_per_negotiation parse s2s negs :
  Forall (neg_ok parse s2s) negs ->
  bind_default_many parse s2s negs = map (default_reply parse s2s) negs /\
  Forall (fun r => fst r = BReady) (bind_default_many parse s2s negs) /\
  map j_res (map assigned negs) = map snd negs /\
  (NoDup (map snd negs) -> NoDup (map j_res (map assigned negs))).
Proof.
  intro F. destruct (bind_default_many_fresh parse s2s negs F) as (A & B & C).
  repeat split; try assumption. exact (bind_default_many_nodup parse s2s negs F).
Qed.
