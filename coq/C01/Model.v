(* C01/Model.v — the model of C01 is the shared negotiation model Neg/Model.v.
   This file adds what is specific to C01: the case checker used by the
   harness-written case files, and the *monitor* in which the property's
   clauses are stated.  The monitor reads a trace of events from left to right
   and keeps, from the events alone, what the property talks about: what the
   peer advertised on the current stream, which features were negotiated on it,
   the state bits, whether a restart is pending.  Each clause of C01 is a
   predicate [mon -> event -> Prop] that must hold at every event of every
   run ([holds]), or a predicate on the monitor's final state.  No proofs here. *)
From XV Require Import lib.Bytes gen.NegTables Neg.Model.

Definition case_ok : ncase -> bool := ncase_ok.

(* ------------------------------------------------------------------ specification-side caches *)

(* names of the element children of a features list *)
Fixpoint adv_names (cs : list fchild) : list name :=
  match cs with
  | [] => []
  | FC sp lo _ _ :: r => (sp, lo) :: adv_names r
  | FCText :: r => adv_names r
  end.

(* the features of an advertisement the initiator may negotiate: children (up
   to the first one that is not an element or does not parse) whose name is
   that of a configured feature (the first with that name) whose prerequisites
   hold in state st; a later child in the same name space replaces an earlier one *)
Fixpoint adv_cache (fs : list feature) (st : N) (cs : list fchild) (ca : cache) : cache :=
  match cs with
  | [] => ca
  | FCText :: _ => ca
  | FC sp lo req perr :: r =>
      match get_feature (sp, lo) fs with
      | Some f => if perr then ca else adv_cache fs st r (cache_step st f req ca)
      | None => adv_cache fs st r ca
      end
  end.

(* what a receiver in state st advertises: the configured features whose
   prerequisites hold, in configuration order *)
Definition listed (fs : list feature) (st : N) : list feature := filter (fun f => eligible f st) fs.

Fixpoint listed_cache (fs : list feature) (st : N) (ca : cache) : cache :=
  match fs with
  | [] => ca
  | f :: r => if eligible f st then listed_cache r st (cache_put (f_lreq f, f) ca) else listed_cache r st ca
  end.

(* the configured features an advertisement names (children up to the first one
   that is not an element or does not parse), with the required flag, eligible or not *)
Fixpoint adv_all (fs : list feature) (cs : list fchild) : cache :=
  match cs with
  | [] => []
  | FCText :: _ => []
  | FC sp lo req perr :: r =>
      match get_feature (sp, lo) fs with
      | Some f => if perr then [] else (req, f) :: adv_all fs r
      | None => adv_all fs r
      end
  end.

(* ------------------------------------------------------------------ the monitor *)

Record mon := mkMon {
  q_adv : list name;            (* names advertised by the last features list of the current stream *)
  q_cache : cache;              (* ... and what of it may be negotiated, with the required flags *)
  q_negd : list bytes;          (* name spaces negotiated on the current stream *)
  q_nlists : nat;               (* features lists this session has read as the initiator *)
  q_last : N;                   (* the state bits, as far as the events determine them *)
  q_need_header : bool;         (* a feature asked for a restart and no header was sent since *)
  q_expect : option feature;    (* receiver: this feature was legitimately selected and must run next *)
  q_refused : option eclass;    (* receiver: a selection had to be refused, with this error *)
  q_self_ready : bool;          (* some feature's own mask contained Ready *)
  q_recv : bool;                (* the last advertisement was written (receiving side), not read *)
  q_advall : cache              (* every configured feature the last advertisement of the current stream
                                   named, with its required flag, whether or not its prerequisites
                                   held then (q_cache keeps only those whose prerequisites held) *) }.

Definition mon0 (bits : N) : mon := mkMon [] [] [] 0 bits false None None false false [].

Definition upd (fs : list feature) (ws : bool) (q : mon) (e : event) : mon :=
  match e with
  | EOut WHeader =>
      mkMon [] [] [] (q_nlists q) (q_last q) false (q_expect q) (q_refused q) (q_self_ready q) (q_recv q) []
  | EOut (WFeatures st names true) =>
      mkMon names (listed_cache fs st []) (q_negd q) (q_nlists q) (q_last q) (q_need_header q)
            (q_expect q) (q_refused q) (q_self_ready q) true (map (fun f => (f_lreq f, f)) (listed fs st))
  | EIn RPFeatures st (mkItem false (PFeatures cs)) =>
      mkMon (adv_names cs) (adv_cache fs st cs []) (q_negd q) (S (q_nlists q)) (q_last q) (q_need_header q)
            (q_expect q) (q_refused q) (q_self_ready q) false (adv_all fs cs)
  | EIn RPSelect st it =>
      match selection_space (mkCfg fs false ws false [] None false) it with
      | Some sp =>
          match accept (q_cache q) (q_negd q) st sp with
          | Some (_, f) =>
              mkMon (q_adv q) (q_cache q) (q_negd q) (q_nlists q) (q_last q) (q_need_header q)
                    (Some f) (q_refused q) (q_self_ready q) (q_recv q) (q_advall q)
          | None =>
              mkMon (q_adv q) (q_cache q) (q_negd q) (q_nlists q) (q_last q) (q_need_header q)
                    (q_expect q) (Some EPolicy) (q_self_ready q) (q_recv q) (q_advall q)
          end
      | None =>
          mkMon (q_adv q) (q_cache q) (q_negd q) (q_nlists q) (q_last q) (q_need_header q)
                (q_expect q) (Some EOther) (q_self_ready q) (q_recv q) (q_advall q)
      end
  | ENeg f st o =>
      mkMon (q_adv q) (q_cache q) (f_space f :: q_negd q) (q_nlists q)
            (if o_err o then st else N.lor st (eff_mask o))
            (o_restart o && negb (o_err o))
            None (q_refused q)
            (q_self_ready q || (has (o_mask o) st_Ready && negb (o_err o)))
            (q_recv q) (q_advall q)
  | _ => q
  end.

Fixpoint final (fs : list feature) (ws : bool) (q : mon) (tr : list event) : mon :=
  match tr with
  | [] => q
  | e :: r => final fs ws (upd fs ws q e) r
  end.

(* a clause holds at every event of a trace *)
Fixpoint holds (fs : list feature) (ws : bool) (P : mon -> event -> Prop) (q : mon) (tr : list event) : Prop :=
  match tr with
  | [] => True
  | e :: r => P q e /\ holds fs ws P (upd fs ws q e) r
  end.

(* ------------------------------------------------------------------ the clauses *)

(* f is one of the negotiable entries of the last advertisement, with this required flag *)
Definition cached (q : mon) (req : bool) (f : feature) : Prop := In (req, f) (q_cache q).

(* the one exception: the initiator's unconditional STARTTLS attempt on its
   first features list while the connection is not secure *)
Definition forced (fs : list feature) (q : mon) (f : feature) (st : N) : Prop :=
  q_recv q = false /\ find_space ns_StartTLS fs = Some f /\ q_nlists q = 1 /\ has st st_Secure = false.

(* "only if the receiving entity advertised it on the current stream (the sole
   exception being ...), only if it is negotiable at all, and at most once per stream" *)
Definition cl_advertised (fs : list feature) (q : mon) (e : event) : Prop :=
  match e with
  | ENeg f st _ =>
      f_neg f = true /\
      mem (f_space f) (q_negd q) = false /\
      ((In (fname f) (q_adv q) /\ exists req, cached q req f) \/ forced fs q f st)
  | _ => True
  end.

(* "only while the session state satisfies that feature's declared prerequisites" *)
Definition cl_prerequisites (fs : list feature) (q : mon) (e : event) : Prop :=
  match e with
  | ENeg f st _ => eligible f st = true      (* also for the forced STARTTLS attempt *)
  | _ => True
  end.

(* "voluntary features are taken before mandatory ones": when the initiator
   takes a required feature from the advertisement, no voluntary entry of that
   advertisement is still open (negotiable, not negotiated, prerequisites hold) *)
Definition cl_voluntary_first (q : mon) (e : event) : Prop :=
  match e with
  | ENeg f st _ =>
      q_recv q = false -> cached q true f ->
      forall g, In (false, g) (q_cache q) -> cand (q_negd q) st (false, g) = false
  | _ => True
  end.

(* "state bits only ever get added": the state seen by Negotiate is exactly the
   initial bits plus the masks of the successful Negotiate calls before it (no
   bit is lost, none appears from elsewhere); the state at a read or written
   with a list contains all of them *)
Definition cl_monotone (q : mon) (e : event) : Prop :=
  match e with
  | ENeg _ st _ => st = q_last q
  | EIn _ st _ => has st (q_last q) = true
  | EOut (WFeatures st _ _) => has st (q_last q) = true
  | _ => True
  end.

(* "a restart always begins with a fresh stream header": once a feature has
   asked for a restart, nothing happens before the stream header is sent,
   except that the receiving side first reads the peer's header (and a new TLS
   layer runs its handshake on that first write) *)
Definition cl_restart (q : mon) (e : event) : Prop :=
  q_need_header q = true ->
  match e with
  | EOut WHeader => True
  | EHandshake _ => True
  | EIn RPHeader _ _ => has (q_last q) st_Received = true
  | EEof RPHeader => has (q_last q) st_Received = true
  | _ => False
  end.

(* "the receiving side advertises exactly the configured features whose prerequisites hold" *)
Definition cl_advertises (fs : list feature) (q : mon) (e : event) : Prop :=
  match e with
  | EOut (WFeatures st names true) => names = map fname (listed fs st)
  | _ => True
  end.

(* "... and refuses, without running it, any selection that was not advertised,
   was already negotiated, or is informational only" (or whose prerequisites no
   longer hold): after such a selection nothing happens any more; a feature
   runs on the receiving side only as the one legitimately selected just before *)
Definition cl_refuses (q : mon) (e : event) : Prop :=
  q_refused q = None /\
  match e with
  | ENeg f _ _ => q_recv q = true -> q_expect q = Some f
  | EOut (WElem _ _) | ESwitch _ | EIn RPReply _ _ | EEof RPReply => True   (* done by the running feature itself *)
  | _ => q_expect q = None
  end.

Definition cl_all (fs : list feature) (q : mon) (e : event) : Prop :=
  cl_advertised fs q e /\ cl_prerequisites fs q e /\ cl_voluntary_first q e /\ cl_monotone q e /\
  cl_restart q e /\ cl_advertises fs q e /\ cl_refuses q e.

(* ---- clauses about the end of a run ---- *)

(* a required entry of the last advertisement that is still open *)
Definition pending (q : mon) : Prop :=
  exists g, In (true, g) (q_cache q) /\ cand (q_negd q) (q_last q) (true, g) = true.

(* the literal reading of "eligible mandatory feature of the last advertisement
   left un-negotiated": marked required by the last advertisement, negotiable,
   not negotiated on this stream, prerequisites hold NOW — whether or not they
   held when it was advertised (then it never entered the cache) *)
Definition pending_adv (q : mon) : Prop :=
  exists g, In (true, g) (q_advall q) /\ cand (q_negd q) (q_last q) (true, g) = true.

(* the literal reading of "voluntary features are taken before mandatory ones":
   no voluntary feature the advertisement named is open when a required one is
   taken, also one whose prerequisites did not hold when it was advertised *)
Definition cl_voluntary_first_literal (q : mon) (e : event) : Prop :=
  match e with
  | ENeg f st _ =>
      q_recv q = false -> In (true, f) (q_cache q) ->
      forall g, In (false, g) (q_advall q) -> cand (q_negd q) st (false, g) = false
  | _ => True
  end.

(* "A session is reported established only with the ready bit set and with no
   eligible mandatory feature of the last advertisement left un-negotiated"
   (and not in the middle of a restart) *)
Definition established_sound (q : mon) (r : result) : Prop :=
  r_class r = ROk ->
  has (r_bits r) st_Ready = true /\ has (r_bits r) (q_last q) = true /\
  q_need_header q = false /\ ~ pending q.

(* what holds of the code as it is: never in the middle of a restart; and no
   required entry open unless a feature's own mask contained Ready *)
Definition established_partial (q : mon) (r : result) : Prop :=
  r_class r = ROk ->
  has (r_bits r) st_Ready = true /\ has (r_bits r) (q_last q) = true /\
  q_need_header q = false /\ (q_self_ready q = false -> ~ pending q).

(* the converse half: a run that ends in an error never reports Ready *)
Definition error_not_ready (r : result) : Prop :=
  forall e, r_class r = RErr e -> has (r_bits r) st_Ready = false.

(* a refused selection ends the run with the error the monitor predicted *)
Definition refusal_reported (q : mon) (r : result) : Prop :=
  forall e, q_refused q = Some e -> r_class r = RErr e.

(* the state after a Negotiate call that saw st and returned o *)
Definition after_neg (st : N) (o : outcome) : N := if o_err o then st else N.lor st (eff_mask o).

(* the state bits as the Negotiate events of a trace determine them, from b *)
Fixpoint acc_bits (b : N) (tr : list event) : N :=
  match tr with
  | [] => b
  | ENeg _ st o :: r => acc_bits (after_neg st o) r
  | _ :: r => acc_bits b r
  end.

(* some successful Negotiate call of the trace returned Ready in its own mask *)
Fixpoint self_ready (tr : list event) : bool :=
  match tr with
  | [] => false
  | ENeg _ _ o :: r => (has (o_mask o) st_Ready && negb (o_err o)) || self_ready r
  | _ :: r => self_ready r
  end.

(* a write to a session's state bits (translator table [state_writes]) only adds
   bits, or is the one documented clearing: Ready, on an error return of negotiateSession *)
Definition write_adds (w : bytes * bytes * bytes * bytes) : bool :=
  let '(_, _, op, _) := w in bytes_eqb op (str "|=").
Definition write_is_ready_clear (w : bytes * bytes * bytes * bytes) : bool :=
  let '(file, fn, op, rhs) := w in
  bytes_eqb file (str "session.go") && bytes_eqb fn (str "negotiateSession") &&
  bytes_eqb op (str "&^=") && bytes_eqb rhs (str "Ready").

(* ------------------------------------------------------------------ witnesses and examples (definitions only) *)

Definition xa : bytes := str "urn:x:a".
Definition xb : bytes := str "urn:x:b".
Definition fa : feature := mkF xa (str "a") 0 0 true KAbstract true false.
Definition fb : feature := mkF xb (str "b") 0 0 true KAbstract true false.
Definition cfg_ab : config := mkCfg [fa; fb] false false true (str "example.net") None false.
Definition hdr : pitem := mkItem false (PHeader HGood).

(* W1: two required features are advertised; the one taken first returns Ready
   in its own mask (the resource-binding pattern): established, the other pending *)
Definition w1_run : result :=
  run cfg_ab 0 [hdr; mkItem false (PFeatures [FC xa (str "a") true false; FC xb (str "b") true false])] []
      [mkO st_Ready false false RWWrap] [xa].

(* W2 (a witness against the pinned tree, repaired since): a voluntary feature
   returns Ready together with a new connection; the Ready bit is ignored and the
   stream restarts *)
Definition w2_run : result :=
  run cfg_ab 0 [hdr; mkItem false (PFeatures [FC xa (str "a") false false])] []
      [mkO st_Ready true false RWWrap] [xa].

(* W3 (a witness against the tree before c4806ad, repaired since): the
   advertisement marks b required while b's prerequisite (Authn) does not hold
   yet; the voluntary a sets Authn without a restart; b is negotiated next *)
Definition fb_authn : feature := mkF xb (str "b") st_Authn 0 true KAbstract true false.
Definition cfg_w3 : config := mkCfg [mkF xa (str "a") 0 0 true KAbstract false false; fb_authn] false false true (str "example.net") None false.
Definition w3_run : result :=
  run cfg_w3 0 [hdr; mkItem false (PFeatures [FC xa (str "a") false false; FC xb (str "b") true false])] []
      [mkO st_Authn false false RWWrap; mkO st_Ready false false RWWrap] [xa; xb].

(* W5: two configured features share a name space; the advertisement marks the
   first (negotiable) required and then names the second (informational): the
   cache, keyed by name space, keeps only the second; nothing is left to
   negotiate: established, the first advertised as required, eligible, not negotiated *)
Definition fa_req : feature := mkF xa (str "a") 0 0 true KAbstract true false.
Definition fa2_info : feature := mkF xa (str "a2") 0 0 false KAbstract false false.
Definition cfg_w5 : config := mkCfg [fa_req; fa2_info] false false true (str "example.net") None false.
Definition w5_run : result :=
  run cfg_w5 0 [hdr; mkItem false (PFeatures [FC xa (str "a") true false; FC xa (str "a2") false false])] [] [] [].

Definition mon_of (c : config) (bits : N) (r : result) : mon := final (c_feats c) (c_ws c) (mon0 bits) (trace r).

(* the built-in trio with the masks the sources declare, as abstract features,
   and a complete client negotiation: STARTTLS (restart), SASL (restart), bind *)
Definition f_tls : feature := mkF ft_starttls_space ft_starttls_local ft_starttls_nec ft_starttls_proh true KAbstract true false.
Definition f_sasl : feature := mkF ft_sasl_space ft_sasl_local ft_sasl_nec ft_sasl_proh true KAbstract true false.
Definition f_bind : feature := mkF ft_bind_space ft_bind_local ft_bind_nec ft_bind_proh true KAbstract true false.
Definition cfg_trio : config := mkCfg [f_tls; f_sasl; f_bind] false false true (str "example.net") None false.
Definition adv (f : feature) (req : bool) : fchild := FC (f_space f) (f_local f) req false.
Definition trio_client : result :=
  run cfg_trio 0
      [hdr; mkItem false (PFeatures [adv f_tls true; adv f_sasl true; adv f_bind true]);
       hdr; mkItem false (PFeatures [adv f_bind true; adv f_sasl true]);
       hdr; mkItem false (PFeatures [adv f_bind true])] []
      [mkO st_Secure true false RWWrap; mkO st_Authn true false RWWrap; mkO st_Ready false false RWWrap]
      [ft_starttls_space; ft_sasl_space; ft_bind_space].
(* the same configuration on the receiving side, the peer selecting in order *)
Definition sel (f : feature) : pitem := mkItem false (PElem (f_space f) (f_local f)).
Definition trio_server : result :=
  run cfg_trio st_Received
      [hdr; sel f_tls; hdr; sel f_sasl; hdr; mkItem false (PIq (f_space f_bind) (f_local f_bind))] []
      [mkO st_Secure true false RWWrap; mkO st_Authn true false RWWrap; mkO st_Ready false false RWWrap] [].
(* the receiver refuses: SASL selected before STARTTLS (not advertised yet) *)
Definition trio_server_early : result :=
  run cfg_trio st_Received [hdr; sel f_sasl] [] [] [].
(* the forced STARTTLS attempt: first list empty *)
Definition trio_forced : result :=
  run cfg_trio 0 [hdr; mkItem false (PFeatures []); hdr; mkItem false (PFeatures [])] []
      [mkO st_Secure true false RWWrap] [ft_starttls_space].
(* two voluntary features and a required one: both map orders of the voluntary
   ones are legal, taking the required one first is not *)
Definition fv1 : feature := mkF xa (str "a") 0 0 true KAbstract false false.
Definition fv2 : feature := mkF xb (str "b") 0 0 true KAbstract false false.
Definition xc : bytes := str "urn:x:c".
Definition fr3 : feature := mkF xc (str "c") 0 0 true KAbstract true false.
Definition cfg_vvr : config := mkCfg [fv1; fv2; fr3] false false true (str "example.net") None false.
Definition vvr (choices : list bytes) : result :=
  run cfg_vvr 0 [hdr; mkItem false (PFeatures [adv fr3 true; adv fv1 false; adv fv2 false]); mkItem false (PFeatures [])] []
      [mkO 0 false false RWWrap; mkO 0 false false RWWrap; mkO 0 false false RWWrap] choices.
Fixpoint negs (tr : list event) : list (name * N) :=
  match tr with
  | [] => []
  | ENeg f st _ :: r => (fname f, st) :: negs r
  | _ :: r => negs r
  end.

(* W6: v (voluntary, negotiable) and a2 (informational) share a name space, r is
   required: the cache keeps a2 for that name space, r is taken while v —
   advertised, voluntary, eligible — is open *)
Definition fv_a : feature := mkF xa (str "a") 0 0 true KAbstract false false.
Definition cfg_w6 : config := mkCfg [fv_a; fa2_info; fr3] false false true (str "example.net") None false.
Definition w6_run : result :=
  run cfg_w6 0 [hdr; mkItem false (PFeatures [FC xa (str "a") false false; FC xa (str "a2") false false; FC xc (str "c") true false])] []
      [mkO 0 false false RWWrap] [xc].
