(* C01/Refuted.v — the clause about "reported established" is false of the code
   as it is (two witnesses), and the lemmas about the tables read from the sources. *)
From Coq Require Import ZifyBool ZifyNat ZifyN.
From XV Require Import lib.Bytes gen.NegTables Neg.Model Neg.Proofs C01.Model C01.Proofs.

(* ------------------------------------------------------------------ established: the full statement is false *)

(* the full statement of the last-but-one clause of C01 *)
Definition established_sound_statement : Prop :=
  forall c bits clear tls outs choices,
    let r := run c bits clear tls outs choices in
    established_sound (final (c_feats c) (c_ws c) (mon0 bits) (trace r)) r.

Lemma established_sound_refuted_required :
  exists c bits clear tls outs choices,
    let r := run c bits clear tls outs choices in
    r_class r = ROk /\ pending (final (c_feats c) (c_ws c) (mon0 bits) (trace r)).
Proof.
  exists cfg_ab, 0%N, [hdr; mkItem false (PFeatures [FC xa (str "a") true false; FC xb (str "b") true false])], [],
         [mkO st_Ready false false], [xa].
  split; [vm_compute; reflexivity|]. exists fb. split; vm_compute; auto.
Qed.

Lemma established_sound_refuted_restart :
  exists c bits clear tls outs choices,
    let r := run c bits clear tls outs choices in
    r_class r = ROk /\ q_need_header (final (c_feats c) (c_ws c) (mon0 bits) (trace r)) = true.
Proof.
  exists cfg_ab, 0%N, [hdr; mkItem false (PFeatures [FC xa (str "a") false false])], [],
         [mkO st_Ready true false], [xa].
  split; vm_compute; reflexivity.
Qed.

Lemma established_sound_false : ~ established_sound_statement.
Proof.
  intro S.
  pose proof (S cfg_ab 0%N [hdr; mkItem false (PFeatures [FC xa (str "a") false false])] []
              [mkO st_Ready true false] [xa]) as X.
  unfold established_sound in X.
  assert (A : r_class (run cfg_ab 0 [hdr; mkItem false (PFeatures [FC xa (str "a") false false])] []
              [mkO st_Ready true false] [xa]) = ROk) by (vm_compute; reflexivity).
  destruct (X A) as (_ & _ & B & _). vm_compute in B. discriminate.
Qed.

(* ------------------------------------------------------------------ tables read from the sources *)

Lemma tbl_bits_distinct :
  st_Secure = 1%N /\ st_Authn = 2%N /\ st_Ready = 4%N /\ st_Received = 8%N /\ st_S2S = 64%N.
Proof. vm_compute. repeat split; reflexivity. Qed.

Lemma tbl_builtin_masks :
  (ft_starttls_nec = 0%N /\ ft_starttls_proh = st_Secure /\ ft_starttls_negotiable = true) /\
  (ft_sasl_nec = st_Secure /\ ft_sasl_proh = st_Authn /\ ft_sasl_negotiable = true) /\
  (ft_bind_nec = st_Authn /\ ft_bind_proh = st_Ready /\ ft_bind_negotiable = true) /\
  (ft_bidi_nec = st_Secure /\ ft_bidi_proh = st_Authn) /\
  ft_starttls_space = ns_StartTLS.
Proof. vm_compute. repeat split; reflexivity. Qed.

(* with those masks the built-in features can only run in the order STARTTLS, SASL, bind *)
Lemma builtin_order c bits clear tls outs choices pre post f st o :
  (forall g, find_space ns_StartTLS (c_feats c) = Some g -> f_nec g = ft_starttls_nec /\ f_proh g = ft_starttls_proh) ->
  trace (run c bits clear tls outs choices) = pre ++ ENeg f st o :: post ->
  (f_nec f = ft_sasl_nec -> f_proh f = ft_sasl_proh -> has st st_Secure = true /\ disj st st_Authn = true) /\
  (f_nec f = ft_bind_nec -> f_proh f = ft_bind_proh -> has st st_Authn = true /\ disj st st_Ready = true) /\
  (f_nec f = ft_starttls_nec -> f_proh f = ft_starttls_proh -> disj st st_Secure = true).
Proof.
  intros Hb E.
  pose proof (proj1 (holds_at _ _ _ _ _) (clause_prerequisites_builtin c bits clear tls outs choices Hb) _ _ _ E) as X.
  simpl in X. unfold eligible in X. apply andb_true_iff in X. destruct X as [X1 X2].
  split; [|split]; intros Hn Hp; rewrite Hn in X1; rewrite Hp in X2.
  - split; assumption.
  - split; assumption.
  - exact X2.
Qed.
