(* C01/Refuted.v — the clauses that are false of the code as it is (witnesses),
   what holds instead, and the lemmas about the tables read from the sources. *)
From Coq Require Import ZifyBool ZifyNat ZifyN.
From XV Require Import lib.Bytes gen.NegTables Neg.Model Neg.Proofs C01.Model C01.Proofs.

(* ------------------------------------------------------------------ established: the full statement is false *)

(* the full statement of the last-but-one clause of C01 *)
Definition established_sound_statement : Prop :=
  forall c bits clear tls outs choices,
    let r := run c bits clear tls outs choices in
    established_sound (final (c_feats c) (c_ws c) (mon0 bits) (trace r)) r.

Lemma established_sound_refuted_required :
  exists c bits clear tls outs choices,
    let r := run c bits clear tls outs choices in
    r_class r = ROk /\ pending (final (c_feats c) (c_ws c) (mon0 bits) (trace r)).
Proof.
  exists cfg_ab, 0%N, [hdr; mkItem false (PFeatures [FC xa (str "a") true false; FC xb (str "b") true false])], [],
         [mkO st_Ready false false RWWrap], [xa].
  split; [vm_compute; reflexivity|]. exists fb. split; vm_compute; auto.
Qed.

Lemma established_sound_false : ~ established_sound_statement.
Proof.
  intro S.
  pose proof (S cfg_ab 0%N [hdr; mkItem false (PFeatures [FC xa (str "a") true false; FC xb (str "b") true false])] []
              [mkO st_Ready false false RWWrap] [xa]) as X.
  unfold established_sound in X.
  assert (A : r_class (run cfg_ab 0 [hdr; mkItem false (PFeatures [FC xa (str "a") true false; FC xb (str "b") true false])] []
              [mkO st_Ready false false RWWrap] [xa]) = ROk) by (vm_compute; reflexivity).
  destruct (X A) as (_ & _ & _ & B). apply B. exists fb. split; vm_compute; auto.
Qed.

(* ------------------------------------------------------------------ tables read from the sources *)

Lemma tbl_bits_distinct :
  st_Secure = 1%N /\ st_Authn = 2%N /\ st_Ready = 4%N /\ st_Received = 8%N /\ st_S2S = 64%N.
Proof. vm_compute. repeat split; reflexivity. Qed.

Lemma tbl_builtin_masks :
  (ft_starttls_nec = 0%N /\ ft_starttls_proh = st_Secure /\ ft_starttls_negotiable = true) /\
  (ft_sasl_nec = st_Secure /\ ft_sasl_proh = st_Authn /\ ft_sasl_negotiable = true) /\
  (ft_bind_nec = st_Authn /\ ft_bind_proh = st_Ready /\ ft_bind_negotiable = true) /\
  (ft_bidi_nec = st_Secure /\ ft_bidi_proh = st_Authn) /\
  ft_starttls_space = ns_StartTLS.
Proof. vm_compute. repeat split; reflexivity. Qed.

(* every assignment to s.state in session.go, features.go and negotiator.go is
   `|=`, except exactly one: `s.state &^= Ready` in negotiateSession (the error
   return); in particular the restart block clears nothing *)
Lemma tbl_state_writes :
  forallb (fun w => write_adds w || write_is_ready_clear w) state_writes = true /\
  length (filter write_is_ready_clear state_writes) = 1 /\
  length (filter (fun w => negb (write_adds w)) state_writes) = 1.
Proof. vm_compute. repeat split; reflexivity. Qed.

(* with those masks the built-in features can only run in the order STARTTLS, SASL, bind *)
Lemma builtin_order c bits clear tls outs choices pre post f st o :
  trace (run c bits clear tls outs choices) = pre ++ ENeg f st o :: post ->
  (f_nec f = ft_sasl_nec -> f_proh f = ft_sasl_proh -> has st st_Secure = true /\ disj st st_Authn = true) /\
  (f_nec f = ft_bind_nec -> f_proh f = ft_bind_proh -> has st st_Authn = true /\ disj st st_Ready = true) /\
  (f_nec f = ft_starttls_nec -> f_proh f = ft_starttls_proh -> disj st st_Secure = true).
Proof.
  intros E.
  pose proof (at_neg_prerequisites c bits clear tls outs choices _ _ _ _ _ E) as X.
  unfold eligible in X. apply andb_true_iff in X. destruct X as [X1 X2].
  split; [|split]; intros Hn Hp; rewrite Hn in X1; rewrite Hp in X2.
  - split; assumption.
  - split; assumption.
  - exact X2.
Qed.

(* ------------------------------------------------------------------ the literal reading of "feature of the last advertisement" *)

Lemma adv_cache_all fs st e : forall cs ca,
  In e (adv_cache fs st cs ca) -> In e ca \/ In e (adv_all fs cs).
Proof.
  induction cs as [|ch cs IH]; intros ca Hin; simpl in *; [left; exact Hin|].
  destruct ch as [sp lo req perr|]; [|left; exact Hin].
  destruct (get_feature (sp, lo) fs) as [f|]; [|apply IH; exact Hin].
  destruct perr; [left; exact Hin|].
  destruct (IH _ Hin) as [X|X].
  - apply In_cache_step in X. destruct X as [X|X]; [|left; exact X].
    right. left. symmetry. exact X.
  - right. right. exact X.
Qed.

Lemma listed_cache_all st e : forall fs ca,
  In e (listed_cache fs st ca) -> In e ca \/ In e (map (fun f => (f_lreq f, f)) (listed fs st)).
Proof.
  induction fs as [|f fs IH]; intros ca Hin; simpl in *; [left; exact Hin|].
  unfold listed in *. simpl. destruct (eligible f st) eqn:Ee.
  - destruct (IH _ Hin) as [X|X].
    + apply In_cache_put in X. destruct X as [X|X]; [|left; exact X].
      right. simpl. left. symmetry. exact X.
    + right. simpl. right. exact X.
  - apply IH. exact Hin.
Qed.

(* every entry of the monitor's cache is one of the features the advertisement named *)
Definition cache_sub (q : mon) : Prop := forall e, In e (q_cache q) -> In e (q_advall q).

Lemma upd_cache_sub fs ws q e : cache_sub q -> cache_sub (upd fs ws q e).
Proof.
  intros Hs. destruct e as [rp st it| rp | w | f | f | f st o | n | b]; simpl; try exact Hs.
  - destruct rp; try exact Hs.
    + destruct it as [[] []]; try exact Hs. intros g Hg. simpl in *.
      destruct (adv_cache_all _ _ _ _ _ Hg) as [[]|X]. exact X.
    + destruct (selection_space _ it); [|exact Hs]. destruct (accept _ _ _ _) as [[? ?]|]; exact Hs.
  - destruct w as [|st names []|]; try exact Hs.
    + intros g [].
    + intros g Hg. simpl in *. destruct (listed_cache_all _ _ _ _ Hg) as [[]|X]. exact X.
Qed.

Lemma final_cache_sub fs ws : forall tr q, cache_sub q -> cache_sub (final fs ws q tr).
Proof. induction tr as [|e tr IH]; intros q Hs; simpl; [exact Hs | apply IH; apply upd_cache_sub; exact Hs]. Qed.

Lemma pending_is_pending_adv fs ws bits tr :
  let q := final fs ws (mon0 bits) tr in pending q -> pending_adv q.
Proof.
  intros q (g & Hg & Hc). exists g. split; [|exact Hc].
  apply (final_cache_sub fs ws tr (mon0 bits)); [intros ? []|exact Hg].
Qed.

(* the literal statement about "reported established" *)
Definition established_literal_statement : Prop :=
  forall c bits clear tls outs choices,
    let r := run c bits clear tls outs choices in
    let q := final (c_feats c) (c_ws c) (mon0 bits) (trace r) in
    r_class r = ROk -> has (r_bits r) st_Ready = true /\ q_need_header q = false /\ ~ pending_adv q.

(* it is false even when no feature reports Ready itself: the cache is keyed by
   name space, so of two configured features in one name space the advertisement
   names, only the later is kept *)
Lemma established_literal_refuted :
  exists c bits clear tls outs choices,
    let r := run c bits clear tls outs choices in
    let q := final (c_feats c) (c_ws c) (mon0 bits) (trace r) in
    r_class r = ROk /\ self_ready (trace r) = false /\ pending_adv q.
Proof.
  exists cfg_w5, 0%N, [hdr; mkItem false (PFeatures [FC xa (str "a") true false; FC xa (str "a2") false false])], [], [], [].
  split; [vm_compute; reflexivity|]. split; [vm_compute; reflexivity|].
  exists fa_req. split; vm_compute; auto.
Qed.

Lemma established_literal_false : ~ established_literal_statement.
Proof.
  intro S. destruct established_literal_refuted as (c & bits & clear & tls & outs & choices & A & _ & B).
  destruct (S c bits clear tls outs choices A) as (_ & _ & X). exact (X B).
Qed.

(* what holds of the literal reading: unless a feature reported Ready itself, a
   feature left open in the literal sense is one that was not an entry of the
   cache: a later child in the same name space replaced it *)
Lemma established_literal_partial c bits clear tls outs choices :
  let r := run c bits clear tls outs choices in
  let q := final (c_feats c) (c_ws c) (mon0 bits) (trace r) in
  r_class r = ROk -> self_ready (trace r) = false ->
  q_need_header q = false /\
  forall g, In (true, g) (q_advall q) -> cand (q_negd q) (q_last q) (true, g) = true -> ~ In (true, g) (q_cache q).
Proof.
  intros r q Hok Hs. destruct (established_when_no_self_ready c bits clear tls outs choices Hok) as (_ & X1 & X).
  pose proof (X Hs) as X2. split; [exact X1|].
  intros g _ Hc Hin. apply X2. exists g. split; [exact Hin | exact Hc].
Qed.

(* the literal statement about "voluntary before mandatory" *)
Definition voluntary_first_literal_statement : Prop :=
  forall c bits clear tls outs choices,
    holds (c_feats c) (c_ws c) cl_voluntary_first_literal (mon0 bits) (trace (run c bits clear tls outs choices)).

Lemma voluntary_first_literal_refuted :
  exists c bits clear tls outs choices pre post f st o g,
    trace (run c bits clear tls outs choices) = pre ++ ENeg f st o :: post /\
    let q := final (c_feats c) (c_ws c) (mon0 bits) pre in
    q_recv q = false /\ In (true, f) (q_cache q) /\ In (false, g) (q_advall q) /\
    cand (q_negd q) st (false, g) = true.
Proof.
  exists cfg_w6, 0%N, [hdr; mkItem false (PFeatures [FC xa (str "a") false false; FC xa (str "a2") false false; FC xc (str "c") true false])], [],
         [mkO 0%N false false RWWrap], [xc].
  exists (firstn 6 (trace w6_run)), (skipn 7 (trace w6_run)), fr3, 0%N, (mkO 0%N false false RWWrap), fv_a.
  split; [vm_compute; reflexivity|]. vm_compute. auto 10.
Qed.

Lemma voluntary_first_literal_false : ~ voluntary_first_literal_statement.
Proof.
  intro S. destruct voluntary_first_literal_refuted as (c & bits & clear & tls & outs & choices & pre & post & f & st & o & g & E & A & B & C & D).
  pose proof (proj1 (holds_at _ _ _ _ _) (S c bits clear tls outs choices) _ _ _ E) as X. simpl in X.
  rewrite (X A B g C) in D. discriminate.
Qed.

(* what holds: the voluntary features that can be open then are not entries of the cache *)
Lemma voluntary_first_literal_partial c bits clear tls outs choices pre post f st o :
  trace (run c bits clear tls outs choices) = pre ++ ENeg f st o :: post ->
  let q := final (c_feats c) (c_ws c) (mon0 bits) pre in
  q_recv q = false -> In (true, f) (q_cache q) ->
  forall g, In (false, g) (q_advall q) -> cand (q_negd q) st (false, g) = true -> ~ In (false, g) (q_cache q).
Proof.
  intros E q Hr Hf g _ Hc Hin.
  pose proof (at_neg_voluntary_first c bits clear tls outs choices _ _ _ _ _ E Hr Hf g Hin) as X.
  unfold q in Hc. congruence.
Qed.
