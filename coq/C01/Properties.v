(* C01/Properties.v — the property theorems of C01 and nothing else.
   "Stream features are negotiated only when allowed, in order, at most once."

   Every theorem is about [run c bits clear tls outs choices] of Neg/Model.v for
   EVERY configuration c (any features, masks, required/voluntary, negotiable or
   informational, TCP/WebSocket, tee, either negotiator.go), every initial state
   [bits] (either role), every peer script [clear]/[tls], every script of feature
   outcomes [outs] and every list of map-iteration choices [choices].
   [trace r = pre ++ e :: post] reads "e is an event of the run"; the monitor
   state [final fs ws (mon0 bits) pre] (C01/Model.v) is what the events before e
   determine: the last advertisement of the current stream (q_adv, q_cache), the
   name spaces negotiated on it (q_negd), the state bits (q_last), whether a
   restart is pending (q_need_header). *)
From XV Require Import lib.Bytes gen.NegTables Neg.Model Neg.Proofs C01.Model C01.Proofs C01.Refuted.

(* A feature is negotiated only if it is negotiable at all, was not negotiated
   on the current stream before, and is an entry of the last advertisement of the
   current stream — the sole exception being the initiator's unconditional
   STARTTLS attempt on its first features list while not secure. *)
Theorem C01_only_advertised_negotiable_once :
  forall c bits clear tls outs choices pre post f st o,
  trace (run c bits clear tls outs choices) = pre ++ ENeg f st o :: post ->
  let q := final (c_feats c) (c_ws c) (mon0 bits) pre in
  f_neg f = true /\ mem (f_space f) (q_negd q) = false /\
  ((In (fname f) (q_adv q) /\ exists req, In (req, f) (q_cache q)) \/ forced (c_feats c) q f st).
Proof. exact at_neg_advertised. Qed.
Print Assumptions C01_only_advertised_negotiable_once.

(* A feature is negotiated only while the session state satisfies its declared
   prerequisites: every necessary bit set, no prohibited bit set — the forced
   STARTTLS attempt included. *)
Theorem C01_prerequisites_hold :
  forall c bits clear tls outs choices pre post f st o,
  trace (run c bits clear tls outs choices) = pre ++ ENeg f st o :: post ->
  eligible f st = true.
Proof. exact at_neg_prerequisites. Qed.
Print Assumptions C01_prerequisites_hold.

(* Hence, with the masks starttls.go, sasl.go and bind.go declare (read from the
   sources on every run), the three can only run in the order STARTTLS, SASL,
   resource binding: SASL only when secure and not authenticated, binding only
   when authenticated and not ready, STARTTLS only when not secure. *)
Theorem C01_prerequisites_hold_builtin :
  forall c bits clear tls outs choices pre post f st o,
  trace (run c bits clear tls outs choices) = pre ++ ENeg f st o :: post ->
  (f_nec f = ft_sasl_nec -> f_proh f = ft_sasl_proh -> has st st_Secure = true /\ disj st st_Authn = true) /\
  (f_nec f = ft_bind_nec -> f_proh f = ft_bind_proh -> has st st_Authn = true /\ disj st st_Ready = true) /\
  (f_nec f = ft_starttls_nec -> f_proh f = ft_starttls_proh -> disj st st_Secure = true).
Proof. exact builtin_order. Qed.
Print Assumptions C01_prerequisites_hold_builtin.

Theorem C01_tables_from_source :
  (st_Secure = 1%N /\ st_Authn = 2%N /\ st_Ready = 4%N /\ st_Received = 8%N /\ st_S2S = 64%N) /\
  (ft_starttls_nec = 0%N /\ ft_starttls_proh = st_Secure /\ ft_starttls_negotiable = true) /\
  (ft_sasl_nec = st_Secure /\ ft_sasl_proh = st_Authn /\ ft_sasl_negotiable = true) /\
  (ft_bind_nec = st_Authn /\ ft_bind_proh = st_Ready /\ ft_bind_negotiable = true) /\
  (ft_bidi_nec = st_Secure /\ ft_bidi_proh = st_Authn) /\
  ft_starttls_space = ns_StartTLS.
Proof. exact (conj tbl_bits_distinct tbl_builtin_masks). Qed.
Print Assumptions C01_tables_from_source.

(* Voluntary features are taken before mandatory ones: when the initiator takes
   a required entry of the advertisement, no voluntary entry is still open
   (negotiable, not negotiated on this stream, prerequisites hold) — whatever
   order the map iteration took. *)
Theorem C01_voluntary_first :
  forall c bits clear tls outs choices pre post f st o,
  trace (run c bits clear tls outs choices) = pre ++ ENeg f st o :: post ->
  let q := final (c_feats c) (c_ws c) (mon0 bits) pre in
  q_recv q = false -> In (true, f) (q_cache q) ->
  forall g, In (false, g) (q_cache q) -> cand (q_negd q) st (false, g) = false.
Proof. exact at_neg_voluntary_first. Qed.
Print Assumptions C01_voluntary_first.

(* The literal reading of that clause also counts voluntary features the
   advertisement named that a later child of the same name space replaced in the
   cache.  It is false of the code: a required feature is taken while such a
   feature is open. *)
Definition C01_voluntary_first_literal_statement : Prop := voluntary_first_literal_statement.

Theorem C01_voluntary_first_literal_refuted : ~ C01_voluntary_first_literal_statement.
Proof. exact voluntary_first_literal_false. Qed.
Print Assumptions C01_voluntary_first_literal_refuted.

(* what holds: a voluntary feature open at that moment is not an entry of the cache *)
Theorem C01_voluntary_first_literal_partial :
  forall c bits clear tls outs choices pre post f st o,
  trace (run c bits clear tls outs choices) = pre ++ ENeg f st o :: post ->
  let q := final (c_feats c) (c_ws c) (mon0 bits) pre in
  q_recv q = false -> In (true, f) (q_cache q) ->
  forall g, In (false, g) (q_advall q) -> cand (q_negd q) st (false, g) = true -> ~ In (false, g) (q_cache q).
Proof. exact voluntary_first_literal_partial. Qed.
Print Assumptions C01_voluntary_first_literal_partial.

(* State bits only ever get added, and only by successful negotiations: the
   state a Negotiate call sees is EXACTLY the initial bits plus the masks (Ready
   apart: it takes effect when the feature set is done) of the successful calls
   before it on this session ([acc_bits]); hence it contains the initial bits,
   the bits seen by every earlier call and the mask of every earlier successful
   call.  The final state is that, plus possibly Ready, when the run does not end
   in an error — and that without Ready when it does. *)
Theorem C01_bits_monotone :
  forall c bits clear tls outs choices,
  let r := run c bits clear tls outs choices in
  (forall pre post f st o, trace r = pre ++ ENeg f st o :: post ->
     st = acc_bits bits pre /\ has st bits = true) /\
  (forall pre f1 st1 o1 mid f2 st2 o2 post,
     trace r = pre ++ ENeg f1 st1 o1 :: mid ++ ENeg f2 st2 o2 :: post -> has st2 (after_neg st1 o1) = true) /\
  match r_class r with
  | RErr _ => r_bits r = clear_ready (acc_bits bits (trace r))
  | _ => r_bits r = acc_bits bits (trace r) \/ r_bits r = N.lor (acc_bits bits (trace r)) st_Ready
  end /\
  ((forall e, r_class r <> RErr e) ->
   has (r_bits r) bits = true /\
   forall pre post f st o, trace r = pre ++ ENeg f st o :: post -> has (r_bits r) (after_neg st o) = true).
Proof.
  exact (fun c bits clear tls outs choices =>
    conj (fun pre post f st o E =>
            conj (neg_sees_accounted c bits clear tls outs choices pre post f st o E)
                 (neg_sees_initial_bits c bits clear tls outs choices pre post f st o E))
         (conj (neg_sees_earlier_neg c bits clear tls outs choices)
               (conj (final_bits_accounted c bits clear tls outs choices)
                     (fun Hne => conj (final_bits_contain_initial c bits clear tls outs choices Hne)
                                      (fun pre post f st o => final_bits_contain_neg c bits clear tls outs choices pre post f st o Hne))))).
Qed.
Print Assumptions C01_bits_monotone.

(* No bit of the initial state is ever lost (Ready apart, which an error return
   clears): every Negotiate call sees all of them and so does the final state,
   after any number of restarts and whatever kind of connection ([o_rw]: bare
   wrapper, the session's own connection, a net.Conn with or without a
   ConnectionState method) the restarting features returned. *)
Theorem C01_initial_bits_kept :
  forall c bits clear tls outs choices,
  let r := run c bits clear tls outs choices in
  (forall pre post f st o, trace r = pre ++ ENeg f st o :: post -> has st bits = true) /\
  has (N.lor (r_bits r) st_Ready) bits = true.
Proof.
  exact (fun c bits clear tls outs choices =>
    conj (neg_sees_initial_bits c bits clear tls outs choices)
         (final_keeps_initial c bits clear tls outs choices)).
Qed.
Print Assumptions C01_initial_bits_kept.

(* The source agrees (table regenerated on every run): every assignment to
   s.state in session.go, features.go and negotiator.go is `|=`, except the one
   `s.state &^= Ready` on negotiateSession's error return; the restart block
   clears nothing. *)
Theorem C01_state_bits_cleared_only_on_error :
  forallb (fun w => write_adds w || write_is_ready_clear w) state_writes = true /\
  length (filter write_is_ready_clear state_writes) = 1 /\
  length (filter (fun w => negb (write_adds w)) state_writes) = 1.
Proof. exact tbl_state_writes. Qed.
Print Assumptions C01_state_bits_cleared_only_on_error.

(* The converse half of "established only with the ready bit set": a run that
   ends in an error never reports Ready — whatever masks the features negotiated
   before the failing step returned. *)
Theorem C01_error_never_ready :
  forall c bits clear tls outs choices e,
  r_class (run c bits clear tls outs choices) = RErr e ->
  has (r_bits (run c bits clear tls outs choices)) st_Ready = false.
Proof. exact error_never_ready. Qed.
Print Assumptions C01_error_never_ready.

(* ... and the state written into / read with every list and item is at least
   what the events before it determine. *)
Theorem C01_bits_monotone_events :
  forall c bits clear tls outs choices pre post e,
  trace (run c bits clear tls outs choices) = pre ++ e :: post ->
  cl_monotone (final (c_feats c) (c_ws c) (mon0 bits) pre) e.
Proof. exact at_event_monotone. Qed.
Print Assumptions C01_bits_monotone_events.

(* A restart always begins with a fresh stream header: once a feature has
   returned a new connection (q_need_header), the next thing that happens is the
   stream header being sent (on a new TLS layer: after its handshake; on the
   receiving side: after reading the peer's header); sending the header empties
   the advertisement and the set of negotiated features. *)
Theorem C01_restart_sends_header :
  forall c bits clear tls outs choices pre post e,
  trace (run c bits clear tls outs choices) = pre ++ e :: post ->
  cl_restart (final (c_feats c) (c_ws c) (mon0 bits) pre) e.
Proof. exact at_event_restart. Qed.
Print Assumptions C01_restart_sends_header.

Theorem C01_restart_monitor :
  forall fs ws q f st o,
  q_need_header (upd fs ws q (ENeg f st o)) = (o_restart o && negb (o_err o))%bool /\
  q_adv (upd fs ws q (EOut WHeader)) = [] /\ q_cache (upd fs ws q (EOut WHeader)) = [] /\
  q_negd (upd fs ws q (EOut WHeader)) = [] /\ q_need_header (upd fs ws q (EOut WHeader)) = false.
Proof. exact (fun fs ws q f st o => conj eq_refl (conj eq_refl (conj eq_refl (conj eq_refl eq_refl)))). Qed.
Print Assumptions C01_restart_monitor.

(* "Reported established": the full statement ... *)
Definition C01_established_sound_statement : Prop := established_sound_statement.

(* ... is false of the code as it is: a required feature whose own mask contains
   Ready (the resource-binding pattern) ends the negotiation while another
   eligible required feature of the same advertisement is pending. *)
Theorem C01_established_sound_refuted : ~ C01_established_sound_statement.
Proof. exact established_sound_false. Qed.
Print Assumptions C01_established_sound_refuted.

Theorem C01_established_sound_refuted_required_pending :
  exists c bits clear tls outs choices,
    let r := run c bits clear tls outs choices in
    r_class r = ROk /\ pending (final (c_feats c) (c_ws c) (mon0 bits) (trace r)).
Proof. exact established_sound_refuted_required. Qed.
Print Assumptions C01_established_sound_refuted_required_pending.

(* What holds: established implies Ready, all accumulated bits and NO restart
   pending (whatever the features' own masks said); and unless some feature's
   own mask contained Ready, no eligible required feature of the last
   advertisement is left un-negotiated. *)
Theorem C01_established_sound_partial :
  forall c bits clear tls outs choices,
  let r := run c bits clear tls outs choices in
  established_partial (final (c_feats c) (c_ws c) (mon0 bits) (trace r)) r.
Proof. exact clause_established_partial. Qed.
Print Assumptions C01_established_sound_partial.

(* The same with its hypothesis read off the trace. *)
Theorem C01_established_sound_partial_trace :
  forall c bits clear tls outs choices,
  let r := run c bits clear tls outs choices in
  let q := final (c_feats c) (c_ws c) (mon0 bits) (trace r) in
  r_class r = ROk ->
  has (r_bits r) st_Ready = true /\ q_need_header q = false /\
  (self_ready (trace r) = false -> ~ pending q).
Proof. exact established_when_no_self_ready. Qed.
Print Assumptions C01_established_sound_partial_trace.

(* The literal reading of "no eligible mandatory feature of the last
   advertisement left un-negotiated" counts every configured feature the last
   advertisement marked required whose prerequisites hold now, also one that a
   later child of the same name space replaced in the cache (the cache is a map
   keyed by name space).  It implies the cache reading ... *)
Theorem C01_pending_cache_implies_literal :
  forall fs ws bits tr, let q := final fs ws (mon0 bits) tr in pending q -> pending_adv q.
Proof. exact pending_is_pending_adv. Qed.
Print Assumptions C01_pending_cache_implies_literal.

(* ... and is false of the code even when no feature reports Ready itself ... *)
Definition C01_established_literal_statement : Prop := established_literal_statement.

Theorem C01_established_literal_refuted : ~ C01_established_literal_statement.
Proof. exact established_literal_false. Qed.
Print Assumptions C01_established_literal_refuted.

Theorem C01_established_literal_refuted_witness :
  exists c bits clear tls outs choices,
    let r := run c bits clear tls outs choices in
    let q := final (c_feats c) (c_ws c) (mon0 bits) (trace r) in
    r_class r = ROk /\ self_ready (trace r) = false /\ pending_adv q.
Proof. exact established_literal_refuted. Qed.
Print Assumptions C01_established_literal_refuted_witness.

(* ... what holds: such a feature is not an entry of the cache (it was replaced
   by a later child of the same name space: two configured features share one). *)
Theorem C01_established_literal_partial :
  forall c bits clear tls outs choices,
  let r := run c bits clear tls outs choices in
  let q := final (c_feats c) (c_ws c) (mon0 bits) (trace r) in
  r_class r = ROk -> self_ready (trace r) = false ->
  q_need_header q = false /\
  forall g, In (true, g) (q_advall q) -> cand (q_negd q) (q_last q) (true, g) = true -> ~ In (true, g) (q_cache q).
Proof. exact established_literal_partial. Qed.
Print Assumptions C01_established_literal_partial.

(* The receiving side advertises exactly the configured features whose
   prerequisites hold, in configuration order. *)
Theorem C01_receiver_advertises_exactly_eligible :
  forall c bits clear tls outs choices pre post st names,
  trace (run c bits clear tls outs choices) = pre ++ EOut (WFeatures st names true) :: post ->
  names = map fname (listed (c_feats c) st).
Proof. exact at_features_written. Qed.
Print Assumptions C01_receiver_advertises_exactly_eligible.

(* ... and refuses, without running anything, a selection that was not
   advertised, was already negotiated, is informational only or is no longer
   allowed: the refused selection is the last event and the result is
   policy-violation; a feature runs on the receiving side only as the one
   legitimately selected just before. *)
Theorem C01_receiver_refuses_without_running :
  forall c bits clear tls outs choices,
  let r := run c bits clear tls outs choices in
  (forall pre post st it sp,
     trace r = pre ++ EIn RPSelect st it :: post ->
     let q := final (c_feats c) (c_ws c) (mon0 bits) pre in
     selection_space c it = Some sp -> accept (q_cache q) (q_negd q) st sp = None ->
     post = [] /\ r_class r = RErr EPolicy) /\
  (forall pre post st it,
     trace r = pre ++ EIn RPSelect st it :: post -> selection_space c it = None ->
     post = [] /\ r_class r = RErr EOther) /\
  (forall pre post f st o,
     trace r = pre ++ ENeg f st o :: post ->
     let q := final (c_feats c) (c_ws c) (mon0 bits) pre in
     q_recv q = true -> q_expect q = Some f).
Proof.
  exact (fun c bits clear tls outs choices =>
    conj (refused_selection_ends c bits clear tls outs choices)
         (conj (unusable_selection_ends c bits clear tls outs choices)
               (receiver_runs_selected c bits clear tls outs choices))).
Qed.
Print Assumptions C01_receiver_refuses_without_running.

(* All clauses at once, in the form the invariant proves them. *)
Theorem C01_all_clauses :
  forall c bits clear tls outs choices,
  holds (c_feats c) (c_ws c) (cl_all (c_feats c)) (mon0 bits) (trace (run c bits clear tls outs choices)).
Proof. exact all_clauses. Qed.
Print Assumptions C01_all_clauses.

(* The fuel of [run] covers every iteration of negotiateSession's loop. *)
Theorem C01_run_never_out_of_fuel :
  forall c bits clear tls outs choices, r_class (run c bits clear tls outs choices) <> RFuel.
Proof. exact run_no_fuel. Qed.
Print Assumptions C01_run_never_out_of_fuel.
