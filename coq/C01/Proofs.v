(* C01/Proofs.v — the invariant of the negotiation model from which the clauses
   of C01 follow.  Method: the monitor state after the events emitted so far,
   [Q m], is related to the machine state [m] ([RI], [Rel]); every function of
   the model preserves "all clauses held at every event so far" ([H]) and
   re-establishes the relation. *)
From Coq Require Import ZifyBool ZifyNat ZifyN.
From XV Require Import lib.Bytes gen.NegTables Neg.Model Neg.Proofs C01.Model.

(* ------------------------------------------------------------------ holds / final *)

Lemma final_app fs ws q a b : final fs ws q (a ++ b) = final fs ws (final fs ws q a) b.
Proof. revert q. induction a as [|e a IH]; intro q; simpl; [reflexivity | apply IH]. Qed.

Lemma holds_app fs ws P q a b :
  holds fs ws P q (a ++ b) <-> holds fs ws P q a /\ holds fs ws P (final fs ws q a) b.
Proof.
  revert q. induction a as [|e a IH]; intro q; simpl; [tauto|].
  rewrite IH. tauto.
Qed.

Lemma holds_impl fs ws (P P' : mon -> event -> Prop) q tr :
  (forall q e, P q e -> P' q e) -> holds fs ws P q tr -> holds fs ws P' q tr.
Proof.
  intro HPP. revert q. induction tr as [|e r IH]; intro q; simpl; [tauto|].
  intros [X Y]. split; [apply HPP; exact X | apply IH; exact Y].
Qed.

Lemma selection_space_ws c it :
  selection_space (mkCfg (c_feats c) false (c_ws c) false [] None false) it = selection_space c it.
Proof. reflexivity. Qed.

Section Inv.

Variable c : config.
Variable b0 : N.
Notation fs := (c_feats c).
Notation ws := (c_ws c).

Definition T (m : mstate) : list event := rev (m_tr m).
Definition Q (m : mstate) : mon := final fs ws (mon0 b0) (T m).
Definition H (m : mstate) : Prop := holds fs ws (cl_all fs) (mon0 b0) (T m).

Lemma Q_emit e m : Q (emit e m) = upd fs ws (Q m) e.
Proof. unfold Q, T. rewrite m_tr_emit. simpl rev. rewrite final_app. reflexivity. Qed.

Lemma H_emit e m : H (emit e m) <-> H m /\ cl_all fs (Q m) e.
Proof.
  unfold H, Q, T. rewrite m_tr_emit. simpl rev. rewrite holds_app. simpl. tauto.
Qed.

(* the setters do not touch the trace *)
Lemma Q_set_bits b m : Q (set_bits b m) = Q m. Proof. reflexivity. Qed.
Lemma Q_set_negd l m : Q (set_negd l m) = Q m. Proof. reflexivity. Qed.
Lemma Q_set_list ca t r m : Q (set_list ca t r m) = Q m. Proof. reflexivity. Qed.
Lemma Q_set_in i m : Q (set_in i m) = Q m. Proof. reflexivity. Qed.
Lemma Q_set_outs o m : Q (set_outs o m) = Q m. Proof. reflexivity. Qed.
Lemma Q_set_choices o m : Q (set_choices o m) = Q m. Proof. reflexivity. Qed.
Lemma Q_set_hs o m : Q (set_hs o m) = Q m. Proof. reflexivity. Qed.
Lemma Q_switch m : Q (switch_layer m) = Q m. Proof. reflexivity. Qed.
Lemma Q_set_rdy b m : Q (set_rdy b m) = Q m. Proof. reflexivity. Qed.
Lemma H_set_rdy b m : H (set_rdy b m) <-> H m. Proof. reflexivity. Qed.
Lemma H_set_bits b m : H (set_bits b m) <-> H m. Proof. reflexivity. Qed.
Lemma H_set_negd l m : H (set_negd l m) <-> H m. Proof. reflexivity. Qed.
Lemma H_set_list ca t r m : H (set_list ca t r m) <-> H m. Proof. reflexivity. Qed.
Lemma H_set_in i m : H (set_in i m) <-> H m. Proof. reflexivity. Qed.
Lemma H_set_outs o m : H (set_outs o m) <-> H m. Proof. reflexivity. Qed.
Lemma H_set_choices o m : H (set_choices o m) <-> H m. Proof. reflexivity. Qed.
Lemma H_set_hs o m : H (set_hs o m) <-> H m. Proof. reflexivity. Qed.
Lemma H_switch m : H (switch_layer m) <-> H m. Proof. reflexivity. Qed.

(* ------------------------------------------------------------------ relation inside negotiateFeatures *)

Record RI (rv : bool) (x : option feature) (m : mstate) : Prop := mkRI {
  ri_recv : q_recv (Q m) = rv;
  ri_bits : q_last (Q m) = m_bits m;
  ri_negd : q_negd (Q m) = m_negd m;
  ri_cache : q_cache (Q m) = m_cache m;
  ri_hdr : q_need_header (Q m) = false;
  ri_exp : q_expect (Q m) = x;
  ri_ref : q_refused (Q m) = None;
  ri_rdy : has (m_bits m) st_Ready = true -> q_self_ready (Q m) = true;
  ri_lreq : forall g, In (true, g) (m_cache m) -> m_lreq m = true;
  ri_adv : forall r g, In (r, g) (m_cache m) -> In (fname g) (q_adv (Q m));
  ri_uk : ukeys (m_cache m);
  ri_flag : m_rdy m = true -> q_self_ready (Q m) = true;
  ri_nrdy : has (m_bits m) st_Ready = false }.

(* events a running feature produces itself: they change nothing in the monitor *)
Definition quiet (q : mon) (e : event) : Prop :=
  match e with
  | EOut (WElem _ _) | ESwitch _ | EEof RPReply => True
  | EIn RPReply st _ => has st (q_last q) = true
  | _ => False
  end.

Lemma quiet_ok q e :
  quiet q e -> q_need_header q = false -> q_refused q = None ->
  cl_all fs q e /\ upd fs ws q e = q.
Proof.
  intros Hq Hh Hr. unfold cl_all, cl_restart, cl_refuses. rewrite Hh.
  destruct e as [rp st it| rp | w | f | f | f st o | n | b]; simpl in Hq; try contradiction.
  - destruct rp; try contradiction. simpl. repeat split; auto; discriminate.
  - destruct rp; try contradiction. simpl. repeat split; auto; discriminate.
  - destruct w; try contradiction. simpl. repeat split; auto; discriminate.
  - simpl. repeat split; auto; discriminate.
Qed.

Lemma emit_quiet e m :
  H m -> quiet (Q m) e -> q_need_header (Q m) = false -> q_refused (Q m) = None ->
  H (emit e m) /\ Q (emit e m) = Q m.
Proof.
  intros HH Hq Hh Hr. destruct (quiet_ok _ _ Hq Hh Hr) as [A B].
  rewrite H_emit, Q_emit. auto.
Qed.

(* callbacks outside Negotiate *)
Lemma emit_callback e m :
  (exists f, e = EParse f \/ e = EList f) ->
  H m -> q_need_header (Q m) = false -> q_refused (Q m) = None -> q_expect (Q m) = None ->
  H (emit e m) /\ Q (emit e m) = Q m.
Proof.
  intros [f [->| ->]] HH Hh Hr He; rewrite H_emit, Q_emit; (split; [split; [exact HH|]|reflexivity]);
    unfold cl_all, cl_restart, cl_refuses; rewrite Hh; simpl; repeat split; auto; discriminate.
Qed.

(* what the functions below leave alone *)
Definition frame (m m' : mstate) : Prop :=
  m_bits m' = m_bits m /\ m_negd m' = m_negd m /\ m_cache m' = m_cache m /\ m_lreq m' = m_lreq m /\ m_total m' = m_total m /\
  m_rdy m' = m_rdy m.

Lemma frame_refl m : frame m m.
Proof. unfold frame. tauto. Qed.

Lemma RI_frame rv x m m' : frame m m' -> Q m' = Q m -> RI rv x m -> RI rv x m'.
Proof.
  intros (Fb & Fn & Fc & Fl & Ft & Fr) HQ R. destruct R.
  constructor; rewrite ?HQ, ?Fb, ?Fn, ?Fc, ?Fl, ?Fr; auto.
Qed.

(* reading the reply inside STARTTLS's Negotiate *)
Lemma read_reply_ok rv x m m' r :
  read RPReply m = (m', r) -> H m -> RI rv x m -> H m' /\ Q m' = Q m /\ frame m m'.
Proof.
  unfold read. intros E HH R. destruct (m_in m) as [|it rest]; inversion E; subst; clear E.
  - destruct (emit_quiet (EEof RPReply) m HH I (ri_hdr _ _ _ R) (ri_ref _ _ _ R)) as [A B].
    repeat split; auto.
  - assert (Hq : quiet (Q (set_in rest m)) (EIn RPReply (m_bits m) it)).
    { simpl. rewrite Q_set_in, (ri_bits _ _ _ R). apply has_refl. }
    destruct (emit_quiet _ (set_in rest m) HH Hq (ri_hdr _ _ _ R) (ri_ref _ _ _ R)) as [A B].
    repeat split; auto.
Qed.

Lemma starttls_negotiate_ok rv x m m1 o :
  starttls_negotiate c m = (m1, o) -> H m -> RI rv x m ->
  H m1 /\ Q m1 = Q m /\ frame m m1 /\ (o_err o = false -> o_restart o = true).
Proof.
  unfold starttls_negotiate. intros E HH R.
  destruct (server m).
  - inversion E; subst; clear E.
    destruct (emit_quiet (EOut (WElem ns_StartTLS str_proceed)) m HH I (ri_hdr _ _ _ R) (ri_ref _ _ _ R)) as [A B].
    set (m2 := emit (EOut (WElem ns_StartTLS str_proceed)) m) in *.
    assert (A' : H (switch_layer m2)) by exact A.
    assert (Hh : q_need_header (Q (switch_layer m2)) = false) by (rewrite Q_switch, B; apply (ri_hdr _ _ _ R)).
    assert (Hr : q_refused (Q (switch_layer m2)) = None) by (rewrite Q_switch, B; apply (ri_ref _ _ _ R)).
    destruct (emit_quiet (ESwitch (tls_name c)) (switch_layer m2) A' I Hh Hr) as [A2 B2].
    split; [exact A2|]. split; [rewrite B2, Q_switch; exact B|]. split; [unfold frame; simpl; tauto | reflexivity].
  - destruct (emit_quiet (EOut (WElem ns_StartTLS str_starttls)) m HH I (ri_hdr _ _ _ R) (ri_ref _ _ _ R)) as [A B].
    set (m0 := emit (EOut (WElem ns_StartTLS str_starttls)) m) in *.
    assert (R0 : RI rv x m0) by (apply (RI_frame rv x m m0); [unfold frame; simpl; tauto | exact B | exact R]).
    destruct (read RPReply m0) as [m2 r] eqn:Er.
    destruct (read_reply_ok rv x m0 m2 r Er A R0) as (A2 & B2 & F2).
    assert (R2 : RI rv x m2) by (apply (RI_frame rv x m0 m2); auto).
    assert (F02 : frame m m2).
    { unfold frame in *. simpl in F2. tauto. }
    destruct (is_proceed r).
    + inversion E; subst; clear E.
      assert (A' : H (switch_layer m2)) by exact A2.
      assert (Hh : q_need_header (Q (switch_layer m2)) = false) by (rewrite Q_switch; apply (ri_hdr _ _ _ R2)).
      assert (Hr : q_refused (Q (switch_layer m2)) = None) by (rewrite Q_switch; apply (ri_ref _ _ _ R2)).
      destruct (emit_quiet (ESwitch (tls_name c)) (switch_layer m2) A' I Hh Hr) as [A3 B3].
      split; [exact A3|]. split; [rewrite B3, Q_switch, B2; exact B|].
      split; [unfold frame in *; simpl; tauto | reflexivity].
    + inversion E; subst; clear E. split; [exact A2|]. split; [rewrite B2; exact B|].
      split; [exact F02 | simpl; discriminate].
Qed.

(* all clauses hold for a Negotiate call of f in the current state *)
Definition neg_ok (m : mstate) (f : feature) : Prop :=
  forall o, cl_all fs (Q m) (ENeg f (m_bits m) o).

Lemma negotiate_one_ok rv x m f m1 o :
  negotiate_one c m f = (m1, o) -> H m -> RI rv x m -> neg_ok m f ->
  H m1 /\ Q m1 = upd fs ws (Q m) (ENeg f (m_bits m) o) /\ frame m m1.
Proof.
  unfold negotiate_one. intros E HH R NK.
  destruct (f_kind f).
  - inversion E; subst; clear E. rewrite H_emit, Q_emit. rewrite Q_set_outs.
    split; [split; [exact HH | apply NK]|]. split; [reflexivity | unfold frame; simpl; tauto].
  - destruct (starttls_negotiate c m) as [m2 o2] eqn:Es.
    destruct (starttls_negotiate_ok rv x m m2 o2 Es HH R) as (A & B & F & _).
    inversion E; subst; clear E. rewrite H_emit, Q_emit, B.
    split; [split; [exact A | apply NK]|]. split; [reflexivity | unfold frame in *; simpl; tauto].
Qed.

(* ------------------------------------------------------------------ one pick *)

(* why the picked feature may run *)
Definition pick_ok (rv : bool) (x : option feature) (m : mstate) (req : bool) (f : feature) : Prop :=
  f_neg f = true /\ mem (f_space f) (m_negd m) = false /\
  (rv = true -> x = Some f) /\
  ((In (req, f) (m_cache m) /\ eligible f (m_bits m) = true /\
    (rv = false -> req = true ->
     forall g, In (false, g) (m_cache m) -> cand (m_negd m) (m_bits m) (false, g) = false))
   \/ (forced fs (Q m) f (m_bits m) /\ eligible f (m_bits m) = true /\ forall r, ~ In (r, f) (m_cache m))).

Lemma pick_neg_ok rv x m req f : RI rv x m -> pick_ok rv x m req f -> neg_ok m f.
Proof.
  intros R (Pn & Pm & Px & Pc) o. destruct R.
  unfold cl_all, cl_advertised, cl_prerequisites, cl_voluntary_first, cl_monotone, cl_restart, cl_advertises, cl_refuses.
  rewrite ri_hdr0, ri_negd0, ri_bits0, ri_cache0, ri_exp0, ri_ref0, ri_recv0. unfold cached. rewrite ri_cache0.
  repeat split; auto.
  - destruct Pc as [(Pi & _)|(Pf & _)]; [left | right; exact Pf].
    split; [eapply ri_adv0; eauto | exists req; exact Pi].
  - destruct Pc as [(_ & Pe & _)|(_ & Pe & _)]; exact Pe.
  - intros Hs Hc g Hg. destruct Pc as [(Pi & _ & Pv)|(_ & _ & Pn')]; [|exfalso; eapply Pn'; eauto].
    assert (E : (true, f) = (req, f)) by (apply (ukeys_unique (m_cache m)); auto).
    inversion E; subst. apply Pv; auto.
  - discriminate.
Qed.

(* the mask handed to negotiateSession adds nothing to the state but, possibly, Ready *)
Definition bits_plus_ready (b mask : N) : Prop :=
  N.lor b mask = b \/ N.lor b mask = N.lor b st_Ready.

Definition PostPick (rv : bool) (m' : mstate) (r : res (option (N * bool))) : Prop :=
  H m' /\ q_last (Q m') = m_bits m' /\ q_refused (Q m') = None /\ q_expect (Q m') = None /\
  match r with
  | Good None => RI rv None m'
  | Good (Some (mask, restart)) =>
      q_need_header (Q m') = restart /\
      (restart = false -> RI rv None m') /\
      (has (N.lor (m_bits m') mask) st_Ready = false -> N.lor (m_bits m') mask = m_bits m') /\
      (has (N.lor (m_bits m') mask) st_Ready = true ->
       restart = false /\ (q_self_ready (Q m') = true \/ ~ pending (Q m'))) /\
      bits_plus_ready (m_bits m') mask
  | _ => True
  end.

Lemma has_clear_ready b : has (clear_ready b) st_Ready = false.
Proof.
  rewrite has_ready_testbit. unfold clear_ready. rewrite N.ldiff_spec.
  change (N.testbit st_Ready 2) with true. apply andb_false_r.
Qed.

Lemma after_pick_ok rv x m req f m' r :
  after_pick c m req f = (m', r) -> H m -> RI rv x m -> pick_ok rv x m req f -> PostPick rv m' r.
Proof.
  unfold after_pick. intros E HH R PK.
  destruct (negotiate_one c m f) as [m1 o] eqn:En.
  destruct (negotiate_one_ok rv x m f m1 o En HH R (pick_neg_ok rv x m req f R PK)) as (A & B & (Fb & Fn & Fc & Fl & Ft & Fr)).
  destruct R.
  destruct (o_err o) eqn:Eerr.
  - (* the feature failed *)
    inversion E; subst; clear E. unfold PostPick.
    rewrite Q_set_negd, B. simpl. rewrite Eerr. repeat split; auto.
  - remember (set_rdy (m_rdy m1 || has (o_mask o) st_Ready) (set_bits (N.lor (m_bits m1) (eff_mask o)) m1)) as m2 eqn:Em2.
    remember (set_negd (f_space f :: m_negd m2) m2) as m3 eqn:Em3.
    assert (HQ : Q m3 = upd fs ws (Q m) (ENeg f (m_bits m) o)) by (subst m3 m2; rewrite Q_set_negd, Q_set_rdy, Q_set_bits; exact B).
    assert (Hb3 : m_bits m3 = N.lor (m_bits m) (eff_mask o)) by (subst m3 m2; simpl; rewrite Fb; reflexivity).
    assert (Hn3 : m_negd m3 = f_space f :: m_negd m) by (subst m3 m2; simpl; rewrite Fn; reflexivity).
    assert (Hc3 : m_cache m3 = m_cache m) by (subst m3 m2; simpl; exact Fc).
    assert (Hl3 : m_lreq m3 = m_lreq m) by (subst m3 m2; simpl; exact Fl).
    assert (Hr3 : m_rdy m3 = m_rdy m || has (o_mask o) st_Ready) by (subst m3 m2; simpl; rewrite Fr; reflexivity).
    assert (Hnr3 : has (m_bits m3) st_Ready = false).
    { rewrite Hb3, has_ready_lor, ri_nrdy0. unfold eff_mask. rewrite has_clear_ready. reflexivity. }
    assert (Hflag : m_rdy m3 = true -> q_self_ready (Q m3) = true).
    { rewrite Hr3, HQ. simpl. rewrite Eerr. intro X. apply orb_true_iff in X. destruct X as [X|X].
      - rewrite (ri_flag0 X). reflexivity.
      - rewrite X. apply orb_true_r. }
    assert (HR : o_restart o = false -> RI rv None m3).
    { intro Er. constructor; rewrite ?HQ, ?Hb3, ?Hn3, ?Hc3, ?Hl3; simpl; rewrite ?Eerr, ?Er; auto.
      - rewrite ri_negd0. reflexivity.
      - rewrite <- Hb3, Hnr3. discriminate.
      - intro X. pose proof (Hflag X) as Y. rewrite HQ in Y. simpl in Y. rewrite Eerr in Y. exact Y.
      - rewrite <- Hb3. exact Hnr3. }
    assert (Hbase : H m3 /\ q_last (Q m3) = m_bits m3 /\ q_refused (Q m3) = None /\ q_expect (Q m3) = None).
    { split; [subst m3 m2; exact A|]. rewrite HQ, Hb3. simpl. rewrite Eerr. auto. }
    assert (Habs : N.lor (m_bits m3) (eff_mask o) = m_bits m3).
    { apply lor_absorb. rewrite Hb3. apply has_lor_r. }
    destruct (o_restart o || req) eqn:Ebr.
    + inversion E; subst m' r; clear E. unfold PostPick. destruct Hbase as (X1 & X2 & X3 & X4).
      split; [exact X1|]. split; [exact X2|]. split; [exact X3|]. split; [exact X4|].
      split; [rewrite HQ; simpl; rewrite Eerr; apply andb_true_r|].
      split; [exact HR|].
      destruct (negb (o_restart o) && (m_rdy m3 || negb (m_lreq m3))) eqn:Elr.
      * apply andb_true_iff in Elr. destruct Elr as [Er El]. apply negb_true_iff in Er.
        split; [|split].
        -- intro X. exfalso. rewrite N.lor_assoc, has_ready_lor, has_refl, orb_true_r in X. discriminate.
        -- intros _. split; [exact Er|]. apply orb_true_iff in El. destruct El as [El|El].
           ++ left. apply Hflag. exact El.
           ++ right. apply negb_true_iff in El.
              intros (g & Hg & _). rewrite HQ in Hg. simpl in Hg. rewrite ri_cache0 in Hg.
              assert (Y : m_lreq m3 = true) by (rewrite Hl3; eapply ri_lreq0; eauto).
              congruence.
        -- right. rewrite N.lor_assoc, Habs. reflexivity.
      * rewrite N.lor_0_r. unfold bits_plus_ready. rewrite Habs. split; [auto|]. split; [|left; reflexivity].
        intro X. rewrite Hnr3 in X. discriminate.
    + apply orb_false_iff in Ebr. destruct Ebr as [Er _].
      inversion E; subst m' r; clear E. unfold PostPick. destruct Hbase as (X1 & X2 & X3 & X4).
      split; [exact X1|]. split; [exact X2|]. split; [exact X3|]. split; [exact X4|]. apply HR. exact Er.
Qed.

(* ------------------------------------------------------------------ the initiator's selection loop *)

Lemma select_ok m m1 r :
  select m = (m1, r) ->
  Q m1 = Q m /\ frame m m1 /\
  match r with
  | Good None => candidates m = []
  | Good (Some (req, f)) =>
      In (req, f) (m_cache m) /\ cand (m_negd m) (m_bits m) (req, f) = true /\
      (req = true -> forall g, In (false, g) (m_cache m) -> cand (m_negd m) (m_bits m) (false, g) = false)
  | _ => True
  end.
Proof.
  unfold select. intro E.
  destruct (candidates m) as [|e0 cs] eqn:Ec.
  - inversion E; subst. repeat split; auto.
  - rewrite <- Ec in E. destruct (m_choices m) as [|ch rest].
    + inversion E; subst. repeat split; auto.
    + destruct (cache_get ch (candidates m)) as [[req f]|] eqn:Eg.
      * simpl in E. destruct (req && existsb (fun x => negb (fst x)) (candidates m)) eqn:Ev;
          inversion E; subst; clear E; (split; [reflexivity|]); (split; [unfold frame; simpl; tauto|]); [exact I|].
        unfold candidates in Eg. apply cache_get_filter in Eg. destruct Eg as (G1 & G2 & _).
        split; [exact G1|]. split; [exact G2|].
        intros -> g Hg. simpl in Ev.
        destruct (cand (m_negd m) (m_bits m) (false, g)) eqn:Ecg; [|reflexivity].
        exfalso. assert (X : existsb (fun x => negb (fst x)) (candidates m) = true).
        { apply existsb_exists. exists (false, g). split; [|reflexivity].
          unfold candidates. apply filter_In. auto. }
        congruence.
      * inversion E; subst. repeat split; auto.
Qed.

(* what negotiateFeatures promises to negotiateSession *)
Definition PostNF (m' : mstate) (r : res (N * bool)) : Prop :=
  H m' /\ q_last (Q m') = m_bits m' /\
  match r with
  | Good (mask, restart) =>
      q_refused (Q m') = None /\ q_expect (Q m') = None /\
      q_need_header (Q m') = restart /\
      (restart = false -> q_negd (Q m') = m_negd m') /\
      (has (N.lor (m_bits m') mask) st_Ready = false -> N.lor (m_bits m') mask = m_bits m') /\
      (has (N.lor (m_bits m') mask) st_Ready = true ->
       restart = false /\ (q_self_ready (Q m') = true \/ ~ pending (Q m'))) /\
      bits_plus_ready (m_bits m') mask
  | Bad e => forall e', q_refused (Q m') = Some e' -> e' = e
  | Stuck => q_refused (Q m') = None
  end.

Lemma PostPick_NF rv m' r :
  PostPick rv m' r ->
  match r with
  | Good (Some mr) => PostNF m' (Good mr)
  | Good None => True
  | Bad e => PostNF m' (Bad e)
  | Stuck => PostNF m' Stuck
  end.
Proof.
  intros (P1 & P2 & P3 & P3' & P4). destruct r as [[[mask restart]|]|e|]; auto.
  - destruct P4 as (X1 & X2 & X3 & X4 & X5). unfold PostNF.
    split; [exact P1|]. split; [exact P2|]. split; [exact P3|]. split; [exact P3'|]. split; [exact X1|].
    split; [intro Er; apply (ri_negd _ _ _ (X2 Er))|]. split; [exact X3|]. split; [exact X4 | exact X5].
  - unfold PostNF. repeat split; auto. intros e' X. congruence.
  - unfold PostNF. repeat split; auto.
Qed.

Lemma cand_true negd st e :
  cand negd st e = true -> mem (ckey e) negd = false /\ f_neg (snd e) = true /\ eligible (snd e) st = true.
Proof.
  unfold cand. rewrite !andb_true_iff, negb_true_iff. tauto.
Qed.

Lemma no_candidates_no_pending m :
  RI false None m -> candidates m = [] -> ~ pending (Q m).
Proof.
  intros R Ec (g & Hg & Hc). destruct R.
  rewrite ri_cache0 in Hg. rewrite ri_negd0, ri_bits0 in Hc.
  assert (X : In (true, g) (candidates m)) by (unfold candidates; apply filter_In; auto).
  rewrite Ec in X. exact X.
Qed.

Lemma RI_choices rv x ch m : RI rv x m -> RI rv x (set_choices ch m).
Proof. intro R. apply (RI_frame rv x m); [unfold frame; simpl; tauto | reflexivity | exact R]. Qed.

Lemma PostNF_stuck rv x m : H m -> RI rv x m -> PostNF m Stuck.
Proof. intros HH R. unfold PostNF. destruct R. auto. Qed.

Lemma init_loop_ok fuel : forall m fo m' r,
  init_loop fuel c m fo = (m', r) -> H m -> RI false None m ->
  (forall f, fo = Some f ->
     f_neg f = true /\ forced fs (Q m) f (m_bits m) /\ (forall rq, ~ In (rq, f) (m_cache m)) /\
     mem (f_space f) (m_negd m) = false /\ eligible f (m_bits m) = true) ->
  PostNF m' r.
Proof.
  induction fuel as [|k IH]; intros m fo m' r E HH R Hfo; simpl in E.
  - inversion E; subst. eapply PostNF_stuck; eauto.
  - destruct fo as [f|].
    + destruct (Hfo f eq_refl) as (F1 & F2 & F3 & F4 & F5).
      destruct (m_choices m) as [|ch rest] eqn:Ech.
      * inversion E; subst. eapply PostNF_stuck; eauto.
      * destruct (negb (bytes_eqb ch (f_space f))).
        -- inversion E; subst. eapply PostNF_stuck; [exact HH | apply RI_choices; exact R].
        -- destruct (after_pick c (set_choices rest m) true f) as [m1 r1] eqn:Ea.
           assert (PK : pick_ok false None (set_choices rest m) true f).
           { unfold pick_ok. simpl. split; [exact F1|]. split; [exact F4|]. split; [discriminate|].
             right. split; [exact F2|]. split; [exact F5 | exact F3]. }
           pose proof (after_pick_ok false None _ true f m1 r1 Ea HH (RI_choices _ _ rest m R) PK) as PP.
           pose proof (PostPick_NF _ _ _ PP) as PN.
           destruct r1 as [[mr|]|e|]; inversion E; subst; auto.
           destruct PP as (P1 & P2 & P3 & _). unfold PostNF. auto.
    + destruct (select m) as [m1 rs] eqn:Es.
      destruct (select_ok m m1 rs Es) as (SQ & SF & SR).
      assert (HH1 : H m1).
      { unfold select in Es. destruct (candidates m); [inversion Es; subst; exact HH|].
        destruct (m_choices m); [inversion Es; subst; exact HH|].
        destruct (cache_get _ _) as [e|]; [destruct (_ && _)|]; inversion Es; subst; exact HH. }
      assert (R1 : RI false None m1) by (apply (RI_frame false None m m1); auto).
      destruct rs as [[[req f]|]|e|].
      * destruct SR as (S1 & S2 & S3). destruct SF as (Fb & Fn & Fc & Fl & Ft).
        destruct (cand_true _ _ _ S2) as (C1 & C2 & C3). simpl in C1, C2, C3.
        destruct (after_pick c m1 req f) as [m2 r2] eqn:Ea.
        assert (PK : pick_ok false None m1 req f).
        { unfold pick_ok. rewrite Fn, Fc, Fb. split; [exact C2|]. split; [exact C1|]. split; [discriminate|].
          left. split; [exact S1|]. split; [exact C3|]. intros _ Er g Hg. apply S3; auto. }
        pose proof (after_pick_ok false None m1 req f m2 r2 Ea HH1 R1 PK) as PP.
        pose proof (PostPick_NF _ _ _ PP) as PN.
        destruct r2 as [[mr|]|e|]; inversion E; subst; auto.
        destruct PP as (P1 & P2 & P3 & P4 & P5).
        eapply IH; eauto. discriminate.
      * inversion E; subst; clear E. destruct R1. unfold PostNF.
        split; [exact HH1|]. split; [auto|]. repeat split; auto.
        -- intro X. rewrite has_lor_r in X. discriminate.
        -- right. rewrite SQ. apply no_candidates_no_pending; auto.
        -- right. reflexivity.
      * inversion E; subst. unfold PostNF. destruct R1. split; [auto|]. split; [auto|]. intros e' X. congruence.
      * inversion E; subst. eapply PostNF_stuck; eauto.
Qed.

(* ------------------------------------------------------------------ the receiver's selection loop *)

Lemma accept_spec ca negd st sp e :
  accept ca negd st sp = Some e -> In e ca /\ cand negd st e = true.
Proof.
  unfold accept. destruct (cache_get sp ca) as [e0|] eqn:Eg; [|discriminate].
  destruct (cand negd st e0) eqn:Ec; [|discriminate].
  intro X. inversion X; subst. apply cache_get_In in Eg. tauto.
Qed.

Lemma recv_loop_ok fuel : forall m m' r,
  recv_loop fuel c m = (m', r) -> H m -> RI true None m -> PostNF m' r.
Proof.
  induction fuel as [|k IH]; intros m m' r E HH R; simpl in E.
  - inversion E; subst. eapply PostNF_stuck; eauto.
  - unfold read in E. destruct (m_in m) as [|it rest] eqn:Ein.
    + (* end of input *)
      inversion E; subst; clear E. destruct R.
      assert (X : cl_all fs (Q m) (EEof RPSelect)).
      { unfold cl_all, cl_restart, cl_refuses. rewrite ri_hdr0. simpl. repeat split; auto; discriminate. }
      unfold PostNF. rewrite H_emit, Q_emit. split; [split; [exact HH | exact X]|].
      split; [simpl; exact ri_bits0|]. simpl. intros e' Y. congruence.
    + set (m1 := emit (EIn RPSelect (m_bits m) it) (set_in rest m)) in *.
      assert (X : cl_all fs (Q m) (EIn RPSelect (m_bits m) it)).
      { destruct R. unfold cl_all, cl_restart, cl_refuses, cl_monotone. rewrite ri_hdr0, ri_bits0. simpl.
        repeat split; auto; try discriminate. apply has_refl. }
      assert (HH1 : H m1) by (unfold m1; rewrite H_emit; split; [exact HH | rewrite Q_set_in; exact X]).
      assert (HQ1 : Q m1 = upd fs ws (Q m) (EIn RPSelect (m_bits m) it)) by (unfold m1; rewrite Q_emit, Q_set_in; reflexivity).
      assert (F1 : frame m m1) by (unfold frame, m1; simpl; tauto).
      destruct F1 as (Fb & Fn & Fc & Fl & Ft).
      simpl in HQ1. rewrite selection_space_ws in HQ1.
      destruct (selection_space c it) as [sp|] eqn:Esp.
      * unfold acceptable in E. rewrite Fc, Fn, Fb in E.
        rewrite (ri_cache _ _ _ R), (ri_negd _ _ _ R) in HQ1.
        destruct (accept (m_cache m) (m_negd m) (m_bits m) sp) as [[req f]|] eqn:Eacc.
        -- destruct (accept_spec _ _ _ _ _ Eacc) as (A1 & A2).
           destruct (cand_true _ _ _ A2) as (C1 & C2 & C3). simpl in C1, C2, C3.
           assert (R1 : RI true (Some f) m1).
           { destruct R. constructor; rewrite ?HQ1, ?Fb, ?Fn, ?Fc, ?Fl; simpl; auto. }
           destruct (after_pick c m1 req f) as [m2 r2] eqn:Ea.
           assert (PK : pick_ok true (Some f) m1 req f).
           { unfold pick_ok. rewrite Fn, Fc, Fb. split; [exact C2|]. split; [exact C1|]. split; [reflexivity|].
             left. split; [exact A1|]. split; [exact C3|]. discriminate. }
           pose proof (after_pick_ok true (Some f) m1 req f m2 r2 Ea HH1 R1 PK) as PP.
           pose proof (PostPick_NF _ _ _ PP) as PN.
           destruct r2 as [[mr|]|e|]; inversion E; subst; auto.
           destruct PP as (P1 & P2 & P3 & P4 & P5).
           eapply IH; eauto.
        -- inversion E; subst; clear E. unfold PostNF. split; [exact HH1|].
           rewrite HQ1. split; [simpl; apply (ri_bits _ _ _ R)|]. simpl. intros e' Y. congruence.
      * inversion E; subst; clear E. unfold PostNF. split; [exact HH1|].
        rewrite HQ1. split; [simpl; apply (ri_bits _ _ _ R)|]. simpl. intros e' Y. congruence.
Qed.

(* ------------------------------------------------------------------ reading / writing a features list *)

(* no restart pending, nothing refused, nothing expected: callbacks are harmless *)
Definition calm (m : mstate) : Prop :=
  q_need_header (Q m) = false /\ q_refused (Q m) = None /\ q_expect (Q m) = None.

Lemma read_children_ok st : forall cs m ca tot lr al m' r,
  read_children fs st cs m ca tot lr al = (m', r) -> H m -> calm m ->
  H m' /\ Q m' = Q m /\ frame m m' /\
  match r with
  | Good (ca', tot', lr', _) =>
      ca' = adv_cache fs st cs ca /\ tot <= tot' /\ (tot' = tot -> ca' = ca) /\
      (ukeys ca -> ukeys ca') /\
      ((forall g, In (true, g) ca -> lr = true) -> forall g, In (true, g) ca' -> lr' = true) /\
      (forall rq g, In (rq, g) ca' -> In (rq, g) ca \/ In (fname g) (adv_names cs))
  | _ => True
  end.
Proof.
  induction cs as [|ch rest IH]; intros m ca tot lr al m' r E HH (C1 & C2 & C3); simpl in E.
  - inversion E; subst. repeat split; auto using frame_refl.
  - destruct ch as [sp lo req perr|].
    + destruct (get_feature (sp, lo) fs) as [f|] eqn:Eg.
      * destruct (emit_callback (EParse f) m (ex_intro _ f (or_introl eq_refl)) HH C1 C2 C3) as [A B].
        destruct perr.
        -- inversion E; subst. repeat split; auto; simpl; auto.
        -- assert (C' : calm (emit (EParse f) m)) by (unfold calm; rewrite B; auto).
           destruct (IH _ _ _ _ _ _ _ E A C') as (I1 & I2 & I3 & I4).
           split; [exact I1|]. split; [rewrite I2; exact B|].
           split; [unfold frame in *; simpl in I3; tauto|].
           destruct r as [[[[ca' tot'] lr'] al']|e|]; auto.
           destruct I4 as (J1 & J2 & J3 & J4 & J5 & J6). simpl. rewrite Eg.
           split; [exact J1|]. split; [lia|]. split; [intro; lia|].
           split; [intro U; apply J4; apply ukeys_step; exact U|].
           split.
           ++ intros Hlr g Hg. apply J5 with (g := g); [|exact Hg].
              intros g' Hg'. apply In_cache_step in Hg'. destruct Hg' as [Eq|Hin].
              ** inversion Eq; subst. apply orb_true_r.
              ** rewrite (Hlr g' Hin). reflexivity.
           ++ intros rq g Hg. destruct (J6 rq g Hg) as [X|X]; [|right; simpl; right; exact X].
              apply In_cache_step in X. destruct X as [X|X]; [|left; exact X].
              inversion X; subst. right. simpl. left. apply get_feature_spec in Eg. destruct Eg as [_ Eg]. symmetry. exact Eg.
      * destruct (IH _ _ _ _ _ _ _ E HH (conj C1 (conj C2 C3))) as (I1 & I2 & I3 & I4).
        split; [exact I1|]. split; [exact I2|]. split; [exact I3|].
        destruct r as [[[[ca' tot'] lr'] al']|e|]; auto.
        destruct I4 as (J1 & J2 & J3 & J4 & J5 & J6). simpl. rewrite Eg.
        split; [exact J1|]. split; [lia|]. split; [intro; lia|]. split; [exact J4|]. split; [exact J5|].
        intros rq g Hg. destruct (J6 rq g Hg); [left|right; simpl; right]; auto.
    + inversion E; subst. repeat split; auto using frame_refl.
Qed.

Lemma list_loop_ok st : forall l m ca lr tot names m' ca' lr' tot' names' err,
  list_loop l st m ca lr tot names = (m', ca', lr', tot', names', err) -> H m -> calm m ->
  H m' /\ Q m' = Q m /\ frame m m' /\
  (err = false ->
   ca' = listed_cache l st ca /\ names' = names ++ map fname (listed l st) /\
   (ukeys ca -> ukeys ca') /\
   ((forall g, In (true, g) ca -> lr = true) -> forall g, In (true, g) ca' -> lr' = true) /\
   (forall rq g, In (rq, g) ca' -> In (rq, g) ca \/ In (fname g) (map fname (listed l st)))).
Proof.
  induction l as [|f rest IH]; intros m ca lr tot names m' ca' lr' tot' names' err E HH (C1 & C2 & C3); simpl in E.
  - inversion E; subst. split; [exact HH|]. split; [reflexivity|]. split; [apply frame_refl|].
    intros _. simpl. rewrite app_nil_r. repeat split; auto.
  - unfold listed. simpl. fold (listed rest st). destruct (eligible f st) eqn:Ee.
    + destruct (emit_callback (EList f) m (ex_intro _ f (or_intror eq_refl)) HH C1 C2 C3) as [A B].
      destruct (f_lerr f).
      * inversion E; subst. split; [exact A|]. split; [exact B|]. split; [unfold frame; simpl; tauto|]. discriminate.
      * assert (C' : calm (emit (EList f) m)) by (unfold calm; rewrite B; auto).
        destruct (IH _ _ _ _ _ _ _ _ _ _ _ E A C') as (I1 & I2 & I3 & I4).
        split; [exact I1|]. split; [rewrite I2; exact B|]. split; [unfold frame in *; simpl in I3; tauto|].
        intro Eerr. destruct (I4 Eerr) as (J1 & J2 & J3 & J4 & J5).
        split; [exact J1|]. split; [rewrite J2, <- app_assoc; reflexivity|].
        split; [intro U; apply J3; apply ukeys_put; exact U|].
        split.
        -- intros Hlr g Hg. apply J4 with (g := g); [|exact Hg].
           intros g' Hg'. apply In_cache_put in Hg'. destruct Hg' as [Eq|Hin].
           ++ injection Eq as Hr Hg0. rewrite <- Hr. apply orb_true_r.
           ++ rewrite (Hlr g' Hin). reflexivity.
        -- intros rq g Hg. destruct (J5 rq g Hg) as [X|X]; [|right; simpl; right; exact X].
           apply In_cache_put in X. destruct X as [X|X]; [|left; exact X].
           inversion X; subst. right. simpl. left. reflexivity.
    + apply (IH _ _ _ _ _ _ _ _ _ _ _ E HH (conj C1 (conj C2 C3))).
Qed.

Definition Rdy (m : mstate) : Prop := has (m_bits m) st_Ready = false.

(* what holds when negotiateFeatures is entered *)
Definition PreNF (m : mstate) (first : bool) : Prop :=
  q_last (Q m) = m_bits m /\ q_negd (Q m) = m_negd m /\ calm m /\
  (first = true -> q_nlists (Q m) = 0 /\ m_negd m = []) /\ Rdy m.

Lemma write_features_ok m first m' r :
  write_features c m = (m', r) -> H m -> PreNF m first -> m_rdy m = false ->
  match r with
  | Good _ => H m' /\ RI true None m'
  | Bad e => PostNF m' (Bad e)
  | Stuck => False
  end.
Proof.
  unfold write_features. intros E HH (P1 & P2 & (C1 & C2 & C3) & P4 & P5) Hrd. unfold Rdy in P5.
  destruct (list_loop fs (m_bits m) m [] false 0 []) as [[[[[m1 ca] lr] tot] names] err] eqn:El.
  destruct (list_loop_ok _ _ _ _ _ _ _ _ _ _ _ _ _ El HH (conj C1 (conj C2 C3))) as (A & B & (Fb & Fn & Fc & Fl & Ft & Fr) & K).
  set (m2 := set_list ca tot lr m1) in *.
  assert (X : cl_all fs (Q m2) (EOut (WFeatures (m_bits m) names (negb err)))).
  { unfold m2. rewrite Q_set_list, B. unfold cl_all, cl_restart, cl_refuses, cl_monotone, cl_advertises.
    rewrite C1, C2, C3, P1. simpl. repeat split; auto; try discriminate; try apply has_refl.
    destruct err; simpl; [exact I|]. destruct (K eq_refl) as (_ & K2 & _). exact K2. }
  destruct err; inversion E; subst m' r; clear E.
  - unfold PostNF. split; [apply H_emit; split; [exact A | exact X]|]. rewrite Q_emit.
    unfold m2. rewrite Q_set_list, B. simpl. split; [rewrite Fb; exact P1|]. intros e' Y. congruence.
  - destruct (K eq_refl) as (K1 & K2 & K3 & K4 & K5). simpl in K2.
    split; [apply H_emit; split; [exact A | exact X]|].
    constructor; rewrite ?Q_emit; unfold m2; rewrite ?Q_set_list, ?B; simpl.
    + reflexivity.
    + rewrite Fb. exact P1.
    + rewrite Fn. exact P2.
    + symmetry. exact K1.
    + exact C1.
    + exact C3.
    + exact C2.
    + rewrite Fb, P5. discriminate.
    + intros g Hg. apply K4 with (g := g); [intros ? []|exact Hg].
    + intros rq g Hg. destruct (K5 rq g Hg) as [[]|Y]. rewrite K2. exact Y.
    + apply K3. apply ukeys_nil.
    + rewrite Fr, Hrd. discriminate.
    + rewrite Fb. exact P5.
Qed.

Lemma after_read_ok m first al m' r :
  after_read c m first al = (m', r) -> H m -> RI false None m ->
  (first = true -> q_nlists (Q m) = 1 /\ m_negd m = []) -> (m_total m = 0 -> m_cache m = []) ->
  PostNF m' r.
Proof.
  unfold after_read. intros E HH R Hf Ht.
  assert (Tail : forall m' r,
     match m_total m, al with
     | O, _ => (m, Good (st_Ready, false))
     | _, O => (m, Bad EOther)
     | _, _ => init_loop (S (length (m_cache m))) c m None
     end = (m', r) -> PostNF m' r).
  { clear E m' r. intros m' r E. destruct (m_total m) eqn:Et.
    - inversion E; subst; clear E. unfold PostNF. destruct R.
      split; [exact HH|]. split; [auto|]. repeat split; auto.
      + intro X. rewrite has_lor_r in X. discriminate.
      + right. intros (g & Hg & _). rewrite ri_cache0, (Ht eq_refl) in Hg. exact Hg.
      + right. reflexivity.
    - destruct al.
      + inversion E; subst. unfold PostNF. destruct R. split; [auto|]. split; [auto|]. intros e' Y. congruence.
      + eapply init_loop_ok; eauto. discriminate. }
  destruct (first && negb (match cache_get ns_StartTLS (m_cache m) with Some _ => true | None => false end)
            && negb (has (m_bits m) st_Secure)) eqn:Eforce; [|apply Tail; exact E].
  destruct (find_space ns_StartTLS fs) as [f|] eqn:Ef; [|apply Tail; exact E].
  destruct (f_neg f && eligible f (m_bits m)) eqn:En; [|apply Tail; exact E].
  apply andb_true_iff in En. destruct En as [En Eel].
  apply andb_true_iff in Eforce. destruct Eforce as [Eforce E3]. apply andb_true_iff in Eforce. destruct Eforce as [E1 E2].
  apply negb_true_iff in E2, E3. subst first. destruct (Hf eq_refl) as [Hn Hd].
  destruct (find_space_spec _ _ _ Ef) as [_ Esp].
  eapply init_loop_ok; eauto.
  intros f' Eq. inversion Eq; subst f'. split; [exact En|]. split.
  - unfold forced. rewrite (ri_recv _ _ _ R). auto.
  - split.
    + intros rq Hin. apply In_cache_get in Hin. unfold ckey in Hin. simpl in Hin. rewrite Esp in Hin.
      destruct (cache_get ns_StartTLS (m_cache m)); [discriminate | apply Hin; reflexivity].
    + split; [rewrite Hd; reflexivity | exact Eel].
Qed.

(* ------------------------------------------------------------------ negotiateFeatures *)

Lemma upd_features_in_other q st it :
  features_of (Some it) = None ->
  q_last (upd fs ws q (EIn RPFeatures st it)) = q_last q /\
  q_refused (upd fs ws q (EIn RPFeatures st it)) = q_refused q.
Proof. destruct it as [[] []]; simpl; auto. Qed.

Lemma negotiate_features_ok m first m' r :
  negotiate_features c m first = (m', r) -> H m -> PreNF m first -> PostNF m' r.
Proof.
  unfold negotiate_features. intros E HH P.
  assert (P' : PreNF (set_rdy false m) first) by exact P.
  assert (HH' : H (set_rdy false m)) by exact HH.
  assert (Hrd : m_rdy (set_rdy false m) = false) by reflexivity.
  revert E P' HH' Hrd. generalize (set_rdy false m). clear m HH P. intros m E P HH Hrd. cbv zeta in E.
  destruct (server m) eqn:Es.
  - destruct (write_features c m) as [m1 r1] eqn:Ew.
    pose proof (write_features_ok m first m1 r1 Ew HH P Hrd) as W.
    destruct r1 as [u|e|]; [|inversion E; subst; exact W|contradiction].
    destruct W as [W1 W2]. eapply recv_loop_ok; eauto.
  - destruct P as (P1 & P2 & (C1 & C2 & C3) & P4 & P5).
    unfold read in E. destruct (m_in m) as [|it rest] eqn:Ein.
    + simpl in E. inversion E; subst; clear E.
      assert (X : cl_all fs (Q m) (EEof RPFeatures)).
      { unfold cl_all, cl_restart, cl_refuses. rewrite C1. simpl. repeat split; auto; discriminate. }
      unfold PostNF. split; [apply H_emit; split; [exact HH | exact X]|]. rewrite Q_emit.
      split; [simpl; exact P1|]. simpl. intros e' Y. congruence.
    + set (m1 := emit (EIn RPFeatures (m_bits m) it) (set_in rest m)) in *.
      assert (X : cl_all fs (Q m) (EIn RPFeatures (m_bits m) it)).
      { unfold cl_all, cl_restart, cl_refuses, cl_monotone. rewrite C1, P1. simpl.
        repeat split; auto; try discriminate. apply has_refl. }
      assert (HH1 : H m1) by (unfold m1; apply H_emit; split; [exact HH | rewrite Q_set_in; exact X]).
      assert (HQ1 : Q m1 = upd fs ws (Q m) (EIn RPFeatures (m_bits m) it)) by (unfold m1; rewrite Q_emit, Q_set_in; reflexivity).
      destruct (features_of (Some it)) as [cs|] eqn:Ef.
      * assert (Eit : it = mkItem false (PFeatures cs)).
        { destruct it as [[] []]; simpl in Ef; try discriminate. inversion Ef. reflexivity. }
        subst it. simpl in HQ1.
        destruct (read_children fs (m_bits m1) cs m1 [] 0 false 0) as [m2 r2] eqn:Er.
        assert (Cm1 : calm m1) by (unfold calm; rewrite HQ1; simpl; auto).
        destruct (read_children_ok _ _ _ _ _ _ _ _ _ Er HH1 Cm1) as (A & B & (Fb & Fn & Fc & Fl & Ft & Fr) & K).
        destruct r2 as [[[[ca tot] lr] al]|e|].
        -- destruct K as (K1 & K2 & K3 & K4 & K5 & K6).
           set (m3 := set_list ca tot lr m2) in *.
           assert (R3 : RI false None m3).
           { constructor; unfold m3; rewrite ?Q_set_list, ?B, ?HQ1; simpl.
             - reflexivity.
             - rewrite Fb. exact P1.
             - rewrite Fn. exact P2.
             - symmetry. exact K1.
             - exact C1.
             - exact C3.
             - exact C2.
             - rewrite Fb. unfold Rdy in P5. simpl. rewrite P5. discriminate.
             - intros g Hg. apply K5 with (g := g); [intros ? []|exact Hg].
             - intros rq g Hg. destruct (K6 rq g Hg) as [[]|Y]. exact Y.
             - apply K4. apply ukeys_nil.
             - rewrite Fr. simpl. rewrite Hrd. discriminate.
             - rewrite Fb. exact P5. }
           assert (A3 : H m3) by exact A.
           apply (after_read_ok m3 first al m' r E A3 R3).
           ++ intro Ef1. destruct (P4 Ef1) as [N1 N2]. unfold m3. rewrite Q_set_list, B, HQ1. simpl.
              rewrite N1, Fn. simpl. auto.
           ++ unfold m3. simpl. intro Et. apply K3. lia.
        -- inversion E; subst. unfold PostNF. split; [exact A|]. rewrite B, HQ1. simpl.
           split; [rewrite Fb; exact P1|]. intros e' Y. congruence.
        -- inversion E; subst. unfold PostNF. split; [exact A|]. rewrite B, HQ1. simpl.
           split; [rewrite Fb; exact P1|]. exact C2.
      * destruct (upd_features_in_other (Q m) (m_bits m) it Ef) as [U1 U2].
        inversion E; subst. unfold PostNF. split; [exact HH1|]. rewrite HQ1, U1, U2.
        split; [exact P1|]. intros e' Y. congruence.
Qed.

(* ------------------------------------------------------------------ negotiator, negotiateSession *)

Record Rel (m : mstate) (ns : nstate) (istee : bool) : Prop := mkRel {
  rel_bits : q_last (Q m) = m_bits m;
  rel_negd : q_need_header (Q m) = false -> q_negd (Q m) = m_negd m;
  rel_rst : ns_restart ns = true -> m_negd m = [];
  rel_hdr : q_need_header (Q m) = true -> ns_restart ns = true;
  rel_first : ns_first ns = true -> q_nlists (Q m) = 0 /\ m_negd m = [];
  rel_tee : c_tee c = true -> istee = false -> ns_restart ns = true;
  rel_exp : q_expect (Q m) = None;
  rel_ref : q_refused (Q m) = None }.

Lemma expect_header_ok m m1 r :
  expect_header m = (m1, r) -> H m ->
  q_last (Q m) = m_bits m -> q_refused (Q m) = None -> q_expect (Q m) = None ->
  (q_need_header (Q m) = true -> server m = true) ->
  H m1 /\ Q m1 = Q m /\ frame m m1.
Proof.
  unfold expect_header, read. intros E HH Hb Hr He Hs.
  destruct (m_in m) as [|it rest]; inversion E; subst; clear E.
  - assert (X : cl_all fs (Q m) (EEof RPHeader)).
    { unfold cl_all, cl_restart, cl_refuses. simpl. repeat split; auto. intro Y. rewrite Hb. exact (Hs Y). }
    split; [apply H_emit; auto|]. split; [rewrite Q_emit; reflexivity | unfold frame; simpl; tauto].
  - assert (X : cl_all fs (Q m) (EIn RPHeader (m_bits m) it)).
    { unfold cl_all, cl_restart, cl_refuses, cl_monotone. simpl. repeat split; auto.
      - rewrite Hb. apply has_refl.
      - intro Y. rewrite Hb. exact (Hs Y). }
    split; [apply H_emit; rewrite Q_set_in; auto|]. split; [rewrite Q_emit, Q_set_in; reflexivity | unfold frame; simpl; tauto].
Qed.

Lemma send_header_ok m m1 r :
  send_header c m = (m1, r) -> H m -> q_refused (Q m) = None -> q_expect (Q m) = None ->
  H m1 /\ frame m m1 /\
  match r with
  | Good _ => Q m1 = upd fs ws (Q m) (EOut WHeader)
  | _ => Q m1 = Q m
  end.
Proof.
  unfold send_header. intros E HH Hr He.
  assert (XH : forall b, cl_all fs (Q m) (EHandshake b)).
  { intro b. unfold cl_all, cl_restart, cl_refuses. simpl. repeat split; auto. }
  assert (XW : cl_all fs (Q m) (EOut WHeader)).
  { unfold cl_all, cl_restart, cl_refuses. simpl. repeat split; auto. }
  destruct (m_tls m && m_hs m).
  - destruct (c_hs_ok c); inversion E; subst; clear E.
    + split.
      * apply H_emit. split; [apply H_emit; split; [exact HH | rewrite Q_set_hs; apply XH]|].
        rewrite Q_emit, Q_set_hs. exact XW.
      * split; [unfold frame; simpl; tauto|]. rewrite !Q_emit, Q_set_hs. reflexivity.
    + split; [apply H_emit; split; [exact HH | rewrite Q_set_hs; apply XH]|].
      split; [unfold frame; simpl; tauto|]. rewrite Q_emit, Q_set_hs. reflexivity.
  - inversion E; subst; clear E. split; [apply H_emit; auto|].
    split; [unfold frame; simpl; tauto|]. rewrite Q_emit. reflexivity.
Qed.

Lemma PostNF_bad m e : H m -> q_last (Q m) = m_bits m -> q_refused (Q m) = None -> PostNF m (Bad e).
Proof. intros. unfold PostNF. repeat split; auto. intros e' Y. congruence. Qed.

Lemma PreNF_after_header m m1 first :
  Q m1 = upd fs ws (Q m) (EOut WHeader) -> frame m m1 ->
  q_last (Q m) = m_bits m -> q_refused (Q m) = None -> q_expect (Q m) = None ->
  m_negd m = [] -> (first = true -> q_nlists (Q m) = 0) -> has (m_bits m) st_Ready = false ->
  PreNF m1 first.
Proof.
  intros HQ (Fb & Fn & Fc & Fl & Ft) Hb Hr He Hn Hf Hnr.
  unfold PreNF, calm, Rdy. rewrite HQ. simpl. rewrite Fb, Fn, Hn.
  split; [exact Hb|]. split; [reflexivity|]. split; [auto|]. split; [auto|].
  exact Hnr.
Qed.

Lemma frame_trans a b d : frame a b -> frame b d -> frame a d.
Proof. unfold frame. intuition congruence. Qed.

Lemma header_exchange_ok m ns istee m1 r1 :
  (if ns_restart ns
   then if server m
        then match expect_header m with (ma, Good _) => send_header c ma | other => other end
        else match send_header c m with (ma, Good _) => expect_header ma | other => other end
   else (m, Good tt)) = (m1, r1) ->
  H m -> Rel m ns istee -> has (m_bits m) st_Ready = false ->
  H m1 /\ q_last (Q m1) = m_bits m1 /\ q_refused (Q m1) = None /\
  match r1 with Good _ => PreNF m1 (ns_first ns) | Stuck => False | Bad _ => True end.
Proof.
  intros E1 HH R Hnr. destruct R.
  destruct (ns_restart ns) eqn:Ers.
  - pose proof (rel_rst0 eq_refl) as Hn0.
    assert (Hf0 : ns_first ns = true -> q_nlists (Q m) = 0) by (intro X; apply rel_first0; exact X).
    destruct (server m) eqn:Esv.
    + destruct (expect_header m) as [ma ra] eqn:Ee.
      destruct (expect_header_ok m ma ra Ee HH rel_bits0 rel_ref0 rel_exp0 (fun _ => Esv)) as (A & B & F).
      pose proof F as (Fb & Fn & Fc & Fl & Ft).
      destruct ra as [u|e|].
      * assert (Hr' : q_refused (Q ma) = None) by (rewrite B; exact rel_ref0).
        assert (He' : q_expect (Q ma) = None) by (rewrite B; exact rel_exp0).
        destruct (send_header_ok ma m1 r1 E1 A Hr' He') as (A2 & G & B2).
        pose proof G as (Gb & Gn & Gc & Gl & Gt).
        split; [exact A2|].
        destruct r1 as [u1|e1|].
        -- rewrite B2, B. simpl. rewrite Gb, Fb. split; [exact rel_bits0|]. split; [exact rel_ref0|].
           apply (PreNF_after_header m m1); auto. rewrite B2, B. reflexivity. eapply frame_trans; eauto.
        -- rewrite B2, B, Gb, Fb. auto.
        -- unfold send_header in E1. destruct (m_tls ma && m_hs ma); [destruct (c_hs_ok c)|]; inversion E1.
      * inversion E1; subst. rewrite B, Fb. auto.
      * unfold expect_header in Ee. destruct (read RPHeader m). destruct (is_good_header o); inversion Ee.
    + destruct (send_header c m) as [ma ra] eqn:Ese.
      destruct (send_header_ok m ma ra Ese HH rel_ref0 rel_exp0) as (A & F & B).
      pose proof F as (Fb & Fn & Fc & Fl & Ft).
      destruct ra as [u|e|].
      * assert (Hb' : q_last (Q ma) = m_bits ma) by (rewrite B; simpl; rewrite Fb; exact rel_bits0).
        assert (Hr' : q_refused (Q ma) = None) by (rewrite B; exact rel_ref0).
        assert (He' : q_expect (Q ma) = None) by (rewrite B; exact rel_exp0).
        assert (Hs' : q_need_header (Q ma) = true -> server ma = true) by (rewrite B; simpl; discriminate).
        destruct (expect_header_ok ma m1 r1 E1 A Hb' Hr' He' Hs') as (A2 & B2 & G).
        pose proof G as (Gb & Gn & Gc & Gl & Gt).
        split; [exact A2|]. rewrite B2. split; [rewrite Gb; exact Hb'|]. split; [exact Hr'|].
        destruct r1 as [u1|e1|]; auto.
        -- apply (PreNF_after_header m m1); auto. rewrite B2, B. reflexivity. eapply frame_trans; eauto.
        -- unfold expect_header in E1. destruct (read RPHeader ma). destruct (is_good_header o); inversion E1.
      * inversion E1; subst. rewrite B, Fb. auto.
      * unfold send_header in Ese. destruct (m_tls m && m_hs m); [destruct (c_hs_ok c)|]; inversion Ese.
  - inversion E1; subst; clear E1. split; [exact HH|]. split; [exact rel_bits0|]. split; [exact rel_ref0|].
    assert (Hh : q_need_header (Q m1) = false).
    { destruct (q_need_header (Q m1)) eqn:Y; [|reflexivity]. pose proof (rel_hdr0 eq_refl). discriminate. }
    unfold PreNF, calm, Rdy.
    split; [exact rel_bits0|]. split; [exact (rel_negd0 Hh)|]. split; [auto|]. split; [exact rel_first0|].
    exact Hnr.
Qed.

Lemma negotiator_body_ok m ns istee m' r :
  negotiator_body c m ns = (m', r) -> H m -> Rel m ns istee -> has (m_bits m) st_Ready = false ->
  match r with
  | Good (mask, restart, ns1) => PostNF m' (Good (mask, restart)) /\ ns1 = mkNS restart false
  | Bad e => PostNF m' (Bad e)
  | Stuck => PostNF m' Stuck
  end.
Proof.
  unfold negotiator_body. intros E HH R Hnr.
  destruct (if ns_restart ns then _ else _) as [m1 r1] eqn:E1.
  destruct (header_exchange_ok m ns istee m1 r1 E1 HH R Hnr) as (A & B & C & D).
  destruct r1 as [u|e|]; [| inversion E; subst; apply PostNF_bad; auto | contradiction].
  destruct (negotiate_features c m1 (ns_first ns)) as [m2 r2] eqn:En.
  pose proof (negotiate_features_ok m1 (ns_first ns) m2 r2 En A D) as PN.
  destruct r2 as [[mask restart]|e|]; inversion E; subst; auto.
Qed.

Definition Est (m : mstate) : Prop :=
  has (m_bits m) st_Ready = true ->
  q_need_header (Q m) = false /\ (q_self_ready (Q m) = true \/ ~ pending (Q m)).

(* the state is what the events determine, plus possibly Ready *)
Definition exact_bits (b last : N) : Prop := b = last \/ b = N.lor last st_Ready.

Lemma exact_bits_has b last : exact_bits b last -> has b last = true.
Proof. intros [->| ->]; [apply has_refl | apply has_lor_l; apply has_refl]. Qed.

(* ... and after an error it is that without Ready *)
Definition final_bits (cl : rclass) (b last : N) : Prop :=
  match cl with RErr _ => b = clear_ready last | _ => exact_bits b last end.

Definition RelW (m : mstate) (ns : nstate) (istee : bool) : Prop :=
  (has (m_bits m) st_Ready = false -> Rel m ns istee) /\
  exact_bits (m_bits m) (q_last (Q m)) /\ Est m /\ q_refused (Q m) = None.

Definition Final (r : result) : Prop :=
  H (r_state r) /\ established_partial (Q (r_state r)) r /\ refusal_reported (Q (r_state r)) r /\
  final_bits (r_class r) (r_bits r) (q_last (Q (r_state r))).

Lemma Final_noerr cl m :
  (forall e, cl <> RErr e) ->
  H m -> exact_bits (m_bits m) (q_last (Q m)) -> q_refused (Q m) = None ->
  (cl = ROk -> has (m_bits m) st_Ready = true /\ Est m) ->
  Final (mkR cl (m_bits m) m).
Proof.
  intros Hne HH Hx Hr Hok. pose proof (exact_bits_has _ _ Hx) as Hb.
  unfold Final, established_partial, refusal_reported. simpl.
  split; [exact HH|]. split.
  - intro Ec. destruct (Hok Ec) as [Y1 Y2]. split; [exact Y1|]. split; [exact Hb|].
    destruct (Y2 Y1) as [Z1 Z2]. split; [exact Z1|].
    intro Hs. destruct Z2 as [Z|Z]; [congruence | exact Z].
  - split; [intros e Y; congruence |]. unfold final_bits. destruct cl; try exact Hx. exfalso. eapply Hne; reflexivity.
Qed.

Lemma session_loop_ok fuel : forall m ns istee,
  H m -> RelW m ns istee -> Final (session_loop fuel c m ns istee).
Proof.
  induction fuel as [|k IH]; intros m ns istee HH (W1 & W2 & W3 & W4); simpl.
  - apply Final_noerr; auto; discriminate.
  - destruct (has (m_bits m) st_Ready) eqn:Erd.
    + apply Final_noerr; auto; discriminate.
    + pose proof (W1 eq_refl) as R.
      destruct (c_tee c && negb istee) eqn:Etee.
      * (* the tee-wrapping call *)
        apply andb_true_iff in Etee. destruct Etee as [Et Ei]. apply negb_true_iff in Ei. subst istee.
        destruct R. pose proof (rel_tee0 Et eq_refl) as Ers. pose proof (rel_rst0 Ers) as Hn0.
        apply IH; [exact HH|]. unfold RelW, Est. simpl. rewrite Q_set_negd.
        split; [|auto]. intros _. constructor; simpl; rewrite ?Q_set_negd.
        -- exact rel_bits0.
        -- intro X. rewrite (rel_negd0 X). exact Hn0.
        -- reflexivity.
        -- exact rel_hdr0.
        -- intro X. apply andb_true_iff in X. destruct X as [X _]. split; [apply rel_first0; exact X | reflexivity].
        -- discriminate.
        -- exact rel_exp0.
        -- exact rel_ref0.
      * destruct (negotiator_body c m ns) as [m1 rb] eqn:Eb.
        pose proof (negotiator_body_ok m ns istee m1 rb Eb HH R Erd) as NB.
        destruct rb as [[[mask restart] ns1]|e|].
        -- destruct NB as [(P1 & P2 & P3 & P4 & P5 & P6 & P7 & P8 & P9) Ens]. subst ns1.
           set (m2 := if restart then set_negd [] m1 else m1).
           assert (Q2 : Q m2 = Q m1) by (unfold m2; destruct restart; reflexivity).
           assert (B2 : m_bits m2 = m_bits m1) by (unfold m2; destruct restart; reflexivity).
           apply IH; [unfold m2; destruct restart; exact P1|].
           unfold RelW, Est. simpl. rewrite Q_set_bits, Q2, B2.
           split; [|split; [|split]].
           ++ intro Hnr. pose proof (P7 Hnr) as Heq. rewrite Heq. unfold m2 in *. clear Q2 B2.
              destruct restart; constructor; simpl; rewrite ?Q_set_bits, ?Q_set_negd.
              ** exact P2.
              ** intro X. rewrite P5 in X. discriminate.
              ** reflexivity.
              ** reflexivity.
              ** discriminate.
              ** reflexivity.
              ** exact P4.
              ** exact P3.
              ** exact P2.
              ** intros _. exact (P6 eq_refl).
              ** discriminate.
              ** intro X. rewrite P5 in X. discriminate.
              ** discriminate.
              ** intros Et X. subst istee. rewrite Et in Etee. discriminate.
              ** exact P4.
              ** exact P3.
           ++ unfold exact_bits. rewrite P2. exact P9.
           ++ intro X. destruct (P8 X) as [Y1 Y2]. split; [rewrite P5; exact Y1 | exact Y2].
           ++ exact P3.
        -- destruct NB as (P1 & P2 & P3). unfold Final, established_partial, refusal_reported. simpl.
           split; [exact P1|]. split; [discriminate|]. split.
           ++ intros e' Y. rewrite (P3 e' Y). reflexivity.
           ++ rewrite P2. reflexivity.
        -- destruct NB as (P1 & P2 & P3). unfold Final, established_partial, refusal_reported. simpl.
           split; [exact P1|]. split; [discriminate|]. split.
           ++ intros e' Y. congruence.
           ++ rewrite P2. left. reflexivity.
Qed.

End Inv.

(* ------------------------------------------------------------------ the run *)

Lemma run_final c bits clear tls outs choices :
  let r := run c bits clear tls outs choices in
  holds (c_feats c) (c_ws c) (cl_all (c_feats c)) (mon0 bits) (trace r) /\
  let q := final (c_feats c) (c_ws c) (mon0 bits) (trace r) in
  established_partial q r /\ refusal_reported q r /\ final_bits (r_class r) (r_bits r) (q_last q).
Proof.
  unfold run.
  pose proof (session_loop_ok c bits (fuel_for clear tls) (init_state bits clear tls outs choices) (mkNS true true) false) as F.
  apply F.
  - exact I.
  - unfold RelW, Est. simpl. split; [|split; [left; reflexivity|split; [|reflexivity]]].
    + intros _. constructor; simpl; auto; discriminate.
    + intros _. split; [reflexivity|]. right. intros (g & [] & _).
Qed.

(* ------------------------------------------------------------------ the clauses, one by one *)

Section Clauses.
Variables (c : config) (bits : N) (clear tls : list pitem) (outs : list outcome) (choices : list bytes).
Let r := run c bits clear tls outs choices.
Let fs := c_feats c.
Let ws := c_ws c.

Lemma all_clauses : holds fs ws (cl_all fs) (mon0 bits) (trace r).
Proof. apply (run_final c bits clear tls outs choices). Qed.

Lemma clause_advertised : holds fs ws (cl_advertised fs) (mon0 bits) (trace r).
Proof. eapply holds_impl; [|apply all_clauses]. unfold cl_all. tauto. Qed.

Lemma clause_prerequisites : holds fs ws (cl_prerequisites fs) (mon0 bits) (trace r).
Proof. eapply holds_impl; [|apply all_clauses]. unfold cl_all. tauto. Qed.

Lemma clause_voluntary_first : holds fs ws cl_voluntary_first (mon0 bits) (trace r).
Proof. eapply holds_impl; [|apply all_clauses]. unfold cl_all. tauto. Qed.

Lemma clause_monotone :
  holds fs ws cl_monotone (mon0 bits) (trace r) /\
  final_bits (r_class r) (r_bits r) (q_last (final fs ws (mon0 bits) (trace r))).
Proof.
  split; [eapply holds_impl; [|apply all_clauses]; unfold cl_all; tauto|].
  apply (run_final c bits clear tls outs choices).
Qed.

Lemma clause_restart : holds fs ws cl_restart (mon0 bits) (trace r).
Proof. eapply holds_impl; [|apply all_clauses]. unfold cl_all. tauto. Qed.

Lemma clause_advertises : holds fs ws (cl_advertises fs) (mon0 bits) (trace r).
Proof. eapply holds_impl; [|apply all_clauses]. unfold cl_all. tauto. Qed.

Lemma clause_refuses :
  holds fs ws cl_refuses (mon0 bits) (trace r) /\
  refusal_reported (final fs ws (mon0 bits) (trace r)) r.
Proof.
  split; [eapply holds_impl; [|apply all_clauses]; unfold cl_all; tauto|].
  apply (run_final c bits clear tls outs choices).
Qed.

Lemma clause_established_partial : established_partial (final fs ws (mon0 bits) (trace r)) r.
Proof. apply (run_final c bits clear tls outs choices). Qed.

End Clauses.

(* ------------------------------------------------------------------ the clauses, event by event *)

(* [holds] is "at every event, in the monitor state reached by the events before it" *)
Lemma holds_at fs ws P q tr :
  holds fs ws P q tr <-> (forall pre e post, tr = pre ++ e :: post -> P (final fs ws q pre) e).
Proof.
  revert q. induction tr as [|x r IH]; intro q; simpl.
  - split; [|auto]. intros _ pre e post E. destruct pre; discriminate.
  - rewrite IH. split.
    + intros [X Y] pre e post E. destruct pre as [|p pre]; simpl in *.
      * inversion E; subst. exact X.
      * inversion E; subst. eapply Y. reflexivity.
    + intro A. split.
      * apply (A [] x r). reflexivity.
      * intros pre e post E. apply (A (x :: pre) e post). simpl. rewrite E. reflexivity.
Qed.

Section Direct.
Variables (c : config) (bits : N) (clear tls : list pitem) (outs : list outcome) (choices : list bytes).
Let r := run c bits clear tls outs choices.
Let fs := c_feats c.
Let ws := c_ws c.
Variables (pre post : list event).
Let q := final fs ws (mon0 bits) pre.

Lemma at_neg_advertised f st o :
  trace r = pre ++ ENeg f st o :: post ->
  f_neg f = true /\ mem (f_space f) (q_negd q) = false /\
  ((In (fname f) (q_adv q) /\ exists req, In (req, f) (q_cache q)) \/ forced fs q f st).
Proof. intro E. exact (proj1 (holds_at _ _ _ _ _) (clause_advertised c bits clear tls outs choices) _ _ _ E). Qed.

Lemma at_neg_prerequisites f st o :
  trace r = pre ++ ENeg f st o :: post -> eligible f st = true.
Proof. intro E. exact (proj1 (holds_at _ _ _ _ _) (clause_prerequisites c bits clear tls outs choices) _ _ _ E). Qed.

Lemma at_neg_voluntary_first f st o :
  trace r = pre ++ ENeg f st o :: post ->
  q_recv q = false -> In (true, f) (q_cache q) ->
  forall g, In (false, g) (q_cache q) -> cand (q_negd q) st (false, g) = false.
Proof. intro E. exact (proj1 (holds_at _ _ _ _ _) (clause_voluntary_first c bits clear tls outs choices) _ _ _ E). Qed.

Lemma at_event_monotone e : trace r = pre ++ e :: post -> cl_monotone q e.
Proof. intro E. exact (proj1 (holds_at _ _ _ _ _) (proj1 (clause_monotone c bits clear tls outs choices)) _ _ _ E). Qed.

Lemma at_event_restart e : trace r = pre ++ e :: post -> cl_restart q e.
Proof. intro E. exact (proj1 (holds_at _ _ _ _ _) (clause_restart c bits clear tls outs choices) _ _ _ E). Qed.

Lemma at_features_written st names :
  trace r = pre ++ EOut (WFeatures st names true) :: post -> names = map fname (listed fs st).
Proof. intro E. exact (proj1 (holds_at _ _ _ _ _) (clause_advertises c bits clear tls outs choices) _ _ _ E). Qed.

Lemma at_event_refuses e : trace r = pre ++ e :: post -> cl_refuses q e.
Proof. intro E. exact (proj1 (holds_at _ _ _ _ _) (proj1 (clause_refuses c bits clear tls outs choices)) _ _ _ E). Qed.

End Direct.

(* ------------------------------------------------------------------ a refused selection is the end *)

Section Refusal.
Variables (c : config) (bits : N) (clear tls : list pitem) (outs : list outcome) (choices : list bytes).
Let r := run c bits clear tls outs choices.
Let fs := c_feats c.
Let ws := c_ws c.

Lemma refused_selection_ends pre post st it sp :
  trace r = pre ++ EIn RPSelect st it :: post ->
  let q := final fs ws (mon0 bits) pre in
  selection_space c it = Some sp -> accept (q_cache q) (q_negd q) st sp = None ->
  post = [] /\ r_class r = RErr EPolicy.
Proof.
  intros E q Hs Ha.
  assert (Hq : q_refused (upd fs ws q (EIn RPSelect st it)) = Some EPolicy).
  { simpl. unfold fs, ws. rewrite selection_space_ws, Hs. fold fs. fold q. rewrite Ha. reflexivity. }
  assert (Hp : post = []).
  { destruct post as [|e' post']; [reflexivity|]. exfalso.
    assert (E' : trace r = (pre ++ [EIn RPSelect st it]) ++ e' :: post') by (rewrite <- app_assoc; exact E).
    pose proof (at_event_refuses c bits clear tls outs choices _ _ _ E') as [X _].
    fold fs ws in X. rewrite final_app in X. simpl in X. fold q in X.
    change (q_refused (upd fs ws q (EIn RPSelect st it)) = None) in X. congruence. }
  split; [exact Hp|]. subst post.
  destruct (clause_refuses c bits clear tls outs choices) as [_ RR]. fold r fs ws in RR.
  apply RR. rewrite E, final_app. simpl. exact Hq.
Qed.

(* a selection that cannot be one at all (character data, an <iq/> without payload,
   bytes that are not XML) ends the run as well, with another error *)
Lemma unusable_selection_ends pre post st it :
  trace r = pre ++ EIn RPSelect st it :: post ->
  selection_space c it = None -> post = [] /\ r_class r = RErr EOther.
Proof.
  intros E Hs. set (q := final fs ws (mon0 bits) pre).
  assert (Hq : q_refused (upd fs ws q (EIn RPSelect st it)) = Some EOther).
  { simpl. unfold fs, ws. rewrite selection_space_ws, Hs. reflexivity. }
  assert (Hp : post = []).
  { destruct post as [|e' post']; [reflexivity|]. exfalso.
    assert (E' : trace r = (pre ++ [EIn RPSelect st it]) ++ e' :: post') by (rewrite <- app_assoc; exact E).
    pose proof (at_event_refuses c bits clear tls outs choices _ _ _ E') as [X _].
    fold fs ws in X. rewrite final_app in X. simpl in X. fold q in X.
    change (q_refused (upd fs ws q (EIn RPSelect st it)) = None) in X. congruence. }
  split; [exact Hp|]. subst post.
  destruct (clause_refuses c bits clear tls outs choices) as [_ RR]. fold r fs ws in RR.
  apply RR. rewrite E, final_app. simpl. exact Hq.
Qed.

(* on the receiving side a feature runs only as the one legitimately selected just before *)
Lemma receiver_runs_selected pre post f st o :
  trace r = pre ++ ENeg f st o :: post ->
  let q := final fs ws (mon0 bits) pre in
  q_recv q = true -> q_expect q = Some f.
Proof.
  intros E q Hr. pose proof (at_event_refuses c bits clear tls outs choices _ _ _ E) as [_ X].
  simpl in X. apply X. exact Hr.
Qed.

End Refusal.

(* ------------------------------------------------------------------ state bits only grow *)

Lemma upd_last fs ws q e :
  q_last (upd fs ws q e) = match e with ENeg _ st o => after_neg st o | _ => q_last q end.
Proof.
  destruct e as [rp st it| rp | w | f | f | f st o | n | b]; simpl; try reflexivity.
  - destruct rp; try reflexivity.
    + destruct it as [[] []]; reflexivity.
    + destruct (selection_space _ it); [|reflexivity]. destruct (accept _ _ _ _) as [[? ?]|]; reflexivity.
  - destruct w as [|st names []|]; reflexivity.
Qed.

Lemma last_is_acc fs ws : forall tr q, q_last (final fs ws q tr) = acc_bits (q_last q) tr.
Proof.
  induction tr as [|e tr IH]; intro q; simpl; [reflexivity|].
  rewrite IH, upd_last. destruct e; reflexivity.
Qed.

Lemma last_grows fs ws : forall tr q,
  holds fs ws cl_monotone q tr -> has (q_last (final fs ws q tr)) (q_last q) = true.
Proof.
  induction tr as [|e tr IH]; intros q Hh; simpl in *.
  - apply has_refl.
  - destruct Hh as [He Hr]. apply IH in Hr. eapply has_trans; [exact Hr|]. clear Hr IH.
    rewrite upd_last. destruct e; try apply has_refl.
    simpl in He. subst st. unfold after_neg. destruct (o_err o); [apply has_refl | apply has_lor_l; apply has_refl].
Qed.

Section Monotone.
Variables (c : config) (bits : N) (clear tls : list pitem) (outs : list outcome) (choices : list bytes).
Let r := run c bits clear tls outs choices.
Let fs := c_feats c.
Let ws := c_ws c.

(* the state a Negotiate call sees is exactly what the calls before it determine *)
Lemma neg_sees_accounted pre post f st o :
  trace r = pre ++ ENeg f st o :: post -> st = acc_bits bits pre.
Proof.
  intro E. pose proof (at_event_monotone c bits clear tls outs choices _ _ _ E) as X. simpl in X.
  rewrite X. apply (last_is_acc (c_feats c) (c_ws c) pre (mon0 bits)).
Qed.

Lemma neg_sees_initial_bits pre post f st o :
  trace r = pre ++ ENeg f st o :: post -> has st bits = true.
Proof.
  intro E. rewrite (neg_sees_accounted _ _ _ _ _ E).
  pose proof (proj1 (clause_monotone c bits clear tls outs choices)) as Hm. fold r fs ws in Hm.
  rewrite E in Hm. apply holds_app in Hm. destruct Hm as [Hm _]. apply last_grows in Hm.
  rewrite last_is_acc in Hm. exact Hm.
Qed.

Lemma neg_sees_earlier_neg pre f1 st1 o1 mid f2 st2 o2 post :
  trace r = pre ++ ENeg f1 st1 o1 :: mid ++ ENeg f2 st2 o2 :: post ->
  has st2 (after_neg st1 o1) = true.
Proof.
  intro E.
  assert (E' : trace r = (pre ++ ENeg f1 st1 o1 :: mid) ++ ENeg f2 st2 o2 :: post)
    by (rewrite <- app_assoc; exact E).
  pose proof (at_event_monotone c bits clear tls outs choices _ _ _ E') as X. simpl in X.
  pose proof (proj1 (clause_monotone c bits clear tls outs choices)) as Hm. fold r fs ws in Hm.
  rewrite E in Hm. apply holds_app in Hm. destruct Hm as [_ Hm]. simpl in Hm. destruct Hm as [_ Hm].
  apply holds_app in Hm. destruct Hm as [Hm _]. apply last_grows in Hm.
  fold fs ws in X. rewrite final_app in X. simpl in X.
  rewrite X. eapply has_trans; [exact Hm|]. simpl. unfold after_neg. apply has_refl.
Qed.

(* the final state is exactly what the Negotiate calls determine: plus possibly
   Ready when the run did not end in an error, without Ready when it did *)
Lemma final_bits_accounted : final_bits (r_class r) (r_bits r) (acc_bits bits (trace r)).
Proof.
  pose proof (proj2 (clause_monotone c bits clear tls outs choices)) as X. fold r fs ws in X.
  rewrite last_is_acc in X. exact X.
Qed.

(* a run that ends in an error never reports Ready *)
Lemma error_never_ready e : r_class r = RErr e -> has (r_bits r) st_Ready = false.
Proof.
  intro Ec. pose proof final_bits_accounted as X. rewrite Ec in X. simpl in X. rewrite X. apply has_clear_ready.
Qed.

Lemma final_bits_contain_neg pre post f st o :
  (forall e, r_class r <> RErr e) ->
  trace r = pre ++ ENeg f st o :: post -> has (r_bits r) (after_neg st o) = true.
Proof.
  intros Hne E. destruct (clause_monotone c bits clear tls outs choices) as [Hm Hf]. fold r fs ws in Hm, Hf.
  assert (Hf' : has (r_bits r) (q_last (final fs ws (mon0 bits) (trace r))) = true).
  { apply exact_bits_has. unfold final_bits in Hf. destruct (r_class r); try exact Hf. exfalso. eapply Hne; reflexivity. }
  clear Hf. rewrite E in Hm, Hf'. rewrite final_app in Hf'. simpl in Hf'.
  apply holds_app in Hm. destruct Hm as [_ Hm]. simpl in Hm. destruct Hm as [_ Hm].
  apply last_grows in Hm. eapply has_trans; [exact Hf'|]. eapply has_trans; [exact Hm|].
  simpl. unfold after_neg. apply has_refl.
Qed.

Lemma final_bits_contain_initial :
  (forall e, r_class r <> RErr e) -> has (r_bits r) bits = true.
Proof.
  intro Hne. destruct (clause_monotone c bits clear tls outs choices) as [Hm Hf]. fold r fs ws in Hm, Hf.
  assert (Hf' : has (r_bits r) (q_last (final fs ws (mon0 bits) (trace r))) = true).
  { apply exact_bits_has. unfold final_bits in Hf. destruct (r_class r); try exact Hf. exfalso. eapply Hne; reflexivity. }
  apply last_grows in Hm. simpl in Hm. eapply has_trans; eauto.
Qed.

(* ... so no bit of the initial state (Ready apart, after an error) is ever lost,
   however many restarts there were and whatever kind of connection the
   restarting features returned *)
Lemma clear_ready_back a : has (N.lor (clear_ready a) st_Ready) a = true.
Proof.
  apply has_true. apply N.bits_inj. intro i. unfold clear_ready.
  rewrite N.land_spec, N.lor_spec, N.ldiff_spec.
  destruct (N.testbit a i), (N.testbit st_Ready i); reflexivity.
Qed.

Lemma final_keeps_initial : has (N.lor (r_bits r) st_Ready) bits = true.
Proof.
  pose proof final_bits_accounted as X.
  assert (G : has (acc_bits bits (trace r)) bits = true).
  { pose proof (proj1 (clause_monotone c bits clear tls outs choices)) as Hm. fold r fs ws in Hm.
    apply last_grows in Hm. rewrite last_is_acc in Hm. exact Hm. }
  unfold final_bits in X. destruct (r_class r).
  - eapply has_trans; [|exact G]. destruct X as [-> | ->]; [apply has_lor_l; apply has_refl|].
    apply has_lor_l. apply has_lor_l. apply has_refl.
  - rewrite X. eapply has_trans; [apply clear_ready_back | exact G].
  - eapply has_trans; [|exact G]. destruct X as [-> | ->]; [apply has_lor_l; apply has_refl|].
    apply has_lor_l. apply has_lor_l. apply has_refl.
  - eapply has_trans; [|exact G]. destruct X as [-> | ->]; [apply has_lor_l; apply has_refl|].
    apply has_lor_l. apply has_lor_l. apply has_refl.
Qed.

End Monotone.


(* ------------------------------------------------------------------ established, in terms of the trace *)

Lemma upd_self_ready fs ws q e :
  q_self_ready (upd fs ws q e) =
  match e with ENeg _ _ o => q_self_ready q || (has (o_mask o) st_Ready && negb (o_err o)) | _ => q_self_ready q end.
Proof.
  destruct e as [rp st it| rp | w | f | f | f st o | n | b]; simpl; try reflexivity.
  - destruct rp; try reflexivity.
    + destruct it as [[] []]; reflexivity.
    + destruct (selection_space _ it); [|reflexivity]. destruct (accept _ _ _ _) as [[? ?]|]; reflexivity.
  - destruct w as [|st names []|]; reflexivity.
Qed.

Lemma final_self_ready fs ws : forall tr q,
  q_self_ready (final fs ws q tr) = q_self_ready q || self_ready tr.
Proof.
  induction tr as [|e tr IH]; intro q; simpl; [rewrite orb_false_r; reflexivity|].
  rewrite IH, upd_self_ready. destruct e; try reflexivity. rewrite orb_assoc. reflexivity.
Qed.

Lemma established_when_no_self_ready c bits clear tls outs choices :
  let r := run c bits clear tls outs choices in
  let q := final (c_feats c) (c_ws c) (mon0 bits) (trace r) in
  r_class r = ROk ->
  has (r_bits r) st_Ready = true /\ q_need_header q = false /\
  (self_ready (trace r) = false -> ~ pending q).
Proof.
  intros r q Hok. destruct (clause_established_partial c bits clear tls outs choices Hok) as (A & _ & B & C).
  split; [exact A|]. split; [exact B|]. intro Hs. apply C. rewrite final_self_ready. simpl. exact Hs.
Qed.
