(* C01/Proofs.v — the invariant of the negotiation model from which the clauses
   of C01 follow.  Method: the monitor state after the events emitted so far,
   [Q m], is related to the machine state [m] ([RI], [Rel]); every function of
   the model preserves "all clauses held at every event so far" ([H]) and
   re-establishes the relation. *)
From Coq Require Import ZifyBool ZifyNat ZifyN.
From XV Require Import lib.Bytes gen.NegTables Neg.Model Neg.Proofs C01.Model.

(* ------------------------------------------------------------------ holds / final *)

Lemma final_app fs ws q a b : final fs ws q (a ++ b) = final fs ws (final fs ws q a) b.
Proof. revert q. induction a as [|e a IH]; intro q; simpl; [reflexivity | apply IH]. Qed.

Lemma holds_app fs ws P q a b :
  holds fs ws P q (a ++ b) <-> holds fs ws P q a /\ holds fs ws P (final fs ws q a) b.
Proof.
  revert q. induction a as [|e a IH]; intro q; simpl; [tauto|].
  rewrite IH. tauto.
Qed.

Lemma holds_impl fs ws (P P' : mon -> event -> Prop) q tr :
  (forall q e, P q e -> P' q e) -> holds fs ws P q tr -> holds fs ws P' q tr.
Proof.
  intro HPP. revert q. induction tr as [|e r IH]; intro q; simpl; [tauto|].
  intros [X Y]. split; [apply HPP; exact X | apply IH; exact Y].
Qed.

Lemma selection_space_ws c it :
  selection_space (mkCfg (c_feats c) false (c_ws c) false [] None) it = selection_space c it.
Proof. reflexivity. Qed.

Section Inv.

Variable c : config.
Variable b0 : N.
Notation fs := (c_feats c).
Notation ws := (c_ws c).

Definition T (m : mstate) : list event := rev (m_tr m).
Definition Q (m : mstate) : mon := final fs ws (mon0 b0) (T m).
Definition H (m : mstate) : Prop := holds fs ws (cl_all fs) (mon0 b0) (T m).

Lemma Q_emit e m : Q (emit e m) = upd fs ws (Q m) e.
Proof. unfold Q, T. rewrite m_tr_emit. simpl rev. rewrite final_app. reflexivity. Qed.

Lemma H_emit e m : H (emit e m) <-> H m /\ cl_all fs (Q m) e.
Proof.
  unfold H, Q, T. rewrite m_tr_emit. simpl rev. rewrite holds_app. simpl. tauto.
Qed.

(* the setters do not touch the trace *)
Lemma Q_set_bits b m : Q (set_bits b m) = Q m. Proof. reflexivity. Qed.
Lemma Q_set_negd l m : Q (set_negd l m) = Q m. Proof. reflexivity. Qed.
Lemma Q_set_list ca t r m : Q (set_list ca t r m) = Q m. Proof. reflexivity. Qed.
Lemma Q_set_in i m : Q (set_in i m) = Q m. Proof. reflexivity. Qed.
Lemma Q_set_outs o m : Q (set_outs o m) = Q m. Proof. reflexivity. Qed.
Lemma Q_set_choices o m : Q (set_choices o m) = Q m. Proof. reflexivity. Qed.
Lemma Q_set_hs o m : Q (set_hs o m) = Q m. Proof. reflexivity. Qed.
Lemma Q_switch m : Q (switch_layer m) = Q m. Proof. reflexivity. Qed.
Lemma H_set_bits b m : H (set_bits b m) <-> H m. Proof. reflexivity. Qed.
Lemma H_set_negd l m : H (set_negd l m) <-> H m. Proof. reflexivity. Qed.
Lemma H_set_list ca t r m : H (set_list ca t r m) <-> H m. Proof. reflexivity. Qed.
Lemma H_set_in i m : H (set_in i m) <-> H m. Proof. reflexivity. Qed.
Lemma H_set_outs o m : H (set_outs o m) <-> H m. Proof. reflexivity. Qed.
Lemma H_set_choices o m : H (set_choices o m) <-> H m. Proof. reflexivity. Qed.
Lemma H_set_hs o m : H (set_hs o m) <-> H m. Proof. reflexivity. Qed.
Lemma H_switch m : H (switch_layer m) <-> H m. Proof. reflexivity. Qed.

(* ------------------------------------------------------------------ relation inside negotiateFeatures *)

Record RI (x : option feature) (m : mstate) : Prop := mkRI {
  ri_bits : q_last (Q m) = m_bits m;
  ri_negd : q_negd (Q m) = m_negd m;
  ri_cache : q_cache (Q m) = m_cache m;
  ri_hdr : q_need_header (Q m) = false;
  ri_exp : q_expect (Q m) = x;
  ri_ref : q_refused (Q m) = None;
  ri_rdy : has (m_bits m) st_Ready = true -> q_self_ready (Q m) = true;
  ri_lreq : forall g, In (true, g) (m_cache m) -> m_lreq m = true;
  ri_adv : forall r g, In (r, g) (m_cache m) -> In (fname g) (q_adv (Q m));
  ri_uk : ukeys (m_cache m) }.

(* events a running feature produces itself: they change nothing in the monitor *)
Definition quiet (q : mon) (e : event) : Prop :=
  match e with
  | EOut (WElem _ _) | ESwitch _ | EEof RPReply => True
  | EIn RPReply st _ => has st (q_last q) = true
  | _ => False
  end.

Lemma quiet_ok q e :
  quiet q e -> q_need_header q = false -> q_refused q = None ->
  cl_all fs q e /\ upd fs ws q e = q.
Proof.
  intros Hq Hh Hr. unfold cl_all, cl_restart, cl_refuses. rewrite Hh.
  destruct e as [rp st it| rp | w | f | f | f st o | n | b]; simpl in Hq; try contradiction.
  - destruct rp; try contradiction. simpl. repeat split; auto; discriminate.
  - destruct rp; try contradiction. simpl. repeat split; auto; discriminate.
  - destruct w; try contradiction. simpl. repeat split; auto; discriminate.
  - simpl. repeat split; auto; discriminate.
Qed.

Lemma emit_quiet e m :
  H m -> quiet (Q m) e -> q_need_header (Q m) = false -> q_refused (Q m) = None ->
  H (emit e m) /\ Q (emit e m) = Q m.
Proof.
  intros HH Hq Hh Hr. destruct (quiet_ok _ _ Hq Hh Hr) as [A B].
  rewrite H_emit, Q_emit. auto.
Qed.

(* callbacks outside Negotiate *)
Lemma emit_callback e m :
  (exists f, e = EParse f \/ e = EList f) ->
  H m -> q_need_header (Q m) = false -> q_refused (Q m) = None -> q_expect (Q m) = None ->
  H (emit e m) /\ Q (emit e m) = Q m.
Proof.
  intros [f [->| ->]] HH Hh Hr He; rewrite H_emit, Q_emit; (split; [split; [exact HH|]|reflexivity]);
    unfold cl_all, cl_restart, cl_refuses; rewrite Hh; simpl; repeat split; auto; discriminate.
Qed.

(* what the functions below leave alone *)
Definition frame (m m' : mstate) : Prop :=
  m_bits m' = m_bits m /\ m_negd m' = m_negd m /\ m_cache m' = m_cache m /\ m_lreq m' = m_lreq m /\ m_total m' = m_total m.

Lemma frame_refl m : frame m m.
Proof. unfold frame. tauto. Qed.

Lemma RI_frame x m m' : frame m m' -> Q m' = Q m -> RI x m -> RI x m'.
Proof.
  intros (Fb & Fn & Fc & Fl & Ft) HQ R. destruct R.
  constructor; rewrite ?HQ, ?Fb, ?Fn, ?Fc, ?Fl; auto.
Qed.

(* reading the reply inside STARTTLS's Negotiate *)
Lemma read_reply_ok x m m' r :
  read RPReply m = (m', r) -> H m -> RI x m -> H m' /\ Q m' = Q m /\ frame m m'.
Proof.
  unfold read. intros E HH R. destruct (m_in m) as [|it rest]; inversion E; subst; clear E.
  - destruct (emit_quiet (EEof RPReply) m HH I (ri_hdr _ _ R) (ri_ref _ _ R)) as [A B].
    repeat split; auto.
  - assert (Hq : quiet (Q (set_in rest m)) (EIn RPReply (m_bits m) it)).
    { simpl. rewrite Q_set_in, (ri_bits _ _ R). apply has_refl. }
    destruct (emit_quiet _ (set_in rest m) HH Hq (ri_hdr _ _ R) (ri_ref _ _ R)) as [A B].
    repeat split; auto.
Qed.

Lemma starttls_negotiate_ok x m m1 o :
  starttls_negotiate c m = (m1, o) -> H m -> RI x m ->
  H m1 /\ Q m1 = Q m /\ frame m m1 /\ (o_err o = false -> o_restart o = true).
Proof.
  unfold starttls_negotiate. intros E HH R.
  destruct (server m).
  - inversion E; subst; clear E.
    destruct (emit_quiet (EOut (WElem ns_StartTLS str_proceed)) m HH I (ri_hdr _ _ R) (ri_ref _ _ R)) as [A B].
    set (m2 := emit (EOut (WElem ns_StartTLS str_proceed)) m) in *.
    assert (A' : H (switch_layer m2)) by exact A.
    assert (Hh : q_need_header (Q (switch_layer m2)) = false) by (rewrite Q_switch, B; apply (ri_hdr _ _ R)).
    assert (Hr : q_refused (Q (switch_layer m2)) = None) by (rewrite Q_switch, B; apply (ri_ref _ _ R)).
    destruct (emit_quiet (ESwitch (tls_name c)) (switch_layer m2) A' I Hh Hr) as [A2 B2].
    split; [exact A2|]. split; [rewrite B2, Q_switch; exact B|]. split; [unfold frame; simpl; tauto | reflexivity].
  - destruct (emit_quiet (EOut (WElem ns_StartTLS str_starttls)) m HH I (ri_hdr _ _ R) (ri_ref _ _ R)) as [A B].
    set (m0 := emit (EOut (WElem ns_StartTLS str_starttls)) m) in *.
    assert (R0 : RI x m0) by (apply (RI_frame x m m0); [unfold frame; simpl; tauto | exact B | exact R]).
    destruct (read RPReply m0) as [m2 r] eqn:Er.
    destruct (read_reply_ok x m0 m2 r Er A R0) as (A2 & B2 & F2).
    assert (R2 : RI x m2) by (apply (RI_frame x m0 m2); auto).
    assert (F02 : frame m m2).
    { unfold frame in *. simpl in F2. tauto. }
    destruct (is_proceed r).
    + inversion E; subst; clear E.
      assert (A' : H (switch_layer m2)) by exact A2.
      assert (Hh : q_need_header (Q (switch_layer m2)) = false) by (rewrite Q_switch; apply (ri_hdr _ _ R2)).
      assert (Hr : q_refused (Q (switch_layer m2)) = None) by (rewrite Q_switch; apply (ri_ref _ _ R2)).
      destruct (emit_quiet (ESwitch (tls_name c)) (switch_layer m2) A' I Hh Hr) as [A3 B3].
      split; [exact A3|]. split; [rewrite B3, Q_switch, B2; exact B|].
      split; [unfold frame in *; simpl; tauto | reflexivity].
    + inversion E; subst; clear E. split; [exact A2|]. split; [rewrite B2; exact B|].
      split; [exact F02 | simpl; discriminate].
Qed.

(* all clauses hold for a Negotiate call of f in the current state *)
Definition neg_ok (m : mstate) (f : feature) : Prop :=
  forall o, cl_all fs (Q m) (ENeg f (m_bits m) o).

Lemma negotiate_one_ok x m f m1 o :
  negotiate_one c m f = (m1, o) -> H m -> RI x m -> neg_ok m f ->
  H m1 /\ Q m1 = upd fs ws (Q m) (ENeg f (m_bits m) o) /\ frame m m1.
Proof.
  unfold negotiate_one. intros E HH R NK.
  destruct (f_kind f).
  - inversion E; subst; clear E. rewrite H_emit, Q_emit. rewrite Q_set_outs.
    split; [split; [exact HH | apply NK]|]. split; [reflexivity | unfold frame; simpl; tauto].
  - destruct (starttls_negotiate c m) as [m2 o2] eqn:Es.
    destruct (starttls_negotiate_ok x m m2 o2 Es HH R) as (A & B & F & _).
    inversion E; subst; clear E. rewrite H_emit, Q_emit, B.
    split; [split; [exact A | apply NK]|]. split; [reflexivity | unfold frame in *; simpl; tauto].
Qed.

End Inv.
