(* C01/Examples.v — non-vacuity: concrete, non-trivial runs of the model in
   which the hypotheses of the theorems of Properties.v are met, and the
   witnesses of the refuted clause.  Everything is computed by vm_compute. *)
From XV Require Import lib.Bytes gen.NegTables Neg.Model Neg.Proofs C01.Model C01.Proofs C01.Refuted.

(* a complete client negotiation with the built-in masks: three Negotiate
   events, in the order STARTTLS, SASL, bind, seeing states 0, Secure, Secure|Authn *)
Example ex_trio_client :
  r_class trio_client = ROk /\ r_bits trio_client = 7%N /\
  negs (trace trio_client) = [(fname f_tls, 0%N); (fname f_sasl, 1%N); (fname f_bind, 3%N)].
Proof. vm_compute. repeat split; reflexivity. Qed.

(* the same on the receiving side: three lists written, three selections run *)
Example ex_trio_server :
  r_class trio_server = ROk /\ r_bits trio_server = 15%N /\
  negs (trace trio_server) = [(fname f_tls, 8%N); (fname f_sasl, 9%N); (fname f_bind, 11%N)].
Proof. vm_compute. repeat split; reflexivity. Qed.

(* what the receiver advertises in each state: STARTTLS; then SASL; then bind *)
Example ex_listed :
  map fname (listed (c_feats cfg_trio) 8) = [fname f_tls] /\
  map fname (listed (c_feats cfg_trio) 9) = [fname f_sasl] /\
  map fname (listed (c_feats cfg_trio) 11) = [fname f_bind] /\
  map fname (listed (c_feats cfg_trio) 15) = [].
Proof. vm_compute. repeat split; reflexivity. Qed.

(* a refused selection (SASL before STARTTLS): policy-violation, nothing ran *)
Example ex_refused :
  r_class trio_server_early = RErr EPolicy /\ negs (trace trio_server_early) = [] /\
  q_refused (mon_of cfg_trio st_Received trio_server_early) = Some EPolicy.
Proof. vm_compute. repeat split; reflexivity. Qed.

(* the forced STARTTLS attempt: the first list is empty, STARTTLS runs (forced
   holds: first list, not secure), the stream restarts, the second empty list
   ends the negotiation *)
Example ex_forced :
  r_class trio_forced = ROk /\ r_bits trio_forced = 5%N /\
  negs (trace trio_forced) = [(fname f_tls, 0%N)] /\
  forced (c_feats cfg_trio)
         (final (c_feats cfg_trio) false (mon0 0) [EOut WHeader; EIn RPHeader 0 hdr; EIn RPFeatures 0 (mkItem false (PFeatures []))])
         f_tls 0.
Proof. vm_compute. repeat split; reflexivity. Qed.

(* map iteration: either order of the two voluntary features is legal; taking
   the required one before a voluntary one is not something the code can do *)
Example ex_voluntary_first :
  r_class (vvr [xa; xb; xc]) = ROk /\ r_class (vvr [xb; xa; xc]) = ROk /\
  r_class (vvr [xc; xa; xb]) = RStuck /\ r_class (vvr [xa; xc; xb]) = RStuck /\
  negs (trace (vvr [xb; xa; xc])) = [(fname fv2, 0%N); (fname fv1, 0%N); (fname fr3, 0%N)].
Proof. vm_compute. repeat split; reflexivity. Qed.

(* the witnesses of C01_established_sound_refuted *)
Example ex_w1 : r_class w1_run = ROk /\ r_bits w1_run = st_Ready /\ q_self_ready (mon_of cfg_ab 0 w1_run) = true.
Proof. vm_compute. repeat split; reflexivity. Qed.
(* the former witness W2 (Ready together with a new connection): the Ready bit
   is ignored, the stream restarts (header sent), and since the script ends there
   the run ends in an error — without Ready *)
Example ex_w2 :
  r_class w2_run = RErr EOther /\ r_bits w2_run = 0%N /\ negs (trace w2_run) = [((xa, str "a"), 0%N)] /\
  map raw (skipn 5 (trace w2_run)) = [ROut RWHeader; REof].
Proof. vm_compute. repeat split; reflexivity. Qed.

(* an error after a feature reported Ready: a voluntary feature returns Ready
   without a restart, the receiver reads the next selection and the input ends;
   the session that is returned does not have the Ready bit *)
Example ex_error_not_ready :
  let r := run (mkCfg [fv1; fv2] false false true (str "example.net") None false) st_Received
               [hdr; sel fv1] [] [mkO st_Ready false false RWWrap] [] in
  r_class r = RErr EOther /\ r_bits r = st_Received /\ self_ready (trace r) = true.
Proof. vm_compute. repeat split; reflexivity. Qed.

(* the hypothesis of the partial theorem (no feature reported Ready itself) is
   met by the forced-STARTTLS run, which is established with nothing pending *)
Example ex_partial_hyp :
  q_self_ready (mon_of cfg_trio 0 trio_forced) = false /\ q_need_header (mon_of cfg_trio 0 trio_forced) = false.
Proof. vm_compute. split; reflexivity. Qed.

(* tee: on main the forced attempt is lost after the tee-wrapping call
   (c_teefirst = false); with C02's repair it is made *)
Definition cfg_tee (teefirst : bool) : config := mkCfg [f_tls; f_sasl; f_bind] true false true (str "example.net") None teefirst.
Example ex_tee_first :
  negs (trace (run (cfg_tee false) 0 [hdr; mkItem false (PFeatures [])] [] [mkO st_Secure true false RWWrap] [ft_starttls_space])) = [] /\
  length (negs (trace (run (cfg_tee true) 0 [hdr; mkItem false (PFeatures []); hdr; mkItem false (PFeatures [])] []
                           [mkO st_Secure true false RWWrap] [ft_starttls_space]))) = 1.
Proof. vm_compute. split; reflexivity. Qed.

(* XEP-0288 bidi as shipped in s2s/bidi.go: advertised under one name space,
   selected by an element in another one; the receiving side looks selections up
   by name space, so it refuses the selection the initiating side of the same
   library sends (reported in design/C01.md; not a violation of C01: what was
   selected is, literally, not what was advertised) *)
Definition f_bidi : feature := mkF ft_bidi_space ft_bidi_local ft_bidi_nec ft_bidi_proh ft_bidi_negotiable KAbstract false false.
Example ex_bidi_refused :
  let r := run (mkCfg [f_bidi] false false true (str "example.net") None false) (N.lor st_Received st_Secure)
               [hdr; mkItem false (PElem ns_bidi_select ft_bidi_local)] [] [] [] in
  r_class r = RErr EPolicy /\ negs (trace r) = [] /\
  map raw (trace r) = [RIn hdr; ROut RWHeader; RList (fname f_bidi); ROut (RWFeatures [fname f_bidi] true);
                       RIn (mkItem false (PElem ns_bidi_select ft_bidi_local))].
Proof. vm_compute. repeat split; reflexivity. Qed.

(* the former witness W3: b is advertised as required before its prerequisite
   holds; after the voluntary a set Authn, b is negotiated from the same list *)
Example ex_w3 :
  r_class w3_run = ROk /\ r_bits w3_run = 6%N /\ negs (trace w3_run) = [((xa, str "a"), 0%N); ((xb, str "b"), 2%N)].
Proof. vm_compute. repeat split; reflexivity. Qed.

(* the witness of C01_established_literal_refuted: two configured features in
   one name space, the later child replaces the required one in the cache *)
Example ex_w5 :
  r_class w5_run = ROk /\ r_bits w5_run = 4%N /\ negs (trace w5_run) = [] /\
  q_advall (mon_of cfg_w5 0 w5_run) = [(true, fa_req); (false, fa2_info)] /\ q_cache (mon_of cfg_w5 0 w5_run) = [(false, fa2_info)].
Proof. vm_compute. repeat split; reflexivity. Qed.

(* the witness of C01_voluntary_first_literal_refuted *)
Example ex_w6 : negs (trace w6_run) = [((xc, str "c"), 0%N)].
Proof. vm_compute. reflexivity. Qed.

(* a caller-asserted Secure initial state over a plain connection, two restarts
   (the second feature returns the session's own connection, like sasl.go), then
   a feature that needs Secure|Authn: Secure is still there *)
Definition f_auth : feature := mkF xa (str "a") st_Secure st_Authn true KAbstract true false.
Definition f_need : feature := mkF xb (str "b") (N.lor st_Secure st_Authn) st_Ready true KAbstract true false.
Example ex_secure_survives_restart :
  let r := run (mkCfg [f_auth; f_need] false false true (str "example.net") None true) st_Secure
               [hdr; mkItem false (PFeatures [adv f_auth true]); hdr; mkItem false (PFeatures [adv f_need true])] []
               [mkO st_Authn true false RWSame; mkO st_Ready false false RWWrap] [xa; xb] in
  r_class r = ROk /\ r_bits r = 7%N /\ negs (trace r) = [(fname f_auth, 1%N); (fname f_need, 3%N)].
Proof. vm_compute. repeat split; reflexivity. Qed.
