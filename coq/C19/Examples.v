(* C19/Examples.v — non-vacuity: concrete, non-trivial instances of every
   hypothesis used by the theorems of C19/Properties.v, and a few payloads of
   the XEPs run through the models. *)
From Coq Require Import ZArith Lia.
From XV Require Import lib.Bytes lib.Xml lib.Schema C19.Form C19.Types C19.Model C19.Spec C19.ProofsLib
  C19.ProofsA C19.ProofsB C19.ProofsC C19.ProofsD C19.ProofsE C19.ProofsF C19.ProofsForm1 C19.ProofsForm2 C19.ProofsForm3.

(* an oracle given by tables, as the case files give it *)
Definition t1 : tm := mktm 1000 500000000 3600.
Definition t1_utc := str "1970-01-01T00:16:40.5Z".
Definition t1_zone := str "1970-01-01T01:16:40.5+01:00".
Definition j1 := str "juliet@example.net/balcony".
Definition k1 := str "abc".
Definition u1 := str "https://example.net/up/1?x=%20".

Definition ex_or : oracles :=
  mk_or [(j1, Some j1); (str "not a jid@", None)]
        [(L_utc_nano, t1, t1_utc); (L_tzo, t1, str "+01:00"); (L_zone_nano, t1, t1_zone)]
        [(P_rfc3339, t1_utc, Some (utc t1)); (P_tzo, str "+01:00", Some (mktm 0 0 3600)); (P_text, t1_zone, Some t1); (P_text, t1_utc, Some (utc t1))]
        [(b64enc k1, Some k1)] [(u1, Some u1)] [(1500000000%Z, str "2")].

(* a total oracle: the premise of the totality theorems *)
Definition total_or : oracles :=
  mkor (fun s => if is_nil s then Err else Ok s) (fun _ _ => str "x") (fun _ _ => Err) (fun s => Ok s) (fun s => Ok s) (fun _ => str "0").

Example total_or_safe : or_safe total_or.
Proof. constructor; intros; cbn; try exact I. destruct (is_nil s); exact I. Qed.

Example ex_jid_canon : jid_canon ex_or j1 /\ jid_canon ex_or [].
Proof. split; [right; reflexivity|left; reflexivity]. Qed.

Example ex_time : time_utc_roundtrip ex_or t1 /\ tzo_roundtrip ex_or t1 /\ time_text_roundtrip ex_or t1.
Proof. split; [reflexivity|]. split; [|reflexivity]. exists (mktm 0 0 3600). split; reflexivity. Qed.

Example ex_b64 : b64_roundtrip ex_or k1 /\ b64enc k1 = str "YWJj".
Proof. split; [right; reflexivity|reflexivity]. Qed.

(* delay.Delay, stanza.Delay, forward.Forwarded *)
Definition ex_delay := mkdelay j1 t1 (str "Offline <storage> & more").
Example ex_delay_dom : delay_dom ex_or ex_delay.
Proof. split; [reflexivity|right; reflexivity]. Qed.
Example ex_delay_run :
  c_enc delay_c ex_or ex_delay =
    Ok [Elem delay_name [at_ (str "stamp") t1_utc; at_ (str "from") j1] [Text (str "Offline <storage> & more")]] /\
  delay_norm ex_delay <> ex_delay.   (* the zone is not carried: the stamp is UTC *)
Proof. split; [reflexivity|discriminate]. Qed.

Example ex_xtime_dom : xtime_dom ex_or t1.
Proof. split; [reflexivity|]. exists (mktm 0 0 3600). split; reflexivity. Qed.

(* paging *)
Example ex_rset_dom : rset_dom (mkrset (str "a<b") (Some 18446744073709551615%N) (str "z") (Some 0%N)).
Proof. split; cbn; unfold fits64, two64; lia. Qed.
Example ex_rnext_not_all : ~ fits64 18446744073709551616.
Proof. unfold fits64, two64. lia. Qed.

(* blocklist, trust message *)
Definition ex_bitem := mkbitem j1 [] [mksid (str "id1") j1; mksid (str "") []] (str "spam &c").
Example ex_bitem_dom : bitem_dom ex_or ex_bitem.
Proof.
  split; [right; reflexivity|]. apply Forall_cons; [right; reflexivity|]. apply Forall_cons; [left; reflexivity|]. apply Forall_nil.
Qed.
Example ex_bitem_norm : b_reason (bitem_norm ex_bitem) = reason_spam.
Proof. reflexivity. Qed.

Definition ex_trust := mktrust (str "urn:xmpp:atm:1") (str "urn:xmpp:omemo:2")
                               [mkowned j1 [mkckey true k1; mkckey false []]; mkowned [] []].
Example ex_trust_dom : trust_dom ex_or ex_trust.
Proof.
  apply Forall_cons; [|apply Forall_cons; [|apply Forall_nil]].
  - split; [right; reflexivity|]. apply Forall_cons; [right; reflexivity|]. apply Forall_cons; [left; reflexivity|apply Forall_nil].
  - split; [left; reflexivity|apply Forall_nil].
Qed.

(* hashes *)
Example ex_hash_known : hash_known 5 /\ hash_name 5 hash_table = Some (str "sha-256") /\ hash_name 0 hash_table = None.
Proof. split; [eexists; reflexivity|]. split; reflexivity. Qed.
Example ex_hashout_dom : hashout_dom ex_or (mkhashout 5 k1).
Proof. split; [eexists; reflexivity|]. split; [discriminate|reflexivity]. Qed.

(* file.Meta with and without a hash *)
Definition ex_meta (h : hashout) := mkfmeta (str "text/plain") (str "a&b.txt") t1 12 h 0 18446744073709551615 3.
Example ex_fmeta_dom : fmeta_dom ex_or (ex_meta (mkhashout 5 k1)) /\ fmeta_dom ex_or (ex_meta zero_hashout).
Proof.
  split; (split; [reflexivity|]); repeat (split; [unfold fits64, two64; cbn; lia|]).
  - right. exact ex_hashout_dom.
  - left. reflexivity.
Qed.
Example ex_fmeta_pinned_panics : hashout_tree zero_hashout = Panic.  (* what the pinned TokenReader called *)
Proof. reflexivity. Qed.

(* bin.Data: 1.5 s is written as "2" and comes back as 2 s; 0.4 s would come back as no-cache *)
Definition ex_bob := mkbob (str "sha1+8f35@bob.xmpp.org") 1500000000 false (str "image/png") k1.
Example ex_bob_dom : bob_dom ex_or 2 ex_bob.
Proof. split; [right; reflexivity|]. intros _ _. reflexivity. Qed.
Example ex_bob_norm : bb_maxage (bob_norm 2 ex_bob) = 2000000000%Z /\ bb_nocache (bob_norm 0 ex_bob) = true.
Proof. split; reflexivity. Qed.

(* upload.Slot *)
Definition ex_slot := mkslot (Some u1) (Some []) [str "Basic x"] [] [str "1"; str "2"].
Example ex_slot_dom : url_canon ex_or (sl_put ex_slot) /\ url_canon ex_or (sl_get ex_slot).
Proof. split; [reflexivity|exact I]. Qed.
Example ex_slot_norm : sl_get (slot_norm ex_slot) = None.
Proof. reflexivity. Qed.

(* data forms: the form of XEP-0004 example 2, filled in and submitted *)
Definition ex_form : data :=
  new_form [ FTitle (str "Bot" ++ [nl] ++ str "Configuration"); FInstr (str "Fill out this form" ++ [cr; nl] ++ str "please");
             FField t_hidden (str "FORM_TYPE") [OValue (str "jabber:bot")];
             FField t_fixed [] [OValue (str "Section 1")];
             FField t_text (str "botname") [OLabel (str "The name of your bot"); ORequired];
             FField t_text_multi (str "description") [];
             FField t_boolean (str "public") [OValue (str "maybe"); OValue (str "1")];
             FField t_list_multi (str "features") [OListItem (str "Contests") (str "contests"); OValue (str "news"); OValue (str "")];
             FField t_jid_multi (str "invitelist") [OValue j1; OValue (str "not a jid@")] ].

Definition ex_d1 : data :=
  match set ex_form (str "description") (VStr (str "line 1" ++ [nl; nl] ++ str "line 3" ++ [nl])) with
  | Ok (d, _, _) => d | _ => ex_form end.
Definition ex_sub : tree :=
  match submit (o_jid ex_or) (Some ex_d1) with Ok (t, _) => t | _ => Text [] end.
Definition ex_dec : data := match unmarshal ex_sub with Ok n => n | _ => zero_data end.

Example ex_form_run :
  set ex_form (str "description") (VStr (str "line 1" ++ [nl; nl] ++ str "line 3" ++ [nl])) = Ok (ex_d1, true, false) /\
  submit (o_jid ex_or) (Some ex_d1) = Ok (ex_sub, false) /\      (* botname is required and not set *)
  unmarshal ex_sub = Ok ex_dec /\ unmarshal (wire1 ex_sub) = Ok ex_dec /\
  map (fun f => (var f, value f)) (fields ex_dec) =
    [ (str "FORM_TYPE", [str "jabber:bot"]); (str "botname", []);
      (str "description", [str "line 1"; str "line 3"]);
      (str "public", [str "true"]); (str "features", [str "news"]); (str "invitelist", [j1]) ].
Proof.
  split; [vm_compute; reflexivity|]. split; [vm_compute; reflexivity|]. split; [vm_compute; reflexivity|].
  split; vm_compute; reflexivity.
Qed.

Example ex_form_title : space_replace (title ex_form) = str "Bot Configuration" /\
                        nonempty_runs (instructions ex_form) = [str "Fill out this form"; str "please"].
Proof. split; reflexivity. Qed.

(* the witnesses of the defects found on the pinned tree *)
Example ex_pinned_text_multi : split_lines_pinned 3 (str "a" ++ [nl]) [] = Panic /\ split_lines 3 (str "a" ++ [nl]) [] = Ok [str "a"].
Proof. split; reflexivity. Qed.
Example ex_pinned_set : set_pinned zero_data (str "x") (VStr (str "y")) = Panic /\
                        exists r, set zero_data (str "x") (VStr (str "y")) = Ok r.
Proof. split; [reflexivity|eexists; reflexivity]. Qed.

(* a malformed document: an error, not a panic *)
Example ex_bad_docs :
  unmarshal (Elem x_name [] [Elem (ln (str "bogus")) [] []]) = Err /\
  c_dec delay_c total_or (Elem delay_name [at_ (str "stamp") (str "yesterday")] []) = Err /\
  c_dec rset_c total_or (Elem set_name [] [leaf (str "count") (str "-1")]) = Err /\
  c_dec hquery_c total_or (Elem hquery_name [] []) = Ok (mkhquery [] [] zero_tm zero_tm [] [] [] 0 false [] false).
Proof. repeat split; reflexivity. Qed.
