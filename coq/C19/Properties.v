(* C19/Properties.v — the property theorems of C19 and nothing else.
   "Extension payloads encode consistently, safely and round-trip."

   Vocabulary (C19/Spec.v), for a payload type with model codec c:
     roundtrip c dom norm   for every value v in dom: TokenReader yields one element t, and decoding t
                            from the token stream and decoding the document written for t (wire1 t)
                            both give norm v                        (round trip; paths agree on dom;
                                                                     building the XML does not panic)
     wellformed c els ats   whatever TokenReader yields is well-bracketed, is determined by its tokens,
                            and every element/attribute name is one of the literal names els/ats
                            (user text occurs only as character data and attribute values)
     dec_total c            unmarshalling ANY tree gives a value or an error when the external
                            functions (jid.Parse, time.Parse, base64, url.Parse) do
   MarshalXML and WriteXML of every type copy the tokens of TokenReader (tied by the harness),
   so the two encodings are one model function. dom names the oracle assumptions (C19/Spec.v:
   jid_canon, time_utc_roundtrip, b64_roundtrip, ...) and the Go value ranges (uint64 etc.). *)
From Coq Require Import ZArith.
From XV Require Import lib.Bytes lib.Xml lib.Schema C19.Form C19.Types C19.Model C19.Spec C19.ProofsLib
  C19.ProofsA C19.ProofsB C19.ProofsC C19.ProofsD C19.ProofsE C19.ProofsF C19.ProofsG
  C19.ProofsForm1 C19.ProofsForm2 C19.ProofsForm3 C19.ProofsForm4 C19.ProofsH C19.ProofsS C19.ProofsI gen.Payloads C19.ProofsGen.

(* ---- the constants of the models are those of the source (regenerated on every run) ---- *)

Theorem C19_tables_are_source :
  gen_payload_ns = model_ns /\ (gen_hash_parse = hash_table /\ gen_hash_string = hash_table) /\
  gen_pubsub_conditions = pubsub_conditions /\ gen_form_consts = model_form_consts /\ gen_reason_spam = reason_spam.
Proof. exact tables_are_source. Qed.
Print Assumptions C19_tables_are_source.

Theorem C19_saslerr_tables_are_source :
  gen_sasl_conditions = sasl_conditions /\ gen_sasl_index_len = (sasl_count + 1)%N /\ gen_sasl_ns = ns_sasl /\
  gen_sasl_tr_check = (true, 0, 1)%N /\ gen_sasl_string_check = (0, 1)%N /\ gen_sasl_un_loop = (1, 2, 1)%N.
Proof. exact sasl_tables_are_source. Qed.
Print Assumptions C19_saslerr_tables_are_source.

(* ---- generic ---- *)

Theorem C19_roundtrip_gives_paths_agree : forall T (c : codec T) dom norm,
  roundtrip c dom norm -> paths_agree c dom /\ enc_total c dom.
Proof. exact roundtrip_consequences. Qed.
Print Assumptions C19_roundtrip_gives_paths_agree.

(* any forest a TokenReader yields is well-bracketed and parses back to itself *)
Theorem C19_token_streams_wellbracketed : forall ts : list tree,
  balanced (tokens_of_forest ts) = true /\ parse_forest (S (fsize ts)) (tokens_of_forest ts) = Some (ts, []).
Proof. exact token_streams_wellbracketed. Qed.
Print Assumptions C19_token_streams_wellbracketed.

(* the struct-tag interpreter (encoding/xml's reflection unmarshaller as the library uses it)
   never panics when no field assignment does *)
Theorem C19_schema_unmarshal_total : forall A (fs : list (Schema.field A)) xn init t,
  Forall field_safe fs -> safe (unmarshal_struct xn fs init t).
Proof. exact schema_unmarshal_total. Qed.
Print Assumptions C19_schema_unmarshal_total.

(* ---- version.Query ---- *)
Theorem C19_version_roundtrip : roundtrip version_c any (fun v => v).
Proof. exact version_roundtrip. Qed.
Print Assumptions C19_version_roundtrip.
Theorem C19_version_wellformed : wellformed version_c version_els [].
Proof. exact version_wellformed. Qed.
Print Assumptions C19_version_wellformed.
Theorem C19_version_unmarshal_total : dec_total version_c.
Proof. exact version_dec_total. Qed.
Print Assumptions C19_version_unmarshal_total.

(* ---- oob.Query ---- *)
Theorem C19_oob_query_roundtrip : roundtrip oobq_c any (fun v => v).
Proof. exact oobq_roundtrip. Qed.
Print Assumptions C19_oob_query_roundtrip.
Theorem C19_oob_query_wellformed : wellformed oobq_c oobq_els [].
Proof. exact oobq_wellformed. Qed.
Print Assumptions C19_oob_query_wellformed.
Theorem C19_oob_query_unmarshal_total : dec_total oobq_c.
Proof. exact oobq_dec_total. Qed.
Print Assumptions C19_oob_query_unmarshal_total.

(* ---- oob.Data ---- *)
Theorem C19_oob_data_roundtrip : roundtrip oobx_c any (fun v => v).
Proof. exact oobx_roundtrip. Qed.
Print Assumptions C19_oob_data_roundtrip.
Theorem C19_oob_data_wellformed : wellformed oobx_c oobx_els [].
Proof. exact oobx_wellformed. Qed.
Print Assumptions C19_oob_data_wellformed.
Theorem C19_oob_data_unmarshal_total : dec_total oobx_c.
Proof. exact oobx_dec_total. Qed.
Print Assumptions C19_oob_data_unmarshal_total.

(* ---- disco.ItemsQuery ---- *)
Theorem C19_disco_itemsquery_roundtrip : roundtrip itemsq_c any (fun v => v).
Proof. exact itemsq_roundtrip. Qed.
Print Assumptions C19_disco_itemsquery_roundtrip.
Theorem C19_disco_itemsquery_wellformed : wellformed itemsq_c [itemsq_name] [ln (str "node")].
Proof. exact itemsq_wellformed. Qed.
Print Assumptions C19_disco_itemsquery_wellformed.
Theorem C19_disco_itemsquery_unmarshal_total : dec_total itemsq_c.
Proof. exact itemsq_dec_total. Qed.
Print Assumptions C19_disco_itemsquery_unmarshal_total.

(* ---- items.Item ---- *)
Theorem C19_disco_item_roundtrip : roundtrip ditem_c ditem_dom (fun v => v).
Proof. exact ditem_roundtrip. Qed.
Print Assumptions C19_disco_item_roundtrip.
Theorem C19_disco_item_wellformed : wellformed ditem_c [ditem_name] [ln (str "jid"); ln (str "node"); ln (str "name")].
Proof. exact ditem_wellformed. Qed.
Print Assumptions C19_disco_item_wellformed.
Theorem C19_disco_item_unmarshal_total : dec_total ditem_c.
Proof. exact ditem_dec_total. Qed.
Print Assumptions C19_disco_item_unmarshal_total.

(* ---- info.Feature ---- *)
Theorem C19_disco_feature_roundtrip : roundtrip feature_c any (fun v => v).
Proof. exact feature_roundtrip. Qed.
Print Assumptions C19_disco_feature_roundtrip.
Theorem C19_disco_feature_wellformed : wellformed feature_c [feature_name] [ln (str "var")].
Proof. exact feature_wellformed. Qed.
Print Assumptions C19_disco_feature_wellformed.
Theorem C19_disco_feature_unmarshal_total : dec_total feature_c.
Proof. exact feature_dec_total. Qed.
Print Assumptions C19_disco_feature_unmarshal_total.

(* ---- info.Identity ---- *)
Theorem C19_disco_identity_roundtrip : roundtrip ident_c any (fun v => v).
Proof. exact ident_roundtrip. Qed.
Print Assumptions C19_disco_identity_roundtrip.
Theorem C19_disco_identity_wellformed : wellformed ident_c [ident_name] [ln (str "category"); ln (str "type"); ln (str "name"); mkname xml_ns (str "lang")].
Proof. exact ident_wellformed. Qed.
Print Assumptions C19_disco_identity_wellformed.
Theorem C19_disco_identity_unmarshal_total : dec_total ident_c.
Proof. exact ident_dec_total. Qed.
Print Assumptions C19_disco_identity_unmarshal_total.

(* ---- paging.RequestCount ---- *)
Theorem C19_rsm_count_roundtrip : roundtrip rcount_c any (fun v => v).
Proof. exact rcount_roundtrip. Qed.
Print Assumptions C19_rsm_count_roundtrip.
Theorem C19_rsm_count_wellformed : wellformed rcount_c rsm_els [ln (str "index")].
Proof. exact rcount_wellformed. Qed.
Print Assumptions C19_rsm_count_wellformed.
Theorem C19_rsm_count_unmarshal_total : dec_total rcount_c.
Proof. exact rcount_dec_total. Qed.
Print Assumptions C19_rsm_count_unmarshal_total.

(* ---- paging.RequestNext ---- *)
Theorem C19_rsm_next_roundtrip : roundtrip rnext_c (fun _ v => fits64 (rn_max v)) (fun v => v).
Proof. exact rnext_roundtrip. Qed.
Print Assumptions C19_rsm_next_roundtrip.
Theorem C19_rsm_next_wellformed : wellformed rnext_c rsm_els [ln (str "index")].
Proof. exact rnext_wellformed. Qed.
Print Assumptions C19_rsm_next_wellformed.
Theorem C19_rsm_next_unmarshal_total : dec_total rnext_c.
Proof. exact rnext_dec_total. Qed.
Print Assumptions C19_rsm_next_unmarshal_total.

(* ---- paging.RequestPrev ---- *)
Theorem C19_rsm_prev_roundtrip : roundtrip rprev_c (fun _ v => fits64 (rp_max v)) (fun v => v).
Proof. exact rprev_roundtrip. Qed.
Print Assumptions C19_rsm_prev_roundtrip.
Theorem C19_rsm_prev_wellformed : wellformed rprev_c rsm_els [ln (str "index")].
Proof. exact rprev_wellformed. Qed.
Print Assumptions C19_rsm_prev_wellformed.
Theorem C19_rsm_prev_unmarshal_total : dec_total rprev_c.
Proof. exact rprev_dec_total. Qed.
Print Assumptions C19_rsm_prev_unmarshal_total.

(* ---- paging.RequestIndex ---- *)
Theorem C19_rsm_index_roundtrip : roundtrip rindex_c (fun _ v => fits64 (ri_max v) /\ fits64 (ri_index v)) (fun v => v).
Proof. exact rindex_roundtrip. Qed.
Print Assumptions C19_rsm_index_roundtrip.
Theorem C19_rsm_index_wellformed : wellformed rindex_c rsm_els [ln (str "index")].
Proof. exact rindex_wellformed. Qed.
Print Assumptions C19_rsm_index_wellformed.
Theorem C19_rsm_index_unmarshal_total : dec_total rindex_c.
Proof. exact rindex_dec_total. Qed.
Print Assumptions C19_rsm_index_unmarshal_total.

(* ---- paging.Set ---- *)
Theorem C19_rsm_set_roundtrip : roundtrip rset_c (fun _ v => fits64o (rs_index v) /\ fits64o (rs_count v)) (fun v => v).
Proof. exact rset_roundtrip. Qed.
Print Assumptions C19_rsm_set_roundtrip.
Theorem C19_rsm_set_wellformed : wellformed rset_c rsm_els [ln (str "index")].
Proof. exact rset_wellformed. Qed.
Print Assumptions C19_rsm_set_wellformed.
Theorem C19_rsm_set_unmarshal_total : dec_total rset_c.
Proof. exact rset_dec_total. Qed.
Print Assumptions C19_rsm_set_unmarshal_total.

(* ---- delay.Delay ---- *)
Theorem C19_delay_roundtrip : roundtrip delay_c delay_dom delay_norm.
Proof. exact delay_roundtrip. Qed.
Print Assumptions C19_delay_roundtrip.
Theorem C19_delay_wellformed : wellformed delay_c [forwarded_name; delay_name] delay_ats.
Proof. exact delay_wellformed. Qed.
Print Assumptions C19_delay_wellformed.
Theorem C19_delay_unmarshal_total : dec_total delay_c.
Proof. exact delay_dec_total. Qed.
Print Assumptions C19_delay_unmarshal_total.

(* ---- stanza.Delay ---- *)
Theorem C19_stanza_delay_roundtrip : roundtrip sdelay_c delay_dom delay_norm.
Proof. exact sdelay_roundtrip. Qed.
Print Assumptions C19_stanza_delay_roundtrip.
Theorem C19_stanza_delay_wellformed : wellformed sdelay_c [delay_name] delay_ats.
Proof. exact sdelay_wellformed. Qed.
Print Assumptions C19_stanza_delay_wellformed.
Theorem C19_stanza_delay_unmarshal_total : dec_total sdelay_c.
Proof. exact sdelay_dec_total. Qed.
Print Assumptions C19_stanza_delay_unmarshal_total.

(* ---- xtime.Time ---- *)
Theorem C19_xtime_roundtrip : roundtrip xtime_c xtime_dom xtime_norm.
Proof. exact xtime_roundtrip. Qed.
Print Assumptions C19_xtime_roundtrip.
Theorem C19_xtime_wellformed : wellformed xtime_c [time_name; ln (str "tzo"); ln (str "utc")] [].
Proof. exact xtime_wellformed. Qed.
Print Assumptions C19_xtime_wellformed.
Theorem C19_xtime_unmarshal_total : dec_total xtime_c.
Proof. exact xtime_dec_total. Qed.
Print Assumptions C19_xtime_unmarshal_total.

(* ---- forward.Forwarded ---- *)
Theorem C19_forwarded_roundtrip : roundtrip forwarded_c delay_dom delay_norm.
Proof. exact forwarded_roundtrip. Qed.
Print Assumptions C19_forwarded_roundtrip.
Theorem C19_forwarded_wellformed : wellformed forwarded_c [forwarded_name; delay_name] delay_ats.
Proof. exact forwarded_wellformed. Qed.
Print Assumptions C19_forwarded_wellformed.
Theorem C19_forwarded_unmarshal_total : dec_total forwarded_c.
Proof. exact forwarded_dec_total. Qed.
Print Assumptions C19_forwarded_unmarshal_total.

(* ---- roster.Item ---- *)
Theorem C19_roster_item_roundtrip : roundtrip ritem_c (fun o v => jid_canon o (r_jid v)) (fun v => v).
Proof. exact ritem_roundtrip. Qed.
Print Assumptions C19_roster_item_roundtrip.
Theorem C19_roster_item_wellformed : wellformed ritem_c ritem_els ritem_ats.
Proof. exact ritem_wellformed. Qed.
Print Assumptions C19_roster_item_wellformed.
Theorem C19_roster_item_unmarshal_total : dec_total ritem_c.
Proof. exact ritem_dec_total. Qed.
Print Assumptions C19_roster_item_unmarshal_total.

(* ---- stanza.ID ---- *)
Theorem C19_stanza_id_roundtrip : roundtrip sid_c (fun o v => jid_canon o (s_by v)) (fun v => v).
Proof. exact sid_roundtrip. Qed.
Print Assumptions C19_stanza_id_roundtrip.
Theorem C19_stanza_id_wellformed : wellformed sid_c [sid_name] [ln (str "id"); ln (str "by")].
Proof. exact sid_wellformed. Qed.
Print Assumptions C19_stanza_id_wellformed.
Theorem C19_stanza_id_unmarshal_total : dec_total sid_c.
Proof. exact sid_dec_total. Qed.
Print Assumptions C19_stanza_id_unmarshal_total.

(* ---- stanza.OriginID ---- *)
Theorem C19_origin_id_roundtrip : roundtrip oid_c any (fun v => v).
Proof. exact oid_roundtrip. Qed.
Print Assumptions C19_origin_id_roundtrip.
Theorem C19_origin_id_wellformed : wellformed oid_c [oid_name] [ln (str "id")].
Proof. exact oid_wellformed. Qed.
Print Assumptions C19_origin_id_wellformed.
Theorem C19_origin_id_unmarshal_total : dec_total oid_c.
Proof. exact oid_dec_total. Qed.
Print Assumptions C19_origin_id_unmarshal_total.

(* ---- blocklist.Item ---- *)
Theorem C19_blocklist_item_roundtrip : roundtrip bitem_c bitem_dom bitem_norm.
Proof. exact bitem_roundtrip. Qed.
Print Assumptions C19_blocklist_item_roundtrip.
Theorem C19_blocklist_item_wellformed : wellformed bitem_c bitem_els bitem_ats.
Proof. exact bitem_wellformed. Qed.
Print Assumptions C19_blocklist_item_wellformed.
Theorem C19_blocklist_item_unmarshal_total : dec_total bitem_c.
Proof. exact bitem_dec_total. Qed.
Print Assumptions C19_blocklist_item_unmarshal_total.

(* ---- upload.File ---- *)
Theorem C19_upload_file_roundtrip : roundtrip ufile_c (fun _ v => fits_int64 (uf_size v)) (fun v => v).
Proof. exact ufile_roundtrip. Qed.
Print Assumptions C19_upload_file_roundtrip.
Theorem C19_upload_file_wellformed : wellformed ufile_c [ufile_name] [ln (str "filename"); ln (str "size"); ln (str "content-type")].
Proof. exact ufile_wellformed. Qed.
Print Assumptions C19_upload_file_wellformed.
Theorem C19_upload_file_unmarshal_total : dec_total ufile_c.
Proof. exact ufile_dec_total. Qed.
Print Assumptions C19_upload_file_unmarshal_total.

(* ---- upload.Slot ---- *)
Theorem C19_upload_slot_roundtrip : roundtrip slot_c (fun o v => url_canon o (sl_put v) /\ url_canon o (sl_get v)) slot_norm.
Proof. exact slot_roundtrip. Qed.
Print Assumptions C19_upload_slot_roundtrip.
Theorem C19_upload_slot_wellformed : wellformed slot_c slot_els slot_ats.
Proof. exact slot_wellformed. Qed.
Print Assumptions C19_upload_slot_wellformed.
Theorem C19_upload_slot_unmarshal_total : dec_total slot_c.
Proof. exact slot_dec_total. Qed.
Print Assumptions C19_upload_slot_unmarshal_total.

(* ---- crypto.Hash ---- *)
Theorem C19_hash_roundtrip : roundtrip hash_c (fun _ h => hash_known h) (fun h => h).
Proof. exact hash_roundtrip. Qed.
Print Assumptions C19_hash_roundtrip.
Theorem C19_hash_wellformed : wellformed hash_c hash_els [ln (str "algo")].
Proof. exact hash_wellformed. Qed.
Print Assumptions C19_hash_wellformed.
Theorem C19_hash_unmarshal_total : dec_total hash_c.
Proof. exact hash_dec_total. Qed.
Print Assumptions C19_hash_unmarshal_total.

(* ---- crypto.HashOutput ---- *)
Theorem C19_hashoutput_roundtrip : roundtrip hashout_c hashout_dom (fun v => v).
Proof. exact hashout_roundtrip. Qed.
Print Assumptions C19_hashoutput_roundtrip.
Theorem C19_hashoutput_wellformed : wellformed hashout_c hash_els [ln (str "algo")].
Proof. exact hashout_wellformed. Qed.
Print Assumptions C19_hashoutput_wellformed.
Theorem C19_hashoutput_unmarshal_total : dec_total hashout_c.
Proof. exact hashout_dec_total. Qed.
Print Assumptions C19_hashoutput_unmarshal_total.

(* ---- crypto.Key ---- *)
Theorem C19_key_roundtrip : roundtrip ckey_c (fun o v => b64_roundtrip o (k_id v)) (fun v => v).
Proof. exact ckey_roundtrip. Qed.
Print Assumptions C19_key_roundtrip.
Theorem C19_key_wellformed : wellformed ckey_c key_els key_ats.
Proof. exact ckey_wellformed. Qed.
Print Assumptions C19_key_wellformed.
Theorem C19_key_unmarshal_total : dec_total ckey_c.
Proof. exact ckey_dec_total. Qed.
Print Assumptions C19_key_unmarshal_total.

(* ---- crypto.OwnedKeys ---- *)
Theorem C19_ownedkeys_roundtrip : roundtrip owned_c owned_dom (fun v => v).
Proof. exact owned_roundtrip. Qed.
Print Assumptions C19_ownedkeys_roundtrip.
Theorem C19_ownedkeys_wellformed : wellformed owned_c key_els key_ats.
Proof. exact owned_wellformed. Qed.
Print Assumptions C19_ownedkeys_wellformed.
Theorem C19_ownedkeys_unmarshal_total : dec_total owned_c.
Proof. exact owned_dec_total. Qed.
Print Assumptions C19_ownedkeys_unmarshal_total.

(* ---- crypto.TrustMessage ---- *)
Theorem C19_trustmessage_roundtrip : roundtrip trust_c trust_dom (fun v => v).
Proof. exact trust_roundtrip. Qed.
Print Assumptions C19_trustmessage_roundtrip.
Theorem C19_trustmessage_wellformed : wellformed trust_c key_els key_ats.
Proof. exact trust_wellformed. Qed.
Print Assumptions C19_trustmessage_wellformed.
Theorem C19_trustmessage_unmarshal_total : dec_total trust_c.
Proof. exact trust_dec_total. Qed.
Print Assumptions C19_trustmessage_unmarshal_total.

(* ---- styling.Unstyled ---- *)
Theorem C19_unstyled_roundtrip : roundtrip unstyled_c any (fun _ => true).
Proof. exact unstyled_roundtrip. Qed.
Print Assumptions C19_unstyled_roundtrip.
Theorem C19_unstyled_wellformed : wellformed unstyled_c [unstyled_name] [].
Proof. exact unstyled_wellformed. Qed.
Print Assumptions C19_unstyled_wellformed.
Theorem C19_unstyled_unmarshal_total : dec_total unstyled_c.
Proof. exact unstyled_dec_total. Qed.
Print Assumptions C19_unstyled_unmarshal_total.

(* ---- commands.Actions ---- *)
Theorem C19_actions_roundtrip : roundtrip actions_c any actions_norm.
Proof. exact actions_roundtrip. Qed.
Print Assumptions C19_actions_roundtrip.
Theorem C19_actions_wellformed : wellformed actions_c actions_els [ln (str "execute")].
Proof. exact actions_wellformed. Qed.
Print Assumptions C19_actions_wellformed.
Theorem C19_actions_unmarshal_total : dec_total actions_c.
Proof. exact actions_dec_total. Qed.
Print Assumptions C19_actions_unmarshal_total.

(* ---- history.Result ---- *)
Theorem C19_history_result_roundtrip : roundtrip hresult_c (fun _ v => rset_dom (hr_set v)) (fun v => v).
Proof. exact hresult_roundtrip. Qed.
Print Assumptions C19_history_result_roundtrip.
Theorem C19_history_result_wellformed : wellformed hresult_c hresult_els hresult_ats.
Proof. exact hresult_wellformed. Qed.
Print Assumptions C19_history_result_wellformed.
Theorem C19_history_result_unmarshal_total : dec_total hresult_c.
Proof. exact hresult_dec_total. Qed.
Print Assumptions C19_history_result_unmarshal_total.

(* ---- file.Meta ---- *)
Theorem C19_file_meta_roundtrip : roundtrip fmeta_c fmeta_dom fmeta_norm.
Proof. exact fmeta_roundtrip. Qed.
Print Assumptions C19_file_meta_roundtrip.
Theorem C19_file_meta_wellformed : wellformed fmeta_c fmeta_els [ln (str "algo")].
Proof. exact fmeta_wellformed. Qed.
Print Assumptions C19_file_meta_wellformed.
Theorem C19_file_meta_unmarshal_total : dec_total fmeta_c.
Proof. exact fmeta_dec_total. Qed.
Print Assumptions C19_file_meta_unmarshal_total.

(* ---- the zone offset text of xtime (XEP-0082 TZD) ---- *)

(* the model's formatter (not an oracle: compared with the code's output on every case) and the
   reading of the text are inverse: for every offset within a day, in seconds, the text denotes
   the offset in whole minutes; for whole-minute offsets the offset itself *)
Theorem C19_tzo_parse_format : forall off, (-86400 < off < 86400)%Z ->
  parse_tzo (format_tzo off) = Some (Z.quot off 60 * 60)%Z.
Proof. exact parse_format_tzo. Qed.
Print Assumptions C19_tzo_parse_format.

Theorem C19_tzo_parse_format_minutes : forall off, (-86400 < off < 86400)%Z -> Z.rem off 60 = 0%Z ->
  parse_tzo (format_tzo off) = Some off.
Proof. exact parse_format_tzo_minutes. Qed.
Print Assumptions C19_tzo_parse_format_minutes.

(* hence the tzo premise of C19_xtime_roundtrip holds whenever time.Parse("Z07:00") reads what
   the text denotes *)
Theorem C19_xtime_tzo_premise : forall o t, tzo_parse_agrees o -> (-86400 < t_off t < 86400)%Z -> tzo_roundtrip o t.
Proof. exact tzo_roundtrip_from_agreement. Qed.
Print Assumptions C19_xtime_tzo_premise.

(* ---- internal/saslerr: the SASL failure payload ---- *)

(* for EVERY condition value (a uint16; defined: 1..11) and every text and language: one failure
   element, read back from both paths as the normalised value (an undefined condition is not
   written and comes back as ConditionNone; the language exists only with a text) *)
Theorem C19_saslerr_roundtrip : roundtrip saslerr_c any saslerr_norm.
Proof. exact saslerr_roundtrip. Qed.
Print Assumptions C19_saslerr_roundtrip.
Theorem C19_saslerr_wellformed : wellformed saslerr_c sasl_els sasl_ats.
Proof. exact saslerr_wellformed. Qed.
Print Assumptions C19_saslerr_wellformed.
Theorem C19_saslerr_unmarshal_total : dec_total saslerr_c.
Proof. exact saslerr_dec_total. Qed.
Print Assumptions C19_saslerr_unmarshal_total.

(* Condition on its own: a defined condition is one element that reads back; ConditionNone and
   every value at or beyond the table (12, ..., 65535) write no token at all *)
Theorem C19_saslerr_condition_roundtrip : forall o c,
  match sasl_name c with
  | Some n => exists t, c_enc scond_c o c = Ok [t] /\ c_dec scond_c o t = Ok c /\ c_dec scond_c o (wire1 t) = Ok c
  | None => c_enc scond_c o c = Ok []
  end.
Proof. exact scond_roundtrip. Qed.
Print Assumptions C19_saslerr_condition_roundtrip.
Theorem C19_saslerr_condition_undefined : forall c, (c = 0 \/ 12 <= c)%N -> sasl_name c = None.
Proof. exact scond_undefined. Qed.
Print Assumptions C19_saslerr_condition_undefined.
Theorem C19_saslerr_condition_wellformed : wellformed scond_c sasl_els sasl_ats.
Proof. exact scond_wellformed. Qed.
Print Assumptions C19_saslerr_condition_wellformed.
Theorem C19_saslerr_condition_unmarshal_total : dec_total scond_c.
Proof. exact scond_dec_total. Qed.
Print Assumptions C19_saslerr_condition_unmarshal_total.

(* ---- shared state: decoding into a destination that already holds a value ---- *)

(* the statements of all UnmarshalXML bodies through which a result can depend on the previous
   contents of the destination (a receiver field resliced from itself, appended to, accumulated),
   with their guards, are exactly the known ones (read from the source on every run) *)
Theorem C19_unmarshal_reuse_sites_are_known : gen_reuse_sites = known_reuse_sites.
Proof. exact reuse_sites_are_known. Qed.
Print Assumptions C19_unmarshal_reuse_sites_are_known.

(* crypto.Key re-uses the destination's KeyID buffer: for every previous content and length of
   it, the key id is exactly the decoded data *)
Theorem C19_key_buffer_independent : forall old data explen,
  length data <= explen -> key_buf false old data explen = data.
Proof. exact key_buf_indep. Qed.
Print Assumptions C19_key_buffer_independent.

Theorem C19_key_unmarshal_ignores_destination : forall o old t,
  b64_len_ok o -> ckey_un_into old o t = ckey_un o t.
Proof. exact ckey_un_into_indep. Qed.
Print Assumptions C19_key_unmarshal_ignores_destination.

(* trimming only when fewer bytes than expected were decoded would keep the tail of a longer key *)
Theorem C19_key_buffer_guard_on_expected_length_refuted :
  exists old data explen, length data <= explen /\ key_buf true old data explen <> data.
Proof. exact key_buf_guard_on_explen_refuted. Qed.
Print Assumptions C19_key_buffer_guard_on_expected_length_refuted.

Theorem C19_hashoutput_unmarshal_ignores_destination : forall o old t,
  hashout_un_into old o t = hashout_un o t.
Proof. exact hashout_un_into_indep. Qed.
Print Assumptions C19_hashoutput_unmarshal_ignores_destination.

(* saslerr.Error: the condition never depends on the destination; language and text are the
   destination's exactly when the element has no text *)
Theorem C19_saslerr_unmarshal_condition_ignores_destination : forall old old' t,
  rmap se_cond (saslerr_un_into old t) = rmap se_cond (saslerr_un_into old' t).
Proof. exact saslerr_into_cond. Qed.
Print Assumptions C19_saslerr_unmarshal_condition_ignores_destination.

Theorem C19_saslerr_unmarshal_kept_fields : forall old t v, saslerr_un_into old t = Ok v ->
  (se_lang v = se_lang old /\ se_text v = se_text old) \/ (forall old', saslerr_un_into old' t = Ok v).
Proof. exact saslerr_into_kept. Qed.
Print Assumptions C19_saslerr_unmarshal_kept_fields.

(* ---- histories: a submission is derived from a form and leaves it unchanged ---- *)

(* from the source: the loops of TokenReader and Submit range over copies of the fields and
   nothing assigns through an element; hence the form after Submit/TokenReader is the form before *)
Theorem C19_form_submit_leaves_form : 
  (form_by_ref = false /\ map fst gen_form_field_loops = [str "TokenReader"; str "Submit"]) /\
  forall jp d, fields_after jp form_by_ref d (fields d) = Ok (fields d).
Proof. exact (conj form_loops_copy submit_leaves_form). Qed.
Print Assumptions C19_form_submit_leaves_form.

Theorem C19_form_submit_through_pointer_refuted :
  exists d, fields_after (fun _ => Err) true d (fields d) <> Ok (fields d).
Proof. exact fields_after_by_ref_refuted. Qed.
Print Assumptions C19_form_submit_through_pointer_refuted.

(* ---- special cases ---- *)

(* styling.Unstyled: the hint is written whatever the value, so false does not round-trip
   (known finding C19/styling.Unstyled/roundtrip/value:false-written-as-present) *)
Definition C19_unstyled_roundtrip_statement : Prop := roundtrip unstyled_c any (fun v => v).
Theorem C19_unstyled_roundtrip_refuted :
  exists o v t, c_enc unstyled_c o v = Ok [t] /\ c_dec unstyled_c o t <> Ok v.
Proof. exact unstyled_not_identity. Qed.
Print Assumptions C19_unstyled_roundtrip_refuted.

(* receipts.Requested: true is the element, false is no element at all *)
Theorem C19_requested_roundtrip : forall o,
  c_enc requested_c o false = Ok [] /\
  exists t, c_enc requested_c o true = Ok [t] /\ c_dec requested_c o t = Ok true /\ c_dec requested_c o (wire1 t) = Ok true.
Proof. exact requested_roundtrip. Qed.
Print Assumptions C19_requested_roundtrip.
Theorem C19_requested_wellformed : wellformed requested_c [request_name] [].
Proof. exact requested_wellformed. Qed.
Print Assumptions C19_requested_wellformed.
Theorem C19_requested_unmarshal_total : dec_total requested_c.
Proof. exact requested_dec_total. Qed.
Print Assumptions C19_requested_unmarshal_total.

(* pubsub.Condition (decoding only): total, and the result is 0 or one of the 22 conditions *)
Theorem C19_pubsub_condition_unmarshal_total : dec_total pcond_c.
Proof. exact pcond_dec_total. Qed.
Print Assumptions C19_pubsub_condition_unmarshal_total.
Theorem C19_pubsub_condition_range : forall o t n, c_dec pcond_c o t = Ok n -> (n <= 22)%N.
Proof. exact pcond_range. Qed.
Print Assumptions C19_pubsub_condition_range.

(* crypto.Hash: TokenReader panics exactly outside the table of names (documented) *)
Theorem C19_hash_tokenreader_panics_outside_table : forall o h,
  hash_name h hash_table = None -> c_enc hash_c o h = Panic.
Proof. exact hash_enc_panics. Qed.
Print Assumptions C19_hash_tokenreader_panics_outside_table.

(* crypto.HashOutput with an empty output: the paths differ — the token stream decodes, the
   written document does not (known finding C19/crypto.HashOutput/roundtrip/error:empty-output) *)
Definition C19_hashoutput_paths_agree_statement : Prop := paths_agree hashout_c (fun _ v => hash_known (ho_hash v)).
Theorem C19_hashoutput_paths_agree_refuted : forall o h n, hash_name h hash_table = Some n ->
  exists t, c_enc hashout_c o (mkhashout h []) = Ok [t] /\
            c_dec hashout_c o t = Ok (mkhashout h []) /\ c_dec hashout_c o (wire1 t) = Err.
Proof. exact hashout_empty_paths_differ. Qed.
Print Assumptions C19_hashoutput_paths_agree_refuted.

(* bin.Data: max-age travels in whole seconds; n is the integer strconv reads from the text
   FormatFloat wrote *)
Theorem C19_bin_data_roundtrip : forall o n v, bob_dom o n v ->
  exists t, c_enc bob_c o v = Ok [t] /\ c_dec bob_c o t = Ok (bob_norm n v) /\ c_dec bob_c o (wire1 t) = Ok (bob_norm n v).
Proof. exact bob_roundtrip. Qed.
Print Assumptions C19_bin_data_roundtrip.
Theorem C19_bin_data_wellformed : wellformed bob_c [bob_name] [ln (str "type"); ln (str "max-age"); ln (str "cid")].
Proof. exact bob_wellformed. Qed.
Print Assumptions C19_bin_data_wellformed.
Theorem C19_bin_data_unmarshal_total : dec_total bob_c.
Proof. exact bob_dec_total. Qed.
Print Assumptions C19_bin_data_unmarshal_total.

(* bookmarks.Channel: round trip up to the extensions (raw XML, outside the tree model) *)
Theorem C19_bookmarks_channel_roundtrip : roundtrip channel_c any channel_norm.
Proof. exact channel_roundtrip. Qed.
Print Assumptions C19_bookmarks_channel_roundtrip.
Theorem C19_bookmarks_channel_wellformed : forall o v ts, ch_hasext v = false -> c_enc channel_c o v = Ok ts ->
  forest_wellformed channel_els channel_ats ts.
Proof. exact channel_wellformed. Qed.
Print Assumptions C19_bookmarks_channel_wellformed.
Theorem C19_bookmarks_channel_unmarshal_total : dec_total channel_c.
Proof. exact channel_dec_total. Qed.
Print Assumptions C19_bookmarks_channel_unmarshal_total.

(* file.Meta: building the XML does not panic without a hash (after the repair) *)
Theorem C19_file_meta_constructors_no_panic :
  enc_total fmeta_c (fun _ v => hash_unset (fm_hash v) = true \/ hash_known (ho_hash (fm_hash v))).
Proof. exact fmeta_enc_total. Qed.
Print Assumptions C19_file_meta_constructors_no_panic.

(* history.Query: the query submits a seven-field data form and reads the filters back through
   Get. Round trip through both paths: times come back in UTC (the zero time as the zero time),
   empty ids are not sent; building never panics, unmarshalling is total (after the repairs) *)
Theorem C19_history_query_roundtrip : roundtrip hquery_c hq_dom hq_norm.
Proof. exact hquery_roundtrip. Qed.
Print Assumptions C19_history_query_roundtrip.
Theorem C19_history_query_wellformed : wellformed hquery_c hquery_els hquery_ats.
Proof. exact hquery_wellformed. Qed.
Print Assumptions C19_history_query_wellformed.
Theorem C19_history_query_constructors_no_panic : forall o q, or_safe o -> safe (c_enc hquery_c o q).
Proof. exact hquery_enc_safe. Qed.
Print Assumptions C19_history_query_constructors_no_panic.
Theorem C19_history_query_unmarshal_total : dec_total hquery_c.
Proof. exact hquery_dec_total. Qed.
Print Assumptions C19_history_query_unmarshal_total.

(* ---- data forms ---- *)

(* no function of the form API panics: Get (nil receiver included), Set (zero value included),
   TokenReader, Submit (nil receiver included), for every form, identifier and value *)
Theorem C19_form_constructors_no_panic : forall jp, (forall s, safe (jp s)) ->
  (forall d id, safe (get jp d id)) /\
  (forall d id v, exists r, set d id v = Ok r) /\
  (forall d, safe (token_reader jp d)) /\
  (forall d, safe (submit jp d)).
Proof. exact form_api_no_panic. Qed.
Print Assumptions C19_form_constructors_no_panic.

(* stronger: Get, TokenReader and Submit always return a value (an element): an address jid.Parse
   rejects is simply not written *)
Theorem C19_form_always_yields : forall jp, (forall s, safe (jp s)) ->
  (forall d id, yields (get jp d id)) /\ (forall d, yields (token_reader jp d)) /\ (forall d, yields (submit jp d)).
Proof. exact form_api_always_yields. Qed.
Print Assumptions C19_form_always_yields.

(* the three panics of the pinned tree, as witnesses against its code *)
Theorem C19_form_pinned_panics :
  (split_lines_pinned 3 (str "a" ++ [nl]) [] = Panic /\ split_lines_pinned 1 [] [] = Panic) /\
  (forall id v, set_type_ok [] v = true -> set_pinned zero_data id v = Panic) /\
  (forall jp id, get_pinned jp None id = Panic).
Proof. exact form_pinned_panics. Qed.
Print Assumptions C19_form_pinned_panics.

(* text-multi: the submitted lines are the segments between line breaks, an empty last one
   dropped; the loop ends within its fuel for every value *)
Theorem C19_form_text_multi_split : forall typed lines,
  split_lines (S (length typed)) typed lines = Ok (lines ++ trim_last (runs [] typed)).
Proof. exact text_multi_split. Qed.
Print Assumptions C19_form_text_multi_split.

Theorem C19_form_text_multi_lines_clean : forall typed, exists ls,
  split_lines (S (length typed)) typed [] = Ok ls /\ Forall (fun l => no_nl l = true) ls.
Proof. exact text_multi_lines_clean. Qed.
Print Assumptions C19_form_text_multi_lines_clean.

(* one encode/decode gives the documented normal form, from the token stream and from the
   written document alike (so the two paths agree for every form) *)
Theorem C19_form_roundtrip : forall jp d t, token_reader jp d = Ok t ->
  exists n, norm jp d = Ok n /\ unmarshal t = Ok n /\ unmarshal (wire1 t) = Ok n.
Proof. exact form_roundtrip. Qed.
Print Assumptions C19_form_roundtrip.

Theorem C19_form_paths_agree : forall jp d t, token_reader jp d = Ok t -> unmarshal (wire1 t) = unmarshal t.
Proof. exact form_paths_agree. Qed.
Print Assumptions C19_form_paths_agree.

Theorem C19_form_wellformed : forall jp d t, token_reader jp d = Ok t -> forest_wellformed form_els form_ats [t].
Proof. exact form_wellformed. Qed.
Print Assumptions C19_form_wellformed.

(* what is written obeys XEP-0004: title and instruction lines without line breaks, no empty
   instruction line; per field no empty value, booleans and JIDs well-formed, at most one value
   unless the field is multi-valued *)
Theorem C19_form_values_normalised : forall jp d t, token_reader jp d = Ok t ->
  exists ps, t = gform [] false [at_ (str "type") (dtyp d)] d ps /\
    no_nl (space_replace (title d)) = true /\
    Forall (fun l => no_nl l = true /\ l <> []) (nonempty_runs (instructions d)) /\
    Forall (fun p => Forall (value_ok jp (typ (fst p))) (snd p) /\
                     (is_multi (typ (fst p)) = false -> length (snd p) <= 1)) ps.
Proof. exact form_values_normalised. Qed.
Print Assumptions C19_form_values_normalised.

Theorem C19_form_unmarshal_total : forall t, safe (unmarshal t).
Proof. exact form_unmarshal_total. Qed.
Print Assumptions C19_form_unmarshal_total.
