(* C19/ProofsForm2.v — data forms: what TokenReader writes decodes, from the
   token stream and from the written document alike, to the normal form [norm]
   (title with line breaks as spaces, instruction lines, per field the values
   that are written). *)
From Coq Require Import ZArith Lia.
From XV Require Import lib.Bytes lib.Xml lib.Schema C19.Form C19.Types C19.Spec C19.ProofsLib C19.ProofsC C19.ProofsForm1.

Arguments set_children : simpl nomatch.

(* ---- the XML of a form, for a name space [ns] of the children and the two
        renderings of an empty text ([e] = true: no character data token) ---- *)

Definition gleaf (ns : bytes) (e : bool) (l v : bytes) : tree :=
  Elem (mkname ns l) [] (if e && is_nil v then [] else [Text v]).

Definition goption (ns : bytes) (e : bool) (o : fopt) : tree :=
  Elem (mkname ns (str "option")) [at_ (str "label") (o_label o)] [gleaf ns e (str "value") (o_value o)].

Definition gfield (ns : bytes) (e : bool) (p : field * list bytes) : tree :=
  let f := fst p in
  Elem (mkname ns (str "field")) (field_attrs f)
    ((if is_nil (desc f) then [] else [gleaf ns e (str "desc") (desc f)]) ++
     (if required f then [Elem (mkname ns (str "required")) [] []] else []) ++
     map (gleaf ns e (str "value")) (snd p) ++
     (if is_list (typ f) then map (goption ns e) (options f) else [])).

Definition gform (ns : bytes) (e : bool) (xattrs : list attr) (d : data) (ps : list (field * list bytes)) : tree :=
  Elem x_name xattrs
    ((if is_nil (title d) then [] else [gleaf ns e (str "title") (space_replace (title d))]) ++
     map (gleaf ns e (str "instructions")) (nonempty_runs (instructions d)) ++
     map (gfield ns e) ps).

Lemma gleaf_leaf l v : gleaf [] false l v = leaf l v.
Proof. reflexivity. Qed.

Lemma payload_gleaf ns e l v : payload_text (gleaf ns e l v) = v.
Proof. unfold gleaf. destruct e, v; cbn; rewrite ?app_nil_r; reflexivity. Qed.

Lemma wire_gleaf ns l v : wire ns (gleaf [] false l v) = [gleaf ns true l v].
Proof. unfold gleaf. cbn. destruct v; reflexivity. Qed.

Lemma wire_goption ns o : wire ns (goption [] false o) = [goption ns true o].
Proof.
  unfold goption. rewrite wire_elem. cbn [nspace nlocal is_nil app flat_map]. rewrite wire_gleaf. reflexivity.
Qed.

Lemma wire_attrs_field f : wire_attrs (field_attrs f) = field_attrs f.
Proof. unfold field_attrs. destruct (var f), (label f); reflexivity. Qed.

Lemma wire_gfield ns p : wire ns (gfield [] false p) = [gfield ns true p].
Proof.
  destruct p as [f vs]. unfold gfield; cbn [fst snd]. rewrite wire_elem. cbn [nspace nlocal is_nil app].
  rewrite wire_attrs_field. rewrite !flat_map_app.
  rewrite (wire_map ns (gleaf [] false (str "value")) (gleaf ns true (str "value"))) by (intro; apply wire_gleaf).
  assert (E1 : flat_map (wire ns) (if is_nil (desc f) then [] else [gleaf [] false (str "desc") (desc f)]) =
               if is_nil (desc f) then [] else [gleaf ns true (str "desc") (desc f)]).
  { destruct (desc f); [reflexivity|]. cbn [is_nil flat_map]. rewrite wire_gleaf. reflexivity. }
  assert (E2 : flat_map (wire ns) (if required f then [Elem (mkname [] (str "required")) [] []] else []) =
               if required f then [Elem (mkname ns (str "required")) [] []] else []).
  { destruct (required f); reflexivity. }
  assert (E3 : flat_map (wire ns) (if is_list (typ f) then map (goption [] false) (options f) else []) =
               if is_list (typ f) then map (goption ns true) (options f) else []).
  { destruct (is_list (typ f)); [|reflexivity]. apply wire_map. intro; apply wire_goption. }
  rewrite E1, E2, E3. rewrite merge_text_elems; [reflexivity|].
  rewrite !forallb_app. rewrite is_elem_map by reflexivity.
  destruct (desc f), (required f), (is_list (typ f)); cbn; rewrite ?is_elem_map by reflexivity; reflexivity.
Qed.

Lemma wire1_gform d ps :
  wire1 (gform [] false [at_ (str "type") (dtyp d)] d ps) =
  gform ns_form true [xmlns_attr ns_form; at_ (str "type") (dtyp d)] d ps.
Proof.
  unfold gform. rewrite wire1_elem. cbn [x_name nspace nlocal]. change (is_nil ns_form) with false. cbv iota.
  cbn [app wire_attrs filter aname at_ ln nlocal is_nil negb].
  rewrite !flat_map_app.
  rewrite (wire_map ns_form (gleaf [] false (str "instructions")) (gleaf ns_form true (str "instructions")))
    by (intro; apply wire_gleaf).
  rewrite (wire_map ns_form (gfield [] false) (gfield ns_form true)) by (intro; apply wire_gfield).
  assert (E1 : flat_map (wire ns_form) (if is_nil (title d) then [] else [gleaf [] false (str "title") (space_replace (title d))]) =
               if is_nil (title d) then [] else [gleaf ns_form true (str "title") (space_replace (title d))]).
  { destruct (title d); [reflexivity|]. cbn [is_nil flat_map]. rewrite wire_gleaf. reflexivity. }
  rewrite E1. rewrite merge_text_elems; [reflexivity|].
  rewrite !forallb_app, !is_elem_map by (intros; reflexivity). destruct (title d); reflexivity.
Qed.

(* ---- decoding a field ---- *)

Definition fld_upd_v (l : list bytes) (f : field) : field :=
  mkfld (typ f) (var f) (label f) (desc f) l (options f) (required f).
Definition fld_upd_o (l : list fopt) (f : field) : field :=
  mkfld (typ f) (var f) (label f) (desc f) (value f) l (required f).

Lemma field_value_child ns e v a :
  set_child field_fields (gleaf ns e (str "value") v) a = Ok (fld_upd_v (value a ++ [v]) a).
Proof.
  change (set_child field_fields (gleaf ns e (str "value") v) a)
    with (Ok (fld_upd_v (value a ++ [payload_text (gleaf ns e (str "value") v)]) a) : res field).
  rewrite payload_gleaf. reflexivity.
Qed.

Lemma option_un ns e o : unmarshal_struct None opt_fields (mkopt [] []) (goption ns e o) = Ok o.
Proof.
  destruct o as [l v]. unfold goption; cbn [o_label o_value]. rewrite unmarshal_struct_elem.
  cbn [check_xmlname]. cbn -[gleaf payload_text].
  change (bind (Ok (mkopt l (payload_text (gleaf ns e (str "value") v)))) (fun a => Ok a) = Ok (mkopt l v)).
  rewrite payload_gleaf. reflexivity.
Qed.

Lemma field_option_child ns e o a :
  set_child field_fields (goption ns e o) a = Ok (fld_upd_o (options a ++ [o]) a).
Proof.
  change (set_child field_fields (goption ns e o) a)
    with (bind (unmarshal_struct None opt_fields (mkopt [] []) (goption ns e o))
               (fun x => Ok (fld_upd_o (options a ++ [x]) a))).
  rewrite option_un. reflexivity.
Qed.

Lemma field_attrs_set f :
  set_attrs field_fields (field_attrs f) (mkfld [] [] [] [] [] [] false) =
  Ok (mkfld (typ f) (var f) (label f) [] [] [] false).
Proof. unfold field_attrs. destruct (var f), (label f); reflexivity. Qed.

Lemma unmarshal_gfield ns e f vs : unmarshal_field (gfield ns e (f, vs)) = Ok (norm_field f vs).
Proof.
  unfold unmarshal_field, gfield; cbn [fst snd]. rewrite unmarshal_struct_elem. cbn [check_xmlname].
  rewrite field_attrs_set. cbn [bind].
  rewrite set_children_app.
  (* desc *)
  assert (E1 : set_children field_fields (if is_nil (desc f) then [] else [gleaf ns e (str "desc") (desc f)])
                 (mkfld (typ f) (var f) (label f) [] [] [] false) =
               Ok (mkfld (typ f) (var f) (label f) (desc f) [] [] false)).
  { destruct (desc f) as [|c r] eqn:Ed; [reflexivity|]. cbn [is_nil].
    change (set_children field_fields [gleaf ns e (str "desc") (c :: r)] (mkfld (typ f) (var f) (label f) [] [] [] false))
      with (Ok (mkfld (typ f) (var f) (label f) (payload_text (gleaf ns e (str "desc") (c :: r))) [] [] false) : res field).
    rewrite payload_gleaf. reflexivity. }
  rewrite E1. cbn [bind]. rewrite set_children_app.
  assert (E2 : set_children field_fields (if required f then [Elem (mkname ns (str "required")) [] []] else [])
                 (mkfld (typ f) (var f) (label f) (desc f) [] [] false) =
               Ok (mkfld (typ f) (var f) (label f) (desc f) [] [] (required f))).
  { destruct (required f); reflexivity. }
  rewrite E2. cbn [bind]. rewrite set_children_app.
  rewrite (set_children_map_snoc field_fields (gleaf ns e (str "value")) value fld_upd_v vs _
             (field_value_child ns e)) by reflexivity.
  cbn [bind].
  assert (E3 : forall a, options a = [] ->
               set_children field_fields (if is_list (typ f) then map (goption ns e) (options f) else []) a =
               Ok (fld_upd_o (if is_list (typ f) then options f else []) a)).
  { intros a Ha. destruct (is_list (typ f)).
    - rewrite (set_children_map_snoc field_fields (goption ns e) options fld_upd_o (options f) a
                 (field_option_child ns e)) by reflexivity.
      rewrite Ha. destruct a; cbn in Ha; subst. destruct (options f); reflexivity.
    - destruct a; cbn in Ha; subst. reflexivity. }
  rewrite E3 by (destruct vs; reflexivity). cbn [bind].
  unfold set_chardata. cbn [find_kind field_fields f_str f_sub f_kind]. cbn [rmap bind].
  unfold norm_field. destruct vs; cbn [fld_upd_v fld_upd_o typ var label desc value options required app];
    destruct (is_nil (typ f)); reflexivity.
Qed.

(* ---- decoding the form ---- *)

Lemma unmarshal_kids_app a b d : unmarshal_kids (a ++ b) d = bind (unmarshal_kids a d) (unmarshal_kids b).
Proof.
  revert d. induction a as [|k r IH]; intro d; cbn [app unmarshal_kids]; [reflexivity|].
  destruct k as [n x ks|t|m t]; [|apply IH|reflexivity].
  destruct (beq (nlocal n) (str "title")); [apply IH|].
  destruct (beq (nlocal n) (str "instructions")); [apply IH|].
  destruct (beq (nlocal n) (str "field")); [|reflexivity].
  destruct (unmarshal_field _); cbn [bind]; auto.
Qed.

Definition with_instr (s : bytes) (d : data) : data := mkdata (title d) s (dtyp d) (fields d) (values d).
Definition with_fields (l : list field) (d : data) : data := mkdata (title d) (instructions d) (dtyp d) l (values d).

Fixpoint join_acc (acc : bytes) (ls : list bytes) : bytes :=
  match ls with [] => acc | l :: r => join_acc (acc ++ nl :: l) r end.

Lemma kids_instr_acc ns e ls d : instructions d <> [] ->
  unmarshal_kids (map (gleaf ns e (str "instructions")) ls) d = Ok (with_instr (join_acc (instructions d) ls) d).
Proof.
  revert d. induction ls as [|l r IH]; intros d Hd; cbn [map join_acc].
  - destruct d; reflexivity.
  - change (unmarshal_kids (gleaf ns e (str "instructions") l :: map (gleaf ns e (str "instructions")) r) d)
      with (unmarshal_kids (map (gleaf ns e (str "instructions")) r)
              (mkdata (title d)
                 (if is_nil (instructions d) then payload_text (gleaf ns e (str "instructions") l)
                  else instructions d ++ nl :: payload_text (gleaf ns e (str "instructions") l))
                 (dtyp d) (fields d) (values d))).
    rewrite payload_gleaf. destruct (instructions d) as [|c i] eqn:Ei; [contradiction|]. cbn [is_nil].
    rewrite IH by (cbn; discriminate). reflexivity.
Qed.

Lemma join_acc_join a ls : a <> [] -> join_acc a ls = join_nl (a :: ls).
Proof.
  revert a. induction ls as [|l r IH]; intros a Ha; cbn [join_acc]; [reflexivity|].
  rewrite IH by (destruct a; discriminate).
  destruct a as [|c a']; [contradiction|]. cbn [join_nl].
  destruct r; cbn [join_nl]; rewrite <- ?app_assoc; reflexivity.
Qed.

Lemma kids_instr ns e ls d : instructions d = [] -> Forall (fun l => l <> []) ls ->
  unmarshal_kids (map (gleaf ns e (str "instructions")) ls) d = Ok (with_instr (join_nl ls) d).
Proof.
  intros Hd Hl. destruct ls as [|l r]; [destruct d; cbn in Hd; subst; reflexivity|].
  inversion Hl as [|x y Hx Hy]; subst. cbn [map].
  change (unmarshal_kids (gleaf ns e (str "instructions") l :: map (gleaf ns e (str "instructions")) r) d)
    with (unmarshal_kids (map (gleaf ns e (str "instructions")) r)
            (mkdata (title d)
               (if is_nil (instructions d) then payload_text (gleaf ns e (str "instructions") l)
                else instructions d ++ nl :: payload_text (gleaf ns e (str "instructions") l))
               (dtyp d) (fields d) (values d))).
  rewrite payload_gleaf, Hd. cbn [is_nil].
  rewrite kids_instr_acc by (cbn; exact Hx). cbn [instructions].
  rewrite join_acc_join by exact Hx. destruct d; reflexivity.
Qed.

Lemma kids_fields ns e ps d :
  unmarshal_kids (map (gfield ns e) ps) d =
  Ok (with_fields (fields d ++ map (fun p => norm_field (fst p) (snd p)) ps) d).
Proof.
  revert d. induction ps as [|[f vs] r IH]; intro d; cbn [map].
  - rewrite app_nil_r. destruct d; reflexivity.
  - change (unmarshal_kids (gfield ns e (f, vs) :: map (gfield ns e) r) d)
      with (bind (unmarshal_field (gfield ns e (f, vs)))
              (fun x => unmarshal_kids (map (gfield ns e) r)
                          (mkdata (title d) (instructions d) (dtyp d) (fields d ++ [x]) (values d)))).
    rewrite unmarshal_gfield. cbn [bind]. rewrite IH. cbn [fields fst snd]. rewrite <- app_assoc. destruct d; reflexivity.
Qed.

Definition norm_of (d : data) (ps : list (field * list bytes)) : data :=
  mkdata (space_replace (title d)) (join_nl (nonempty_runs (instructions d))) (dtyp d)
         (map (fun p => norm_field (fst p) (snd p)) ps) (Some []).

Lemma unmarshal_gform ns e xattrs d ps : attr_local (str "type") xattrs = Some (dtyp d) ->
  unmarshal (gform ns e xattrs d ps) = Ok (norm_of d ps).
Proof.
  intro Ht. unfold unmarshal, unmarshal_into, gform. rewrite Ht. rewrite unmarshal_kids_app.
  assert (E1 : unmarshal_kids (if is_nil (title d) then [] else [gleaf ns e (str "title") (space_replace (title d))])
                 (mkdata (title zero_data) (instructions zero_data) (dtyp d) (fields zero_data) (Some [])) =
               Ok (mkdata (space_replace (title d)) [] (dtyp d) [] (Some []))).
  { destruct (title d) as [|c r] eqn:Et; [reflexivity|]. cbn [is_nil].
    change (Ok (mkdata (payload_text (gleaf ns e (str "title") (space_replace (c :: r)))) [] (dtyp d) [] (Some [])) =
            Ok (mkdata (space_replace (c :: r)) [] (dtyp d) [] (Some []))).
    rewrite payload_gleaf. reflexivity. }
  rewrite E1. cbn [bind]. rewrite unmarshal_kids_app.
  rewrite kids_instr; [|reflexivity|].
  2:{ pose proof (nonempty_runs_spec (instructions d)) as H. eapply Forall_impl; [|exact H]. intros a [_ Ha]; exact Ha. }
  cbn [bind]. rewrite kids_fields. reflexivity.
Qed.

Section WithJid.
  Variable jp : bytes -> res bytes.

  Fixpoint field_vals (fs : list field) : res (list (field * list bytes)) :=
    match fs with
    | [] => Ok []
    | f :: r => bind (emit_values jp (typ f) false (value f)) (fun vs => rmap (cons (f, vs)) (field_vals r))
    end.

  Lemma field_tree_g f :
    field_tree jp f = bind (emit_values jp (typ f) false (value f)) (fun vs => Ok (gfield [] false (f, vs))).
  Proof. reflexivity. Qed.

  Lemma field_trees_vals fs : field_trees jp fs = rmap (map (gfield [] false)) (field_vals fs).
  Proof.
    induction fs as [|f r IH]; cbn [field_trees field_vals]; [reflexivity|].
    rewrite field_tree_g. destruct (emit_values jp (typ f) false (value f)); cbn [bind rmap]; try reflexivity.
    rewrite IH. destruct (field_vals r); reflexivity.
  Qed.

  Lemma norm_fields_vals fs :
    norm_fields jp fs = rmap (map (fun p => norm_field (fst p) (snd p))) (field_vals fs).
  Proof.
    induction fs as [|f r IH]; cbn [norm_fields field_vals]; [reflexivity|].
    destruct (emit_values jp (typ f) false (value f)); cbn [bind rmap]; try reflexivity.
    rewrite IH. destruct (field_vals r); reflexivity.
  Qed.

  (* one encode/decode, through the token stream or through the document,
     yields the normal form *)
  Lemma form_roundtrip d t : token_reader jp d = Ok t ->
    exists n, norm jp d = Ok n /\ unmarshal t = Ok n /\ unmarshal (wire1 t) = Ok n.
  Proof.
    unfold token_reader, norm. destruct (emitted_fields jp d (fields d)) as [fs| | |]; cbn [bind]; try discriminate.
    rewrite field_trees_vals, norm_fields_vals.
    destruct (field_vals fs) as [ps| | |]; cbn [bind rmap]; try discriminate.
    intro E. inversion E as [Et]. clear E.
    exists (norm_of d ps). split; [reflexivity|].
    change (Elem x_name [at_ (str "type") (dtyp d)]
              ((if is_nil (title d) then [] else [leaf (str "title") (space_replace (title d))]) ++
               map (leaf (str "instructions")) (nonempty_runs (instructions d)) ++ map (gfield [] false) ps))
      with (gform [] false [at_ (str "type") (dtyp d)] d ps).
    split.
    - apply unmarshal_gform. reflexivity.
    - rewrite wire1_gform. apply unmarshal_gform. reflexivity.
  Qed.

  (* both decoding paths agree, whatever the form *)
  Lemma form_paths_agree d t : token_reader jp d = Ok t -> unmarshal (wire1 t) = unmarshal t.
  Proof. intro H. destruct (form_roundtrip d t H) as [n [_ [H1 H2]]]. rewrite H1, H2. reflexivity. Qed.
End WithJid.
