(* C19/Form.v — executable model of mellium.im/xmpp/form (form.go, fields.go,
   options.go): constructors, Set, Get, Submit, TokenReader (= WriteXML =
   MarshalXML) and UnmarshalXML of form.Data, at token-tree level.

   Partial Go operations are explicit: a slice expression with a computed
   bound, an assignment into a possibly nil map and a method call through a
   possibly nil *Data yield [Panic] when the Go operation would panic, so
   that "never panics" is a statement to be proved, not a by-product of
   totality. jid.Parse is an oracle [jp] (canonical string of the parsed
   address, or an error). *)
From XV Require Import lib.Bytes lib.Xml lib.Schema.

Definition ns_form : bytes := str "jabber:x:data".

Definition t_boolean := str "boolean".
Definition t_fixed := str "fixed".
Definition t_hidden := str "hidden".
Definition t_jid_multi := str "jid-multi".
Definition t_jid := str "jid-single".
Definition t_list_multi := str "list-multi".
Definition t_list := str "list-single".
Definition t_text_multi := str "text-multi".
Definition t_text_private := str "text-private".
Definition t_text := str "text-single".

Definition ty_form := str "form".
Definition ty_submit := str "submit".
Definition ty_cancel := str "cancel".
Definition ty_result := str "result".

Record fopt := mkopt { o_label : bytes; o_value : bytes }.

Record field := mkfld {
  typ : bytes; var : bytes; label : bytes; desc : bytes;
  value : list bytes; options : list fopt; required : bool }.

(* dynamic values passed to Set / returned by Get (interface{}) *)
Inductive fval :=
| VNil                       (* untyped nil *)
| VBool (b : bool)
| VStr (s : bytes)
| VJid (j : bytes)           (* jid.JID, as its String() *)
| VJids (l : list bytes)     (* []jid.JID *)
| VStrs (l : list bytes)     (* []string *)
| VOther.                    (* any other dynamic type *)

Record data := mkdata {
  title : bytes; instructions : bytes; dtyp : bytes;
  fields : list field;
  values : option (list (bytes * fval)) }.   (* None: nil map *)

Definition beq := bytes_eqb.

(* ---- constructors (options.go, fields.go, New, Cancel) ---- *)

Inductive fieldopt := ORequired | ODesc (s : bytes) | OValue (s : bytes) | OLabel (s : bytes)
                    | OListItem (l v : bytes).

Inductive formopt :=
| FTitle (s : bytes) | FInstr (s : bytes) | FResult
| FField (ty id : bytes) (opts : list fieldopt).

Definition apply_fieldopt (f : field) (o : fieldopt) : field :=
  match o with
  | ORequired => mkfld (typ f) (var f) (label f) (desc f) (value f) (options f) true
  | ODesc s => mkfld (typ f) (var f) (label f) s (value f) (options f) (required f)
  | OValue s => mkfld (typ f) (var f) (label f) (desc f) (value f ++ [s]) (options f) (required f)
  | OLabel s => mkfld (typ f) (var f) s (desc f) (value f) (options f) (required f)
  | OListItem l v => mkfld (typ f) (var f) (label f) (desc f) (value f) (options f ++ [mkopt l v]) (required f)
  end.

Definition new_field (ty id : bytes) (opts : list fieldopt) : field :=
  fold_left apply_fieldopt opts (mkfld ty id [] [] [] [] false).

Definition apply_formopt (d : data) (o : formopt) : data :=
  match o with
  | FTitle s => mkdata s (instructions d) (dtyp d) (fields d) (values d)
  | FInstr s => mkdata (title d) s (dtyp d) (fields d) (values d)
  | FResult => mkdata (title d) (instructions d) ty_result (fields d) (values d)
  | FField ty id opts => mkdata (title d) (instructions d) (dtyp d) (fields d ++ [new_field ty id opts]) (values d)
  end.

Definition new_form (opts : list formopt) : data :=
  fold_left apply_formopt opts (mkdata [] [] ty_form [] (Some [])).

Definition cancel_form (t i : bytes) : data :=
  let d := new_form [FTitle t; FInstr i] in
  mkdata (title d) (instructions d) ty_cancel (fields d) (values d).

Definition zero_data : data := mkdata [] [] [] [] None.

(* ---- Get ---- *)

Fixpoint assoc (k : bytes) (m : list (bytes * fval)) : option fval :=
  match m with
  | [] => None
  | (k', v) :: r => if beq k k' then Some v else assoc k r
  end.

Fixpoint find_field (id : bytes) (fs : list field) : option field :=
  match fs with
  | [] => None
  | f :: r => if beq (var f) id then Some f else find_field id r
  end.

Fixpoint first_bool (vs : list bytes) : fval * bool :=
  match vs with
  | [] => (VBool false, false)
  | v :: r => if beq v (str "false") || beq v (str "0") then (VBool false, true)
              else if beq v (str "true") || beq v (str "1") then (VBool true, true)
              else first_bool r
  end.

Section WithJid.
  Variable jp : bytes -> res bytes.

  Fixpoint first_jid (vs : list bytes) : res (fval * bool) :=
    match vs with
    | [] => Ok (VJid [], false)
    | v :: r => match jp v with
                | Ok j => Ok (VJid j, true)
                | Err => first_jid r
                | Panic => Panic
                | Miss => Miss
                end
    end.

  Fixpoint all_jids (vs : list bytes) : res (list bytes) :=
    match vs with
    | [] => Ok []
    | v :: r => match jp v with
                | Ok j => rmap (cons j) (all_jids r)
                | Err => all_jids r
                | Panic => Panic
                | Miss => Miss
                end
    end.

  Fixpoint join_nl (vs : list bytes) : bytes :=
    match vs with
    | [] => []
    | [v] => v
    | v :: r => v ++ "010"%byte :: join_nl r
    end.

  Definition field_default (f : field) : res (fval * bool) :=
    let t := typ f in
    if beq t t_fixed then Ok (VStr [], false)
    else if beq t t_boolean then Ok (first_bool (value f))
    else if beq t t_text || beq t t_text_private || beq t t_hidden || beq t t_list || is_nil t then
      match value f with [] => Ok (VStr [], false) | v :: _ => Ok (VStr v, true) end
    else if beq t t_jid then first_jid (value f)
    else if beq t t_jid_multi then
      bind (all_jids (value f)) (fun l => Ok (VJids l, negb (is_nil l)))
    else if beq t t_text_multi then Ok (VStr (join_nl (value f)), negb (is_nil (value f)))
    else if beq t t_list_multi then Ok (VStrs (value f), negb (is_nil (value f)))
    else Ok (VNil, false).

  (* Data.Get; [None] is a nil receiver. [guard] is the repair (if d == nil
     { return nil, false }); the pinned tree dereferenced d *)
  Definition get_gen (guard : bool) (d : option data) (id : bytes) : res (fval * bool) :=
    match d with
    | None => if guard then Ok (VNil, false) else Panic
    | Some d =>
        match match values d with Some m => assoc id m | None => None end with
        | Some v => Ok (v, true)
        | None => match find_field id (fields d) with
                  | None => Ok (VNil, false)
                  | Some f => field_default f
                  end
        end
    end.

  Definition get := get_gen true.
  Definition get_pinned := get_gen false.

  (* ---- Set ---- *)

  Definition set_type_ok (t : bytes) (v : fval) : bool :=
    if beq t t_boolean then match v with VBool _ => true | _ => false end
    else if beq t t_text || beq t t_text_private || beq t t_hidden || beq t t_list || beq t t_text_multi then
      match v with VStr _ => true | _ => false end
    else if beq t t_jid then match v with VJid _ => true | _ => false end
    else if beq t t_jid_multi then match v with VJids _ => true | _ => false end
    else if beq t t_list_multi then match v with VStrs _ => true | _ => false end
    else true.

  Fixpoint assoc_set (k : bytes) (v : fval) (m : list (bytes * fval)) : list (bytes * fval) :=
    match m with
    | [] => [(k, v)]
    | (k', v') :: r => if beq k k' then (k, v) :: r else (k', v') :: assoc_set k v r
    end.

  (* d.values[id] = v: assignment to an entry of a nil map panics *)
  Definition map_assign (m : option (list (bytes * fval))) (id : bytes) (v : fval)
    : res (list (bytes * fval)) :=
    match m with
    | None => Panic
    | Some m => Ok (assoc_set id v m)
    end.

  (* result: new form, ok, error-returned. [alloc] is the repair
     (if d.values == nil { d.values = make(...) }); the pinned tree had none *)
  Definition set_gen (alloc : bool) (d : data) (id : bytes) (v : fval) : res (data * bool * bool) :=
    let found := find_field id (fields d) in
    let t := match found with Some f => typ f | None => [] end in
    let ok := match found with Some _ => true | None => false end in
    if beq t t_fixed && ok then Ok (d, false, true)
    else if negb (set_type_ok t v) then Ok (d, false, true)
    else
      let m := match values d with
               | None => if alloc then Some [] else None
               | Some m => Some m
               end in
      bind (map_assign m id v) (fun m' =>
      Ok (mkdata (title d) (instructions d) (dtyp d) (fields d) (Some m'), ok, false)).

  Definition set := set_gen true.
  Definition set_pinned := set_gen false.

  (* ---- TokenReader ---- *)

  Definition cr : byte := "013"%byte.
  Definition nl : byte := "010"%byte.
  Definition is_nl (c : byte) : bool := byte_eqb c cr || byte_eqb c nl.

  (* strings.NewReplacer("\r\n"," ", "\n\r"," ", "\n"," ", "\r"," ").Replace *)
  Fixpoint space_replace (s : bytes) : bytes :=
    match s with
    | [] => []
    | a :: r =>
        if is_nl a then
          match r with
          | b :: r' => if is_nl b && negb (byte_eqb a b) then " "%byte :: space_replace r'
                       else " "%byte :: space_replace r
          | [] => [" "%byte]
          end
        else a :: space_replace r
    end.

  (* the maximal runs of characters other than CR and LF *)
  Fixpoint runs (cur : bytes) (s : bytes) : list bytes :=
    match s with
    | [] => [cur]
    | c :: r => if is_nl c then cur :: runs [] r else runs (cur ++ [c]) r
    end.

  Definition nonempty_runs (s : bytes) : list bytes :=
    filter (fun l => negb (is_nil l)) (runs [] s).

  Fixpoint index_nl (s : bytes) : option nat :=
    match s with
    | [] => None
    | c :: r => if is_nl c then Some 0 else option_map S (index_nl r)
    end.

  (* typed[:idx] *)
  Definition slice_to (idx : option nat) (s : bytes) : res bytes :=
    match idx with
    | None => Panic
    | Some i => if i <=? length s then Ok (firstn i s) else Panic
    end.

  (* typed[idx+1:] *)
  Definition slice_from (idx : option nat) (s : bytes) : res bytes :=
    match idx with
    | None => Ok s             (* idx = -1: typed[0:] *)
    | Some i => if S i <=? length s then Ok (skipn (S i) s) else Panic
    end.

  (* the text-multi line loop of TokenReader (after the repair: the loop ends
     when no separator is left, keeping a non-empty remainder) *)
  Fixpoint split_lines (fuel : nat) (typed : bytes) (lines : list bytes) : res (list bytes) :=
    match fuel with
    | O => Miss
    | S fuel' =>
        let idx := index_nl typed in
        match idx with
        | None => Ok (if is_nil typed then lines else lines ++ [typed])
        | Some _ =>
            bind (slice_to idx typed) (fun line =>
            bind (slice_from idx typed) (fun rest =>
            split_lines fuel' rest (lines ++ [line])))
        end
    end.

  (* the loop as it was on the pinned tree: with no separator left and nothing
     remaining it falls through to typed[:-1] *)
  Fixpoint split_lines_pinned (fuel : nat) (typed : bytes) (lines : list bytes) : res (list bytes) :=
    match fuel with
    | O => Miss
    | S fuel' =>
        let idx := index_nl typed in
        match idx, is_nil typed with
        | None, false => Ok (lines ++ [typed])
        | _, _ =>
            bind (slice_to idx typed) (fun line =>
            bind (slice_from idx typed) (fun rest =>
            split_lines_pinned fuel' rest (lines ++ [line])))
        end
    end.

  Definition leaf (local text : bytes) : tree := Elem (ln local) [] [Text text].

  Definition is_multi (t : bytes) : bool := beq t t_list_multi || beq t t_jid_multi || beq t t_text_multi.

  Definition bool_text (v : bytes) : bool :=
    beq v (str "true") || beq v (str "false") || beq v (str "0") || beq v (str "1").

  (* the value loop of field.TokenReader: returns the values written *)
  Fixpoint emit_values (t : bytes) (first : bool) (vs : list bytes) : res (list bytes) :=
    match vs with
    | [] => Ok []
    | v :: r =>
        if is_nil v then emit_values t first r
        else if first && negb (is_multi t) then Ok []
        else if beq t t_boolean && negb (bool_text v) then emit_values t first r
        else if beq t t_jid || beq t t_jid_multi then
          match jp v with
          | Ok _ => rmap (cons v) (emit_values t true r)
          | Err => emit_values t first r
          | Panic => Panic
          | Miss => Miss
          end
        else rmap (cons v) (emit_values t true r)
    end.

  Definition is_list (t : bytes) : bool := beq t t_list || beq t t_list_multi.

  Definition option_tree (o : fopt) : tree :=
    Elem (ln (str "option")) [at_ (str "label") (o_label o)] [leaf (str "value") (o_value o)].

  Definition field_attrs (f : field) : list attr :=
    [at_ (str "type") (typ f)] ++
    (if is_nil (var f) then [] else [at_ (str "var") (var f)]) ++
    (if is_nil (label f) then [] else [at_ (str "label") (label f)]).

  Definition field_tree (f : field) : res tree :=
    bind (emit_values (typ f) false (value f)) (fun vs =>
    Ok (Elem (ln (str "field")) (field_attrs f)
          ((if is_nil (desc f) then [] else [leaf (str "desc") (desc f)]) ++
           (if required f then [Elem (ln (str "required")) [] []] else []) ++
           map (leaf (str "value")) vs ++
           (if is_list (typ f) then map option_tree (options f) else [])))).

  Definition with_value (f : field) (vs : list bytes) : field :=
    mkfld (typ f) (var f) (label f) (desc f) vs (options f) (required f).

  (* the per-field part of Data.TokenReader for a form of type submit:
     None = field skipped *)
  Definition submit_field (d : data) (f : field) : res (option field) :=
    if beq (typ f) t_fixed then Ok None
    else
      bind (get (Some d) (var f)) (fun '(vv, isset) =>
      if negb (required f) && negb isset then Ok None
      else match vv with
           | VStrs l => Ok (Some (with_value f l))
           | VStr s =>
               if beq (typ f) t_text_multi
               then bind (split_lines (S (length s)) s []) (fun ls => Ok (Some (with_value f ls)))
               else Ok (Some (with_value f [s]))
           | VJid j => Ok (Some (with_value f [j]))
           | VJids l => Ok (Some (with_value f l))
           | VBool b => Ok (Some (with_value f [fmt_bool b]))
           | VNil | VOther => Ok (Some f)
           end).

  Fixpoint emitted_fields (d : data) (fs : list field) : res (list field) :=
    match fs with
    | [] => Ok []
    | f :: r =>
        bind (if beq (dtyp d) ty_submit then submit_field d f else Ok (Some f)) (fun o =>
        bind (emitted_fields d r) (fun l =>
        Ok (match o with Some f' => f' :: l | None => l end)))
    end.

  Fixpoint field_trees (fs : list field) : res (list tree) :=
    match fs with
    | [] => Ok []
    | f :: r => bind (field_tree f) (fun t => rmap (cons t) (field_trees r))
    end.

  Definition x_name : name := mkname ns_form (str "x").

  Definition token_reader (d : data) : res tree :=
    bind (emitted_fields d (fields d)) (fun fs =>
    bind (field_trees fs) (fun fts =>
    Ok (Elem x_name [at_ (str "type") (dtyp d)]
          ((if is_nil (title d) then [] else [leaf (str "title") (space_replace (title d))]) ++
           map (leaf (str "instructions")) (nonempty_runs (instructions d)) ++
           fts)))).

  (* ---- Submit ---- *)

  Fixpoint all_required_set (d : data) (fs : list field) : res bool :=
    match fs with
    | [] => Ok true
    | f :: r =>
        bind (if required f then rmap snd (get (Some d) (var f)) else Ok true) (fun b =>
        rmap (andb b) (all_required_set d r))
    end.

  (* Data.Submit; None is a nil receiver *)
  Definition submit (d : option data) : res (tree * bool) :=
    let d := match d with Some d => d | None => zero_data end in
    let s := mkdata [] [] ty_submit (fields d) (values d) in
    bind (all_required_set s (fields s)) (fun ok =>
    bind (token_reader s) (fun t => Ok (t, ok))).

  (* ---- UnmarshalXML ---- *)

  Definition opt_fields : list (Schema.field fopt) :=
    [ f_str KAttr [] (str "label") (fun s o => mkopt s (o_value o));
      f_str KElem [] (str "value") (fun s o => mkopt (o_label o) s) ].

  Definition field_fields : list (Schema.field field) :=
    [ f_str KAttr [] (str "type") (fun s f => mkfld s (var f) (label f) (desc f) (value f) (options f) (required f));
      f_str KAttr [] (str "label") (fun s f => mkfld (typ f) (var f) s (desc f) (value f) (options f) (required f));
      f_str KAttr [] (str "var") (fun s f => mkfld (typ f) s (label f) (desc f) (value f) (options f) (required f));
      f_str KElem [] (str "desc") (fun s f => mkfld (typ f) (var f) (label f) s (value f) (options f) (required f));
      f_str KElem [] (str "required") (fun _ f => mkfld (typ f) (var f) (label f) (desc f) (value f) (options f) true);
      f_str KElem [] (str "value") (fun s f => mkfld (typ f) (var f) (label f) (desc f) (value f ++ [s]) (options f) (required f));
      f_sub KElem [] (str "option") (unmarshal_struct None opt_fields (mkopt [] []))
            (fun o f => mkfld (typ f) (var f) (label f) (desc f) (value f) (options f ++ [o]) (required f)) ].

  Definition unmarshal_field (t : tree) : res field :=
    rmap (fun f => if is_nil (typ f) then mkfld t_text (var f) (label f) (desc f) (value f) (options f) (required f) else f)
         (unmarshal_struct None field_fields (mkfld [] [] [] [] [] [] false) t).

  (* the token loop over the children of the form element *)
  Fixpoint unmarshal_kids (kids : list tree) (d : data) : res data :=
    match kids with
    | [] => Ok d
    | Text _ :: r => unmarshal_kids r d
    | Misc _ _ :: _ => Err
    | (Elem n _ ks as c) :: r =>
        let l := nlocal n in
        if beq l (str "title") then
          unmarshal_kids r (mkdata (direct_text ks) (instructions d) (dtyp d) (fields d) (values d))
        else if beq l (str "instructions") then
          let s := direct_text ks in
          unmarshal_kids r (mkdata (title d)
                              (if is_nil (instructions d) then s else instructions d ++ nl :: s)
                              (dtyp d) (fields d) (values d))
        else if beq l (str "field") then
          bind (unmarshal_field c) (fun f =>
          unmarshal_kids r (mkdata (title d) (instructions d) (dtyp d) (fields d ++ [f]) (values d)))
        else Err
    end.

  (* Data.UnmarshalXML into an existing value [d0] *)
  Definition unmarshal_into (d0 : data) (t : tree) : res data :=
    match t with
    | Elem n attrs kids =>
        let ty := match attr_local (str "type") attrs with Some v => v | None => dtyp d0 end in
        unmarshal_kids kids (mkdata (title d0) (instructions d0) ty (fields d0) (Some []))
    | _ => Err
    end.

  Definition unmarshal (t : tree) : res data := unmarshal_into zero_data t.

  (* ---- the documented normal form reached by one encode/decode ---- *)

  Definition norm_field (f : field) (vs : list bytes) : field :=
    mkfld (if is_nil (typ f) then t_text else typ f) (var f) (label f) (desc f) vs
          (if is_list (typ f) then options f else []) (required f).

  Fixpoint norm_fields (fs : list field) : res (list field) :=
    match fs with
    | [] => Ok []
    | f :: r => bind (emit_values (typ f) false (value f)) (fun vs =>
                rmap (cons (norm_field f vs)) (norm_fields r))
    end.

  Definition norm (d : data) : res data :=
    bind (emitted_fields d (fields d)) (fun fs =>
    bind (norm_fields fs) (fun nfs =>
    Ok (mkdata (space_replace (title d)) (join_nl (nonempty_runs (instructions d))) (dtyp d) nfs (Some [])))).
End WithJid.

(* ---- decidable equality of forms (for the case files) ---- *)

Fixpoint list_eqb {A} (eqb : A -> A -> bool) (a b : list A) : bool :=
  match a, b with
  | [], [] => true
  | x :: a', y :: b' => eqb x y && list_eqb eqb a' b'
  | _, _ => false
  end.

Definition fopt_eqb (a b : fopt) : bool := beq (o_label a) (o_label b) && beq (o_value a) (o_value b).

Definition field_eqb (a b : field) : bool :=
  beq (typ a) (typ b) && beq (var a) (var b) && beq (label a) (label b) && beq (desc a) (desc b) &&
  list_eqb beq (value a) (value b) && list_eqb fopt_eqb (options a) (options b) &&
  Bool.eqb (required a) (required b).

(* forms are compared up to their submitted values (not observable after
   decoding: UnmarshalXML always starts from an empty map) *)
Definition data_eqb (a b : data) : bool :=
  beq (title a) (title b) && beq (instructions a) (instructions b) && beq (dtyp a) (dtyp b) &&
  list_eqb field_eqb (fields a) (fields b).

Definition attr_eqb (a b : attr) : bool := name_eqb (aname a) (aname b) && beq (aval a) (aval b).

Fixpoint tree_eqb (a b : tree) : bool :=
  match a, b with
  | Elem n x k, Elem n' x' k' =>
      name_eqb n n' && list_eqb attr_eqb x x' &&
      (fix go (l l' : list tree) : bool :=
         match l, l' with
         | [], [] => true
         | t :: r, t' :: r' => tree_eqb t t' && go r r'
         | _, _ => false
         end) k k'
  | Text b, Text b' => beq b b'
  | Misc k b, Misc k' b' => Nat.eqb k k' && beq b b'
  | _, _ => false
  end.

Definition res_eqb {A} (eqb : A -> A -> bool) (a b : res A) : bool :=
  match a, b with
  | Ok x, Ok y => eqb x y
  | Err, Err | Panic, Panic => true
  | _, _ => false
  end.
