(* C19/ProofsA.v — the payload types whose XML is a fixed frame of attributes
   and text leaves: version, oob, disco items/feature/identity, RSM requests
   and sets, stanza ids, upload request, styling/receipt hints, command
   actions, pubsub conditions. *)
From Coq Require Import ZArith Lia.
From XV Require Import lib.Bytes lib.Xml lib.Schema C19.Form C19.Types C19.Spec C19.ProofsLib C19.ProofsTypes.

Arguments copy_uint : simpl never.
Arguments copy_int : simpl never.
Arguments dec : simpl never.
Arguments dec_int : simpl never.

Ltac fsafe :=
  repeat first
    [ apply Forall_nil | apply Forall_cons
    | apply f_str_safe
    | apply f_conv_safe; intro; first [apply copy_uint_safe | apply copy_int_safe | apply copy_bool_safe]
    | apply f_jid_safe; assumption ].

Ltac wf := intros o v ts E; cbn in E; inversion E; subst; clear E; apply forest_wellformed_intro; try reflexivity.

Ltac nils :=
  repeat match goal with
         | |- context [is_nil ?v] => is_var v; destruct v
         end.

(* ================= version.Query ================= *)

Lemma version_roundtrip : roundtrip version_c any (fun v => v).
Proof.
  intros o [a b c] _. eexists; split; [reflexivity|].
  unfold version_c, c_dec, version_un, version_tr, opt_leaf; cbn [v_name v_version v_os].
  destruct a, b, c; cbn; rewrite ?app_nil_r; split; reflexivity.
Qed.

Definition version_els := [mkname ns_version (str "query"); ln (str "name"); ln (str "version"); ln (str "os")].

Lemma version_wellformed : wellformed version_c version_els [].
Proof. wf. destruct v as [a b c]; destruct a, b, c; reflexivity. Qed.

Lemma version_dec_total : dec_total version_c.
Proof. intros o t _. apply unmarshal_struct_safe. fsafe. Qed.

(* ================= oob.Query / oob.Data ================= *)

Lemma oobq_roundtrip : roundtrip oobq_c any (fun v => v).
Proof.
  intros o [u d] _. eexists; split; [reflexivity|].
  unfold oobq_c, c_dec, oob_un, oob_tr, opt_leaf; cbn [oob_url oob_desc].
  destruct u, d; cbn; rewrite ?app_nil_r; split; reflexivity.
Qed.

Lemma oobx_roundtrip : roundtrip oobx_c any (fun v => v).
Proof.
  intros o [u d] _. eexists; split; [reflexivity|].
  unfold oobx_c, c_dec, oob_un, oob_tr, opt_leaf; cbn [oob_url oob_desc].
  destruct u, d; cbn; rewrite ?app_nil_r; split; reflexivity.
Qed.

Definition oobq_els := [oobq_name; ln (str "url"); ln (str "desc")].
Definition oobx_els := [oobx_name; ln (str "url"); ln (str "desc")].

Lemma oobq_wellformed : wellformed oobq_c oobq_els [].
Proof. wf. destruct v as [a b]; destruct b; reflexivity. Qed.

Lemma oobx_wellformed : wellformed oobx_c oobx_els [].
Proof. wf. destruct v as [a b]; destruct b; reflexivity. Qed.

Lemma oobq_dec_total : dec_total oobq_c.
Proof. intros o t _. apply unmarshal_struct_safe. fsafe. Qed.

Lemma oobx_dec_total : dec_total oobx_c.
Proof. intros o t _. apply unmarshal_struct_safe. fsafe. Qed.

(* ================= disco ================= *)

Arguments jid_attr : simpl never.

Lemma jid_attr_canon o j cur : jid_canon o j -> jid_attr o j cur = Ok j.
Proof.
  intros [->|H]; [reflexivity|]. unfold jid_attr. destruct j; [reflexivity|exact H].
Qed.

Lemma itemsq_roundtrip : roundtrip itemsq_c any (fun v => v).
Proof.
  intros o v _. eexists; split; [reflexivity|].
  unfold itemsq_c, c_dec, itemsq_un, itemsq_tr, opt_attr. destruct v; cbn; split; reflexivity.
Qed.

Lemma itemsq_wellformed : wellformed itemsq_c [itemsq_name] [ln (str "node")].
Proof. wf. destruct v; reflexivity. Qed.

Lemma itemsq_dec_total : dec_total itemsq_c.
Proof. intros o t _. apply unmarshal_struct_safe. fsafe. Qed.

Definition ditem_dom (o : oracles) (v : ditem) : Prop := jid_canon o (di_jid v).

Lemma ditem_roundtrip : roundtrip ditem_c ditem_dom (fun v => v).
Proof.
  intros o [j n d] H. unfold ditem_dom in H; cbn in H. eexists; split; [reflexivity|].
  unfold ditem_c, c_dec, ditem_un, ditem_tr, opt_attr; cbn [di_jid di_name di_node].
  destruct n, d; cbn; rewrite ?(jid_attr_canon o j _ H); cbn; split; reflexivity.
Qed.

Lemma ditem_wellformed : wellformed ditem_c [ditem_name] [ln (str "jid"); ln (str "node"); ln (str "name")].
Proof. wf. destruct v as [j n d]; destruct n, d; reflexivity. Qed.

Lemma ditem_dec_total : dec_total ditem_c.
Proof. intros o t H. apply unmarshal_struct_safe. fsafe. Qed.

Lemma feature_roundtrip : roundtrip feature_c any (fun v => v).
Proof. intros o v _. eexists; split; [reflexivity|]. cbn. split; reflexivity. Qed.

Lemma feature_wellformed : wellformed feature_c [feature_name] [ln (str "var")].
Proof. wf. Qed.

Lemma feature_dec_total : dec_total feature_c.
Proof. intros o t _. apply unmarshal_struct_safe. fsafe. Qed.

Lemma ident_roundtrip : roundtrip ident_c any (fun v => v).
Proof.
  intros o [c t n l] _. eexists; split; [reflexivity|].
  unfold ident_c, c_dec, ident_un, ident_tr, opt_attr; cbn [id_cat id_type id_name id_lang].
  destruct n, l; cbn; split; reflexivity.
Qed.

Lemma ident_wellformed :
  wellformed ident_c [ident_name] [ln (str "category"); ln (str "type"); ln (str "name"); mkname xml_ns (str "lang")].
Proof. wf. destruct v as [c t n l]; destruct n, l; reflexivity. Qed.

Lemma ident_dec_total : dec_total ident_c.
Proof. intros o t _. apply unmarshal_struct_safe. fsafe. Qed.

(* ================= paging ================= *)

Lemma rcount_roundtrip : roundtrip rcount_c any (fun v => v).
Proof. intros o [] _. eexists; split; [reflexivity|]. cbn. split; reflexivity. Qed.

Definition rsm_els := [set_name; ln (str "max"); ln (str "after"); ln (str "before"); ln (str "index");
                       ln (str "first"); ln (str "last"); ln (str "count")].

Lemma rcount_wellformed : wellformed rcount_c rsm_els [ln (str "index")].
Proof. wf. Qed.

Lemma rcount_dec_total : dec_total rcount_c.
Proof. intros o t _. apply unmarshal_struct_safe. fsafe. Qed.

Definition fits64 (n : N) : Prop := (n < two64)%N.

Ltac decnn n E := destruct (dec n) eqn:E; [exfalso; exact (dec_nonnil n E)|].

Lemma rnext_roundtrip : roundtrip rnext_c (fun _ v => fits64 (rn_max v)) (fun v => v).
Proof.
  intros o [m a] H. cbn in H. eexists; split; [reflexivity|].
  unfold rnext_c, c_dec, rnext_un, rnext_tr, opt_leaf; cbn [rn_max rn_after].
  destruct (0 <? m)%N eqn:E.
  - decnn m E1. destruct a; cbn; rewrite ?app_nil_r, <- E1, (copy_uint_dec m H); cbn; split; reflexivity.
  - apply N.ltb_ge in E; assert (m = 0%N) by lia; subst. destruct a; cbn; rewrite ?app_nil_r; split; reflexivity.
Qed.

Lemma rnext_wellformed : wellformed rnext_c rsm_els [ln (str "index")].
Proof. wf. destruct v as [m a]. unfold rnext_tr, opt_leaf; cbn [rn_max rn_after]. destruct (0 <? m)%N, a; reflexivity. Qed.

Lemma rnext_dec_total : dec_total rnext_c.
Proof. intros o t _. apply unmarshal_struct_safe. fsafe. Qed.

Lemma rprev_roundtrip : roundtrip rprev_c (fun _ v => fits64 (rp_max v)) (fun v => v).
Proof.
  intros o [m a] H. cbn in H. eexists; split; [reflexivity|].
  unfold rprev_c, c_dec, rprev_un, rprev_tr; cbn [rp_max rp_before].
  destruct (0 <? m)%N eqn:E.
  - decnn m E1. destruct a; cbn; rewrite ?app_nil_r, <- E1, (copy_uint_dec m H); cbn; split; reflexivity.
  - apply N.ltb_ge in E; assert (m = 0%N) by lia; subst. destruct a; cbn; rewrite ?app_nil_r; split; reflexivity.
Qed.

Lemma rprev_wellformed : wellformed rprev_c rsm_els [ln (str "index")].
Proof. wf. destruct v as [m a]. unfold rprev_tr; cbn [rp_max rp_before]. destruct (0 <? m)%N; reflexivity. Qed.

Lemma rprev_dec_total : dec_total rprev_c.
Proof. intros o t _. apply unmarshal_struct_safe. fsafe. Qed.

Lemma rindex_roundtrip : roundtrip rindex_c (fun _ v => fits64 (ri_max v) /\ fits64 (ri_index v)) (fun v => v).
Proof.
  intros o [m i] [Hm Hi]. cbn in Hm, Hi. eexists; split; [reflexivity|].
  unfold rindex_c, c_dec, rindex_un, rindex_tr; cbn [ri_max ri_index].
  pose proof (copy_uint_dec m Hm) as Cm. pose proof (copy_uint_dec i Hi) as Ci.
  decnn m E1. decnn i E2. cbn. rewrite ?app_nil_r, Cm, Ci. cbn. split; reflexivity.
Qed.

Lemma rindex_wellformed : wellformed rindex_c rsm_els [ln (str "index")].
Proof. wf. Qed.

Lemma rindex_dec_total : dec_total rindex_c.
Proof. intros o t _. apply unmarshal_struct_safe. fsafe. Qed.

Definition fits64o (n : option N) : Prop := match n with Some x => fits64 x | None => True end.

Lemma rset_roundtrip : roundtrip rset_c (fun _ v => fits64o (rs_index v) /\ fits64o (rs_count v)) (fun v => v).
Proof.
  intros o [f i l c] [Hi Hc]. cbn in Hi, Hc. eexists; split; [reflexivity|].
  unfold rset_c, c_dec, rset_un, rset_un_into, rset_tr; cbn [rs_first rs_index rs_last rs_count].
  destruct i as [i|], c as [c|]; cbn in Hi, Hc;
    try pose proof (copy_uint_dec i Hi) as Ci; try pose proof (copy_uint_dec c Hc) as Cc;
    try (decnn c E2); destruct f, l; cbn; rewrite ?app_nil_r, ?Ci; cbn; rewrite ?Cc; cbn; split; reflexivity.
Qed.

Lemma rset_wellformed : wellformed rset_c rsm_els [ln (str "index")].
Proof. wf. destruct v as [f i l c]. unfold rset_tr; cbn [rs_first rs_index rs_last rs_count]. destruct i, c; reflexivity. Qed.

Lemma first_fields_safe : Forall field_safe first_fields.
Proof. unfold first_fields, f_uint_ptr. fsafe. Qed.

Lemma rset_un_into_safe init t : safe (rset_un_into init t).
Proof.
  apply unmarshal_struct_safe. unfold rset_fields, f_uint_ptr. fsafe.
  apply f_into_safe. intros b t'. apply unmarshal_struct_safe. apply first_fields_safe.
Qed.

Lemma rset_dec_total : dec_total rset_c.
Proof. intros o t _. apply rset_un_into_safe. Qed.

(* ================= stanza.ID, stanza.OriginID ================= *)

Lemma sid_un_tr o v : jid_canon o (s_by v) -> sid_un o (sid_tr v) = Ok v /\ sid_un o (wire1 (sid_tr v)) = Ok v.
Proof.
  destruct v as [i b]; cbn [s_by]; intro H. unfold sid_un, sid_tr; cbn [s_id s_by].
  cbn. rewrite ?(jid_attr_canon o b _ H). cbn. split; reflexivity.
Qed.

Lemma sid_roundtrip : roundtrip sid_c (fun o v => jid_canon o (s_by v)) (fun v => v).
Proof. intros o v H. eexists; split; [reflexivity|]. apply sid_un_tr. exact H. Qed.

Lemma sid_wellformed : wellformed sid_c [sid_name] [ln (str "id"); ln (str "by")].
Proof. wf. Qed.

Lemma sid_un_safe o t : or_safe o -> safe (sid_un o t).
Proof. intro H. apply unmarshal_struct_safe. fsafe. Qed.

Lemma sid_dec_total : dec_total sid_c.
Proof. intros o t H. apply sid_un_safe; exact H. Qed.

Lemma oid_roundtrip : roundtrip oid_c any (fun v => v).
Proof. intros o v _. eexists; split; [reflexivity|]. cbn. split; reflexivity. Qed.

Lemma oid_wellformed : wellformed oid_c [oid_name] [ln (str "id")].
Proof. wf. Qed.

Lemma oid_dec_total : dec_total oid_c.
Proof. intros o t _. apply unmarshal_struct_safe. fsafe. Qed.

(* ================= upload.File ================= *)

Definition fits_int64 (z : Z) : Prop := (- Z.of_N two63 <= z < Z.of_N two63)%Z.

Lemma ufile_roundtrip : roundtrip ufile_c (fun _ v => fits_int64 (uf_size v)) (fun v => v).
Proof.
  intros o [n z t] H. cbn in H. eexists; split; [reflexivity|].
  unfold ufile_c, c_dec, ufile_un, ufile_tr, opt_attr; cbn [uf_name uf_size uf_type].
  pose proof (copy_int_dec_int z H) as C.
  destruct t; cbn; rewrite C; cbn; split; reflexivity.
Qed.

Lemma ufile_wellformed : wellformed ufile_c [ufile_name] [ln (str "filename"); ln (str "size"); ln (str "content-type")].
Proof. wf. destruct v as [n z t]; destruct t; reflexivity. Qed.

Lemma ufile_dec_total : dec_total ufile_c.
Proof. intros o t _. apply unmarshal_struct_safe. fsafe. Qed.

(* ================= styling.Unstyled, receipts.Requested ================= *)

(* the hint is written whatever the value: it reads back as true *)
Lemma unstyled_roundtrip : roundtrip unstyled_c any (fun _ => true).
Proof. intros o v _. eexists; split; [reflexivity|]. cbn. split; reflexivity. Qed.

Lemma unstyled_not_identity : exists o v t, c_enc unstyled_c o v = Ok [t] /\ c_dec unstyled_c o t <> Ok v.
Proof. exists (mkor (fun _ => Err) (fun _ _ => []) (fun _ _ => Err) (fun _ => Err) (fun _ => Err) (fun _ => [])), false.
  eexists; split; [reflexivity|]. cbn. discriminate. Qed.

Lemma unstyled_wellformed : wellformed unstyled_c [unstyled_name] [].
Proof. wf. Qed.

Lemma unstyled_dec_total : dec_total unstyled_c.
Proof. intros o t _. destruct t; exact I. Qed.

Lemma requested_roundtrip : forall o,
  c_enc requested_c o false = Ok [] /\
  exists t, c_enc requested_c o true = Ok [t] /\ c_dec requested_c o t = Ok true /\ c_dec requested_c o (wire1 t) = Ok true.
Proof. intro o. split; [reflexivity|]. eexists; split; [reflexivity|]. cbn. split; reflexivity. Qed.

Lemma requested_wellformed : wellformed requested_c [request_name] [].
Proof. wf. destruct v; reflexivity. Qed.

Lemma requested_dec_total : dec_total requested_c.
Proof. intros o t _. destruct t; exact I. Qed.

(* ================= commands.Actions ================= *)

Definition actions_norm (a : N) : N :=
  let a := (a mod 256)%N in
  let ex := N.land (N.shiftr a 3) 7 in
  N.lor (if N.eqb ex 1 || N.eqb ex 2 || N.eqb ex 4 then N.shiftl ex 3 else 0) (N.land a 7).

Definition all_uint8 : list N := map N.of_nat (seq 0 256).

Lemma all_uint8_complete a : (a < 256)%N -> In a all_uint8.
Proof.
  intro H. unfold all_uint8. apply in_map_iff. exists (N.to_nat a). split; [apply N2Nat.id|].
  apply in_seq. lia.
Qed.

Definition res_N_eqb (a b : res N) : bool :=
  match a, b with Ok x, Ok y => N.eqb x y | _, _ => false end.

Lemma res_N_eqb_eq a b : res_N_eqb a b = true -> a = b.
Proof. destruct a, b; cbn; try discriminate. intro H. apply N.eqb_eq in H. subst; reflexivity. Qed.

Lemma actions_table :
  forallb (fun a => res_N_eqb (actions_un (actions_tr a)) (Ok (actions_norm a)) &&
                    res_N_eqb (actions_un (wire1 (actions_tr a))) (Ok (actions_norm a))) all_uint8 = true.
Proof. vm_compute. reflexivity. Qed.

Lemma actions_mod a : actions_tr a = actions_tr (a mod 256) /\ actions_norm a = actions_norm (a mod 256).
Proof. unfold actions_tr, actions_norm. rewrite N.mod_mod by discriminate. split; reflexivity. Qed.

Lemma actions_roundtrip : roundtrip actions_c any actions_norm.
Proof.
  intros o a _. exists (actions_tr a). split; [reflexivity|].
  destruct (actions_mod a) as [E1 E2]. unfold actions_c, c_dec. rewrite E1, E2.
  assert (Hlt : (a mod 256 < 256)%N) by (apply N.mod_lt; discriminate).
  pose proof (proj1 (forallb_forall _ _) actions_table _ (all_uint8_complete _ Hlt)) as H.
  cbv beta in H. apply andb_true_iff in H. destruct H as [H1 H2].
  split; apply res_N_eqb_eq; assumption.
Qed.

Definition actions_els := [ln (str "actions"); ln (str "prev"); ln (str "next"); ln (str "complete")].

Lemma actions_wf_table :
  forallb (fun a => names_within actions_els [ln (str "execute")] (actions_tr a)) all_uint8 = true.
Proof. vm_compute. reflexivity. Qed.

Lemma actions_wellformed : wellformed actions_c actions_els [ln (str "execute")].
Proof.
  wf. cbn [forallb]. rewrite andb_true_r. rewrite (proj1 (actions_mod v)).
  assert (Hlt : (v mod 256 < 256)%N) by (apply N.mod_lt; discriminate).
  exact (proj1 (forallb_forall _ _) actions_wf_table _ (all_uint8_complete _ Hlt)).
Qed.

Lemma actions_kids_safe kids acc : safe (actions_kids kids acc).
Proof. revert acc. induction kids as [|k r IH]; intro acc; cbn; [exact I|]. destruct k; try exact I. apply IH. Qed.

Lemma actions_dec_total : dec_total actions_c.
Proof. intros o t _. destruct t; cbn; try exact I. apply actions_kids_safe. Qed.

(* ================= pubsub.Condition ================= *)

Lemma pcond_dec_total : dec_total pcond_c.
Proof. intros o t _. destruct t; exact I. Qed.

Lemma cond_index_range s l i : (cond_index s l i = 0 \/ i <= cond_index s l i < i + N.of_nat (length l))%N.
Proof.
  revert i. induction l as [|c r IH]; intro i; cbn [cond_index length]; [left; reflexivity|].
  destruct (beq c s); [right; lia|]. destruct (IH (i + 1)%N) as [H|H]; [left; exact H|right; lia].
Qed.

(* a decoded condition is 0 (unknown) or one of the 22 defined ones *)
Lemma pcond_range o t n : c_dec pcond_c o t = Ok n -> (n <= 22)%N.
Proof.
  destruct t as [m a k|b|k b]; unfold pcond_c, c_dec, pcond_un; try discriminate. intro H.
  assert (E0 : n = cond_index (nlocal m) pubsub_conditions 1) by (inversion H; reflexivity).
  destruct (cond_index_range (nlocal m) pubsub_conditions 1) as [E|E]; [rewrite E0, E; lia|].
  change (N.of_nat (length pubsub_conditions)) with 22%N in E. lia.
Qed.
