(* C19/Model.v — case records and boolean checkers used by the case files the
   harness writes; the models themselves are in C19/Form.v (data forms) and
   C19/Types.v (the other payload types), lib/Xml.v and lib/Schema.v. *)
From Coq Require Import ZArith.
From XV Require Import lib.Bytes lib.Xml lib.Schema C19.Form C19.Types.

(* ---- oracles given as finite tables; a missing entry is [Miss] ---- *)

Fixpoint lookup {V} (k : bytes) (t : list (bytes * V)) : option V :=
  match t with
  | [] => None
  | (k', v) :: r => if bytes_eqb k k' then Some v else lookup k r
  end.

Definition of_tab {V} (t : list (bytes * option V)) (s : bytes) : res V :=
  match lookup s t with
  | None => Miss
  | Some None => Err
  | Some (Some v) => Ok v
  end.

Definition miss_text : bytes := x00 :: str "MISS".

Fixpoint tab_tfmt (t : list (nat * tm * bytes)) (l : nat) (x : tm) : bytes :=
  match t with
  | [] => miss_text
  | (l', x', s) :: r => if Nat.eqb l l' && tm_eqb x x' then s else tab_tfmt r l x
  end.

Fixpoint tab_tparse (t : list (nat * bytes * option tm)) (k : nat) (s : bytes) : res tm :=
  match t with
  | [] => Miss
  | (k', s', v) :: r =>
      if Nat.eqb k k' && bytes_eqb s s' then match v with Some x => Ok x | None => Err end
      else tab_tparse r k s
  end.

Fixpoint tab_dur (t : list (Z * bytes)) (d : Z) : bytes :=
  match t with
  | [] => miss_text
  | (d', s) :: r => if Z.eqb d d' then s else tab_dur r d
  end.

Definition mk_or (jids : list (bytes * option bytes)) (tfmts : list (nat * tm * bytes))
           (tparses : list (nat * bytes * option tm)) (b64s urls : list (bytes * option bytes))
           (durs : list (Z * bytes)) : oracles :=
  mkor (of_tab jids) (tab_tfmt tfmts) (tab_tparse tparses) (of_tab b64s) (of_tab urls) (tab_dur durs).

Definition no_or : oracles := mk_or [] [] [] [] [] [].

(* ---- generic codec cases ---- *)

(* the tokens of TokenReader (a panic is an observation too) *)
Definition enc_ok {T} (c : codec T) (o : oracles) (v : T) (obs : res (list tree)) : bool :=
  res_eqb (list_eqb tree_eqb) (c_enc c o v) obs.

(* unmarshalling the element [t] into a zero value *)
Definition dec_ok {T} (c : codec T) (o : oracles) (t : tree) (obs : res T) : bool :=
  res_eqb (c_eqb c) (c_dec c o t) obs.

(* the encoder/decoder passage on a tree within the model *)
Definition wire_ok (t obs : tree) : bool :=
  negb (tree_in_model t) || tree_eqb (wire1 t) obs.

(* the zone offset text: [txt] is what package time writes for the offset with
   the layout "Z07:00", [back] the offset package time reads from it again *)
Definition tzo_ok (off : Z) (txt : bytes) (back : option Z) : bool :=
  bytes_eqb (format_tzo off) txt &&
  match back, parse_tzo txt with
  | Some b, Some p => Z.eqb p b
  | None, _ => true
  | Some _, None => false
  end.

(* ---- decoding into a destination that already holds [old] ---- *)

Definition ckey_into_ok (o : oracles) (old : ckey) (t : tree) (obs : res ckey) : bool :=
  res_eqb ckey_eqb (ckey_un_into old o t) obs.
Definition hashout_into_ok (o : oracles) (old : hashout) (t : tree) (obs : res hashout) : bool :=
  res_eqb hashout_eqb (hashout_un_into old o t) obs.
Definition delay_into_ok (o : oracles) (old : delay) (t : tree) (obs : res delay) : bool :=
  res_eqb delay_eqb (delay_un_into o old t) obs.
Definition saslerr_into_ok (o : oracles) (old : saslerr) (t : tree) (obs : res saslerr) : bool :=
  res_eqb saslerr_eqb (saslerr_un_into old t) obs.
Definition form_into_ok (o : oracles) (old : data) (t : tree) (obs : res data) : bool :=
  res_eqb data_eqb (unmarshal_into old t) obs.

(* ---- data forms ---- *)

Inductive fctor := CNew (opts : list formopt) | CCancel (t i : bytes) | CZero.
Inductive faction := ATokenReader | ASubmit.

Definition build (c : fctor) : data :=
  match c with
  | CNew opts => new_form opts
  | CCancel t i => cancel_form t i
  | CZero => zero_data
  end.

Fixpoint run_sets (jp : bytes -> res bytes) (d : data) (ops : list (bytes * fval)) : res (data * list (bool * bool)) :=
  match ops with
  | [] => Ok (d, [])
  | (id, v) :: r =>
      bind (set d id v) (fun '(d', ok, err) =>
      bind (run_sets jp d' r) (fun '(d'', l) => Ok (d'', (ok, err) :: l)))
  end.

Fixpoint run_gets (jp : bytes -> res bytes) (d : data) (ids : list bytes) : res (list (fval * bool)) :=
  match ids with
  | [] => Ok []
  | id :: r => bind (get jp (Some d) id) (fun p => rmap (cons p) (run_gets jp d r))
  end.

Record fobs := mkfobs { ob_sets : list (bool * bool); ob_gets : list (fval * bool); ob_out : res (tree * bool) }.

Definition fval_eqb (a b : fval) : bool :=
  match a, b with
  | VNil, VNil | VOther, VOther => true
  | VBool x, VBool y => Bool.eqb x y
  | VStr x, VStr y | VJid x, VJid y => beq x y
  | VJids x, VJids y | VStrs x, VStrs y => list_eqb beq x y
  | _, _ => false
  end.

Definition pair_eqb {A B} (ea : A -> A -> bool) (eb : B -> B -> bool) (x y : A * B) : bool :=
  ea (fst x) (fst y) && eb (snd x) (snd y).

(* a script: construct, Set..., Get..., then TokenReader or Submit *)
Definition form_ok (o : oracles) (c : fctor) (ops : list (bytes * fval)) (ids : list bytes)
           (act : faction) (obs : fobs) : bool :=
  let jp := o_jid o in
  match run_sets jp (build c) ops with
  | Ok (d, sets) =>
      list_eqb (pair_eqb Bool.eqb Bool.eqb) sets (ob_sets obs) &&
      res_eqb (list_eqb (pair_eqb fval_eqb Bool.eqb)) (run_gets jp d ids) (Ok (ob_gets obs)) &&
      res_eqb (pair_eqb tree_eqb Bool.eqb)
        (match act with
         | ATokenReader => rmap (fun t => (t, true)) (token_reader jp d)
         | ASubmit => submit jp (Some d)
         end) (ob_out obs)
  | _ => false
  end.

(* Submit through a nil *Data *)
Definition nil_submit_ok (obs : res (tree * bool)) : bool :=
  res_eqb (pair_eqb tree_eqb Bool.eqb) (submit (o_jid no_or) None) obs.

Definition form_c : codec data :=
  mkcodec (fun o d => bind (token_reader (o_jid o) d) one) (fun o => unmarshal) data_eqb.

Fixpoint failing {A} (ok : A -> bool) (i : nat) (l : list A) : list nat :=
  match l with
  | [] => []
  | x :: r => if ok x then failing ok (S i) r else i :: failing ok (S i) r
  end.

Definition idb (b : bool) : bool := b.
