(* C19/ProofsH.v — history.Query: the round trip. The query builds a data form
   (form.New, Set...), submits it, and wraps the submission with the RSM request
   and the flip-page flag; UnmarshalXML decodes the form and reads the filters
   back through Get. The proof goes through the closed form of the submitted
   form ([hq_sub]), the form round trip of ProofsForm2 and a case analysis on
   which filters are set. *)
From Coq Require Import ZArith Lia.
From XV Require Import lib.Bytes lib.Xml lib.Schema C19.Form C19.Types C19.Spec C19.ProofsLib C19.ProofsA C19.ProofsC
  C19.ProofsE C19.ProofsForm1 C19.ProofsForm2 C19.ProofsForm3.

(* ---- the form a query builds, in closed form ---- *)

Definition hq_F : list field :=
  fields (new_form [ FField t_hidden (str "FORM_TYPE") [OValue ns_mam]; FField t_jid (str "with") [];
                      FField t_text (str "start") []; FField t_text (str "end") [];
                      FField t_text (str "after-id") []; FField t_text (str "before-id") [];
                      FField t_list_multi (str "ids") [] ]).

Definition opt1 (c : bool) (k : bytes) (v : fval) : list (bytes * fval) := if c then [(k, v)] else [].

Definition hq_m (o : oracles) (q : hquery) : list (bytes * fval) :=
  opt1 (negb (is_nil (hq_with q))) (str "with") (VJid (hq_with q)) ++
  opt1 (negb (tm_is_zero (hq_start q))) (str "start") (VStr (o_tfmt o L_utc_nano (hq_start q))) ++
  opt1 (negb (tm_is_zero (hq_end q))) (str "end") (VStr (o_tfmt o L_utc_nano (hq_end q))) ++
  opt1 (negb (is_nil (hq_after q))) (str "after-id") (VStr (hq_after q)) ++
  opt1 (negb (is_nil (hq_before q))) (str "before-id") (VStr (hq_before q)) ++
  opt1 (negb (is_nil (hq_ids q))) (str "ids") (VStrs (hq_ids q)).

Lemma hquery_form_eq o q : hquery_form o q = mkdata [] [] ty_form hq_F (Some (hq_m o q)).
Proof.
  destruct q as [id w st en b a ids lim last pg rev].
  unfold hquery_form, hq_m; cbn [hq_with hq_start hq_end hq_before hq_after hq_ids].
  destruct (is_nil w), (tm_is_zero st), (tm_is_zero en), (is_nil a), (is_nil b), (is_nil ids); reflexivity.
Qed.

Definition hq_sub (o : oracles) (q : hquery) : data := mkdata [] [] ty_submit hq_F (Some (hq_m o q)).

Lemma hquery_submit_eq o q :
  submit (o_jid o) (Some (hquery_form o q)) = bind (token_reader (o_jid o) (hq_sub o q)) (fun t => Ok (t, true)).
Proof. unfold submit. rewrite hquery_form_eq. reflexivity. Qed.

(* ---- list-multi values: the empty ones are not written ---- *)

Definition nonnil (v : bytes) : bool := negb (is_nil v).

Lemma emit_list_multi jp first l : emit_values jp t_list_multi first l = Ok (filter nonnil l).
Proof.
  revert first. induction l as [|v r IH]; intro first; cbn [emit_values filter]; [reflexivity|].
  unfold nonnil at 1. destruct (is_nil v); cbn [negb]; [apply IH|].
  change (is_multi t_list_multi) with true. rewrite andb_false_r.
  change (beq t_list_multi t_boolean) with false. change (beq t_list_multi t_jid) with false.
  change (beq t_list_multi t_jid_multi) with false. cbn [andb orb]. rewrite IH. reflexivity.
Qed.

Lemma if_nonnil_id (l : list bytes) : (if negb (is_nil l) then l else []) = l.
Proof. destruct l; reflexivity. Qed.

(* ---- the part of UnmarshalXML after the reflection decode ---- *)

Definition hq_tail (o : oracles) (r : hq_raw) : res hquery :=
  let jp := o_jid o in
  let f := hw_form r in
  bind (get jp f (str "with")) (fun '(wv, wok) =>
  let with_ := match wv, wok with VJid j, true => j | _, _ => [] end in
  bind (get_string jp f (str "start")) (fun '(ss, sok) =>
  bind (if sok then o_tparse o P_rfc3339 ss else Ok zero_tm) (fun start =>
  bind (get_string jp f (str "end")) (fun '(es, eok) =>
  bind (if eok then o_tparse o P_rfc3339 es else Ok zero_tm) (fun end_ =>
  bind (get_string jp f (str "before-id")) (fun '(bs, _) =>
  bind (get_string jp f (str "after-id")) (fun '(as_, _) =>
  bind (get jp f (str "ids")) (fun '(iv, iok) =>
  let ids := match iv, iok with VStrs l, true => l | _, _ => [] end in
  let last := match hw_before r with Some _ => true | None => false end in
  Ok (mkhquery (hw_id r) with_ start end_ bs as_ ids (hw_max r) last
        (match hw_before r with Some b => b | None => hw_after r end) (hw_flip r)))))))))).

Lemma hquery_un_tail o t :
  hquery_un o t = bind (unmarshal_struct (Some hquery_name) (hq_fields o) (mkhqraw [] None false 0 [] None) t) (hq_tail o).
Proof. reflexivity. Qed.

(* ---- domain and normal form ---- *)

Definition tnorm (t : tm) : tm := if tm_is_zero t then zero_tm else utc t.

(* a filter time that is set is within RFC 3339 and formats to some text *)
Definition hq_time_ok (o : oracles) (t : tm) : Prop :=
  tm_is_zero t = false -> time_utc_roundtrip o t /\ o_tfmt o L_utc_nano t <> [].

Definition hq_dom (o : oracles) (q : hquery) : Prop :=
  jid_canon o (hq_with q) /\ hq_time_ok o (hq_start q) /\ hq_time_ok o (hq_end q) /\ fits64 (hq_limit q).

(* times come back in UTC (the zero time as the zero time); empty ids are not sent *)
Definition hq_norm (q : hquery) : hquery :=
  mkhquery (hq_id q) (hq_with q) (tnorm (hq_start q)) (tnorm (hq_end q)) (hq_before q) (hq_after q)
           (filter nonnil (hq_ids q)) (hq_limit q) (hq_last q) (hq_page q) (hq_reverse q).

Lemma hq_norm_tail o q raw : hq_dom o q ->
  exists n, norm (o_jid o) (hq_sub o q) = Ok n /\
    hq_tail o (mkhqraw (hw_id raw) (Some n) (hw_flip raw) (hw_max raw) (hw_after raw) (hw_before raw)) =
    Ok (mkhquery (hw_id raw) (hq_with q) (tnorm (hq_start q)) (tnorm (hq_end q)) (hq_before q) (hq_after q)
          (filter nonnil (hq_ids q)) (hw_max raw)
          (match hw_before raw with Some _ => true | None => false end)
          (match hw_before raw with Some b => b | None => hw_after raw end) (hw_flip raw)).
Proof.
  destruct q as [id w st en b a ids lim last pg rev]. intros [Hw [Hs [He _]]]. cbn in Hw, Hs, He.
  unfold hq_sub, hq_m, norm, tnorm; cbn [hq_with hq_start hq_end hq_before hq_after hq_ids].
  (* with *)
  assert (Hw' : w = [] \/ exists w0 w', w = w0 :: w' /\ o_jid o (w0 :: w') = Ok (w0 :: w')).
  { destruct w as [|w0 w']; [left; reflexivity|right]. exists w0, w'. split; [reflexivity|].
    destruct Hw as [Hw|Hw]; [discriminate|exact Hw]. }
  clear Hw.
  (* start, end *)
  assert (Hs' : tm_is_zero st = true \/ tm_is_zero st = false /\ exists f0 fs, o_tfmt o L_utc_nano st = f0 :: fs /\
                  o_tparse o P_rfc3339 (f0 :: fs) = Ok (utc st)).
  { destruct (tm_is_zero st) eqn:E; [left; reflexivity|right]. split; [reflexivity|].
    destruct (Hs E) as [Hr Hn]. unfold time_utc_roundtrip in Hr.
    destruct (o_tfmt o L_utc_nano st) as [|f0 fs]; [contradiction|]. exists f0, fs. split; [reflexivity|exact Hr]. }
  assert (He' : tm_is_zero en = true \/ tm_is_zero en = false /\ exists g0 gs, o_tfmt o L_utc_nano en = g0 :: gs /\
                  o_tparse o P_rfc3339 (g0 :: gs) = Ok (utc en)).
  { destruct (tm_is_zero en) eqn:E; [left; reflexivity|right]. split; [reflexivity|].
    destruct (He E) as [Hr Hn]. unfold time_utc_roundtrip in Hr.
    destruct (o_tfmt o L_utc_nano en) as [|g0 gs]; [contradiction|]. exists g0, gs. split; [reflexivity|exact Hr]. }
  clear Hs He.
  assert (Hi : ids = [] \/ is_nil ids = false) by (destruct ids; [left|right]; reflexivity).
  destruct Hw' as [->|[w0 [w' [-> Hw]]]];
  destruct Hs' as [Zs|[Zs [f0 [fs [Fs Ps]]]]]; rewrite Zs;
  destruct He' as [Ze|[Ze [g0 [gs [Fe Pe]]]]]; rewrite Ze;
  destruct a as [|a0 a]; destruct b as [|b0 b];
  destruct Hi as [->|Hi]; try rewrite Hi;
  cbn [is_nil negb opt1 app]; try rewrite Fs; try rewrite Fe;
  (eexists; split;
   [ cbn; try rewrite Hw; cbn;
     try match goal with |- context [emit_values ?jp ?t ?f ids] =>
           rewrite (emit_list_multi jp f ids : emit_values jp t f ids = Ok (filter nonnil ids)) end;
     cbn; reflexivity
   | unfold hq_tail; cbn; try rewrite Hw; cbn; try rewrite Ps; cbn; try rewrite Pe; cbn;
     rewrite ?if_nonnil_id; reflexivity ]).
Qed.

(* ---- the RSM request inside the query ---- *)

Arguments copy_uint : simpl never.
Arguments dec : simpl never.

Definition hq_rsm (q : hquery) : tree :=
  if hq_last q then rprev_tr (mkrprev (hq_limit q) (hq_page q)) else rnext_tr (mkrnext (hq_limit q) (hq_page q)).

Definition rsm_result (q : hquery) (r : hq_raw) : hq_raw :=
  mkhqraw (hw_id r) (hw_form r) (hw_flip r) (hq_limit q)
          (if hq_last q then [] else hq_page q) (if hq_last q then Some (hq_page q) else None).

Lemma hq_rsm_un q r : fits64 (hq_limit q) -> hw_max r = 0%N -> hw_after r = [] -> hw_before r = None ->
  unmarshal_struct (Some set_name) hq_set_fields r (hq_rsm q) = Ok (rsm_result q r) /\
  unmarshal_struct (Some set_name) hq_set_fields r (wire1 (hq_rsm q)) = Ok (rsm_result q r).
Proof.
  destruct q as [id w st en b a ids lim last pg rev]. destruct r as [rid rf rfl rmax raft rbef].
  cbn [hq_limit hw_max hw_after hw_before]. intros Hl -> -> ->.
  unfold hq_rsm, rsm_result, rprev_tr, rnext_tr, opt_leaf; cbn [hq_last hq_limit hq_page rp_max rp_before rn_max rn_after hw_id hw_form hw_flip].
  pose proof (copy_uint_dec lim Hl) as C.
  destruct last; destruct (0 <? lim)%N eqn:E.
  - decnn lim E1. destruct pg; cbn; rewrite ?app_nil_r, ?C; cbn; rewrite ?app_nil_r; split; reflexivity.
  - apply N.ltb_ge in E. assert (lim = 0%N) by lia. subst. destruct pg; cbn; rewrite ?app_nil_r; split; reflexivity.
  - decnn lim E1. destruct pg; cbn; rewrite ?app_nil_r, ?C; cbn; rewrite ?app_nil_r; split; reflexivity.
  - apply N.ltb_ge in E. assert (lim = 0%N) by lia. subst. destruct pg; cbn; rewrite ?app_nil_r; split; reflexivity.
Qed.

Lemma hq_rsm_name q : exists a k, hq_rsm q = Elem set_name a k.
Proof. unfold hq_rsm, rprev_tr, rnext_tr. destruct (hq_last q); eexists; eexists; reflexivity. Qed.

(* ---- the reflection decode of the query element ---- *)

Arguments unmarshal_into : simpl never.

Lemma hq_x_child o xa xk r n : hw_form r = None -> unmarshal (Elem x_name xa xk) = Ok n ->
  set_child (hq_fields o) (Elem x_name xa xk) r =
  Ok (mkhqraw (hw_id r) (Some n) (hw_flip r) (hw_max r) (hw_after r) (hw_before r)).
Proof.
  intros Hf Hu.
  change (set_child (hq_fields o) (Elem x_name xa xk) r)
    with (bind (unmarshal_into (match hw_form r with Some d => d | None => zero_data end) (Elem x_name xa xk))
               (fun d => Ok (mkhqraw (hw_id r) (Some d) (hw_flip r) (hw_max r) (hw_after r) (hw_before r)))).
  rewrite Hf. fold (unmarshal (Elem x_name xa xk)). rewrite Hu. reflexivity.
Qed.

Lemma hq_set_child o sa sk r :
  set_child (hq_fields o) (Elem set_name sa sk) r = unmarshal_struct (Some set_name) hq_set_fields r (Elem set_name sa sk).
Proof. reflexivity. Qed.

Lemma hq_flip_child o ns r :
  set_child (hq_fields o) (Elem (mkname ns (str "flip-page")) [] []) r =
  Ok (mkhqraw (hw_id r) (hw_form r) true (hw_max r) (hw_after r) (hw_before r)).
Proof. reflexivity. Qed.

Definition hq_flip (ns : bytes) (q : hquery) : list tree :=
  if hq_reverse q then [Elem (mkname ns (str "flip-page")) [] []] else [].

(* the query element in either form: [pre] are the attributes before queryid
   (none, or the name space declaration), [T] the RSM child (as written, or as
   the decoder sees it), [ns] the name space of the flip-page child *)
Lemma hq_struct o q (wired : bool) xa xk T ns n :
  unmarshal (Elem x_name xa xk) = Ok n ->
  (exists sa sk, T = Elem set_name sa sk) ->
  (forall r, hw_max r = 0%N -> hw_after r = [] -> hw_before r = None ->
             unmarshal_struct (Some set_name) hq_set_fields r T = Ok (rsm_result q r)) ->
  unmarshal_struct (Some hquery_name) (hq_fields o) (mkhqraw [] None false 0 [] None)
    (Elem hquery_name ((if wired then [xmlns_attr ns_mam] else []) ++ [at_ (str "queryid") (hq_id q)])
          ([Elem x_name xa xk; T] ++ hq_flip ns q)) =
  Ok (mkhqraw (hq_id q) (Some n) (hq_reverse q) (hq_limit q)
        (if hq_last q then [] else hq_page q) (if hq_last q then Some (hq_page q) else None)).
Proof.
  intros Hu [sa [sk ->]] HT.
  rewrite unmarshal_struct_elem. change (check_xmlname (Some hquery_name) hquery_name) with true. cbv iota.
  assert (Ha : set_attrs (hq_fields o) ((if wired then [xmlns_attr ns_mam] else []) ++ [at_ (str "queryid") (hq_id q)])
                 (mkhqraw [] None false 0 [] None) = Ok (mkhqraw (hq_id q) None false 0 [] None)).
  { destruct wired; reflexivity. }
  rewrite Ha. cbn [bind app].
  change (set_children (hq_fields o) (Elem x_name xa xk :: Elem set_name sa sk :: hq_flip ns q) (mkhqraw (hq_id q) None false 0 [] None))
    with (bind (set_child (hq_fields o) (Elem x_name xa xk) (mkhqraw (hq_id q) None false 0 [] None))
               (fun r => bind (set_child (hq_fields o) (Elem set_name sa sk) r) (set_children (hq_fields o) (hq_flip ns q)))).
  rewrite (hq_x_child o xa xk (mkhqraw (hq_id q) None false 0 [] None) n eq_refl Hu). cbn [bind hw_id hw_flip hw_max hw_after hw_before].
  rewrite hq_set_child, HT by reflexivity. cbn [bind]. unfold rsm_result; cbn [hw_id hw_form hw_flip].
  unfold hq_flip. destruct (hq_reverse q).
  - cbn [set_children]. rewrite hq_flip_child. reflexivity.
  - reflexivity.
Qed.

(* ---- the round trip ---- *)

Ltac rw_struct K :=
  match goal with
  | |- context [unmarshal_struct ?xn ?fs ?init ?tr] =>
      match type of K with
      | _ = ?rhs => rewrite (K : unmarshal_struct xn fs init tr = rhs)
      end
  end.

Lemma norm_ok_token_reader jp d n : norm jp d = Ok n ->
  exists ps, token_reader jp d = Ok (gform [] false [at_ (str "type") (dtyp d)] d ps).
Proof.
  unfold norm, token_reader. destruct (emitted_fields jp d (fields d)) as [fs| | |]; cbn [bind]; try discriminate.
  rewrite field_trees_vals, norm_fields_vals. destruct (field_vals jp fs) as [ps| | |]; cbn [bind rmap]; try discriminate.
  intros _. exists ps. reflexivity.
Qed.

Lemma wire1_is_elem n a k : exists a' k', wire1 (Elem n a k) = Elem n a' k'.
Proof. rewrite wire1_elem. destruct n as [s l]. eexists; eexists; reflexivity. Qed.

Lemma hquery_roundtrip : roundtrip hquery_c hq_dom hq_norm.
Proof.
  intros o q Hd.
  destruct (hq_norm_tail o q
              (mkhqraw (hq_id q) None (hq_reverse q) (hq_limit q)
                 (if hq_last q then [] else hq_page q) (if hq_last q then Some (hq_page q) else None)) Hd)
    as [n [Hn Ht]].
  cbn [hw_id hw_flip hw_max hw_after hw_before] in Ht.
  destruct (norm_ok_token_reader _ _ _ Hn) as [ps Htr].
  set (t := gform [] false [at_ (str "type") (dtyp (hq_sub o q))] (hq_sub o q) ps) in *.
  destruct (form_roundtrip (o_jid o) (hq_sub o q) t Htr) as [n' [Hn' [Hu Huw]]].
  rewrite Hn in Hn'. inversion Hn'; subst n'. clear Hn'.
  assert (Hfit : fits64 (hq_limit q)) by (destruct Hd as [_ [_ [_ H]]]; exact H).
  (* the encoding *)
  assert (Henc : c_enc hquery_c o q =
                 Ok [Elem hquery_name [at_ (str "queryid") (hq_id q)] ([t; hq_rsm q] ++ hq_flip [] q)]).
  { unfold hquery_c, c_enc, hquery_tr. rewrite hquery_submit_eq, Htr. cbn [bind one].
    unfold hq_rsm, hq_flip. destruct (hq_last q), (hq_reverse q); reflexivity. }
  eexists. split; [exact Henc|].
  assert (Elast : hq_norm q =
    mkhquery (hq_id q) (hq_with q) (tnorm (hq_start q)) (tnorm (hq_end q)) (hq_before q) (hq_after q)
      (filter nonnil (hq_ids q)) (hq_limit q)
      (match (if hq_last q then Some (hq_page q) else None) with Some _ => true | None => false end)
      (match (if hq_last q then Some (hq_page q) else None) with Some b => b | None => if hq_last q then [] else hq_page q end)
      (hq_reverse q)).
  { unfold hq_norm. destruct (hq_last q); reflexivity. }
  rewrite Elast. clear Elast.
  destruct (hq_rsm_name q) as [sa [sk Ers]].
  unfold hquery_c, c_dec. split.
  - rewrite hquery_un_tail.
    assert (K := hq_struct o q false [at_ (str "type") (dtyp (hq_sub o q))] _ (hq_rsm q) [] n Hu
                   (ex_intro _ sa (ex_intro _ sk Ers))
                   (fun r H1 H2 H3 => proj1 (hq_rsm_un q r Hfit H1 H2 H3))).
    rw_struct K. cbn [bind]. exact Ht.
  - rewrite wire1_elem. cbn [hquery_name nspace nlocal]. change (is_nil ns_mam) with false. cbv iota.
    cbn [wire_attrs filter at_ ln aname nlocal is_nil negb app].
    change (negb (is_nil (str "queryid"))) with true. cbv iota. cbn [flat_map].
    unfold t at 1, gform at 1. rewrite (wire_explicit ns_mam x_name) by reflexivity.
    fold (gform [] false [at_ (str "type") (dtyp (hq_sub o q))] (hq_sub o q) ps). fold t.
    rewrite Ers at 1. rewrite (wire_explicit ns_mam set_name) by reflexivity. rewrite <- Ers.
    assert (Efl : flat_map (wire ns_mam) (hq_flip [] q) = hq_flip ns_mam q).
    { unfold hq_flip. destruct (hq_reverse q); reflexivity. }
    rewrite Efl. rewrite ?app_nil_r.
    destruct (wire1_is_elem x_name [at_ (str "type") (dtyp (hq_sub o q))]
                ((if is_nil (title (hq_sub o q)) then [] else [gleaf [] false (str "title") (space_replace (title (hq_sub o q)))]) ++
                 map (gleaf [] false (str "instructions")) (nonempty_runs (instructions (hq_sub o q))) ++ map (gfield [] false) ps))
      as [xa' [xk' Ex]].
    change (Elem x_name [at_ (str "type") (dtyp (hq_sub o q))] _) with t in Ex.
    destruct (wire1_is_elem set_name sa sk) as [sa' [sk' Es]]. rewrite <- Ers in Es.
    rewrite Ex in Huw |- *. 
    assert (Emt : merge_text ((Elem x_name xa' xk' :: [wire1 (hq_rsm q)]) ++ hq_flip ns_mam q) =
                  [Elem x_name xa' xk'; wire1 (hq_rsm q)] ++ hq_flip ns_mam q).
    { apply merge_text_elems. rewrite Es. unfold hq_flip. destruct (hq_reverse q); reflexivity. }
    cbn [app] in Emt |- *. rewrite Emt.
    rewrite hquery_un_tail.
    assert (K := hq_struct o q true xa' xk' (wire1 (hq_rsm q)) ns_mam n Huw
                   (ex_intro _ sa' (ex_intro _ sk' Es))
                   (fun r H1 H2 H3 => proj2 (hq_rsm_un q r Hfit H1 H2 H3))).
    rw_struct K. cbn [bind]. exact Ht.
Qed.

Definition hquery_els := [hquery_name; ln (str "flip-page")] ++ form_els ++ rsm_els.
Definition hquery_ats := [ln (str "queryid"); ln (str "index")] ++ form_ats.

Lemma forallb_impl {A} (p q : A -> bool) l : (forall x, p x = true -> q x = true) -> forallb p l = true -> forallb q l = true.
Proof.
  intro H. induction l as [|x r IH]; cbn; [reflexivity|]. intro E. apply andb_true_iff in E. destruct E as [E1 E2].
  rewrite (H x E1), (IH E2). reflexivity.
Qed.

Lemma mem_app_r n l1 l2 : mem n l2 = true -> mem n (l1 ++ l2) = true.
Proof. unfold mem. rewrite existsb_app. intro H. rewrite H. apply orb_true_r. Qed.

Lemma mem_app_l n l1 l2 : mem n l1 = true -> mem n (l1 ++ l2) = true.
Proof. unfold mem. rewrite existsb_app. intro H. rewrite H. reflexivity. Qed.

Lemma names_within_mono els ats els' ats' t :
  (forall n, mem n els = true -> mem n els' = true) -> (forall n, mem n ats = true -> mem n ats' = true) ->
  names_within els ats t = true -> names_within els' ats' t = true.
Proof.
  intros He Ha. unfold names_within. intro H. apply andb_true_iff in H. destruct H as [H1 H2].
  rewrite (forallb_impl _ (fun n => existsb (name_eqb n) els') _ He H1).
  rewrite (forallb_impl _ (fun n => existsb (name_eqb n) ats') _ Ha H2). reflexivity.
Qed.

Lemma hquery_wellformed : wellformed hquery_c hquery_els hquery_ats.
Proof.
  intros o q ts E. unfold hquery_c, c_enc, hquery_tr in E. rewrite hquery_submit_eq in E.
  destruct (token_reader (o_jid o) (hq_sub o q)) as [t| | |] eqn:Et; cbn [bind] in E; try discriminate.
  cbn [one] in E. inversion E; subst ts; clear E.
  apply forest_wellformed_intro; try reflexivity. cbn [forallb]. rewrite andb_true_r.
  rewrite names_within_elem. cbn [forallb].
  assert (Ht : names_within hquery_els hquery_ats t = true).
  { destruct (form_wellformed (o_jid o) _ t Et) as [_ [_ [Hn _]]]. cbn [forallb] in Hn. rewrite andb_true_r in Hn.
    apply (names_within_mono form_els form_ats); [| |exact Hn].
    - intros n H. unfold hquery_els. apply mem_app_r, mem_app_l. exact H.
    - intros n H. unfold hquery_ats. apply mem_app_r. exact H. }
  rewrite Ht.
  assert (Hr : names_within hquery_els hquery_ats
                 (if hq_last q then rprev_tr (mkrprev (hq_limit q) (hq_page q)) else rnext_tr (mkrnext (hq_limit q) (hq_page q))) = true).
  { apply (names_within_mono rsm_els [ln (str "index")]).
    - intros n H. unfold hquery_els. apply mem_app_r, mem_app_r. exact H.
    - intros n H. unfold hquery_ats. apply mem_app_l. unfold mem in *. cbn in *. rewrite orb_false_r in H. rewrite H. apply orb_true_r.
    - destruct (hq_last q).
      + destruct (rprev_wellformed o (mkrprev (hq_limit q) (hq_page q)) _ eq_refl) as [_ [_ [Hn _]]].
        cbn [forallb] in Hn. rewrite andb_true_r in Hn. exact Hn.
      + destruct (rnext_wellformed o (mkrnext (hq_limit q) (hq_page q)) _ eq_refl) as [_ [_ [Hn _]]].
        cbn [forallb] in Hn. rewrite andb_true_r in Hn. exact Hn. }
  rewrite Hr. destruct (hq_reverse q); reflexivity.
Qed.
