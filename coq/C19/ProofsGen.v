(* C19/ProofsGen.v — the constants the models use are the ones in the source:
   gen/Payloads.v is regenerated from the repository on every check, so an edit
   of a name space, a hash name, a pubsub condition or a form type constant
   breaks one of these obligations. *)
From XV Require Import lib.Bytes lib.Xml lib.Schema gen.Payloads C19.Form C19.Types.

Definition model_ns : list (bytes * bytes) :=
  [ (str "form", ns_form); (str "version", ns_version); (str "oob_data", ns_oob_data); (str "oob_query", ns_oob_query);
    (str "disco_info", ns_info); (str "disco_items", ns_items); (str "rsm", ns_rsm); (str "delay", ns_delay);
    (str "stanza_delay", ns_delay); (str "time", ns_time); (str "forward", ns_forward); (str "reporting", ns_reporting);
    (str "upload", ns_upload); (str "bob", ns_bob); (str "file_meta", ns_meta); (str "styling", ns_styling);
    (str "receipts", ns_receipts); (str "mam", ns_mam); (str "bookmarks", ns_bookmarks); (str "hashes", ns_hashes);
    (str "trust", ns_trust); (str "sid", ns_sid) ].

Lemma namespaces_are_source : gen_payload_ns = model_ns.
Proof. vm_compute. reflexivity. Qed.

(* both directions of the hash name table are the model's single table *)
Lemma hash_table_is_source : gen_hash_parse = hash_table /\ gen_hash_string = hash_table.
Proof. split; vm_compute; reflexivity. Qed.

Lemma pubsub_conditions_are_source : gen_pubsub_conditions = pubsub_conditions.
Proof. vm_compute. reflexivity. Qed.

Definition model_form_consts : list (bytes * bytes) :=
  [ (str "TypeBoolean", t_boolean); (str "TypeFixed", t_fixed); (str "TypeHidden", t_hidden); (str "TypeJIDMulti", t_jid_multi);
    (str "TypeJID", t_jid); (str "TypeListMulti", t_list_multi); (str "TypeList", t_list); (str "TypeTextMulti", t_text_multi);
    (str "TypeTextPrivate", t_text_private); (str "TypeText", t_text);
    (str "TypeForm", ty_form); (str "TypeSubmit", ty_submit); (str "TypeCancel", ty_cancel); (str "TypeResult", ty_result) ].

Lemma form_consts_are_source : gen_form_consts = model_form_consts.
Proof. vm_compute. reflexivity. Qed.

Lemma reason_spam_is_source : gen_reason_spam = reason_spam.
Proof. vm_compute. reflexivity. Qed.

(* internal/saslerr: the names are the model's table (value = position), the
   stringer index has one entry more than there are names, and the range checks
   are the ones the model has: TokenReader writes nothing for ConditionNone and
   for c >= len-1, String switches to "Condition(n)" at the same bound, and
   UnmarshalXML tries the conditions 1 .. len-2 *)
Lemma sasl_tables_are_source :
  gen_sasl_conditions = sasl_conditions /\ gen_sasl_index_len = (sasl_count + 1)%N /\ gen_sasl_ns = ns_sasl /\
  gen_sasl_tr_check = (true, 0, 1)%N /\ gen_sasl_string_check = (0, 1)%N /\ gen_sasl_un_loop = (1, 2, 1)%N.
Proof. repeat split; vm_compute; reflexivity. Qed.

Lemma tables_are_source :
  gen_payload_ns = model_ns /\ (gen_hash_parse = hash_table /\ gen_hash_string = hash_table) /\
  gen_pubsub_conditions = pubsub_conditions /\ gen_form_consts = model_form_consts /\ gen_reason_spam = reason_spam.
Proof.
  exact (conj namespaces_are_source (conj hash_table_is_source (conj pubsub_conditions_are_source
          (conj form_consts_are_source reason_spam_is_source)))).
Qed.
