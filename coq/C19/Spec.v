(* C19/Spec.v — the shapes of the C19 statements, as definitions over a codec
   (C19/Types.v: encoder value -> forest, decoder tree -> value | error | panic,
   oracles for the external functions). No proofs here.

   [safe r]     : r is a value or an error: not a panic (and not a missing
                  oracle entry of a case file).
   [or_safe o]  : the external functions return a value or an error.
   The per-type theorems instantiate:
     enc_total      "building the XML of a value never panics"
     wellformed     "the token stream is well-bracketed and every element and
                     attribute name is one of a fixed list of literal names:
                     user text occurs only as character data and attribute
                     values, which encoding/xml escapes"
     roundtrip      "decoding the token stream, and decoding the document the
                     encoder writes for it, give back the (normalised) value"
     paths_agree    "both decoding paths give the same answer" (also where the
                     round trip itself fails)
     dec_total      "unmarshalling any XML gives a value or an error". *)
From Coq Require Import ZArith.
From XV Require Import lib.Bytes lib.Xml lib.Schema C19.Form C19.Types.

Definition safe {A} (r : res A) : Prop :=
  match r with Ok _ | Err => True | Panic | Miss => False end.

Record or_safe (o : oracles) : Prop := mk_or_safe {
  os_jid : forall s, safe (o_jid o s);
  os_tparse : forall k s, safe (o_tparse o k s);
  os_b64 : forall s, safe (o_b64dec o s);
  os_url : forall s, safe (o_url o s) }.

Definition mem (n : name) (l : list name) : bool := existsb (name_eqb n) l.

Definition forest_wellformed (els ats : list name) (ts : list tree) : Prop :=
  balanced (tokens_of_forest ts) = true /\
  parse_forest (S (fsize ts)) (tokens_of_forest ts) = Some (ts, []) /\
  forallb (names_within els ats) ts = true /\
  forallb name_ok els = true /\ forallb name_ok ats = true.

Section Codec.
  Context {T : Type} (c : codec T).

  (* the domain of a statement: a condition on the value and on what the
     oracles answer for the texts the value contains *)
  Variable dom : oracles -> T -> Prop.

  Definition enc_total : Prop :=
    forall o v, dom o v -> exists ts, c_enc c o v = Ok ts.

  Definition wellformed (els ats : list name) : Prop :=
    forall o v ts, c_enc c o v = Ok ts -> forest_wellformed els ats ts.

  Definition roundtrip (norm : T -> T) : Prop :=
    forall o v, dom o v -> exists t,
      c_enc c o v = Ok [t] /\
      c_dec c o t = Ok (norm v) /\
      c_dec c o (wire1 t) = Ok (norm v).

  Definition paths_agree : Prop :=
    forall o v t, dom o v -> c_enc c o v = Ok [t] -> c_dec c o (wire1 t) = c_dec c o t.

  Definition dec_total : Prop :=
    forall o t, or_safe o -> safe (c_dec c o t).
End Codec.

Definition any {T} : oracles -> T -> Prop := fun _ _ => True.

(* ---- hypotheses about the oracles, named ---- *)

(* jid.Parse(j.String()) = j for every jid.JID value j: the texts that occur
   as JIDs in a value are canonical ([] is the zero JID, which is not parsed) *)
Definition jid_canon (o : oracles) (j : bytes) : Prop := j = [] \/ o_jid o j = Ok j.

(* time.Parse(RFC3339, t.UTC().Format(RFC3339Nano)) = t in UTC, for t within
   years 0000..9999 (outside, see the known finding C19/time/year-outside-rfc3339) *)
Definition utc (t : tm) : tm := mktm (t_sec t) (t_nsec t) 0.
Definition time_utc_roundtrip (o : oracles) (t : tm) : Prop :=
  o_tparse o P_rfc3339 (o_tfmt o L_utc_nano t) = Ok (utc t).

(* base64.StdEncoding.Decode(Encode(b)) = b, for the texts written *)
Definition b64_roundtrip (o : oracles) (b : bytes) : Prop :=
  b = [] \/ o_b64dec o (b64enc b) = Ok b.
