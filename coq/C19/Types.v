(* C19/Types.v — executable models of the extension payload types other than
   data forms: for each type the hand-written TokenReader (value -> tokens, as
   a forest of trees) and the unmarshaller (tree -> value | error | panic):
   either the hand-written UnmarshalXML token loop, or the struct-tag schema
   handed to encoding/xml, interpreted by lib/Schema.v.

   External functions are oracles collected in [oracles]: jid.Parse, the time
   package (layouts below), base64 decoding, url.Parse, float formatting of
   durations. Case files instantiate them with finite tables; the theorems
   quantify over them under the stated hypotheses. *)
From Coq Require Import ZArith.
From XV Require Import lib.Bytes lib.Xml lib.Schema C19.Form.

(* time.Time as far as the codecs can see it: the instant and the zone offset *)
Record tm := mktm { t_sec : Z; t_nsec : N; t_off : Z }.

Definition tm_eqb (a b : tm) : bool :=
  Z.eqb (t_sec a) (t_sec b) && N.eqb (t_nsec a) (t_nsec b) && Z.eqb (t_off a) (t_off b).

(* time layouts / parse kinds *)
Definition L_utc_nano := 0.   (* t.UTC().Format(time.RFC3339Nano) *)
Definition L_utc_sec := 1.    (* t.UTC().Format(time.RFC3339) *)
Definition L_zone_sec := 2.   (* t.Format(time.RFC3339) *)
Definition L_tzo := 3.        (* t.Format("Z07:00") *)
Definition L_zone_nano := 4.  (* t.Format(time.RFC3339Nano) *)
Definition P_rfc3339 := 0.    (* time.Parse(time.RFC3339 | RFC3339Nano, s) *)
Definition P_tzo := 1.        (* time.Parse("Z07:00", s): only the offset is used *)
Definition P_text := 2.       (* time.Time.UnmarshalText *)

Record oracles := mkor {
  o_jid : bytes -> res bytes;
  o_tfmt : nat -> tm -> bytes;
  o_tparse : nat -> bytes -> res tm;
  o_b64dec : bytes -> res bytes;
  o_url : bytes -> res bytes;          (* url.Parse(s).String() *)
  o_dursec : Z -> bytes }.             (* FormatFloat(Duration(ns).Seconds(), 'f', 0, 64) *)

Record codec (T : Type) := mkcodec {
  c_enc : oracles -> T -> res (list tree);
  c_dec : oracles -> tree -> res T;
  c_eqb : T -> T -> bool }.
Arguments mkcodec {T}.
Arguments c_enc {T}.
Arguments c_dec {T}.
Arguments c_eqb {T}.

Definition one (t : tree) : res (list tree) := Ok [t].

Definition opt_attr (local v : bytes) : list attr := if is_nil v then [] else [at_ local v].
Definition opt_leaf (local v : bytes) : list tree := if is_nil v then [] else [leaf local v].

Definition zero_tm : tm := mktm (-62135596800) 0 0.

(* jid.JID.UnmarshalXMLAttr: the empty string is the zero JID (whatever the
   destination held before) *)
Definition jid_attr (o : oracles) (s : bytes) (cur : bytes) : res bytes :=
  if is_nil s then Ok [] else o_jid o s.

Definition f_jid {A} (o : oracles) (local : bytes) (get : A -> bytes) (put : bytes -> A -> A) : Schema.field A :=
  mkfield KAttr [] local (fun t a => bind (jid_attr o (payload_text t) (get a)) (fun j => Ok (put j a))).

(* the result of a hand-written UnmarshalXML that returns nil after reading
   only part of its element: encoding/xml reports "did not consume entire
   element" *)
Definition not_consumed {A} : res A := Err.

(* ================= base64 (encoding) ================= *)

Definition b64_alphabet : bytes :=
  str "ABCDEFGHIJKLMNOPQRSTUVWXYZabcdefghijklmnopqrstuvwxyz0123456789+/".

Definition b64c (n : N) : byte := nth (N.to_nat n) b64_alphabet "="%byte.

Fixpoint b64enc (s : bytes) : bytes :=
  match s with
  | [] => []
  | [a] => let x := bN a in [b64c (x / 4); b64c ((x mod 4) * 16); "="%byte; "="%byte]
  | [a; b] => let x := bN a in let y := bN b in
              [b64c (x / 4); b64c ((x mod 4) * 16 + y / 16); b64c ((y mod 16) * 4); "="%byte]
  | a :: b :: c :: r =>
      let x := bN a in let y := bN b in let z := bN c in
      b64c (x / 4) :: b64c ((x mod 4) * 16 + y / 16) :: b64c ((y mod 16) * 4 + z / 64) :: b64c (z mod 64) :: b64enc r
  end%N.

(* ================= version.Query ================= *)

Record version_q := mkversion { v_name : bytes; v_version : bytes; v_os : bytes }.
Definition ns_version := str "jabber:iq:version".

Definition version_tr (v : version_q) : tree :=
  Elem (mkname ns_version (str "query")) []
    (opt_leaf (str "name") (v_name v) ++ opt_leaf (str "version") (v_version v) ++ opt_leaf (str "os") (v_os v)).

Definition version_fields : list (Schema.field version_q) :=
  [ f_str KElem [] (str "name") (fun s v => mkversion s (v_version v) (v_os v));
    f_str KElem [] (str "version") (fun s v => mkversion (v_name v) s (v_os v));
    f_str KElem [] (str "os") (fun s v => mkversion (v_name v) (v_version v) s) ].

Definition version_un (t : tree) : res version_q :=
  unmarshal_struct (Some (mkname ns_version (str "query"))) version_fields (mkversion [] [] []) t.

Definition version_eqb (a b : version_q) : bool :=
  beq (v_name a) (v_name b) && beq (v_version a) (v_version b) && beq (v_os a) (v_os b).

Definition version_c : codec version_q :=
  mkcodec (fun _ v => one (version_tr v)) (fun _ => version_un) version_eqb.

(* ================= oob.Query / oob.Data ================= *)

Record oob := mkoob { oob_url : bytes; oob_desc : bytes }.
Definition ns_oob_query := str "jabber:iq:oob".
Definition ns_oob_data := str "jabber:x:oob".

Definition oob_tr (n : name) (v : oob) : tree :=
  Elem n [] (leaf (str "url") (oob_url v) :: opt_leaf (str "desc") (oob_desc v)).

Definition oob_fields : list (Schema.field oob) :=
  [ f_str KElem [] (str "url") (fun s v => mkoob s (oob_desc v));
    f_str KElem [] (str "desc") (fun s v => mkoob (oob_url v) s) ].

Definition oob_un (n : name) (t : tree) : res oob := unmarshal_struct (Some n) oob_fields (mkoob [] []) t.
Definition oob_eqb (a b : oob) : bool := beq (oob_url a) (oob_url b) && beq (oob_desc a) (oob_desc b).

Definition oobq_name := mkname ns_oob_query (str "query").
Definition oobx_name := mkname ns_oob_data (str "x").
Definition oobq_c : codec oob := mkcodec (fun _ v => one (oob_tr oobq_name v)) (fun _ => oob_un oobq_name) oob_eqb.
Definition oobx_c : codec oob := mkcodec (fun _ v => one (oob_tr oobx_name v)) (fun _ => oob_un oobx_name) oob_eqb.

(* ================= disco: ItemsQuery, items.Item, info.Feature, info.Identity ================= *)

Definition ns_items := str "http://jabber.org/protocol/disco#items".
Definition ns_info := str "http://jabber.org/protocol/disco#info".

Definition itemsq_name := mkname ns_items (str "query").
Definition itemsq_tr (node : bytes) : tree := Elem itemsq_name (opt_attr (str "node") node) [].
Definition itemsq_un (t : tree) : res bytes :=
  unmarshal_struct (Some itemsq_name) [f_str KAttr [] (str "node") (fun s _ => s)] [] t.
Definition itemsq_c : codec bytes := mkcodec (fun _ v => one (itemsq_tr v)) (fun _ => itemsq_un) beq.

Record ditem := mkditem { di_jid : bytes; di_name : bytes; di_node : bytes }.
Definition ditem_name := mkname ns_items (str "item").

Definition ditem_tr (v : ditem) : tree :=
  Elem ditem_name ([at_ (str "jid") (di_jid v)] ++ opt_attr (str "node") (di_node v) ++ opt_attr (str "name") (di_name v)) [].

Definition ditem_fields (o : oracles) : list (Schema.field ditem) :=
  [ f_jid o (str "jid") di_jid (fun s v => mkditem s (di_name v) (di_node v));
    f_str KAttr [] (str "name") (fun s v => mkditem (di_jid v) s (di_node v));
    f_str KAttr [] (str "node") (fun s v => mkditem (di_jid v) (di_name v) s) ].

Definition ditem_un (o : oracles) (t : tree) : res ditem :=
  unmarshal_struct (Some ditem_name) (ditem_fields o) (mkditem [] [] []) t.
Definition ditem_eqb (a b : ditem) : bool :=
  beq (di_jid a) (di_jid b) && beq (di_name a) (di_name b) && beq (di_node a) (di_node b).
Definition ditem_c : codec ditem := mkcodec (fun _ v => one (ditem_tr v)) ditem_un ditem_eqb.

Definition feature_name := mkname ns_info (str "feature").
Definition feature_tr (v : bytes) : tree := Elem feature_name [at_ (str "var") v] [].
Definition feature_un (t : tree) : res bytes :=
  unmarshal_struct (Some feature_name) [f_str KAttr [] (str "var") (fun s _ => s)] [] t.
Definition feature_c : codec bytes := mkcodec (fun _ v => one (feature_tr v)) (fun _ => feature_un) beq.

Record ident := mkident { id_cat : bytes; id_type : bytes; id_name : bytes; id_lang : bytes }.
Definition ident_name := mkname ns_info (str "identity").

Definition ident_tr (v : ident) : tree :=
  Elem ident_name
    ([at_ (str "category") (id_cat v); at_ (str "type") (id_type v)] ++ opt_attr (str "name") (id_name v) ++
     (if is_nil (id_lang v) then [] else [mkattr (mkname xml_ns (str "lang")) (id_lang v)])) [].

Definition ident_fields : list (Schema.field ident) :=
  [ f_str KAttr [] (str "category") (fun s v => mkident s (id_type v) (id_name v) (id_lang v));
    f_str KAttr [] (str "type") (fun s v => mkident (id_cat v) s (id_name v) (id_lang v));
    f_str KAttr [] (str "name") (fun s v => mkident (id_cat v) (id_type v) s (id_lang v));
    f_str KAttr xml_ns (str "lang") (fun s v => mkident (id_cat v) (id_type v) (id_name v) s) ].

Definition ident_un (t : tree) : res ident :=
  unmarshal_struct (Some ident_name) ident_fields (mkident [] [] [] []) t.
Definition ident_eqb (a b : ident) : bool :=
  beq (id_cat a) (id_cat b) && beq (id_type a) (id_type b) && beq (id_name a) (id_name b) && beq (id_lang a) (id_lang b).
Definition ident_c : codec ident := mkcodec (fun _ v => one (ident_tr v)) (fun _ => ident_un) ident_eqb.

(* ================= paging (RSM) ================= *)

Definition ns_rsm := str "http://jabber.org/protocol/rsm".
Definition set_name := mkname ns_rsm (str "set").

Definition rcount_tr : tree := Elem set_name [] [leaf (str "max") (str "0")].
Definition rcount_un (t : tree) : res unit := unmarshal_struct (Some set_name) [] tt t.
Definition rcount_c : codec unit := mkcodec (fun _ _ => one rcount_tr) (fun _ => rcount_un) (fun _ _ => true).

Definition f_uint {A} (k : fkind) (local : bytes) (put : N -> A -> A) : Schema.field A :=
  f_conv k [] local copy_uint put.

Definition f_uint_ptr {A} (k : fkind) (local : bytes) (put : option N -> A -> A) : Schema.field A :=
  f_conv k [] local copy_uint (fun n => put (Some n)).

Record rnext := mkrnext { rn_max : N; rn_after : bytes }.
Definition rnext_tr (v : rnext) : tree :=
  Elem set_name []
    ((if (0 <? rn_max v)%N then [leaf (str "max") (dec (rn_max v))] else []) ++ opt_leaf (str "after") (rn_after v)).
Definition rnext_fields : list (Schema.field rnext) :=
  [ f_uint KElem (str "max") (fun n v => mkrnext n (rn_after v));
    f_str KElem [] (str "after") (fun s v => mkrnext (rn_max v) s) ].
Definition rnext_un (t : tree) : res rnext := unmarshal_struct (Some set_name) rnext_fields (mkrnext 0 []) t.
Definition rnext_eqb (a b : rnext) : bool := N.eqb (rn_max a) (rn_max b) && beq (rn_after a) (rn_after b).
Definition rnext_c : codec rnext := mkcodec (fun _ v => one (rnext_tr v)) (fun _ => rnext_un) rnext_eqb.

Record rprev := mkrprev { rp_max : N; rp_before : bytes }.
Definition rprev_tr (v : rprev) : tree :=
  Elem set_name []
    (leaf (str "before") (rp_before v) :: (if (0 <? rp_max v)%N then [leaf (str "max") (dec (rp_max v))] else [])).
Definition rprev_fields : list (Schema.field rprev) :=
  [ f_uint KElem (str "max") (fun n v => mkrprev n (rp_before v));
    f_str KElem [] (str "before") (fun s v => mkrprev (rp_max v) s) ].
Definition rprev_un (t : tree) : res rprev := unmarshal_struct (Some set_name) rprev_fields (mkrprev 0 []) t.
Definition rprev_eqb (a b : rprev) : bool := N.eqb (rp_max a) (rp_max b) && beq (rp_before a) (rp_before b).
Definition rprev_c : codec rprev := mkcodec (fun _ v => one (rprev_tr v)) (fun _ => rprev_un) rprev_eqb.

Record rindex := mkrindex { ri_max : N; ri_index : N }.
Definition rindex_tr (v : rindex) : tree :=
  Elem set_name [] [leaf (str "index") (dec (ri_index v)); leaf (str "max") (dec (ri_max v))].
Definition rindex_fields : list (Schema.field rindex) :=
  [ f_uint KElem (str "max") (fun n v => mkrindex n (ri_index v));
    f_uint KElem (str "index") (fun n v => mkrindex (ri_max v) n) ].
Definition rindex_un (t : tree) : res rindex := unmarshal_struct (Some set_name) rindex_fields (mkrindex 0 0) t.
Definition rindex_eqb (a b : rindex) : bool := N.eqb (ri_max a) (ri_max b) && N.eqb (ri_index a) (ri_index b).
Definition rindex_c : codec rindex := mkcodec (fun _ v => one (rindex_tr v)) (fun _ => rindex_un) rindex_eqb.

Record rset := mkrset { rs_first : bytes; rs_index : option N; rs_last : bytes; rs_count : option N }.
Definition zero_rset := mkrset [] None [] None.

Definition rset_tr (v : rset) : tree :=
  Elem set_name []
    ([Elem (ln (str "first")) (match rs_index v with Some i => [at_ (str "index") (dec i)] | None => [] end) [Text (rs_first v)];
      leaf (str "last") (rs_last v)] ++
     match rs_count v with Some c => [leaf (str "count") (dec c)] | None => [] end).

Definition first_fields : list (Schema.field (bytes * option N)) :=
  [ f_str KChar [] [] (fun s p => (s, snd p));
    f_uint_ptr KAttr (str "index") (fun n p => (fst p, n)) ].

Definition rset_fields : list (Schema.field rset) :=
  [ f_into KElem [] (str "first") (fun v => (rs_first v, rs_index v)) (unmarshal_struct None first_fields)
      (fun p v => mkrset (fst p) (snd p) (rs_last v) (rs_count v));
    f_str KElem [] (str "last") (fun s v => mkrset (rs_first v) (rs_index v) s (rs_count v));
    f_uint_ptr KElem (str "count") (fun n v => mkrset (rs_first v) (rs_index v) (rs_last v) n) ].

Definition rset_un_into (init : rset) (t : tree) : res rset := unmarshal_struct (Some set_name) rset_fields init t.
Definition rset_un (t : tree) : res rset := rset_un_into zero_rset t.

Definition optN_eqb (a b : option N) : bool :=
  match a, b with Some x, Some y => N.eqb x y | None, None => true | _, _ => false end.
Definition rset_eqb (a b : rset) : bool :=
  beq (rs_first a) (rs_first b) && optN_eqb (rs_index a) (rs_index b) && beq (rs_last a) (rs_last b) &&
  optN_eqb (rs_count a) (rs_count b).
Definition rset_c : codec rset := mkcodec (fun _ v => one (rset_tr v)) (fun _ => rset_un) rset_eqb.

(* ================= delay.Delay (XEP-0203) ================= *)

Record delay := mkdelay { dl_from : bytes; dl_time : tm; dl_reason : bytes }.
Definition ns_delay := str "urn:xmpp:delay".
Definition delay_name := mkname ns_delay (str "delay").
Definition zero_delay := mkdelay [] zero_tm [].

Definition delay_tr (o : oracles) (v : delay) : tree :=
  Elem delay_name
    ([at_ (str "stamp") (o_tfmt o L_utc_nano (dl_time v))] ++ opt_attr (str "from") (dl_from v))
    (if is_nil (dl_reason v) then [] else [Text (dl_reason v)]).

(* the attribute loop: state (value, foundStamp, foundFrom) *)
Fixpoint delay_attrs (o : oracles) (a : list attr) (v : delay) (fs ff : bool) : res delay :=
  match a with
  | [] => Ok v
  | x :: r =>
      let sp := nspace (aname x) in
      if negb (is_nil sp) && negb (beq sp ns_delay) then delay_attrs o r v fs ff
      else if beq (nlocal (aname x)) (str "stamp") then
        bind (o_tparse o P_rfc3339 (aval x)) (fun t =>
          let v' := mkdelay (dl_from v) t (dl_reason v) in
          if ff then Ok v' else delay_attrs o r v' true ff)
      else if beq (nlocal (aname x)) (str "from") then
        bind (jid_attr o (aval x) (dl_from v)) (fun j =>
          let v' := mkdelay j (dl_time v) (dl_reason v) in
          if fs then Ok v' else delay_attrs o r v' fs true)
      else delay_attrs o r v fs ff
  end.

Definition delay_un_into (o : oracles) (init : delay) (t : tree) : res delay :=
  match t with
  | Elem _ attrs kids =>
      bind (delay_attrs o attrs init false false) (fun v =>
      match kids with
      | [] => Ok v
      | Text b :: _ => Ok (mkdelay (dl_from v) (dl_time v) b)
      | Elem _ _ _ :: _ => not_consumed
      | Misc _ _ :: _ => Ok v
      end)
  | _ => Err
  end.

Definition delay_un (o : oracles) (t : tree) : res delay := delay_un_into o zero_delay t.

Definition delay_eqb (a b : delay) : bool :=
  beq (dl_from a) (dl_from b) && tm_eqb (dl_time a) (dl_time b) && beq (dl_reason a) (dl_reason b).
Definition delay_c : codec delay := mkcodec (fun o v => one (delay_tr o v)) delay_un delay_eqb.

(* ================= stanza.Delay ================= *)

Definition sdelay_tr (o : oracles) (v : delay) : tree :=
  Elem delay_name
    [at_ (str "from") (dl_from v); at_ (str "stamp") (o_tfmt o L_utc_nano (dl_time v))]
    [Text (dl_reason v)].

Fixpoint sdelay_attrs (o : oracles) (a : list attr) (v : delay) (ff fs : bool) : res delay :=
  match a with
  | [] => Ok v
  | x :: r =>
      if beq (nlocal (aname x)) (str "from") then
        bind (jid_attr o (aval x) (dl_from v)) (fun j =>
          let v' := mkdelay j (dl_time v) (dl_reason v) in
          if fs then Ok v' else sdelay_attrs o r v' true fs)
      else if beq (nlocal (aname x)) (str "stamp") then
        bind (o_tparse o P_rfc3339 (aval x)) (fun t =>
          let v' := mkdelay (dl_from v) t (dl_reason v) in
          if ff then Ok v' else sdelay_attrs o r v' ff true)
      else sdelay_attrs o r v ff fs
  end.

Definition sdelay_un (o : oracles) (t : tree) : res delay :=
  match t with
  | Elem _ attrs kids =>
      bind (sdelay_attrs o attrs zero_delay false false) (fun v =>
      match kids with
      | Text b :: _ => Ok (mkdelay (dl_from v) (dl_time v) b)
      | _ => Ok v
      end)
  | _ => Err
  end.

Definition sdelay_c : codec delay := mkcodec (fun o v => one (sdelay_tr o v)) sdelay_un delay_eqb.

(* ================= xtime.Time (XEP-0202) ================= *)

Definition ns_time := str "urn:xmpp:time".
Definition time_name := mkname ns_time (str "time").

(* t.Format("Z07:00") for a zone offset in seconds, as package time does it:
   "Z" for offset 0, else the sign of the offset in minutes (truncated toward
   zero), two digits of hours, a colon, two digits of minutes *)
Definition two_digits (n : N) : bytes := if (n <? 10)%N then "0"%byte :: dec n else dec n.

Definition format_tzo (off : Z) : bytes :=
  if Z.eqb off 0 then str "Z"
  else
    let zone := Z.quot off 60 in
    let a := Z.to_N (Z.abs zone) in
    (if (zone <? 0)%Z then "-"%byte else "+"%byte) :: two_digits (a / 60) ++ ":"%byte :: two_digits (a mod 60).

(* the inverse on the texts XEP-0082 allows: Z, or sign, two digits, colon, two
   digits (hours below 24, minutes below 60); the offset in seconds *)
Definition digit_val (c : byte) : option N :=
  let n := bN c in if (48 <=? n)%N && (n <=? 57)%N then Some (n - 48)%N else None.

Definition parse_tzo (s : bytes) : option Z :=
  match s with
  | [z] => if byte_eqb z "Z"%byte then Some 0%Z else None
  | [sg; h1; h2; c; m1; m2] =>
      match digit_val h1, digit_val h2, digit_val m1, digit_val m2 with
      | Some a, Some b, Some x, Some y =>
          let h := (a * 10 + b)%N in let m := (x * 10 + y)%N in
          if byte_eqb c ":"%byte && (h <? 24)%N && (m <? 60)%N then
            let v := Z.of_N ((h * 60 + m) * 60) in
            if byte_eqb sg "+"%byte then Some v
            else if byte_eqb sg "-"%byte then Some (- v)%Z else None
          else None
      | _, _, _, _ => None
      end
  | _ => None
  end.

(* the tzo text is computed by the model (not taken from the observed output):
   a regression of the formatter is a disagreement of the correspondence *)
Definition xtime_tr (o : oracles) (t : tm) : tree :=
  Elem time_name [] [leaf (str "tzo") (format_tzo (t_off t)); leaf (str "utc") (o_tfmt o L_utc_nano t)].

Definition xtime_fields : list (Schema.field (bytes * bytes)) :=
  [ f_str KElem [] (str "tzo") (fun s p => (s, snd p));
    f_str KElem [] (str "utc") (fun s p => (fst p, s)) ].

Definition xtime_un (o : oracles) (t : tree) : res tm :=
  bind (unmarshal_struct (Some time_name) xtime_fields ([], []) t) (fun p =>
  bind (o_tparse o P_tzo (fst p)) (fun zone =>
  bind (o_tparse o P_rfc3339 (snd p)) (fun utc =>
  Ok (mktm (t_sec utc) (t_nsec utc) (t_off zone))))).

Definition xtime_c : codec tm := mkcodec (fun o v => one (xtime_tr o v)) xtime_un tm_eqb.

(* ================= forward.Forwarded ================= *)

Definition ns_forward := str "urn:xmpp:forward:0".
Definition forwarded_name := mkname ns_forward (str "forwarded").

Definition forwarded_tr (o : oracles) (v : delay) : tree := Elem forwarded_name [] [delay_tr o v].

Definition forwarded_fields (o : oracles) : list (Schema.field delay) :=
  [ mkfield KElem ns_delay (str "delay") (fun t d => delay_un_into o d t) ].

Definition forwarded_un (o : oracles) (t : tree) : res delay :=
  unmarshal_struct (Some forwarded_name) (forwarded_fields o) zero_delay t.

Definition forwarded_c : codec delay := mkcodec (fun o v => one (forwarded_tr o v)) forwarded_un delay_eqb.

(* ================= roster.Item ================= *)

Record ritem := mkritem { r_jid : bytes; r_name : bytes; r_sub : bytes; r_groups : list bytes }.

Definition ritem_tr (v : ritem) : tree :=
  Elem (ln (str "item"))
    (opt_attr (str "jid") (r_jid v) ++ opt_attr (str "name") (r_name v) ++ opt_attr (str "subscription") (r_sub v))
    (map (leaf (str "group")) (r_groups v)).

Definition ritem_fields (o : oracles) : list (Schema.field ritem) :=
  [ f_jid o (str "jid") r_jid (fun s v => mkritem s (r_name v) (r_sub v) (r_groups v));
    f_str KAttr [] (str "name") (fun s v => mkritem (r_jid v) s (r_sub v) (r_groups v));
    f_str KAttr [] (str "subscription") (fun s v => mkritem (r_jid v) (r_name v) s (r_groups v));
    f_str KElem [] (str "group") (fun s v => mkritem (r_jid v) (r_name v) (r_sub v) (r_groups v ++ [s])) ].

Definition ritem_un (o : oracles) (t : tree) : res ritem :=
  unmarshal_struct None (ritem_fields o) (mkritem [] [] [] []) t.
Definition ritem_eqb (a b : ritem) : bool :=
  beq (r_jid a) (r_jid b) && beq (r_name a) (r_name b) && beq (r_sub a) (r_sub b) && list_eqb beq (r_groups a) (r_groups b).
Definition ritem_c : codec ritem := mkcodec (fun _ v => one (ritem_tr v)) ritem_un ritem_eqb.

(* ================= stanza.ID, stanza.OriginID ================= *)

Definition ns_sid := str "urn:xmpp:sid:0".
Record sid := mksid { s_id : bytes; s_by : bytes }.
Definition sid_name := mkname ns_sid (str "stanza-id").
Definition sid_tr (v : sid) : tree := Elem sid_name [at_ (str "id") (s_id v); at_ (str "by") (s_by v)] [].
Definition sid_fields (o : oracles) : list (Schema.field sid) :=
  [ f_str KAttr [] (str "id") (fun s v => mksid s (s_by v));
    f_jid o (str "by") s_by (fun s v => mksid (s_id v) s) ].
Definition sid_un (o : oracles) (t : tree) : res sid := unmarshal_struct (Some sid_name) (sid_fields o) (mksid [] []) t.
Definition sid_eqb (a b : sid) : bool := beq (s_id a) (s_id b) && beq (s_by a) (s_by b).
Definition sid_c : codec sid := mkcodec (fun _ v => one (sid_tr v)) sid_un sid_eqb.

Definition oid_name := mkname ns_sid (str "origin-id").
Definition oid_tr (v : bytes) : tree := Elem oid_name [at_ (str "id") v] [].
Definition oid_un (t : tree) : res bytes :=
  unmarshal_struct (Some oid_name) [f_str KAttr [] (str "id") (fun s _ => s)] [] t.
Definition oid_c : codec bytes := mkcodec (fun _ v => one (oid_tr v)) (fun _ => oid_un) beq.

(* ================= blocklist.Item ================= *)

Definition ns_reporting := str "urn:xmpp:reporting:1".
Definition reason_spam := str "urn:xmpp:reporting:spam".
Record bitem := mkbitem { b_jid : bytes; b_reason : bytes; b_ids : list sid; b_text : bytes }.
Definition report_name := mkname ns_reporting (str "report").

Definition bitem_tr (v : bitem) : tree :=
  Elem (ln (str "item")) [at_ (str "jid") (b_jid v)]
    (if is_nil (b_reason v) && is_nil (b_ids v) && is_nil (b_text v) then []
     else [Elem report_name
             [at_ (str "reason") (if is_nil (b_reason v) then reason_spam else b_reason v)]
             (map sid_tr (b_ids v) ++ opt_leaf (str "text") (b_text v))]).

Definition report_fields (o : oracles) : list (Schema.field bitem) :=
  [ f_str KAttr [] (str "reason") (fun s v => mkbitem (b_jid v) s (b_ids v) (b_text v));
    f_sub KElem [] (str "stanza-id") (sid_un o) (fun i v => mkbitem (b_jid v) (b_reason v) (b_ids v ++ [i]) (b_text v));
    f_str KElem [] (str "text") (fun s v => mkbitem (b_jid v) (b_reason v) (b_ids v) s) ].

Definition bitem_fields (o : oracles) : list (Schema.field bitem) :=
  [ f_jid o (str "jid") b_jid (fun s v => mkbitem s (b_reason v) (b_ids v) (b_text v));
    mkfield KElem ns_reporting (str "report") (fun t v => unmarshal_struct (Some report_name) (report_fields o) v t) ].

Definition bitem_un (o : oracles) (t : tree) : res bitem :=
  unmarshal_struct None (bitem_fields o) (mkbitem [] [] [] []) t.
Definition bitem_eqb (a b : bitem) : bool :=
  beq (b_jid a) (b_jid b) && beq (b_reason a) (b_reason b) && list_eqb sid_eqb (b_ids a) (b_ids b) && beq (b_text a) (b_text b).
Definition bitem_c : codec bitem := mkcodec (fun _ v => one (bitem_tr v)) bitem_un bitem_eqb.

(* ================= upload.File ================= *)

Definition ns_upload := str "urn:xmpp:http:upload:0".
Record ufile := mkufile { uf_name : bytes; uf_size : Z; uf_type : bytes }.
Definition ufile_name := mkname ns_upload (str "request").

Definition ufile_tr (v : ufile) : tree :=
  Elem ufile_name
    ([at_ (str "filename") (uf_name v); at_ (str "size") (dec_int (uf_size v))] ++ opt_attr (str "content-type") (uf_type v)) [].

Definition ufile_fields : list (Schema.field ufile) :=
  [ f_str KAttr [] (str "filename") (fun s v => mkufile s (uf_size v) (uf_type v));
    f_conv KAttr [] (str "size") copy_int (fun n v => mkufile (uf_name v) n (uf_type v));
    f_str KAttr [] (str "content-type") (fun s v => mkufile (uf_name v) (uf_size v) s) ].

Definition ufile_un (t : tree) : res ufile := unmarshal_struct (Some ufile_name) ufile_fields (mkufile [] 0 []) t.
Definition ufile_eqb (a b : ufile) : bool :=
  beq (uf_name a) (uf_name b) && Z.eqb (uf_size a) (uf_size b) && beq (uf_type a) (uf_type b).
Definition ufile_c : codec ufile := mkcodec (fun _ v => one (ufile_tr v)) (fun _ => ufile_un) ufile_eqb.

(* ================= bin.Data (XEP-0231) ================= *)

Definition ns_bob := str "urn:xmpp:bob".
(* MaxAge in nanoseconds, as time.Duration *)
Record bob := mkbob { bb_cid : bytes; bb_maxage : Z; bb_nocache : bool; bb_type : bytes; bb_data : bytes }.
Definition bob_name := mkname ns_bob (str "data").

Definition bob_tr (o : oracles) (v : bob) : tree :=
  Elem bob_name
    (opt_attr (str "type") (bb_type v) ++
     (if bb_nocache v then [at_ (str "max-age") (str "0")]
      else if (0 <? bb_maxage v)%Z then [at_ (str "max-age") (o_dursec o (bb_maxage v))] else []) ++
     opt_attr (str "cid") (bb_cid v))
    (if is_nil (bb_data v) then [] else [Text (b64enc (bb_data v))]).

Record bob_raw := mkbobraw { br_cid : bytes; br_age : option Z; br_type : bytes; br_data : bytes }.

Definition bob_fields : list (Schema.field bob_raw) :=
  [ f_str KAttr [] (str "cid") (fun s v => mkbobraw s (br_age v) (br_type v) (br_data v));
    f_conv KAttr [] (str "max-age") copy_int (fun n v => mkbobraw (br_cid v) (Some n) (br_type v) (br_data v));
    f_str KAttr [] (str "type") (fun s v => mkbobraw (br_cid v) (br_age v) s (br_data v));
    f_str KChar [] [] (fun s v => mkbobraw (br_cid v) (br_age v) (br_type v) s) ].

(* int64 multiplication wraps *)
Definition wrap64 (z : Z) : Z :=
  let m := (z mod 18446744073709551616)%Z in
  if (m <? 9223372036854775808)%Z then m else (m - 18446744073709551616)%Z.

Definition bob_un (o : oracles) (t : tree) : res bob :=
  bind (unmarshal_struct (Some bob_name) bob_fields (mkbobraw [] None [] []) t) (fun r =>
  bind (if is_nil (br_data r) then Ok [] else o_b64dec o (br_data r)) (fun data =>
  Ok (mkbob (br_cid r)
            (match br_age r with Some n => wrap64 (n * 1000000000) | None => 0%Z end)
            (match br_age r with Some n => Z.eqb n 0 | None => false end)
            (br_type r) data))).

Definition bob_eqb (a b : bob) : bool :=
  beq (bb_cid a) (bb_cid b) && Z.eqb (bb_maxage a) (bb_maxage b) && Bool.eqb (bb_nocache a) (bb_nocache b) &&
  beq (bb_type a) (bb_type b) && beq (bb_data a) (bb_data b).
Definition bob_c : codec bob := mkcodec (fun o v => one (bob_tr o v)) bob_un bob_eqb.

(* ================= crypto: Hash, HashOutput, Key, OwnedKeys, TrustMessage ================= *)

Definition ns_hashes := str "urn:xmpp:hashes:2".
Definition ns_trust := str "urn:xmpp:tm:1".

(* crypto.Hash values (Go's crypto.Hash numbering) and their XEP-0300 names *)
Definition hash_table : list (N * bytes) :=
  [ (3, str "sha-1"); (4, str "sha-224"); (5, str "sha-256"); (6, str "sha-384"); (7, str "sha-512");
    (11, str "sha3-256"); (13, str "sha3-512"); (17, str "blake2b256"); (19, str "blake2b512") ]%N.

Fixpoint hash_name (h : N) (t : list (N * bytes)) : option bytes :=
  match t with [] => None | (k, n) :: r => if N.eqb k h then Some n else hash_name h r end.

Fixpoint hash_parse (s : bytes) (t : list (N * bytes)) : option N :=
  match t with [] => None | (k, n) :: r => if beq n s then Some k else hash_parse s r end.

(* Hash.TokenReader: panics (documented) on a value outside the table *)
Definition hash_tr (h : N) : res (list tree) :=
  match hash_name h hash_table with
  | Some n => one (Elem (mkname ns_hashes (str "hash-used")) [at_ (str "algo") n] [])
  | None => Panic
  end.

Definition hash_algo (attrs : list attr) : res N :=
  match attr_local (str "algo") attrs with
  | Some v => match hash_parse v hash_table with Some h => Ok h | None => Err end
  | None => Err
  end.

Definition hash_un (t : tree) : res N :=
  match t with Elem _ attrs _ => hash_algo attrs | _ => Err end.

Definition hash_c : codec N := mkcodec (fun _ => hash_tr) (fun _ => hash_un) N.eqb.

Record hashout := mkhashout { ho_hash : N; ho_out : bytes }.

Definition hashout_tree (v : hashout) : res tree :=
  match hash_name (ho_hash v) hash_table with
  | Some n => Ok (Elem (mkname ns_hashes (str "hash")) [at_ (str "algo") n] [Text (b64enc (ho_out v))])
  | None => Panic
  end.

(* HashOutput.UnmarshalXML: the algo attribute, then one character data token
   (an immediately following end tag is an error: the test suite pins this) *)
Definition hashout_un (o : oracles) (t : tree) : res hashout :=
  match t with
  | Elem _ attrs kids =>
      bind (hash_algo attrs) (fun h =>
      match kids with
      | [] => Err
      | Text b :: _ => bind (if is_nil b then Ok [] else o_b64dec o b) (fun out => Ok (mkhashout h out))
      | _ => Err
      end)
  | _ => Err
  end.

Definition hashout_eqb (a b : hashout) : bool := N.eqb (ho_hash a) (ho_hash b) && beq (ho_out a) (ho_out b).
Definition hashout_c : codec hashout :=
  mkcodec (fun _ v => bind (hashout_tree v) one) hashout_un hashout_eqb.

Record ckey := mkckey { k_trusted : bool; k_id : bytes }.

Definition ckey_tr (v : ckey) : tree :=
  Elem (ln (if k_trusted v then str "trust" else str "distrust")) [] [Text (b64enc (k_id v))].

Definition ckey_un (o : oracles) (t : tree) : res ckey :=
  match t with
  | Elem n _ kids =>
      let tr := beq (nlocal n) (str "trust") in
      if negb tr && negb (beq (nlocal n) (str "distrust")) then Err
      else if negb (forallb (fun k => match k with Text _ => true | _ => false end) kids) then Err
      else
        let inner := direct_text kids in
        bind (if is_nil inner then Ok [] else o_b64dec o inner) (fun id => Ok (mkckey tr id))
  | _ => Err
  end.

Definition ckey_eqb (a b : ckey) : bool := Bool.eqb (k_trusted a) (k_trusted b) && beq (k_id a) (k_id b).
Definition ckey_c : codec ckey := mkcodec (fun _ v => one (ckey_tr v)) ckey_un ckey_eqb.

Record owned := mkowned { ow_owner : bytes; ow_keys : list ckey }.

Definition owned_tr (v : owned) : tree :=
  Elem (ln (str "key-owner")) [at_ (str "jid") (ow_owner v)] (map ckey_tr (ow_keys v)).

Definition owned_fields (o : oracles) : list (Schema.field owned) :=
  [ f_jid o (str "jid") ow_owner (fun s v => mkowned s (ow_keys v));
    f_sub KAny [] [] (ckey_un o) (fun k v => mkowned (ow_owner v) (ow_keys v ++ [k])) ].

Definition owned_un (o : oracles) (t : tree) : res owned :=
  unmarshal_struct (Some (ln (str "key-owner"))) (owned_fields o) (mkowned [] []) t.

Definition owned_eqb (a b : owned) : bool := beq (ow_owner a) (ow_owner b) && list_eqb ckey_eqb (ow_keys a) (ow_keys b).
Definition owned_c : codec owned := mkcodec (fun _ v => one (owned_tr v)) owned_un owned_eqb.

Record trustmsg := mktrust { tm_usage : bytes; tm_enc : bytes; tm_keys : list owned }.

Definition trust_tr (v : trustmsg) : tree :=
  Elem (mkname ns_trust (str "trust-message"))
    [at_ (str "usage") (tm_usage v); at_ (str "encryption") (tm_enc v)] (map owned_tr (tm_keys v)).

Definition trust_fields (o : oracles) : list (Schema.field trustmsg) :=
  [ f_str KAttr [] (str "usage") (fun s v => mktrust s (tm_enc v) (tm_keys v));
    f_str KAttr [] (str "encryption") (fun s v => mktrust (tm_usage v) s (tm_keys v));
    f_sub KElem [] (str "key-owner") (owned_un o) (fun k v => mktrust (tm_usage v) (tm_enc v) (tm_keys v ++ [k])) ].

Definition trust_un (o : oracles) (t : tree) : res trustmsg :=
  unmarshal_struct None (trust_fields o) (mktrust [] [] []) t.
Definition trust_eqb (a b : trustmsg) : bool :=
  beq (tm_usage a) (tm_usage b) && beq (tm_enc a) (tm_enc b) && list_eqb owned_eqb (tm_keys a) (tm_keys b).
Definition trust_c : codec trustmsg := mkcodec (fun _ v => one (trust_tr v)) trust_un trust_eqb.

(* ================= styling.Unstyled, receipts.Requested ================= *)

Definition ns_styling := str "urn:xmpp:styling:0".
Definition ns_receipts := str "urn:xmpp:receipts".

Definition flag_tr (n : name) (b : bool) : res (list tree) := Ok (if b then [Elem n [] []] else []).
Definition flag_un (n : name) (t : tree) : res bool :=
  match t with Elem m _ _ => Ok (name_eqb m n) | _ => Err end.

Definition unstyled_name := mkname ns_styling (str "unstyled").
Definition request_name := mkname ns_receipts (str "request").
(* Unstyled.TokenReader writes the element whatever the value (pinned by the
   package's tests); Requested.TokenReader writes it only for true *)
Definition unstyled_c : codec bool :=
  mkcodec (fun _ _ => Ok [Elem unstyled_name [] []]) (fun _ => flag_un unstyled_name) Bool.eqb.
Definition requested_c : codec bool := mkcodec (fun _ => flag_tr request_name) (fun _ => flag_un request_name) Bool.eqb.

(* ================= commands.Actions ================= *)

(* bit set: prev = 1, next = 2, complete = 4; bits 3..5 the default action *)
Definition act_name (i : N) : bytes :=
  if N.eqb i 1 then str "prev" else if N.eqb i 2 then str "next" else str "complete".

Definition actions_tr (a : N) : tree :=
  let a := (a mod 256)%N in
  let ex := N.land (N.shiftr a 3) 7 in
  Elem (ln (str "actions"))
    (if N.eqb ex 1 || N.eqb ex 2 || N.eqb ex 4 then [at_ (str "execute") (act_name ex)] else [])
    (flat_map (fun i => if N.eqb (N.land a i) 0 then [] else [Elem (ln (act_name i)) [] []]) [1; 2; 4]%N).

Definition act_bit (s : bytes) : N :=
  if beq s (str "prev") then 1 else if beq s (str "next") then 2 else if beq s (str "complete") then 4 else 0.

Fixpoint actions_kids (kids : list tree) (acc : N) : res N :=
  match kids with
  | [] => Ok acc
  | Elem n _ _ :: r => actions_kids r (N.lor acc (act_bit (nlocal n)))
  | _ => not_consumed
  end.

Definition actions_un (t : tree) : res N :=
  match t with
  | Elem _ attrs kids =>
      let ex := match attr_local (str "execute") attrs with Some v => N.shiftl (act_bit v) 3 | None => 0%N end in
      actions_kids kids ex
  | _ => Err
  end.

Definition actions_c : codec N := mkcodec (fun _ v => one (actions_tr v)) (fun _ => actions_un) N.eqb.

(* ================= history.Result (MAM fin) ================= *)

Definition ns_mam := str "urn:xmpp:mam:2".
Record hresult := mkhresult { hr_complete : bool; hr_unstable : bool; hr_set : rset }.

Definition hresult_tr (v : hresult) : tree :=
  Elem (mkname ns_mam (str "fin"))
    [at_ (str "complete") (fmt_bool (hr_complete v)); at_ (str "stable") (fmt_bool (negb (hr_unstable v)))]
    [rset_tr (hr_set v)].

Fixpoint hresult_attrs (a : list attr) (c u fc fs : bool) : bool * bool :=
  match a with
  | [] => (c, u)
  | x :: r =>
      if beq (nlocal (aname x)) (str "complete") then
        let c' := beq (aval x) (str "true") in
        if fs then (c', u) else hresult_attrs r c' u true fs
      else if beq (nlocal (aname x)) (str "stable") then
        let u' := beq (aval x) (str "false") in
        if fc then (c, u') else hresult_attrs r c u' fc true
      else hresult_attrs r c u fc fs
  end.

Definition hresult_un (t : tree) : res hresult :=
  match t with
  | Elem _ attrs kids =>
      let '(c, u) := hresult_attrs attrs false false false false in
      match kids with
      | [] => Ok (mkhresult c u zero_rset)
      | (Elem _ _ _ as k) :: _ => bind (rset_un k) (fun s => Ok (mkhresult c u s))
      | _ => not_consumed
      end
  | _ => Err
  end.

Definition hresult_eqb (a b : hresult) : bool :=
  Bool.eqb (hr_complete a) (hr_complete b) && Bool.eqb (hr_unstable a) (hr_unstable b) && rset_eqb (hr_set a) (hr_set b).
Definition hresult_c : codec hresult := mkcodec (fun _ v => one (hresult_tr v)) (fun _ => hresult_un) hresult_eqb.

(* ================= file.Meta (XEP-0446) ================= *)

Definition ns_meta := str "urn:xmpp:file:metadata:0".
Record fmeta := mkfmeta {
  fm_media : bytes; fm_name : bytes; fm_date : tm; fm_size : N; fm_hash : hashout;
  fm_width : N; fm_height : N; fm_length : N }.
Definition meta_name := mkname ns_meta (str "file").
Definition zero_hashout := mkhashout 0 [].

(* after the repairs the hash element is left out when no hash is set and the
   date is written in UTC *)
Definition fmeta_tr (o : oracles) (v : fmeta) : res (list tree) :=
  bind (if N.eqb (ho_hash (fm_hash v)) 0 && is_nil (ho_out (fm_hash v)) then Ok []
        else rmap (fun t => [t]) (hashout_tree (fm_hash v))) (fun h =>
  one (Elem meta_name []
         ([leaf (str "media-type") (fm_media v); leaf (str "name") (fm_name v);
           leaf (str "date") (o_tfmt o L_utc_nano (fm_date v));
           leaf (str "size") (dec (fm_size v))] ++ h ++
          [leaf (str "width") (dec (fm_width v)); leaf (str "height") (dec (fm_height v));
           leaf (str "length") (dec (fm_length v))]))).

Definition fmeta_fields (o : oracles) : list (Schema.field fmeta) :=
  [ f_str KElem [] (str "media-type") (fun s v => mkfmeta s (fm_name v) (fm_date v) (fm_size v) (fm_hash v) (fm_width v) (fm_height v) (fm_length v));
    f_str KElem [] (str "name") (fun s v => mkfmeta (fm_media v) s (fm_date v) (fm_size v) (fm_hash v) (fm_width v) (fm_height v) (fm_length v));
    f_conv KElem [] (str "date") (o_tparse o P_text) (fun d v => mkfmeta (fm_media v) (fm_name v) d (fm_size v) (fm_hash v) (fm_width v) (fm_height v) (fm_length v));
    f_uint KElem (str "size") (fun n v => mkfmeta (fm_media v) (fm_name v) (fm_date v) n (fm_hash v) (fm_width v) (fm_height v) (fm_length v));
    f_sub KElem [] (str "hash") (hashout_un o) (fun h v => mkfmeta (fm_media v) (fm_name v) (fm_date v) (fm_size v) h (fm_width v) (fm_height v) (fm_length v));
    f_uint KElem (str "width") (fun n v => mkfmeta (fm_media v) (fm_name v) (fm_date v) (fm_size v) (fm_hash v) n (fm_height v) (fm_length v));
    f_uint KElem (str "height") (fun n v => mkfmeta (fm_media v) (fm_name v) (fm_date v) (fm_size v) (fm_hash v) (fm_width v) n (fm_length v));
    f_uint KElem (str "length") (fun n v => mkfmeta (fm_media v) (fm_name v) (fm_date v) (fm_size v) (fm_hash v) (fm_width v) (fm_height v) n) ].

Definition fmeta_un (o : oracles) (t : tree) : res fmeta :=
  unmarshal_struct (Some meta_name) (fmeta_fields o) (mkfmeta [] [] zero_tm 0 zero_hashout 0 0 0) t.

Definition fmeta_eqb (a b : fmeta) : bool :=
  beq (fm_media a) (fm_media b) && beq (fm_name a) (fm_name b) && tm_eqb (fm_date a) (fm_date b) &&
  N.eqb (fm_size a) (fm_size b) && hashout_eqb (fm_hash a) (fm_hash b) && N.eqb (fm_width a) (fm_width b) &&
  N.eqb (fm_height a) (fm_height b) && N.eqb (fm_length a) (fm_length b).
Definition fmeta_c : codec fmeta := mkcodec fmeta_tr fmeta_un fmeta_eqb.

(* ================= pubsub.Condition (decoding only) ================= *)

Definition pubsub_conditions : list bytes :=
  map str [ "closed-node"; "configuration-required"; "invalid-jid"; "invalid-options"; "invalid-payload";
            "invalid-subid"; "item-forbidden"; "item-required"; "jid-required"; "max-items-exceeded";
            "max-nodes-exceeded"; "nodeid-required"; "not-in-roster-group"; "not-subscribed";
            "payload-too-big"; "payload-required"; "pending-subscription";
            "presence-subscription-required"; "subid-required"; "too-many-subscriptions"; "unsupported";
            "unsupported-access-model" ]%string.

Fixpoint cond_index (s : bytes) (l : list bytes) (i : N) : N :=
  match l with [] => 0%N | c :: r => if beq c s then i else cond_index s r (i + 1)%N end.

Definition pcond_un (t : tree) : res N :=
  match t with Elem n _ _ => Ok (cond_index (nlocal n) pubsub_conditions 1) | _ => Err end.

Definition pcond_c : codec N := mkcodec (fun _ _ => Ok []) (fun _ => pcond_un) N.eqb.

(* ================= history.Query (MAM) ================= *)

Record hquery := mkhquery {
  hq_id : bytes; hq_with : bytes; hq_start : tm; hq_end : tm; hq_before : bytes; hq_after : bytes;
  hq_ids : list bytes; hq_limit : N; hq_last : bool; hq_page : bytes; hq_reverse : bool }.

Definition tm_is_zero (t : tm) : bool := Z.eqb (t_sec t) (t_sec zero_tm) && N.eqb (t_nsec t) 0.

(* dataForm.Set with the result ignored *)
Definition set_ (jp : bytes -> res bytes) (d : data) (id : bytes) (v : fval) : data :=
  match set d id v with Ok (d', _, _) => d' | _ => d end.

Definition hquery_form (o : oracles) (q : hquery) : data :=
  let jp := o_jid o in
  let d := new_form [ FField t_hidden (str "FORM_TYPE") [OValue ns_mam]; FField t_jid (str "with") [];
                      FField t_text (str "start") []; FField t_text (str "end") [];
                      FField t_text (str "after-id") []; FField t_text (str "before-id") [];
                      FField t_list_multi (str "ids") [] ] in
  let d := if is_nil (hq_with q) then d else set_ jp d (str "with") (VJid (hq_with q)) in
  let d := if tm_is_zero (hq_start q) then d else set_ jp d (str "start") (VStr (o_tfmt o L_utc_nano (hq_start q))) in
  let d := if tm_is_zero (hq_end q) then d else set_ jp d (str "end") (VStr (o_tfmt o L_utc_nano (hq_end q))) in
  let d := if is_nil (hq_after q) then d else set_ jp d (str "after-id") (VStr (hq_after q)) in
  let d := if is_nil (hq_before q) then d else set_ jp d (str "before-id") (VStr (hq_before q)) in
  if is_nil (hq_ids q) then d else set_ jp d (str "ids") (VStrs (hq_ids q)).

Definition hquery_name := mkname ns_mam (str "query").

Definition hquery_tr (o : oracles) (q : hquery) : res (list tree) :=
  bind (submit (o_jid o) (Some (hquery_form o q))) (fun '(filter, _) =>
  one (Elem hquery_name [at_ (str "queryid") (hq_id q)]
         ([filter;
           if hq_last q then rprev_tr (mkrprev (hq_limit q) (hq_page q))
           else rnext_tr (mkrnext (hq_limit q) (hq_page q))] ++
          (if hq_reverse q then [Elem (ln (str "flip-page")) [] []] else [])))).

Record hq_raw := mkhqraw {
  hw_id : bytes; hw_form : option data; hw_flip : bool; hw_max : N; hw_after : bytes; hw_before : option bytes }.

Definition hq_set_fields : list (Schema.field hq_raw) :=
  [ f_uint KElem (str "max") (fun n r => mkhqraw (hw_id r) (hw_form r) (hw_flip r) n (hw_after r) (hw_before r));
    f_str KElem [] (str "after") (fun s r => mkhqraw (hw_id r) (hw_form r) (hw_flip r) (hw_max r) s (hw_before r));
    f_str KElem [] (str "before") (fun s r => mkhqraw (hw_id r) (hw_form r) (hw_flip r) (hw_max r) (hw_after r) (Some s)) ].

Definition hq_fields (o : oracles) : list (Schema.field hq_raw) :=
  [ f_str KAttr [] (str "queryid") (fun s r => mkhqraw s (hw_form r) (hw_flip r) (hw_max r) (hw_after r) (hw_before r));
    mkfield KElem ns_form (str "x") (fun t r =>
      bind (unmarshal_into (match hw_form r with Some d => d | None => zero_data end) t) (fun d =>
      Ok (mkhqraw (hw_id r) (Some d) (hw_flip r) (hw_max r) (hw_after r) (hw_before r))));
    mkfield KElem [] (str "flip-page") (fun t r =>
      bind (unmarshal_struct (Some (ln (str "flip-page"))) [] tt t) (fun _ =>
      Ok (mkhqraw (hw_id r) (hw_form r) true (hw_max r) (hw_after r) (hw_before r))));
    mkfield KElem ns_rsm (str "set") (fun t r => unmarshal_struct (Some set_name) hq_set_fields r t) ].

Definition get_string (jp : bytes -> res bytes) (d : option data) (id : bytes) : res (bytes * bool) :=
  bind (get jp d id) (fun '(v, ok) =>
  Ok (match v, ok with VStr s, true => (s, true) | _, _ => ([], false) end)).

(* after the repairs: Get through a nil form answers "not set"; the page
   identifier is taken from <after/> or <before/> *)
Definition hquery_un (o : oracles) (t : tree) : res hquery :=
  let jp := o_jid o in
  bind (unmarshal_struct (Some hquery_name) (hq_fields o) (mkhqraw [] None false 0 [] None) t) (fun r =>
  let f := hw_form r in
  bind (get jp f (str "with")) (fun '(wv, wok) =>
  let with_ := match wv, wok with VJid j, true => j | _, _ => [] end in
  bind (get_string jp f (str "start")) (fun '(ss, sok) =>
  bind (if sok then o_tparse o P_rfc3339 ss else Ok zero_tm) (fun start =>
  bind (get_string jp f (str "end")) (fun '(es, eok) =>
  bind (if eok then o_tparse o P_rfc3339 es else Ok zero_tm) (fun end_ =>
  bind (get_string jp f (str "before-id")) (fun '(bs, _) =>
  bind (get_string jp f (str "after-id")) (fun '(as_, _) =>
  bind (get jp f (str "ids")) (fun '(iv, iok) =>
  let ids := match iv, iok with VStrs l, true => l | _, _ => [] end in
  let last := match hw_before r with Some _ => true | None => false end in
  Ok (mkhquery (hw_id r) with_ start end_ bs as_ ids (hw_max r) last
        (match hw_before r with Some b => b | None => hw_after r end) (hw_flip r))))))))))).

Definition hquery_eqb (a b : hquery) : bool :=
  beq (hq_id a) (hq_id b) && beq (hq_with a) (hq_with b) && tm_eqb (hq_start a) (hq_start b) &&
  tm_eqb (hq_end a) (hq_end b) && beq (hq_before a) (hq_before b) && beq (hq_after a) (hq_after b) &&
  list_eqb beq (hq_ids a) (hq_ids b) && N.eqb (hq_limit a) (hq_limit b) && Bool.eqb (hq_last a) (hq_last b) &&
  beq (hq_page a) (hq_page b) && Bool.eqb (hq_reverse a) (hq_reverse b).

Definition hquery_c : codec hquery := mkcodec hquery_tr hquery_un hquery_eqb.

(* ================= bookmarks.Channel (XEP-0402) ================= *)

Definition ns_bookmarks := str "urn:xmpp:bookmarks:1".
(* the extensions are raw XML in the Go value; here the forest the code reads
   from them with xml.NewDecoder, and whether the byte string is non-empty *)
Record channel := mkchannel {
  ch_autojoin : bool; ch_name : bytes; ch_nick : bytes; ch_password : bytes;
  ch_hasext : bool; ch_ext : list tree }.
Definition conference_name := mkname ns_bookmarks (str "conference").

Definition channel_tr (v : channel) : tree :=
  Elem conference_name
    ([at_ (str "autojoin") (fmt_bool (ch_autojoin v))] ++ opt_attr (str "name") (ch_name v))
    (opt_leaf (str "nick") (ch_nick v) ++ opt_leaf (str "password") (ch_password v) ++
     (if ch_hasext v then [Elem (ln (str "extensions")) [] (ch_ext v)] else [])).

(* decoding: the extensions come back as raw inner XML, which is outside the
   tree model: they are not compared here (see the oracle in the harness) *)
Definition channel_fields : list (Schema.field channel) :=
  [ f_str KAttr [] (str "name") (fun s v => mkchannel (ch_autojoin v) s (ch_nick v) (ch_password v) false []);
    f_conv KAttr [] (str "autojoin") copy_bool (fun b v => mkchannel b (ch_name v) (ch_nick v) (ch_password v) false []);
    f_str KElem [] (str "nick") (fun s v => mkchannel (ch_autojoin v) (ch_name v) s (ch_password v) false []);
    f_str KElem [] (str "password") (fun s v => mkchannel (ch_autojoin v) (ch_name v) (ch_nick v) s false []) ].

Definition channel_un (t : tree) : res channel :=
  unmarshal_struct (Some conference_name) channel_fields (mkchannel false [] [] [] false []) t.

Definition channel_eqb (a b : channel) : bool :=
  Bool.eqb (ch_autojoin a) (ch_autojoin b) && beq (ch_name a) (ch_name b) && beq (ch_nick a) (ch_nick b) &&
  beq (ch_password a) (ch_password b).

Definition channel_c : codec channel := mkcodec (fun _ v => one (channel_tr v)) (fun _ => channel_un) channel_eqb.

(* ================= upload.Slot ================= *)

(* headers: the values per allowed name, in the order Authorization, Cookie,
   Expires (the harness sorts the observed children by name: Go's map order is
   not fixed) *)
Record slot := mkslot { sl_put : option bytes; sl_get : option bytes;
                        sl_auth : list bytes; sl_cookie : list bytes; sl_expires : list bytes }.
Definition slot_name := mkname ns_upload (str "slot").

Definition header_tree (name v : bytes) : tree := Elem (ln (str "header")) [at_ (str "name") name] [Text v].

Definition slot_tr (v : slot) : tree :=
  Elem slot_name []
    [ Elem (ln (str "put")) [at_ (str "url") (match sl_put v with Some u => u | None => [] end)]
        (map (header_tree (str "Authorization")) (sl_auth v) ++ map (header_tree (str "Cookie")) (sl_cookie v) ++
         map (header_tree (str "Expires")) (sl_expires v));
      Elem (ln (str "get")) [at_ (str "url") (match sl_get v with Some u => u | None => [] end)] [] ].

Definition lower (c : byte) : byte :=
  let n := bN c in if (65 <=? n)%N && (n <=? 90)%N then byte_of_N (n + 32) else c.
Definition ieq (a b : bytes) : bool := beq (map lower a) (map lower b).

Record slot_raw := mkslotraw { sr_put : bytes; sr_get : bytes; sr_hdrs : list (bytes * bytes) }.

Definition hdr_fields : list (Schema.field (bytes * bytes)) :=
  [ f_str KAttr [] (str "name") (fun s p => (s, snd p)); f_str KChar [] [] (fun s p => (fst p, s)) ].

Definition put_fields : list (Schema.field slot_raw) :=
  [ f_str KAttr [] (str "url") (fun s r => mkslotraw s (sr_get r) (sr_hdrs r));
    f_sub KElem [] (str "header") (unmarshal_struct None hdr_fields ([], []))
      (fun h r => mkslotraw (sr_put r) (sr_get r) (sr_hdrs r ++ [h])) ].

Definition get_fields : list (Schema.field slot_raw) :=
  [ f_str KAttr [] (str "url") (fun s r => mkslotraw (sr_put r) s (sr_hdrs r)) ].

Definition slot_fields : list (Schema.field slot_raw) :=
  [ mkfield KElem [] (str "put") (fun t r => unmarshal_struct None put_fields r t);
    mkfield KElem [] (str "get") (fun t r => unmarshal_struct None get_fields r t) ].

Definition vals_of (name : bytes) (h : list (bytes * bytes)) : list bytes :=
  map snd (filter (fun p => ieq (fst p) name) h).

Definition slot_un (o : oracles) (t : tree) : res slot :=
  bind (unmarshal_struct (Some slot_name) slot_fields (mkslotraw [] [] []) t) (fun r =>
  bind (if is_nil (sr_get r) then Ok None else rmap Some (o_url o (sr_get r))) (fun g =>
  bind (if is_nil (sr_put r) then Ok None else rmap Some (o_url o (sr_put r))) (fun p =>
  Ok (mkslot p g (vals_of (str "Authorization") (sr_hdrs r)) (vals_of (str "Cookie") (sr_hdrs r))
        (vals_of (str "Expires") (sr_hdrs r)))))).

Definition optb_eqb (a b : option bytes) : bool :=
  match a, b with Some x, Some y => beq x y | None, None => true | _, _ => false end.
Definition slot_eqb (a b : slot) : bool :=
  optb_eqb (sl_put a) (sl_put b) && optb_eqb (sl_get a) (sl_get b) && list_eqb beq (sl_auth a) (sl_auth b) &&
  list_eqb beq (sl_cookie a) (sl_cookie b) && list_eqb beq (sl_expires a) (sl_expires b).
Definition slot_c : codec slot := mkcodec (fun _ v => one (slot_tr v)) slot_un slot_eqb.

(* ================= internal/saslerr: Condition, Error (<failure/>) ================= *)

Definition ns_sasl := str "urn:ietf:params:xml:ns:xmpp-sasl".

(* the stringer table of Condition, index = value *)
Definition sasl_conditions : list bytes :=
  map str [ "none"; "aborted"; "account-disabled"; "credentials-expired"; "encryption-required";
            "incorrect-encoding"; "invalid-authzid"; "invalid-mechanism"; "malformed-request";
            "mechanism-too-weak"; "not-authorized"; "temporary-auth-failure" ]%string.

Definition sasl_count : N := N.of_nat (length sasl_conditions).

(* Condition.TokenReader writes an element for the values strictly between
   ConditionNone and the length of the table; for ConditionNone and for every
   value at or beyond the table it writes nothing at all *)
Definition sasl_name (c : N) : option bytes :=
  if N.eqb c 0 || (sasl_count <=? c)%N then None else nth_error sasl_conditions (N.to_nat c).

Definition scond_tr (c : N) : list tree :=
  match sasl_name c with Some n => [Elem (ln n) [] []] | None => [] end.

(* Condition.UnmarshalXML: the first defined condition (ConditionNone excluded)
   whose name is the element's local name; otherwise the destination is kept *)
Fixpoint scond_find (s : bytes) (l : list bytes) (i : N) : option N :=
  match l with [] => None | n :: r => if beq n s then Some i else scond_find s r (i + 1)%N end.

Definition scond_dec (s : bytes) (cur : N) : N :=
  match scond_find s (tl sasl_conditions) 1 with Some i => i | None => cur end.

Definition scond_un (t : tree) : res N :=
  match t with Elem n _ _ => Ok (scond_dec (nlocal n) 0) | _ => Err end.

Definition scond_c : codec N := mkcodec (fun _ c => Ok (scond_tr c)) (fun _ => scond_un) N.eqb.

Record saslerr := mksaslerr { se_cond : N; se_lang : bytes; se_text : bytes }.

Definition failure_name := mkname ns_sasl (str "failure").

Definition saslerr_tr (v : saslerr) : tree :=
  Elem failure_name []
    (scond_tr (se_cond v) ++
     (if is_nil (se_text v) then []
      else [Elem (ln (str "text"))
              (if is_nil (se_lang v) then [] else [mkattr (mkname xml_ns (str "lang")) (se_lang v)])
              [Text (se_text v)]])).

Record sasl_raw := mksaslraw { sw_cond : N; sw_texts : list (bytes * bytes) }.

Definition sasl_text_fields : list (Schema.field (bytes * bytes)) :=
  [ f_str KAttr xml_ns (str "lang") (fun s p => (s, snd p)); f_str KChar [] [] (fun s p => (fst p, s)) ].

Definition saslerr_fields : list (Schema.field sasl_raw) :=
  [ mkfield KAny [] [] (fun t r => Ok (mksaslraw (scond_dec (nlocal (tree_name t)) (sw_cond r)) (sw_texts r)));
    f_sub KElem [] (str "text") (unmarshal_struct None sasl_text_fields ([], []))
      (fun p r => mksaslraw (sw_cond r) (sw_texts r ++ [p])) ].

(* Error.UnmarshalXML into a zero value: the condition, and the first text *)
Definition saslerr_un (t : tree) : res saslerr :=
  bind (unmarshal_struct None saslerr_fields (mksaslraw 0 []) t) (fun r =>
  Ok (match sw_texts r with
      | [] => mksaslerr (sw_cond r) [] []
      | (l, d) :: _ => mksaslerr (sw_cond r) l d
      end)).

Definition saslerr_eqb (a b : saslerr) : bool :=
  N.eqb (se_cond a) (se_cond b) && beq (se_lang a) (se_lang b) && beq (se_text a) (se_text b).

Definition saslerr_c : codec saslerr := mkcodec (fun _ v => one (saslerr_tr v)) (fun _ => saslerr_un) saslerr_eqb.

(* ================= decoding into a destination that already holds a value ================= *)

(* crypto.Key.UnmarshalXML re-uses the KeyID buffer of the destination:
     expectedLen := DecodedLen(len(inner))
     if len(k.KeyID) < expectedLen { k.KeyID = make([]byte, expectedLen) }
     decoded := Decode(k.KeyID, inner)             (writes the first [decoded] bytes)
     if decoded < len(k.KeyID) { k.KeyID = k.KeyID[:decoded] }
   [guard_on_explen] is the variant that trims only when decoded < expectedLen *)
Definition decoded_len (n : nat) : nat := n / 4 * 3.

Definition key_buf (guard_on_explen : bool) (old data : bytes) (explen : nat) : bytes :=
  let buf := if length old <? explen then repeat x00 explen else old in
  let w := data ++ skipn (length data) buf in
  if (if guard_on_explen then length data <? explen else length data <? length buf)
  then firstn (length data) w else w.

Definition ckey_un_into_gen (g : bool) (old : ckey) (o : oracles) (t : tree) : res ckey :=
  match t with
  | Elem n _ kids =>
      let tr := beq (nlocal n) (str "trust") in
      if negb tr && negb (beq (nlocal n) (str "distrust")) then Err
      else if negb (forallb (fun k => match k with Text _ => true | _ => false end) kids) then Err
      else
        let inner := direct_text kids in
        bind (if is_nil inner then Ok [] else o_b64dec o inner) (fun id =>
        Ok (mkckey tr (key_buf g (k_id old) id (decoded_len (length inner)))))
  | _ => Err
  end.

Definition ckey_un_into := ckey_un_into_gen false.

(* crypto.HashOutput.UnmarshalXML: the buffer is grown to the decoded length,
   written from the start and always cut to the number of bytes decoded *)
Definition hash_buf (old data : bytes) (l : nat) : bytes :=
  firstn (length data) (data ++ skipn (length data) (old ++ repeat x00 (l - length old))).

Definition hashout_un_into (old : hashout) (o : oracles) (t : tree) : res hashout :=
  match t with
  | Elem _ attrs kids =>
      bind (hash_algo attrs) (fun h =>
      match kids with
      | [] => Err
      | Text b :: _ => bind (if is_nil b then Ok [] else o_b64dec o b) (fun out =>
                       Ok (mkhashout h (hash_buf (ho_out old) out (decoded_len (length b)))))
      | _ => Err
      end)
  | _ => Err
  end.

(* saslerr.Error.UnmarshalXML: the condition comes from a local zero struct; language and text
   are assigned only when there is a text element *)
Definition saslerr_un_into (old : saslerr) (t : tree) : res saslerr :=
  bind (unmarshal_struct None saslerr_fields (mksaslraw 0 []) t) (fun r =>
  Ok (match sw_texts r with
      | [] => mksaslerr (sw_cond r) (se_lang old) (se_text old)
      | (l, d) :: _ => mksaslerr (sw_cond r) l d
      end)).
