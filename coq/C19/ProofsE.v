(* C19/ProofsE.v — history.Result, bin.Data, bookmarks.Channel. *)
From Coq Require Import ZArith Lia.
From XV Require Import lib.Bytes lib.Xml lib.Schema C19.Form C19.Types C19.Spec C19.ProofsLib C19.ProofsTypes
  C19.ProofsA C19.ProofsC.

Arguments jid_attr : simpl never.
Arguments copy_uint : simpl never.
Arguments copy_int : simpl never.
Arguments dec : simpl never.
Arguments b64enc : simpl never.

Lemma wire_explicit ns n a k : is_nil (nspace n) = false -> wire ns (Elem n a k) = [wire1 (Elem n a k)].
Proof. intro H. unfold wire1. cbn [wire]. rewrite H. reflexivity. Qed.

(* ================= history.Result ================= *)

Definition dummy_or : oracles :=
  mkor (fun _ => Err) (fun _ _ => []) (fun _ _ => Err) (fun _ => Err) (fun _ => Err) (fun _ => []).

Definition rset_dom (v : rset) : Prop := fits64o (rs_index v) /\ fits64o (rs_count v).

Lemma rset_un_both s : rset_dom s -> rset_un (rset_tr s) = Ok s /\ rset_un (wire1 (rset_tr s)) = Ok s.
Proof.
  intro H. destruct (rset_roundtrip dummy_or s H) as [t [E [H1 H2]]].
  cbn in E. inversion E; subst. split; assumption.
Qed.

Definition fin_name := mkname ns_mam (str "fin").

Lemma hresult_roundtrip : roundtrip hresult_c (fun _ v => rset_dom (hr_set v)) (fun v => v).
Proof.
  intros o [c u s] H. cbn in H. eexists; split; [reflexivity|].
  destruct (rset_un_both s H) as [H1 H2].
  unfold hresult_c, c_dec, hresult_un, hresult_tr; cbn [hr_complete hr_unstable hr_set]. split.
  - destruct c, u; cbn -[rset_un rset_tr]; rewrite H1; reflexivity.
  - rewrite wire1_elem. cbn [nspace nlocal is_nil app flat_map].
    unfold rset_tr at 1. rewrite (wire_explicit ns_mam set_name) by reflexivity. fold (rset_tr s).
    remember (wire1 (rset_tr s)) as w eqn:Ew. unfold rset_tr in Ew. rewrite wire1_elem in Ew.
    destruct w as [wn wa wk|b|k b]; try discriminate Ew. clear Ew.
    cbn [app merge_text]. destruct c, u; cbn -[rset_un]; rewrite H2; reflexivity.
Qed.

Definition hresult_els := fin_name :: rsm_els.
Definition hresult_ats := [ln (str "complete"); ln (str "stable"); ln (str "index")].

Lemma hresult_wellformed : wellformed hresult_c hresult_els hresult_ats.
Proof.
  wf. destruct v as [c u [f i l n]]. unfold hresult_tr, rset_tr; cbn [hr_complete hr_unstable hr_set rs_first rs_index rs_last rs_count].
  destruct i, n; reflexivity.
Qed.

Lemma hresult_dec_total : dec_total hresult_c.
Proof.
  intros o t _. destruct t as [n a k|b|k b]; cbn [hresult_c c_dec hresult_un]; try exact I.
  destruct (hresult_attrs a false false false false) as [c u].
  destruct k as [|[] r]; try exact I.
  apply bind_safe; [apply rset_un_into_safe|]. intro; exact I.
Qed.

(* ================= bin.Data ================= *)

(* max-age is written in whole seconds (FormatFloat of Duration.Seconds with no
   decimals: rounded to the nearest second) and read back as an integer [n] of
   seconds; [n] is what strconv makes of the oracle's text *)
Definition bob_norm (n : Z) (v : bob) : bob :=
  if bb_nocache v then mkbob (bb_cid v) 0 true (bb_type v) (bb_data v)
  else if (0 <? bb_maxage v)%Z then mkbob (bb_cid v) (wrap64 (n * 1000000000)) (Z.eqb n 0) (bb_type v) (bb_data v)
  else mkbob (bb_cid v) 0 false (bb_type v) (bb_data v).

Definition bob_dom (o : oracles) (n : Z) (v : bob) : Prop :=
  b64_roundtrip o (bb_data v) /\
  (bb_nocache v = false -> (0 < bb_maxage v)%Z -> copy_int (o_dursec o (bb_maxage v)) = Ok n).

Lemma bob_roundtrip o n v : bob_dom o n v ->
  exists t, c_enc bob_c o v = Ok [t] /\ c_dec bob_c o t = Ok (bob_norm n v) /\ c_dec bob_c o (wire1 t) = Ok (bob_norm n v).
Proof.
  destruct v as [cid age nc ty data]. intros [Hb Ha]. cbn in Hb, Ha. eexists; split; [reflexivity|].
  unfold bob_c, c_dec, bob_un, bob_tr, bob_norm, opt_attr; cbn [bb_cid bb_maxage bb_nocache bb_type bb_data].
  assert (Hd : (if is_nil (b64enc data) then Ok [] else o_b64dec o (b64enc data)) = Ok data).
  { destruct Hb as [->|Hb]; [reflexivity|]. destruct data as [|d0 dr]; [reflexivity|].
    destruct (b64enc (d0 :: dr)) eqn:Ee; [exfalso; exact (b64enc_nonnil (d0 :: dr) ltac:(discriminate) Ee)|exact Hb]. }
  destruct nc.
  - destruct (is_nil data) eqn:En.
    + destruct data; [|discriminate]. destruct ty, cid; cbn; change (copy_int ["0"%byte]) with (@Ok Z 0%Z); cbn; split; reflexivity.
    + destruct (b64enc data) as [|e0 e] eqn:Ee; [exfalso; apply (b64enc_nonnil data); [intro; subst; discriminate|exact Ee]|].
      cbn [is_nil] in Hd. destruct ty, cid; cbn; change (copy_int ["0"%byte]) with (@Ok Z 0%Z); cbn; rewrite ?app_nil_r, Hd; split; reflexivity.
  - destruct (0 <? age)%Z eqn:Eage.
    + specialize (Ha eq_refl (proj1 (Z.ltb_lt _ _) Eage)).
      destruct (is_nil data) eqn:En.
      * destruct data; [|discriminate]. destruct ty, cid; cbn; rewrite Ha; cbn; split; reflexivity.
      * destruct (b64enc data) as [|e0 e] eqn:Ee; [exfalso; apply (b64enc_nonnil data); [intro; subst; discriminate|exact Ee]|].
        cbn [is_nil] in Hd. destruct ty, cid; cbn; rewrite Ha; cbn; rewrite ?app_nil_r, Hd; split; reflexivity.
    + destruct (is_nil data) eqn:En.
      * destruct data; [|discriminate]. destruct ty, cid; cbn; split; reflexivity.
      * destruct (b64enc data) as [|e0 e] eqn:Ee; [exfalso; apply (b64enc_nonnil data); [intro; subst; discriminate|exact Ee]|].
        cbn [is_nil] in Hd. destruct ty, cid; cbn; rewrite ?app_nil_r, Hd; split; reflexivity.
Qed.

Lemma bob_wellformed : wellformed bob_c [bob_name] [ln (str "type"); ln (str "max-age"); ln (str "cid")].
Proof.
  wf. destruct v as [cid age nc ty data]. unfold bob_tr, opt_attr; cbn [bb_cid bb_maxage bb_nocache bb_type bb_data].
  destruct ty, nc, (0 <? age)%Z, cid, (is_nil data); reflexivity.
Qed.

Lemma bob_dec_total : dec_total bob_c.
Proof.
  intros o t H. unfold bob_c, c_dec, bob_un.
  apply bind_safe; [apply unmarshal_struct_safe; unfold bob_fields; fsafe|]. intro r.
  apply bind_safe; [|intro; exact I]. destruct (is_nil _); [exact I|apply (os_b64 o H)].
Qed.

(* ================= bookmarks.Channel ================= *)

(* the extensions are outside the tree model (raw inner XML): the decoded
   value is compared up to them; see the known finding on decoding them from a
   token stream *)
Definition channel_norm (v : channel) : channel :=
  mkchannel (ch_autojoin v) (ch_name v) (ch_nick v) (ch_password v) false [].

Lemma channel_roundtrip : roundtrip channel_c any channel_norm.
Proof.
  intros o [aj n k p he ext] _. eexists; split; [reflexivity|].
  unfold channel_c, c_dec, channel_un, channel_tr, channel_norm, opt_attr, opt_leaf;
    cbn [ch_autojoin ch_name ch_nick ch_password ch_hasext ch_ext].
  destruct aj, n, k, p, he; cbn; rewrite ?app_nil_r; split; reflexivity.
Qed.

Definition channel_els := [conference_name; ln (str "nick"); ln (str "password"); ln (str "extensions")].
Definition channel_ats := [ln (str "autojoin"); ln (str "name")].

(* names: of the frame the library writes; the extensions are the caller's XML *)
Lemma channel_wellformed : forall o v ts, ch_hasext v = false -> c_enc channel_c o v = Ok ts ->
  forest_wellformed channel_els channel_ats ts.
Proof.
  intros o v ts Hx E. cbn in E. inversion E; subst; clear E. apply forest_wellformed_intro; try reflexivity.
  destruct v as [aj n k p he ext]. cbn in Hx. subst. unfold channel_tr, opt_attr, opt_leaf;
    cbn [ch_autojoin ch_name ch_nick ch_password ch_hasext ch_ext].
  destruct n, k, p; reflexivity.
Qed.

Lemma channel_dec_total : dec_total channel_c.
Proof. intros o t _. apply unmarshal_struct_safe. unfold channel_fields. fsafe. Qed.
