(* C19/ProofsB.v — payloads carrying times and addresses: delay.Delay,
   stanza.Delay, xtime.Time, forward.Forwarded. Times are abstract
   (instant, offset) values; the time package is an oracle whose assumed
   round-trip behaviour is a named premise. *)
From Coq Require Import ZArith Lia.
From XV Require Import lib.Bytes lib.Xml lib.Schema C19.Form C19.Types C19.Spec C19.ProofsLib C19.ProofsTypes C19.ProofsA.

Arguments jid_attr : simpl never.

Definition delay_dom (o : oracles) (v : delay) : Prop :=
  time_utc_roundtrip o (dl_time v) /\ jid_canon o (dl_from v).

Definition delay_norm (v : delay) : delay := mkdelay (dl_from v) (utc (dl_time v)) (dl_reason v).

Lemma delay_un_tr o v : delay_dom o v ->
  delay_un o (delay_tr o v) = Ok (delay_norm v) /\ delay_un o (wire1 (delay_tr o v)) = Ok (delay_norm v).
Proof.
  destruct v as [f t r]. intros [Ht Hj]. cbn in Ht, Hj.
  unfold time_utc_roundtrip in Ht.
  unfold delay_un, delay_un_into, delay_tr, delay_norm, opt_attr; cbn [dl_from dl_time dl_reason].
  destruct f as [|f0 f], r as [|r0 r]; cbn; rewrite Ht; cbn; rewrite ?(jid_attr_canon o _ _ Hj); cbn; split; reflexivity.
Qed.

Lemma delay_roundtrip : roundtrip delay_c delay_dom delay_norm.
Proof. intros o v H. eexists; split; [reflexivity|]. apply delay_un_tr; exact H. Qed.

Definition delay_ats := [ln (str "stamp"); ln (str "from")].

Lemma delay_tr_names o v : names_within [forwarded_name; delay_name] delay_ats (delay_tr o v) = true.
Proof. destruct v as [f t r]; unfold delay_tr, opt_attr; cbn [dl_from dl_time dl_reason]. destruct f, r; reflexivity. Qed.

Lemma delay_wellformed : wellformed delay_c [forwarded_name; delay_name] delay_ats.
Proof. wf. cbn [forallb]. rewrite delay_tr_names. reflexivity. Qed.

Lemma delay_attrs_safe o a v fs ff : or_safe o -> safe (delay_attrs o a v fs ff).
Proof.
  intro H. revert v fs ff. induction a as [|x r IH]; intros v fs ff; cbn [delay_attrs]; [exact I|].
  destruct (_ && _); [apply IH|].
  destruct (beq _ (str "stamp")).
  - apply bind_safe; [apply (os_tparse o H)|]. intro t. destruct ff; [exact I|apply IH].
  - destruct (beq _ (str "from")); [|apply IH].
    apply bind_safe; [apply jid_attr_safe; exact H|]. intro j. destruct fs; [exact I|apply IH].
Qed.

Lemma delay_un_into_safe o init t : or_safe o -> safe (delay_un_into o init t).
Proof.
  intro H. destruct t as [n a k|b|k b]; cbn [delay_un_into]; try exact I.
  apply bind_safe; [apply delay_attrs_safe; exact H|]. intro v. destruct k as [|[]]; exact I.
Qed.

Lemma delay_dec_total : dec_total delay_c.
Proof. intros o t H. apply delay_un_into_safe; exact H. Qed.

(* ---- stanza.Delay ---- *)

Lemma sdelay_roundtrip : roundtrip sdelay_c delay_dom delay_norm.
Proof.
  intros o [f t r] [Ht Hj]. cbn in Ht, Hj. eexists; split; [reflexivity|].
  unfold time_utc_roundtrip in Ht.
  unfold sdelay_c, c_dec, sdelay_un, sdelay_tr, delay_norm; cbn [dl_from dl_time dl_reason].
  destruct r as [|r0 r]; cbn; rewrite ?(jid_attr_canon o _ _ Hj); cbn; rewrite Ht; cbn; split; reflexivity.
Qed.

Lemma sdelay_wellformed : wellformed sdelay_c [delay_name] delay_ats.
Proof. wf. Qed.

Lemma sdelay_attrs_safe o a v ff fs : or_safe o -> safe (sdelay_attrs o a v ff fs).
Proof.
  intro H. revert v fs ff. induction a as [|x r IH]; intros v fs ff; cbn [sdelay_attrs]; [exact I|].
  destruct (beq _ (str "from")).
  - apply bind_safe; [apply jid_attr_safe; exact H|]. intro j. destruct fs; [exact I|apply IH].
  - destruct (beq _ (str "stamp")); [|apply IH].
    apply bind_safe; [apply (os_tparse o H)|]. intro t. destruct ff; [exact I|apply IH].
Qed.

Lemma sdelay_dec_total : dec_total sdelay_c.
Proof.
  intros o t H. destruct t as [n a k|b|k b]; cbn; try exact I.
  apply bind_safe; [apply sdelay_attrs_safe; exact H|]. intro v. destruct k as [|[]]; exact I.
Qed.

(* ---- xtime.Time ---- *)

(* the zone offset text, as a function of the offset in minutes *)
Definition fmt_zone (zone : Z) : bytes :=
  let a := Z.to_N (Z.abs zone) in
  (if (zone <? 0)%Z then "-"%byte else "+"%byte) :: two_digits (a / 60) ++ ":"%byte :: two_digits (a mod 60).

Lemma format_tzo_zone off : format_tzo off = if Z.eqb off 0 then str "Z" else fmt_zone (Z.quot off 60).
Proof. reflexivity. Qed.

Definition zone_range : list Z := map (fun n => (Z.of_nat n - 1439)%Z) (seq 0 2879).

Lemma zone_range_complete m : (-1440 < m < 1440)%Z -> In m zone_range.
Proof.
  intro H. unfold zone_range. apply in_map_iff. exists (Z.to_nat (m + 1439)). split; [lia|].
  apply in_seq. lia.
Qed.

Definition optZ_eqb (a b : option Z) : bool :=
  match a, b with Some x, Some y => Z.eqb x y | None, None => true | _, _ => false end.

Lemma optZ_eqb_eq a b : optZ_eqb a b = true -> a = b.
Proof. destruct a, b; cbn; try discriminate; [|reflexivity]. intro H. apply Z.eqb_eq in H. subst; reflexivity. Qed.

Lemma zone_table : forallb (fun m => optZ_eqb (parse_tzo (fmt_zone m)) (Some (m * 60)%Z)) zone_range = true.
Proof. vm_compute. reflexivity. Qed.

(* every offset within a day, in seconds: the text parses back to the offset in
   whole minutes (truncated toward zero, as package time formats it) *)
Lemma parse_format_tzo off : (-86400 < off < 86400)%Z ->
  parse_tzo (format_tzo off) = Some (Z.quot off 60 * 60)%Z.
Proof.
  intro H. rewrite format_tzo_zone. destruct (Z.eqb off 0) eqn:E.
  - apply Z.eqb_eq in E. subst. reflexivity.
  - assert (Hm : (-1440 < Z.quot off 60 < 1440)%Z).
    { pose proof (Z.quot_rem' off 60) as Q. destruct (Z_le_gt_dec 0 off) as [P|P].
      - pose proof (Z.rem_bound_pos_pos off 60 ltac:(lia) P). lia.
      - pose proof (Z.rem_bound_pos_neg off 60 ltac:(lia) ltac:(lia)). lia. }
    apply optZ_eqb_eq.
    exact (proj1 (forallb_forall _ _) zone_table _ (zone_range_complete _ Hm)).
Qed.

Lemma parse_format_tzo_minutes off : (-86400 < off < 86400)%Z -> Z.rem off 60 = 0%Z ->
  parse_tzo (format_tzo off) = Some off.
Proof.
  intros H R. rewrite (parse_format_tzo off H). f_equal. pose proof (Z.quot_rem' off 60). lia.
Qed.

(* time.Parse("Z07:00", text) has the offset the text denotes (package time is
   an oracle; [parse_tzo] says what the text denotes) *)
Definition tzo_parse_agrees (o : oracles) : Prop :=
  forall s off, parse_tzo s = Some off -> exists z, o_tparse o P_tzo s = Ok z /\ t_off z = off.

Definition tzo_roundtrip (o : oracles) (t : tm) : Prop :=
  exists z, o_tparse o P_tzo (format_tzo (t_off t)) = Ok z /\ t_off z = (Z.quot (t_off t) 60 * 60)%Z.

Lemma tzo_roundtrip_from_agreement o t : tzo_parse_agrees o -> (-86400 < t_off t < 86400)%Z -> tzo_roundtrip o t.
Proof. intros Ha Hr. exact (Ha _ _ (parse_format_tzo (t_off t) Hr)). Qed.

Definition xtime_dom (o : oracles) (t : tm) : Prop := time_utc_roundtrip o t /\ tzo_roundtrip o t.

(* the zone offset travels in whole minutes *)
Definition xtime_norm (t : tm) : tm := mktm (t_sec t) (t_nsec t) (Z.quot (t_off t) 60 * 60).

Lemma xtime_roundtrip : roundtrip xtime_c xtime_dom xtime_norm.
Proof.
  intros o t [Hu [z [Hz Ho]]]. eexists; split; [reflexivity|].
  unfold time_utc_roundtrip in Hu.
  unfold xtime_c, c_dec, xtime_un, xtime_tr, xtime_norm.
  remember (format_tzo (t_off t)) as a eqn:Ea. remember (o_tfmt o L_utc_nano t) as b eqn:Eb.
  destruct t as [s n f]. cbn [t_off t_sec t_nsec] in *.
  destruct a, b; cbn; rewrite ?app_nil_r, Hz; cbn; rewrite Hu; cbn; rewrite Ho; split; reflexivity.
Qed.

Lemma xtime_wellformed : wellformed xtime_c [time_name; ln (str "tzo"); ln (str "utc")] [].
Proof. wf. Qed.

Lemma xtime_dec_total : dec_total xtime_c.
Proof.
  intros o t H. unfold xtime_c, c_dec, xtime_un.
  apply bind_safe; [apply unmarshal_struct_safe; fsafe|]. intro p.
  apply bind_safe; [apply (os_tparse o H)|]. intro z.
  apply bind_safe; [apply (os_tparse o H)|]. intro u. exact I.
Qed.

(* ---- forward.Forwarded ---- *)

Lemma forwarded_roundtrip : roundtrip forwarded_c delay_dom delay_norm.
Proof.
  intros o [f t r] [Ht Hj]. cbn in Ht, Hj. eexists; split; [reflexivity|].
  unfold time_utc_roundtrip in Ht.
  unfold forwarded_c, c_dec, forwarded_un, forwarded_tr, forwarded_fields, delay_un_into, delay_tr, delay_norm, opt_attr;
    cbn [dl_from dl_time dl_reason].
  destruct f as [|f0 f], r as [|r0 r]; cbn; rewrite Ht; cbn; rewrite ?(jid_attr_canon o _ _ Hj); cbn; split; reflexivity.
Qed.

Lemma forwarded_wellformed : wellformed forwarded_c [forwarded_name; delay_name] delay_ats.
Proof.
  wf. cbn [forallb]. unfold forwarded_tr. rewrite names_within_elem. cbn [forallb]. rewrite delay_tr_names. reflexivity.
Qed.

Lemma forwarded_dec_total : dec_total forwarded_c.
Proof.
  intros o t H. apply unmarshal_struct_safe. unfold forwarded_fields. fsafe.
  apply mkfield_safe. intros t' a. apply delay_un_into_safe; exact H.
Qed.
