(* C19/ProofsB.v — payloads carrying times and addresses: delay.Delay,
   stanza.Delay, xtime.Time, forward.Forwarded. Times are abstract
   (instant, offset) values; the time package is an oracle whose assumed
   round-trip behaviour is a named premise. *)
From Coq Require Import ZArith Lia.
From XV Require Import lib.Bytes lib.Xml lib.Schema C19.Form C19.Types C19.Spec C19.ProofsLib C19.ProofsTypes C19.ProofsA.

Arguments jid_attr : simpl never.

Definition delay_dom (o : oracles) (v : delay) : Prop :=
  time_utc_roundtrip o (dl_time v) /\ jid_canon o (dl_from v).

Definition delay_norm (v : delay) : delay := mkdelay (dl_from v) (utc (dl_time v)) (dl_reason v).

Lemma delay_un_tr o v : delay_dom o v ->
  delay_un o (delay_tr o v) = Ok (delay_norm v) /\ delay_un o (wire1 (delay_tr o v)) = Ok (delay_norm v).
Proof.
  destruct v as [f t r]. intros [Ht Hj]. cbn in Ht, Hj.
  unfold time_utc_roundtrip in Ht.
  unfold delay_un, delay_un_into, delay_tr, delay_norm, opt_attr; cbn [dl_from dl_time dl_reason].
  destruct f as [|f0 f], r as [|r0 r]; cbn; rewrite Ht; cbn; rewrite ?(jid_attr_canon o _ _ Hj); cbn; split; reflexivity.
Qed.

Lemma delay_roundtrip : roundtrip delay_c delay_dom delay_norm.
Proof. intros o v H. eexists; split; [reflexivity|]. apply delay_un_tr; exact H. Qed.

Definition delay_ats := [ln (str "stamp"); ln (str "from")].

Lemma delay_tr_names o v : names_within [forwarded_name; delay_name] delay_ats (delay_tr o v) = true.
Proof. destruct v as [f t r]; unfold delay_tr, opt_attr; cbn [dl_from dl_time dl_reason]. destruct f, r; reflexivity. Qed.

Lemma delay_wellformed : wellformed delay_c [forwarded_name; delay_name] delay_ats.
Proof. wf. cbn [forallb]. rewrite delay_tr_names. reflexivity. Qed.

Lemma delay_attrs_safe o a v fs ff : or_safe o -> safe (delay_attrs o a v fs ff).
Proof.
  intro H. revert v fs ff. induction a as [|x r IH]; intros v fs ff; cbn [delay_attrs]; [exact I|].
  destruct (_ && _); [apply IH|].
  destruct (beq _ (str "stamp")).
  - apply bind_safe; [apply (os_tparse o H)|]. intro t. destruct ff; [exact I|apply IH].
  - destruct (beq _ (str "from")); [|apply IH].
    apply bind_safe; [apply jid_attr_safe; exact H|]. intro j. destruct fs; [exact I|apply IH].
Qed.

Lemma delay_un_into_safe o init t : or_safe o -> safe (delay_un_into o init t).
Proof.
  intro H. destruct t as [n a k|b|k b]; cbn [delay_un_into]; try exact I.
  apply bind_safe; [apply delay_attrs_safe; exact H|]. intro v. destruct k as [|[]]; exact I.
Qed.

Lemma delay_dec_total : dec_total delay_c.
Proof. intros o t H. apply delay_un_into_safe; exact H. Qed.

(* ---- stanza.Delay ---- *)

Lemma sdelay_roundtrip : roundtrip sdelay_c delay_dom delay_norm.
Proof.
  intros o [f t r] [Ht Hj]. cbn in Ht, Hj. eexists; split; [reflexivity|].
  unfold time_utc_roundtrip in Ht.
  unfold sdelay_c, c_dec, sdelay_un, sdelay_tr, delay_norm; cbn [dl_from dl_time dl_reason].
  destruct r as [|r0 r]; cbn; rewrite ?(jid_attr_canon o _ _ Hj); cbn; rewrite Ht; cbn; split; reflexivity.
Qed.

Lemma sdelay_wellformed : wellformed sdelay_c [delay_name] delay_ats.
Proof. wf. Qed.

Lemma sdelay_attrs_safe o a v ff fs : or_safe o -> safe (sdelay_attrs o a v ff fs).
Proof.
  intro H. revert v fs ff. induction a as [|x r IH]; intros v fs ff; cbn [sdelay_attrs]; [exact I|].
  destruct (beq _ (str "from")).
  - apply bind_safe; [apply jid_attr_safe; exact H|]. intro j. destruct fs; [exact I|apply IH].
  - destruct (beq _ (str "stamp")); [|apply IH].
    apply bind_safe; [apply (os_tparse o H)|]. intro t. destruct ff; [exact I|apply IH].
Qed.

Lemma sdelay_dec_total : dec_total sdelay_c.
Proof.
  intros o t H. destruct t as [n a k|b|k b]; cbn; try exact I.
  apply bind_safe; [apply sdelay_attrs_safe; exact H|]. intro v. destruct k as [|[]]; exact I.
Qed.

(* ---- xtime.Time ---- *)

(* time.Parse("Z07:00", t.Format("Z07:00")) has t's zone offset (offsets are
   whole minutes in every zone since 1972; see the known finding on offsets
   with seconds for file.Meta) *)
Definition tzo_roundtrip (o : oracles) (t : tm) : Prop :=
  exists z, o_tparse o P_tzo (o_tfmt o L_tzo t) = Ok z /\ t_off z = t_off t.

Definition xtime_dom (o : oracles) (t : tm) : Prop := time_utc_roundtrip o t /\ tzo_roundtrip o t.

Lemma xtime_roundtrip : roundtrip xtime_c xtime_dom (fun t => t).
Proof.
  intros o t [Hu [z [Hz Ho]]]. eexists; split; [reflexivity|].
  unfold time_utc_roundtrip in Hu.
  unfold xtime_c, c_dec, xtime_un, xtime_tr.
  remember (o_tfmt o L_tzo t) as a eqn:Ea. remember (o_tfmt o L_utc_nano t) as b eqn:Eb.
  destruct t as [s n f]. cbn in Ho.
  destruct a, b; cbn; rewrite ?app_nil_r, Hz; cbn; rewrite Hu; cbn; rewrite Ho; split; reflexivity.
Qed.

Lemma xtime_wellformed : wellformed xtime_c [time_name; ln (str "tzo"); ln (str "utc")] [].
Proof. wf. Qed.

Lemma xtime_dec_total : dec_total xtime_c.
Proof.
  intros o t H. unfold xtime_c, c_dec, xtime_un.
  apply bind_safe; [apply unmarshal_struct_safe; fsafe|]. intro p.
  apply bind_safe; [apply (os_tparse o H)|]. intro z.
  apply bind_safe; [apply (os_tparse o H)|]. intro u. exact I.
Qed.

(* ---- forward.Forwarded ---- *)

Lemma forwarded_roundtrip : roundtrip forwarded_c delay_dom delay_norm.
Proof.
  intros o [f t r] [Ht Hj]. cbn in Ht, Hj. eexists; split; [reflexivity|].
  unfold time_utc_roundtrip in Ht.
  unfold forwarded_c, c_dec, forwarded_un, forwarded_tr, forwarded_fields, delay_un_into, delay_tr, delay_norm, opt_attr;
    cbn [dl_from dl_time dl_reason].
  destruct f as [|f0 f], r as [|r0 r]; cbn; rewrite Ht; cbn; rewrite ?(jid_attr_canon o _ _ Hj); cbn; split; reflexivity.
Qed.

Lemma forwarded_wellformed : wellformed forwarded_c [forwarded_name; delay_name] delay_ats.
Proof.
  wf. cbn [forallb]. unfold forwarded_tr. rewrite names_within_elem. cbn [forallb]. rewrite delay_tr_names. reflexivity.
Qed.

Lemma forwarded_dec_total : dec_total forwarded_c.
Proof.
  intros o t H. apply unmarshal_struct_safe. unfold forwarded_fields. fsafe.
  apply mkfield_safe. intros t' a. apply delay_un_into_safe; exact H.
Qed.
