(* C19/ProofsForm4.v — data forms: TokenReader and Submit always yield an
   element (not merely "do not panic": the model has no error outcome for
   them either, an address jid.Parse rejects is just not written). *)
From Coq Require Import ZArith Lia.
From XV Require Import lib.Bytes lib.Xml lib.Schema C19.Form C19.Types C19.Spec C19.ProofsLib C19.ProofsForm1.

Definition yields {A} (r : res A) : Prop := exists a, r = Ok a.

Lemma yields_ok {A} (a : A) : yields (Ok a).
Proof. exists a; reflexivity. Qed.

Lemma bind_yields {A B} (r : res A) (f : A -> res B) : yields r -> (forall a, yields (f a)) -> yields (bind r f).
Proof. intros [a ->] H. cbn. apply H. Qed.

Lemma rmap_yields {A B} (f : A -> B) (r : res A) : yields r -> yields (rmap f r).
Proof. intros [a ->]. eexists; reflexivity. Qed.

Section WithJid.
  Variable jp : bytes -> res bytes.
  Hypothesis Hjp : forall s, safe (jp s).

  Lemma first_jid_yields vs : yields (first_jid jp vs).
  Proof. induction vs as [|v r IH]; cbn; [apply yields_ok|]. pose proof (Hjp v) as H. destruct (jp v); try contradiction; [apply yields_ok|exact IH]. Qed.

  Lemma all_jids_yields vs : yields (all_jids jp vs).
  Proof.
    induction vs as [|v r IH]; cbn; [apply yields_ok|]. pose proof (Hjp v) as H.
    destruct (jp v); try contradiction; [apply rmap_yields; exact IH|exact IH].
  Qed.

  Lemma field_default_yields f : yields (field_default jp f).
  Proof.
    unfold field_default.
    repeat match goal with |- yields (if ?c then _ else _) => destruct c end; try apply yields_ok.
    - destruct (value f); apply yields_ok.
    - apply first_jid_yields.
    - apply bind_yields; [apply all_jids_yields|]. intro; apply yields_ok.
  Qed.

  Lemma get_yields d id : yields (get jp d id).
  Proof.
    unfold get, get_gen. destruct d as [d|]; [|apply yields_ok].
    destruct (match values d with Some m => assoc id m | None => None end); [apply yields_ok|].
    destruct (find_field id (fields d)); [apply field_default_yields|apply yields_ok].
  Qed.

  Lemma emit_values_yields t first vs : yields (emit_values jp t first vs).
  Proof.
    revert first. induction vs as [|v r IH]; intro first; cbn [emit_values]; [apply yields_ok|].
    destruct (is_nil v); [apply IH|].
    destruct (first && negb (is_multi t)); [apply yields_ok|].
    destruct (beq t t_boolean && negb (bool_text v)); [apply IH|].
    destruct (beq t t_jid || beq t t_jid_multi).
    - pose proof (Hjp v) as H. destruct (jp v); try contradiction; [apply rmap_yields; apply IH|apply IH].
    - apply rmap_yields. apply IH.
  Qed.

  Lemma submit_field_yields d f : yields (submit_field jp d f).
  Proof.
    unfold submit_field. destruct (beq (typ f) t_fixed); [apply yields_ok|].
    apply bind_yields; [apply get_yields|]. intros [vv isset].
    destruct (negb (required f) && negb isset); [apply yields_ok|].
    destruct vv; try apply yields_ok.
    destruct (beq (typ f) t_text_multi); [|apply yields_ok].
    destruct (split_lines_ok (S (length s)) s [] (Nat.lt_succ_diag_r _) (Forall_nil _)) as [ls [E _]].
    rewrite E. apply yields_ok.
  Qed.

  Lemma emitted_fields_yields d fs : yields (emitted_fields jp d fs).
  Proof.
    induction fs as [|f r IH]; cbn [emitted_fields]; [apply yields_ok|].
    apply bind_yields.
    - destruct (beq (dtyp d) ty_submit); [apply submit_field_yields|apply yields_ok].
    - intro o. apply bind_yields; [exact IH|]. intro; apply yields_ok.
  Qed.

  Lemma field_trees_yields fs : yields (field_trees jp fs).
  Proof.
    induction fs as [|f r IH]; cbn [field_trees]; [apply yields_ok|].
    apply bind_yields.
    - unfold field_tree. apply bind_yields; [apply emit_values_yields|]. intro; apply yields_ok.
    - intro t. apply rmap_yields. exact IH.
  Qed.

  Lemma token_reader_yields d : yields (token_reader jp d).
  Proof.
    unfold token_reader. apply bind_yields; [apply emitted_fields_yields|]. intro fs.
    apply bind_yields; [apply field_trees_yields|]. intro; apply yields_ok.
  Qed.

  Lemma all_required_set_yields d fs : yields (all_required_set jp d fs).
  Proof.
    induction fs as [|f r IH]; cbn [all_required_set]; [apply yields_ok|].
    apply bind_yields.
    - destruct (required f); [apply rmap_yields; apply get_yields|apply yields_ok].
    - intro b. apply rmap_yields. exact IH.
  Qed.

  Lemma submit_yields d : yields (submit jp d).
  Proof.
    unfold submit. apply bind_yields; [apply all_required_set_yields|]. intro ok.
    apply bind_yields; [apply token_reader_yields|]. intro; apply yields_ok.
  Qed.
End WithJid.

Lemma form_api_always_yields : forall jp, (forall s, safe (jp s)) ->
  (forall d id, yields (get jp d id)) /\ (forall d, yields (token_reader jp d)) /\ (forall d, yields (submit jp d)).
Proof. intros jp H. exact (conj (get_yields jp H) (conj (token_reader_yields jp H) (submit_yields jp H))). Qed.
