(* C19/ProofsI.v — shared state and histories: decoding into a destination that
   already holds a value (re-used buffers, kept fields), and deriving a
   submission from a form. *)
From Coq Require Import ZArith Lia.
From XV Require Import lib.Bytes lib.Xml lib.Schema gen.Payloads C19.Form C19.Types C19.Spec C19.ProofsLib C19.ProofsA C19.ProofsC.

(* ---- crypto.Key: the re-used KeyID buffer ---- *)

Lemma firstn_app_exact {A} (a b : list A) : firstn (length a) (a ++ b) = a.
Proof. induction a as [|x r IH]; cbn; [reflexivity|]. rewrite IH. reflexivity. Qed.

(* whatever the destination held, and however long it was, the key id is the decoded data *)
Lemma key_buf_indep old data explen : length data <= explen -> key_buf false old data explen = data.
Proof.
  intro H. unfold key_buf.
  set (buf := if length old <? explen then repeat x00 explen else old).
  assert (Hb : explen <= length buf).
  { unfold buf. destruct (length old <? explen) eqn:E; [rewrite repeat_length; lia|apply Nat.ltb_ge in E; exact E]. }
  destruct (length data <? length buf) eqn:E.
  - apply firstn_app_exact.
  - apply Nat.ltb_ge in E. rewrite skipn_all2 by lia. apply app_nil_r.
Qed.

(* the variant that trims only when fewer bytes than expected were decoded keeps the tail of a
   longer previous key *)
Lemma key_buf_guard_on_explen_refuted :
  exists old data explen, length data <= explen /\ key_buf true old data explen <> data.
Proof. exists (str "previous-key"), (str "abc"), 3. split; [cbn; lia|]. vm_compute. discriminate. Qed.

(* base64 never decodes to more than DecodedLen bytes *)
Definition b64_len_ok (o : oracles) : Prop :=
  forall s d, o_b64dec o s = Ok d -> length d <= decoded_len (length s).

Lemma ckey_un_into_indep o old t : b64_len_ok o -> ckey_un_into old o t = ckey_un o t.
Proof.
  intro Hl. destruct t as [n a kids|b|k b]; try reflexivity. unfold ckey_un_into, ckey_un_into_gen, ckey_un.
  destruct (negb _ && negb _); [reflexivity|]. destruct (negb (forallb _ kids)); [reflexivity|].
  destruct (is_nil (direct_text kids)) eqn:En.
  - cbn [bind]. rewrite key_buf_indep by (cbn; lia). reflexivity.
  - destruct (o_b64dec o (direct_text kids)) as [d| | |] eqn:Ed; try reflexivity.
    cbn [bind]. rewrite key_buf_indep by (apply Hl; exact Ed). reflexivity.
Qed.

(* ---- crypto.HashOutput: grown, overwritten, always cut to the decoded length ---- *)

Lemma hash_buf_indep old data l : hash_buf old data l = data.
Proof. unfold hash_buf. apply firstn_app_exact. Qed.

Lemma hashout_un_into_indep o old t : hashout_un_into old o t = hashout_un o t.
Proof.
  destruct t as [n a kids|b|k b]; try reflexivity. unfold hashout_un_into, hashout_un.
  destruct (hash_algo a); try reflexivity. cbn [bind]. destruct kids as [|[| |] r]; try reflexivity.
  destruct (if is_nil b then Ok [] else o_b64dec o b); try reflexivity. cbn [bind]. rewrite hash_buf_indep. reflexivity.
Qed.

(* ---- saslerr.Error: the condition never depends on the destination; language and text are
        the destination's only when the element has no text ---- *)

Lemma saslerr_into_zero t : saslerr_un_into (mksaslerr 0 [] []) t = saslerr_un t.
Proof. reflexivity. Qed.

Lemma saslerr_into_cond old old' t :
  rmap se_cond (saslerr_un_into old t) = rmap se_cond (saslerr_un_into old' t).
Proof.
  unfold saslerr_un_into. destruct (unmarshal_struct None saslerr_fields _ t) as [r| | |]; try reflexivity.
  cbn. destruct (sw_texts r) as [|[l d] x]; reflexivity.
Qed.

Lemma saslerr_into_kept old t v : saslerr_un_into old t = Ok v ->
  (se_lang v = se_lang old /\ se_text v = se_text old) \/ (forall old', saslerr_un_into old' t = Ok v).
Proof.
  unfold saslerr_un_into. destruct (unmarshal_struct None saslerr_fields _ t) as [r| | |]; try discriminate.
  cbn. destruct (sw_texts r) as [|[l d] x]; intro E; inversion E; subst; [left; split; reflexivity|right; intro; reflexivity].
Qed.

(* ---- the re-use sites of all UnmarshalXML bodies are the known ones ---- *)

Definition known_reuse_sites : list (bytes * bytes * bytes * bytes) :=
  [ (str "form/form.go", str "*Data", str "d.instructions += ""\n"" + s.Inner", []);
    (str "form/form.go", str "*Data", str "d.fields = append(d.fields, f)", []);
    (str "bin/bob.go", str "*Data", str "d.Data = d.Data[:n]", str "l > 0");
    (str "crypto/crypto.go", str "*HashOutput", str "h.Out = append(h.Out, make([]byte, l-len(h.Out))...)", str "len(h.Out) < l");
    (str "crypto/crypto.go", str "*HashOutput", str "h.Out = h.Out[:n]", []);
    (str "crypto/trustmsg.go", str "*Key", str "k.KeyID = k.KeyID[:decoded]", str "decoded < len(k.KeyID)") ].

Lemma reuse_sites_are_known : gen_reuse_sites = known_reuse_sites.
Proof. vm_compute. reflexivity. Qed.

(* ---- form: Submit and TokenReader derive a token stream and leave the form alone ---- *)

(* read from the source: every loop over the fields in TokenReader and Submit ranges over copies,
   and no statement takes the address of, or assigns through, an element of a fields slice *)
Definition form_by_ref : bool :=
  negb (forallb snd gen_form_field_loops) || gen_form_writes_through_fields.

Lemma form_loops_copy :
  form_by_ref = false /\ map fst gen_form_field_loops = [str "TokenReader"; str "Submit"].
Proof. split; vm_compute; reflexivity. Qed.

Section WithJid.
  Variable jp : bytes -> res bytes.

  (* the fields of the form after TokenReader ran on it: with a copy as loop variable they are
     untouched; through a pointer into d.fields the values computed for a submission are stored *)
  Fixpoint fields_after (by_ref : bool) (d : data) (fs : list field) : res (list field) :=
    match fs with
    | [] => Ok []
    | f :: r =>
        bind (if by_ref && beq (dtyp d) ty_submit then submit_field jp d f else Ok None) (fun o =>
        rmap (cons (match o with Some f' => f' | None => f end)) (fields_after by_ref d r))
    end.

  Lemma fields_after_copy d fs : fields_after false d fs = Ok fs.
  Proof. induction fs as [|f r IH]; cbn [fields_after andb bind]; [reflexivity|]. rewrite IH. reflexivity. Qed.

  Lemma submit_leaves_form d : fields_after form_by_ref d (fields d) = Ok (fields d).
  Proof. rewrite (proj1 form_loops_copy). apply fields_after_copy. Qed.
End WithJid.

(* with a pointer as loop variable a submission stores its values in the form *)
Lemma fields_after_by_ref_refuted :
  exists d, fields_after (fun _ => Err) true d (fields d) <> Ok (fields d).
Proof.
  exists (mkdata [] [] ty_submit [mkfld t_text_multi (str "t") [] [] [] [] false] (Some [(str "t", VStr (str "a"))])).
  vm_compute. discriminate.
Qed.
