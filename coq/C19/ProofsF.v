(* C19/ProofsF.v — upload.Slot and file.Meta. *)
From Coq Require Import ZArith Lia.
From XV Require Import lib.Bytes lib.Xml lib.Schema C19.Form C19.Types C19.Spec C19.ProofsLib C19.ProofsTypes
  C19.ProofsA C19.ProofsC C19.ProofsE.

Arguments set_children : simpl nomatch.
Arguments copy_uint : simpl never.
Arguments dec : simpl never.

(* ================= upload.Slot ================= *)

Definition H_auth := str "Authorization".
Definition H_cookie := str "Cookie".
Definition H_expires := str "Expires".

Definition slot_hdrs (v : slot) : list (bytes * bytes) :=
  map (pair H_auth) (sl_auth v) ++ map (pair H_cookie) (sl_cookie v) ++ map (pair H_expires) (sl_expires v).

Definition hdr2 (p : bytes * bytes) : tree := header_tree (fst p) (snd p).
Definition whdr2 (ns : bytes) (p : bytes * bytes) : tree :=
  Elem (mkname ns (str "header")) [at_ (str "name") (fst p)] (if is_nil (snd p) then [] else [Text (snd p)]).

Lemma slot_put_kids v :
  map (header_tree H_auth) (sl_auth v) ++ map (header_tree H_cookie) (sl_cookie v) ++ map (header_tree H_expires) (sl_expires v)
  = map hdr2 (slot_hdrs v).
Proof. unfold slot_hdrs. rewrite !map_app, !map_map. reflexivity. Qed.

Lemma wire_hdr2 ns p : wire ns (hdr2 p) = [whdr2 ns p].
Proof. destruct p as [n x]. unfold hdr2, header_tree, whdr2. cbn. destruct x; reflexivity. Qed.

Definition raw_upd (l : list (bytes * bytes)) (r : slot_raw) : slot_raw := mkslotraw (sr_put r) (sr_get r) l.

Lemma put_hdr_tok p r : set_child put_fields (hdr2 p) r = Ok (raw_upd (sr_hdrs r ++ [p]) r).
Proof. destruct p as [n x]. cbn. rewrite app_nil_r. reflexivity. Qed.

Lemma put_hdr_wire ns p r : set_child put_fields (whdr2 ns p) r = Ok (raw_upd (sr_hdrs r ++ [p]) r).
Proof. destruct p as [n x]. destruct x; cbn; rewrite ?app_nil_r; reflexivity. Qed.

Lemma filter_pair_const (f : bytes -> bool) k (l : list bytes) :
  filter (fun p : bytes * bytes => f (fst p)) (map (pair k) l) = if f k then map (pair k) l else [].
Proof.
  induction l as [|x r IH]; cbn [map filter fst]; [destruct (f k); reflexivity|].
  rewrite IH. destruct (f k); reflexivity.
Qed.

Lemma map_snd_pair (k : bytes) (l : list bytes) : map (@snd bytes bytes) (map (pair k) l) = l.
Proof. rewrite map_map. cbn. apply map_id. Qed.

Lemma vals_of_hdrs v :
  vals_of H_auth (slot_hdrs v) = sl_auth v /\ vals_of H_cookie (slot_hdrs v) = sl_cookie v /\
  vals_of H_expires (slot_hdrs v) = sl_expires v.
Proof.
  unfold vals_of, slot_hdrs. rewrite !filter_app.
  rewrite !(filter_pair_const (fun n => ieq n H_auth)), !(filter_pair_const (fun n => ieq n H_cookie)),
    !(filter_pair_const (fun n => ieq n H_expires)).
  change (ieq H_auth H_auth) with true. change (ieq H_cookie H_auth) with false. change (ieq H_expires H_auth) with false.
  change (ieq H_auth H_cookie) with false. change (ieq H_cookie H_cookie) with true. change (ieq H_expires H_cookie) with false.
  change (ieq H_auth H_expires) with false. change (ieq H_cookie H_expires) with false. change (ieq H_expires H_expires) with true.
  cbn [app]. rewrite !app_nil_r, !map_snd_pair. repeat split; reflexivity.
Qed.

Definition url_text (u : option bytes) : bytes := match u with Some x => x | None => [] end.
Definition url_norm (u : option bytes) : option bytes := match u with Some [] => None | _ => u end.

(* url.Parse(u.String()).String() = u.String() for the URLs of the value *)
Definition url_canon (o : oracles) (u : option bytes) : Prop :=
  match u with Some (c :: r) => o_url o (c :: r) = Ok (c :: r) | _ => True end.

Definition slot_norm (v : slot) : slot :=
  mkslot (url_norm (sl_put v)) (url_norm (sl_get v)) (sl_auth v) (sl_cookie v) (sl_expires v).

Lemma url_back o u : url_canon o u ->
  (if is_nil (url_text u) then Ok None else rmap Some (o_url o (url_text u))) = Ok (url_norm u).
Proof. destruct u as [[|c r]|]; cbn; intro H; try reflexivity. rewrite H. reflexivity. Qed.

Lemma slot_roundtrip : roundtrip slot_c (fun o v => url_canon o (sl_put v) /\ url_canon o (sl_get v)) slot_norm.
Proof.
  intros o v [Hp Hg]. eexists; split; [reflexivity|].
  destruct (vals_of_hdrs v) as [Va [Vc Ve]]. unfold H_auth, H_cookie, H_expires in Va, Vc, Ve.
  assert (Raw : forall t, unmarshal_struct (Some slot_name) slot_fields (mkslotraw [] [] []) t =
                          Ok (mkslotraw (url_text (sl_put v)) (url_text (sl_get v)) (slot_hdrs v)) ->
                          slot_un o t = Ok (slot_norm v)).
  { intros t E. unfold slot_un. rewrite E. cbn [bind sr_get sr_put sr_hdrs].
    rewrite (url_back o _ Hg). cbn [bind]. rewrite (url_back o _ Hp). cbn [bind]. rewrite Va, Vc, Ve. reflexivity. }
  unfold slot_c, c_dec. split; apply Raw.
  - unfold slot_tr. fold (url_text (sl_put v)) (url_text (sl_get v)). fold H_auth H_cookie H_expires.
    rewrite slot_put_kids. rewrite unmarshal_struct_elem. cbn.
    rw_children (set_children_map_snoc put_fields hdr2 sr_hdrs raw_upd (slot_hdrs v)
                   (mkslotraw (url_text (sl_put v)) [] []) put_hdr_tok (fun _ _ => eq_refl) (fun _ _ _ => eq_refl)).
    cbn. destruct (slot_hdrs v); reflexivity.
  - unfold slot_tr. fold (url_text (sl_put v)) (url_text (sl_get v)). fold H_auth H_cookie H_expires.
    rewrite slot_put_kids. rewrite wire1_elem. cbn [nspace nlocal slot_name is_nil app flat_map].
    rewrite !wire_elem. cbn [ln nspace nlocal is_nil app flat_map merge_text].
    change (is_nil ns_upload) with false. cbv iota.
    rewrite (wire_map ns_upload hdr2 (whdr2 ns_upload)) by (intro; apply wire_hdr2).
    rewrite (merge_text_elems (map _ _)) by (apply is_elem_map; intros []; reflexivity).
    rewrite unmarshal_struct_elem. cbn.
    rw_children (set_children_map_snoc put_fields (whdr2 ns_upload) sr_hdrs raw_upd (slot_hdrs v)
                   (mkslotraw (url_text (sl_put v)) [] []) (put_hdr_wire ns_upload) (fun _ _ => eq_refl) (fun _ _ _ => eq_refl)).
    cbn. destruct (slot_hdrs v); reflexivity.
Qed.

Definition slot_els := [slot_name; ln (str "put"); ln (str "get"); ln (str "header")].
Definition slot_ats := [ln (str "url"); ln (str "name")].

Lemma slot_wellformed : wellformed slot_c slot_els slot_ats.
Proof.
  wf. cbn [forallb]. rewrite andb_true_r. unfold slot_tr. fold H_auth H_cookie H_expires. rewrite slot_put_kids.
  rewrite names_within_elem. cbn [forallb]. rewrite names_within_elem, forallb_map.
  rewrite (forallb_true (fun x => names_within slot_els slot_ats (hdr2 x))) by (intros []; reflexivity).
  reflexivity.
Qed.

Lemma slot_dec_total : dec_total slot_c.
Proof.
  intros o t H. unfold slot_c, c_dec, slot_un.
  apply bind_safe.
  { apply unmarshal_struct_safe. unfold slot_fields. fsafe.
    - apply mkfield_safe. intros t' a. apply unmarshal_struct_safe. unfold put_fields. fsafe.
      apply f_sub_safe. intro t''. apply unmarshal_struct_safe. unfold hdr_fields. fsafe.
    - apply mkfield_safe. intros t' a. apply unmarshal_struct_safe. unfold get_fields. fsafe. }
  intro r. apply bind_safe.
  { destruct (is_nil _); [exact I|]. apply rmap_safe. apply (os_url o H). }
  intro g. apply bind_safe; [|intro; exact I].
  destruct (is_nil _); [exact I|]. apply rmap_safe. apply (os_url o H).
Qed.

(* ================= file.Meta ================= *)

(* time.Time.UnmarshalText(t.UTC().Format(RFC3339Nano)) = t in UTC, for years
   0000..9999 (known finding otherwise); after the repair the zone offset is not
   written, so offsets with seconds no longer shift the instant *)
Definition time_text_roundtrip (o : oracles) (t : tm) : Prop :=
  o_tparse o P_text (o_tfmt o L_utc_nano t) = Ok (utc t).

Definition hash_unset (h : hashout) : bool := N.eqb (ho_hash h) 0 && is_nil (ho_out h).

Definition fmeta_dom (o : oracles) (v : fmeta) : Prop :=
  time_text_roundtrip o (fm_date v) /\
  fits64 (fm_size v) /\ fits64 (fm_width v) /\ fits64 (fm_height v) /\ fits64 (fm_length v) /\
  (hash_unset (fm_hash v) = true \/ hashout_dom o (fm_hash v)).

(* the date comes back in UTC; when no hash is written, the zero HashOutput *)
Definition fmeta_norm (v : fmeta) : fmeta :=
  mkfmeta (fm_media v) (fm_name v) (utc (fm_date v)) (fm_size v)
          (if hash_unset (fm_hash v) then zero_hashout else fm_hash v) (fm_width v) (fm_height v) (fm_length v).

Lemma hash_unset_zero h : hash_unset h = true -> h = zero_hashout.
Proof.
  destruct h as [n out]. unfold hash_unset; cbn. intro H. apply andb_true_iff in H. destruct H as [H1 H2].
  apply N.eqb_eq in H1. destruct out; [|discriminate]. subst. reflexivity.
Qed.

Lemma fmeta_roundtrip : roundtrip fmeta_c fmeta_dom fmeta_norm.
Proof.
  intros o [media name date size h w ht len] [Hd [Hs [Hw [Hh [Hl Hx]]]]]. cbn in Hd, Hs, Hw, Hh, Hl, Hx.
  unfold time_text_roundtrip in Hd.
  pose proof (copy_uint_dec size Hs) as Cs. pose proof (copy_uint_dec w Hw) as Cw.
  pose proof (copy_uint_dec ht Hh) as Ch. pose proof (copy_uint_dec len Hl) as Cl.
  unfold fmeta_c, c_enc, c_dec, fmeta_tr, fmeta_un, fmeta_norm; cbn [fm_media fm_name fm_date fm_size fm_hash fm_width fm_height fm_length].
  fold (hash_unset h). destruct (hash_unset h) eqn:Eu.
  - cbn [bind app]. eexists; split; [reflexivity|].
    remember (o_tfmt o L_utc_nano date) as dt eqn:Edt.
    decnn size E1. decnn w E2. decnn ht E3. decnn len E4.
    destruct media, name, dt; repeat (progress (cbn; rewrite ?app_nil_r, ?Hd, ?Cs, ?Cw, ?Ch, ?Cl)); split; reflexivity.
  - destruct Hx as [Hx|Hx]; [discriminate|].
    destruct (hashout_tree h) as [th| | |] eqn:Et;
      try (exfalso; destruct Hx as [[n Hn] _]; unfold hashout_tree in Et; rewrite Hn in Et; discriminate).
    destruct (hashout_un_tree o h th Hx Et) as [U1 U2].
    destruct (U2 ns_meta) as [th' [Wh Uh']].
    cbn [bind rmap]. eexists; split; [reflexivity|].
    remember (o_tfmt o L_utc_nano date) as dt eqn:Edt.
    assert (Eth : exists n a k, th = Elem n a k /\ nlocal n = str "hash").
    { unfold hashout_tree in Et. destruct (hash_name _ _); [|discriminate]. inversion Et. eexists; eexists; eexists; split; reflexivity. }
    destruct Eth as [hn [ha [hk [-> Ehn]]]].
    assert (Eth' : exists n a k, th' = Elem n a k /\ nlocal n = str "hash").
    { rewrite wire_elem in Wh. inversion Wh. eexists; eexists; eexists; split; [reflexivity|]. cbn. exact Ehn. }
    destruct Eth' as [hn' [ha' [hk' [-> Ehn']]]].
    destruct hn as [hns hl], hn' as [hns' hl']. cbn in Ehn, Ehn'. subst hl hl'.
    decnn size E1. decnn w E2. decnn ht E3. decnn len E4.
    split.
    + destruct media, name, dt;
        repeat (progress (cbn -[hashout_un]; rewrite ?app_nil_r, ?Hd, ?Cs, ?U1, ?Cw, ?Ch, ?Cl)); reflexivity.
    + rewrite wire1_elem. cbn [nspace nlocal meta_name is_nil app flat_map].
      change (is_nil ns_meta) with false. cbv iota.
      rewrite (Wh : wire ns_meta (Elem {| nspace := hns; nlocal := ["h"%byte; "a"%byte; "s"%byte; "h"%byte] |} ha hk) = _).
      rewrite !wire_leaf. cbn [app]. rewrite merge_text_elems by reflexivity.
      unfold wleaf.
      destruct media, name, dt;
        repeat (progress (cbn -[hashout_un]; rewrite ?app_nil_r, ?Hd, ?Cs, ?Uh', ?Cw, ?Ch, ?Cl)); reflexivity.
Qed.

Definition fmeta_els := [meta_name; ln (str "media-type"); ln (str "name"); ln (str "date"); ln (str "size");
                         mkname ns_hashes (str "hash"); ln (str "width"); ln (str "height"); ln (str "length")].

Lemma fmeta_wellformed : wellformed fmeta_c fmeta_els [ln (str "algo")].
Proof.
  intros o v ts E. unfold fmeta_c, c_enc, fmeta_tr in E.
  destruct (N.eqb _ 0 && _).
  - cbn in E. inversion E; subst. apply forest_wellformed_intro; reflexivity.
  - destruct (hashout_tree (fm_hash v)) as [th| | |] eqn:Et; try discriminate.
    cbn in E. inversion E; subst. apply forest_wellformed_intro; try reflexivity.
    cbn [forallb]. rewrite andb_true_r. rewrite names_within_elem.
    unfold hashout_tree in Et. destruct (hash_name _ _); [|discriminate]. inversion Et; subst. reflexivity.
Qed.

(* building the XML never panics when the hash algorithm is set to a known
   one or no hash is given at all (after the repair; crypto.HashOutput documents
   its panic for an unknown algorithm) *)
Lemma fmeta_enc_total : enc_total fmeta_c (fun _ v => hash_unset (fm_hash v) = true \/ hash_known (ho_hash (fm_hash v))).
Proof.
  intros o v H. unfold fmeta_c, c_enc, fmeta_tr. fold (hash_unset (fm_hash v)).
  destruct (hash_unset (fm_hash v)) eqn:E.
  - eexists; reflexivity.
  - destruct H as [H|[n Hn]]; [discriminate|]. unfold hashout_tree. rewrite Hn. eexists; reflexivity.
Qed.

Lemma fmeta_dec_total : dec_total fmeta_c.
Proof.
  intros o t H. apply unmarshal_struct_safe. unfold fmeta_fields, f_uint. fsafe.
  - apply f_conv_safe. intro s. apply (os_tparse o H).
  - apply f_sub_safe. intro t'. apply hashout_un_safe; exact H.
Qed.
