(* C19/ProofsLib.v — generic lemmas for the per-type proofs: totality of the
   struct interpreter, decomposition of [names_within], the encoder/decoder
   passage [wire] on the shapes the encoders build, children built by [map]. *)
From Coq Require Import ZArith Lia.
From XV Require Import lib.Bytes lib.Xml lib.Schema C19.Form C19.Types C19.Spec.

(* ---- safe ---- *)

Lemma safe_ok {A} (a : A) : safe (Ok a).
Proof. exact I. Qed.

Lemma safe_err {A} : safe (@Err A).
Proof. exact I. Qed.

Lemma bind_safe {A B} (r : res A) (f : A -> res B) :
  safe r -> (forall a, safe (f a)) -> safe (bind r f).
Proof. destruct r; cbn; auto. Qed.

Lemma rmap_safe {A B} (f : A -> B) (r : res A) : safe r -> safe (rmap f r).
Proof. intro H. unfold rmap. apply bind_safe; [exact H|]. intro; exact I. Qed.

Lemma copy_uint_safe s : safe (copy_uint s).
Proof. unfold copy_uint. destruct s; [exact I|]. destruct (parse_uint _); exact I. Qed.

Lemma copy_int_safe s : safe (copy_int s).
Proof. unfold copy_int. destruct s; [exact I|]. destruct (parse_int _); exact I. Qed.

Lemma copy_bool_safe s : safe (copy_bool s).
Proof. unfold copy_bool. destruct s; [exact I|]. destruct (parse_bool _); exact I. Qed.

(* ---- the interpreter never panics when no assignment does ---- *)

Definition field_safe {A} (f : Schema.field A) : Prop := forall t a, safe (f_set f t a).

Lemma set_attr_safe {A} (fs : list (Schema.field A)) x a : Forall field_safe fs -> safe (set_attr fs x a).
Proof.
  intro Hfs. revert a. induction Hfs as [|f r Hf Hr IH]; intro a; cbn [set_attr]; [exact I|].
  destruct (f_kind f); try apply IH.
  destruct (name_match _ _ _); [|apply IH].
  apply bind_safe; [apply Hf|]. intro; apply IH.
Qed.

Lemma set_attrs_safe {A} (fs : list (Schema.field A)) xs a : Forall field_safe fs -> safe (set_attrs fs xs a).
Proof.
  intro Hfs. revert a. induction xs as [|x r IH]; intro a; cbn [set_attrs]; [exact I|].
  apply bind_safe; [apply set_attr_safe; exact Hfs|]. intro; apply IH.
Qed.

Lemma find_elem_safe {A} (fs : list (Schema.field A)) n f : Forall field_safe fs -> find_elem fs n = Some f -> field_safe f.
Proof.
  intro Hfs. induction Hfs as [|g r Hg Hr IH]; cbn [find_elem]; [discriminate|].
  destruct (f_kind g); try exact IH.
  destruct (name_match _ _ _); [|exact IH]. intro E; inversion E; subst; exact Hg.
Qed.

Lemma find_kind_safe {A} (fs : list (Schema.field A)) k f : Forall field_safe fs -> find_kind k fs = Some f -> field_safe f.
Proof.
  intro Hfs. induction Hfs as [|g r Hg Hr IH]; cbn [find_kind]; [discriminate|].
  destruct (f_kind g), k; try exact IH; intro E; inversion E; subst; exact Hg.
Qed.

Lemma set_child_safe {A} (fs : list (Schema.field A)) c a : Forall field_safe fs -> safe (set_child fs c a).
Proof.
  intro Hfs. destruct c as [n x k|b|k b]; cbn [set_child]; try exact I.
  destruct (find_elem fs n) as [f|] eqn:E.
  - apply (find_elem_safe _ _ _ Hfs E).
  - destruct (find_kind KAny fs) as [f|] eqn:E2; [apply (find_kind_safe _ _ _ Hfs E2)|exact I].
Qed.

Lemma set_children_safe {A} (fs : list (Schema.field A)) kids a : Forall field_safe fs -> safe (set_children fs kids a).
Proof.
  intro Hfs. revert a. induction kids as [|c r IH]; intro a; cbn [set_children]; [exact I|].
  apply bind_safe; [apply set_child_safe; exact Hfs|]. intro; apply IH.
Qed.

Lemma set_chardata_safe {A} (fs : list (Schema.field A)) kids a : Forall field_safe fs -> safe (set_chardata fs kids a).
Proof.
  intro Hfs. unfold set_chardata.
  destruct (find_kind KChar fs) as [f|] eqn:E; [apply (find_kind_safe _ _ _ Hfs E)|exact I].
Qed.

Lemma unmarshal_struct_safe {A} (fs : list (Schema.field A)) xn init t :
  Forall field_safe fs -> safe (unmarshal_struct xn fs init t).
Proof.
  intro Hfs. destruct t as [n x k|b|k b]; cbn [unmarshal_struct]; try exact I.
  destruct (check_xmlname xn n); [|exact I].
  apply bind_safe; [apply set_attrs_safe; exact Hfs|]. intro a.
  apply bind_safe; [apply set_children_safe; exact Hfs|]. intro a'. apply set_chardata_safe; exact Hfs.
Qed.

Lemma f_str_safe {A} k ns l (put : bytes -> A -> A) : field_safe (f_str k ns l put).
Proof. intros t a. exact I. Qed.

Lemma f_conv_safe {A B} k ns l (conv : bytes -> res B) (put : B -> A -> A) :
  (forall s, safe (conv s)) -> field_safe (f_conv k ns l conv put).
Proof. intros H t a. cbn. apply bind_safe; [apply H|]. intro; exact I. Qed.

Lemma f_sub_safe {A B} k ns l (d : tree -> res B) (put : B -> A -> A) :
  (forall t, safe (d t)) -> field_safe (f_sub k ns l d put).
Proof. intros H t a. cbn. apply bind_safe; [apply H|]. intro; exact I. Qed.

Lemma f_into_safe {A B} k ns l (get : A -> B) (d : B -> tree -> res B) (put : B -> A -> A) :
  (forall b t, safe (d b t)) -> field_safe (f_into k ns l get d put).
Proof. intros H t a. cbn. apply bind_safe; [apply H|]. intro; exact I. Qed.

Lemma mkfield_safe {A} k ns l (set_ : tree -> A -> res A) :
  (forall t a, safe (set_ t a)) -> field_safe (mkfield k ns l set_).
Proof. intros H t a. apply H. Qed.

Lemma jid_attr_safe o s cur : or_safe o -> safe (jid_attr o s cur).
Proof. intro H. unfold jid_attr. destruct (is_nil s); [exact I|apply (os_jid o H)]. Qed.

Lemma f_jid_safe {A} o l (get : A -> bytes) (put : bytes -> A -> A) : or_safe o -> field_safe (f_jid o l get put).
Proof. intros H t a. cbn. apply bind_safe; [apply jid_attr_safe; exact H|]. intro; exact I. Qed.

(* ---- names ---- *)

Lemma forallb_flat_map {A B} (p : B -> bool) (f : A -> list B) l :
  forallb p (flat_map f l) = forallb (fun x => forallb p (f x)) l.
Proof. induction l as [|x r IH]; cbn; [reflexivity|]. rewrite forallb_app, IH. reflexivity. Qed.

Lemma forallb_and {A} (p q : A -> bool) l :
  forallb p l && forallb q l = forallb (fun x => p x && q x) l.
Proof.
  induction l as [|x r IH]; cbn; [reflexivity|]. rewrite <- IH.
  destruct (p x), (q x), (forallb p r), (forallb q r); reflexivity.
Qed.

Lemma forallb_map {A B} (p : B -> bool) (f : A -> B) l : forallb p (map f l) = forallb (fun x => p (f x)) l.
Proof. induction l as [|x r IH]; cbn; [reflexivity|]. rewrite IH. reflexivity. Qed.

Lemma forallb_ext' {A} (p q : A -> bool) l : (forall x, p x = q x) -> forallb p l = forallb q l.
Proof. intro H. induction l as [|x r IH]; cbn; [reflexivity|]. rewrite H, IH. reflexivity. Qed.

Lemma forallb_true {A} (p : A -> bool) l : (forall x, p x = true) -> forallb p l = true.
Proof. intro H. induction l as [|x r IH]; cbn; [reflexivity|]. rewrite H, IH. reflexivity. Qed.

Lemma names_within_elem els ats n a kids :
  names_within els ats (Elem n a kids) =
  mem n els && forallb (fun x => mem (aname x) ats) a && forallb (names_within els ats) kids.
Proof.
  unfold names_within at 1. cbn [elem_names attr_names forallb].
  rewrite forallb_app, !forallb_flat_map, forallb_map.
  unfold names_within. rewrite <- forallb_and. unfold mem.
  destruct (existsb (name_eqb n) els), (forallb _ a), (forallb _ kids), (forallb _ kids); reflexivity.
Qed.

Lemma names_within_text els ats b : names_within els ats (Text b) = true.
Proof. reflexivity. Qed.

Lemma names_within_leaf els ats l v : names_within els ats (leaf l v) = mem (ln l) els.
Proof. unfold leaf. rewrite names_within_elem. cbn. rewrite !andb_true_r. reflexivity. Qed.

(* ---- forests are well-bracketed and determine their tokens ---- *)

Lemma forest_parses ts : parse_forest (S (fsize ts)) (tokens_of_forest ts) = Some (ts, []).
Proof.
  pose proof (parse_forest_tokens (S (fsize ts)) ts [] (or_introl eq_refl) (Nat.lt_succ_diag_r _)) as H.
  rewrite app_nil_r in H. exact H.
Qed.

Lemma forest_wellformed_intro els ats ts :
  forallb (names_within els ats) ts = true ->
  forallb name_ok els = true -> forallb name_ok ats = true ->
  forest_wellformed els ats ts.
Proof.
  intros H1 H2 H3. repeat split; auto.
  - apply balanced_forest.
  - apply forest_parses.
Qed.

(* ---- wire ---- *)

Lemma merge_text_elems l : forallb is_elem l = true -> merge_text l = l.
Proof.
  induction l as [|x r IH]; [reflexivity|]. cbn [forallb]. intro H.
  apply andb_true_iff in H. destruct H as [Hx Hr]. destruct x; try discriminate.
  cbn [merge_text]. rewrite (IH Hr). reflexivity.
Qed.

Lemma merge_text_cons_elem n a k l : merge_text (Elem n a k :: l) = Elem n a k :: merge_text l.
Proof. reflexivity. Qed.

Lemma flat_map_map {A B C} (f : B -> list C) (g : A -> B) l : flat_map f (map g l) = flat_map (fun x => f (g x)) l.
Proof. induction l as [|x r IH]; cbn; [reflexivity|]. rewrite IH. reflexivity. Qed.

Lemma flat_map_single {A B} (g : A -> B) l : flat_map (fun x => [g x]) l = map g l.
Proof. induction l as [|x r IH]; cbn; [reflexivity|]. rewrite IH. reflexivity. Qed.

Lemma flat_map_ext' {A B} (f g : A -> list B) l : (forall x, f x = g x) -> flat_map f l = flat_map g l.
Proof. intro H. induction l as [|x r IH]; cbn; [reflexivity|]. rewrite H, IH. reflexivity. Qed.

(* children built by [map g xs], each of which the passage turns into one element *)
Lemma wire_map {X} ns (g g' : X -> tree) xs :
  (forall x, wire ns (g x) = [g' x]) -> flat_map (wire ns) (map g xs) = map g' xs.
Proof.
  intro H. rewrite flat_map_map. rewrite (flat_map_ext' _ (fun x => [g' x])) by exact H.
  apply flat_map_single.
Qed.

Lemma is_elem_map {X} (g : X -> tree) xs : (forall x, is_elem (g x) = true) -> forallb is_elem (map g xs) = true.
Proof. intro H. rewrite forallb_map. apply forallb_true. exact H. Qed.

Lemma merge_text_app_elems l1 l2 : forallb is_elem l1 = true -> merge_text (l1 ++ l2) = l1 ++ merge_text l2.
Proof.
  induction l1 as [|x r IH]; [reflexivity|]. cbn [forallb]. intro H.
  apply andb_true_iff in H. destruct H as [Hx Hr]. destruct x; try discriminate.
  cbn [app merge_text]. rewrite (IH Hr). reflexivity.
Qed.

(* the leaf written for a text: its wire form *)
Definition wleaf (ns l v : bytes) : tree := Elem (mkname ns l) [] (if is_nil v then [] else [Text v]).

Lemma wire_leaf ns l v : wire ns (leaf l v) = [wleaf ns l v].
Proof. unfold leaf, wleaf, ln. cbn. destruct v; reflexivity. Qed.

Lemma payload_wleaf ns l v : payload_text (wleaf ns l v) = v.
Proof. unfold wleaf. destruct v; cbn; [reflexivity|]. rewrite app_nil_r. reflexivity. Qed.

Lemma payload_leaf l v : payload_text (leaf l v) = v.
Proof. unfold leaf. cbn. apply app_nil_r. Qed.

Lemma direct_text_one b : direct_text [Text b] = b.
Proof. cbn. apply app_nil_r. Qed.

(* ---- children built by map ---- *)

Lemma set_children_map {A X} (fs : list (Schema.field A)) (g : X -> tree) (step : X -> A -> A) xs a :
  (forall x a, set_child fs (g x) a = Ok (step x a)) ->
  set_children fs (map g xs) a = Ok (fold_left (fun a x => step x a) xs a).
Proof.
  intro H. revert a. induction xs as [|x r IH]; intro a; cbn [map set_children fold_left]; [reflexivity|].
  rewrite H. cbn [bind]. apply IH.
Qed.

Lemma fold_left_snoc {X A} (proj : A -> list X) (upd : list X -> A -> A) xs a :
  (forall l a, proj (upd l a) = l) ->
  (forall l l' a, upd l (upd l' a) = upd l a) ->
  fold_left (fun a x => upd (proj a ++ [x]) a) xs a =
  match xs with [] => a | _ => upd (proj a ++ xs) a end.
Proof.
  intros Hp Hu. revert a. induction xs as [|x r IH]; intro a; cbn [fold_left]; [reflexivity|].
  rewrite IH. destruct r as [|y r]; [reflexivity|].
  rewrite Hp, Hu, <- app_assoc. reflexivity.
Qed.

(* ---- small facts ---- *)

Lemma is_nil_app {A} (a b : list A) : is_nil (a ++ b) = is_nil a && is_nil b.
Proof. destruct a; reflexivity. Qed.

Lemma bytes_eqb_refl a : bytes_eqb a a = true.
Proof. apply bytes_eqb_eq. reflexivity. Qed.

Lemma name_eqb_refl n : name_eqb n n = true.
Proof. apply name_eqb_eq. reflexivity. Qed.

(* ---- consequences of a round trip ---- *)

Lemma roundtrip_paths_agree {T} (c : codec T) dom norm : roundtrip c dom norm -> paths_agree c dom.
Proof.
  intros H o v t Hd E. destruct (H o v Hd) as [t' [E' [H1 H2]]].
  rewrite E in E'. inversion E'; subst. rewrite H1, H2. reflexivity.
Qed.

Lemma roundtrip_enc_total {T} (c : codec T) dom norm : roundtrip c dom norm -> enc_total c dom.
Proof. intros H o v Hd. destruct (H o v Hd) as [t [E _]]. exists [t]. exact E. Qed.

Lemma roundtrip_consequences : forall T (c : codec T) dom norm,
  roundtrip c dom norm -> paths_agree c dom /\ enc_total c dom.
Proof. intros T c dom norm H. exact (conj (roundtrip_paths_agree c dom norm H) (roundtrip_enc_total c dom norm H)). Qed.

Lemma token_streams_wellbracketed : forall ts : list tree,
  balanced (tokens_of_forest ts) = true /\ parse_forest (S (fsize ts)) (tokens_of_forest ts) = Some (ts, []).
Proof. intro ts. exact (conj (balanced_forest ts) (forest_parses ts)). Qed.

Lemma schema_unmarshal_total : forall A (fs : list (Schema.field A)) xn init t,
  Forall field_safe fs -> safe (unmarshal_struct xn fs init t).
Proof. intros A fs xn init t H. exact (unmarshal_struct_safe fs xn init t H). Qed.
