(* C19/ProofsC.v — payloads with repeated children: roster.Item,
   blocklist.Item, crypto keys and trust messages. *)
From Coq Require Import ZArith Lia.
From XV Require Import lib.Bytes lib.Xml lib.Schema C19.Form C19.Types C19.Spec C19.ProofsLib C19.ProofsTypes C19.ProofsA.

Arguments jid_attr : simpl never.

Lemma wire1_elem n a kids :
  wire1 (Elem n a kids) =
  Elem (mkname (nspace n) (nlocal n)) ((if is_nil (nspace n) then [] else [xmlns_attr (nspace n)]) ++ wire_attrs a)
       (merge_text (flat_map (wire (nspace n)) kids)).
Proof. unfold wire1. cbn [wire]. destruct (nspace n); reflexivity. Qed.

Lemma wire_elem dflt n a kids :
  wire dflt (Elem n a kids) =
  [Elem (mkname (if is_nil (nspace n) then dflt else nspace n) (nlocal n))
        ((if is_nil (nspace n) then [] else [xmlns_attr (nspace n)]) ++ wire_attrs a)
        (merge_text (flat_map (wire (if is_nil (nspace n) then dflt else nspace n)) kids))].
Proof. reflexivity. Qed.

Lemma unmarshal_struct_elem {A} xn (fs : list (Schema.field A)) init n attrs kids :
  unmarshal_struct xn fs init (Elem n attrs kids) =
  if check_xmlname xn n then
    bind (set_attrs fs attrs init) (fun a => bind (set_children fs kids a) (set_chardata fs kids))
  else Err.
Proof. reflexivity. Qed.

Lemma set_children_map_snoc {A X} (fs : list (Schema.field A)) (g : X -> tree)
      (proj : A -> list X) (upd : list X -> A -> A) xs a :
  (forall x a, set_child fs (g x) a = Ok (upd (proj a ++ [x]) a)) ->
  (forall l a, proj (upd l a) = l) ->
  (forall l l' a, upd l (upd l' a) = upd l a) ->
  set_children fs (map g xs) a = Ok (match xs with [] => a | _ => upd (proj a ++ xs) a end).
Proof.
  intros Hs Hp Hu. rewrite (set_children_map fs g (fun x a => upd (proj a ++ [x]) a)) by exact Hs.
  rewrite (fold_left_snoc proj upd xs a Hp Hu). reflexivity.
Qed.

(* rewrite a stuck [set_children] with a lemma whose statement is convertible
   to (not syntactically equal to) the subterm *)
Ltac rw_children H :=
  match goal with
  | |- context [set_children ?fs ?k ?a] =>
      let T := type of H in
      match T with
      | _ = ?rhs => rewrite (H : set_children fs k a = rhs)
      end
  end.

(* ================= roster.Item ================= *)

Definition ritem_upd (l : list bytes) (v : ritem) : ritem := mkritem (r_jid v) (r_name v) (r_sub v) l.

Lemma ritem_group_tok o g a : set_child (ritem_fields o) (leaf (str "group") g) a = Ok (ritem_upd (r_groups a ++ [g]) a).
Proof. cbn. rewrite app_nil_r. reflexivity. Qed.

Lemma ritem_group_wire o g a : set_child (ritem_fields o) (wleaf [] (str "group") g) a = Ok (ritem_upd (r_groups a ++ [g]) a).
Proof. destruct g; cbn; rewrite ?app_nil_r; reflexivity. Qed.

Lemma ritem_attrs o j n s : jid_canon o j ->
  set_attrs (ritem_fields o) (opt_attr (str "jid") j ++ opt_attr (str "name") n ++ opt_attr (str "subscription") s)
            (mkritem [] [] [] []) = Ok (mkritem j n s []).
Proof.
  intro H. unfold opt_attr. destruct j as [|j0 j], n, s; cbn; rewrite ?(jid_attr_canon o _ _ H); reflexivity.
Qed.

Lemma wire_attrs_opt3 a x b y c z :
  wire_attrs (opt_attr (str a) x ++ opt_attr (str b) y ++ opt_attr (str c) z) =
  opt_attr (str a) x ++ opt_attr (str b) y ++ opt_attr (str c) z \/ a = ""%string \/ b = ""%string \/ c = ""%string.
Proof.
  destruct a; [right; left; reflexivity|]. destruct b; [right; right; left; reflexivity|].
  destruct c; [right; right; right; reflexivity|]. left.
  unfold opt_attr. destruct x, y, z; reflexivity.
Qed.

Lemma ritem_roundtrip : roundtrip ritem_c (fun o v => jid_canon o (r_jid v)) (fun v => v).
Proof.
  intros o [j n s gs] H. cbn in H. eexists; split; [reflexivity|].
  unfold ritem_c, c_dec, ritem_un, ritem_tr; cbn [r_jid r_name r_sub r_groups]. split.
  - rewrite unmarshal_struct_elem. cbn [check_xmlname]. rewrite (ritem_attrs o j n s H). cbn [bind].
    rewrite (set_children_map_snoc (ritem_fields o) (leaf (str "group")) r_groups ritem_upd gs _ (ritem_group_tok o))
      by reflexivity.
    cbn [bind]. destruct gs; reflexivity.
  - rewrite wire1_elem. cbn [ln nspace nlocal is_nil app].
    destruct (wire_attrs_opt3 "jid" j "name" n "subscription" s) as [E|[E|[E|E]]]; try discriminate. rewrite E.
    rewrite (wire_map [] (leaf (str "group")) (wleaf [] (str "group"))) by (intro; apply wire_leaf).
    rewrite merge_text_elems by (apply is_elem_map; reflexivity).
    rewrite unmarshal_struct_elem. cbn [check_xmlname]. rewrite (ritem_attrs o j n s H). cbn [bind].
    rewrite (set_children_map_snoc (ritem_fields o) (wleaf [] (str "group")) r_groups ritem_upd gs _ (ritem_group_wire o))
      by reflexivity.
    cbn [bind]. destruct gs; reflexivity.
Qed.

Definition ritem_els := [ln (str "item"); ln (str "group")].
Definition ritem_ats := [ln (str "jid"); ln (str "name"); ln (str "subscription")].

Lemma ritem_wellformed : wellformed ritem_c ritem_els ritem_ats.
Proof.
  wf. cbn [forallb]. rewrite andb_true_r. destruct v as [j n s gs]. unfold ritem_tr; cbn [r_jid r_name r_sub r_groups].
  rewrite names_within_elem. rewrite forallb_map.
  rewrite (forallb_true (fun x => names_within ritem_els ritem_ats (leaf (str "group") x))) by (intro; reflexivity).
  unfold opt_attr. destruct j, n, s; reflexivity.
Qed.

Lemma ritem_dec_total : dec_total ritem_c.
Proof. intros o t H. apply unmarshal_struct_safe. fsafe. Qed.

(* ---- children built by map, when the step is known only for the members ---- *)

Lemma set_children_map_in {A X} (fs : list (Schema.field A)) (g : X -> tree)
      (proj : A -> list X) (upd : list X -> A -> A) xs a :
  (forall x, In x xs -> forall a, set_child fs (g x) a = Ok (upd (proj a ++ [x]) a)) ->
  (forall l a, proj (upd l a) = l) ->
  (forall l l' a, upd l (upd l' a) = upd l a) ->
  set_children fs (map g xs) a = Ok (match xs with [] => a | _ => upd (proj a ++ xs) a end).
Proof.
  intros Hs Hp Hu. revert a. induction xs as [|x r IH]; intro a; cbn [map set_children]; [reflexivity|].
  rewrite (Hs x (or_introl eq_refl)). cbn [bind].
  rewrite IH by (intros y Hy; apply Hs; right; exact Hy).
  destruct r as [|y r]; [reflexivity|]. rewrite Hp, Hu, <- app_assoc. reflexivity.
Qed.

(* ================= blocklist.Item ================= *)

Arguments set_children : simpl nomatch.

Definition bitem_dom (o : oracles) (v : bitem) : Prop :=
  jid_canon o (b_jid v) /\ Forall (fun i => jid_canon o (s_by i)) (b_ids v).

Definition bitem_empty (v : bitem) : bool := is_nil (b_reason v) && is_nil (b_ids v) && is_nil (b_text v).

(* a report without a reason is written (and read back) as a spam report *)
Definition bitem_norm (v : bitem) : bitem :=
  if bitem_empty v then v
  else mkbitem (b_jid v) (if is_nil (b_reason v) then reason_spam else b_reason v) (b_ids v) (b_text v).

Definition bitem_upd (l : list sid) (v : bitem) : bitem := mkbitem (b_jid v) (b_reason v) l (b_text v).

Definition wsid (x : sid) : tree :=
  Elem sid_name [xmlns_attr ns_sid; at_ (str "id") (s_id x); at_ (str "by") (s_by x)] [].

Lemma wire_sid ns x : wire ns (sid_tr x) = [wsid x].
Proof. reflexivity. Qed.

Lemma sid_un_wsid o x : jid_canon o (s_by x) -> sid_un o (wsid x) = Ok x.
Proof. intro H. exact (proj2 (sid_un_tr o x H)). Qed.

Lemma report_sid_tok o x a : jid_canon o (s_by x) ->
  set_child (report_fields o) (sid_tr x) a = Ok (bitem_upd (b_ids a ++ [x]) a).
Proof.
  intro H. change (set_child (report_fields o) (sid_tr x) a)
    with (bind (sid_un o (sid_tr x)) (fun i => Ok (bitem_upd (b_ids a ++ [i]) a))).
  rewrite (proj1 (sid_un_tr o x H)). reflexivity.
Qed.

Lemma report_sid_wire o x a : jid_canon o (s_by x) ->
  set_child (report_fields o) (wsid x) a = Ok (bitem_upd (b_ids a ++ [x]) a).
Proof.
  intro H. change (set_child (report_fields o) (wsid x) a)
    with (bind (sid_un o (wsid x)) (fun i => Ok (bitem_upd (b_ids a ++ [i]) a))).
  rewrite (sid_un_wsid o x H). reflexivity.
Qed.

Lemma report_kids_tok o ids text a : Forall (fun i => jid_canon o (s_by i)) ids -> b_ids a = [] -> b_text a = [] ->
  set_children (report_fields o) (map sid_tr ids ++ opt_leaf (str "text") text) a =
  Ok (mkbitem (b_jid a) (b_reason a) ids text).
Proof.
  intros Hf Hi Ht. rewrite set_children_app.
  rewrite (set_children_map_in (report_fields o) sid_tr b_ids bitem_upd ids a); try reflexivity.
  - cbn [bind]. destruct a as [j r i t]; cbn in Hi, Ht; subst. unfold opt_leaf.
    destruct ids, text; cbn; rewrite ?app_nil_r; reflexivity.
  - intros x Hx a'. apply report_sid_tok. exact (proj1 (Forall_forall _ _) Hf x Hx).
Qed.

Lemma report_kids_wire o ids text a : Forall (fun i => jid_canon o (s_by i)) ids -> b_ids a = [] -> b_text a = [] ->
  set_children (report_fields o)
    (map wsid ids ++ (if is_nil text then [] else [wleaf ns_reporting (str "text") text])) a =
  Ok (mkbitem (b_jid a) (b_reason a) ids text).
Proof.
  intros Hf Hi Ht. rewrite set_children_app.
  rewrite (set_children_map_in (report_fields o) wsid b_ids bitem_upd ids a); try reflexivity.
  - cbn [bind]. destruct a as [j r i t]; cbn in Hi, Ht; subst.
    destruct ids, text; cbn; rewrite ?app_nil_r; reflexivity.
  - intros x Hx a'. apply report_sid_wire. exact (proj1 (Forall_forall _ _) Hf x Hx).
Qed.

Lemma bitem_roundtrip : roundtrip bitem_c bitem_dom bitem_norm.
Proof.
  intros o [j r ids text] [Hj Hf]. cbn in Hj, Hf. eexists; split; [reflexivity|].
  unfold bitem_c, c_dec, bitem_un, bitem_tr, bitem_norm, bitem_empty; cbn [b_jid b_reason b_ids b_text].
  destruct (is_nil r && is_nil ids && is_nil text) eqn:Em.
  - destruct r; [|discriminate]. destruct ids; [|discriminate]. destruct text; [|discriminate].
    rewrite wire1_elem, !unmarshal_struct_elem. cbn. rewrite (jid_attr_canon o j _ Hj). cbn. split; reflexivity.
  - set (r' := if is_nil r then reason_spam else r). split.
    + rewrite unmarshal_struct_elem. cbn. rewrite (jid_attr_canon o j _ Hj). cbn.
      rw_children (report_kids_tok o ids text (mkbitem j r' [] []) Hf eq_refl eq_refl). reflexivity.
    + rewrite wire1_elem. cbn [ln nspace nlocal is_nil app flat_map]. rewrite wire_elem.
      cbn [report_name nspace nlocal is_nil app merge_text]. change (is_nil ns_reporting) with false. cbv iota.
      rewrite flat_map_app, (wire_map ns_reporting sid_tr wsid) by (intro; apply wire_sid).
      assert (Et : flat_map (wire ns_reporting) (opt_leaf (str "text") text) =
                   if is_nil text then [] else [wleaf ns_reporting (str "text") text]).
      { unfold opt_leaf. destruct text; [reflexivity|]. cbn [flat_map is_nil]. rewrite wire_leaf. reflexivity. }
      rewrite Et. rewrite (merge_text_elems (map wsid ids ++ _)).
      2:{ rewrite forallb_app, is_elem_map by reflexivity. destruct text; reflexivity. }
      rewrite unmarshal_struct_elem. cbn. rewrite (jid_attr_canon o j _ Hj). cbn.
      rw_children (report_kids_wire o ids text (mkbitem j r' [] []) Hf eq_refl eq_refl). reflexivity.
Qed.

Definition bitem_els := [ln (str "item"); report_name; sid_name; ln (str "text")].
Definition bitem_ats := [ln (str "jid"); ln (str "reason"); ln (str "id"); ln (str "by")].

Lemma bitem_wellformed : wellformed bitem_c bitem_els bitem_ats.
Proof.
  wf. cbn [forallb]. rewrite andb_true_r. destruct v as [j r ids text]. unfold bitem_tr; cbn [b_jid b_reason b_ids b_text].
  destruct (is_nil r && is_nil ids && is_nil text); [reflexivity|].
  rewrite names_within_elem. cbn [forallb]. rewrite names_within_elem, forallb_app, forallb_map.
  rewrite (forallb_true (fun x => names_within bitem_els bitem_ats (sid_tr x))) by (intro; reflexivity).
  unfold opt_leaf. destruct text; reflexivity.
Qed.

Lemma bitem_dec_total : dec_total bitem_c.
Proof.
  intros o t H. apply unmarshal_struct_safe. unfold bitem_fields. fsafe.
  apply mkfield_safe. intros t' a. apply unmarshal_struct_safe. unfold report_fields. fsafe.
  apply f_sub_safe. intro t''. apply sid_un_safe; exact H.
Qed.

(* ================= crypto: Hash, HashOutput ================= *)

Definition hash_known (h : N) : Prop := exists n, hash_name h hash_table = Some n.

Lemma hash_table_inverse :
  forallb (fun p => match hash_parse (snd p) hash_table with Some k => N.eqb k (fst p) | None => false end) hash_table = true.
Proof. vm_compute. reflexivity. Qed.

Lemma hash_name_in h n t : hash_name h t = Some n -> In (h, n) t.
Proof.
  induction t as [|[k m] r IH]; cbn; [discriminate|]. destruct (N.eqb k h) eqn:E.
  - intro H; inversion H; subst. apply N.eqb_eq in E. subst. left; reflexivity.
  - intro H. right. apply IH. exact H.
Qed.

(* the table of names is one to one: parsing a written name gives the hash back *)
Lemma hash_parse_name h n : hash_name h hash_table = Some n -> hash_parse n hash_table = Some h.
Proof.
  intro H. apply hash_name_in in H.
  pose proof (proj1 (forallb_forall _ _) hash_table_inverse _ H) as K. cbn [fst snd] in K.
  destruct (hash_parse n hash_table) as [k|]; [|discriminate]. apply N.eqb_eq in K. subst. reflexivity.
Qed.

Lemma hash_names_nonempty h n : hash_name h hash_table = Some n -> n <> [].
Proof.
  intro H. apply hash_name_in in H. intro E. subst.
  assert (K : forallb (fun p => negb (is_nil (snd p))) hash_table = true) by (vm_compute; reflexivity).
  pose proof (proj1 (forallb_forall _ _) K _ H) as K'. discriminate.
Qed.

Arguments hash_parse : simpl never.
Arguments hash_name : simpl never.

Lemma hash_roundtrip : roundtrip hash_c (fun _ h => hash_known h) (fun h => h).
Proof.
  intros o h [n Hn]. unfold hash_c, c_enc, c_dec, hash_tr, hash_un. rewrite Hn. eexists; split; [reflexivity|].
  cbn. rewrite (hash_parse_name h n Hn). split; reflexivity.
Qed.

(* outside the table TokenReader panics, as documented *)
Lemma hash_enc_panics o h : hash_name h hash_table = None -> c_enc hash_c o h = Panic.
Proof. intro H. unfold hash_c, c_enc, hash_tr. rewrite H. reflexivity. Qed.

Definition hash_els := [mkname ns_hashes (str "hash-used"); mkname ns_hashes (str "hash")].

Lemma hash_wellformed : wellformed hash_c hash_els [ln (str "algo")].
Proof.
  intros o v ts E. unfold hash_c, c_enc, hash_tr in E. destruct (hash_name v hash_table); [|discriminate].
  inversion E; subst. apply forest_wellformed_intro; reflexivity.
Qed.

Lemma hash_algo_safe a : safe (hash_algo a).
Proof. unfold hash_algo. destruct (attr_local _ _); [|exact I]. destruct (hash_parse _ _); exact I. Qed.

Lemma hash_dec_total : dec_total hash_c.
Proof. intros o t _. destruct t; cbn; try exact I. apply hash_algo_safe. Qed.

(* HashOutput: an empty output is written as an empty element, which the
   decoder rejects (pinned by the package's tests): the round trip holds for
   non-empty outputs *)
Definition hashout_dom (o : oracles) (v : hashout) : Prop :=
  hash_known (ho_hash v) /\ ho_out v <> [] /\ o_b64dec o (b64enc (ho_out v)) = Ok (ho_out v).

Lemma b64enc_nonnil s : s <> [] -> b64enc s <> [].
Proof. destruct s as [|a [|b [|c r]]]; cbn; intros H E; try discriminate. contradiction. Qed.

Lemma hashout_un_tree o v t : hashout_dom o v -> hashout_tree v = Ok t ->
  hashout_un o t = Ok v /\ (forall ns, exists t', wire ns t = [t'] /\ hashout_un o t' = Ok v).
Proof.
  destruct v as [h out]. intros [[n Hn] [Hne Hb]]. cbn in Hn, Hne, Hb.
  unfold hashout_tree; cbn [ho_hash ho_out]. rewrite Hn. intro E; inversion E; subst; clear E.
  pose proof (b64enc_nonnil out Hne) as Hbn. pose proof (hash_parse_name h n Hn) as Hp.
  split.
  - cbn. rewrite Hp. cbn. destruct (b64enc out) eqn:Eb; [contradiction|]. cbn. rewrite Hb. reflexivity.
  - intro ns. eexists; split; [reflexivity|]. cbn. rewrite Hp. cbn.
    destruct (b64enc out) eqn:Eb; [contradiction|]. cbn. rewrite Hb. reflexivity.
Qed.

Lemma hashout_roundtrip : roundtrip hashout_c hashout_dom (fun v => v).
Proof.
  intros o v H. destruct (hashout_tree v) as [t| | |] eqn:E.
  - exists t. unfold hashout_c, c_enc, c_dec. rewrite E. split; [reflexivity|].
    destruct (hashout_un_tree o v t H E) as [H1 H2]. split; [exact H1|].
    destruct (H2 []) as [t' [Hw Hd]]. unfold wire1. rewrite Hw. exact Hd.
  - exfalso. destruct H as [[n Hn] _]. unfold hashout_tree in E. rewrite Hn in E. discriminate.
  - exfalso. destruct H as [[n Hn] _]. unfold hashout_tree in E. rewrite Hn in E. discriminate.
  - exfalso. destruct H as [[n Hn] _]. unfold hashout_tree in E. rewrite Hn in E. discriminate.
Qed.

(* with an empty output the element is written with an empty character data
   token: a decoder fed the token stream accepts it, but on the wire the element
   is empty and the decoder rejects it (known finding
   C19/crypto.HashOutput/roundtrip/error:empty-output) *)
Lemma hashout_empty_paths_differ o h n : hash_name h hash_table = Some n ->
  exists t, c_enc hashout_c o (mkhashout h []) = Ok [t] /\
            c_dec hashout_c o t = Ok (mkhashout h []) /\ c_dec hashout_c o (wire1 t) = Err.
Proof.
  intro Hn. unfold hashout_c, c_enc, c_dec, hashout_tree; cbn [ho_hash ho_out]. rewrite Hn.
  eexists; split; [reflexivity|]. cbn. rewrite (hash_parse_name h n Hn). cbn. split; reflexivity.
Qed.

Lemma hashout_tree_names v t : hashout_tree v = Ok t -> names_within hash_els [ln (str "algo")] t = true.
Proof. unfold hashout_tree. destruct (hash_name _ _); [|discriminate]. intro E; inversion E; subst. reflexivity. Qed.

Lemma hashout_wellformed : wellformed hashout_c hash_els [ln (str "algo")].
Proof.
  intros o v ts E. unfold hashout_c, c_enc in E. destruct (hashout_tree v) eqn:Et; try discriminate.
  cbn in E. inversion E; subst. apply forest_wellformed_intro; try reflexivity.
  cbn [forallb]. rewrite (hashout_tree_names v a Et). reflexivity.
Qed.

Lemma hashout_un_safe o t : or_safe o -> safe (hashout_un o t).
Proof.
  intro H. destruct t as [n a k|b|k b]; cbn; try exact I.
  apply bind_safe; [apply hash_algo_safe|]. intro h. destruct k as [|[]]; try exact I.
  apply bind_safe; [|intro; exact I]. destruct (is_nil b); [exact I|apply (os_b64 o H)].
Qed.

Lemma hashout_dec_total : dec_total hashout_c.
Proof. intros o t H. apply hashout_un_safe; exact H. Qed.
