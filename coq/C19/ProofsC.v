(* C19/ProofsC.v — payloads with repeated children: roster.Item,
   blocklist.Item, crypto keys and trust messages. *)
From Coq Require Import ZArith Lia.
From XV Require Import lib.Bytes lib.Xml lib.Schema C19.Form C19.Types C19.Spec C19.ProofsLib C19.ProofsTypes C19.ProofsA.

Arguments jid_attr : simpl never.

Lemma wire1_elem n a kids :
  wire1 (Elem n a kids) =
  Elem (mkname (nspace n) (nlocal n)) ((if is_nil (nspace n) then [] else [xmlns_attr (nspace n)]) ++ wire_attrs a)
       (merge_text (flat_map (wire (nspace n)) kids)).
Proof. unfold wire1. cbn [wire]. destruct (nspace n); reflexivity. Qed.

Lemma wire_elem dflt n a kids :
  wire dflt (Elem n a kids) =
  [Elem (mkname (if is_nil (nspace n) then dflt else nspace n) (nlocal n))
        ((if is_nil (nspace n) then [] else [xmlns_attr (nspace n)]) ++ wire_attrs a)
        (merge_text (flat_map (wire (if is_nil (nspace n) then dflt else nspace n)) kids))].
Proof. reflexivity. Qed.

Lemma unmarshal_struct_elem {A} xn (fs : list (Schema.field A)) init n attrs kids :
  unmarshal_struct xn fs init (Elem n attrs kids) =
  if check_xmlname xn n then
    bind (set_attrs fs attrs init) (fun a => bind (set_children fs kids a) (set_chardata fs kids))
  else Err.
Proof. reflexivity. Qed.

Lemma set_children_map_snoc {A X} (fs : list (Schema.field A)) (g : X -> tree)
      (proj : A -> list X) (upd : list X -> A -> A) xs a :
  (forall x a, set_child fs (g x) a = Ok (upd (proj a ++ [x]) a)) ->
  (forall l a, proj (upd l a) = l) ->
  (forall l l' a, upd l (upd l' a) = upd l a) ->
  set_children fs (map g xs) a = Ok (match xs with [] => a | _ => upd (proj a ++ xs) a end).
Proof.
  intros Hs Hp Hu. rewrite (set_children_map fs g (fun x a => upd (proj a ++ [x]) a)) by exact Hs.
  rewrite (fold_left_snoc proj upd xs a Hp Hu). reflexivity.
Qed.

(* ================= roster.Item ================= *)

Definition ritem_upd (l : list bytes) (v : ritem) : ritem := mkritem (r_jid v) (r_name v) (r_sub v) l.

Lemma ritem_group_tok o g a : set_child (ritem_fields o) (leaf (str "group") g) a = Ok (ritem_upd (r_groups a ++ [g]) a).
Proof. cbn. rewrite app_nil_r. reflexivity. Qed.

Lemma ritem_group_wire o g a : set_child (ritem_fields o) (wleaf [] (str "group") g) a = Ok (ritem_upd (r_groups a ++ [g]) a).
Proof. destruct g; cbn; rewrite ?app_nil_r; reflexivity. Qed.

Lemma ritem_attrs o j n s : jid_canon o j ->
  set_attrs (ritem_fields o) (opt_attr (str "jid") j ++ opt_attr (str "name") n ++ opt_attr (str "subscription") s)
            (mkritem [] [] [] []) = Ok (mkritem j n s []).
Proof.
  intro H. unfold opt_attr. destruct j as [|j0 j], n, s; cbn; rewrite ?(jid_attr_canon o _ _ H); reflexivity.
Qed.

Lemma wire_attrs_opt3 a x b y c z :
  wire_attrs (opt_attr (str a) x ++ opt_attr (str b) y ++ opt_attr (str c) z) =
  opt_attr (str a) x ++ opt_attr (str b) y ++ opt_attr (str c) z \/ a = ""%string \/ b = ""%string \/ c = ""%string.
Proof.
  destruct a; [right; left; reflexivity|]. destruct b; [right; right; left; reflexivity|].
  destruct c; [right; right; right; reflexivity|]. left.
  unfold opt_attr. destruct x, y, z; reflexivity.
Qed.

Lemma ritem_roundtrip : roundtrip ritem_c (fun o v => jid_canon o (r_jid v)) (fun v => v).
Proof.
  intros o [j n s gs] H. cbn in H. eexists; split; [reflexivity|].
  unfold ritem_c, c_dec, ritem_un, ritem_tr; cbn [r_jid r_name r_sub r_groups]. split.
  - rewrite unmarshal_struct_elem. cbn [check_xmlname]. rewrite (ritem_attrs o j n s H). cbn [bind].
    rewrite (set_children_map_snoc (ritem_fields o) (leaf (str "group")) r_groups ritem_upd gs _ (ritem_group_tok o))
      by reflexivity.
    cbn [bind]. destruct gs; reflexivity.
  - rewrite wire1_elem. cbn [ln nspace nlocal is_nil app].
    destruct (wire_attrs_opt3 "jid" j "name" n "subscription" s) as [E|[E|[E|E]]]; try discriminate. rewrite E.
    rewrite (wire_map [] (leaf (str "group")) (wleaf [] (str "group"))) by (intro; apply wire_leaf).
    rewrite merge_text_elems by (apply is_elem_map; reflexivity).
    rewrite unmarshal_struct_elem. cbn [check_xmlname]. rewrite (ritem_attrs o j n s H). cbn [bind].
    rewrite (set_children_map_snoc (ritem_fields o) (wleaf [] (str "group")) r_groups ritem_upd gs _ (ritem_group_wire o))
      by reflexivity.
    cbn [bind]. destruct gs; reflexivity.
Qed.

Definition ritem_els := [ln (str "item"); ln (str "group")].
Definition ritem_ats := [ln (str "jid"); ln (str "name"); ln (str "subscription")].

Lemma ritem_wellformed : wellformed ritem_c ritem_els ritem_ats.
Proof.
  wf. cbn [forallb]. rewrite andb_true_r. destruct v as [j n s gs]. unfold ritem_tr; cbn [r_jid r_name r_sub r_groups].
  rewrite names_within_elem. rewrite forallb_map.
  rewrite (forallb_true (fun x => names_within ritem_els ritem_ats (leaf (str "group") x))) by (intro; reflexivity).
  unfold opt_attr. destruct j, n, s; reflexivity.
Qed.

Lemma ritem_dec_total : dec_total ritem_c.
Proof. intros o t H. apply unmarshal_struct_safe. fsafe. Qed.

(* ---- children built by map, when the step is known only for the members ---- *)

Lemma set_children_map_in {A X} (fs : list (Schema.field A)) (g : X -> tree)
      (proj : A -> list X) (upd : list X -> A -> A) xs a :
  (forall x, In x xs -> forall a, set_child fs (g x) a = Ok (upd (proj a ++ [x]) a)) ->
  (forall l a, proj (upd l a) = l) ->
  (forall l l' a, upd l (upd l' a) = upd l a) ->
  set_children fs (map g xs) a = Ok (match xs with [] => a | _ => upd (proj a ++ xs) a end).
Proof.
  intros Hs Hp Hu. revert a. induction xs as [|x r IH]; intro a; cbn [map set_children]; [reflexivity|].
  rewrite (Hs x (or_introl eq_refl)). cbn [bind].
  rewrite IH by (intros y Hy; apply Hs; right; exact Hy).
  destruct r as [|y r]; [reflexivity|]. rewrite Hp, Hu, <- app_assoc. reflexivity.
Qed.

(* ================= blocklist.Item ================= *)

Arguments set_children : simpl nomatch.

Definition bitem_dom (o : oracles) (v : bitem) : Prop :=
  jid_canon o (b_jid v) /\ Forall (fun i => jid_canon o (s_by i)) (b_ids v).

Definition bitem_empty (v : bitem) : bool := is_nil (b_reason v) && is_nil (b_ids v) && is_nil (b_text v).

(* a report without a reason is written (and read back) as a spam report *)
Definition bitem_norm (v : bitem) : bitem :=
  if bitem_empty v then v
  else mkbitem (b_jid v) (if is_nil (b_reason v) then reason_spam else b_reason v) (b_ids v) (b_text v).

Definition bitem_upd (l : list sid) (v : bitem) : bitem := mkbitem (b_jid v) (b_reason v) l (b_text v).

Definition wsid (x : sid) : tree :=
  Elem sid_name [xmlns_attr ns_sid; at_ (str "id") (s_id x); at_ (str "by") (s_by x)] [].

Lemma wire_sid ns x : wire ns (sid_tr x) = [wsid x].
Proof. reflexivity. Qed.

Lemma sid_un_wsid o x : jid_canon o (s_by x) -> sid_un o (wsid x) = Ok x.
Proof. intro H. exact (proj2 (sid_un_tr o x H)). Qed.

Lemma report_sid_tok o x a : jid_canon o (s_by x) ->
  set_child (report_fields o) (sid_tr x) a = Ok (bitem_upd (b_ids a ++ [x]) a).
Proof.
  intro H. change (set_child (report_fields o) (sid_tr x) a)
    with (bind (sid_un o (sid_tr x)) (fun i => Ok (bitem_upd (b_ids a ++ [i]) a))).
  rewrite (proj1 (sid_un_tr o x H)). reflexivity.
Qed.

Lemma report_sid_wire o x a : jid_canon o (s_by x) ->
  set_child (report_fields o) (wsid x) a = Ok (bitem_upd (b_ids a ++ [x]) a).
Proof.
  intro H. change (set_child (report_fields o) (wsid x) a)
    with (bind (sid_un o (wsid x)) (fun i => Ok (bitem_upd (b_ids a ++ [i]) a))).
  rewrite (sid_un_wsid o x H). reflexivity.
Qed.

Lemma report_kids_tok o ids text a : Forall (fun i => jid_canon o (s_by i)) ids -> b_ids a = [] -> b_text a = [] ->
  set_children (report_fields o) (map sid_tr ids ++ opt_leaf (str "text") text) a =
  Ok (mkbitem (b_jid a) (b_reason a) ids text).
Proof.
  intros Hf Hi Ht. rewrite set_children_app.
  rewrite (set_children_map_in (report_fields o) sid_tr b_ids bitem_upd ids a); try reflexivity.
  - cbn [bind]. destruct a as [j r i t]; cbn in Hi, Ht; subst. unfold opt_leaf.
    destruct ids, text; cbn; rewrite ?app_nil_r; reflexivity.
  - intros x Hx a'. apply report_sid_tok. exact (proj1 (Forall_forall _ _) Hf x Hx).
Qed.

Lemma report_kids_wire o ids text a : Forall (fun i => jid_canon o (s_by i)) ids -> b_ids a = [] -> b_text a = [] ->
  set_children (report_fields o)
    (map wsid ids ++ (if is_nil text then [] else [wleaf ns_reporting (str "text") text])) a =
  Ok (mkbitem (b_jid a) (b_reason a) ids text).
Proof.
  intros Hf Hi Ht. rewrite set_children_app.
  rewrite (set_children_map_in (report_fields o) wsid b_ids bitem_upd ids a); try reflexivity.
  - cbn [bind]. destruct a as [j r i t]; cbn in Hi, Ht; subst.
    destruct ids, text; cbn; rewrite ?app_nil_r; reflexivity.
  - intros x Hx a'. apply report_sid_wire. exact (proj1 (Forall_forall _ _) Hf x Hx).
Qed.

Lemma bitem_roundtrip : roundtrip bitem_c bitem_dom bitem_norm.
Proof.
  intros o [j r ids text] [Hj Hf]. cbn in Hj, Hf. eexists; split; [reflexivity|].
  unfold bitem_c, c_dec, bitem_un, bitem_tr, bitem_norm, bitem_empty; cbn [b_jid b_reason b_ids b_text].
  destruct (is_nil r && is_nil ids && is_nil text) eqn:Em.
  - destruct r; [|discriminate]. destruct ids; [|discriminate]. destruct text; [|discriminate].
    rewrite wire1_elem, !unmarshal_struct_elem. cbn. rewrite (jid_attr_canon o j _ Hj). cbn. split; reflexivity.
  - set (r' := if is_nil r then reason_spam else r). split.
    + rewrite unmarshal_struct_elem. cbn. rewrite (jid_attr_canon o j _ Hj). cbn.
      change [ "t"%byte; "e"%byte; "x"%byte; "t"%byte ] with (str "text").
      rewrite (report_kids_tok o ids text (mkbitem j r' [] []) Hf eq_refl eq_refl). reflexivity.
    + rewrite wire1_elem. cbn [ln nspace nlocal is_nil app flat_map]. rewrite wire_elem.
      cbn [report_name nspace nlocal is_nil app merge_text].
      rewrite flat_map_app, (wire_map ns_reporting sid_tr wsid) by (intro; apply wire_sid).
      assert (Et : flat_map (wire ns_reporting) (opt_leaf (str "text") text) =
                   if is_nil text then [] else [wleaf ns_reporting (str "text") text]).
      { unfold opt_leaf. destruct text; [reflexivity|]. cbn [flat_map is_nil]. rewrite wire_leaf. reflexivity. }
      rewrite Et. rewrite (merge_text_elems (map wsid ids ++ _)).
      2:{ rewrite forallb_app, is_elem_map by reflexivity. destruct text; reflexivity. }
      rewrite unmarshal_struct_elem. cbn. rewrite (jid_attr_canon o j _ Hj). cbn.
      Show.
