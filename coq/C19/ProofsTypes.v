(* C19/ProofsTypes.v — lemmas about the payload models of C19/Types.v: for each
   type, decoding what TokenReader yields gives back the (normalised) value,
   on the token stream itself and after the encoder/decoder passage [wire1];
   names in the output are fixed names; decoding never panics. *)
From Coq Require Import ZArith Lia.
From XV Require Import lib.Bytes lib.Xml lib.Schema C19.Form C19.Types.

Ltac crunch := cbn; rewrite ?app_nil_r; try reflexivity.

Lemma direct_text_one b : direct_text [Text b] = b.
Proof. cbn. apply app_nil_r. Qed.

Lemma is_nil_false_cons {A} (x : A) l : is_nil (x :: l) = false.
Proof. reflexivity. Qed.

(* ---- integers ---- *)

Lemma parse_int_dec_int z :
  (- Z.of_N two63 <= z < Z.of_N two63)%Z -> parse_int (dec_int z) = Some z.
Proof.
  intro Hz. destruct z as [|p|p]; unfold dec_int.
  - reflexivity.
  - destruct (dec (N.pos p)) as [|c r] eqn:E; [exfalso; exact (dec_nonnil _ E)|].
    assert (Hd : all_digits (c :: r) = true) by (rewrite <- E; apply uint_bytes_digits).
    assert (Hb : bytes_uint (c :: r) = Some (N.to_uint (N.pos p))) by (rewrite <- E; apply bytes_uint_bytes).
    assert (Hc : byte_eqb c "-"%byte = false /\ byte_eqb c "+"%byte = false).
    { change (all_digits (c :: r)) with ((48 <=? bN c)%N && (bN c <=? 57)%N && all_digits r) in Hd.
      apply andb_true_iff in Hd. destruct Hd as [Hd _].
      destruct c; cbn in Hd; try discriminate; split; reflexivity. }
    destruct Hc as [Hc1 Hc2]. unfold parse_int. rewrite Hc1, Hc2. cbv beta iota. rewrite Hb.
    rewrite DecimalN.Unsigned.of_to.
    assert (Hlt : (N.pos p <? two63)%N = true) by (apply N.ltb_lt; unfold two63 in *; lia).
    rewrite Hlt. reflexivity.
  - destruct (dec (N.pos p)) as [|c r] eqn:E; [exfalso; exact (dec_nonnil _ E)|].
    assert (Hb : bytes_uint (c :: r) = Some (N.to_uint (N.pos p))) by (rewrite <- E; apply bytes_uint_bytes).
    unfold parse_int. change (byte_eqb "-" "-") with true. cbv beta iota. rewrite Hb.
    rewrite DecimalN.Unsigned.of_to.
    assert (Hle : (N.pos p <=? two63)%N = true) by (apply N.leb_le; unfold two63 in *; lia).
    rewrite Hle. reflexivity.
Qed.

Definition no_space (s : bytes) : bool := forallb (fun c => negb (is_space c)) s.

Lemma trim_left_no_space s : no_space s = true -> trim_left s = s.
Proof.
  destruct s as [|c r]; [reflexivity|]. cbn [no_space forallb trim_left]. intro H.
  apply andb_true_iff in H. destruct H as [H _]. destruct (is_space c); [discriminate|reflexivity].
Qed.

Lemma no_space_rev s : no_space (rev s) = no_space s.
Proof.
  unfold no_space. induction s as [|c r IH]; [reflexivity|].
  cbn [rev forallb]. rewrite forallb_app, IH. cbn [forallb]. rewrite andb_true_r, andb_comm. reflexivity.
Qed.

Lemma trim_space_no_space s : no_space s = true -> trim_space s = s.
Proof.
  intro H. unfold trim_space. rewrite (trim_left_no_space s H).
  rewrite trim_left_no_space by (rewrite no_space_rev; exact H). apply rev_involutive.
Qed.

Lemma digits_no_space s : all_digits s = true -> no_space s = true.
Proof.
  unfold all_digits, no_space. induction s as [|c r IH]; [reflexivity|]. cbn [forallb].
  intro H. apply andb_true_iff in H. destruct H as [Hc Hr]. rewrite (IH Hr), andb_true_r.
  destruct c; try reflexivity; cbn in Hc; discriminate.
Qed.

Lemma dec_int_no_space z : no_space (dec_int z) = true.
Proof.
  destruct z as [|p|p]; unfold dec_int.
  - reflexivity.
  - apply digits_no_space, uint_bytes_digits.
  - change (no_space ("-"%byte :: dec (N.pos p))) with (negb (is_space "-"%byte) && no_space (dec (N.pos p))).
    unfold dec. rewrite (digits_no_space _ (uint_bytes_digits _)). reflexivity.
Qed.

Lemma dec_int_nonnil z : dec_int z <> [].
Proof. destruct z; unfold dec_int; try apply dec_nonnil; discriminate. Qed.

Lemma copy_int_dec_int z :
  (- Z.of_N two63 <= z < Z.of_N two63)%Z -> copy_int (dec_int z) = Ok z.
Proof.
  intro Hz. unfold copy_int. destruct (dec_int z) eqn:E; [exfalso; exact (dec_int_nonnil z E)|].
  rewrite <- E. rewrite trim_space_no_space by apply dec_int_no_space.
  rewrite parse_int_dec_int by exact Hz. reflexivity.
Qed.
