(* C19/ProofsG.v — history.Query: building the query never panics (it submits a
   data form), unmarshalling any XML gives a value or an error (after the
   repair: a query without a form does not dereference nil). *)
From Coq Require Import ZArith Lia.
From XV Require Import lib.Bytes lib.Xml lib.Schema C19.Form C19.Types C19.Spec C19.ProofsLib C19.ProofsA
  C19.ProofsForm1.

Lemma hquery_enc_safe o q : or_safe o -> safe (c_enc hquery_c o q).
Proof.
  intro H. unfold hquery_c, c_enc, hquery_tr.
  apply bind_safe; [apply submit_safe; apply (os_jid o H)|]. intros [f b]. exact I.
Qed.

Lemma get_string_safe jp d id : (forall s, safe (jp s)) -> safe (get_string jp d id).
Proof. intro H. unfold get_string. apply bind_safe; [apply get_safe; exact H|]. intros [v ok]. exact I. Qed.

Lemma hquery_dec_total : dec_total hquery_c.
Proof.
  intros o t H. unfold hquery_c, c_dec, hquery_un.
  pose proof (os_jid o H) as Hj.
  apply bind_safe.
  { apply unmarshal_struct_safe. unfold hq_fields. fsafe.
    - apply mkfield_safe. intros t' r. apply bind_safe; [apply unmarshal_into_safe|]. intro; exact I.
    - apply mkfield_safe. intros t' r. apply bind_safe; [apply unmarshal_struct_safe; constructor|]. intro; exact I.
    - apply mkfield_safe. intros t' r. apply unmarshal_struct_safe. unfold hq_set_fields, f_uint. fsafe. }
  intro r. apply bind_safe; [apply get_safe; exact Hj|]. intros [wv wok].
  apply bind_safe; [apply get_string_safe; exact Hj|]. intros [ss sok].
  apply bind_safe; [destruct sok; [apply (os_tparse o H)|exact I]|]. intro st.
  apply bind_safe; [apply get_string_safe; exact Hj|]. intros [es eok].
  apply bind_safe; [destruct eok; [apply (os_tparse o H)|exact I]|]. intro en.
  apply bind_safe; [apply get_string_safe; exact Hj|]. intros [bs bok].
  apply bind_safe; [apply get_string_safe; exact Hj|]. intros [as_ aok].
  apply bind_safe; [apply get_safe; exact Hj|]. intros [iv iok]. exact I.
Qed.

(* the pinned tree called Get through the nil form of a query that has none *)
Lemma hquery_pinned_nil_form : get_pinned (fun _ => Err) None (str "with") = Panic.
Proof. reflexivity. Qed.
