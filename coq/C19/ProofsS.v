(* C19/ProofsS.v — internal/saslerr: the SASL <failure/> payload. Every value of
   Condition (a uint16; only 1..11 are defined) yields one well-formed failure
   element; the defined conditions and any text and language round-trip. *)
From Coq Require Import ZArith Lia.
From XV Require Import lib.Bytes lib.Xml lib.Schema C19.Form C19.Types C19.Spec C19.ProofsLib C19.ProofsA C19.ProofsC.

Definition sasl_els : list name :=
  failure_name :: ln (str "text") :: map ln (tl sasl_conditions).
Definition sasl_ats : list name := [mkname xml_ns (str "lang")].

Definition sasl_range : list N := map N.of_nat (seq 0 13).

Lemma sasl_range_complete c : (c <= 12)%N -> In c sasl_range.
Proof.
  intro H. unfold sasl_range. apply in_map_iff. exists (N.to_nat c). split; [apply N2Nat.id|]. apply in_seq. lia.
Qed.

Definition optN_is (a : option N) (c : N) : bool := match a with Some x => N.eqb x c | None => false end.

Lemma sasl_table :
  forallb (fun c => match sasl_name c with
                    | Some n => negb (bytes_eqb (str "text") n) && optN_is (scond_find n (tl sasl_conditions) 1) c &&
                                mem (ln n) sasl_els && negb (is_nil n)
                    | None => true
                    end) sasl_range = true.
Proof. vm_compute. reflexivity. Qed.

Lemma sasl_name_lt c n : sasl_name c = Some n -> (c <= 12)%N.
Proof.
  unfold sasl_name. destruct (N.eqb c 0 || (sasl_count <=? c)%N) eqn:E; [discriminate|]. intros _.
  apply orb_false_iff in E. destruct E as [_ E]. apply N.leb_gt in E. change sasl_count with 12%N in E. lia.
Qed.

Lemma sasl_name_spec c n : sasl_name c = Some n ->
  bytes_eqb (str "text") n = false /\ (forall cur, scond_dec n cur = c) /\ mem (ln n) sasl_els = true /\ n <> [].
Proof.
  intro H. pose proof (proj1 (forallb_forall _ _) sasl_table c (sasl_range_complete c (sasl_name_lt c n H))) as T.
  cbv beta in T. rewrite H in T. apply andb_true_iff in T. destruct T as [T T4].
  apply andb_true_iff in T. destruct T as [T T3]. apply andb_true_iff in T. destruct T as [T1 T2].
  split; [destruct (bytes_eqb (str "text") n); [discriminate|reflexivity]|].
  split; [|split; [exact T3|intro; subst; discriminate]].
  intro cur. unfold scond_dec. destruct (scond_find n (tl sasl_conditions) 1); [|discriminate].
  apply N.eqb_eq in T2. exact T2.
Qed.

(* the value decoded: an undefined condition is not written and comes back as
   ConditionNone; the language exists only with a text *)
Definition saslerr_norm (v : saslerr) : saslerr :=
  mksaslerr (match sasl_name (se_cond v) with Some _ => se_cond v | None => 0%N end)
            (if is_nil (se_text v) then [] else se_lang v) (se_text v).

Lemma sasl_cond_child ns n c r : sasl_name c = Some n ->
  set_child saslerr_fields (Elem (mkname ns n) [] []) r = Ok (mksaslraw c (sw_texts r)).
Proof.
  intro H. destruct (sasl_name_spec c n H) as [H1 [H2 _]].
  unfold set_child, saslerr_fields, f_sub, find_elem. cbn [f_kind f_ns f_local].
  unfold name_match. cbn [nlocal nspace is_nil orb]. rewrite H1. cbn [andb find_kind f_kind f_set tree_name nlocal sw_cond].
  rewrite H2. reflexivity.
Qed.

Lemma set_children_cons {A} (fs : list (Schema.field A)) c k a :
  set_children fs (c :: k) a = bind (set_child fs c a) (set_children fs k).
Proof. reflexivity. Qed.

Lemma saslerr_roundtrip : roundtrip saslerr_c any saslerr_norm.
Proof.
  intros o [c lang text] _. eexists; split; [reflexivity|].
  unfold saslerr_c, c_dec, saslerr_un, saslerr_tr, saslerr_norm, scond_tr; cbn [se_cond se_lang se_text].
  destruct (sasl_name c) as [n|] eqn:En.
  - pose proof (sasl_cond_child [] n c) as K1. pose proof (sasl_cond_child ns_sasl n c) as K2.
    destruct (sasl_name_spec c n En) as [_ [_ [_ Hne]]]. destruct n as [|n0 n']; [contradiction|].
    split.
    + rewrite unmarshal_struct_elem. cbn [check_xmlname set_attrs bind app].
      change (set_children saslerr_fields (Elem (ln (n0 :: n')) [] [] :: ?k) ?a)
        with (bind (set_child saslerr_fields (Elem (ln (n0 :: n')) [] []) a) (set_children saslerr_fields k)).
      unfold ln at 1. rewrite (K1 _ En). cbn [bind sw_texts].
      destruct text as [|t0 t], lang as [|l0 l]; cbn; rewrite ?app_nil_r; reflexivity.
    + rewrite wire1_elem. cbn [failure_name nspace nlocal]. change (is_nil ns_sasl) with false. cbv iota.
      assert (Ha : forall r, set_attrs saslerr_fields [xmlns_attr ns_sasl] r = Ok r) by reflexivity.
      destruct text as [|t0 t], lang as [|l0 l]; cbn [is_nil app flat_map wire ln nspace nlocal merge_text wire_attrs filter aname negb];
        rewrite unmarshal_struct_elem; cbn [check_xmlname]; rewrite Ha; cbn [bind];
        rewrite set_children_cons, (K2 _ En); cbn [bind sw_texts]; cbn; rewrite ?app_nil_r; reflexivity.
  - split.
    + destruct text as [|t0 t], lang as [|l0 l]; cbn; rewrite ?app_nil_r; reflexivity.
    + destruct text as [|t0 t], lang as [|l0 l]; cbn; rewrite ?app_nil_r; reflexivity.
Qed.

Lemma saslerr_wellformed : wellformed saslerr_c sasl_els sasl_ats.
Proof.
  intros o v ts E. cbn in E. inversion E; subst; clear E. apply forest_wellformed_intro; try reflexivity.
  cbn [forallb]. rewrite andb_true_r. destruct v as [c lang text]. unfold saslerr_tr, scond_tr; cbn [se_cond se_lang se_text].
  rewrite names_within_elem, forallb_app. cbn [forallb].
  assert (Hc : forallb (names_within sasl_els sasl_ats) (match sasl_name c with Some n => [Elem (ln n) [] []] | None => [] end) = true).
  { destruct (sasl_name c) as [n|] eqn:En; [|reflexivity]. cbn [forallb]. rewrite names_within_elem.
    destruct (sasl_name_spec c n En) as [_ [_ [Hm _]]]. rewrite Hm. reflexivity. }
  rewrite Hc. destruct text, lang; reflexivity.
Qed.

Lemma saslerr_dec_total : dec_total saslerr_c.
Proof.
  intros o t _. unfold saslerr_c, c_dec, saslerr_un. apply bind_safe; [|intro; exact I].
  apply unmarshal_struct_safe. unfold saslerr_fields.
  repeat first [apply Forall_nil | apply Forall_cons].
  - apply mkfield_safe. intros; exact I.
  - apply f_sub_safe. intro t'. apply unmarshal_struct_safe. unfold sasl_text_fields.
    repeat first [apply Forall_nil | apply Forall_cons | apply f_str_safe].
Qed.

(* ---- Condition on its own ---- *)

(* a defined condition is one element and reads back; ConditionNone and every
   value at or beyond the table write nothing (so nothing malformed either) *)
Lemma scond_roundtrip : forall o c,
  match sasl_name c with
  | Some n => exists t, c_enc scond_c o c = Ok [t] /\ c_dec scond_c o t = Ok c /\ c_dec scond_c o (wire1 t) = Ok c
  | None => c_enc scond_c o c = Ok []
  end.
Proof.
  intros o c. destruct (sasl_name c) as [n|] eqn:En.
  - unfold scond_c, c_enc, c_dec, scond_tr. rewrite En. eexists; split; [reflexivity|].
    destruct (sasl_name_spec c n En) as [_ [H2 _]]. cbn. rewrite !H2. split; reflexivity.
  - unfold scond_c, c_enc, scond_tr. rewrite En. reflexivity.
Qed.

Lemma scond_undefined c : (c = 0 \/ 12 <= c)%N -> sasl_name c = None.
Proof.
  intro H. unfold sasl_name. change sasl_count with 12%N.
  destruct H as [->|H]; [reflexivity|]. apply N.leb_le in H. rewrite H, orb_true_r. reflexivity.
Qed.

Lemma scond_wellformed : wellformed scond_c sasl_els sasl_ats.
Proof.
  intros o c ts E. unfold scond_c, c_enc, scond_tr in E. apply forest_wellformed_intro; try reflexivity.
  destruct (sasl_name c) as [n|] eqn:En; inversion E; subst; [|reflexivity].
  cbn [forallb]. rewrite names_within_elem. destruct (sasl_name_spec c n En) as [_ [_ [Hm _]]]. rewrite Hm. reflexivity.
Qed.

Lemma scond_dec_total : dec_total scond_c.
Proof. intros o t _. destruct t; exact I. Qed.
