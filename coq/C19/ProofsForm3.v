(* C19/ProofsForm3.v — data forms: the names TokenReader writes are literal
   names; the values it writes respect XEP-0004 (no empty value, one value at
   most in a single-valued field, booleans and JIDs well-formed, no line break
   in a title, an instruction line or a text-multi line); the text-multi
   splitting in closed form. *)
From Coq Require Import ZArith Lia.
From XV Require Import lib.Bytes lib.Xml lib.Schema C19.Form C19.Types C19.Spec C19.ProofsLib C19.ProofsC
  C19.ProofsForm1 C19.ProofsForm2.

Definition form_els := [x_name; ln (str "title"); ln (str "instructions"); ln (str "field"); ln (str "desc");
                        ln (str "required"); ln (str "value"); ln (str "option")].
Definition form_ats := [ln (str "type"); ln (str "var"); ln (str "label")].

Lemma gleaf_names l v : mem (ln l) form_els = true -> names_within form_els form_ats (gleaf [] false l v) = true.
Proof. intro H. unfold gleaf. rewrite names_within_elem. change (mkname [] l) with (ln l). rewrite H. reflexivity. Qed.

Lemma gfield_names p : names_within form_els form_ats (gfield [] false p) = true.
Proof.
  destruct p as [f vs]. unfold gfield; cbn [fst snd]. rewrite names_within_elem.
  assert (Ha : forallb (fun x => mem (aname x) form_ats) (field_attrs f) = true).
  { unfold field_attrs. destruct (var f), (label f); reflexivity. }
  rewrite Ha. rewrite !forallb_app, !forallb_map.
  rewrite (forallb_true (fun x => names_within form_els form_ats (gleaf [] false (str "value") x)))
    by (intro; apply gleaf_names; reflexivity).
  assert (Ho : (if is_list (typ f) then forallb (names_within form_els form_ats) (map (goption [] false) (options f)) else true) = true).
  { destruct (is_list (typ f)); [|reflexivity]. rewrite forallb_map. apply forallb_true. intro o.
    unfold goption. rewrite names_within_elem. cbn [forallb]. rewrite gleaf_names by reflexivity. reflexivity. }
  destruct (desc f), (required f), (is_list (typ f)); cbn [is_nil forallb andb]; rewrite ?gleaf_names by reflexivity;
    try rewrite Ho; reflexivity.
Qed.

Lemma gform_names d ps : names_within form_els form_ats (gform [] false [at_ (str "type") (dtyp d)] d ps) = true.
Proof.
  unfold gform. rewrite names_within_elem, !forallb_app, !forallb_map.
  rewrite (forallb_true (fun x => names_within form_els form_ats (gleaf [] false (str "instructions") x)))
    by (intro; apply gleaf_names; reflexivity).
  rewrite (forallb_true (fun x => names_within form_els form_ats (gfield [] false x))) by apply gfield_names.
  destruct (title d); cbn [is_nil forallb]; rewrite ?gleaf_names by reflexivity; reflexivity.
Qed.

Section WithJid.
  Variable jp : bytes -> res bytes.

  Lemma token_reader_is_gform d t : token_reader jp d = Ok t ->
    exists ps, t = gform [] false [at_ (str "type") (dtyp d)] d ps /\
               exists fs, emitted_fields jp d (fields d) = Ok fs /\ field_vals jp fs = Ok ps.
  Proof.
    unfold token_reader. destruct (emitted_fields jp d (fields d)) as [fs| | |] eqn:Ef; cbn [bind]; try discriminate.
    rewrite field_trees_vals. destruct (field_vals jp fs) as [ps| | |] eqn:Ep; cbn [bind rmap]; try discriminate.
    intro E. inversion E. exists ps. split; [reflexivity|]. exists fs. split; [reflexivity|exact Ep].
  Qed.

  Lemma form_wellformed d t : token_reader jp d = Ok t -> forest_wellformed form_els form_ats [t].
  Proof.
    intro H. destruct (token_reader_is_gform d t H) as [ps [-> _]].
    apply forest_wellformed_intro; try reflexivity. cbn [forallb]. rewrite gform_names. reflexivity.
  Qed.

  (* ---- the values written for a field ---- *)

  Definition value_ok (t v : bytes) : Prop :=
    v <> [] /\
    (beq t t_boolean = true -> bool_text v = true) /\
    (beq t t_jid || beq t t_jid_multi = true -> exists j, jp v = Ok j).

  Lemma emit_values_spec t vs : forall first out, emit_values jp t first vs = Ok out ->
    Forall (value_ok t) out /\ (is_multi t = false -> length out <= (if first then 0 else 1)).
  Proof.
    induction vs as [|v r IH]; intros first out; cbn [emit_values].
    - intro E; inversion E. split; [constructor|]. intros; destruct first; cbn; lia.
    - destruct (is_nil v) eqn:Ev; [apply IH|].
      destruct (first && negb (is_multi t)) eqn:Ef.
      { intro E; inversion E. split; [constructor|]. intros; destruct first; cbn; lia. }
      destruct (beq t t_boolean && negb (bool_text v)) eqn:Eb; [apply IH|].
      assert (Hne : v <> []) by (intro Hv; subst v; discriminate Ev).
      assert (Hbool : beq t t_boolean = true -> bool_text v = true).
      { intro Hb. rewrite Hb in Eb. cbn in Eb. destruct (bool_text v); [reflexivity|discriminate]. }
      assert (Hlen : forall out', (is_multi t = false -> length out' <= 0) ->
                                  is_multi t = false -> length (v :: out') <= (if first then 0 else 1)).
      { intros out' H Hm. specialize (H Hm). destruct first; [rewrite Hm in Ef; discriminate|]. cbn. lia. }
      destruct (beq t t_jid || beq t t_jid_multi) eqn:Ej.
      + destruct (jp v) as [j| | |] eqn:Ejp; try discriminate; [|apply IH].
        destruct (emit_values jp t true r) as [out'| | |] eqn:Er; cbn [rmap bind]; try discriminate.
        intro E; inversion E; subst. destruct (IH true out' Er) as [H1 H2]. split.
        * constructor; [|exact H1]. repeat split; auto. intros _. exists j; exact Ejp.
        * apply Hlen. exact H2.
      + destruct (emit_values jp t true r) as [out'| | |] eqn:Er; cbn [rmap bind]; try discriminate.
        intro E; inversion E; subst. destruct (IH true out' Er) as [H1 H2]. split.
        * constructor; [|exact H1]. repeat split; auto. intro Hj; rewrite Ej in Hj; discriminate Hj.
        * apply Hlen. exact H2.
  Qed.

  (* every field element written carries values that XEP-0004 allows *)
  Lemma field_vals_spec fs ps : field_vals jp fs = Ok ps ->
    Forall (fun p => Forall (value_ok (typ (fst p))) (snd p) /\
                     (is_multi (typ (fst p)) = false -> length (snd p) <= 1)) ps.
  Proof.
    revert ps. induction fs as [|f r IH]; intros ps; cbn [field_vals].
    - intro E; inversion E. constructor.
    - destruct (emit_values jp (typ f) false (value f)) as [vs| | |] eqn:Ev; cbn [bind]; try discriminate.
      destruct (field_vals jp r) as [ps'| | |]; cbn [rmap bind]; try discriminate.
      intro E; inversion E; subst. constructor; [|apply IH; reflexivity].
      cbn [fst snd]. exact (emit_values_spec (typ f) (value f) false vs Ev).
  Qed.
End WithJid.

Lemma form_values_normalised : forall jp d t, token_reader jp d = Ok t ->
  exists ps, t = gform [] false [at_ (str "type") (dtyp d)] d ps /\
    no_nl (space_replace (title d)) = true /\
    Forall (fun l => no_nl l = true /\ l <> []) (nonempty_runs (instructions d)) /\
    Forall (fun p => Forall (value_ok jp (typ (fst p))) (snd p) /\
                     (is_multi (typ (fst p)) = false -> length (snd p) <= 1)) ps.
Proof.
  intros jp d t H. destruct (token_reader_is_gform jp d t H) as [ps [E [fs [_ Hp]]]].
  exists ps. split; [exact E|]. split; [apply space_replace_no_nl|]. split; [apply nonempty_runs_spec|].
  exact (field_vals_spec jp fs ps Hp).
Qed.

Lemma form_api_no_panic : forall jp, (forall s, safe (jp s)) ->
  (forall d id, safe (get jp d id)) /\
  (forall d id v, exists r, set d id v = Ok r) /\
  (forall d, safe (token_reader jp d)) /\
  (forall d, safe (submit jp d)).
Proof.
  intros jp H. exact (conj (get_safe jp H) (conj set_ok (conj (token_reader_safe jp H) (submit_safe jp H)))).
Qed.

Lemma form_pinned_panics :
  (split_lines_pinned 3 (str "a" ++ [nl]) [] = Panic /\ split_lines_pinned 1 [] [] = Panic) /\
  (forall id v, set_type_ok [] v = true -> set_pinned zero_data id v = Panic) /\
  (forall jp id, get_pinned jp None id = Panic).
Proof. exact (conj split_lines_pinned_panics (conj set_pinned_zero_panics get_pinned_nil_panics)). Qed.



Definition trim_last (l : list bytes) : list bytes :=
  if is_nil (last l []) then removelast l else l.

Lemma runs_acc cur s : runs cur s = match runs [] s with h :: t => (cur ++ h) :: t | [] => [cur] end.
Proof.
  revert cur. induction s as [|c r IH]; intro cur; cbn [runs]; [rewrite app_nil_r; reflexivity|].
  destruct (is_nl c).
  - rewrite app_nil_r. reflexivity.
  - rewrite (IH (cur ++ [c])), (IH ([] ++ [c])). destruct (runs [] r); cbn; rewrite <- ?app_assoc; reflexivity.
Qed.

Lemma runs_index s :
  runs [] s = match index_nl s with
              | Some i => firstn i s :: runs [] (skipn (S i) s)
              | None => [s]
              end.
Proof.
  induction s as [|c r IH]; [reflexivity|]. cbn [runs index_nl].
  destruct (is_nl c) eqn:E; [reflexivity|].
  rewrite runs_acc, IH. destruct (index_nl r) as [i|]; reflexivity.
Qed.

Lemma runs_nonempty cur s : runs cur s <> [].
Proof. revert cur; induction s as [|c r IH]; intro cur; cbn [runs]; [discriminate|]. destruct (is_nl c); [discriminate|apply IH]. Qed.

Lemma trim_last_cons h t : t <> [] -> trim_last (h :: t) = h :: trim_last t.
Proof.
  intro Ht. unfold trim_last. destruct t as [|x r]; [contradiction|].
  change (last (h :: x :: r) []) with (last (x :: r) []). destruct (is_nil (last (x :: r) [])); reflexivity.
Qed.

(* the lines are the segments between line breaks, except an empty last one *)
Lemma split_lines_spec : forall fuel typed lines, length typed < fuel ->
  split_lines fuel typed lines = Ok (lines ++ trim_last (runs [] typed)).
Proof.
  induction fuel as [|fuel IH]; intros typed lines Hf; [lia|].
  cbn [split_lines]. rewrite (runs_index typed). destruct (index_nl typed) as [i|] eqn:Ei.
  - destruct (index_nl_lt typed i Ei) as [Hi _]. unfold slice_to, slice_from.
    assert (E1 : (i <=? length typed) = true) by (apply Nat.leb_le; lia).
    assert (E2 : (S i <=? length typed) = true) by (apply Nat.leb_le; lia).
    rewrite E1, E2. cbn [bind]. rewrite IH by (rewrite skipn_length; lia).
    rewrite trim_last_cons by apply runs_nonempty. rewrite <- app_assoc. reflexivity.
  - unfold trim_last. cbn [last]. destruct typed; cbn [is_nil removelast]; [rewrite app_nil_r|]; reflexivity.
Qed.

Lemma text_multi_split : forall typed lines,
  split_lines (S (length typed)) typed lines = Ok (lines ++ trim_last (runs [] typed)).
Proof. intros typed lines. exact (split_lines_spec (S (length typed)) typed lines (Nat.lt_succ_diag_r _)). Qed.

Lemma text_multi_lines_clean : forall typed, exists ls,
  split_lines (S (length typed)) typed [] = Ok ls /\ Forall (fun l => no_nl l = true) ls.
Proof. intro typed. exact (split_lines_ok (S (length typed)) typed [] (Nat.lt_succ_diag_r _) (Forall_nil _)). Qed.

Lemma form_unmarshal_total : forall t, safe (unmarshal t).
Proof. intro t. exact (unmarshal_into_safe zero_data t). Qed.
