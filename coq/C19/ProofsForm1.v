(* C19/ProofsForm1.v — data forms: no function of the form API panics; the
   text-multi line splitting; the shape of what TokenReader writes (XEP-0004
   invariants); totality of UnmarshalXML. *)
From Coq Require Import ZArith Lia.
From XV Require Import lib.Bytes lib.Xml lib.Schema C19.Form C19.Types C19.Spec C19.ProofsLib.

(* ---- line splitting ---- *)

Lemma index_nl_lt s i : index_nl s = Some i -> i < length s /\ (exists c, nth_error s i = Some c /\ is_nl c = true) /\
  forallb (fun c => negb (is_nl c)) (firstn i s) = true.
Proof.
  revert i. induction s as [|c r IH]; intro i; cbn [index_nl]; [discriminate|].
  destruct (is_nl c) eqn:E.
  - intro H; inversion H; subst. cbn. repeat split; [lia|]. exists c; split; [reflexivity|exact E].
  - destruct (index_nl r) as [j|] eqn:Ej; cbn [option_map]; [|discriminate].
    intro H; inversion H; subst. destruct (IH j eq_refl) as [H1 [[c' [H2 H3]] H4]].
    cbn [length nth_error firstn forallb]. rewrite E, H4. repeat split; [lia|]. exists c'; split; assumption.
Qed.

Lemma index_nl_none s : index_nl s = None -> forallb (fun c => negb (is_nl c)) s = true.
Proof.
  induction s as [|c r IH]; cbn [index_nl forallb]; [reflexivity|].
  destruct (is_nl c); [discriminate|]. destruct (index_nl r); [discriminate|]. intro. rewrite IH; reflexivity.
Qed.

Definition no_nl (s : bytes) : bool := forallb (fun c => negb (is_nl c)) s.

(* the repaired loop: total for every value, within the fuel the model gives
   it, and every line it yields is free of line breaks *)
Lemma split_lines_ok : forall fuel typed lines, length typed < fuel ->
  Forall (fun l => no_nl l = true) lines ->
  exists ls, split_lines fuel typed lines = Ok ls /\ Forall (fun l => no_nl l = true) ls.
Proof.
  induction fuel as [|fuel IH]; intros typed lines Hf Hl; [lia|].
  cbn [split_lines]. destruct (index_nl typed) as [i|] eqn:Ei.
  - destruct (index_nl_lt typed i Ei) as [Hi [_ Hn]].
    unfold slice_to, slice_from.
    assert (E1 : (i <=? length typed) = true) by (apply Nat.leb_le; lia).
    assert (E2 : (S i <=? length typed) = true) by (apply Nat.leb_le; lia).
    rewrite E1, E2. cbn [bind]. apply IH.
    + rewrite skipn_length. lia.
    + apply Forall_app. split; [exact Hl|]. constructor; [exact Hn|constructor].
  - eexists; split; [reflexivity|]. destruct (is_nil typed); [exact Hl|].
    apply Forall_app. split; [exact Hl|]. constructor; [apply index_nl_none; exact Ei|constructor].
Qed.

(* the loop as it was on the pinned tree panics on "a\n" (and on "") *)
Lemma split_lines_pinned_panics :
  split_lines_pinned 3 (str "a" ++ [nl]) [] = Panic /\ split_lines_pinned 1 [] [] = Panic.
Proof. split; reflexivity. Qed.

Lemma space_replace_no_nl s : no_nl (space_replace s) = true.
Proof.
  assert (H : forall n s, length s <= n -> no_nl (space_replace s) = true).
  { induction n as [|n IH]; intros s0 Hn.
    - destruct s0; [reflexivity|cbn in Hn; lia].
    - destruct s0 as [|a r]; [reflexivity|]. cbn [space_replace]. cbn in Hn.
      destruct (is_nl a) eqn:Ea.
      + destruct r as [|b r']; [reflexivity|]. cbn in Hn.
        destruct (is_nl b && negb (byte_eqb a b)); cbn [no_nl forallb]; apply IH; cbn; lia.
      + unfold no_nl. cbn [forallb]. rewrite Ea. cbn. apply IH. lia. }
  apply (H (length s)). lia.
Qed.

Lemma runs_no_nl cur s : no_nl cur = true -> Forall (fun l => no_nl l = true) (runs cur s).
Proof.
  revert cur. induction s as [|c r IH]; intros cur Hc; cbn [runs]; [constructor; [exact Hc|constructor]|].
  destruct (is_nl c) eqn:E.
  - constructor; [exact Hc|]. apply IH. reflexivity.
  - apply IH. unfold no_nl. rewrite forallb_app. cbn. rewrite E. unfold no_nl in Hc. rewrite Hc. reflexivity.
Qed.

Lemma nonempty_runs_spec s :
  Forall (fun l => no_nl l = true /\ l <> []) (nonempty_runs s).
Proof.
  unfold nonempty_runs. pose proof (runs_no_nl [] s eq_refl) as H.
  induction H as [|l r Hl Hr IH]; cbn [filter]; [constructor|].
  destruct l; cbn; [exact IH|]. constructor; [split; [exact Hl|discriminate]|exact IH].
Qed.

Section WithJid.
  Variable jp : bytes -> res bytes.
  Hypothesis Hjp : forall s, safe (jp s).

  (* ---- Get, Set ---- *)

  Lemma first_jid_safe vs : safe (first_jid jp vs).
  Proof. induction vs as [|v r IH]; cbn; [exact I|]. pose proof (Hjp v) as H. destruct (jp v); auto. Qed.

  Lemma all_jids_safe vs : safe (all_jids jp vs).
  Proof.
    induction vs as [|v r IH]; cbn; [exact I|]. pose proof (Hjp v) as H.
    destruct (jp v); auto. apply rmap_safe. exact IH.
  Qed.

  Lemma field_default_safe f : safe (field_default jp f).
  Proof.
    unfold field_default.
    repeat match goal with |- safe (if ?c then _ else _) => destruct c end; try exact I.
    - destruct (value f); exact I.
    - apply first_jid_safe.
    - apply bind_safe; [apply all_jids_safe|]. intro; exact I.
  Qed.

  (* Get never panics, on a nil receiver either (after the repair) *)
  Lemma get_safe d id : safe (get jp d id).
  Proof.
    unfold get, get_gen. destruct d as [d|]; [|exact I].
    destruct (match values d with Some m => assoc id m | None => None end); [exact I|].
    destruct (find_field id (fields d)); [apply field_default_safe|exact I].
  Qed.

  Lemma get_pinned_nil_panics id : get_pinned jp None id = Panic.
  Proof. reflexivity. Qed.

  (* Set never panics, on a zero value form either (after the repair) *)
  Lemma set_ok d id v : exists r, set d id v = Ok r.
  Proof.
    unfold set, set_gen.
    destruct (beq _ t_fixed && _); [eexists; reflexivity|].
    destruct (negb _); [eexists; reflexivity|].
    destruct (values d); cbn; eexists; reflexivity.
  Qed.

  Lemma set_pinned_zero_panics id v : set_type_ok [] v = true -> set_pinned zero_data id v = Panic.
  Proof.
    intro H. unfold set_pinned, set_gen. cbn [zero_data fields find_field values]. cbn [beq bytes_eqb t_fixed andb].
    change (beq [] t_fixed) with false. cbn [andb]. rewrite H. reflexivity.
  Qed.

  (* ---- TokenReader, Submit ---- *)

  Lemma emit_values_safe t first vs : safe (emit_values jp t first vs).
  Proof.
    revert first. induction vs as [|v r IH]; intro first; cbn [emit_values]; [exact I|].
    destruct (is_nil v); [apply IH|].
    destruct (first && negb (is_multi t)); [exact I|].
    destruct (beq t t_boolean && negb (bool_text v)); [apply IH|].
    destruct (beq t t_jid || beq t t_jid_multi).
    - pose proof (Hjp v) as H. destruct (jp v); auto. apply rmap_safe. apply IH.
    - apply rmap_safe. apply IH.
  Qed.

  Lemma field_tree_safe f : safe (field_tree jp f).
  Proof. unfold field_tree. apply bind_safe; [apply emit_values_safe|]. intro; exact I. Qed.

  Lemma submit_field_safe d f : safe (submit_field jp d f).
  Proof.
    unfold submit_field. destruct (beq (typ f) t_fixed); [exact I|].
    apply bind_safe; [apply get_safe|]. intros [vv isset].
    destruct (negb (required f) && negb isset); [exact I|].
    destruct vv; try exact I.
    destruct (beq (typ f) t_text_multi); [|exact I].
    destruct (split_lines_ok (S (length s)) s [] (Nat.lt_succ_diag_r _) (Forall_nil _)) as [ls [E _]].
    rewrite E. exact I.
  Qed.

  Lemma emitted_fields_safe d fs : safe (emitted_fields jp d fs).
  Proof.
    induction fs as [|f r IH]; cbn [emitted_fields]; [exact I|].
    apply bind_safe.
    - destruct (beq (dtyp d) ty_submit); [apply submit_field_safe|exact I].
    - intro o. apply bind_safe; [exact IH|]. intro; exact I.
  Qed.

  Lemma field_trees_safe fs : safe (field_trees jp fs).
  Proof.
    induction fs as [|f r IH]; cbn [field_trees]; [exact I|].
    apply bind_safe; [apply field_tree_safe|]. intro t. apply rmap_safe. exact IH.
  Qed.

  Lemma token_reader_safe d : safe (token_reader jp d).
  Proof.
    unfold token_reader. apply bind_safe; [apply emitted_fields_safe|]. intro fs.
    apply bind_safe; [apply field_trees_safe|]. intro; exact I.
  Qed.

  Lemma all_required_set_safe d fs : safe (all_required_set jp d fs).
  Proof.
    induction fs as [|f r IH]; cbn [all_required_set]; [exact I|].
    apply bind_safe.
    - destruct (required f); [apply rmap_safe; apply get_safe|exact I].
    - intro b. apply rmap_safe. exact IH.
  Qed.

  Lemma submit_safe d : safe (submit jp d).
  Proof.
    unfold submit. apply bind_safe; [apply all_required_set_safe|]. intro ok.
    apply bind_safe; [apply token_reader_safe|]. intro; exact I.
  Qed.
End WithJid.

(* ---- UnmarshalXML ---- *)

Lemma unmarshal_field_safe t : safe (unmarshal_field t).
Proof.
  unfold unmarshal_field. apply rmap_safe. apply unmarshal_struct_safe. unfold field_fields.
  repeat first [apply Forall_nil | apply Forall_cons | apply f_str_safe].
  apply f_sub_safe. intro t'. apply unmarshal_struct_safe. unfold opt_fields.
  repeat first [apply Forall_nil | apply Forall_cons | apply f_str_safe].
Qed.

Lemma unmarshal_kids_safe kids d : safe (unmarshal_kids kids d).
Proof.
  revert d. induction kids as [|k r IH]; intro d; cbn [unmarshal_kids]; [exact I|].
  destruct k as [n a ks|b|m b]; [|apply IH|exact I].
  destruct (beq (nlocal n) (str "title")); [apply IH|].
  destruct (beq (nlocal n) (str "instructions")); [apply IH|].
  destruct (beq (nlocal n) (str "field")); [|exact I].
  apply bind_safe; [apply unmarshal_field_safe|]. intro f. apply IH.
Qed.

Lemma unmarshal_into_safe d0 t : safe (unmarshal_into d0 t).
Proof. destruct t; cbn; try exact I. apply unmarshal_kids_safe. Qed.

Lemma form_dec_total o t : safe (unmarshal_into zero_data t) /\ safe (c_dec (mkcodec (fun o d => bind (token_reader (o_jid o) d) one) (fun o => unmarshal) data_eqb) o t).
Proof. split; apply unmarshal_into_safe. Qed.
