(* C19/ProofsD.v — crypto.Key, OwnedKeys, TrustMessage (after the repair of
   Key.UnmarshalXML: the key id is read from the character data tokens). *)
From Coq Require Import ZArith Lia.
From XV Require Import lib.Bytes lib.Xml lib.Schema C19.Form C19.Types C19.Spec C19.ProofsLib C19.ProofsTypes
  C19.ProofsA C19.ProofsC.

Arguments jid_attr : simpl never.
Arguments set_children : simpl nomatch.
Arguments b64enc : simpl never.

Definition wkey (ns : bytes) (v : ckey) : tree :=
  Elem (mkname ns (if k_trusted v then str "trust" else str "distrust")) []
       (if is_nil (b64enc (k_id v)) then [] else [Text (b64enc (k_id v))]).

Lemma wire_ckey ns v : wire ns (ckey_tr v) = [wkey ns v].
Proof. unfold ckey_tr, wkey. cbn. destruct (b64enc (k_id v)); reflexivity. Qed.

Lemma b64enc_nil_iff s : b64enc s = [] -> s = [].
Proof. destruct s as [|a [|b [|c r]]]; cbn; intro E; try discriminate; reflexivity. Qed.

Lemma ckey_un_both o v ns : b64_roundtrip o (k_id v) ->
  ckey_un o (ckey_tr v) = Ok v /\ ckey_un o (wkey ns v) = Ok v.
Proof.
  destruct v as [tr id]. cbn [k_id]. intro H. unfold ckey_tr, wkey; cbn [k_trusted k_id].
  destruct (b64enc id) as [|e0 e] eqn:Ee.
  - apply b64enc_nil_iff in Ee. subst. destruct tr; cbn; split; reflexivity.
  - destruct H as [->|H]; [discriminate|]. rewrite Ee in H.
    destruct tr; cbn; rewrite ?app_nil_r, H; split; reflexivity.
Qed.

Lemma ckey_roundtrip : roundtrip ckey_c (fun o v => b64_roundtrip o (k_id v)) (fun v => v).
Proof.
  intros o v H. eexists; split; [reflexivity|]. unfold ckey_c, c_dec.
  destruct (ckey_un_both o v [] H) as [H1 H2]. split; [exact H1|].
  unfold wire1. rewrite wire_ckey. exact H2.
Qed.

Definition key_els := [ln (str "trust"); ln (str "distrust"); ln (str "key-owner"); mkname ns_trust (str "trust-message")].
Definition key_ats := [ln (str "jid"); ln (str "usage"); ln (str "encryption")].

Lemma ckey_tr_names v : names_within key_els key_ats (ckey_tr v) = true.
Proof. destruct v as [[] id]; reflexivity. Qed.

Lemma ckey_wellformed : wellformed ckey_c key_els key_ats.
Proof. wf. cbn [forallb]. rewrite ckey_tr_names. reflexivity. Qed.

Lemma ckey_un_safe o t : or_safe o -> safe (ckey_un o t).
Proof.
  intro H. destruct t as [n a k|b|k b]; cbn; try exact I.
  destruct (_ && _); [exact I|]. destruct (negb _); [exact I|].
  apply bind_safe; [|intro; exact I]. destruct (is_nil _); [exact I|apply (os_b64 o H)].
Qed.

Lemma ckey_dec_total : dec_total ckey_c.
Proof. intros o t H. apply ckey_un_safe; exact H. Qed.

(* ---- OwnedKeys ---- *)

Definition owned_dom (o : oracles) (v : owned) : Prop :=
  jid_canon o (ow_owner v) /\ Forall (fun k => b64_roundtrip o (k_id k)) (ow_keys v).

Definition owned_upd (l : list ckey) (v : owned) : owned := mkowned (ow_owner v) l.

Definition wowned (ns : bytes) (v : owned) : tree :=
  Elem (mkname ns (str "key-owner")) [at_ (str "jid") (ow_owner v)] (map (wkey ns) (ow_keys v)).

Lemma wire_owned ns v : ns <> [] -> wire ns (owned_tr v) = [wowned ns v].
Proof.
  intro Hns. unfold owned_tr, wowned. rewrite wire_elem. cbn [ln nspace nlocal is_nil app].
  rewrite (wire_map ns ckey_tr (wkey ns)) by (intro; apply wire_ckey).
  rewrite merge_text_elems by (apply is_elem_map; reflexivity). reflexivity.
Qed.

Lemma owned_key_tok o x a : b64_roundtrip o (k_id x) ->
  set_child (owned_fields o) (ckey_tr x) a = Ok (owned_upd (ow_keys a ++ [x]) a).
Proof.
  intro H. change (set_child (owned_fields o) (ckey_tr x) a)
    with (bind (ckey_un o (ckey_tr x)) (fun k => Ok (owned_upd (ow_keys a ++ [k]) a))).
  rewrite (proj1 (ckey_un_both o x [] H)). reflexivity.
Qed.

Lemma owned_key_wire o ns x a : b64_roundtrip o (k_id x) ->
  set_child (owned_fields o) (wkey ns x) a = Ok (owned_upd (ow_keys a ++ [x]) a).
Proof.
  intro H. change (set_child (owned_fields o) (wkey ns x) a)
    with (bind (ckey_un o (wkey ns x)) (fun k => Ok (owned_upd (ow_keys a ++ [k]) a))).
  rewrite (proj2 (ckey_un_both o x ns H)). reflexivity.
Qed.

Lemma owned_un_both o v ns : owned_dom o v ->
  owned_un o (owned_tr v) = Ok v /\ owned_un o (wowned ns v) = Ok v.
Proof.
  destruct v as [j ks]. intros [Hj Hk]. cbn in Hj, Hk. unfold owned_un, owned_tr, wowned; cbn [ow_owner ow_keys].
  rewrite !unmarshal_struct_elem. cbn. rewrite (jid_attr_canon o j _ Hj). cbn. split.
  - rw_children (set_children_map_in (owned_fields o) ckey_tr ow_keys owned_upd ks (mkowned j [])
                   (fun x Hx a => owned_key_tok o x a (proj1 (Forall_forall _ _) Hk x Hx))
                   (fun _ _ => eq_refl) (fun _ _ _ => eq_refl)).
    destruct ks; reflexivity.
  - rw_children (set_children_map_in (owned_fields o) (wkey ns) ow_keys owned_upd ks (mkowned j [])
                   (fun x Hx a => owned_key_wire o ns x a (proj1 (Forall_forall _ _) Hk x Hx))
                   (fun _ _ => eq_refl) (fun _ _ _ => eq_refl)).
    destruct ks; reflexivity.
Qed.

Lemma wire1_owned v : wire1 (owned_tr v) = wowned [] v.
Proof.
  unfold owned_tr, wowned. rewrite wire1_elem. cbn [ln nspace nlocal is_nil app].
  rewrite (wire_map [] ckey_tr (wkey [])) by (intro; apply wire_ckey).
  rewrite merge_text_elems by (apply is_elem_map; reflexivity). reflexivity.
Qed.

Lemma owned_roundtrip : roundtrip owned_c owned_dom (fun v => v).
Proof.
  intros o v H. eexists; split; [reflexivity|]. unfold owned_c, c_dec.
  destruct (owned_un_both o v [] H) as [H1 H2]. split; [exact H1|]. rewrite wire1_owned. exact H2.
Qed.

Lemma owned_tr_names v : names_within key_els key_ats (owned_tr v) = true.
Proof.
  unfold owned_tr. rewrite names_within_elem, forallb_map.
  rewrite (forallb_true (fun x => names_within key_els key_ats (ckey_tr x))) by apply ckey_tr_names. reflexivity.
Qed.

Lemma owned_wellformed : wellformed owned_c key_els key_ats.
Proof. wf. cbn [forallb]. rewrite owned_tr_names. reflexivity. Qed.

Lemma owned_un_safe o t : or_safe o -> safe (owned_un o t).
Proof.
  intro H. apply unmarshal_struct_safe. unfold owned_fields. fsafe.
  apply f_sub_safe. intro t'. apply ckey_un_safe; exact H.
Qed.

Lemma owned_dec_total : dec_total owned_c.
Proof. intros o t H. apply owned_un_safe; exact H. Qed.

(* ---- TrustMessage ---- *)

Definition trust_dom (o : oracles) (v : trustmsg) : Prop := Forall (owned_dom o) (tm_keys v).

Definition trust_upd (l : list owned) (v : trustmsg) : trustmsg := mktrust (tm_usage v) (tm_enc v) l.

Lemma trust_owner_tok o x a : owned_dom o x ->
  set_child (trust_fields o) (owned_tr x) a = Ok (trust_upd (tm_keys a ++ [x]) a).
Proof.
  intro H. change (set_child (trust_fields o) (owned_tr x) a)
    with (bind (owned_un o (owned_tr x)) (fun k => Ok (trust_upd (tm_keys a ++ [k]) a))).
  rewrite (proj1 (owned_un_both o x [] H)). reflexivity.
Qed.

Lemma trust_owner_wire o ns x a : owned_dom o x ->
  set_child (trust_fields o) (wowned ns x) a = Ok (trust_upd (tm_keys a ++ [x]) a).
Proof.
  intro H. change (set_child (trust_fields o) (wowned ns x) a)
    with (bind (owned_un o (wowned ns x)) (fun k => Ok (trust_upd (tm_keys a ++ [k]) a))).
  rewrite (proj2 (owned_un_both o x ns H)). reflexivity.
Qed.

Lemma trust_roundtrip : roundtrip trust_c trust_dom (fun v => v).
Proof.
  intros o [u e ks] Hk. unfold trust_dom in Hk; cbn in Hk. eexists; split; [reflexivity|].
  unfold trust_c, c_dec, trust_un, trust_tr; cbn [tm_usage tm_enc tm_keys]. split.
  - rewrite unmarshal_struct_elem. cbn.
    rw_children (set_children_map_in (trust_fields o) owned_tr tm_keys trust_upd ks (mktrust u e [])
                   (fun x Hx a => trust_owner_tok o x a (proj1 (Forall_forall _ _) Hk x Hx))
                   (fun _ _ => eq_refl) (fun _ _ _ => eq_refl)).
    destruct ks; reflexivity.
  - rewrite wire1_elem. cbn [nspace nlocal is_nil app].
    rewrite (wire_map ns_trust owned_tr (wowned ns_trust)) by (intro; apply wire_owned; discriminate).
    rewrite merge_text_elems by (apply is_elem_map; reflexivity).
    rewrite unmarshal_struct_elem. cbn.
    rw_children (set_children_map_in (trust_fields o) (wowned ns_trust) tm_keys trust_upd ks (mktrust u e [])
                   (fun x Hx a => trust_owner_wire o ns_trust x a (proj1 (Forall_forall _ _) Hk x Hx))
                   (fun _ _ => eq_refl) (fun _ _ _ => eq_refl)).
    destruct ks; reflexivity.
Qed.

Lemma trust_wellformed : wellformed trust_c key_els key_ats.
Proof.
  wf. cbn [forallb]. rewrite andb_true_r. unfold trust_tr. rewrite names_within_elem, forallb_map.
  rewrite (forallb_true (fun x => names_within key_els key_ats (owned_tr x))) by apply owned_tr_names. reflexivity.
Qed.

Lemma trust_dec_total : dec_total trust_c.
Proof.
  intros o t H. apply unmarshal_struct_safe. unfold trust_fields. fsafe.
  apply f_sub_safe. intro t'. apply owned_un_safe; exact H.
Qed.
