(* C10/Examples.v — non-vacuity: concrete instances of the hypotheses of the
   property theorems, and a few schedules replayed through the model. *)
From XV Require Import lib.Bytes lib.Lts gen.SessClose C10.Model C10.Inv C10.Proofs C10.Closers
  C10.Transmit C10.InLock C10.StateLock C10.Progress C10.Deadline C10.Refute C10.Spec.

(* three Close callers and two transmitters interleaved: one tag, the late
   transmitters fail *)
Definition ex_kinds : list kind := [KClose; KSend 1; KClose; KEncode 3; KClose].
(* Send starts and completes, then the Close calls interleave with Encode *)
Definition ex_trace : list nat :=
  repeat 1 9 ++ [0; 2; 4; 0; 0; 0; 0; 0; 3; 0; 3; 3; 3; 2; 2; 2; 2; 2; 2; 4; 4; 4; 4; 4; 4; 3].

Example ex_runs : exists s, run step (init true ex_kinds) ex_trace = Some s /\
  o_wire (s_o s) = [IElem 1; IClose] /\ o_buf (s_o s) = [] /\
  map (fun i => a_res (s_a s i)) [0; 1; 2; 3; 4] = [Some ENil; Some ENil; Some ENil; Some EOutClosed; Some ENil].
Proof. vm_compute. eexists. repeat split; reflexivity. Qed.

(* hypotheses of C10_transmit_fails_after_close: a reachable closed state with
   a transmitter of each family that has not started *)
Example ex_not_started : exists s, run step (init true [KClose; KSend 1; KTokenWriter 2; KEncodeElement 3; KEncodeNF 4]) (repeat 0 7) = Some s /\
  o_cl (s_o s) = true /\ not_started s 1 (KSend 1) /\ not_started s 2 (KTokenWriter 2) /\
  not_started s 3 (KEncodeElement 3) /\ not_started s 4 (KEncodeNF 4) /\
  is_transmit (KSend 1) = true /\ is_transmit (KTokenWriter 2) = true.
Proof. vm_compute. eexists. repeat split; reflexivity. Qed.

(* hypotheses of C10_serve_outcomes / C10_serve_returns: Serve with a peer that
   closes; Serve returns nil, both bits set *)
Definition ex_serve : list kind := [KServe; KPeer [PElem true false 1; PClose]; KClose].
Example ex_serve_runs : exists s,
  run step (init false ex_serve) ([1; 1; 1] ++ repeat 0 12 ++ repeat 2 7 ++ repeat 0 14) = Some s /\
  returned s 0 ENil /\ a_cause (s_a s 0) = CPeerClose /\ o_cl (s_o s) = true /\ i_cl (s_i s) = true /\
  o_wire (s_o s) = [IElem 1; IClose] /\ returned s 2 ENil.
Proof. vm_compute. eexists. repeat split; reflexivity. Qed.

(* a state in which Serve has left its loop but not returned, while a Close
   caller holds the output lock (premises of C10_serve_returns) *)
Example ex_serve_blocked : exists s,
  run step (init true [KServe; KPeer [PErr]; KClose]) ([1; 1] ++ repeat 0 6 ++ [2; 2; 2] ++ [0]) = Some s /\
  loopish (a_code (s_a s 0)) = false /\ a_res (s_a s 0) = None /\ o_lock (s_o s) = Some 2 /\
  step s 0 = None.
Proof. vm_compute. eexists. repeat split; reflexivity. Qed.

(* the read deadline: premises of C10_serve_leaves_loop with i_rdexp *)
Example ex_deadline : exists s,
  run step (init true [KServe; KSetDeadline DPast]) ([0; 0; 0] ++ [1; 1]) = Some s /\
  a_code (s_a s 0) = [OServeRead] /\ i_rdexp (s_i s) = true.
Proof. vm_compute. eexists. repeat split; reflexivity. Qed.

(* ... and without deadlines on the transport the read stays blocked *)
Example ex_no_deadline : exists s,
  run step (init false [KServe; KSetDeadline DPast]) ([0; 0; 0] ++ [1; 1]) = Some s /\
  i_rdexp (s_i s) = false /\ i_done (s_i s) = true /\ step s 0 = None.
Proof. vm_compute. eexists. repeat split; reflexivity. Qed.

(* the yield-point granularity used by the harness: hsched on the same example *)
Example ex_hsched :
  let s := hsched (init true [KClose; KSend 1]) [0; 1; 0; 1; 0; 1; 1] in
  o_wire (s_o s) = [IClose] /\ a_res (s_a s 1) = Some EOutClosed.
Proof. vm_compute. split; reflexivity. Qed.

(* the bit is set before the tag is written: the window in which the tag is owed *)
Example ex_owed : exists s, run step (init true [KClose]) [0; 0; 0; 0] = Some s /\
  o_cl (s_o s) = true /\ o_pend (s_o s) = true /\ o_wire (s_o s) = [] /\ o_sl (s_o s) = None /\
  exists s', step s 0 = Some s' /\ o_wire (s_o s') = [IClose] /\ o_pend (s_o s') = false.
Proof. vm_compute. eexists. repeat split; try reflexivity. eexists. repeat split; reflexivity. Qed.

(* with a peer that does not read the closer waits in its write, holding only
   the output lock: Serve, SetCloseDeadline and a State reader go on *)
Example ex_stalled : exists s,
  run step (init true [KClose; KStall true; KServe; KSetDeadline DFuture]) [1; 1; 0; 0; 0; 0; 2; 2; 3; 3] = Some s /\
  step s 0 = None /\ o_pend (s_o s) = true /\ o_sl (s_o s) = None /\
  a_res (s_a s 3) = Some ENil /\ exists s', step s 2 = Some s'.
Proof. vm_compute. eexists. repeat split; try reflexivity. eexists. reflexivity. Qed.

(* the deadline is replaced: call 1 (short) is extended by call 2; the first
   deadline passes (timer 3) without effect; the peer's stanza and closing tag
   are served and Serve returns nil *)
Example ex_extended : exists s,
  run step (init true [KServe; KSetDeadline DFuture; KSetDeadline DFuture; KTimer 1; KPeer [PElem false false 4; PClose]])
      ([0; 0; 0] ++ [1; 1; 2; 2; 3; 3] ++ [4; 4; 4] ++ repeat 0 18) = Some s /\
  returned s 0 ENil /\ a_cause (s_a s 0) = CPeerClose /\ i_gen (s_i s) = Some 2 /\ i_passed (s_i s) = false.
Proof. vm_compute. eexists. repeat split; reflexivity. Qed.

(* shortened: the later call's deadline is the one that passes: Serve's read times out *)
Example ex_shortened : exists s,
  run step (init true [KServe; KSetDeadline DFuture; KSetDeadline DFuture; KTimer 2]) ([0; 0; 0] ++ [1; 1; 2; 2; 3; 3] ++ repeat 0 20) = Some s /\
  returned s 0 ETimeout /\ a_cause (s_a s 0) = CTimeout /\ i_passed (s_i s) = true.
Proof. vm_compute. eexists. repeat split; reflexivity. Qed.

(* cleared with the zero time after it had passed: Serve goes on *)
Example ex_cleared : exists s,
  run step (init false [KServe; KSetDeadline DPast; KSetDeadline DZero; KPeer [PClose]]) ([1; 1; 2; 2; 3; 3] ++ repeat 0 15) = Some s /\
  returned s 0 ENil /\ i_done (s_i s) = true /\ i_err (s_i s) = ECtxCanceled.
Proof. vm_compute. eexists. repeat split; reflexivity. Qed.

(* the connection refuses the closing tag: the bit is set all the same, there
   is one attempt and no more, Close reports the connection's error once, later
   calls find the stream closed *)
Example ex_refused : exists s,
  run step (init true [KFault; KClose; KClose; KSend 3]) ([0; 0] ++ repeat 1 7 ++ repeat 2 7 ++ repeat 3 6) = Some s /\
  o_cl (s_o s) = true /\ o_att (s_o s) = 1 /\ o_wire (s_o s) = [] /\ o_pend (s_o s) = false /\
  map (fun i => a_res (s_a s i)) [1; 2; 3] = [Some EWrite; Some ENil; Some EOutClosed].
Proof. vm_compute. eexists. repeat split; reflexivity. Qed.

(* ... and Serve, whose shutdown had to write the refused tag, returns that error *)
Example ex_refused_serve : exists s,
  run step (init false [KServe; KFault; KPeer [PClose]]) ([1; 1; 2; 2] ++ repeat 0 15) = Some s /\
  returned s 0 EWrite /\ a_cause (s_a s 0) = CPeerClose /\ o_att (s_o s) = 1 /\ o_cl (s_o s) = true /\ i_cl (s_i s) = true.
Proof. vm_compute. eexists. repeat split; reflexivity. Qed.
