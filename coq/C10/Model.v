(* C10/Model.v — executable model of closing a session (session.go: Close,
   closeSession, sendError, closeInputStream, SetCloseDeadline, Serve's
   shutdown, the closed-state tests of the writers and readers, and the
   transmit entry points as far as closing is concerned).

   The model is a labelled transition system (lib/Lts.v).  A state has
     - the output side: the output lock (holder), the OutputStreamClosed bit,
       the encoder buffer (items encoded but not flushed) and the wire (items
       written to the connection), the state mutex (holder), whether the peer
       is reading, whether the closing tag is still owed;
     - the input side: the InputStreamClosed bit, the input lock, the peer's
       pending events, the close deadline (armed / read deadline expired /
       input context done and its error) and whether the transport supports
       read deadlines (configuration);
     - the actors: every goroutine of a scenario (callers of Close, of each
       transmit family, of SetCloseDeadline, a token-reader probe, Serve, and
       the environment: the peer and the deadline timer) is a small program, a
       list of micro-operations mirroring the Go statements.
   A label is an actor index: "that actor performs its next operation".
   [step] returns None when the operation is not enabled (lock taken, no
   input).  Every lock-protected region of the Go code is a sequence of
   operations between OLock and OUnlock; the yield points of the instrumented
   source (verifhook.Yield) appear as OYield operations without effect, so the
   harness can force the same label sequence on the real code.

   The state mutex (s.stateMutex): every critical section of the repaired code
   is a few assignments, so each is one operation, enabled when the mutex is
   free ([gate], [reads_state]); closeSession is the test-and-set of the bit
   under the mutex (OMark — from then on the closing tag is owed: o_pend) and,
   after the mutex is released, the write of the tag (OWriteTag).  OSLock /
   OSUnlock hold the mutex across steps: only the pinned design of Close did
   that (StateLock.v).  Connection writes never fail; they complete only while
   the peer reads (o_rdy, switched by the environment actor KStall).
   Only definitions here. *)
From XV Require Import lib.Bytes lib.Lts gen.SessClose.

(* ---- vocabulary ---- *)

(* what reaches the encoder buffer / the connection *)
Inductive item := IElem (n : nat) | IErr | IClose.

Definition item_eqb (a b : item) : bool :=
  match a, b with
  | IElem n, IElem m => Nat.eqb n m
  | IErr, IErr | IClose, IClose => true
  | _, _ => false
  end.

Definition is_close (it : item) : bool := match it with IClose => true | _ => false end.

(* error classes of return values *)
Inductive err :=
| ENil | EOutClosed | EInClosed | EStream | ETimeout | ECtxDeadline | ECtxCanceled
| EHandler | EBad | EOpen
| EWrite.   (* the connection's error for the write of the closing tag *)

Definition err_eqb (a b : err) : bool :=
  match a, b with
  | ENil, ENil | EOutClosed, EOutClosed | EInClosed, EInClosed | EStream, EStream
  | ETimeout, ETimeout | ECtxDeadline, ECtxDeadline | ECtxCanceled, ECtxCanceled
  | EHandler, EHandler | EBad, EBad | EOpen, EOpen | EWrite, EWrite => true
  | _, _ => false
  end.

(* what the peer sends: its closing tag, a stream error, something the stream
   reader refuses, or an element whose handler replies with element n (or not)
   and then fails (or not) *)
Inductive pev := PClose | PErr | PBad | PElem (reply fail : bool) (n : nat).

(* the yield points of session.go *)
Inductive point :=
| PCloseEnter | PCloseLocked | PSendErrEnter | PSendErrLocked
| PSendEnter | PSendLocked | PSendStarted | PEncodeLocked | PEncodeElementLocked
| PTokenWriterLocked | PServeIter | PHandlerBefore | PCloseInputEnter.

(* the time given to SetCloseDeadline: in the future, already passed, or the
   zero time (no deadline: what net.Conn's SetReadDeadline takes it for) *)
Inductive dmode := DFuture | DPast | DZero.

(* why Serve left its loop *)
Inductive cause := CNone | CPeerClose | CPeerErr | CBad | CHandler | CReplyClosed | CTimeout | CCtx.

Inductive op :=
| OYield (p : point)      (* verifhook.Yield(p): no effect *)
| OLock | OUnlock         (* s.out.Lock() / Unlock() *)
| OChk                    (* test of OutputStreamClosed under the lock; closed: return ErrOutputStreamClosed *)
| OEmit (it : item)       (* s.out.e.EncodeToken...: into the encoder buffer *)
| OFlush                  (* s.out.e.Flush() *)
| OGEmit (it : item)      (* lockWriteCloser.EncodeToken: tests the bit itself *)
| OGFlush                 (* lockWriteCloser.Flush / Close: tests the bit itself *)
| OTest                   (* sendError's test of OutputStreamClosed: closed: give up (the error register is kept) *)
| OMark                   (* closeSession, first half: stateMutex.Lock(); test-and-set of the bit; Unlock() *)
| OWriteTag (rep : bool)  (* closeSession, second half: the closing tag, written to the connection directly, if this call set the bit;
                             if the connection refuses the write its error is returned: sendError returns it in place of its own
                             (rep), Close and Serve's deferred Close report it unless an earlier error is pending *)
| OSLock | OSUnlock       (* s.stateMutex.Lock() / Unlock() held across steps (only the pinned design of Close does that) *)
| OStall (b : bool)       (* environment: the peer stops (true) / resumes (false) reading what the session writes *)
| OFault                  (* environment: from now on the connection refuses the write of the closing tag *)
| ORet                    (* return the error register *)
| OSetDeadline (m : dmode) (* SetCloseDeadline(t): t later / t already passed / the zero time *)
| OFire (j : nat)         (* the deadline that the SetCloseDeadline call of actor j asked for passes *)
| OPeer (ev : pev)        (* the peer writes *)
| OAcqIn | ORelIn         (* s.in.Lock() by TokenReader / its Close *)
| OCloseInput             (* closeInputStream *)
| OProbe                  (* TokenReader(); Token(); Close() by a user *)
| OServeTop               (* top of Serve's loop: the input context test *)
| OServeRead              (* handleInputStream: the first token *)
| OHEmit (n : nat) (fail : bool)   (* the handler's (or Serve's default) reply through the deferred writer *)
| OExit (e : err) (c : cause) (via_senderror : bool).   (* Serve leaves its loop *)

(* ---- state ---- *)

(* o_sl: holder of the state mutex across steps; o_rdy: the peer is reading (a
   write to the connection completes); o_pend: the bit is set and the closing
   tag is still to be written by the call that set it *)
Record outg := mkO { o_lock : option nat; o_cl : bool; o_buf : list item; o_wire : list item;
                     o_sl : option nat; o_rdy : bool; o_pend : bool;
                     o_att : nat;      (* write attempts of the closing tag on the connection *)
                     o_wfail : bool    (* the connection refuses the closing tag *) }.

(* The close deadline is state that every SetCloseDeadline call REPLACES:
   i_gen is the call (actor) whose deadline is in force, i_armed says that it
   lies in the future and has not passed yet, i_passed that it has passed
   (ghost: read by no operation).  i_rdexp: the connection's read deadline has
   expired; i_done / i_err: the input context. *)
Record ing := mkI { i_cl : bool; i_lk : bool; i_q : list pev; i_armed : bool; i_rdexp : bool;
                    i_done : bool; i_err : err; i_dlsup : bool;
                    i_gen : option nat; i_passed : bool }.

(* what an actor is, as far as closing goes (ghost: never read by [exec]) *)
Inductive role := RPlain | RCloser | RServe.

Record actor := mkA { a_code : list op; a_e : err; a_res : option err; a_chk : bool;
                      a_cause : cause; a_role : role }.

Record state := mkS { s_o : outg; s_i : ing; s_a : nat -> actor }.

Definition set_code (a : actor) (k : list op) : actor :=
  mkA k (a_e a) (a_res a) (a_chk a) (a_cause a) (a_role a).
Definition set_e (a : actor) (e : err) : actor :=
  mkA (a_code a) e (a_res a) (a_chk a) (a_cause a) (a_role a).
Definition set_chk (a : actor) (c : bool) : actor :=
  mkA (a_code a) (a_e a) (a_res a) c (a_cause a) (a_role a).
Definition set_res (a : actor) (r : option err) : actor :=
  mkA (a_code a) (a_e a) r (a_chk a) (a_cause a) (a_role a).
Definition set_exit (a : actor) (k : list op) (e : err) (c : cause) : actor :=
  mkA k e (a_res a) (a_chk a) c (a_role a).
(* the first error wins (a user of the token writer keeps the first error) *)
Definition first_err (a : actor) (e : err) : actor :=
  match a_e a with ENil => set_e a e | _ => a end.

Definition upd (f : nat -> actor) (i : nat) (a : actor) : nat -> actor :=
  fun j => if Nat.eqb j i then a else f j.

(* ---- output-side primitives ---- *)

Definition o_emit (o : outg) (it : item) : outg :=
  mkO (o_lock o) (o_cl o) (o_buf o ++ [it]) (o_wire o) (o_sl o) (o_rdy o) (o_pend o) (o_att o) (o_wfail o).
Definition o_flush (o : outg) : outg :=
  mkO (o_lock o) (o_cl o) [] (o_wire o ++ o_buf o) (o_sl o) (o_rdy o) (o_pend o) (o_att o) (o_wfail o).
(* closeSession under the state lock: test-and-set; the call that sets the bit owes the tag *)
Definition o_mark (o : outg) : outg :=
  if o_cl o then o else mkO (o_lock o) true (o_buf o) (o_wire o) (o_sl o) (o_rdy o) true (o_att o) (o_wfail o).
(* ... and writes it after releasing the state lock; it bypasses the encoder and its buffer *)
Definition o_writetag (o : outg) : outg :=
  if o_pend o
  then mkO (o_lock o) (o_cl o) (o_buf o) (if o_wfail o then o_wire o else o_wire o ++ [IClose])
           (o_sl o) (o_rdy o) false (S (o_att o)) (o_wfail o)
  else o.
Definition o_setlock (o : outg) (l : option nat) : outg :=
  mkO l (o_cl o) (o_buf o) (o_wire o) (o_sl o) (o_rdy o) (o_pend o) (o_att o) (o_wfail o).
Definition o_setsl (o : outg) (l : option nat) : outg :=
  mkO (o_lock o) (o_cl o) (o_buf o) (o_wire o) l (o_rdy o) (o_pend o) (o_att o) (o_wfail o).
Definition o_setrdy (o : outg) (b : bool) : outg :=
  mkO (o_lock o) (o_cl o) (o_buf o) (o_wire o) (o_sl o) b (o_pend o) (o_att o) (o_wfail o).
Definition o_setfault (o : outg) : outg :=
  mkO (o_lock o) (o_cl o) (o_buf o) (o_wire o) (o_sl o) (o_rdy o) (o_pend o) (o_att o) true.

(* ---- input-side primitives ---- *)

Definition i_setq (g : ing) (q : list pev) : ing :=
  mkI (i_cl g) (i_lk g) q (i_armed g) (i_rdexp g) (i_done g) (i_err g) (i_dlsup g) (i_gen g) (i_passed g).
Definition i_setlk (g : ing) (b : bool) : ing :=
  mkI (i_cl g) b (i_q g) (i_armed g) (i_rdexp g) (i_done g) (i_err g) (i_dlsup g) (i_gen g) (i_passed g).
(* SetCloseDeadline by actor me: a FRESH input context (never derived from the
   one it replaces, which is cancelled) and the connection's read deadline.
   A time that has already passed: the context is done at once and reads fail
   (on a transport with deadlines).  The zero time: no deadline at all. *)
Definition i_setdeadline (me : nat) (m : dmode) (g : ing) : ing :=
  match m with
  | DFuture => mkI (i_cl g) (i_lk g) (i_q g) true false false ENil (i_dlsup g) (Some me) false
  | DPast => mkI (i_cl g) (i_lk g) (i_q g) false (i_dlsup g) true ECtxDeadline (i_dlsup g) (Some me) true
  | DZero => mkI (i_cl g) (i_lk g) (i_q g) false false false ENil (i_dlsup g) (Some me) false
  end.
(* the deadline asked for by actor j passes: nothing happens unless it is the
   one in force; then the context is done (a context that was cancelled before
   keeps its error) and a transport with deadlines fails the reads *)
Definition i_fire (j : nat) (g : ing) : ing :=
  match i_gen g with
  | Some k => if Nat.eqb k j && i_armed g
              then mkI (i_cl g) (i_lk g) (i_q g) false (i_dlsup g) true
                       (if i_done g then i_err g else ECtxDeadline) (i_dlsup g) (i_gen g) true
              else g
  | None => g
  end.
(* closeInputStream: the bit, and cancel (a context that is already done keeps its error) *)
Definition i_closeinput (g : ing) : ing :=
  mkI true (i_lk g) (i_q g) (i_armed g) (i_rdexp g) true
      (if i_done g then i_err g else ECtxCanceled) (i_dlsup g) (i_gen g) (i_passed g).

(* ---- code fragments of Serve's exits ---- *)

(* Close: the output lock, then closeSession *)
Definition close_code : list op :=
  [OYield PCloseEnter; OLock; OYield PCloseLocked; OMark; OWriteTag false; OUnlock; ORet].

(* the deferred closeInputStream(); Close() *)
Definition shutdown_code : list op := [OYield PCloseInputEnter; OCloseInput] ++ close_code.

(* sendError(err): if the output is closed the error is returned unsent;
   otherwise the stream error is encoded (NOT flushed) and the session closed;
   then the deferred shutdown *)
Definition senderr_code : list op :=
  [OYield PSendErrEnter; OLock; OYield PSendErrLocked; OTest; OEmit IErr; OMark; OWriteTag true; OUnlock] ++ shutdown_code.

Fixpoint skip_to_unlock (k : list op) : list op :=
  match k with
  | [] => []
  | OUnlock :: _ => k
  | _ :: r => skip_to_unlock r
  end.

(* ---- one operation ---- *)

Definition exec (me : nat) (o : op) (k : list op) (og : outg) (ig : ing) (a : actor)
  : option (outg * ing * actor) :=
  let a' := set_code a k in
  match o with
  | OYield _ => Some (og, ig, a')
  | OLock => match o_lock og with
             | None => Some (o_setlock og (Some me), ig, a')
             | Some _ => None
             end
  | OUnlock => Some (o_setlock og None, ig, set_chk a' false)
  | OChk => if o_cl og then Some (og, ig, set_e (set_code a (skip_to_unlock k)) EOutClosed)
            else Some (og, ig, set_chk a' true)
  | OEmit it => Some (o_emit og it, ig, a')
  | OFlush => Some (o_flush og, ig, a')
  | OGEmit it => if o_cl og then Some (og, ig, first_err a' EOutClosed) else Some (o_emit og it, ig, a')
  | OGFlush => if o_cl og then Some (og, ig, first_err a' EOutClosed) else Some (o_flush og, ig, a')
  | OTest => if o_cl og then Some (og, ig, set_code a (skip_to_unlock k))
             else Some (og, ig, set_chk a' true)
  | OMark => Some (o_mark og, ig, set_chk a' false)
  | OWriteTag rep =>
      Some (o_writetag og, ig,
            if o_pend og && o_wfail og then (if rep then set_e a' EWrite else first_err a' EWrite) else a')
  | OSLock => match o_sl og with
              | None => Some (o_setsl og (Some me), ig, a')
              | Some _ => None
              end
  | OSUnlock => Some (o_setsl og None, ig, a')
  | OStall b => Some (o_setrdy og (negb b), ig, a')
  | OFault => Some (o_setfault og, ig, a')
  | ORet => Some (og, ig, set_res a' (Some (a_e a)))
  | OSetDeadline m => Some (og, i_setdeadline me m ig, a')
  | OFire j => Some (og, i_fire j ig, a')
  | OPeer ev => Some (og, i_setq ig (i_q ig ++ [ev]), a')
  | OAcqIn => if i_lk ig then None else Some (og, i_setlk ig true, a')
  | ORelIn => Some (og, i_setlk ig false, a')
  | OCloseInput => if i_lk ig then None else Some (og, i_closeinput ig, a')
  | OProbe => if i_lk ig then None
              else Some (og, ig, set_e a' (if i_cl ig then EInClosed else EOpen))
  | OServeTop =>
      if i_done ig then Some (og, ig, set_exit a shutdown_code (i_err ig) CCtx)
      else Some (og, ig, set_code a [OYield PServeIter; OAcqIn; OServeRead])
  | OServeRead =>
      if i_rdexp ig then Some (og, ig, set_code a [ORelIn; OExit ETimeout CTimeout true])
      else match i_q ig with
           | [] => None
           | ev :: q =>
               let ig' := i_setq ig q in
               Some (og, ig',
                 set_code a
                   match ev with
                   | PClose => [ORelIn; OExit ENil CPeerClose false]
                   | PErr => [ORelIn; OExit EStream CPeerErr true]
                   | PBad => [ORelIn; OExit EBad CBad true]
                   | PElem reply fail n =>
                       OYield PHandlerBefore ::
                       (if reply then [OLock; OYield PTokenWriterLocked; OHEmit n fail]
                        else if fail then [ORelIn; OExit EHandler CHandler true]
                        else [ORelIn; OServeTop])
                   end)
           end
  | OHEmit n fail =>
      if o_cl og then Some (og, ig, set_code a [OUnlock; ORelIn; OExit EOutClosed CReplyClosed true])
      else Some (o_emit og (IElem n), ig,
                 set_code a (OGFlush :: OUnlock :: ORelIn ::
                             (if fail then [OExit EHandler CHandler true] else [OServeTop])))
  | OExit e c via => Some (og, ig, set_exit a (if via then senderr_code else shutdown_code) e c)
  end.

(* Two more conditions for an operation to be enabled.
   Operations that look at (or change) the session state take the state mutex:
   they wait while another actor holds it.  Operations that write to the
   connection complete only while the peer is reading. *)
Definition reads_state (o : op) : bool :=
  match o with
  | OChk | OTest | OGEmit _ | OGFlush | OMark | OHEmit _ _
  | OSetDeadline _ | OCloseInput | OProbe | OServeTop | OServeRead => true
  | _ => false
  end.

Definition sl_ok (me : nat) (og : outg) : bool :=
  match o_sl og with None => true | Some j => Nat.eqb j me end.

Definition nonempty {A} (l : list A) : bool := match l with [] => false | _ => true end.

Definition writes_conn (o : op) (og : outg) : bool :=
  match o with
  | OFlush => nonempty (o_buf og)
  | OGFlush => negb (o_cl og) && nonempty (o_buf og)
  | OWriteTag _ => o_pend og && negb (o_wfail og)   (* a refused write returns at once *)
  | _ => false
  end.

Definition gate (me : nat) (o : op) (og : outg) : bool :=
  (negb (reads_state o) || sl_ok me og) && (negb (writes_conn o og) || o_rdy og).

Definition step (s : state) (i : nat) : option state :=
  let a := s_a s i in
  match a_code a with
  | [] => None
  | o :: k =>
      if gate i o (s_o s) then
        match exec i o k (s_o s) (s_i s) a with
        | Some (og, ig, a') => Some (mkS og ig (upd (s_a s) i a'))
        | None => None
        end
      else None
  end.

(* ---- the programs of the actors ---- *)

Inductive kind :=
| KClose
| KSend (n : nat)             (* Send, SendElement, SendIQ/Message/Presence..., Encode{IQ,Message,Presence}...: func send *)
| KEncode (n : nat)           (* Session.Encode of a value that is flushed *)
| KEncodeNF (n : nat)         (* Session.Encode of an xmlstream.WriterTo: not flushed (internal/marshal) *)
| KEncodeElement (n : nat)
| KTokenWriter (n : nat)      (* TokenWriter(); EncodeToken...; Close() *)
| KSetDeadline (m : dmode)    (* SetCloseDeadline with a later time, a time already passed, or the zero time *)
| KTimer (j : nat)            (* the deadline asked for by actor j passes *)
| KPeer (evs : list pev)
| KServe
| KProbe
| KStall (b : bool)           (* the peer stops / resumes reading *)
| KFault.                     (* the connection starts refusing the closing tag *)

Definition mem_name (n : bytes) (l : list bytes) : bool := existsb (bytes_eqb n) l.

(* which functions test the closed bit after taking the output lock: from the source *)
Definition send_guarded : bool := mem_name (str "send") sc_out_lockers_guarded.
Definition encode_guarded : bool := mem_name (str "Session.Encode") sc_out_lockers_guarded.
Definition encodeelement_guarded : bool := mem_name (str "Session.EncodeElement") sc_out_lockers_guarded.

Definition chk (b : bool) : list op := if b then [OChk] else [].
Definition tw_emit (it : item) : op := if sc_tw_encodetoken_tests_closed then OGEmit it else OEmit it.
Definition tw_flush : op := if sc_tw_flush_tests_closed then OGFlush else OFlush.

Definition prog_of (k : kind) : list op :=
  match k with
  | KClose => close_code
  | KSend n => [OYield PSendEnter; OLock; OYield PSendLocked] ++ chk send_guarded ++
               [OYield PSendStarted; OEmit (IElem n); OFlush; OUnlock; ORet]
  | KEncode n => [OLock; OYield PEncodeLocked] ++ chk encode_guarded ++
                 [OEmit (IElem n); OFlush; OUnlock; ORet]
  | KEncodeNF n => [OLock; OYield PEncodeLocked] ++ chk encode_guarded ++
                   [OEmit (IElem n); OUnlock; ORet]
  | KEncodeElement n => [OLock; OYield PEncodeElementLocked] ++ chk encodeelement_guarded ++
                        [OEmit (IElem n); OFlush; OUnlock; ORet]
  | KTokenWriter n => [OLock; OYield PTokenWriterLocked; tw_emit (IElem n); tw_flush; OUnlock; ORet]
  | KSetDeadline m => [OSetDeadline m; ORet]
  | KTimer j => [OFire j; ORet]
  | KPeer evs => map OPeer evs ++ [ORet]
  | KServe => [OServeTop]
  | KProbe => [OProbe; ORet]
  | KStall b => [OStall b; ORet]
  | KFault => [OFault; ORet]
  end.

Definition role_of (k : kind) : role :=
  match k with KClose => RCloser | KServe => RServe | _ => RPlain end.

Definition idle : actor := mkA [] ENil None false CNone RPlain.

Definition actor_of (k : kind) : actor := mkA (prog_of k) ENil None false CNone (role_of k).

Definition init (dlsup : bool) (ks : list kind) : state :=
  mkS (mkO None false [] [] None true false 0 false)
      (mkI false false [] false false false ENil dlsup None false)
      (fun i => match nth_error ks i with Some k => actor_of k | None => idle end).

(* ---- static discipline of a program with respect to the output lock ----
   h: the actor holds the output lock; c: it has found the stream open since it
   took the lock.  Unguarded writes and flushes need c. *)
Fixpoint has_unlock (k : list op) : bool :=
  match k with
  | [] => false
  | OUnlock :: _ => true
  | OLock :: _ | OServeTop :: _ | OServeRead :: _ | OHEmit _ _ :: _ | OExit _ _ _ :: _ => false
  | _ :: r => has_unlock r
  end.

Fixpoint safe (h c : bool) (code : list op) : bool :=
  match code with
  | [] => negb h
  | o :: k =>
      match o with
      | OYield _ | OSetDeadline _ | OPeer _ | ORelIn => safe h c k
      (* neither the state mutex nor the environment's switch is touched by a holder of the output lock *)
      | OSLock | OSUnlock | OStall _ | OFault => negb h && safe h c k
      (* operations that can block are not performed while holding the output lock *)
      | OFire _ | OAcqIn | OCloseInput | OProbe => negb h && safe h c k
      | OLock => negb h && safe true false k
      | OUnlock => h && safe false false k
      | OChk | OTest => h && has_unlock k && safe true true k
      | OEmit it => h && c && negb (is_close it) && safe h c k
      | OFlush => h && c && safe h c k
      | OGEmit it => h && negb (is_close it) && safe h c k
      | OGFlush => h && safe h c k
      | OMark => h && safe h false k
      | OWriteTag _ => h && safe h c k
      | ORet => negb h && safe h c k
      | OServeTop | OServeRead | OExit _ _ _ => negb h
      | OHEmit _ _ => h
      end
  end.

(* ---- schedules at the granularity of the yield points ----
   [hrun s i]: actor i runs until it has passed its next yield point, has
   finished, or is blocked. This is what "release goroutine i until it parks
   again" does to the real code. *)
Fixpoint hrun (fuel : nat) (s : state) (i : nat) : state :=
  match fuel with
  | O => s
  | S f =>
      match a_code (s_a s i) with
      | [] => s
      | o :: _ =>
          match step s i with
          | None => s
          | Some s' => match o with OYield _ => s' | _ => hrun f s' i end
          end
      end
  end.

Definition hfuel : nat := 40.

Definition hsched (s : state) (sched : list nat) : state := fold_left (hrun hfuel) sched s.

(* ---- correspondence cases (written by the harness) ---- *)

Definition list_eqb {A} (eq : A -> A -> bool) :=
  fix go (a b : list A) : bool :=
    match a, b with
    | [], [] => true
    | x :: a', y :: b' => eq x y && go a' b'
    | _, _ => false
    end.

Definition oerr_eqb (a b : option err) : bool :=
  match a, b with
  | None, None => true
  | Some x, Some y => err_eqb x y
  | _, _ => false
  end.

Record ccase := mkcase {
  c_dlsup : bool;              (* the transport supports read deadlines *)
  c_ws : bool;                 (* the session uses WebSocket framing: its closing element is <close/> *)
  c_kinds : list kind;         (* the actors *)
  c_sched : list nat;          (* the realised schedule: one entry per release of an actor *)
  x_wire : list item;          (* observed: what the peer received, in order *)
  x_buf : list item;           (* observed: what was left in the encoder buffer *)
  x_res : list (option err);   (* observed: return class of every actor (None: did not return) *)
  x_ocl : bool; x_icl : bool;  (* observed: the two closed bits of State() at the end *)
  x_att : nat;                 (* observed: write attempts of the closing tag on the connection *)
  x_tag : bytes                (* observed: the bytes of the closing tag ([] if none was written) *)
}.

(* The closing element in both directions: IClose on the wire and PClose from
   the peer stand for </stream:stream> on a TCP session and for the framing
   <close/> element on a WebSocket-subprotocol session. *)
Definition close_bytes (ws : bool) : bytes := if ws then sc_close_ws_tag else sc_close_tag.

Definition results (s : state) (n : nat) : list (option err) := map (fun i => a_res (s_a s i)) (seq 0 n).

Definition case_ok (c : ccase) : bool :=
  let s := hsched (init (c_dlsup c) (c_kinds c)) (c_sched c) in
  list_eqb item_eqb (o_wire (s_o s)) (x_wire c) &&
  list_eqb item_eqb (o_buf (s_o s)) (x_buf c) &&
  list_eqb oerr_eqb (results s (length (c_kinds c))) (x_res c) &&
  Bool.eqb (o_cl (s_o s)) (x_ocl c) && Bool.eqb (i_cl (s_i s)) (x_icl c) &&
  Nat.eqb (o_att (s_o s)) (x_att c) &&
  bytes_eqb (x_tag c) (if existsb is_close (o_wire (s_o s)) then close_bytes (c_ws c) else []).

Fixpoint failing {A} (ok : A -> bool) (i : nat) (l : list A) : list nat :=
  match l with
  | [] => []
  | x :: r => if ok x then failing ok (S i) r else i :: failing ok (S i) r
  end.
