(* C10/Deadline.v — the close deadline is state that SetCloseDeadline replaces.

   Any number of SetCloseDeadline calls, each with a later time, a time already
   passed or the zero time, in any order with everything else; the deadline
   asked for by call j "passes" at any moment (OFire j).  Only the passing of
   the deadline IN FORCE has an effect; Serve's read times out, and its context
   test reports a deadline, only when the deadline in force has passed; as long
   as it has not, the peer's closing tag makes Serve leave its loop with nil. *)
From XV Require Import lib.Bytes lib.Lts gen.SessClose C10.Model C10.Inv C10.Proofs C10.Closers C10.InLock
  C10.StateLock C10.Progress.

(* what Serve can observe of the deadline agrees with the ghost flag *)
Definition dl_ok (g : ing) : Prop :=
  (i_rdexp g = true -> i_passed g = true) /\
  (i_done g = true -> i_err g = ECtxDeadline -> i_passed g = true).

Lemma dl_ok_setdeadline me m g : dl_ok (i_setdeadline me m g).
Proof. destruct m; unfold dl_ok; cbn; split; intros; auto; discriminate. Qed.

Lemma dl_ok_fire j g : dl_ok g -> dl_ok (i_fire j g).
Proof.
  intros [H1 H2]. unfold i_fire. destruct (i_gen g) as [k|]; [|split; assumption].
  destruct (Nat.eqb k j && i_armed g); [|split; assumption].
  unfold dl_ok. cbn. auto.
Qed.

Lemma dl_ok_step : forall s i s', dl_ok (s_i s) -> step s i = Some s' -> dl_ok (s_i s').
Proof.
  intros s i s' Hd H. destr_step H; try exact Hd; cbn [s_i];
    try apply dl_ok_setdeadline; try (apply dl_ok_fire; exact Hd).
  (* closeInputStream: a context that is already done keeps its error *)
  destruct Hd as [H1 H2]. unfold dl_ok. cbn. split; [exact H1|].
  intros _. destruct (i_done (s_i s)) eqn:E; [intro He; exact (H2 eq_refl He)|discriminate].
Qed.

Theorem dl_ok_run : forall ds ks tr s, run step (init ds ks) tr = Some s -> dl_ok (s_i s).
Proof.
  intros ds ks. apply (invariant_run state nat step (fun s => dl_ok (s_i s))).
  - unfold dl_ok. cbn. split; intros; discriminate.
  - intros s l s' H1 H2. exact (dl_ok_step s l s' H1 H2).
Qed.

(* the ghost flag is raised only by the passing of the deadline in force (or by
   a SetCloseDeadline whose time has already passed), and every
   SetCloseDeadline call replaces the deadline: it becomes the one in force and
   the flag is what that call alone says *)
Theorem passed_only_in_force : forall s i s',
  step s i = Some s' -> i_passed (s_i s) = false -> i_passed (s_i s') = true ->
  exists k, (a_code (s_a s i) = OSetDeadline DPast :: k) \/
            (exists j, a_code (s_a s i) = OFire j :: k /\ i_gen (s_i s) = Some j /\ i_armed (s_i s) = true).
Proof.
  intros s i s' H Hp Hp'. destr_step H; cbn [s_i i_passed i_setq i_setlk i_closeinput] in Hp'; try congruence;
    match goal with Hc : a_code _ = _ :: ?kk |- _ => exists kk end.
  - (* OSetDeadline *) destruct m; cbn in Hp'; try discriminate. left. exact Hcode.
  - (* OFire *) right. exists j. split; [exact Hcode|].
    unfold i_fire in Hp'. destruct (i_gen (s_i s)) as [k1|]; [|congruence].
    destruct (Nat.eqb k1 j) eqn:E; cbn in Hp'; [|congruence].
    apply Nat.eqb_eq in E. subst k1. destruct (i_armed (s_i s)); [auto|congruence].
Qed.

Lemma setdeadline_replaces : forall s i m k s',
  a_code (s_a s i) = OSetDeadline m :: k -> step s i = Some s' ->
  i_gen (s_i s') = Some i /\
  i_passed (s_i s') = (match m with DPast => true | _ => false end) /\
  i_armed (s_i s') = (match m with DFuture => true | _ => false end) /\
  i_rdexp (s_i s') = (match m with DPast => i_dlsup (s_i s) | _ => false end) /\
  i_done (s_i s') = (match m with DPast => true | _ => false end).
Proof.
  intros s i m k s' Hc H. unfold step in H. rewrite Hc in H.
  destruct (gate i (OSetDeadline m) (s_o s)); [|discriminate]. cbn [exec] in H. injection H as <-.
  destruct m; cbn; auto.
Qed.

(* a deadline that is not (or no longer) the one in force passes without any
   effect on the session *)
Lemma stale_deadline_passes_unnoticed : forall s i j k s',
  a_code (s_a s i) = OFire j :: k -> i_gen (s_i s) <> Some j -> step s i = Some s' ->
  s_i s' = s_i s /\ s_o s' = s_o s.
Proof.
  intros s i j k s' Hc Hg H. unfold step in H. rewrite Hc in H.
  destruct (gate i (OFire j) (s_o s)); [|discriminate]. cbn [exec] in H. injection H as <-.
  cbn. split; [|reflexivity]. unfold i_fire. destruct (i_gen (s_i s)) as [k1|]; [|reflexivity].
  destruct (Nat.eqb k1 j) eqn:E; [|reflexivity]. apply Nat.eqb_eq in E. congruence.
Qed.

(* The clause: in every reachable state in which the deadline in force has not
   passed, Serve's read does not time out and its context test does not report
   a deadline; and then the peer's closing tag, read by Serve, makes it leave
   its loop for the shutdown without sendError, with nil. *)
Theorem deadline_only_in_force : forall ds ks tr s,
  run step (init ds ks) tr = Some s -> i_passed (s_i s) = false ->
  i_rdexp (s_i s) = false /\ ~ (i_done (s_i s) = true /\ i_err (s_i s) = ECtxDeadline) /\
  (forall i k q, a_code (s_a s i) = OServeRead :: k -> i_q (s_i s) = PClose :: q ->
     exists s', run step s [i; i; i] = Some s' /\ a_code (s_a s' i) = shutdown_code /\
                a_e (s_a s' i) = ENil /\ a_cause (s_a s' i) = CPeerClose).
Proof.
  intros ds ks tr s Hr Hp. destruct (dl_ok_run ds ks tr s Hr) as [H1 H2].
  assert (Hx : i_rdexp (s_i s) = false).
  { destruct (i_rdexp (s_i s)) eqn:E; [|reflexivity]. rewrite (H1 eq_refl) in Hp. discriminate. }
  split; [exact Hx|]. split.
  - intros [A B]. rewrite (H2 A B) in Hp. discriminate.
  - intros i k q Hc Hq.
    destruct (serve_leaves_loop s i k ENil CPeerClose false (state_lock_free ds ks tr s Hr) Hc) as (s' & Hs & A & B & C & _).
    + right. split; [exact Hx|]. exists PClose, q. split; [exact Hq|reflexivity].
    + exists s'. auto.
Qed.
