(* C10/Progress.v — liveness of the closing protocol in the model:
   whoever holds the output lock can always run on to its release, and a Serve
   that has left its loop can always run on to its return (nothing it waits
   for is held forever). *)
From XV Require Import lib.Bytes lib.Lts gen.SessClose C10.Model C10.Inv C10.Proofs C10.Closers C10.InLock C10.StateLock.

(* ---- the holder of the output lock runs to its release ---- *)

Definition is_hemit (o : op) : bool := match o with OHEmit _ _ => true | _ => false end.

Definition mu (code : list op) : nat := length code + (if existsb is_hemit code then 5 else 0).

Lemma mu_tail o k : mu k < mu (o :: k).
Proof.
  unfold mu. cbn [length existsb]. destruct (existsb is_hemit k); [rewrite orb_true_r; lia|].
  destruct (is_hemit o); cbn; lia.
Qed.

Lemma mu_skip : forall k, mu (skip_to_unlock k) <= mu k.
Proof.
  induction k as [|o k IH]; [cbn; lia|].
  destruct o; cbn [skip_to_unlock]; try (pose proof (mu_tail (OYield PCloseEnter) k); 
    match goal with |- mu (skip_to_unlock k) <= mu (?x :: k) => pose proof (mu_tail x k); lia end).
  lia.
Qed.

Lemma mu_hemit n f k : 5 < mu (OHEmit n f :: k).
Proof. unfold mu. cbn. lia. Qed.

Definition others_same (s s' : state) (j : nat) : Prop := forall i, i <> j -> s_a s' i = s_a s i.

Lemma gate_open : forall i o og, o_sl og = None -> o_rdy og = true -> gate i o og = true.
Proof. intros i o og H1 H2. unfold gate, sl_ok. rewrite H1, H2, !orb_true_r. reflexivity. Qed.

Lemma o_mark_keeps o : o_lock (o_mark o) = o_lock o /\ o_sl (o_mark o) = o_sl o /\ o_rdy (o_mark o) = o_rdy o.
Proof. unfold o_mark. destruct (o_cl o); auto. Qed.

Lemma o_writetag_keeps o : o_lock (o_writetag o) = o_lock o /\ o_sl (o_writetag o) = o_sl o /\ o_rdy (o_writetag o) = o_rdy o.
Proof. unfold o_writetag. destruct (o_pend o); auto. Qed.

(* the peer is reading and nobody holds the state mutex *)
Definition flowing (s : state) : Prop := o_sl (s_o s) = None /\ o_rdy (s_o s) = true.

Lemma holder_step : forall s j, INV s -> holds s j = true -> flowing s ->
  exists s', step s j = Some s' /\ others_same s s' j /\
    (i_lk (s_i s') = true -> i_lk (s_i s) = true) /\ flowing s' /\
    (o_lock (s_o s') = None \/
     (holds s' j = true /\ mu (a_code (s_a s' j)) < mu (a_code (s_a s j)))).
Proof.
  intros s j [_ Ha] Hh [Hsl Hrdy]. destruct (Ha j) as [Hsafe _]. rewrite Hh in Hsafe.
  pose proof (holds_lock s j Hh) as Hl.
  unfold step. destruct (a_code (s_a s j)) as [|o k] eqn:Hcode; [discriminate Hsafe|].
  rewrite (gate_open j o (s_o s) Hsl Hrdy).
  assert (Hoth : forall a' og ig, others_same s (mkS og ig (upd (s_a s) j a')) j).
  { intros a' og ig i Hn. cbn. apply upd_other. exact Hn. }
  assert (Hhold : forall a' og ig, o_lock og = Some j -> holds (mkS og ig (upd (s_a s) j a')) j = true).
  { intros a' og ig E. unfold holds. cbn. rewrite E. apply Nat.eqb_refl. }
  destruct (o_mark_keeps (s_o s)) as (M1 & M2 & M3). destruct (o_writetag_keeps (s_o s)) as (W1 & W2 & W3).
  pose proof (mu_skip k) as Hskip. pose proof (mu_tail OChk k) as Htl. pose proof (mu_tail OTest k) as Htl2.
  destruct o; cbn [safe] in Hsafe; try discriminate Hsafe; cbn [exec];
    try match goal with |- context [if o_cl (s_o s) then _ else _] => destruct (o_cl (s_o s)) end;
    try match goal with |- context [if o_pend (s_o s) && o_wfail (s_o s) then _ else _] =>
          destruct (o_pend (s_o s) && o_wfail (s_o s)); [destruct rep|] end;
    try match goal with |- context [first_err] => unfold first_err; destruct (a_e (set_code (s_a s j) k)) end;
    try (eexists; split; [reflexivity|]; split; [apply Hoth|];
         split; [cbn [s_i]; rewrite ?(proj1 (proj2 (i_setdeadline_keeps _ _ _))); cbn; auto; try discriminate|];
         split; [split; cbn [s_o o_sl o_rdy o_emit o_flush o_setlock]; congruence|];
         first [ left; reflexivity
               | right; split; [apply Hhold; cbn [o_lock o_emit o_flush]; congruence|];
                 cbn [s_a]; rewrite upd_same; cbn [a_code set_code set_chk set_e set_res];
                 first [apply mu_tail | lia
                       | pose proof (mu_hemit n fail k); unfold mu at 1; cbn; lia
                       | pose proof (mu_hemit n fail k); destruct fail; unfold mu at 1; cbn; lia ] ]).
Qed.

Lemma holder_releases : forall m s j, mu (a_code (s_a s j)) <= m -> INV s -> holds s j = true -> flowing s ->
  exists tr s', run step s tr = Some s' /\ o_lock (s_o s') = None /\ others_same s s' j /\
    (i_lk (s_i s') = true -> i_lk (s_i s) = true) /\ flowing s'.
Proof.
  induction m as [|m IH]; intros s j Hm HI Hh Hf.
  - destruct (holder_step s j HI Hh Hf) as (s' & Hs & Ho & Hlk & Hf' & [Hn|[_ Hlt]]); [|lia].
    exists [j], s'. cbn [run]. rewrite Hs. auto.
  - destruct (holder_step s j HI Hh Hf) as (s' & Hs & Ho & Hlk & Hf' & [Hn|[Hh' Hlt]]).
    + exists [j], s'. cbn [run]. rewrite Hs. auto.
    + destruct (IH s' j ltac:(lia) (INV_step s j s' HI Hs) Hh' Hf') as (tr & s2 & Hr & Hn & Ho2 & Hlk2 & Hf2).
      exists (j :: tr), s2. cbn [run]. rewrite Hs. split; [exact Hr|]. split; [exact Hn|].
      split; [intros i Hi; rewrite (Ho2 i Hi); exact (Ho i Hi)|]. split; [auto|exact Hf2].
Qed.

(* ---- Serve, once out of its loop, runs to its return ---- *)

Definition lock_expect (n : nat) : bool :=
  (Nat.leb 2 n && Nat.leb n 7) || (Nat.leb 12 n && Nat.leb n 15).

Lemma exit_holds : forall n h c, n <= 17 -> safe h c (skipn n senderr_code) = true -> h = lock_expect n.
Proof.
  intros n h c Hn H.
  do 18 (destruct n as [|n]; [destruct h; cbn in H; try discriminate H; reflexivity|]).
  lia.
Qed.

Lemma exit_owes : forall n, owes (skipn n senderr_code) = false.
Proof. intro n. do 18 (destruct n as [|n]; [reflexivity|]). reflexivity. Qed.

(* one step of the exit sequence is enabled when the peer is reading, nobody
   else holds the output lock and the input lock is free *)
Lemma exit_enabled : forall n s i,
  a_code (s_a s i) = skipn n senderr_code -> n < 17 ->
  (o_lock (s_o s) = None \/ o_lock (s_o s) = Some i) -> holds s i = lock_expect n ->
  i_lk (s_i s) = false -> flowing s ->
  exists s', step s i = Some s' /\
    (o_lock (s_o s') = None \/ o_lock (s_o s') = Some i) /\ i_lk (s_i s') = false /\ flowing s'.
Proof.
  intros n s i Hc Hn Hl Hh Hlk [Hsl Hrdy]. unfold step. rewrite Hc.
  assert (Hfree : lock_expect n = false -> o_lock (s_o s) = None).
  { intro E. rewrite E in Hh. destruct Hl as [Hl|Hl]; [exact Hl|].
    unfold holds in Hh. rewrite Hl, Nat.eqb_refl in Hh. discriminate. }
  destruct (o_mark_keeps (s_o s)) as (M1 & M2 & M3). destruct (o_writetag_keeps (s_o s)) as (W1 & W2 & W3).
  do 17 (destruct n as [|n];
    [ cbn [skipn senderr_code shutdown_code close_code app];
      rewrite (gate_open i _ (s_o s) Hsl Hrdy); cbn [exec];
      try rewrite (Hfree eq_refl); try rewrite Hlk;
      try (destruct (o_cl (s_o s)));
      eexists; (split; [reflexivity|]); unfold flowing; cbn [s_o s_i o_lock o_sl o_rdy o_emit o_setlock i_lk i_closeinput];
      rewrite ?M1, ?M2, ?M3, ?W1, ?W2, ?W3; auto
    | ]).
  lia.
Qed.

Lemma exit_runs : forall m n s i,
  17 - n <= m -> n <= 17 -> INV s -> exit_at n (s_a s i) (s_o s) (s_i s) ->
  (o_lock (s_o s) = None \/ o_lock (s_o s) = Some i) -> i_lk (s_i s) = false -> flowing s ->
  exists tr s' e, run step s tr = Some s' /\ a_res (s_a s' i) = Some e.
Proof.
  induction m as [|m IH]; intros n s i Hm Hn HI He Hl Hlk Hf.
  - assert (n = 17) by lia. subst n. destruct He as (_ & _ & _ & _ & _ & H5).
    exists [], s, (a_e (s_a s i)). split; [reflexivity|exact (H5 eq_refl)].
  - destruct (Nat.eq_dec n 17) as [->|Hne].
    + destruct He as (_ & _ & _ & _ & _ & H5).
      exists [], s, (a_e (s_a s i)). split; [reflexivity|exact (H5 eq_refl)].
    + assert (Hlt : n < 17) by lia.
      pose proof He as (Hc & _).
      pose proof HI as [_ Ha]. destruct (Ha i) as [Hsafe _]. rewrite Hc in Hsafe.
      pose proof (exit_holds n _ _ Hn Hsafe) as Hh.
      destruct (exit_enabled n s i Hc Hlt Hl Hh Hlk Hf) as (s' & Hs & Hl' & Hlk' & Hf').
      pose proof Hs as Hinv. apply step_inv in Hinv.
      destruct Hinv as (o & k & og & ig & a' & Hcode & Hgate & Hex & E).
      destruct (exit_step n i _ _ _ o k og ig a' He Hlt Hcode Hex) as (n' & Hn' & He' & _ & _).
      assert (He2 : exit_at n' (s_a s' i) (s_o s') (s_i s')).
      { rewrite E. cbn [s_a s_o s_i]. rewrite upd_same. exact He'. }
      destruct (IH n' s' i ltac:(lia) ltac:(lia) (INV_step s i s' HI Hs) He2 Hl' Hlk' Hf') as (tr & s2 & e & Hr & Hres).
      exists (i :: tr), s2, e. cbn [run]. rewrite Hs. split; assumption.
Qed.

(* Serve is the only actor that takes the input lock across steps: when it is
   out of its loop the lock is free *)
Lemma in_lock_free : forall s i n, LK s -> NS s ->
  (forall j, j <> i -> a_role (s_a s j) <> RServe) ->
  a_code (s_a s i) = skipn n senderr_code -> i_lk (s_i s) = false.
Proof.
  intros s i n (_ & Hex & _ & _) Hns Honly Hc.
  destruct (i_lk (s_i s)) eqn:E; [|reflexivity].
  destruct (Hex eq_refl) as [j Hj].
  destruct (Nat.eq_dec j i) as [->|Hn].
  - rewrite Hc, exit_owes in Hj. discriminate.
  - rewrite (quiet_in_owes _ (Hns j (Honly j Hn))) in Hj. discriminate.
Qed.

(* From every reachable state in which the (only) Serve has left its loop, and
   the peer is reading, there is a continuation in which it returns: first
   whoever holds the output lock runs to its release, then Serve runs alone. *)
Theorem serve_can_return : forall ds ks tr s i,
  run step (init ds ks) tr = Some s ->
  a_role (s_a s i) = RServe -> (forall j, j <> i -> a_role (s_a s j) <> RServe) ->
  loopish (a_code (s_a s i)) = false -> o_rdy (s_o s) = true ->
  exists tr' s' e, run step s tr' = Some s' /\ a_res (s_a s' i) = Some e.
Proof.
  intros ds ks tr s i Hr Hrole Honly Hloop Hrdy.
  pose proof (INV_run ds ks tr s Hr) as HI.
  pose proof (CINV_run ds ks tr s Hr) as [_ Hall].
  pose proof (LK_run ds ks tr s Hr) as HLK.
  pose proof (NS_run ds ks tr s Hr) as HNS.
  assert (Hf : flowing s) by (split; [exact (state_lock_free ds ks tr s Hr)|exact Hrdy]).
  pose proof (Hall i) as Hi. unfold closer_ok in Hi. rewrite Hrole in Hi.
  destruct Hi as [[Hl _]|(n & Hn & He & _)]; [congruence|].
  pose proof He as (Hc & _).
  pose proof (in_lock_free s i n HLK HNS Honly Hc) as Hlk.
  destruct (o_lock (s_o s)) as [j|] eqn:Hlock.
  - destruct (Nat.eq_dec j i) as [->|Hne].
    + exact (exit_runs 17 n s i ltac:(lia) Hn HI He (or_intror Hlock) Hlk Hf).
    + (* somebody else holds the output lock: let it finish its region *)
      assert (Hh : holds s j = true) by (unfold holds; rewrite Hlock; apply Nat.eqb_refl).
      destruct (holder_releases _ s j (le_n _) HI Hh Hf) as (tr1 & s1 & Hr1 & Hn1 & Ho1 & Hlk1 & Hf1).
      pose proof (run_INV tr1 s s1 HI Hr1) as HI1.
      destruct (run_mono tr1 s s1 Hr1) as (Mo & Mi & Mp & _).
      assert (He1 : exit_at n (s_a s1 i) (s_o s1) (s_i s1)).
      { rewrite (Ho1 i ltac:(congruence)). exact (exit_at_mono n _ s s1 He Mo Mi Mp). }
      assert (Hlk1' : i_lk (s_i s1) = false).
      { destruct (i_lk (s_i s1)) eqn:E; [|reflexivity]. rewrite (Hlk1 eq_refl) in Hlk. discriminate. }
      destruct (exit_runs 17 n s1 i ltac:(lia) Hn HI1 He1 (or_introl Hn1) Hlk1' Hf1) as (tr2 & s2 & e & Hr2 & Hres).
      exists (tr1 ++ tr2), s2, e. split; [|exact Hres].
      rewrite run_app, Hr1. exact Hr2.
  - exact (exit_runs 17 n s i ltac:(lia) Hn HI He (or_introl Hlock) Hlk Hf).
Qed.

(* ---- Serve leaves its loop when the peer closes, sends a stream error or
        something the reader refuses, or when its read deadline has expired ---- *)

Definition terminal (ev : pev) : option (err * cause * bool) :=
  match ev with
  | PClose => Some (ENil, CPeerClose, false)
  | PErr => Some (EStream, CPeerErr, true)
  | PBad => Some (EBad, CBad, true)
  | PElem _ _ _ => None
  end.

Theorem serve_leaves_loop : forall s i k e c via,
  o_sl (s_o s) = None ->
  a_code (s_a s i) = OServeRead :: k ->
  (i_rdexp (s_i s) = true /\ (e, c, via) = (ETimeout, CTimeout, true) \/
   i_rdexp (s_i s) = false /\ exists ev q, i_q (s_i s) = ev :: q /\ terminal ev = Some (e, c, via)) ->
  exists s', run step s [i; i; i] = Some s' /\
    a_code (s_a s' i) = (if via then senderr_code else shutdown_code) /\
    a_e (s_a s' i) = e /\ a_cause (s_a s' i) = c /\ i_lk (s_i s') = false.
Proof.
  intros s i k e c via Hsl Hc H. cbn [run]. unfold step at 1. rewrite Hc.
  unfold gate at 1, sl_ok. rewrite Hsl. cbn [reads_state writes_conn negb orb andb]. cbn [exec].
  assert (T : forall og ig (f : nat -> actor) a,
            a_code a = [ORelIn; OExit e c via] ->
            exists s', (match step (mkS og ig (upd f i a)) i with
                        | Some s1 => match step s1 i with Some s2 => Some s2 | None => None end
                        | None => None end) = Some s' /\
              a_code (s_a s' i) = (if via then senderr_code else shutdown_code) /\
              a_e (s_a s' i) = e /\ a_cause (s_a s' i) = c /\ i_lk (s_i s') = false).
  { intros og ig f a Ha. unfold step at 1. cbn [s_a s_o s_i]. rewrite upd_same, Ha.
    cbn [gate reads_state writes_conn negb orb andb exec].
    unfold step at 1. cbn [s_a s_o s_i]. rewrite upd_same.
    cbn [a_code set_code gate reads_state writes_conn negb orb andb exec].
    eexists. split; [reflexivity|]. cbn [s_a s_i]. rewrite upd_same. cbn. auto. }
  destruct H as [[Hx E]|[Hx (ev & q & Hq & Ht)]]; rewrite Hx.
  - injection E as -> -> ->.
    destruct (T (s_o s) (s_i s) (s_a s) (set_code (s_a s i) [ORelIn; OExit ETimeout CTimeout true]) eq_refl) as (s' & Hs & R).
    exists s'. split; [|exact R].
    destruct (step _ i) as [s1|]; [|discriminate]. destruct (step s1 i) as [s2|]; [exact Hs|discriminate].
  - rewrite Hq. destruct ev; cbn in Ht; try discriminate Ht; injection Ht as <- <- <-.
    + destruct (T (s_o s) (i_setq (s_i s) q) (s_a s) (set_code (s_a s i) [ORelIn; OExit ENil CPeerClose false]) eq_refl) as (s' & Hs & R).
      exists s'. split; [|exact R].
      destruct (step _ i) as [s1|]; [|discriminate]. destruct (step s1 i) as [s2|]; [exact Hs|discriminate].
    + destruct (T (s_o s) (i_setq (s_i s) q) (s_a s) (set_code (s_a s i) [ORelIn; OExit EStream CPeerErr true]) eq_refl) as (s' & Hs & R).
      exists s'. split; [|exact R].
      destruct (step _ i) as [s1|]; [|discriminate]. destruct (step s1 i) as [s2|]; [exact Hs|discriminate].
    + destruct (T (s_o s) (i_setq (s_i s) q) (s_a s) (set_code (s_a s i) [ORelIn; OExit EBad CBad true]) eq_refl) as (s' & Hs & R).
      exists s'. split; [|exact R].
      destruct (step _ i) as [s1|]; [|discriminate]. destruct (step s1 i) as [s2|]; [exact Hs|discriminate].
Qed.
