(* C10/Progress.v — liveness of the closing protocol in the model:
   whoever holds the output lock can always run on to its release, and a Serve
   that has left its loop can always run on to its return (nothing it waits
   for is held forever). *)
From XV Require Import lib.Bytes lib.Lts gen.SessClose C10.Model C10.Inv C10.Proofs C10.Closers C10.InLock.

(* ---- the holder of the output lock runs to its release ---- *)

Definition is_hemit (o : op) : bool := match o with OHEmit _ _ => true | _ => false end.

Definition mu (code : list op) : nat := length code + (if existsb is_hemit code then 5 else 0).

Lemma mu_tail o k : mu k < mu (o :: k).
Proof.
  unfold mu. cbn [length existsb]. destruct (existsb is_hemit k); [rewrite orb_true_r; lia|].
  destruct (is_hemit o); cbn; lia.
Qed.

Lemma mu_skip : forall k, mu (skip_to_unlock k) <= mu k.
Proof.
  induction k as [|o k IH]; [cbn; lia|].
  destruct o; cbn [skip_to_unlock]; try (pose proof (mu_tail (OYield PCloseEnter) k); 
    match goal with |- mu (skip_to_unlock k) <= mu (?x :: k) => pose proof (mu_tail x k); lia end).
  lia.
Qed.

Lemma mu_hemit n f k : 5 < mu (OHEmit n f :: k).
Proof. unfold mu. cbn. lia. Qed.

Definition others_same (s s' : state) (j : nat) : Prop := forall i, i <> j -> s_a s' i = s_a s i.

Lemma holder_step : forall s j, INV s -> holds s j = true ->
  exists s', step s j = Some s' /\ others_same s s' j /\
    (i_lk (s_i s') = true -> i_lk (s_i s) = true) /\
    (o_lock (s_o s') = None \/
     (holds s' j = true /\ mu (a_code (s_a s' j)) < mu (a_code (s_a s j)))).
Proof.
  intros s j [_ Ha] Hh. destruct (Ha j) as [Hsafe _]. rewrite Hh in Hsafe.
  pose proof (holds_lock s j Hh) as Hl.
  unfold step. destruct (a_code (s_a s j)) as [|o k] eqn:Hcode; [discriminate Hsafe|].
  assert (Hoth : forall a' og ig, others_same s (mkS og ig (upd (s_a s) j a')) j).
  { intros a' og ig i Hn. cbn. apply upd_other. exact Hn. }
  assert (Hhold : forall a' og ig, o_lock og = Some j -> holds (mkS og ig (upd (s_a s) j a')) j = true).
  { intros a' og ig E. unfold holds. cbn. rewrite E. apply Nat.eqb_refl. }
  destruct o; cbn [safe] in Hsafe; try discriminate Hsafe; cbn [exec];
    try (eexists; split; [reflexivity|]; split; [apply Hoth|]; split; [cbn; auto|];
         right; split; [apply Hhold; cbn; rewrite ?o_close_lock; exact Hl|];
         cbn [s_a]; rewrite upd_same; cbn [a_code set_code set_chk set_e set_res]; apply mu_tail).
  - (* OUnlock *)
    eexists. split; [reflexivity|]. split; [apply Hoth|]. split; [cbn; auto|]. left. reflexivity.
  - (* OChk *)
    destruct (o_cl (s_o s)).
    + eexists. split; [reflexivity|]. split; [apply Hoth|]. split; [cbn; auto|].
      right. split; [apply Hhold; exact Hl|]. cbn [s_a]. rewrite upd_same. cbn [a_code set_code set_e set_chk set_res].
      pose proof (mu_skip k). pose proof (mu_tail OChk k). lia.
    + eexists. split; [reflexivity|]. split; [apply Hoth|]. split; [cbn; auto|].
      right. split; [apply Hhold; exact Hl|]. cbn [s_a]. rewrite upd_same. cbn [a_code set_code set_e set_chk set_res]. apply mu_tail.
  - (* OGEmit *)
    destruct (o_cl (s_o s)); eexists; (split; [reflexivity|]); (split; [apply Hoth|]); (split; [cbn; auto|]);
      right; (split; [apply Hhold; exact Hl|]); cbn [s_a]; rewrite upd_same;
      unfold first_err; try destruct (a_e (set_code (s_a s j) k)); cbn [a_code set_code set_e set_chk set_res]; apply mu_tail.
  - (* OGFlush *)
    destruct (o_cl (s_o s)); eexists; (split; [reflexivity|]); (split; [apply Hoth|]); (split; [cbn; auto|]);
      right; (split; [apply Hhold; exact Hl|]); cbn [s_a]; rewrite upd_same;
      unfold first_err; try destruct (a_e (set_code (s_a s j) k)); cbn [a_code set_code set_e set_chk set_res]; apply mu_tail.
  - (* OSendErrBody *)
    destruct (o_cl (s_o s)); eexists; (split; [reflexivity|]); (split; [apply Hoth|]); (split; [cbn; auto|]);
      right; (split; [apply Hhold; cbn; rewrite ?o_close_lock; exact Hl|]); cbn [s_a]; rewrite upd_same; cbn [a_code set_code set_e set_chk set_res]; apply mu_tail.
  - (* ORelIn *)
    eexists. split; [reflexivity|]. split; [apply Hoth|]. split; [cbn; discriminate|].
    right. split; [apply Hhold; exact Hl|]. cbn [s_a]. rewrite upd_same. cbn [a_code set_code set_e set_chk set_res]. apply mu_tail.
  - (* OHEmit *)
    pose proof (mu_hemit n fail k).
    destruct (o_cl (s_o s)); eexists; (split; [reflexivity|]); (split; [apply Hoth|]); (split; [cbn; auto|]);
      right; (split; [apply Hhold; exact Hl|]); cbn [s_a]; rewrite upd_same; cbn [a_code set_code].
    + unfold mu at 1. cbn. lia.
    + destruct fail; unfold mu at 1; cbn; lia.
Qed.

Lemma holder_releases : forall m s j, mu (a_code (s_a s j)) <= m -> INV s -> holds s j = true ->
  exists tr s', run step s tr = Some s' /\ o_lock (s_o s') = None /\ others_same s s' j /\
    (i_lk (s_i s') = true -> i_lk (s_i s) = true).
Proof.
  induction m as [|m IH]; intros s j Hm HI Hh.
  - destruct (holder_step s j HI Hh) as (s' & Hs & Ho & Hlk & [Hn|[_ Hlt]]); [|lia].
    exists [j], s'. cbn [run]. rewrite Hs. auto.
  - destruct (holder_step s j HI Hh) as (s' & Hs & Ho & Hlk & [Hn|[Hh' Hlt]]).
    + exists [j], s'. cbn [run]. rewrite Hs. auto.
    + destruct (IH s' j ltac:(lia) (INV_step s j s' HI Hs) Hh') as (tr & s2 & Hr & Hn & Ho2 & Hlk2).
      exists (j :: tr), s2. cbn [run]. rewrite Hs. split; [exact Hr|]. split; [exact Hn|].
      split; [intros i Hi; rewrite (Ho2 i Hi); exact (Ho i Hi)|auto].
Qed.

(* ---- Serve, once out of its loop, runs to its return ---- *)

Definition lock_expect (n : nat) : bool :=
  (Nat.leb 2 n && Nat.leb n 4) || (Nat.leb 9 n && Nat.leb n 11).

Lemma exit_holds : forall n h c, n <= 13 -> safe h c (skipn n senderr_code) = true -> h = lock_expect n.
Proof.
  intros n h c Hn H.
  do 14 (destruct n as [|n]; [destruct h; cbn in H; try discriminate H; reflexivity|]).
  lia.
Qed.

Lemma exit_owes : forall n, owes (skipn n senderr_code) = false.
Proof. intro n. do 14 (destruct n as [|n]; [reflexivity|]). reflexivity. Qed.

(* one step of the exit sequence is enabled when nobody else holds the output
   lock and the input lock is free *)
Lemma exit_enabled : forall n s i,
  a_code (s_a s i) = skipn n senderr_code -> n < 13 ->
  (o_lock (s_o s) = None \/ o_lock (s_o s) = Some i) -> holds s i = lock_expect n ->
  i_lk (s_i s) = false ->
  exists s', step s i = Some s' /\
    (o_lock (s_o s') = None \/ o_lock (s_o s') = Some i) /\ i_lk (s_i s') = false.
Proof.
  intros n s i Hc Hn Hl Hh Hlk. unfold step. rewrite Hc.
  assert (Hfree : lock_expect n = false -> o_lock (s_o s) = None).
  { intro E. rewrite E in Hh. destruct Hl as [Hl|Hl]; [exact Hl|].
    unfold holds in Hh. rewrite Hl, Nat.eqb_refl in Hh. discriminate. }
  do 13 (destruct n as [|n];
    [ cbn [skipn senderr_code shutdown_code app exec];
      try rewrite (Hfree eq_refl); try rewrite Hlk;
      try (destruct (o_cl (s_o s)));
      eexists; (split; [reflexivity|]); cbn; rewrite ?o_close_lock; auto
    | ]).
  lia.
Qed.

Lemma exit_runs : forall m n s i,
  13 - n <= m -> n <= 13 -> INV s -> exit_at n (s_a s i) (s_o s) (s_i s) ->
  (o_lock (s_o s) = None \/ o_lock (s_o s) = Some i) -> i_lk (s_i s) = false ->
  exists tr s' e, run step s tr = Some s' /\ a_res (s_a s' i) = Some e.
Proof.
  induction m as [|m IH]; intros n s i Hm Hn HI He Hl Hlk.
  - assert (n = 13) by lia. subst n. destruct He as (_ & _ & _ & _ & H5).
    exists [], s, (a_e (s_a s i)). split; [reflexivity|exact (H5 eq_refl)].
  - destruct (Nat.eq_dec n 13) as [->|Hne].
    + destruct He as (_ & _ & _ & _ & H5).
      exists [], s, (a_e (s_a s i)). split; [reflexivity|exact (H5 eq_refl)].
    + assert (Hlt : n < 13) by lia.
      pose proof He as (Hc & _).
      pose proof HI as [_ Ha]. destruct (Ha i) as [Hsafe _]. rewrite Hc in Hsafe.
      pose proof (exit_holds n _ _ Hn Hsafe) as Hh.
      destruct (exit_enabled n s i Hc Hlt Hl Hh Hlk) as (s' & Hs & Hl' & Hlk').
      pose proof Hs as Hinv. apply step_inv in Hinv.
      destruct Hinv as (o & k & og & ig & a' & Hcode & Hex & E).
      destruct (exit_step n i _ _ _ o k og ig a' He Hlt Hcode Hex) as (He' & _ & _).
      assert (He2 : exit_at (S n) (s_a s' i) (s_o s') (s_i s')).
      { rewrite E. cbn [s_a s_o s_i]. rewrite upd_same. exact He'. }
      destruct (IH (S n) s' i ltac:(lia) ltac:(lia) (INV_step s i s' HI Hs) He2 Hl' Hlk') as (tr & s2 & e & Hr & Hres).
      exists (i :: tr), s2, e. cbn [run]. rewrite Hs. split; assumption.
Qed.

(* Serve is the only actor that takes the input lock across steps: when it is
   out of its loop the lock is free *)
Lemma in_lock_free : forall s i n, LK s -> NS s ->
  (forall j, j <> i -> a_role (s_a s j) <> RServe) ->
  a_code (s_a s i) = skipn n senderr_code -> i_lk (s_i s) = false.
Proof.
  intros s i n (_ & Hex & _ & _) Hns Honly Hc.
  destruct (i_lk (s_i s)) eqn:E; [|reflexivity].
  destruct (Hex eq_refl) as [j Hj].
  destruct (Nat.eq_dec j i) as [->|Hn].
  - rewrite Hc, exit_owes in Hj. discriminate.
  - rewrite (quiet_in_owes _ (Hns j (Honly j Hn))) in Hj. discriminate.
Qed.

(* From every reachable state in which the (only) Serve has left its loop there
   is a continuation in which it returns: first whoever holds the output lock
   runs to its release, then Serve runs alone. *)
Theorem serve_can_return : forall ds ks tr s i,
  run step (init ds ks) tr = Some s ->
  a_role (s_a s i) = RServe -> (forall j, j <> i -> a_role (s_a s j) <> RServe) ->
  loopish (a_code (s_a s i)) = false ->
  exists tr' s' e, run step s tr' = Some s' /\ a_res (s_a s' i) = Some e.
Proof.
  intros ds ks tr s i Hr Hrole Honly Hloop.
  pose proof (INV_run ds ks tr s Hr) as HI.
  pose proof (CINV_run ds ks tr s Hr) as [_ Hall].
  pose proof (LK_run ds ks tr s Hr) as HLK.
  pose proof (NS_run ds ks tr s Hr) as HNS.
  pose proof (Hall i) as Hi. unfold closer_ok in Hi. rewrite Hrole in Hi.
  destruct Hi as [[Hl _]|(n & Hn & He & _)]; [congruence|].
  pose proof He as (Hc & _).
  pose proof (in_lock_free s i n HLK HNS Honly Hc) as Hlk.
  destruct (o_lock (s_o s)) as [j|] eqn:Hlock.
  - destruct (Nat.eq_dec j i) as [->|Hne].
    + exact (exit_runs 13 n s i ltac:(lia) Hn HI He (or_intror Hlock) Hlk).
    + (* somebody else holds the output lock: let it finish its region *)
      assert (Hh : holds s j = true) by (unfold holds; rewrite Hlock; apply Nat.eqb_refl).
      destruct (holder_releases _ s j (le_n _) HI Hh) as (tr1 & s1 & Hr1 & Hn1 & Ho1 & Hlk1).
      pose proof (run_INV tr1 s s1 HI Hr1) as HI1.
      destruct (run_mono tr1 s s1 Hr1) as [Mo Mi].
      assert (He1 : exit_at n (s_a s1 i) (s_o s1) (s_i s1)).
      { rewrite (Ho1 i ltac:(congruence)). exact (exit_at_mono n _ s s1 He Mo Mi). }
      assert (Hlk1' : i_lk (s_i s1) = false).
      { destruct (i_lk (s_i s1)) eqn:E; [|reflexivity]. rewrite (Hlk1 eq_refl) in Hlk. discriminate. }
      destruct (exit_runs 13 n s1 i ltac:(lia) Hn HI1 He1 (or_introl Hn1) Hlk1') as (tr2 & s2 & e & Hr2 & Hres).
      exists (tr1 ++ tr2), s2, e. split; [|exact Hres].
      rewrite run_app, Hr1. exact Hr2.
  - exact (exit_runs 13 n s i ltac:(lia) Hn HI He (or_introl Hlock) Hlk).
Qed.

(* ---- Serve leaves its loop when the peer closes, sends a stream error or
        something the reader refuses, or when its read deadline has expired ---- *)

Definition terminal (ev : pev) : option (err * cause * bool) :=
  match ev with
  | PClose => Some (ENil, CPeerClose, false)
  | PErr => Some (EStream, CPeerErr, true)
  | PBad => Some (EBad, CBad, true)
  | PElem _ _ _ => None
  end.

Theorem serve_leaves_loop : forall s i k e c via,
  a_code (s_a s i) = OServeRead :: k ->
  (i_rdexp (s_i s) = true /\ (e, c, via) = (ETimeout, CTimeout, true) \/
   i_rdexp (s_i s) = false /\ exists ev q, i_q (s_i s) = ev :: q /\ terminal ev = Some (e, c, via)) ->
  exists s', run step s [i; i; i] = Some s' /\
    a_code (s_a s' i) = (if via then senderr_code else shutdown_code) /\
    a_e (s_a s' i) = e /\ a_cause (s_a s' i) = c /\ i_lk (s_i s') = false.
Proof.
  intros s i k e c via Hc H. cbn [run]. unfold step at 1. rewrite Hc. cbn [exec].
  destruct H as [[Hx E]|[Hx (ev & q & Hq & Ht)]]; rewrite Hx.
  - injection E as -> -> ->. unfold step at 1. cbn [s_a]. rewrite upd_same. cbn [a_code set_code exec].
    unfold step at 1. cbn [s_a]. rewrite upd_same. cbn [a_code set_code exec].
    eexists. split; [reflexivity|]. cbn [s_a s_i]. rewrite upd_same. cbn. auto.
  - rewrite Hq. destruct ev; cbn in Ht; try discriminate Ht; injection Ht as <- <- <-;
      unfold step at 1; cbn [s_a]; rewrite upd_same; cbn [a_code set_code exec];
      unfold step at 1; cbn [s_a]; rewrite upd_same; cbn [a_code set_code exec];
      (eexists; split; [reflexivity|]); cbn [s_a s_i]; rewrite upd_same; cbn; auto.
Qed.
