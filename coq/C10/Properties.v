(* C10/Properties.v — the property theorems of C10 and nothing else.
   "Closing is idempotent, final and observable."

   A schedule is a list of actor indices (lib/Lts.v: run step); the theorems
   quantify over every configuration (transport with or without read
   deadlines, any list of actors of any kinds and multiplicities: Close
   callers, transmitters of every family, SetCloseDeadline, token-reader
   probes, Serve, the peer with any script, the deadline timer) and over every
   schedule, i.e. every interleaving of their operations. *)
From XV Require Import lib.Bytes lib.Lts gen.SessClose gen.Serve C10.Model C10.Inv C10.Proofs C10.Closers
  C10.Transmit C10.InLock C10.StateLock C10.Progress C10.Deadline C10.Refute C10.Tables C10.Spec.

(* Clause 1.  In every reachable state the closing tag has been handed to the
   connection at most once (o_att: write ATTEMPTS, whether or not the
   connection accepted the write) and the wire holds no more tags than that;
   it has been attempted exactly when the OutputStreamClosed bit is set and the
   tag is no longer owed (closeSession sets the bit under the state lock and
   writes the tag after releasing it, still under the output lock); unless the
   connection refuses the tag, attempt and tag on the wire coincide; and as
   soon as any Close call, or Serve, has returned — with or without the
   connection's error — the bit is set and the one attempt has been made:
   closing is final, however many callers there are and however they
   interleave with each other, with transmitters, with Serve's own shutdown
   and with sendError. *)
Theorem C10_one_closing_tag : forall ds ks tr s,
  run step (init ds ks) tr = Some s ->
  o_att (s_o s) <= 1 /\ closes (o_wire (s_o s)) <= o_att (s_o s) /\
  (o_att (s_o s) = 1 <-> o_cl (s_o s) = true /\ o_pend (s_o s) = false) /\
  (o_wfail (s_o s) = false -> closes (o_wire (s_o s)) = o_att (s_o s)) /\
  (forall i e, (kind_at ks i KClose \/ kind_at ks i KServe) -> returned s i e ->
     o_cl (s_o s) = true /\ o_att (s_o s) = 1).
Proof. exact one_closing_tag. Qed.
Print Assumptions C10_one_closing_tag.

(* Clause 2a.  Nothing follows the closing tag on the wire, and from the moment
   the bit is set the encoder's buffer is never written again and the only
   thing that can still reach the connection is the one closing tag owed by the
   call that set the bit (tag_only), whatever anybody does. *)
Theorem C10_nothing_after_close : forall ds ks tr s,
  run step (init ds ks) tr = Some s ->
  (forall pre post, o_wire (s_o s) = pre ++ IClose :: post -> post = []) /\
  (o_cl (s_o s) = true -> forall tr2 s2, run step s tr2 = Some s2 ->
     o_buf (s_o s2) = o_buf (s_o s) /\ tag_only (s_o s) (s_o s2)).
Proof. exact nothing_after_close. Qed.
Print Assumptions C10_nothing_after_close.

(* Clause 2b.  A transmit call of any family (func send — Send, SendElement and
   every SendIQ/Message/Presence/Encode... variant —, Encode, EncodeElement,
   TokenWriter) that has not started when the stream is closed returns, if it
   returns, the output-closed error, and it has written nothing. *)
Theorem C10_transmit_fails_after_close : forall ds ks tr1 s1 i k tr2 s2 e,
  run step (init ds ks) tr1 = Some s1 ->
  o_cl (s_o s1) = true -> is_transmit k = true -> not_started s1 i k ->
  run step s1 tr2 = Some s2 -> returned s2 i e ->
  e = EOutClosed /\ o_buf (s_o s2) = o_buf (s_o s1) /\ tag_only (s_o s1) (s_o s2).
Proof. exact transmit_fails_after_close. Qed.
Print Assumptions C10_transmit_fails_after_close.

(* Clause 3a.  When Serve has returned, both directions are marked closed, the
   closing tag has been attempted exactly once, and the return value is the one
   that belongs to the reason Serve left its loop (outcome_rel): nil for the
   peer's closing tag, the stream error for a received stream error, a time-out
   error when the read deadline expired, the context's error when the close
   deadline was noticed at the top of the loop, the output-closed error when a
   reply was attempted after Close, the handler's / reader's error otherwise —
   or, when the connection refused the closing tag that this Serve had to
   write, the connection's error.  nil only for the peer's closing tag; and
   always nil for it unless the connection refused the tag. *)
Theorem C10_serve_outcomes : forall ds ks tr s i e,
  run step (init ds ks) tr = Some s -> kind_at ks i KServe -> returned s i e ->
  o_cl (s_o s) = true /\ i_cl (s_i s) = true /\ o_att (s_o s) = 1 /\
  outcome_rel' (o_wfail (s_o s)) (a_cause (s_a s i)) e /\
  (e = ENil -> a_cause (s_a s i) = CPeerClose) /\
  (o_wfail (s_o s) = false -> a_cause (s_a s i) = CPeerClose -> e = ENil).
Proof. exact serve_outcomes. Qed.
Print Assumptions C10_serve_outcomes.

(* Clause 3b.  Serve leaves its loop, with that reason, when its read meets the
   peer's closing tag, a stream error, input the stream reader refuses, or an
   expired read deadline (transports with deadlines: i_rdexp is only ever set
   when the transport supports them) ... *)
Theorem C10_serve_leaves_loop : forall s i k e c via,
  o_sl (s_o s) = None ->
  a_code (s_a s i) = OServeRead :: k ->
  (i_rdexp (s_i s) = true /\ (e, c, via) = (ETimeout, CTimeout, true) \/
   i_rdexp (s_i s) = false /\ exists ev q, i_q (s_i s) = ev :: q /\ terminal ev = Some (e, c, via)) ->
  exists s', run step s [i; i; i] = Some s' /\
    a_code (s_a s' i) = (if via then senderr_code else shutdown_code) /\
    a_e (s_a s' i) = e /\ a_cause (s_a s' i) = c /\ i_lk (s_i s') = false.
Proof. exact serve_leaves_loop. Qed.
Print Assumptions C10_serve_leaves_loop.

(* ... and once out of its loop it can always run on to its return, provided the
   peer is reading (writes to the connection complete): nothing else it needs
   (the output lock for sendError and Close, the input lock for
   closeInputStream, the state lock) is held forever by anybody, in any
   reachable state. *)
Theorem C10_serve_returns : forall ds ks tr s i,
  run step (init ds ks) tr = Some s ->
  kind_at ks i KServe -> (forall j, j <> i -> ~ kind_at ks j KServe) ->
  loopish (a_code (s_a s i)) = false -> o_rdy (s_o s) = true ->
  exists tr' s' e, run step s tr' = Some s' /\ returned s' i e.
Proof. exact serve_returns. Qed.
Print Assumptions C10_serve_returns.

(* Clause 3b'.  The close deadline is state that every SetCloseDeadline call
   replaces — any number of calls, each with a later time, a time already
   passed or the zero time, in any order with everything else; the deadline
   asked for by any of the calls may pass at any moment (OFire j).  In every
   reachable state in which the deadline IN FORCE has not passed (i_passed)
   Serve's read does not time out and its context test does not report a
   deadline, and the peer's closing tag, once read, sends Serve to its shutdown
   with nil ... *)
Theorem C10_deadline_only_in_force : forall ds ks tr s,
  run step (init ds ks) tr = Some s -> i_passed (s_i s) = false ->
  i_rdexp (s_i s) = false /\ ~ (i_done (s_i s) = true /\ i_err (s_i s) = ECtxDeadline) /\
  (forall i k q, a_code (s_a s i) = OServeRead :: k -> i_q (s_i s) = PClose :: q ->
     exists s', run step s [i; i; i] = Some s' /\ a_code (s_a s' i) = shutdown_code /\
                a_e (s_a s' i) = ENil /\ a_cause (s_a s' i) = CPeerClose).
Proof. exact deadline_only_in_force. Qed.
Print Assumptions C10_deadline_only_in_force.

(* ... where "has passed" is raised only by the passing of the deadline of the
   call in force while it is still pending, or by a call whose time has already
   passed; every call makes itself the one in force and resets the flag to what
   it alone says; and a deadline that is not (or no longer) in force passes
   without any effect on the session. *)
Theorem C10_deadline_replaced : 
  (forall s i s', step s i = Some s' -> i_passed (s_i s) = false -> i_passed (s_i s') = true ->
     exists k, (a_code (s_a s i) = OSetDeadline DPast :: k) \/
               (exists j, a_code (s_a s i) = OFire j :: k /\ i_gen (s_i s) = Some j /\ i_armed (s_i s) = true)) /\
  (forall s i m k s', a_code (s_a s i) = OSetDeadline m :: k -> step s i = Some s' ->
     i_gen (s_i s') = Some i /\
     i_passed (s_i s') = (match m with DPast => true | _ => false end) /\
     i_armed (s_i s') = (match m with DFuture => true | _ => false end) /\
     i_rdexp (s_i s') = (match m with DPast => i_dlsup (s_i s) | _ => false end) /\
     i_done (s_i s') = (match m with DPast => true | _ => false end)) /\
  (forall s i j k s', a_code (s_a s i) = OFire j :: k -> i_gen (s_i s) <> Some j -> step s i = Some s' ->
     s_i s' = s_i s /\ s_o s' = s_o s).
Proof. exact (conj passed_only_in_force (conj setdeadline_replaces stale_deadline_passes_unnoticed)). Qed.
Print Assumptions C10_deadline_replaced.

(* Clause 3c.  After the input stream is marked closed a read fails with the
   input-closed error. *)
Theorem C10_read_after_input_closed : forall s i k s',
  i_cl (s_i s) = true -> a_code (s_a s i) = OProbe :: k -> step s i = Some s' ->
  a_e (s_a s' i) = EInClosed.
Proof. exact read_after_input_closed. Qed.
Print Assumptions C10_read_after_input_closed.

(* The state lock.  In every reachable state nobody holds the state mutex: its
   critical sections are single operations (they contain nothing that can
   block: C10_source_tables), so no actor ever waits for the peer while holding
   it, and an operation that needs the session state and does not itself write
   to the connection is never kept waiting by it — whatever write is pending,
   whether or not the peer is reading. *)
Theorem C10_state_lock_never_held_across_write : forall ds ks tr s,
  run step (init ds ks) tr = Some s ->
  o_sl (s_o s) = None /\
  (forall i o, reads_state o = true -> writes_conn o (s_o s) = false -> gate i o (s_o s) = true).
Proof.
  intros ds ks tr s H. split; [exact (state_lock_free ds ks tr s H)|].
  intros i o. exact (state_reads_never_blocked ds ks tr s i o H).
Qed.
Print Assumptions C10_state_lock_never_held_across_write.

(* Serve's state reads — the input context at the top of its loop, the closed
   test of its token reader before every read — are enabled in every reachable
   state, also when the peer is not reading and a closer is stuck in its write
   of the closing tag holding the output lock. *)
Theorem C10_serve_state_reads_never_blocked : forall ds ks tr s i k,
  run step (init ds ks) tr = Some s ->
  (a_code (s_a s i) = OServeTop :: k -> exists s', step s i = Some s') /\
  (a_code (s_a s i) = OServeRead :: k -> i_rdexp (s_i s) = true \/ i_q (s_i s) <> [] ->
     exists s', step s i = Some s').
Proof. exact serve_reads_enabled. Qed.
Print Assumptions C10_serve_state_reads_never_blocked.

(* The pinned design (fixed by 0020d0b): Close and sendError took the state
   mutex after the output lock and kept it while writing the closing tag.  The
   statement "a Serve that has input to read can read it" is false of it:
   witness — the peer stops reading, Close sets the bit and waits in its write
   holding the mutex, the peer's element arrives, Serve waits for the mutex.
   Nobody but the peer can move, and the peer (B's handler replying to A) waits
   for Serve. *)
Definition C10_state_lock_statement (init0 : state) : Prop := statelock_statement init0.

Theorem C10_state_lock_pinned_refuted : ~ C10_state_lock_statement pinned_init.
Proof. exact statelock_pinned_refuted. Qed.
Print Assumptions C10_state_lock_pinned_refuted.

Theorem C10_state_lock_repaired : forall ds ks, C10_state_lock_statement (init ds ks).
Proof. exact statelock_repaired. Qed.
Print Assumptions C10_state_lock_repaired.

(* Known finding: the stream error that sendError encodes is not flushed before
   closeSession writes the closing tag directly to the connection; it stays in
   the encoder buffer for ever.  The expected statement is false of the
   faithful model (witness: Serve + a handler that fails) ... *)
Definition C10_stream_error_flushed_statement : Prop := stream_error_flushed_statement.

Theorem C10_stream_error_flushed_refuted : ~ C10_stream_error_flushed_statement.
Proof. exact stream_error_flushed_refuted. Qed.
Print Assumptions C10_stream_error_flushed_refuted.

(* ... what holds instead: it is never written behind the closing tag. *)
Theorem C10_stream_error_flushed_partial : forall ds ks tr s pre post,
  run step (init ds ks) tr = Some s -> o_wire (s_o s) = pre ++ IClose :: post -> ~ In IErr post.
Proof. exact stream_error_never_after_close. Qed.
Print Assumptions C10_stream_error_flushed_partial.

(* The facts of session.go the programs of the model are built from, as read
   from the source on this run: who takes the output lock (each is modelled),
   every one tests the closed bit after taking it, only closeSession /
   closeInputStream set the bits, Serve's deferred shutdown calls
   closeInputStream then Close, SetCloseDeadline swaps the context under a lock,
   builds the new one from context.Background() (never from the one it
   replaces), cancels the previous one and takes the zero time for no deadline;
   and for WebSocket framing: Send records the opening element (so that Close
   writes <close/>), the negotiator records the framing on the session and the
   stream reader takes the peer's <close/> for the end of the stream — which is
   what lets IClose / PClose stand for <close/> on such sessions; and no call
   that can block sits inside a critical section of the state mutex; Serve tells
   the peer's close by err == io.EOF (identity: errors that wrap io.EOF are
   handler errors) and reads the input context in force at every turn;
   closeSession sets the bit, in the critical section of its test, before it
   writes the closing element; setWriteDeadline clears the write deadline where
   it expired it, and newConn takes the deadline methods from the underlying
   connection (the two pieces of transport plumbing behind "a transmit call
   leaves the connection writable" and "SetCloseDeadline arms the reads"). *)
Theorem C10_source_tables :
  sc_out_lockers = map str ["Session.Close"; "Session.Encode"; "Session.EncodeElement";
                            "Session.TokenWriter"; "Session.sendError"; "send"]%string /\
  (send_guarded = true /\ encode_guarded = true /\ encodeelement_guarded = true /\
   sc_tw_encodetoken_tests_closed = true /\ sc_tw_flush_tests_closed = true /\
   sc_tr_token_tests_closed = true) /\
  (sc_sets_output_closed = [str "Session.closeSession"] /\
   sc_sets_input_closed = [str "Session.closeInputStream"] /\
   sc_closesession_callers = map str ["Session.Close"; "Session.sendError"]%string) /\
  sc_serve_defer_calls = map str ["closeInputStream"; "Close"]%string /\
  (sc_setclosedeadline_locked = true /\ sc_setclosedeadline_fresh_context = true /\
   sc_setclosedeadline_cancels_previous = true /\ sc_setclosedeadline_zero_is_no_deadline = true) /\
  (sc_send_records_opening_element = true /\ sc_negotiator_records_ws = true /\
   sc_reader_ws_close_is_eof = true) /\
  sc_statelock_blocking_calls = [] /\
  (sv_serve_eof_identity = true /\ sc_serve_reads_context_every_turn = true) /\
  sc_closesession_sets_bit_before_write = true /\
  (sc_writedeadline_cleared_where_expired = true /\ sc_newconn_deadlines_from_prev = true).
Proof. exact source_tables. Qed.
Print Assumptions C10_source_tables.
