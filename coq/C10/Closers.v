(* C10/Closers.v — what the actors that close the session (Close callers and
   Serve) have done when they return: invariant over all interleavings. *)
From XV Require Import lib.Bytes lib.Lts gen.SessClose C10.Model C10.Inv C10.Proofs.

(* how Serve's return value relates to the reason it left its loop *)
Definition outcome_rel (c : cause) (e : err) : Prop :=
  match c with
  | CNone => False
  | CPeerClose => e = ENil
  | CPeerErr => e = EStream
  | CBad => e = EBad
  | CHandler => e = EHandler
  | CReplyClosed => e = EOutClosed
  | CTimeout => e = ETimeout
  | CCtx => e = ECtxDeadline \/ e = ECtxCanceled
  end.

(* ... unless the connection refused the closing tag that this very Serve had to
   write: then the connection's error is what it returns *)
Definition outcome_rel' (wf : bool) (c : cause) (e : err) : Prop :=
  outcome_rel c e \/ (wf = true /\ c <> CNone /\ e = EWrite).

Definition outcome_okb (c : cause) (e : err) : bool :=
  match c, e with
  | CPeerClose, ENil | CPeerErr, EStream | CBad, EBad | CHandler, EHandler
  | CReplyClosed, EOutClosed | CTimeout, ETimeout | CCtx, ECtxDeadline | CCtx, ECtxCanceled => true
  | _, _ => false
  end.

Lemma outcome_okb_rel c e : outcome_okb c e = true -> outcome_rel c e /\ c <> CNone.
Proof. destruct c, e; cbn; intro H; try discriminate; split; auto; discriminate. Qed.

Definition is_dyn (o : op) : bool :=
  match o with OServeTop | OServeRead | OHEmit _ _ | OExit _ _ _ => true | _ => false end.

(* the operations of Serve's loop *)
Definition loop_op (o : op) : bool :=
  match o with
  | OYield _ | OLock | OUnlock | OGFlush | OAcqIn | ORelIn | OServeTop | OServeRead | OHEmit _ _ => true
  | OExit e c _ => outcome_okb c e
  | _ => false
  end.

Fixpoint ends_dyn (code : list op) : bool :=
  match code with
  | [] => false
  | o :: r => match r with [] => is_dyn o | _ => ends_dyn r end
  end.

Definition loopish (code : list op) : bool := forallb loop_op code && ends_dyn code.

(* position n in sendError + shutdown (shutdown is its tail from 8, the plain
   Close its tail from 10).  Indices: 3 OTest, 4 OEmit IErr, 5 OMark,
   6 OWriteTag, 7 OUnlock, 9 OCloseInput, 13 OMark, 14 OWriteTag, 15 OUnlock,
   16 ORet. *)
Definition exit_len : nat := 17.

Definition exit_at (n : nat) (a : actor) (og : outg) (ig : ing) : Prop :=
  a_code a = skipn n senderr_code /\
  (9 < n -> a_role a = RServe -> i_cl ig = true) /\
  (13 < n -> o_cl og = true) /\
  (14 < n -> o_cl og = true /\ o_pend og = false) /\
  (n < 17 -> a_res a = None) /\
  (n = 17 -> a_res a = Some (a_e a)).

Definition closer_ok (s : state) (i : nat) : Prop :=
  let a := s_a s i in
  match a_role a with
  | RPlain => True
  | RCloser => exists n, 10 <= n <= 17 /\ exit_at n a (s_o s) (s_i s)
  | RServe => (loopish (a_code a) = true /\ a_res a = None) \/
              (exists n, n <= 17 /\ exit_at n a (s_o s) (s_i s) /\
                         a_cause a <> CNone /\ outcome_rel' (o_wfail (s_o s)) (a_cause a) (a_e a))
  end.

Definition ctx_ok (ig : ing) : Prop :=
  i_done ig = true -> i_err ig = ECtxDeadline \/ i_err ig = ECtxCanceled.

Definition CINV (s : state) : Prop := ctx_ok (s_i s) /\ forall i, closer_ok s i.

Lemma close_code_tail : close_code = skipn 10 senderr_code.
Proof. reflexivity. Qed.

Lemma shutdown_code_tail : shutdown_code = skipn 8 senderr_code.
Proof. reflexivity. Qed.

Lemma CINV_init : forall ds ks, CINV (init ds ks).
Proof.
  intros ds ks. split; [cbn; discriminate|].
  intro i. unfold closer_ok. cbn.
  destruct (nth_error ks i) as [k|]; cbn; [|exact I].
  destruct k; cbn; try exact I.
  - exists 10. split; [lia|]. unfold exit_at. cbn. repeat split; intros; try lia; try discriminate; reflexivity.
  - left. split; reflexivity.
Qed.

(* ---- the role never changes ---- *)

Lemma exec_role : forall me o k og ig a og' ig' a',
  exec me o k og ig a = Some (og', ig', a') -> a_role a' = a_role a.
Proof.
  intros me o k og ig a og' ig' a' H.
  destruct o; cbn [exec] in H;
    repeat match type of H with
           | context [match ?x with _ => _ end] => destruct x eqn:?; try discriminate
           end;
    injection H as <- <- <-; try reflexivity;
    unfold first_err; try (destruct (a_e (set_code a k)); reflexivity).
Qed.

(* ---- a step inside sendError / shutdown ---- *)

Lemma o_writetag_done og : o_cl og = true -> o_cl (o_writetag og) = true /\ o_pend (o_writetag og) = false.
Proof. intro H. unfold o_writetag. destruct (o_pend og) eqn:E; cbn; auto. Qed.

Lemma exit_step : forall n me a og ig o k og' ig' a',
  exit_at n a og ig -> n < 17 -> a_code a = o :: k ->
  exec me o k og ig a = Some (og', ig', a') ->
  exists n', n < n' <= 17 /\ exit_at n' a' og' ig' /\
    (a_e a' = a_e a \/ (o_wfail og = true /\ a_e a' = EWrite)) /\ a_cause a' = a_cause a.
Proof.
  intros n me a og ig o k og' ig' a' (Hc & Hi & Ho & Hp & Hr & _) Hn Hcode Hex.
  rewrite Hcode in Hc.
  do 17 (destruct n as [|n];
    [ cbn in Hc; injection Hc as -> ->; cbn [exec] in Hex;
      repeat match type of Hex with
             | context [match ?x with _ => _ end] => destruct x eqn:?; try discriminate
             end;
      injection Hex as <- <- <-;
      unfold first_err; cbn [a_e set_code];
      try match goal with |- context [match a_e a with _ => _ end] => destruct (a_e a) eqn:Ee end;
      try match goal with H : _ && _ = true |- _ => apply andb_prop in H; destruct H as [Hpe Hwf] end;
      (* the jump of a failed OTest lands on the OUnlock at 7 *)
      first [ exists 7; (split; [lia|]); (split; [|split; [left; reflexivity|reflexivity]]); unfold exit_at; cbn;
              (split; [reflexivity|]);
              (split; [intros; lia|]); (split; [intros; lia|]); (split; [intros; lia|]);
              (split; [intros; apply Hr; lia|intros; lia])
            | match goal with |- exists n', ?m < n' <= _ /\ _ => exists (S m) end; (split; [lia|]);
              (split; [|split; [cbn; first [left; reflexivity | left; symmetry; assumption | left; assumption
                                         | right; split; [assumption|reflexivity]]|reflexivity]]);
              unfold exit_at; cbn;
              (split; [reflexivity|]);
              (split; [intros H9 Hrole; try lia; try reflexivity; try (apply Hi; [lia|exact Hrole])|]);
              (split; [intros H13; try lia; try apply o_mark_cl; try (rewrite ?o_writetag_cl; apply Ho; lia)|]);
              (split; [intros H14; try lia;
                       try (apply o_writetag_done; apply Ho; lia);
                       try (apply Hp; lia)|]);
              (split; [intros H17; try lia; try (apply Hr; lia)|intros H17; try lia; try reflexivity]) ]
    | ]).
  lia.
Qed.

(* ---- a step inside Serve's loop ---- *)

Lemma ends_dyn_tail o k : is_dyn o = false -> ends_dyn (o :: k) = true -> ends_dyn k = true.
Proof. destruct k; cbn; [congruence|auto]. Qed.

Lemma loopish_tail o k : loopish (o :: k) = true -> is_dyn o = false -> loopish k = true.
Proof.
  unfold loopish. cbn [forallb]. rewrite !andb_true_iff. intros [[_ Hf] He] Hd.
  split; [exact Hf|exact (ends_dyn_tail o k Hd He)].
Qed.

Lemma loop_step : forall me a og ig o k og' ig' a',
  ctx_ok ig -> loopish (a_code a) = true -> a_res a = None -> a_code a = o :: k ->
  exec me o k og ig a = Some (og', ig', a') ->
  (loopish (a_code a') = true /\ a_res a' = None) \/
  (exists n, n <= 17 /\ exit_at n a' og' ig' /\ a_cause a' <> CNone /\ outcome_rel (a_cause a') (a_e a')).
Proof.
  intros me a og ig o k og' ig' a' Hctx Hl Hr Hcode Hex. rewrite Hcode in Hl.
  assert (Hop : loop_op o = true).
  { unfold loopish in Hl. cbn [forallb] in Hl. rewrite !andb_true_iff in Hl. tauto. }
  destruct o; try discriminate Hop; cbn [exec] in Hex.
  - (* OYield *) injection Hex as <- <- <-. left. split; [exact (loopish_tail _ _ Hl eq_refl)|exact Hr].
  - (* OLock *) destruct (o_lock og); [discriminate|]. injection Hex as <- <- <-.
    left. split; [exact (loopish_tail _ _ Hl eq_refl)|exact Hr].
  - (* OUnlock *) injection Hex as <- <- <-. left. split; [exact (loopish_tail _ _ Hl eq_refl)|exact Hr].
  - (* OGFlush *)
    destruct (o_cl og); injection Hex as <- <- <-; left.
    + unfold first_err. destruct (a_e (set_code a k)); cbn; (split; [exact (loopish_tail _ _ Hl eq_refl)|exact Hr]).
    + split; [exact (loopish_tail _ _ Hl eq_refl)|exact Hr].
  - (* OAcqIn *) destruct (i_lk ig); [discriminate|]. injection Hex as <- <- <-.
    left. split; [exact (loopish_tail _ _ Hl eq_refl)|exact Hr].
  - (* ORelIn *) injection Hex as <- <- <-. left. split; [exact (loopish_tail _ _ Hl eq_refl)|exact Hr].
  - (* OServeTop *)
    destruct (i_done ig) eqn:Hd; injection Hex as <- <- <-.
    + right. exists 8. split; [lia|]. split; [|split; [discriminate|exact (Hctx Hd)]].
      unfold exit_at. cbn. repeat split; intros; try lia; try exact Hr.
    + left. split; [reflexivity|exact Hr].
  - (* OServeRead *)
    destruct (i_rdexp ig).
    + injection Hex as <- <- <-. left. split; [reflexivity|exact Hr].
    + destruct (i_q ig) as [|ev q]; [discriminate|]. injection Hex as <- <- <-. left.
      split; [|exact Hr]. destruct ev as [| | |reply fail n]; try reflexivity.
      destruct reply; [reflexivity|]. destruct fail; reflexivity.
  - (* OHEmit *)
    destruct (o_cl og); injection Hex as <- <- <-; left; (split; [|exact Hr]).
    + reflexivity.
    + destruct fail; reflexivity.
  - (* OExit *)
    injection Hex as <- <- <-. cbn [loop_op] in Hop. apply outcome_okb_rel in Hop. destruct Hop as [Hrel Hne].
    right. exists (if via_senderror then 0 else 8).
    split; [destruct via_senderror; lia|]. split; [|split; [exact Hne|exact Hrel]].
    unfold exit_at. destruct via_senderror; cbn; repeat split; intros; try lia; try exact Hr.
Qed.

(* ---- the deadline context ---- *)

Lemma ctx_ok_setdeadline me m g : ctx_ok (i_setdeadline me m g).
Proof. destruct m; unfold ctx_ok; cbn; intros; auto; discriminate. Qed.

Lemma ctx_ok_fire j g : ctx_ok g -> ctx_ok (i_fire j g).
Proof.
  intro H. unfold i_fire. destruct (i_gen g) as [k|]; [|exact H].
  destruct (Nat.eqb k j && i_armed g); [|exact H].
  unfold ctx_ok in *. cbn. intros _. destruct (i_done g); auto.
Qed.

Lemma ctx_ok_step : forall s i s', ctx_ok (s_i s) -> step s i = Some s' -> ctx_ok (s_i s').
Proof.
  intros s i s' Hc H. destr_step H; try exact Hc; cbn [s_i];
    try apply ctx_ok_setdeadline; try (apply ctx_ok_fire; exact Hc);
    unfold ctx_ok in *; cbn; intros; auto; try discriminate.
  destruct (i_done (s_i s)); auto.
Qed.

(* ---- preservation ---- *)

Lemma exit_at_mono : forall n a s s', exit_at n a (s_o s) (s_i s) ->
  (o_cl (s_o s) = true -> o_cl (s_o s') = true) -> (i_cl (s_i s) = true -> i_cl (s_i s') = true) ->
  (o_cl (s_o s) = true /\ o_pend (s_o s) = false -> o_cl (s_o s') = true /\ o_pend (s_o s') = false) ->
  exit_at n a (s_o s') (s_i s').
Proof.
  intros n a s s' (H1 & H2 & H3 & H4 & H5 & H6) Ho Hi Hp. unfold exit_at. repeat split; auto.
  - apply Hp. apply H4. assumption.
  - apply Hp. apply H4. assumption.
Qed.

Lemma outcome_rel'_mono wf wf' c e : (wf = true -> wf' = true) -> outcome_rel' wf c e -> outcome_rel' wf' c e.
Proof. intros H [A|(A & B & C)]; [left; exact A|right; auto]. Qed.

Theorem CINV_step : forall s i s', CINV s -> step s i = Some s' -> CINV s'.
Proof.
  intros s i s' [Hctx Hall] Hstep. split; [exact (ctx_ok_step s i s' Hctx Hstep)|].
  destruct (step_mono s i s' Hstep) as (Mo & Mi & Mp & Mw).
  pose proof Hstep as Hinv. apply step_inv in Hinv.
  destruct Hinv as (o & k & og & ig & a' & Hcode & Hgate & Hex & ->).
  cbn [s_o s_i] in Mo, Mi, Mp, Mw.
  intro j. unfold closer_ok. cbn [s_a s_o s_i].
  destruct (Nat.eq_dec j i) as [->|Hn].
  - rewrite upd_same. rewrite (exec_role _ _ _ _ _ _ _ _ _ Hex).
    pose proof (Hall i) as Hi. unfold closer_ok in Hi.
    destruct (a_role (s_a s i)) eqn:Hrole; [exact I| |].
    + (* a Close caller *)
      destruct Hi as (n & Hn & He).
      assert (n < 17).
      { destruct (Nat.eq_dec n 17) as [->|]; [|lia]. destruct He as [Hc _]. cbn in Hc. congruence. }
      destruct (exit_step n i _ _ _ o k og ig a' He H Hcode Hex) as (n' & Hn' & He' & _ & _).
      exists n'. split; [lia|exact He'].
    + (* Serve *)
      destruct Hi as [[Hl Hr]|(n & Hn & He & Hc & Hrel)].
      * destruct (loop_step i _ _ _ o k og ig a' Hctx Hl Hr Hcode Hex) as [L|(n & Hn & He & Hc & Hrel)]; [left; exact L|].
        right. exists n. split; [exact Hn|]. split; [exact He|]. split; [exact Hc|left; exact Hrel].
      * assert (n < 17).
        { destruct (Nat.eq_dec n 17) as [->|]; [|lia]. destruct He as [Hc' _]. cbn in Hc'. congruence. }
        destruct (exit_step n i _ _ _ o k og ig a' He H Hcode Hex) as (n' & Hn' & He' & Ee & Ec).
        right. exists n'. split; [lia|]. split; [exact He'|]. rewrite Ec. split; [exact Hc|].
        destruct Ee as [Ee|[Ew Ee]].
        -- rewrite Ee. exact (outcome_rel'_mono _ _ _ _ Mw Hrel).
        -- right. split; [exact (Mw Ew)|]. split; [exact Hc|exact Ee].
  - rewrite upd_other by exact Hn.
    pose proof (Hall j) as Hj. unfold closer_ok in Hj.
    destruct (a_role (s_a s j)); [exact I| |].
    + destruct Hj as (n & Hn' & He). exists n. split; [exact Hn'|].
      exact (exit_at_mono n _ s (mkS og ig (upd (s_a s) i a')) He Mo Mi Mp).
    + destruct Hj as [Hl|(n & Hn' & He & Hc & Hrel)]; [left; exact Hl|].
      right. exists n. split; [exact Hn'|]. split; [|split; [exact Hc|exact (outcome_rel'_mono _ _ _ _ Mw Hrel)]].
      exact (exit_at_mono n _ s (mkS og ig (upd (s_a s) i a')) He Mo Mi Mp).
Qed.

Theorem CINV_run : forall ds ks tr s, run step (init ds ks) tr = Some s -> CINV s.
Proof.
  intros ds ks. apply (invariant_run state nat step CINV); [apply CINV_init|].
  intros s l s' H1 H2. exact (CINV_step s l s' H1 H2).
Qed.

(* ---- what holds when a closer has returned ---- *)

Lemma closer_returned : forall s i e, CINV s -> a_role (s_a s i) <> RPlain -> a_res (s_a s i) = Some e ->
  (o_cl (s_o s) = true /\ o_pend (s_o s) = false) /\ e = a_e (s_a s i) /\ a_code (s_a s i) = [].
Proof.
  intros s i e [_ Hall] Hrole Hres. pose proof (Hall i) as Hi. unfold closer_ok in Hi.
  assert (G : forall n, n <= 17 -> exit_at n (s_a s i) (s_o s) (s_i s) ->
              (o_cl (s_o s) = true /\ o_pend (s_o s) = false) /\ e = a_e (s_a s i) /\ a_code (s_a s i) = []).
  { intros n Hn (H1 & H2 & H3 & H4 & H5 & H6).
    destruct (Nat.eq_dec n 17) as [->|Hne].
    - split; [apply H4; lia|]. split; [rewrite (H6 eq_refl) in Hres; congruence|exact H1].
    - rewrite H5 in Hres by lia. discriminate. }
  destruct (a_role (s_a s i)); [congruence| |].
  - destruct Hi as (n & Hn & He). apply (G n); [lia|exact He].
  - destruct Hi as [[_ Hr]|(n & Hn & He & _)]; [congruence|]. exact (G n Hn He).
Qed.

Lemma serve_returned : forall s i e, CINV s -> a_role (s_a s i) = RServe -> a_res (s_a s i) = Some e ->
  (o_cl (s_o s) = true /\ o_pend (s_o s) = false) /\ i_cl (s_i s) = true /\
  a_cause (s_a s i) <> CNone /\ outcome_rel' (o_wfail (s_o s)) (a_cause (s_a s i)) e.
Proof.
  intros s i e HC Hrole Hres. pose proof HC as [_ Hall]. pose proof (Hall i) as Hi. unfold closer_ok in Hi.
  rewrite Hrole in Hi. destruct Hi as [[_ Hr]|(n & Hn & (H1 & H2 & H3 & H4 & H5 & H6) & Hc & Hrel)]; [congruence|].
  destruct (Nat.eq_dec n 17) as [->|Hne].
  - rewrite (H6 eq_refl) in Hres. injection Hres as <-.
    split; [apply H4; lia|]. split; [apply H2; [lia|exact Hrole]|]. split; assumption.
  - rewrite H5 in Hres by lia. discriminate.
Qed.
