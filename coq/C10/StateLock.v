(* C10/StateLock.v — the state mutex (s.stateMutex).

   In the repaired code every critical section of the state mutex is a handful
   of assignments (closeSession's test-and-set, closeInputStream,
   SetCloseDeadline, the readers' tests): no write to the connection, no yield
   point, no other lock is taken inside (gen/SessClose.v:
   sc_statelock_blocking_calls = []).  The model therefore performs each of
   them as one operation, enabled when the mutex is free ([gate], reads_state),
   and no program of the model holds the mutex across steps.

   Theorems: the mutex is free in every reachable state, so no operation that
   needs the session state is ever blocked by it — in particular not while a
   write to a peer that does not read is pending; Serve's loop top and read are
   enabled whatever the writers do.  The pinned design (Close and sendError
   kept the mutex while writing the closing tag) is refuted by a witness: a
   reachable state in which Close waits for the peer, holding the mutex, and
   Serve, with input pending, waits for the mutex. *)
From XV Require Import lib.Bytes lib.Lts gen.SessClose C10.Model C10.Inv C10.Proofs.

Definition no_slock_op (o : op) : bool := match o with OSLock => false | _ => true end.

Definition nosl (code : list op) : bool := forallb no_slock_op code.

Definition SLF (s : state) : Prop := o_sl (s_o s) = None /\ forall j, nosl (a_code (s_a s j)) = true.

Lemma nosl_programs : forall k, nosl (prog_of k) = true.
Proof.
  destruct k as [|n|n|n|n|n|m|j|evs| | |b|]; try reflexivity.
  - cbn [prog_of]. induction evs as [|e evs IH]; [reflexivity|exact IH].
Qed.

Lemma nosl_skip : forall k, nosl k = true -> nosl (skip_to_unlock k) = true.
Proof.
  induction k as [|o k IH]; intro H; [reflexivity|].
  pose proof H as H0. unfold nosl in H. cbn [forallb] in H. apply andb_prop in H. destruct H as [Ho Hk].
  destruct o; cbn [skip_to_unlock]; try (apply IH; exact Hk). exact H0.
Qed.

Lemma SLF_init : forall ds ks, SLF (init ds ks).
Proof.
  intros ds ks. split; [reflexivity|]. intro j. cbn.
  destruct (nth_error ks j) as [k|]; cbn; [apply nosl_programs|reflexivity].
Qed.

Theorem SLF_step : forall s i s', SLF s -> step s i = Some s' -> SLF s'.
Proof.
  intros s i s' [Hsl Hall] Hstep.
  apply step_inv in Hstep. destruct Hstep as (o & k & og & ig & a' & Hcode & Hgate & Hex & ->).
  pose proof (Hall i) as Hi. rewrite Hcode in Hi.
  pose proof Hi as Hi0. unfold nosl in Hi. cbn [forallb] in Hi. apply andb_prop in Hi. destruct Hi as [Ho Hk].
  assert (G : o_sl og = None /\ nosl (a_code a') = true).
  { destruct o; cbn in Ho; try discriminate Ho; cbn [exec] in Hex;
      repeat match type of Hex with
             | context [match ?x with _ => _ end] => destruct x eqn:?; try discriminate
             end;
      injection Hex as <- <- <-;
      try match goal with |- context [first_err] => unfold first_err; destruct (a_e (set_code (s_a s i) k)) end;
      cbn [a_code set_code set_e set_chk set_res set_exit o_sl o_emit o_flush o_setlock o_setsl o_setrdy];
      try (split; [exact Hsl|exact Hk]); try (split; [exact Hsl|apply nosl_skip; exact Hk]);
      try (split; [exact Hsl|reflexivity]).
    all: try (split; [first [exact Hsl|reflexivity|unfold o_mark; destruct (o_cl (s_o s)); exact Hsl|unfold o_writetag; destruct (o_pend (s_o s)); exact Hsl]|]);
         try exact Hk; repeat match goal with |- context [if ?b then _ else _] => destruct b end; try reflexivity. }
  destruct G as [G1 G2]. split; [exact G1|].
  intro j. cbn [s_a]. destruct (Nat.eq_dec j i) as [->|Hn]; [rewrite upd_same; exact G2|rewrite upd_other by exact Hn; apply Hall].
Qed.

Theorem SLF_run : forall ds ks tr s, run step (init ds ks) tr = Some s -> SLF s.
Proof.
  intros ds ks. apply (invariant_run state nat step SLF); [apply SLF_init|].
  intros s l s' H1 H2. exact (SLF_step s l s' H1 H2).
Qed.

(* ---- consequences ---- *)

(* nobody holds the state mutex across steps *)
Theorem state_lock_free : forall ds ks tr s,
  run step (init ds ks) tr = Some s -> o_sl (s_o s) = None.
Proof. intros ds ks tr s H. exact (proj1 (SLF_run ds ks tr s H)). Qed.

(* the gate of an operation that needs the session state is open whenever the
   operation does not itself write to the connection: reading the state never
   waits, whatever write is pending and whoever holds the output lock *)
Theorem state_reads_never_blocked : forall ds ks tr s i o,
  run step (init ds ks) tr = Some s ->
  reads_state o = true -> writes_conn o (s_o s) = false -> gate i o (s_o s) = true.
Proof.
  intros ds ks tr s i o H Hr Hw. unfold gate, sl_ok.
  rewrite (state_lock_free ds ks tr s H), Hw. rewrite orb_true_r. reflexivity.
Qed.

(* Serve's state reads: the top of its loop (the input context) and its token
   reader (the InputStreamClosed test, then the read) are enabled in every
   reachable state — even if the peer is not reading and a closer is stuck in
   its write holding the output lock *)
Theorem serve_reads_enabled : forall ds ks tr s i k,
  run step (init ds ks) tr = Some s ->
  (a_code (s_a s i) = OServeTop :: k -> exists s', step s i = Some s') /\
  (a_code (s_a s i) = OServeRead :: k -> i_rdexp (s_i s) = true \/ i_q (s_i s) <> [] ->
     exists s', step s i = Some s').
Proof.
  intros ds ks tr s i k H. pose proof (state_lock_free ds ks tr s H) as Hsl. split.
  - intro Hc. unfold step. rewrite Hc. unfold gate, sl_ok. rewrite Hsl. cbn.
    destruct (i_done (s_i s)); eexists; reflexivity.
  - intros Hc Hin. unfold step. rewrite Hc. unfold gate, sl_ok. rewrite Hsl. cbn.
    destruct (i_rdexp (s_i s)); [eexists; reflexivity|].
    destruct Hin as [Hin|Hin]; [discriminate|].
    destruct (i_q (s_i s)) as [|ev q]; [congruence|]. eexists. reflexivity.
Qed.

(* ---- the pinned design ---- *)

(* Close as it was: the state mutex is taken right after the output lock and
   released when the function returns, the closing tag is written in between
   (the yield point close.locked was inside both locks) *)
Definition pinned_close_code : list op :=
  [OYield PCloseEnter; OLock; OSLock; OYield PCloseLocked; OMark; OWriteTag false; OSUnlock; OUnlock; ORet].

(* Serve, a Close caller (pinned), a peer that sends an element, and the peer's
   reading side stalling *)
Definition pinned_kinds : list kind := [KServe; KClose; KPeer [PElem false false 2]; KStall true].

Definition pinned_init : state :=
  let s := init true pinned_kinds in
  mkS (s_o s) (s_i s) (upd (s_a s) 1 (mkA pinned_close_code ENil None false CNone RCloser)).

(* the peer stops reading; Serve reaches its read; Close takes both locks, sets
   the bit and reaches its write; the peer's element arrives *)
Definition pinned_trace : list nat := [3; 3; 0; 0; 0; 1; 1; 1; 1; 1; 2; 2].

Definition statelock_statement (init0 : state) : Prop :=
  forall tr s i k, run step init0 tr = Some s ->
    a_code (s_a s i) = OServeRead :: k -> i_q (s_i s) <> [] -> exists s', step s i = Some s'.

Lemma pinned_witness : exists s, run step pinned_init pinned_trace = Some s /\
  o_rdy (s_o s) = false /\ o_lock (s_o s) = Some 1 /\ o_sl (s_o s) = Some 1 /\
  o_cl (s_o s) = true /\ o_pend (s_o s) = true /\
  hd_error (a_code (s_a s 1)) = Some (OWriteTag false) /\ step s 1 = None /\
  a_code (s_a s 0) = [OServeRead] /\ i_q (s_i s) = [PElem false false 2] /\ step s 0 = None.
Proof. vm_compute. eexists. repeat split; reflexivity. Qed.

Theorem statelock_pinned_refuted : ~ statelock_statement pinned_init.
Proof.
  intro H. destruct pinned_witness as (s & Hr & _ & _ & _ & _ & _ & _ & _ & Hc & Hq & Hs).
  destruct (H pinned_trace s 0 [] Hr Hc) as [s' Hs']; [rewrite Hq; discriminate|congruence].
Qed.

(* the same schedule with the repaired Close: Serve reads *)
Theorem statelock_repaired : forall ds ks, statelock_statement (init ds ks).
Proof.
  intros ds ks tr s i k Hr Hc Hq.
  exact (proj2 (serve_reads_enabled ds ks tr s i k Hr) Hc (or_intror Hq)).
Qed.

Lemma repaired_same_schedule : exists s, run step (init true pinned_kinds) [3; 3; 0; 0; 0; 1; 1; 1; 1; 2; 2] = Some s /\
  o_rdy (s_o s) = false /\ o_lock (s_o s) = Some 1 /\ o_sl (s_o s) = None /\ o_pend (s_o s) = true /\
  step s 1 = None /\ exists s', step s 0 = Some s'.
Proof. vm_compute. eexists. repeat split; try reflexivity. eexists. reflexivity. Qed.
