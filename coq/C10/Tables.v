(* C10/Tables.v — the facts of session.go that the model's programs rely on,
   read from the source by the translator (gen/SessClose.v) on every run.
   A source edit that removes a closed-bit test, adds a function that takes
   the output lock or touches the encoder, or reorders Serve's shutdown makes
   one of these lemmas fail. *)
From XV Require Import lib.Bytes gen.SessClose gen.Serve C10.Model.

(* exactly these take the output lock: each is an actor kind of the model
   (Close: KClose; Encode: KEncode/KEncodeNF; EncodeElement; TokenWriter:
   KTokenWriter and the handler's reply; sendError: Serve's exit; send: KSend) *)
Lemma tbl_out_lockers :
  sc_out_lockers = map str ["Session.Close"; "Session.Encode"; "Session.EncodeElement";
                            "Session.TokenWriter"; "Session.sendError"; "send"]%string.
Proof. vm_compute. reflexivity. Qed.

(* every one of them tests the closed bit after taking the lock; TokenWriter
   leaves the test to the writer's EncodeToken and Flush *)
Lemma tbl_guards :
  forallb (fun n => mem_name n sc_out_lockers_guarded || bytes_eqb n (str "Session.TokenWriter")) sc_out_lockers = true /\
  sc_tw_encodetoken_tests_closed = true /\ sc_tw_flush_tests_closed = true /\
  send_guarded = true /\ encode_guarded = true /\ encodeelement_guarded = true.
Proof. vm_compute. repeat split; reflexivity. Qed.

Lemma tbl_setters :
  sc_sets_output_closed = [str "Session.closeSession"] /\
  sc_sets_input_closed = [str "Session.closeInputStream"] /\
  sc_closesession_callers = map str ["Session.Close"; "Session.sendError"]%string.
Proof. vm_compute. repeat split; reflexivity. Qed.

(* the output encoder is reached only from modelled code (and from the
   negotiation, before the session is Ready) *)
Lemma tbl_encoder_users :
  sc_encoder_users = map str ["Session.Encode"; "Session.EncodeElement"; "Session.sendError";
                              "lockWriteCloser.EncodeToken"; "lockWriteCloser.Flush";
                              "negotiateSession"; "send"]%string.
Proof. vm_compute. reflexivity. Qed.

Lemma tbl_serve_defer : sc_serve_defer_calls = map str ["closeInputStream"; "Close"]%string.
Proof. vm_compute. reflexivity. Qed.

Lemma tbl_reader_and_deadline : sc_tr_token_tests_closed = true /\ sc_setclosedeadline_locked = true.
Proof. vm_compute. split; reflexivity. Qed.

Lemma tbl_bits : N.land sc_output_closed sc_input_closed = 0%N /\ sc_output_closed <> 0%N /\ sc_input_closed <> 0%N.
Proof. vm_compute. repeat split; discriminate. Qed.

Lemma tbl_close_tags : sc_close_tag = str "</stream:stream>" /\
  sc_close_ws_tag = str "<close xmlns=""urn:ietf:params:xml:ns:xmpp-framing""/>" /\
  sc_send_records_opening_element = true.
Proof. vm_compute. repeat split; reflexivity. Qed.

(* WebSocket framing: the negotiator tells the session which framing it uses,
   and the stream reader takes the peer's <close/> for the end of the stream:
   the model's PClose / IClose stand for <close/> in both directions there *)
Lemma tbl_ws_framing : sc_negotiator_records_ws = true /\ sc_reader_ws_close_is_eof = true.
Proof. vm_compute. split; reflexivity. Qed.

(* the critical sections of the state mutex contain no call that can block (no
   write to the connection or into the encoder, no read, no other lock, no yield
   point): the model may perform each of them as a single operation, and nobody
   holds the mutex while waiting for the peer *)
Lemma tbl_statelock : sc_statelock_blocking_calls = [].
Proof. vm_compute. reflexivity. Qed.

(* SetCloseDeadline replaces the deadline: the new input context is built from
   context.Background() — not derived from the one it replaces, whose deadline
   would otherwise stay in force for ever —, the previous one is cancelled, and
   the zero time means no deadline (as for the connection's read deadline) *)
Lemma tbl_setdeadline : sc_setclosedeadline_fresh_context = true /\
  sc_setclosedeadline_cancels_previous = true /\ sc_setclosedeadline_zero_is_no_deadline = true.
Proof. vm_compute. repeat split; reflexivity. Qed.

(* Serve's loop (session.go; the first fact is read by the translator section
   Serve, shared with C08): the peer's close is recognised by comparing the
   error of handleInputStream with io.EOF itself — an error that merely wraps
   io.EOF (a handler's, say) goes to sendError like any other, which is what
   OExit EHandler CHandler says —; and the input context in force is read
   afresh at every turn of the loop (OServeTop), not once before it: a context
   replaced by SetCloseDeadline while Serve runs is never looked at again *)
Lemma tbl_serve_loop : sv_serve_eof_identity = true /\ sc_serve_reads_context_every_turn = true.
Proof. vm_compute. split; reflexivity. Qed.

(* closeSession: the bit is tested and set in one critical section of the state
   mutex that ends before the closing element is written (OMark, then
   OWriteTag): closing is final even when the connection refuses the write, and
   there is never a second write attempt *)
Lemma tbl_closesession_order : sc_closesession_sets_bit_before_write = true.
Proof. vm_compute. reflexivity. Qed.

(* the transport's deadlines, which the model abstracts (a transmit call leaves
   the connection writable; SetCloseDeadline arms the reads of the underlying
   connection): setWriteDeadline clears the write deadline in the very select
   arm that expired it, and newConn looks the deadline methods up on the
   previous (underlying) connection when a plain io.ReadWriter is layered over it *)
Lemma tbl_transport_deadlines :
  sc_writedeadline_cleared_where_expired = true /\ sc_newconn_deadlines_from_prev = true.
Proof. vm_compute. split; reflexivity. Qed.
