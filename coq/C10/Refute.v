(* C10/Refute.v — the faithful model does NOT put the stream error that
   sendError encodes on the wire: witness (known finding, session.go sendError
   does not flush before closeSession writes the closing tag directly). *)
From XV Require Import lib.Bytes lib.Lts gen.SessClose C10.Model C10.Inv C10.Proofs.

(* what one would expect of sendError: whenever nobody is writing, no stream
   error is stuck in the encoder buffer *)
Definition stream_error_flushed_statement : Prop :=
  forall ds ks tr s, run step (init ds ks) tr = Some s ->
    o_lock (s_o s) = None -> ~ In IErr (o_buf (s_o s)).

(* Serve, and a peer whose element makes the handler fail *)
Definition witness_kinds : list kind := [KServe; KPeer [PElem false true 1]].
Definition witness_trace : list nat := [1; 1] ++ repeat 0 24.

Lemma witness_runs : exists s, run step (init true witness_kinds) witness_trace = Some s /\
  o_lock (s_o s) = None /\ o_buf (s_o s) = [IErr] /\ o_wire (s_o s) = [IClose] /\
  a_res (s_a s 0) = Some EHandler /\ o_cl (s_o s) = true /\ i_cl (s_i s) = true.
Proof. vm_compute. eexists. repeat split; reflexivity. Qed.

Theorem stream_error_flushed_refuted : ~ stream_error_flushed_statement.
Proof.
  intro H. destruct witness_runs as (s & Hr & Hl & Hb & _).
  apply (H true witness_kinds witness_trace s Hr Hl). rewrite Hb. left. reflexivity.
Qed.

(* what does hold: a stream error is never written behind the closing tag
   (nothing is), and once the stream is closed the buffer is never flushed *)
Theorem stream_error_never_after_close : forall ds ks tr s pre post,
  run step (init ds ks) tr = Some s -> o_wire (s_o s) = pre ++ IClose :: post -> ~ In IErr post.
Proof.
  intros ds ks tr s pre post Hr E.
  destruct (INV_run ds ks tr s Hr) as [Hw _].
  destruct (wire_ok_count _ Hw) as (_ & _ & _ & _ & H). rewrite (H pre post E). intros [].
Qed.
