(* C10/Proofs.v — consequences of the invariant: one closing tag, nothing after
   it, transmit calls after Close, and the source tables. *)
From XV Require Import lib.Bytes lib.Lts gen.SessClose C10.Model C10.Inv.

(* case analysis of one step: one goal per operation and branch *)
Lemma step_inv : forall s i s', step s i = Some s' ->
  exists o k og ig a', a_code (s_a s i) = o :: k /\
    gate i o (s_o s) = true /\
    exec i o k (s_o s) (s_i s) (s_a s i) = Some (og, ig, a') /\
    s' = mkS og ig (upd (s_a s) i a').
Proof.
  intros s i s' H. unfold step in H.
  destruct (a_code (s_a s i)) as [|o k]; [discriminate|].
  destruct (gate i o (s_o s)) eqn:G; [|discriminate].
  destruct (exec i o k (s_o s) (s_i s) (s_a s i)) as [[[og ig] a']|] eqn:E; [|discriminate].
  injection H as <-. exists o, k, og, ig, a'. auto.
Qed.

Ltac destr_step H :=
  let o := fresh "o" in let k := fresh "k" in let og := fresh "og" in let ig := fresh "ig" in
  let a' := fresh "a'" in let Hcode := fresh "Hcode" in let Hex := fresh "Hex" in let Hgate := fresh "Hgate" in
  apply step_inv in H; destruct H as (o & k & og & ig & a' & Hcode & Hgate & Hex & ->);
  destruct o; cbn [exec] in Hex;
  repeat match type of Hex with
         | context [match ?x with _ => _ end] => destruct x eqn:?; try discriminate
         end;
  injection Hex as <- <- <-.

(* the deadline operations leave the closed bit, the input lock and the queue alone *)
Lemma i_setdeadline_keeps me m g :
  i_cl (i_setdeadline me m g) = i_cl g /\ i_lk (i_setdeadline me m g) = i_lk g /\ i_q (i_setdeadline me m g) = i_q g.
Proof. destruct m; cbn; auto. Qed.

Lemma i_fire_keeps j g :
  i_cl (i_fire j g) = i_cl g /\ i_lk (i_fire j g) = i_lk g /\ i_q (i_fire j g) = i_q g.
Proof.
  unfold i_fire. destruct (i_gen g) as [k|]; [|auto].
  destruct (Nat.eqb k j && i_armed g); cbn; auto.
Qed.

(* ---- the closed bits only ever get set; a closing that is complete (bit set,
        tag written) stays complete ---- *)

Lemma step_mono : forall s i s', step s i = Some s' ->
  (o_cl (s_o s) = true -> o_cl (s_o s') = true) /\ (i_cl (s_i s) = true -> i_cl (s_i s') = true) /\
  (o_cl (s_o s) = true /\ o_pend (s_o s) = false -> o_cl (s_o s') = true /\ o_pend (s_o s') = false) /\
  (o_wfail (s_o s) = true -> o_wfail (s_o s') = true).
Proof.
  intros s i s' H. destr_step H; cbn;
    rewrite ?(proj1 (i_setdeadline_keeps _ _ _)), ?(proj1 (i_fire_keeps _ _));
    (split; [|split; [|split]]); auto; try (intros; apply o_mark_cl); try congruence;
    try (unfold o_mark; destruct (o_cl (s_o s)); cbn; auto; fail);
    try (unfold o_writetag; destruct (o_pend (s_o s)); cbn; auto; fail).
  all: intros [A B]; first [unfold o_mark; rewrite A; auto | unfold o_writetag; rewrite B; auto].
Qed.

Lemma run_mono : forall tr s s', run step s tr = Some s' ->
  (o_cl (s_o s) = true -> o_cl (s_o s') = true) /\ (i_cl (s_i s) = true -> i_cl (s_i s') = true) /\
  (o_cl (s_o s) = true /\ o_pend (s_o s) = false -> o_cl (s_o s') = true /\ o_pend (s_o s') = false) /\
  (o_wfail (s_o s) = true -> o_wfail (s_o s') = true).
Proof.
  induction tr as [|l tr IH]; intros s s' H; cbn [run] in H.
  - injection H as <-. auto.
  - destruct (step s l) as [s1|] eqn:E; [|discriminate].
    destruct (step_mono s l s1 E) as (A & B & C & D). destruct (IH s1 s' H) as (A' & B' & C' & D').
    split; [auto|]. split; [auto|]. split; auto.
Qed.

(* ---- once the stream is closed the encoder buffer is never written again,
        and the only thing that still reaches the connection is the closing tag
        owed by the call that set the bit ---- *)

Definition tag_only (o o' : outg) : Prop :=
  (o_wire o' = o_wire o /\ o_pend o' = o_pend o) \/
  (o_pend o = true /\ o_pend o' = false /\
   (o_wire o' = o_wire o ++ [IClose] \/ o_wire o' = o_wire o (* the connection refused the tag *))).

Lemma step_frozen : forall s i s', INV s -> o_cl (s_o s) = true -> step s i = Some s' ->
  o_buf (s_o s') = o_buf (s_o s) /\ o_cl (s_o s') = true /\ tag_only (s_o s) (s_o s').
Proof.
  intros s i s' HI Hcl H. pose proof HI as [_ Ha]. destruct (Ha i) as [Hsafe Hchk].
  destr_step H; unfold tag_only; cbn; try rewrite Hcl; auto; try congruence.
  - (* OEmit *) rewrite Hcode in Hsafe. apply safe_emit in Hsafe. destruct Hsafe as (_ & Hc & _).
    destruct (Hchk Hc). congruence.
  - (* OFlush *) rewrite Hcode in Hsafe. apply safe_flush in Hsafe. destruct Hsafe as (_ & Hc & _).
    destruct (Hchk Hc). congruence.
  - first [ unfold o_mark; rewrite Hcl; auto; fail
          | unfold o_writetag; destruct (o_pend (s_o s)) eqn:Hp; cbn; auto;
            (split; [reflexivity|]); (split; [exact Hcl|]); right; destruct (o_wfail (s_o s)); auto ].
  - first [ unfold o_mark; rewrite Hcl; auto; fail
          | unfold o_writetag; destruct (o_pend (s_o s)) eqn:Hp; cbn; auto;
            (split; [reflexivity|]); (split; [exact Hcl|]); right; destruct (o_wfail (s_o s)); auto ].
  - first [ unfold o_mark; rewrite Hcl; auto; fail
          | unfold o_writetag; destruct (o_pend (s_o s)) eqn:Hp; cbn; auto;
            (split; [reflexivity|]); (split; [exact Hcl|]); right; destruct (o_wfail (s_o s)); auto ].
  - first [ unfold o_mark; rewrite Hcl; auto; fail
          | unfold o_writetag; destruct (o_pend (s_o s)) eqn:Hp; cbn; auto;
            (split; [reflexivity|]); (split; [exact Hcl|]); right; destruct (o_wfail (s_o s)); auto ].
Qed.

Lemma run_frozen : forall tr s s', INV s -> o_cl (s_o s) = true -> run step s tr = Some s' ->
  o_buf (s_o s') = o_buf (s_o s) /\ tag_only (s_o s) (s_o s').
Proof.
  induction tr as [|l tr IH]; intros s s' HI Hcl H; cbn [run] in H.
  - injection H as <-. split; [reflexivity|left; auto].
  - destruct (step s l) as [s1|] eqn:E; [|discriminate].
    destruct (step_frozen s l s1 HI Hcl E) as (A & B & C).
    destruct (IH s1 s' (INV_step s l s1 HI E) B H) as [D F]. split; [congruence|].
    unfold tag_only in *.
    destruct C as [[C1 C2]|(C1 & C2 & C3)]; destruct F as [[F1 F2]|(F1 & F2 & F3)].
    + left. split; congruence.
    + right. split; [congruence|]. split; [exact F2|]. rewrite <- C1. exact F3.
    + right. split; [exact C1|]. split; [congruence|]. rewrite F1. exact C3.
    + congruence.
Qed.

Lemma run_INV : forall tr s s', INV s -> run step s tr = Some s' -> INV s'.
Proof.
  induction tr as [|l tr IH]; intros s s' HI H; cbn [run] in H.
  - injection H as <-. exact HI.
  - destruct (step s l) as [s1|] eqn:E; [|discriminate].
    exact (IH s1 s' (INV_step s l s1 HI E) H).
Qed.

(* ---- counting closing tags ---- *)

Definition closes (l : list item) : nat := length (filter is_close l).

Lemma closes_app a b : closes (a ++ b) = closes a + closes b.
Proof. unfold closes. rewrite filter_app, app_length. reflexivity. Qed.

Lemma closes_none l : ~ In IClose l -> closes l = 0.
Proof.
  induction l as [|x l IH]; intro H; [reflexivity|]. unfold closes. cbn.
  destruct x; cbn; try (apply IH; intro; apply H; right; assumption).
  exfalso. apply H. left. reflexivity.
Qed.

Lemma last_unique {A} (x : A) : forall pre p q, pre ++ [x] = p ++ x :: q -> ~ In x pre -> q = [].
Proof.
  induction pre as [|a pre IH]; intros p q E Hn.
  - destruct p as [|y p]; cbn in E.
    + injection E as <-. reflexivity.
    + injection E as _ E. destruct p; discriminate E.
  - destruct p as [|y p]; cbn in E.
    + injection E as E _. exfalso. apply Hn. left. exact E.
    + injection E as _ E. apply (IH p q E). intro H. apply Hn. right. exact H.
Qed.

Lemma wire_ok_count o : wire_ok o ->
  o_att o <= 1 /\ closes (o_wire o) <= o_att o /\
  (o_att o = 1 <-> o_cl o = true /\ o_pend o = false) /\
  (o_wfail o = false -> closes (o_wire o) = o_att o) /\
  (forall pre post, o_wire o = pre ++ IClose :: post -> post = []).
Proof.
  intros (H1 & H2 & _). destruct (o_cl o) eqn:Hcl.
  - specialize (H2 eq_refl). destruct (o_pend o) eqn:Hp.
    + destruct H2 as [Hw Ha]. rewrite (closes_none _ Hw), Ha. split; [lia|]. split; [lia|].
      split; [split; [discriminate|intros [_ E]; discriminate]|]. split; [reflexivity|].
      intros p q E. exfalso. apply Hw. rewrite E. apply in_or_app. right. left. reflexivity.
    + destruct H2 as (Ha & Hl & Hf). rewrite Ha. split; [lia|].
      destruct Hl as [Hn|(pre & Hw & Hn)].
      * rewrite (closes_none _ Hn). split; [lia|]. split; [tauto|]. split.
        -- intro E. exfalso. exact (Hn (Hf E)).
        -- intros p q E. exfalso. apply Hn. rewrite E. apply in_or_app. right. left. reflexivity.
      * rewrite Hw, closes_app, (closes_none pre Hn). cbn. split; [lia|]. split; [tauto|]. split; [reflexivity|].
        intros p q E. exact (last_unique IClose pre p q E Hn).
  - destruct (H1 eq_refl) as (Hw & Hp & Ha). rewrite (closes_none _ Hw), Ha. split; [lia|]. split; [lia|].
    split; [split; [discriminate|intros [E _]; discriminate]|]. split; [reflexivity|].
    intros p q E. exfalso. apply Hw. rewrite E. apply in_or_app. right. left. reflexivity.
Qed.
