(* C10/Proofs.v — consequences of the invariant: one closing tag, nothing after
   it, transmit calls after Close, and the source tables. *)
From XV Require Import lib.Bytes lib.Lts gen.SessClose C10.Model C10.Inv.

(* case analysis of one step: one goal per operation and branch *)
Lemma step_inv : forall s i s', step s i = Some s' ->
  exists o k og ig a', a_code (s_a s i) = o :: k /\
    exec i o k (s_o s) (s_i s) (s_a s i) = Some (og, ig, a') /\
    s' = mkS og ig (upd (s_a s) i a').
Proof.
  intros s i s' H. unfold step in H.
  destruct (a_code (s_a s i)) as [|o k]; [discriminate|].
  destruct (exec i o k (s_o s) (s_i s) (s_a s i)) as [[[og ig] a']|] eqn:E; [|discriminate].
  injection H as <-. exists o, k, og, ig, a'. auto.
Qed.

Ltac destr_step H :=
  let o := fresh "o" in let k := fresh "k" in let og := fresh "og" in let ig := fresh "ig" in
  let a' := fresh "a'" in let Hcode := fresh "Hcode" in let Hex := fresh "Hex" in
  apply step_inv in H; destruct H as (o & k & og & ig & a' & Hcode & Hex & ->);
  destruct o; cbn [exec] in Hex;
  repeat match type of Hex with
         | context [match ?x with _ => _ end] => destruct x eqn:?; try discriminate
         end;
  injection Hex as <- <- <-.

(* ---- the closed bits only ever get set ---- *)

Lemma step_mono : forall s i s', step s i = Some s' ->
  (o_cl (s_o s) = true -> o_cl (s_o s') = true) /\ (i_cl (s_i s) = true -> i_cl (s_i s') = true).
Proof.
  intros s i s' H. destr_step H; cbn; split; auto; intros; try apply o_close_cl; try congruence.
Qed.

Lemma run_mono : forall tr s s', run step s tr = Some s' ->
  (o_cl (s_o s) = true -> o_cl (s_o s') = true) /\ (i_cl (s_i s) = true -> i_cl (s_i s') = true).
Proof.
  induction tr as [|l tr IH]; intros s s' H; cbn [run] in H.
  - injection H as <-. auto.
  - destruct (step s l) as [s1|] eqn:E; [|discriminate].
    destruct (step_mono s l s1 E) as [A B]. destruct (IH s1 s' H) as [C D]. split; auto.
Qed.

(* ---- once the stream is closed neither the connection nor the encoder buffer
        is written again ---- *)

Lemma step_frozen : forall s i s', INV s -> o_cl (s_o s) = true -> step s i = Some s' ->
  o_wire (s_o s') = o_wire (s_o s) /\ o_buf (s_o s') = o_buf (s_o s) /\ o_cl (s_o s') = true.
Proof.
  intros s i s' HI Hcl H. pose proof HI as [_ Ha]. destruct (Ha i) as [Hsafe Hchk].
  destr_step H; cbn; try rewrite Hcl; auto; try congruence.
  - (* OEmit *) rewrite Hcode in Hsafe. apply safe_emit in Hsafe. destruct Hsafe as (_ & Hc & _).
    destruct (Hchk Hc). congruence.
  - (* OFlush *) rewrite Hcode in Hsafe. apply safe_flush in Hsafe. destruct Hsafe as (_ & Hc & _).
    destruct (Hchk Hc). congruence.
  - (* OCloseSession *) unfold o_close. rewrite Hcl. auto.
Qed.

Lemma run_frozen : forall tr s s', INV s -> o_cl (s_o s) = true -> run step s tr = Some s' ->
  o_wire (s_o s') = o_wire (s_o s) /\ o_buf (s_o s') = o_buf (s_o s).
Proof.
  induction tr as [|l tr IH]; intros s s' HI Hcl H; cbn [run] in H.
  - injection H as <-. auto.
  - destruct (step s l) as [s1|] eqn:E; [|discriminate].
    destruct (step_frozen s l s1 HI Hcl E) as (A & B & C).
    destruct (IH s1 s' (INV_step s l s1 HI E) C H) as [D F]. split; congruence.
Qed.

Lemma run_INV : forall tr s s', INV s -> run step s tr = Some s' -> INV s'.
Proof.
  induction tr as [|l tr IH]; intros s s' HI H; cbn [run] in H.
  - injection H as <-. exact HI.
  - destruct (step s l) as [s1|] eqn:E; [|discriminate].
    exact (IH s1 s' (INV_step s l s1 HI E) H).
Qed.

(* ---- counting closing tags ---- *)

Definition closes (l : list item) : nat := length (filter is_close l).

Lemma closes_app a b : closes (a ++ b) = closes a + closes b.
Proof. unfold closes. rewrite filter_app, app_length. reflexivity. Qed.

Lemma closes_none l : ~ In IClose l -> closes l = 0.
Proof.
  induction l as [|x l IH]; intro H; [reflexivity|]. unfold closes. cbn.
  destruct x; cbn; try (apply IH; intro; apply H; right; assumption).
  exfalso. apply H. left. reflexivity.
Qed.

Lemma last_unique {A} (x : A) : forall pre p q, pre ++ [x] = p ++ x :: q -> ~ In x pre -> q = [].
Proof.
  induction pre as [|a pre IH]; intros p q E Hn.
  - destruct p as [|y p]; cbn in E.
    + injection E as <-. reflexivity.
    + injection E as _ E. destruct p; discriminate E.
  - destruct p as [|y p]; cbn in E.
    + injection E as E _. exfalso. apply Hn. left. exact E.
    + injection E as _ E. apply (IH p q E). intro H. apply Hn. right. exact H.
Qed.

Lemma wire_ok_count o : wire_ok o ->
  closes (o_wire o) <= 1 /\ (o_cl o = true <-> closes (o_wire o) = 1) /\
  (forall pre post, o_wire o = pre ++ IClose :: post -> post = []).
Proof.
  intros (H1 & H2 & _). destruct (o_cl o) eqn:Hcl.
  - destruct (H2 eq_refl) as (pre & Hw & Hn). rewrite Hw, closes_app, (closes_none pre Hn). cbn.
    split; [lia|]. split; [tauto|].
    intros p q E. exact (last_unique IClose pre p q E Hn).
  - rewrite (closes_none _ (H1 eq_refl)). split; [lia|]. split; [split; intro; discriminate|].
    intros p q E. exfalso. apply (H1 eq_refl). rewrite E. apply in_or_app. right. left. reflexivity.
Qed.
