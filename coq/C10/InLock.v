(* C10/InLock.v — the input lock (s.in.Locker): it is held by at most one
   actor, exactly by the one whose remaining code still owes the release; only
   Serve ever takes it across steps.  Used by Progress.v to show that Serve's
   shutdown (closeInputStream needs the input lock) is never blocked. *)
From XV Require Import lib.Bytes lib.Lts gen.SessClose C10.Model C10.Inv C10.Proofs C10.Closers.

(* what an operation tells about the input lock: Some true — the actor holds
   it; Some false — it does not; None — nothing *)
Definition in_rel (o : op) : option bool :=
  match o with
  | ORelIn | OServeRead | OHEmit _ _ => Some true
  | OAcqIn | OServeTop | OExit _ _ _ | OCloseInput | OProbe => Some false
  | _ => None
  end.

Fixpoint owes (code : list op) : bool :=
  match code with
  | [] => false
  | o :: k => match in_rel o with Some b => b | None => owes k end
  end.

Definition plain (o : op) : bool := match in_rel o with None => true | _ => false end.

(* everything a failed closed-bit test jumps over is plain *)
Fixpoint plain_to_unlock (k : list op) : bool :=
  match k with
  | [] => true
  | OUnlock :: _ => true
  | o :: r => plain o && plain_to_unlock r
  end.

Fixpoint insafe (hi : bool) (code : list op) : bool :=
  match code with
  | [] => negb hi
  | o :: k =>
      match o with
      | OAcqIn => negb hi && insafe true k
      | ORelIn => hi && insafe false k
      | OServeRead | OHEmit _ _ => hi
      | OServeTop | OExit _ _ _ => negb hi
      | OCloseInput | OProbe => negb hi && insafe hi k
      | OChk | OTest => plain_to_unlock k && insafe hi k
      | _ => insafe hi k
      end
  end.

Lemma insafe_owes : forall code hi, insafe hi code = true -> owes code = hi.
Proof.
  induction code as [|o k IH]; intros hi H; cbn in *.
  - destruct hi; [discriminate|reflexivity].
  - destruct o; cbn in *; rewrite ?andb_true_iff, ?negb_true_iff in H;
      try (apply IH; tauto); try tauto; try (destruct H; congruence); try congruence.
    all: destruct hi; try reflexivity; try discriminate; destruct H; congruence.
Qed.

Lemma skip_plain : forall k hi, plain_to_unlock k = true -> insafe hi k = true ->
  insafe hi (skip_to_unlock k) = true /\ owes (skip_to_unlock k) = owes k.
Proof.
  induction k as [|o k IH]; intros hi Hp Hs; [split; [exact Hs|reflexivity]|].
  destruct o; cbn [plain_to_unlock plain in_rel] in Hp; try discriminate Hp;
    cbn [skip_to_unlock]; try (split; [exact Hs|reflexivity]);
    cbn [insafe] in Hs; cbn [owes in_rel];
    try (apply IH; [exact Hp|exact Hs]).
  all: rewrite andb_true_iff in Hs; destruct Hs as [_ Hs]; apply IH; [exact Hp|exact Hs].
Qed.

Definition lk_actor (a : actor) : Prop := insafe (owes (a_code a)) (a_code a) = true.

(* one operation: the code stays bracketed, and the lock changes hands only at
   OAcqIn / ORelIn *)
Lemma lk_exec : forall me o k og ig a og' ig' a',
  a_code a = o :: k -> lk_actor a ->
  exec me o k og ig a = Some (og', ig', a') ->
  lk_actor a' /\
  match o with
  | OAcqIn => owes (a_code a) = false /\ owes (a_code a') = true /\ i_lk ig = false /\ i_lk ig' = true
  | ORelIn => owes (a_code a) = true /\ owes (a_code a') = false /\ i_lk ig' = false
  | _ => owes (a_code a') = owes (a_code a) /\ i_lk ig' = i_lk ig
  end.
Proof.
  intros me o k og ig a og' ig' a' Hcode Hlk Hex. unfold lk_actor in *. rewrite Hcode in *.
  destruct o; cbn [exec] in Hex;
    repeat match type of Hex with
           | context [match ?x with _ => _ end] => destruct x eqn:?; try discriminate
           end;
    injection Hex as <- <- <-;
    cbn [owes in_rel insafe] in Hlk; cbn [owes in_rel];
    try match goal with |- context [first_err] => unfold first_err; destruct (a_e (set_code a k)) end;
    cbn [a_code set_code set_e set_chk set_res set_exit i_lk i_setq i_setlk i_closeinput];
    rewrite ?(proj1 (proj2 (i_setdeadline_keeps _ _ _))), ?(proj1 (proj2 (i_fire_keeps _ _)));
    try (split; [exact Hlk|split; reflexivity]);
    try (split; [reflexivity|split; reflexivity]).
  all: try match goal with
       | Hc : a_code _ = OChk :: _, Hcl : o_cl _ = true |- _ =>
           rewrite andb_true_iff in Hlk; destruct Hlk as [Hp Hk];
           destruct (skip_plain k _ Hp Hk) as [E1 E2];
           rewrite E2; (split; [exact E1|split; reflexivity])
       | Hc : a_code _ = OChk :: _ |- _ =>
           rewrite andb_true_iff in Hlk; destruct Hlk as [_ Hk]; (split; [exact Hk|split; reflexivity])
       | Hc : a_code _ = OTest :: _, Hcl : o_cl _ = true |- _ =>
           rewrite andb_true_iff in Hlk; destruct Hlk as [Hp Hk];
           destruct (skip_plain k _ Hp Hk) as [E1 E2];
           rewrite E2; (split; [exact E1|split; reflexivity])
       | Hc : a_code _ = OTest :: _ |- _ =>
           rewrite andb_true_iff in Hlk; destruct Hlk as [_ Hk]; (split; [exact Hk|split; reflexivity])
       | Hc : a_code _ = OAcqIn :: _ |- _ =>
           cbn in Hlk; rewrite (insafe_owes k true Hlk); (split; [exact Hlk|repeat split; assumption])
       | Hc : a_code _ = ORelIn :: _ |- _ =>
           cbn in Hlk; rewrite (insafe_owes k false Hlk); (split; [exact Hlk|repeat split])
       | Hc : a_code _ = OCloseInput :: _ |- _ =>
           cbn in Hlk; rewrite (insafe_owes k false Hlk); (split; [exact Hlk|split; [reflexivity|auto]])
       | Hc : a_code _ = OProbe :: _ |- _ =>
           cbn in Hlk; rewrite (insafe_owes k false Hlk); (split; [exact Hlk|split; [reflexivity|auto]])
       end.
  all: repeat match goal with |- context [if ?b then _ else _] => destruct b end;
       split; try reflexivity; split; reflexivity.
Qed.

(* ---- the global invariant ---- *)

Definition LK (s : state) : Prop :=
  (forall j, lk_actor (s_a s j)) /\
  (i_lk (s_i s) = true -> exists j, owes (a_code (s_a s j)) = true) /\
  (forall j, owes (a_code (s_a s j)) = true -> i_lk (s_i s) = true) /\
  (forall j1 j2, owes (a_code (s_a s j1)) = true -> owes (a_code (s_a s j2)) = true -> j1 = j2).

Lemma lk_programs : forall k, insafe false (prog_of k) = true /\ owes (prog_of k) = false.
Proof.
  destruct k as [|n|n|n|n|n|m|j|evs| | |b|]; try (split; reflexivity).
  - cbn [prog_of]. induction evs as [|e evs IH]; [split; reflexivity|exact IH].
Qed.

Lemma LK_init : forall ds ks, LK (init ds ks).
Proof.
  intros ds ks.
  assert (A : forall j, lk_actor (s_a (init ds ks) j) /\ owes (a_code (s_a (init ds ks) j)) = false).
  { intro j. unfold lk_actor. cbn. destruct (nth_error ks j) as [k|]; cbn.
    - destruct (lk_programs k) as [H1 H2]. rewrite H2. split; [exact H1|reflexivity].
    - split; reflexivity. }
  split; [intro j; exact (proj1 (A j))|]. split; [cbn; discriminate|].
  split; intros j; intros; rewrite (proj2 (A j)) in *; discriminate.
Qed.

Theorem LK_step : forall s i s', LK s -> step s i = Some s' -> LK s'.
Proof.
  intros s i s' (Ha & Hex1 & Hall & Huniq) Hstep.
  apply step_inv in Hstep. destruct Hstep as (o & k & og & ig & a' & Hcode & Hgate & Hex & ->).
  destruct (lk_exec i o k _ _ _ _ _ _ Hcode (Ha i) Hex) as [Hlk' Hrel].
  assert (Hoth : forall j, j <> i -> upd (s_a s) i a' j = s_a s j) by (intros; apply upd_other; assumption).
  unfold LK. cbn [s_a s_i].
  assert (Hact : forall j, lk_actor (upd (s_a s) i a' j)).
  { intro j. destruct (Nat.eq_dec j i) as [->|Hn]; [rewrite upd_same; exact Hlk'|rewrite Hoth by exact Hn; apply Ha]. }
  split; [exact Hact|].
  destruct o;
    try (destruct Hrel as [Ho Hl]; rewrite Hl;
         (split; [intro H; destruct (Hex1 H) as [jx Hjx]; exists jx;
                  destruct (Nat.eq_dec jx i) as [->|Hn]; [rewrite upd_same, Ho; exact Hjx|rewrite Hoth by exact Hn; exact Hjx]|]);
         (split; [intros jx Hjx; destruct (Nat.eq_dec jx i) as [->|Hn];
                  [rewrite upd_same, Ho in Hjx; exact (Hall i Hjx)|rewrite Hoth in Hjx by exact Hn; exact (Hall jx Hjx)]|]);
         intros j1 j2 H1 H2;
         assert (G : forall jx, owes (a_code (upd (s_a s) i a' jx)) = true -> owes (a_code (s_a s jx)) = true)
           by (intros jx Hjx; destruct (Nat.eq_dec jx i) as [->|Hn]; [rewrite upd_same, Ho in Hjx; exact Hjx|rewrite Hoth in Hjx by exact Hn; exact Hjx]);
         exact (Huniq j1 j2 (G j1 H1) (G j2 H2))).
  - (* OAcqIn: nobody held it; now i does *)
    destruct Hrel as (Hb & Haft & Hl0 & Hl1).
    assert (Hnone : forall j, owes (a_code (s_a s j)) = false).
    { intro j. destruct (owes (a_code (s_a s j))) eqn:E; [|reflexivity]. rewrite (Hall j E) in Hl0. discriminate. }
    split; [intros _; exists i; rewrite upd_same; exact Haft|].
    split; [intros; exact Hl1|].
    assert (G : forall j, owes (a_code (upd (s_a s) i a' j)) = true -> j = i).
    { intros j Hj. destruct (Nat.eq_dec j i) as [->|Hn]; [reflexivity|]. rewrite Hoth in Hj by exact Hn. rewrite Hnone in Hj. discriminate. }
    intros j1 j2 H1 H2. rewrite (G j1 H1), (G j2 H2). reflexivity.
  - (* ORelIn: i held it; now nobody does *)
    destruct Hrel as (Hb & Haft & Hl1).
    assert (Hnone : forall j, owes (a_code (upd (s_a s) i a' j)) = false).
    { intro j. destruct (Nat.eq_dec j i) as [->|Hn]; [rewrite upd_same; exact Haft|].
      rewrite Hoth by exact Hn. destruct (owes (a_code (s_a s j))) eqn:E; [|reflexivity].
      exfalso. apply Hn. exact (Huniq j i E Hb). }
    split; [rewrite Hl1; discriminate|].
    split; intros j; intros; rewrite (Hnone j) in *; discriminate.
Qed.

Theorem LK_run : forall ds ks tr s, run step (init ds ks) tr = Some s -> LK s.
Proof.
  intros ds ks. apply (invariant_run state nat step LK); [apply LK_init|].
  intros s l s' H1 H2. exact (LK_step s l s' H1 H2).
Qed.

(* ---- actors that are not Serve never hold the input lock ---- *)

Definition quiet_in_op (o : op) : bool :=
  match o with
  | ORelIn | OServeRead | OHEmit _ _ | OServeTop | OExit _ _ _ | OAcqIn => false
  | _ => true
  end.

Definition quiet_in (code : list op) : bool := forallb quiet_in_op code.

Lemma quiet_in_owes : forall code, quiet_in code = true -> owes code = false.
Proof.
  induction code as [|o k IH]; intro H; [reflexivity|].
  unfold quiet_in in H. cbn [forallb] in H. apply andb_prop in H. destruct H as [Ho Hk].
  destruct o; cbn in Ho; try discriminate Ho; cbn; try (apply IH; exact Hk); reflexivity.
Qed.

Lemma quiet_in_skip : forall k, quiet_in k = true -> quiet_in (skip_to_unlock k) = true.
Proof.
  induction k as [|o k IH]; intro H; [reflexivity|].
  pose proof H as H0. unfold quiet_in in H. cbn [forallb] in H. apply andb_prop in H. destruct H as [Ho Hk].
  destruct o; cbn [skip_to_unlock]; try (apply IH; exact Hk). exact H0.
Qed.

Definition NS (s : state) : Prop :=
  forall j, a_role (s_a s j) <> RServe -> quiet_in (a_code (s_a s j)) = true.

Lemma quiet_programs : forall k, role_of k <> RServe -> quiet_in (prog_of k) = true.
Proof.
  destruct k as [|n|n|n|n|n|m|j|evs| | |b|]; intro H; try reflexivity.
  - clear H. cbn [prog_of]. induction evs as [|e evs IH]; [reflexivity|exact IH].
  - exfalso. apply H. reflexivity.
Qed.

Lemma NS_init : forall ds ks, NS (init ds ks).
Proof.
  intros ds ks j. cbn. destruct (nth_error ks j) as [k|]; cbn; [apply quiet_programs|reflexivity].
Qed.

Theorem NS_step : forall s i s', NS s -> step s i = Some s' -> NS s'.
Proof.
  intros s i s' Hns Hstep.
  apply step_inv in Hstep. destruct Hstep as (o & k & og & ig & a' & Hcode & Hgate & Hex & ->).
  intros j. cbn [s_a]. destruct (Nat.eq_dec j i) as [->|Hn]; [|rewrite upd_other by exact Hn; apply Hns].
  rewrite upd_same. intro Hrole. rewrite (exec_role _ _ _ _ _ _ _ _ _ Hex) in Hrole.
  pose proof (Hns i Hrole) as Hq. rewrite Hcode in Hq.
  pose proof Hq as Hq0. unfold quiet_in in Hq. cbn [forallb] in Hq. apply andb_prop in Hq. destruct Hq as [Ho Hk].
  destruct o; cbn in Ho; try discriminate Ho; cbn [exec] in Hex;
    repeat match type of Hex with
           | context [match ?x with _ => _ end] => destruct x eqn:?; try discriminate
           end;
    injection Hex as <- <- <-;
    try match goal with |- context [first_err] => unfold first_err; destruct (a_e (set_code (s_a s i) k)) end;
    cbn [a_code set_code set_e set_chk set_res]; try exact Hk.
  all: apply quiet_in_skip; exact Hk.
Qed.

Theorem NS_run : forall ds ks tr s, run step (init ds ks) tr = Some s -> NS s.
Proof.
  intros ds ks. apply (invariant_run state nat step NS); [apply NS_init|].
  intros s l s' H1 H2. exact (NS_step s l s' H1 H2).
Qed.
