(* C10/Spec.v — the property statements' vocabulary, and their proofs from the
   invariants (Inv, Closers, Transmit, InLock, Progress). *)
From XV Require Import lib.Bytes lib.Lts gen.SessClose gen.Serve C10.Model C10.Inv C10.Proofs C10.Closers
  C10.Transmit C10.InLock C10.StateLock C10.Progress C10.Refute C10.Tables.

Definition reachable_from (ds : bool) (ks : list kind) (s : state) : Prop :=
  exists tr, run step (init ds ks) tr = Some s.

Definition kind_at (ks : list kind) (i : nat) (k : kind) : Prop := nth_error ks i = Some k.

(* actor i has returned e *)
Definition returned (s : state) (i : nat) (e : err) : Prop := a_res (s_a s i) = Some e.

(* actor i has not started *)
Definition not_started (s : state) (i : nat) (k : kind) : Prop := s_a s i = actor_of k.

(* ---- roles are fixed by the kinds ---- *)

Definition roles_ok (ks : list kind) (s : state) : Prop :=
  forall i, a_role (s_a s i) = match nth_error ks i with Some k => role_of k | None => RPlain end.

Lemma roles_run : forall ds ks tr s, run step (init ds ks) tr = Some s -> roles_ok ks s.
Proof.
  intros ds ks. apply (invariant_run state nat step (roles_ok ks)).
  - intro i. cbn. destruct (nth_error ks i); reflexivity.
  - intros s l s' H Hs i. apply step_inv in Hs. destruct Hs as (o & k & og & ig & a' & _ & _ & Hex & ->).
    cbn [s_a]. destruct (Nat.eq_dec i l) as [->|Hn].
    + rewrite upd_same, (exec_role _ _ _ _ _ _ _ _ _ Hex). apply H.
    + rewrite upd_other by exact Hn. apply H.
Qed.

(* ---- clause 1 ---- *)

Lemma one_closing_tag : forall ds ks tr s,
  run step (init ds ks) tr = Some s ->
  o_att (s_o s) <= 1 /\ closes (o_wire (s_o s)) <= o_att (s_o s) /\
  (o_att (s_o s) = 1 <-> o_cl (s_o s) = true /\ o_pend (s_o s) = false) /\
  (o_wfail (s_o s) = false -> closes (o_wire (s_o s)) = o_att (s_o s)) /\
  (forall i e, (kind_at ks i KClose \/ kind_at ks i KServe) -> returned s i e ->
     o_cl (s_o s) = true /\ o_att (s_o s) = 1).
Proof.
  intros ds ks tr s Hr.
  destruct (INV_run ds ks tr s Hr) as [Hw _].
  destruct (wire_ok_count _ Hw) as (H1 & H2 & H3 & H4 & _).
  split; [exact H1|]. split; [exact H2|]. split; [exact H3|]. split; [exact H4|].
  intros i e Hk Hres.
  pose proof (roles_run ds ks tr s Hr i) as Hrole.
  assert (Hne : a_role (s_a s i) <> RPlain).
  { unfold kind_at in Hk. destruct Hk as [Hk|Hk]; rewrite Hk in Hrole; rewrite Hrole; discriminate. }
  pose proof (proj1 (closer_returned s i e (CINV_run ds ks tr s Hr) Hne Hres)) as Hc.
  split; [exact (proj1 Hc)|exact (proj2 H3 Hc)].
Qed.

(* ---- clause 2 ---- *)

Lemma nothing_after_close : forall ds ks tr s,
  run step (init ds ks) tr = Some s ->
  (forall pre post, o_wire (s_o s) = pre ++ IClose :: post -> post = []) /\
  (o_cl (s_o s) = true -> forall tr2 s2, run step s tr2 = Some s2 ->
     o_buf (s_o s2) = o_buf (s_o s) /\ tag_only (s_o s) (s_o s2)).
Proof.
  intros ds ks tr s Hr. pose proof (INV_run ds ks tr s Hr) as HI.
  split.
  - destruct HI as [Hw _]. exact (proj2 (proj2 (proj2 (proj2 (wire_ok_count _ Hw))))).
  - intros Hcl tr2 s2 H2. exact (run_frozen tr2 s s2 HI Hcl H2).
Qed.

Lemma transmit_fails_after_close : forall ds ks tr1 s1 i k tr2 s2 e,
  run step (init ds ks) tr1 = Some s1 ->
  o_cl (s_o s1) = true -> is_transmit k = true -> not_started s1 i k ->
  run step s1 tr2 = Some s2 -> returned s2 i e ->
  e = EOutClosed /\ o_buf (s_o s2) = o_buf (s_o s1) /\ tag_only (s_o s1) (s_o s2).
Proof.
  intros ds ks tr1 s1 i k tr2 s2 e H1 Hcl Ht Hns H2 Hres. unfold not_started in Hns.
  apply (transmit_after_close ds ks tr1 s1 i k tr2 s2 e H1 Hcl Ht); try assumption; rewrite Hns; reflexivity.
Qed.

(* ---- clause 3 ---- *)

Lemma serve_outcomes : forall ds ks tr s i e,
  run step (init ds ks) tr = Some s -> kind_at ks i KServe -> returned s i e ->
  o_cl (s_o s) = true /\ i_cl (s_i s) = true /\ o_att (s_o s) = 1 /\
  outcome_rel' (o_wfail (s_o s)) (a_cause (s_a s i)) e /\
  (e = ENil -> a_cause (s_a s i) = CPeerClose) /\
  (o_wfail (s_o s) = false -> a_cause (s_a s i) = CPeerClose -> e = ENil).
Proof.
  intros ds ks tr s i e Hr Hk Hres.
  pose proof (roles_run ds ks tr s Hr i) as Hrole. unfold kind_at in Hk. rewrite Hk in Hrole. cbn in Hrole.
  destruct (serve_returned s i e (CINV_run ds ks tr s Hr) Hrole Hres) as (Ho & Hi & Hc & Hrel).
  split; [exact (proj1 Ho)|]. split; [exact Hi|].
  split; [exact (proj2 (proj1 (proj2 (proj2 (one_closing_tag ds ks tr s Hr)))) Ho)|].
  split; [exact Hrel|]. split.
  - intro He. destruct Hrel as [Hrel|(_ & _ & Hw)]; [|congruence].
    destruct (a_cause (s_a s i)); cbn in Hrel; try contradiction; try congruence.
    destruct Hrel; congruence.
  - intros Hf Hcl. destruct Hrel as [Hrel|(Hw & _)]; [|congruence].
    rewrite Hcl in Hrel. exact Hrel.
Qed.

Lemma read_after_input_closed : forall s i k s',
  i_cl (s_i s) = true -> a_code (s_a s i) = OProbe :: k -> step s i = Some s' ->
  a_e (s_a s' i) = EInClosed.
Proof.
  intros s i k s' Hcl Hc Hs. unfold step in Hs. rewrite Hc in Hs.
  destruct (gate i OProbe (s_o s)); [|discriminate]. cbn [exec] in Hs.
  destruct (i_lk (s_i s)); [discriminate|]. injection Hs as <-. cbn. rewrite upd_same. cbn. rewrite Hcl. reflexivity.
Qed.

Lemma serve_returns : forall ds ks tr s i,
  run step (init ds ks) tr = Some s ->
  kind_at ks i KServe -> (forall j, j <> i -> ~ kind_at ks j KServe) ->
  loopish (a_code (s_a s i)) = false -> o_rdy (s_o s) = true ->
  exists tr' s' e, run step s tr' = Some s' /\ returned s' i e.
Proof.
  intros ds ks tr s i Hr Hk Honly Hl Hrdy.
  pose proof (roles_run ds ks tr s Hr) as Hroles.
  apply (serve_can_return ds ks tr s i Hr); [| |exact Hl|exact Hrdy].
  - rewrite Hroles. unfold kind_at in Hk. rewrite Hk. reflexivity.
  - intros j Hn. rewrite Hroles. pose proof (Honly j Hn) as Hj. unfold kind_at in Hj.
    destruct (nth_error ks j) as [k|]; [|discriminate].
    destruct k; cbn; try discriminate. exfalso. apply Hj. reflexivity.
Qed.

Lemma source_tables :
  sc_out_lockers = map str ["Session.Close"; "Session.Encode"; "Session.EncodeElement";
                            "Session.TokenWriter"; "Session.sendError"; "send"]%string /\
  (send_guarded = true /\ encode_guarded = true /\ encodeelement_guarded = true /\
   sc_tw_encodetoken_tests_closed = true /\ sc_tw_flush_tests_closed = true /\
   sc_tr_token_tests_closed = true) /\
  (sc_sets_output_closed = [str "Session.closeSession"] /\
   sc_sets_input_closed = [str "Session.closeInputStream"] /\
   sc_closesession_callers = map str ["Session.Close"; "Session.sendError"]%string) /\
  sc_serve_defer_calls = map str ["closeInputStream"; "Close"]%string /\
  (sc_setclosedeadline_locked = true /\ sc_setclosedeadline_fresh_context = true /\
   sc_setclosedeadline_cancels_previous = true /\ sc_setclosedeadline_zero_is_no_deadline = true) /\
  (sc_send_records_opening_element = true /\ sc_negotiator_records_ws = true /\
   sc_reader_ws_close_is_eof = true) /\
  sc_statelock_blocking_calls = [] /\
  (sv_serve_eof_identity = true /\ sc_serve_reads_context_every_turn = true) /\
  sc_closesession_sets_bit_before_write = true /\
  (sc_writedeadline_cleared_where_expired = true /\ sc_newconn_deadlines_from_prev = true).
Proof.
  split; [exact tbl_out_lockers|]. split.
  - destruct tbl_guards as (_ & A & B & C & D & E). destruct tbl_reader_and_deadline as [F _]. tauto.
  - split; [exact tbl_setters|]. split; [exact tbl_serve_defer|]. split; [exact (conj (proj2 tbl_reader_and_deadline) tbl_setdeadline)|].
    destruct tbl_close_tags as (_ & _ & A). destruct tbl_ws_framing as [B C]. split; [tauto|]. split; [exact tbl_statelock|]. split; [exact tbl_serve_loop|]. split; [exact tbl_closesession_order|exact tbl_transport_deadlines].
Qed.
