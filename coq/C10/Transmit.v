(* C10/Transmit.v — a transmit call that starts after the stream was closed
   fails with the output-closed error, in every interleaving. *)
From XV Require Import lib.Bytes lib.Lts gen.SessClose C10.Model C10.Inv C10.Proofs.

Definition is_transmit (k : kind) : bool :=
  match k with
  | KSend _ | KEncode _ | KEncodeNF _ | KEncodeElement _ | KTokenWriter _ => true
  | _ => false
  end.

(* the return value of straight-line code run while the stream is closed
   (None: not a transmit program, or it would write) *)
Fixpoint solo (skip : bool) (code : list op) (e : err) : option err :=
  match code with
  | [] => None
  | o :: k =>
      if skip then match o with OUnlock => solo false k e | _ => solo true k e end
      else match o with
           | ORet => match k with [] => Some e | _ => None end
           | OChk => solo true k EOutClosed
           | OGEmit _ | OGFlush => solo false k (match e with ENil => EOutClosed | _ => e end)
           | OYield _ | OLock | OUnlock => solo false k e
           | _ => None
           end
  end.

Lemma solo_programs : forall k, is_transmit k = true -> solo false (prog_of k) ENil = Some EOutClosed.
Proof. destruct k; intro H; try discriminate H; reflexivity. Qed.

Lemma solo_skip : forall k e, solo true k e = solo false (skip_to_unlock k) e.
Proof.
  induction k as [|o k IH]; intro e; [reflexivity|].
  destruct o; cbn [solo skip_to_unlock]; try apply IH. reflexivity.
Qed.

(* the fate of actor i: it will return the output-closed error, or has *)
Definition doomed (a : actor) : Prop :=
  (solo false (a_code a) (a_e a) = Some EOutClosed /\ a_res a = None) \/
  (a_code a = [] /\ a_res a = Some EOutClosed).

Lemma doomed_step : forall s i s', INV s -> o_cl (s_o s) = true -> doomed (s_a s i) ->
  forall j, step s j = Some s' -> doomed (s_a s' i).
Proof.
  intros s i s' HI Hcl Hd j Hstep.
  destruct (Nat.eq_dec j i) as [->|Hn].
  2:{ apply step_inv in Hstep. destruct Hstep as (o & k & og & ig & a' & _ & _ & _ & ->).
      cbn. rewrite upd_other by congruence. exact Hd. }
  pose proof HI as [_ Ha]. destruct (Ha i) as [Hsafe Hchk].
  apply step_inv in Hstep. destruct Hstep as (o & k & og & ig & a' & Hcode & Hgate & Hex & ->).
  cbn [s_a]. rewrite upd_same.
  destruct Hd as [[Hs Hr]|[Hc _]]; [|congruence].
  rewrite Hcode in Hs, Hsafe.
  destruct o; cbn [solo] in Hs; try discriminate Hs; cbn [exec] in Hex.
  - (* OYield *) injection Hex as <- <- <-. left. cbn. split; assumption.
  - (* OLock *) destruct (o_lock (s_o s)); [discriminate|]. injection Hex as <- <- <-. left. cbn. split; assumption.
  - (* OUnlock *) injection Hex as <- <- <-. left. cbn. split; assumption.
  - (* OChk *) rewrite Hcl in Hex. injection Hex as <- <- <-. left. cbn.
    rewrite <- solo_skip. split; assumption.
  - (* OGEmit *) rewrite Hcl in Hex. injection Hex as <- <- <-. left.
    unfold first_err. cbn. remember (a_e (s_a s i)) as e0. destruct e0; cbn in *; rewrite <- ?Heqe0; split; assumption.
  - (* OGFlush *) rewrite Hcl in Hex. injection Hex as <- <- <-. left.
    unfold first_err. cbn. remember (a_e (s_a s i)) as e0. destruct e0; cbn in *; rewrite <- ?Heqe0; split; assumption.
  - (* ORet *) injection Hex as <- <- <-. destruct k; [|discriminate Hs]. injection Hs as Hs.
    right. cbn. rewrite Hs. split; reflexivity.
Qed.

Lemma doomed_run : forall tr s s' i, INV s -> o_cl (s_o s) = true -> doomed (s_a s i) ->
  run step s tr = Some s' -> doomed (s_a s' i).
Proof.
  induction tr as [|l tr IH]; intros s s' i HI Hcl Hd H; cbn [run] in H.
  - injection H as <-. exact Hd.
  - destruct (step s l) as [s1|] eqn:E; [|discriminate].
    apply (IH s1 s' i (INV_step s l s1 HI E)); [|exact (doomed_step s i s1 HI Hcl Hd l E)|exact H].
    exact (proj1 (step_mono s l s1 E) Hcl).
Qed.

(* A transmit call of any family that has not started when the stream is
   closed: whatever happens afterwards, if it returns it returns the
   output-closed error, the encoder buffer has not changed and the connection
   has received at most the closing tag that was still owed. *)
Theorem transmit_after_close : forall ds ks tr1 s1 i k tr2 s2 e,
  run step (init ds ks) tr1 = Some s1 ->
  o_cl (s_o s1) = true ->
  is_transmit k = true -> a_code (s_a s1 i) = prog_of k -> a_e (s_a s1 i) = ENil -> a_res (s_a s1 i) = None ->
  run step s1 tr2 = Some s2 ->
  a_res (s_a s2 i) = Some e ->
  e = EOutClosed /\ o_buf (s_o s2) = o_buf (s_o s1) /\ tag_only (s_o s1) (s_o s2).
Proof.
  intros ds ks tr1 s1 i k tr2 s2 e H1 Hcl Ht Hc He Hr H2 Hres.
  pose proof (INV_run ds ks tr1 s1 H1) as HI.
  assert (Hd : doomed (s_a s1 i)).
  { left. rewrite Hc, He. split; [exact (solo_programs k Ht)|exact Hr]. }
  pose proof (doomed_run tr2 s1 s2 i HI Hcl Hd H2) as Hd2.
  split; [|exact (run_frozen tr2 s1 s2 HI Hcl H2)].
  destruct Hd2 as [[_ Hn]|[_ Hs]]; congruence.
Qed.
