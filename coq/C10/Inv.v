(* C10/Inv.v — the safety invariant of the closing model and its preservation
   by every step of every actor (all interleavings). *)
From XV Require Import lib.Bytes lib.Lts gen.SessClose C10.Model.

Definition holds (s : state) (i : nat) : bool :=
  match o_lock (s_o s) with Some j => Nat.eqb j i | None => false end.

(* the wire has at most one closing tag and it is the last item; the bit is set
   exactly when the tag has been attempted or is still owed by the call that
   set the bit; there is never more than one attempt; the attempt put the tag
   on the wire unless the connection refused it; the encoder buffer never
   holds a tag *)
Definition tag_last (w : list item) : Prop :=
  ~ In IClose w \/ exists pre, w = pre ++ [IClose] /\ ~ In IClose pre.

Definition wire_ok (o : outg) : Prop :=
  (o_cl o = false -> ~ In IClose (o_wire o) /\ o_pend o = false /\ o_att o = 0) /\
  (o_cl o = true ->
     if o_pend o then ~ In IClose (o_wire o) /\ o_att o = 0
     else o_att o = 1 /\ tag_last (o_wire o) /\ (o_wfail o = false -> In IClose (o_wire o))) /\
  ~ In IClose (o_buf o).

(* every actor's remaining code respects the lock discipline, and an actor that
   found the stream open holds the lock and the stream is still open *)
Definition actor_ok (s : state) (i : nat) : Prop :=
  safe (holds s i) (a_chk (s_a s i)) (a_code (s_a s i)) = true /\
  (a_chk (s_a s i) = true -> holds s i = true /\ o_cl (s_o s) = false).

Definition INV (s : state) : Prop := wire_ok (s_o s) /\ forall i, actor_ok s i.

(* ---- small facts ---- *)

Lemma upd_same f i a : upd f i a i = a.
Proof. unfold upd. rewrite Nat.eqb_refl. reflexivity. Qed.

Lemma upd_other f i a j : j <> i -> upd f i a j = f j.
Proof. intro H. unfold upd. destruct (Nat.eqb j i) eqn:E; [apply Nat.eqb_eq in E; contradiction|reflexivity]. Qed.

Lemma is_close_false it : is_close it = false -> it <> IClose.
Proof. destruct it; simpl; congruence. Qed.

Lemma safe_skip : forall k c c', safe true c k = true -> has_unlock k = true ->
  safe true c' (skip_to_unlock k) = true.
Proof.
  induction k as [|o k IH]; intros c c' Hs Hu; [discriminate Hu|].
  destruct o; cbn [safe has_unlock skip_to_unlock] in *;
    repeat (apply andb_prop in Hs; destruct Hs as [Hs ?]);
    try discriminate; try (eapply IH; eassumption); try assumption.
Qed.

Lemma safe_programs : forall k, safe false false (prog_of k) = true.
Proof.
  destruct k as [|n|n|n|n|n|m|j|evs| | |b|]; try reflexivity.
  - cbn [prog_of]. induction evs as [|e evs IH]; [reflexivity|exact IH].
Qed.

Lemma safe_senderr c : safe false c senderr_code = true.
Proof. destruct c; reflexivity. Qed.

Lemma safe_shutdown c : safe false c shutdown_code = true.
Proof. destruct c; reflexivity. Qed.

Lemma INV_init : forall ds ks, INV (init ds ks).
Proof.
  intros ds ks. split.
  - cbn. split; [intros _; split; [intros []|split; reflexivity]|]. split; [discriminate|intros []].
  - intro i. unfold actor_ok, holds. cbn.
    destruct (nth_error ks i) as [k|]; cbn.
    + split; [apply safe_programs|discriminate].
    + split; [reflexivity|discriminate].
Qed.

(* ---- preservation ---- *)

Lemma holds_lock s i : holds s i = true -> o_lock (s_o s) = Some i.
Proof.
  unfold holds. destruct (o_lock (s_o s)) as [j|]; [|discriminate].
  intro H. apply Nat.eqb_eq in H. subst. reflexivity.
Qed.

Lemma holds_other s i j : holds s i = true -> j <> i -> holds s j = false.
Proof.
  intros H Hn. apply holds_lock in H. unfold holds. rewrite H.
  apply Nat.eqb_neq. congruence.
Qed.

(* a step that leaves the output side alone, and gives actor i code that is
   safe in the same lock situation, preserves the invariant *)
Lemma INV_local : forall s i a',
  INV s ->
  safe (holds s i) (a_chk a') (a_code a') = true ->
  (a_chk a' = true -> a_chk (s_a s i) = true) ->
  forall ig, INV (mkS (s_o s) ig (upd (s_a s) i a')).
Proof.
  intros s i a' [Hw Ha] Hs Hc ig. split; [exact Hw|].
  intro j. unfold actor_ok, holds. cbn [s_o s_a].
  destruct (Nat.eq_dec j i) as [->|Hn].
  - rewrite upd_same. split; [exact Hs|].
    intro H. apply Hc in H. exact (proj2 (Ha i) H).
  - rewrite upd_other by exact Hn. exact (Ha j).
Qed.

(* a step by the lock holder that changes only buffer / wire / closed bit *)
Lemma INV_holder : forall s i a' o',
  INV s -> holds s i = true ->
  o_lock o' = o_lock (s_o s) ->
  wire_ok o' ->
  safe true (a_chk a') (a_code a') = true ->
  (a_chk a' = true -> o_cl o' = false) ->
  forall ig, INV (mkS o' ig (upd (s_a s) i a')).
Proof.
  intros s i a' o' [Hw Ha] Hh Hl Hw' Hs Hc ig. split; [exact Hw'|].
  intro j. unfold actor_ok, holds. cbn [s_o s_a]. rewrite Hl.
  destruct (Nat.eq_dec j i) as [->|Hn].
  - rewrite upd_same. fold (holds s i). rewrite Hh. split; [exact Hs|].
    intro H. split; [reflexivity|exact (Hc H)].
  - rewrite upd_other by exact Hn. fold (holds s j).
    destruct (Ha j) as [H1 H2]. split; [exact H1|].
    intro H. destruct (H2 H) as [H3 _]. rewrite (holds_other s i j Hh Hn) in H3. discriminate.
Qed.

(* a step that changes only the state mutex or the peer's readiness *)
Lemma INV_other_out : forall s i a' o',
  INV s ->
  o_lock o' = o_lock (s_o s) -> o_cl o' = o_cl (s_o s) ->
  o_buf o' = o_buf (s_o s) -> o_wire o' = o_wire (s_o s) -> o_pend o' = o_pend (s_o s) ->
  o_att o' = o_att (s_o s) -> o_wfail o' = o_wfail (s_o s) ->
  safe (holds s i) (a_chk a') (a_code a') = true ->
  (a_chk a' = true -> a_chk (s_a s i) = true) ->
  forall ig, INV (mkS o' ig (upd (s_a s) i a')).
Proof.
  intros s i a' o' [Hw Ha] Hl Hc Hb Hwi Hp Hat Hwf Hs Hch ig. split.
  - cbn [s_o]. unfold wire_ok in *. rewrite Hc, Hb, Hwi, Hp, Hat, Hwf. exact Hw.
  - intro j. unfold actor_ok, holds. cbn [s_o s_a]. rewrite Hl, Hc.
    destruct (Nat.eq_dec j i) as [->|Hn].
    + rewrite upd_same. split; [exact Hs|]. intro H. exact (proj2 (Ha i) (Hch H)).
    + rewrite upd_other by exact Hn. exact (Ha j).
Qed.

Lemma wire_ok_emit o it : wire_ok o -> it <> IClose -> wire_ok (o_emit o it).
Proof.
  intros (H1 & H2 & H3) Hn. unfold wire_ok, o_emit. cbn.
  split; [exact H1|]. split; [exact H2|].
  intro H. apply in_app_or in H. destruct H as [H|[H|[]]]; [exact (H3 H)|congruence].
Qed.

Lemma wire_ok_flush o : wire_ok o -> o_cl o = false -> wire_ok (o_flush o).
Proof.
  intros (H1 & H2 & H3) Hc. destruct (H1 Hc) as (Hw & Hp & Ha). unfold wire_ok, o_flush. cbn. split; [|split].
  - intros _. split; [|split; assumption]. intro H. apply in_app_or in H. destruct H as [H|H]; [exact (Hw H)|exact (H3 H)].
  - intro H. rewrite Hc in H. discriminate.
  - intros [].
Qed.

Lemma wire_ok_mark o : wire_ok o -> wire_ok (o_mark o).
Proof.
  intros (H1 & H2 & H3). unfold o_mark. destruct (o_cl o) eqn:Hc.
  - unfold wire_ok. rewrite Hc. split; [exact H1|]. split; [exact H2|exact H3].
  - destruct (H1 eq_refl) as (Hw & Hp & Ha).
    unfold wire_ok. cbn. split; [discriminate|]. split; [|exact H3]. intros _. split; assumption.
Qed.

Lemma wire_ok_writetag o : wire_ok o -> wire_ok (o_writetag o).
Proof.
  intros (H1 & H2 & H3). unfold o_writetag. destruct (o_pend o) eqn:Hp.
  - destruct (o_cl o) eqn:Hc.
    + specialize (H2 eq_refl). destruct H2 as [Hw Ha].
      unfold wire_ok. cbn [o_cl o_pend o_wire o_buf o_att o_wfail]. split; [intro E; congruence|]. split; [|exact H3].
      intros _. rewrite Ha. split; [reflexivity|]. destruct (o_wfail o) eqn:Hf.
      * split; [left; exact Hw|discriminate].
      * split; [right; exists (o_wire o); split; [reflexivity|exact Hw]|].
        intros _. apply in_or_app. right. left. reflexivity.
    + destruct (H1 eq_refl) as (_ & E & _). congruence.
  - unfold wire_ok. rewrite Hp. split; [exact H1|]. split; [exact H2|exact H3].
Qed.

Lemma wire_ok_setsl o l : wire_ok o -> wire_ok (o_setsl o l).
Proof. intro H. exact H. Qed.

Lemma wire_ok_setrdy o b : wire_ok o -> wire_ok (o_setrdy o b).
Proof. intro H. exact H. Qed.

Lemma wire_ok_setfault o : wire_ok o -> wire_ok (o_setfault o).
Proof.
  intros (H1 & H2 & H3). unfold wire_ok, o_setfault. cbn. split; [exact H1|]. split; [|exact H3].
  intro Hc. specialize (H2 Hc). destruct (o_pend o); [exact H2|].
  destruct H2 as (A & B & _). split; [exact A|]. split; [exact B|discriminate].
Qed.

Lemma o_mark_cl o : o_cl (o_mark o) = true.
Proof. unfold o_mark. destruct (o_cl o) eqn:E; [exact E|reflexivity]. Qed.

Lemma o_mark_lock o : o_lock (o_mark o) = o_lock o.
Proof. unfold o_mark. destruct (o_cl o); reflexivity. Qed.

Lemma o_writetag_lock o : o_lock (o_writetag o) = o_lock o.
Proof. unfold o_writetag. destruct (o_pend o); reflexivity. Qed.

Lemma o_writetag_cl o : o_cl (o_writetag o) = o_cl o.
Proof. unfold o_writetag. destruct (o_pend o); reflexivity. Qed.

(* inversion of [safe] per operation *)
Ltac safe_inv := cbn [safe]; rewrite ?andb_true_iff, ?negb_true_iff; tauto.

Lemma safe_lock h c k : safe h c (OLock :: k) = true -> h = false /\ safe true false k = true.
Proof. safe_inv. Qed.
Lemma safe_unlock h c k : safe h c (OUnlock :: k) = true -> h = true /\ safe false false k = true.
Proof. safe_inv. Qed.
Lemma safe_chk h c k : safe h c (OChk :: k) = true -> h = true /\ has_unlock k = true /\ safe true true k = true.
Proof. safe_inv. Qed.
Lemma safe_emit h c it k : safe h c (OEmit it :: k) = true ->
  h = true /\ c = true /\ is_close it = false /\ safe h c k = true.
Proof. safe_inv. Qed.
Lemma safe_flush h c k : safe h c (OFlush :: k) = true -> h = true /\ c = true /\ safe h c k = true.
Proof. safe_inv. Qed.
Lemma safe_gemit h c it k : safe h c (OGEmit it :: k) = true -> h = true /\ is_close it = false /\ safe h c k = true.
Proof. safe_inv. Qed.
Lemma safe_gflush h c k : safe h c (OGFlush :: k) = true -> h = true /\ safe h c k = true.
Proof. safe_inv. Qed.
Lemma safe_test h c k : safe h c (OTest :: k) = true -> h = true /\ has_unlock k = true /\ safe true true k = true.
Proof. safe_inv. Qed.
Lemma safe_mark h c k : safe h c (OMark :: k) = true -> h = true /\ safe h false k = true.
Proof. safe_inv. Qed.
Lemma safe_writetag h c r k : safe h c (OWriteTag r :: k) = true -> h = true /\ safe h c k = true.
Proof. safe_inv. Qed.
Lemma safe_ret h c k : safe h c (ORet :: k) = true -> h = false /\ safe h c k = true.
Proof. safe_inv. Qed.
Lemma safe_slock h c k : safe h c (OSLock :: k) = true -> h = false /\ safe h c k = true.
Proof. safe_inv. Qed.
Lemma safe_sunlock h c k : safe h c (OSUnlock :: k) = true -> h = false /\ safe h c k = true.
Proof. safe_inv. Qed.
Lemma safe_stall h c b k : safe h c (OStall b :: k) = true -> h = false /\ safe h c k = true.
Proof. safe_inv. Qed.
Lemma safe_fault h c k : safe h c (OFault :: k) = true -> h = false /\ safe h c k = true.
Proof. safe_inv. Qed.
Lemma safe_fire h c j k : safe h c (OFire j :: k) = true -> h = false /\ safe h c k = true.
Proof. safe_inv. Qed.
Lemma safe_acqin h c k : safe h c (OAcqIn :: k) = true -> h = false /\ safe h c k = true.
Proof. safe_inv. Qed.
Lemma safe_closeinput h c k : safe h c (OCloseInput :: k) = true -> h = false /\ safe h c k = true.
Proof. safe_inv. Qed.
Lemma safe_probe h c k : safe h c (OProbe :: k) = true -> h = false /\ safe h c k = true.
Proof. safe_inv. Qed.

Theorem INV_step : forall s i s', INV s -> step s i = Some s' -> INV s'.
Proof.
  intros s i s' HI Hstep. unfold step in Hstep.
  destruct (a_code (s_a s i)) as [|o k] eqn:Hcode; [discriminate|].
  destruct (gate i o (s_o s)); [|discriminate].
  pose proof HI as [Hw Ha]. destruct (Ha i) as [Hsafe Hchk]. rewrite Hcode in Hsafe.
  destruct o; cbn [exec] in Hstep.
  - (* OYield *) injection Hstep as <-. apply INV_local; [exact HI|exact Hsafe|auto].
  - (* OLock *)
    destruct (o_lock (s_o s)) eqn:Hl; [discriminate|]. injection Hstep as <-.
    apply safe_lock in Hsafe. destruct Hsafe as [Hh Hk].
    assert (Hc0 : a_chk (s_a s i) = false).
    { destruct (a_chk (s_a s i)) eqn:E; [|reflexivity]. destruct (Hchk eq_refl) as [H _]. congruence. }
    split; [exact Hw|]. intro j. unfold actor_ok, holds. cbn.
    destruct (Nat.eq_dec j i) as [->|Hn].
    + rewrite upd_same, Nat.eqb_refl. cbn. rewrite Hc0. split; [exact Hk|discriminate].
    + rewrite upd_other by exact Hn.
      assert (E : Nat.eqb i j = false) by (apply Nat.eqb_neq; congruence). rewrite E.
      destruct (Ha j) as [H1 H2]. unfold holds in H1, H2. rewrite Hl in H1, H2. split; [exact H1|exact H2].
  - (* OUnlock *)
    injection Hstep as <-. apply safe_unlock in Hsafe. destruct Hsafe as [Hh Hk].
    split; [exact Hw|]. intro j. unfold actor_ok, holds. cbn.
    destruct (Nat.eq_dec j i) as [->|Hn].
    + rewrite upd_same. cbn. split; [exact Hk|discriminate].
    + rewrite upd_other by exact Hn. destruct (Ha j) as [H1 H2].
      rewrite (holds_other s i j Hh Hn) in H1, H2. split; [exact H1|].
      intro H. destruct (H2 H). discriminate.
  - (* OChk *)
    apply safe_chk in Hsafe. destruct Hsafe as (Hh & Hu & Hk).
    destruct (o_cl (s_o s)) eqn:Hcl; injection Hstep as <-.
    + apply INV_local; [exact HI| |cbn; auto].
      cbn. rewrite Hh. eapply safe_skip; eassumption.
    + apply (INV_holder s i _ (s_o s) HI Hh eq_refl Hw); cbn; [exact Hk|auto].
  - (* OEmit *)
    injection Hstep as <-. apply safe_emit in Hsafe. destruct Hsafe as (Hh & Hc & Hi & Hk).
    apply (INV_holder s i _ _ HI Hh); cbn.
    + reflexivity.
    + apply wire_ok_emit; [exact Hw|apply is_close_false; exact Hi].
    + rewrite Hh in Hk. exact Hk.
    + intros _. exact (proj2 (Hchk Hc)).
  - (* OFlush *)
    injection Hstep as <-. apply safe_flush in Hsafe. destruct Hsafe as (Hh & Hc & Hk).
    destruct (Hchk Hc) as [_ Hcl].
    apply (INV_holder s i _ _ HI Hh); cbn.
    + reflexivity.
    + apply wire_ok_flush; assumption.
    + rewrite Hh in Hk. exact Hk.
    + intros _. exact Hcl.
  - (* OGEmit *)
    apply safe_gemit in Hsafe. destruct Hsafe as (Hh & Hi & Hk).
    destruct (o_cl (s_o s)) eqn:Hcl; injection Hstep as <-.
    + apply INV_local; [exact HI| |].
      * unfold first_err. destruct (a_e (set_code (s_a s i) k)); cbn; exact Hk.
      * unfold first_err. destruct (a_e (set_code (s_a s i) k)); cbn; auto.
    + apply (INV_holder s i _ _ HI Hh); cbn.
      * reflexivity.
      * apply wire_ok_emit; [exact Hw|apply is_close_false; exact Hi].
      * rewrite Hh in Hk. exact Hk.
      * intros _. exact Hcl.
  - (* OGFlush *)
    apply safe_gflush in Hsafe. destruct Hsafe as (Hh & Hk).
    destruct (o_cl (s_o s)) eqn:Hcl; injection Hstep as <-.
    + apply INV_local; [exact HI| |].
      * unfold first_err. destruct (a_e (set_code (s_a s i) k)); cbn; exact Hk.
      * unfold first_err. destruct (a_e (set_code (s_a s i) k)); cbn; auto.
    + apply (INV_holder s i _ _ HI Hh); cbn.
      * reflexivity.
      * apply wire_ok_flush; assumption.
      * rewrite Hh in Hk. exact Hk.
      * intros _. exact Hcl.
  - (* OTest *)
    apply safe_test in Hsafe. destruct Hsafe as (Hh & Hu & Hk).
    destruct (o_cl (s_o s)) eqn:Hcl; injection Hstep as <-.
    + apply INV_local; [exact HI| |cbn; auto].
      cbn. rewrite Hh. eapply safe_skip; eassumption.
    + apply (INV_holder s i _ (s_o s) HI Hh eq_refl Hw); cbn; [exact Hk|auto].
  - (* OMark *)
    injection Hstep as <-. apply safe_mark in Hsafe. destruct Hsafe as (Hh & Hk).
    apply (INV_holder s i _ _ HI Hh); cbn.
    + apply o_mark_lock.
    + apply wire_ok_mark. exact Hw.
    + rewrite Hh in Hk. exact Hk.
    + discriminate.
  - (* OWriteTag *)
    injection Hstep as <-. apply safe_writetag in Hsafe. destruct Hsafe as (Hh & Hk).
    assert (Ha' : forall a', a_code a' = k -> a_chk a' = a_chk (s_a s i) ->
              INV (mkS (o_writetag (s_o s)) (s_i s) (upd (s_a s) i a'))).
    { intros a' E1 E2. apply (INV_holder s i _ _ HI Hh).
      - apply o_writetag_lock.
      - apply wire_ok_writetag. exact Hw.
      - rewrite E1, E2. rewrite Hh in Hk. exact Hk.
      - rewrite E2. intro Hc. rewrite o_writetag_cl. exact (proj2 (Hchk Hc)). }
    destruct (o_pend (s_o s) && o_wfail (s_o s)); [destruct rep|]; apply Ha'; try reflexivity;
      unfold first_err; destruct (a_e (set_code (s_a s i) k)); reflexivity.
  - (* OSLock *)
    destruct (o_sl (s_o s)); [discriminate|]. injection Hstep as <-.
    apply safe_slock in Hsafe. apply (INV_other_out s i _ _ HI); cbn; auto. exact (proj2 Hsafe).
  - (* OSUnlock *)
    injection Hstep as <-. apply safe_sunlock in Hsafe.
    apply (INV_other_out s i _ _ HI); cbn; auto. exact (proj2 Hsafe).
  - (* OStall *)
    injection Hstep as <-. apply safe_stall in Hsafe.
    apply (INV_other_out s i _ _ HI); cbn; auto. exact (proj2 Hsafe).
  - (* OFault *)
    injection Hstep as <-. apply safe_fault in Hsafe.
    destruct HI as [Hw0 Ha0]. split; [apply wire_ok_setfault; exact Hw0|].
    intro j. unfold actor_ok, holds. cbn [s_o s_a o_setfault o_lock o_cl].
    destruct (Nat.eq_dec j i) as [->|Hn].
    + rewrite upd_same. cbn. split; [exact (proj2 Hsafe)|exact Hchk].
    + rewrite upd_other by exact Hn. exact (Ha0 j).
  - (* ORet *)
    injection Hstep as <-. apply safe_ret in Hsafe. destruct Hsafe as (Hh & Hk).
    apply INV_local; [exact HI|exact Hk|cbn; auto].
  - (* OSetDeadline *) injection Hstep as <-. apply INV_local; [exact HI|exact Hsafe|auto].
  - (* OFire *)
    injection Hstep as <-.
    apply safe_fire in Hsafe. apply INV_local; [exact HI|exact (proj2 Hsafe)|auto].
  - (* OPeer *) injection Hstep as <-. apply INV_local; [exact HI|exact Hsafe|auto].
  - (* OAcqIn *)
    destruct (i_lk (s_i s)); [discriminate|]. injection Hstep as <-.
    apply safe_acqin in Hsafe. apply INV_local; [exact HI|exact (proj2 Hsafe)|auto].
  - (* ORelIn *) injection Hstep as <-. apply INV_local; [exact HI|exact Hsafe|auto].
  - (* OCloseInput *)
    destruct (i_lk (s_i s)); [discriminate|]. injection Hstep as <-.
    apply safe_closeinput in Hsafe. apply INV_local; [exact HI|exact (proj2 Hsafe)|auto].
  - (* OProbe *)
    destruct (i_lk (s_i s)); [discriminate|]. injection Hstep as <-.
    apply safe_probe in Hsafe. apply INV_local; [exact HI|exact (proj2 Hsafe)|auto].
  - (* OServeTop *)
    cbn [safe] in Hsafe. apply negb_true_iff in Hsafe.
    destruct (i_done (s_i s)); injection Hstep as <-.
    + apply INV_local; [exact HI| |cbn; auto]. cbn [a_code a_chk set_exit set_code]. rewrite Hsafe. apply safe_shutdown.
    + apply INV_local; [exact HI| |cbn; auto]. cbn [a_code a_chk set_exit set_code]. rewrite Hsafe. reflexivity.
  - (* OServeRead *)
    cbn [safe] in Hsafe. apply negb_true_iff in Hsafe.
    destruct (i_rdexp (s_i s)).
    + injection Hstep as <-. apply INV_local; [exact HI| |cbn; auto]. cbn [a_code a_chk set_exit set_code]. rewrite Hsafe. reflexivity.
    + destruct (i_q (s_i s)) as [|ev q]; [discriminate|]. injection Hstep as <-.
      apply INV_local; [exact HI| |cbn; auto]. cbn [a_code a_chk set_exit set_code]. rewrite Hsafe.
      destruct ev as [| | |reply fail n]; try reflexivity.
      destruct reply; [reflexivity|]. destruct fail; reflexivity.
  - (* OHEmit *)
    cbn [safe] in Hsafe.
    destruct (o_cl (s_o s)) eqn:Hcl; injection Hstep as <-.
    + apply INV_local; [exact HI| |cbn; auto]. cbn [a_code a_chk set_exit set_code]. rewrite Hsafe. reflexivity.
    + apply (INV_holder s i _ _ HI Hsafe); cbn.
      * reflexivity.
      * apply wire_ok_emit; [exact Hw|discriminate].
      * destruct fail; reflexivity.
      * intros _. exact Hcl.
  - (* OExit *)
    cbn [safe] in Hsafe. apply negb_true_iff in Hsafe. injection Hstep as <-.
    apply INV_local; [exact HI| |cbn; auto]. cbn [a_code a_chk set_exit set_code]. rewrite Hsafe.
    destruct via_senderror; [apply safe_senderr|apply safe_shutdown].
Qed.

(* the invariant holds in every reachable state *)
Theorem INV_run : forall ds ks tr s, run step (init ds ks) tr = Some s -> INV s.
Proof.
  intros ds ks. apply (invariant_run state nat step INV); [apply INV_init|].
  intros s l s' H1 H2. exact (INV_step s l s' H1 H2).
Qed.
