(* C11/Examples.v — non-vacuity: a concrete instance of the external functions
   satisfying every assumption, canonical addresses, and worked examples. *)
From XV Require Import lib.Bytes gen.Jid C11.Model C11.Proofs C11.ProofsHeap.

(* the assumptions [ext_ok] are satisfiable *)
Example ex_ext_ok : ext_ok toy.
Proof. exact toy_ok. Qed.

Definition juliet : jid := new_unsafe (str "juliet") (str "example.com") (str "balcony").

Example ex_new : new toy (str "juliet") (str "example.com.") (str "balcony") = Ok juliet.
Proof. vm_compute. reflexivity. Qed.

Example ex_parse : parse toy (str "juliet@example.com/balcony") = Ok juliet.
Proof. vm_compute. reflexivity. Qed.

(* canonical, returned and non-zero instances exist *)
Example ex_canon : canon toy juliet.
Proof. exact (new_returns_canon toy toy_ok _ _ _ _ ex_new). Qed.

Example ex_returned : returned toy juliet /\ juliet <> zero.
Proof. split; [exact (R_new toy _ _ _ _ ex_new) | discriminate]. Qed.

Example ex_string : string_of juliet = str "juliet@example.com/balcony".
Proof. vm_compute. reflexivity. Qed.

(* a resourcepart may contain both separators; splitting follows the first '/' *)
Example ex_split : split_string true (str "a@b/c@d/e") = ((str "a", str "b", str "c@d/e"), ENone).
Proof. vm_compute. reflexivity. Qed.

Example ex_split_errors :
  snd (split_string true (str "a@b/")) = ENoRes /\ snd (split_string true (str "@b")) = ENoLocal /\
  snd (split_string false (str "@b/")) = ENone.
Proof. vm_compute. repeat split. Qed.

(* the witnesses of the repaired defects, on the model of the repaired code *)
Example ex_trailing_dots :
  normalize_domain toy (str "example.com..") = Er EDomainDot /\
  normalize_domain toy (str "example.com.") = Ok (str "example.com") /\
  normalize_domain toy (str "..") = Er EDomainDot.
Proof. vm_compute. repeat split. Qed.

Example ex_with_on_zero :
  with_local toy zero (str "foo") = (zero, EDomainLen) /\
  with_resource toy zero (str "foo") = (zero, EDomainLen) /\
  with_domain toy zero (str "example.com") = (new_unsafe [] (str "example.com") [], ENone).
Proof. vm_compute. repeat split. Qed.

Example ex_attr_empty_resets : unmarshal_attr toy juliet [] = (zero, ENone).
Proof. vm_compute. reflexivity. Qed.

(* IP literals skip IDNA; a forbidden localpart character is rejected *)
Example ex_ip : new toy (str "a") (str "[::1]") [] = Ok (new_unsafe (str "a") (str "[::1]") []) /\
                new toy (str "a") (str "127.0.0.1") [] = Ok (new_unsafe (str "a") (str "127.0.0.1") []).
Proof. vm_compute. split; reflexivity. Qed.

Example ex_forbidden : new toy (str "a:b") (str "example.com") [] = Er EForbidden.
Proof. vm_compute. reflexivity. Qed.

(* utf8_valid agrees with unicode/utf8 on the classic corner cases *)
Example ex_utf8 :
  utf8_valid (hex "c3a9e282acf09f9880") = true /\ utf8_valid (hex "c080") = false /\
  utf8_valid (hex "eda080") = false /\ utf8_valid (hex "f4908080") = false /\
  utf8_valid (hex "e08080") = false /\ utf8_valid (hex "c3") = false /\ utf8_valid (hex "ff") = false.
Proof. vm_compute. repeat split. Qed.

(* hypotheses of the replacement theorems are met by a concrete chain *)
Example ex_chain :
  exists j0 j1, new toy [] (str "example.com") [] = Ok j0 /\
    with_local toy j0 (str "juliet") = (j1, ENone) /\ with_resource toy j1 (str "balcony") = (juliet, ENone).
Proof.
  exists (new_unsafe [] (str "example.com") []), (new_unsafe (str "juliet") (str "example.com") []).
  vm_compute. repeat split.
Qed.

(* ---- histories over the heap of backing arrays ---- *)

(* the history of seeded change C11-m6 on the model of the code as it is: the
   bare value shares the array of the full one (same array, nothing allocated),
   and both WithResource results leave every earlier value alone *)
Definition demo_prog : list hop :=
  [HNew (str "juliet") (str "example.com") (str "balcony"); HBare 0;
   HWithR 1 (str "orchard"); HWithR 1 (str "chamber")].

Example ex_history_views :
  map string_of (views (h_run toy (fun n => n) st0 demo_prog)) =
  [str "juliet@example.com/balcony"; str "juliet@example.com";
   str "juliet@example.com/orchard"; str "juliet@example.com/chamber"].
Proof. vm_compute. reflexivity. Qed.

Example ex_bare_shares_the_array :
  let st := h_run toy (fun n => n) st0 demo_prog in
  s_arr (h_data (hreg st 1)) = s_arr (h_data (hreg st 0)) /\
  s_cap (h_data (hreg st 1)) = 24 /\ s_len (h_data (hreg st 1)) = 17.
Proof. vm_compute. repeat split. Qed.

Example ex_history_clean :
  clean_from [] demo_prog (st_errs (h_run toy (fun n => n) st0 demo_prog)) = [true; true; true; true].
Proof. vm_compute. reflexivity. Qed.

(* the heap layer is able to express the defect: WithResource as in the seeded
   change (append straight onto the bare slice when the receiver is bare)
   overwrites the resourcepart of the value the bare one was taken from *)
Definition h_with_resource_inplace (X : ext) (slack : nat -> nat) (h : heap) (j : hjid) (r : bytes)
  : heap * (hjid * jerr) :=
  let b := h_bare j in
  if negb (s_len (h_data j) =? s_len (h_data b)) then h_with_resource X slack h j r
  else if is_nil r then (h, (b, ENone))
  else match x_opaque X r with
       | None => (h, (hzero, EPrecis))
       | Some r' => let '(h2, data2) := sl_append slack h (h_data b) r' in
                    (h2, (mkh data2 (h_ll j) (h_dl j), resource_checks r'))
       end.

Example ex_inplace_design_breaks_independence :
  let st := h_run toy (fun n => n) st0 [HNew (str "juliet") (str "example.com") (str "balcony"); HBare 0] in
  let '(h', _) := h_with_resource_inplace toy (fun n => n) (st_heap st) (hreg st 1) (str "orchard") in
  string_of (view (st_heap st) (hreg st 0)) = str "juliet@example.com/balcony" /\
  string_of (view h' (hreg st 0)) = str "juliet@example.com/orchard" /\
  ~ pres (st_heap st) h'.
Proof.
  vm_compute. split; [reflexivity | split; [reflexivity|]].
  intros [_ P]. specialize (P 0 (le_n 1)). discriminate P.
Qed.
