(* C11/Properties.v — the property theorems of C11 and nothing else.
   "JIDs are canonical: parse/format round-trips and parts obey the address rules."

   X : ext  is the record of external functions (PRECIS UsernameCaseMapped and
   OpaqueString, IDNA ToUnicode, net.ParseIP); [ext_ok X] are the assumptions
   about them (idempotent on their own output, output valid UTF-8, normalised
   domain and IP literals without '/' and '@', IP literals of 1..1023 bytes).
   Theorems without X hold for all byte strings with no assumption. *)
From XV Require Import lib.Bytes gen.Jid C11.Model C11.Proofs C11.ProofsHeap.

(* ---- splitting: first '/', then first '@' (every byte string, both modes) ---- *)

Theorem C11_split_first_separators : forall safe s,
  split_spec safe s (fst (split_string safe s)) (snd (split_string safe s)).
Proof. exact split_string_spec. Qed.
Print Assumptions C11_split_first_separators.

(* splitting the string form [l@]d[/r] gives back l, d, r *)
Theorem C11_split_of_string_form : forall safe l d r,
  ~ In c_slash l -> ~ In c_at l -> ~ In c_slash d -> (l = [] -> ~ In c_at d) ->
  split_string safe (assemble l d r) = ((l, d, r), ENone).
Proof. exact split_assemble. Qed.
Print Assumptions C11_split_of_string_form.

(* ---- String, the part accessors, Bare, Domain and Equal agree (any JID value,
        including the ones built by NewUnsafe) ---- *)

Theorem C11_accessors_agree : forall j, wf j ->
  let l := localpart j in let d := domainpart j in let r := resourcepart j in
  string_of j = assemble l d r /\ j_data j = l ++ d ++ r /\
  j_ll j = length l /\ j_dl j = length d /\
  (localpart (bare j) = l /\ domainpart (bare j) = d /\ resourcepart (bare j) = []) /\
  (localpart (domain j) = [] /\ domainpart (domain j) = d /\ resourcepart (domain j) = []) /\
  wf (bare j) /\ wf (domain j) /\
  string_of (bare j) = assemble l d [] /\ string_of (domain j) = assemble [] d [].
Proof. exact accessors_agree. Qed.
Print Assumptions C11_accessors_agree.

Theorem C11_equal_iff_parts : forall j j2, wf j -> wf j2 ->
  (equal j j2 = true <->
   localpart j = localpart j2 /\ domainpart j = domainpart j2 /\ resourcepart j = resourcepart j2).
Proof. exact equal_iff_parts. Qed.
Print Assumptions C11_equal_iff_parts.

Theorem C11_equal_iff_same : forall j j2, wf j -> wf j2 -> (equal j j2 = true <-> j = j2).
Proof. exact equal_iff_eq. Qed.
Print Assumptions C11_equal_iff_same.

(* NewUnsafe / ParseUnsafe keep the parts exactly as given / as split *)
Theorem C11_unsafe_parts : forall l d r,
  wf (new_unsafe l d r) /\ localpart (new_unsafe l d r) = l /\
  domainpart (new_unsafe l d r) = d /\ resourcepart (new_unsafe l d r) = r.
Proof. exact (fun l d r => conj (nu_wf l d r) (conj (nu_local l d r) (conj (nu_domain l d r) (nu_resource l d r)))). Qed.
Print Assumptions C11_unsafe_parts.

(* ---- every address returned without error is canonical ---- *)

(* [returned X j]: j is the zero value or was produced without error by New,
   Parse, WithLocal/WithDomain/WithResource, Bare, Domain, UnmarshalXMLAttr or
   UnmarshalXML, starting from returned values. *)
Theorem C11_returned_canonical : forall X, ext_ok X -> forall j,
  returned X j -> j = zero \/ canon X j.
Proof. exact returned_canonical. Qed.
Print Assumptions C11_returned_canonical.

(* parsing the string form of a canonical address yields an equal address *)
Theorem C11_parse_string_roundtrip : forall X, ext_ok X -> forall j, canon X j ->
  exists j', parse X (string_of j) = Ok j' /\ equal j j' = true /\ equal j' j = true /\
             string_of j' = string_of j.
Proof. exact roundtrip_equal. Qed.
Print Assumptions C11_parse_string_roundtrip.

Theorem C11_parse_idempotent : forall X, ext_ok X -> forall s j,
  parse X s = Ok j -> parse X (string_of j) = Ok j.
Proof. exact parse_idempotent. Qed.
Print Assumptions C11_parse_idempotent.

Theorem C11_string_injective : forall X, ext_ok X -> forall j j2,
  canon X j -> canon X j2 -> string_of j = string_of j2 -> j = j2.
Proof. exact canon_string_inj. Qed.
Print Assumptions C11_string_injective.

(* normalizeDomainpart is idempotent (after the repair of the trailing-dot defect) *)
Theorem C11_domain_normalization_idempotent : forall X, ext_ok X -> forall d d',
  normalize_domain X d = Ok d' -> normalize_domain X d' = Ok d'.
Proof. exact norm_idem. Qed.
Print Assumptions C11_domain_normalization_idempotent.

(* ---- the parts obey the address rules ---- *)

Theorem C11_parts_wellformed : forall X, ext_ok X -> forall j, canon X j ->
  let l := localpart j in let d := domainpart j in let r := resourcepart j in
  utf8_valid l = true /\ utf8_valid d = true /\ utf8_valid r = true /\
  (nlen l <= 1023)%N /\ (1 <= nlen d <= 1023)%N /\ (nlen r <= 1023)%N /\
  (forall c, In c rfc7622_forbidden_local -> ~ In c l) /\
  ~ In c_slash d /\ ~ In c_at d /\
  j_data j = l ++ d ++ r /\ j_ll j = length l /\ j_dl j = length d.
Proof. exact canon_parts_wellformed. Qed.
Print Assumptions C11_parts_wellformed.

(* the constants of the source are RFC 7622's *)
Theorem C11_tables_are_rfc7622 :
  jid_forbidden_local = rfc7622_forbidden_local /\ jid_local_max = 1023%N /\
  jid_resource_max = 1023%N /\ jid_domain_min = 1%N /\ jid_domain_max = 1023%N.
Proof. exact (conj tbl_forbidden_is_rfc7622 (conj tbl_local_max (conj tbl_resource_max (conj tbl_domain_min tbl_domain_max)))). Qed.
Print Assumptions C11_tables_are_rfc7622.

(* ---- building from parts, replacing one part and parsing agree ---- *)

(* replacing a part of a canonical address (only the new part is validated)
   is the same as rebuilding the address with New from all three parts *)
Theorem C11_with_local_agrees_with_new : forall X, ext_ok X -> forall j x j', canon X j ->
  (with_local X j x = (j', ENone) <-> new X x (domainpart j) (resourcepart j) = Ok j').
Proof. exact with_local_agrees. Qed.
Print Assumptions C11_with_local_agrees_with_new.

Theorem C11_with_domain_agrees_with_new : forall X j x j', canon X j ->
  (with_domain X j x = (j', ENone) <-> new X (localpart j) x (resourcepart j) = Ok j').
Proof. exact with_domain_agrees. Qed.
Print Assumptions C11_with_domain_agrees_with_new.

Theorem C11_with_resource_agrees_with_new : forall X, ext_ok X -> forall j x j', canon X j ->
  (with_resource X j x = (j', ENone) <-> new X (localpart j) (domainpart j) x = Ok j').
Proof. exact with_resource_agrees. Qed.
Print Assumptions C11_with_resource_agrees_with_new.

Theorem C11_new_by_replacement : forall X, ext_ok X -> forall l d r j,
  (new X l d r = Ok j <->
   exists j0 j1, new X [] d [] = Ok j0 /\ with_local X j0 l = (j1, ENone) /\
                 with_resource X j1 r = (j, ENone)) /\
  (new X l d r = Ok j <->
   exists j0 j1, new X [] d [] = Ok j0 /\ with_resource X j0 r = (j1, ENone) /\
                 with_local X j1 l = (j, ENone)).
Proof. exact (fun X HX l d r j => conj (new_iff_local_then_resource X HX l d r j) (new_iff_resource_then_local X HX l d r j)). Qed.
Print Assumptions C11_new_by_replacement.

Theorem C11_new_parse_agree : forall X l d r,
  ~ In c_slash l -> ~ In c_at l -> ~ In c_slash d -> (l = [] -> ~ In c_at d) ->
  parse X (assemble l d r) = new X l d r.
Proof. exact parse_assemble_new. Qed.
Print Assumptions C11_new_parse_agree.

(* ---- XML attribute and element encodings ---- *)

Theorem C11_xml_attr_roundtrip : forall X, ext_ok X -> forall j j0,
  returned X j -> unmarshal_attr X j0 (marshal_attr j) = (j, ENone).
Proof. exact xml_attr_roundtrip. Qed.
Print Assumptions C11_xml_attr_roundtrip.

(* full statement for elements: false for the zero value (known finding) *)
Definition C11_xml_element_roundtrip_statement : Prop := xml_element_roundtrip_statement.

Theorem C11_xml_element_roundtrip_partial : forall X, ext_ok X -> forall j j0,
  returned X j -> j <> zero -> unmarshal_xml X j0 (marshal_xml j) = (j, ENone).
Proof. exact xml_element_partial. Qed.
Print Assumptions C11_xml_element_roundtrip_partial.

Theorem C11_xml_element_roundtrip_refuted :
  exists X, ext_ok X /\ exists j j0, returned X j /\ unmarshal_xml X j0 (marshal_xml j) <> (j, ENone).
Proof. exact xml_element_zero_refuted. Qed.
Print Assumptions C11_xml_element_roundtrip_refuted.

(* ---- values share backing arrays: histories of calls ----

   The theorems above are about values.  Go JIDs hold slices: Bare, Domain,
   Copy, WithResource("") and assignment share one backing array between
   several values, and append writes in place when the capacity suffices.  The
   heap layer of Model.v runs every function as a transition on a heap of
   arrays (make, copy, append, reslice as in the source), for EVERY capacity
   policy [slack].  [h_run X slack st0 prog] runs a program: every call puts
   its result in a new register; [views st] are the addresses all registers
   denote now. *)

(* one call, from any valid state: every array that existed is unchanged, the
   result is valid, and it denotes what the value-level function computes *)
Theorem C11_call_writes_only_fresh_arrays : forall X slack st o, st_ok st ->
  op_spec (st_heap st) (h_call X slack st o) (v_call X (views st) o).
Proof. exact h_call_spec. Qed.
Print Assumptions C11_call_writes_only_fresh_arrays.

(* every history computes, register by register, the value-level program: the
   value-level theorems apply to every value of every history *)
Theorem C11_history_refines_values : forall X slack prog,
  let st := h_run X slack st0 prog in
  (views st, st_errs st) = v_run X ([], []) prog.
Proof. exact history_refines. Qed.
Print Assumptions C11_history_refines_values.

(* no later call, on any value, changes a value returned earlier *)
Theorem C11_results_independent_of_later_calls : forall X slack pre post,
  let st := h_run X slack st0 pre in
  let st' := h_run X slack st post in
  pres (st_heap st) (st_heap st') /\
  forall i, i < length (st_regs st) ->
    hreg st' i = hreg st i /\ view (st_heap st') (hreg st' i) = view (st_heap st) (hreg st i).
Proof. exact history_independent. Qed.
Print Assumptions C11_results_independent_of_later_calls.

(* canonical for ever: a register produced without error by the validating API
   (from such registers) denotes the zero value or a canonical address at the
   end of every history, whatever was called after it *)
Theorem C11_history_values_canonical : forall X, ext_ok X -> forall slack prog,
  let st := h_run X slack st0 prog in
  forall k, nth k (clean_from [] prog (st_errs st)) true = true ->
    view (st_heap st) (hreg st k) = zero \/ canon X (view (st_heap st) (hreg st k)).
Proof. exact history_canonical. Qed.
Print Assumptions C11_history_values_canonical.

(* the fact of the source the heap layer rests on, re-read on every run: every
   slice the package writes through is made in the same function, and the
   functions that write are the ones modelled with writes *)
Theorem C11_write_sites_are_fresh :
  forallb (fun s => match snd s with WFresh => true | WShared => false end) jid_write_sites = true /\
  jid_writers = [str "New"; str "WithLocal"; str "WithDomain"; str "WithResource"; str "NewUnsafe"].
Proof. exact (conj tbl_write_targets_fresh tbl_writers_are_modelled). Qed.
Print Assumptions C11_write_sites_are_fresh.
