(* C11/Proofs.v — specification-level definitions and lemmas for the JID model. *)
From Coq Require Import ZifyBool ZifyNat ZifyN.
From XV Require Import lib.Bytes gen.Jid C11.Model.

(* ---------- table facts, re-checked whenever gen/Jid.v changes ---------- *)

Definition rfc7622_forbidden_local : bytes := str """&'/:<>@".

Lemma tbl_forbidden_is_rfc7622 : jid_forbidden_local = rfc7622_forbidden_local.
Proof. vm_compute. reflexivity. Qed.

Lemma tbl_local_max : jid_local_max = 1023%N.
Proof. vm_compute. reflexivity. Qed.
Lemma tbl_resource_max : jid_resource_max = 1023%N.
Proof. vm_compute. reflexivity. Qed.
Lemma tbl_domain_min : jid_domain_min = 1%N.
Proof. vm_compute. reflexivity. Qed.
Lemma tbl_domain_max : jid_domain_max = 1023%N.
Proof. vm_compute. reflexivity. Qed.

Lemma tbl_forbidden_has_slash : in_bytes c_slash jid_forbidden_local = true.
Proof. vm_compute. reflexivity. Qed.
Lemma tbl_forbidden_has_at : in_bytes c_at jid_forbidden_local = true.
Proof. vm_compute. reflexivity. Qed.

(* ---------- list helpers ---------- *)

Lemma is_nil_true {A} (l : list A) : is_nil l = true <-> l = [].
Proof. destruct l; simpl; split; congruence. Qed.

Lemma is_nil_false {A} (l : list A) : is_nil l = false <-> l <> [].
Proof. destruct l; simpl; split; congruence. Qed.

Lemma firstn_len_app {A} (l x : list A) : firstn (length l) (l ++ x) = l.
Proof. induction l as [|a l IH]; simpl; [destruct x; reflexivity | rewrite IH; reflexivity]. Qed.

Lemma skipn_len_app {A} (l x : list A) : skipn (length l) (l ++ x) = x.
Proof. induction l as [|a l IH]; simpl; [reflexivity | exact IH]. Qed.

Lemma skipn_add {A} (a b : nat) (l : list A) : skipn b (skipn a l) = skipn (a + b) l.
Proof.
  revert l; induction a as [|a IH]; intro l; [reflexivity|].
  destruct l as [|x l]; simpl; [destruct b; reflexivity | apply IH].
Qed.

Lemma app_inj_len {A} (a a' b b' : list A) :
  length a = length a' -> a ++ b = a' ++ b' -> a = a' /\ b = b'.
Proof.
  revert a'; induction a as [|x a IH]; intros [|y a'] HL HE; simpl in *; try discriminate.
  - split; [reflexivity | exact HE].
  - inversion HE; subst. destruct (IH a') as [E1 E2]; [lia | assumption |]. subst. split; reflexivity.
Qed.

Lemma nlen_nil_iff (s : bytes) : (nlen s = 0)%N <-> s = [].
Proof. unfold nlen. destruct s; simpl; split; intro H; try reflexivity; try discriminate; lia. Qed.

(* ---------- cut: the first occurrence of a byte ---------- *)

Lemma cut_some c s a b : cut c s = Some (a, b) -> s = a ++ c :: b /\ ~ In c a.
Proof.
  revert a b; induction s as [|x s IH]; intros a b H; simpl in H; [discriminate|].
  destruct (byte_eqb x c) eqn:E.
  - apply byte_eqb_eq in E. inversion H; subst. split; [reflexivity | intros []].
  - destruct (cut c s) as [[a' b']|] eqn:C; [|discriminate].
    inversion H; subst. destruct (IH a' b eq_refl) as [E1 E2]. subst s.
    split; [reflexivity|]. intros [F|F]; [apply byte_eqb_neq in E; congruence | contradiction].
Qed.

Lemma cut_none c s : cut c s = None -> ~ In c s.
Proof.
  induction s as [|x s IH]; intro H; simpl in H; [intros []|].
  destruct (byte_eqb x c) eqn:E; [discriminate|].
  destruct (cut c s) as [[a' b']|] eqn:C; [discriminate|].
  intros [F|F]; [apply byte_eqb_neq in E; congruence | exact (IH eq_refl F)].
Qed.

Lemma cut_app c a b : ~ In c a -> cut c (a ++ c :: b) = Some (a, b).
Proof.
  induction a as [|x a IH]; intro H; simpl.
  - rewrite byte_eqb_refl. reflexivity.
  - destruct (byte_eqb x c) eqn:E.
    + apply byte_eqb_eq in E. exfalso. apply H. left. exact E.
    + rewrite IH; [reflexivity|]. intro F. apply H. right. exact F.
Qed.

Lemma cut_notin c s : ~ In c s -> cut c s = None.
Proof.
  induction s as [|x s IH]; intro H; simpl; [reflexivity|].
  destruct (byte_eqb x c) eqn:E.
  - apply byte_eqb_eq in E. exfalso. apply H. left. exact E.
  - rewrite IH; [reflexivity|]. intro F. apply H. right. exact F.
Qed.

(* ---------- splitString ---------- *)

(* The string form: [l "@"] d ["/" r]. *)
Definition assemble (l d r : bytes) : bytes :=
  (if is_nil l then d else l ++ c_at :: d) ++ (if is_nil r then [] else c_slash :: r).

(* RFC 7622 §3.2 as a relation: cut at the first '/', then cut what is before
   it at the first '@'; in safe mode an empty resourcepart after a '/' and an
   empty localpart before an '@' are errors. *)
Definition split_spec (safe : bool) (s : bytes) (p : bytes * bytes * bytes) (e : jerr) : Prop :=
  exists s1 r,
    ((~ In c_slash s /\ s1 = s /\ r = []) \/ (s = s1 ++ c_slash :: r /\ ~ In c_slash s1)) /\
    (if safe && in_bytes c_slash s && is_nil r then p = ([], [], []) /\ e = ENoRes
     else (~ In c_at s1 /\ p = ([], s1, r) /\ e = ENone) \/
          (exists a b, s1 = a ++ c_at :: b /\ ~ In c_at a /\
             if safe && is_nil a then p = ([], [], r) /\ e = ENoLocal
             else p = (a, b, r) /\ e = ENone)).

Definition split2 (safe : bool) (s1 r : bytes) : (bytes * bytes * bytes) * jerr :=
  match cut c_at s1 with
  | None => (([], s1, r), ENone)
  | Some (a, b) => if safe && is_nil a then (([], [], r), ENoLocal) else ((a, b, r), ENone)
  end.

Lemma split_second safe s1 r :
  (~ In c_at s1 /\ fst (split2 safe s1 r) = ([], s1, r) /\ snd (split2 safe s1 r) = ENone) \/
  (exists a b, s1 = a ++ c_at :: b /\ ~ In c_at a /\
     if safe && is_nil a then fst (split2 safe s1 r) = ([], [], r) /\ snd (split2 safe s1 r) = ENoLocal
     else fst (split2 safe s1 r) = (a, b, r) /\ snd (split2 safe s1 r) = ENone).
Proof.
  unfold split2. destruct (cut c_at s1) as [[a b]|] eqn:C.
  - right. exists a, b. destruct (cut_some _ _ _ _ C) as [E N]. split; [exact E|]. split; [exact N|].
    destruct (safe && is_nil a); simpl; split; reflexivity.
  - left. split; [exact (cut_none _ _ C)|]. split; reflexivity.
Qed.

Lemma split_string_spec safe s :
  split_spec safe s (fst (split_string safe s)) (snd (split_string safe s)).
Proof.
  unfold split_spec, split_string.
  destruct (cut c_slash s) as [[a b]|] eqn:C.
  - destruct (cut_some _ _ _ _ C) as [E N]. exists a, b.
    split; [right; split; assumption|].
    assert (HS : in_bytes c_slash s = true).
    { apply in_bytes_In. rewrite E. apply in_or_app. right. left. reflexivity. }
    rewrite HS, andb_true_r.
    destruct (safe && is_nil b) eqn:B.
    + simpl. split; reflexivity.
    + exact (split_second safe a b).
  - exists s, []. split; [left; split; [exact (cut_none _ _ C) | split; reflexivity]|].
    assert (HS : in_bytes c_slash s = false).
    { destruct (in_bytes c_slash s) eqn:F; [|reflexivity].
      apply in_bytes_In in F. exfalso. exact (cut_none _ _ C F). }
    rewrite HS, andb_false_r. simpl andb. cbv iota.
    exact (split_second safe s []).
Qed.

Lemma split_assemble safe l d r :
  ~ In c_slash l -> ~ In c_at l -> ~ In c_slash d -> (l = [] -> ~ In c_at d) ->
  split_string safe (assemble l d r) = ((l, d, r), ENone).
Proof.
  intros Hl1 Hl2 Hd1 Hd2. unfold split_string, assemble.
  set (h := if is_nil l then d else l ++ c_at :: d).
  assert (Hh : ~ In c_slash h).
  { unfold h. destruct l as [|x l]; simpl is_nil; cbv iota; [exact Hd1|].
    intro F. apply in_app_or in F. destruct F as [F|[F|F]]; [exact (Hl1 F) | discriminate F | exact (Hd1 F)]. }
  assert (Hcut : match cut c_at h with
                 | None => (([], h, r), ENone)
                 | Some (a, b) => if safe && is_nil a then (([], [], r), ENoLocal) else ((a, b, r), ENone)
                 end = ((l, d, r), ENone)).
  { unfold h. destruct l as [|x l]; simpl is_nil; cbv iota.
    - rewrite (cut_notin c_at d (Hd2 eq_refl)). reflexivity.
    - rewrite (cut_app c_at (x :: l) d Hl2). simpl is_nil. rewrite andb_false_r. reflexivity. }
  destruct r as [|y r]; simpl is_nil; cbv iota.
  - rewrite app_nil_r. rewrite (cut_notin c_slash h Hh). exact Hcut.
  - rewrite (cut_app c_slash h (y :: r) Hh). simpl is_nil. rewrite andb_false_r. exact Hcut.
Qed.

(* ---------- the packed representation: well-formedness and normal form ---------- *)

Definition wf (j : jid) : Prop := j_ll j + j_dl j <= length (j_data j).

Lemma nu_local l d r : localpart (new_unsafe l d r) = l.
Proof. unfold localpart, new_unsafe; cbn [j_ll j_data]. apply firstn_len_app. Qed.

Lemma nu_domain l d r : domainpart (new_unsafe l d r) = d.
Proof. unfold domainpart, new_unsafe; cbn [j_ll j_dl j_data]. rewrite skipn_len_app. apply firstn_len_app. Qed.

Lemma nu_resource l d r : resourcepart (new_unsafe l d r) = r.
Proof.
  unfold resourcepart, new_unsafe; cbn [j_ll j_dl j_data].
  rewrite app_assoc, <- app_length. apply skipn_len_app.
Qed.

Lemma nu_wf l d r : wf (new_unsafe l d r).
Proof. unfold wf, new_unsafe; cbn [j_ll j_dl j_data]. rewrite !app_length. lia. Qed.

Lemma wf_nu j : wf j -> j = new_unsafe (localpart j) (domainpart j) (resourcepart j).
Proof.
  destruct j as [data ll dl]. unfold wf, new_unsafe, localpart, domainpart, resourcepart; cbn [j_ll j_dl j_data].
  intro H.
  assert (E : firstn ll data ++ firstn dl (skipn ll data) ++ skipn (ll + dl) data = data).
  { rewrite <- skipn_add. rewrite firstn_skipn. apply firstn_skipn. }
  rewrite E. f_equal.
  - rewrite firstn_length. lia.
  - rewrite firstn_length, skipn_length. lia.
Qed.

Lemma nu_inj l d r l2 d2 r2 :
  new_unsafe l d r = new_unsafe l2 d2 r2 -> l = l2 /\ d = d2 /\ r = r2.
Proof.
  unfold new_unsafe. intro H. inversion H as [[H1 H2 H3]].
  destruct (app_inj_len _ _ _ _ H2 H1) as [E1 E4]. subst l2.
  destruct (app_inj_len _ _ _ _ H3 E4) as [E2 E3]. subst. repeat split.
Qed.

Lemma nu_bare l d r : bare (new_unsafe l d r) = new_unsafe l d [].
Proof.
  unfold bare, new_unsafe; cbn [j_ll j_dl j_data]. f_equal.
  rewrite (Nat.add_comm (length d) (length l)), <- app_length, app_assoc, firstn_len_app.
  rewrite app_nil_r. reflexivity.
Qed.

Lemma nu_domain_jid l d r : domain (new_unsafe l d r) = new_unsafe [] d [].
Proof.
  unfold domain, new_unsafe; cbn [j_ll j_dl j_data]. rewrite skipn_len_app, firstn_len_app.
  simpl. rewrite app_nil_r. reflexivity.
Qed.

Lemma nu_string l d r : string_of (new_unsafe l d r) = assemble l d r.
Proof.
  unfold string_of. rewrite nu_local, nu_domain, nu_resource.
  unfold new_unsafe, assemble; cbn [j_ll j_dl j_data].
  destruct l as [|x l].
  - change (0 <? length (@nil byte)) with false. cbn [is_nil app]. cbv iota beta.
    assert (E : (length d =? length (d ++ r) + 0) = is_nil r).
    { rewrite app_length. destruct r; simpl; [apply Nat.eqb_eq | apply Nat.eqb_neq]; lia. }
    rewrite E. destruct r; simpl; rewrite ?app_nil_r; reflexivity.
  - change (0 <? length (x :: l)) with true. cbn [is_nil]. cbv iota beta.
    assert (E : (length ((x :: l) ++ c_at :: d) =? length ((x :: l) ++ d ++ r) + 1) = is_nil r).
    { rewrite !app_length. simpl length. destruct r; simpl; [apply Nat.eqb_eq | apply Nat.eqb_neq]; lia. }
    rewrite E. destruct r; simpl; rewrite ?app_nil_r; reflexivity.
Qed.

Lemma bytes_eqb_refl a : bytes_eqb a a = true.
Proof. apply bytes_eqb_eq. reflexivity. Qed.

Lemma nu_equal l d r l2 d2 r2 :
  equal (new_unsafe l d r) (new_unsafe l2 d2 r2) = true <-> l = l2 /\ d = d2 /\ r = r2.
Proof.
  unfold equal, new_unsafe; cbn [j_ll j_dl j_data]. split.
  - destruct (length (l ++ d ++ r) =? length (l2 ++ d2 ++ r2)) eqn:EL; simpl; [|discriminate].
    intro H. apply andb_true_iff in H. destruct H as [H H3].
    apply andb_true_iff in H. destruct H as [H1 H2].
    apply bytes_eqb_eq in H1. apply Nat.eqb_eq in H2. apply Nat.eqb_eq in H3.
    destruct (app_inj_len _ _ _ _ H2 H1) as [E1 E4]. subst l2.
    destruct (app_inj_len _ _ _ _ H3 E4) as [E2 E3]. subst. repeat split.
  - intros [E1 [E2 E3]]. subst. rewrite !Nat.eqb_refl, bytes_eqb_refl. reflexivity.
Qed.

Lemma equal_iff_eq j j2 : wf j -> wf j2 -> (equal j j2 = true <-> j = j2).
Proof.
  intros W W2. rewrite (wf_nu j W), (wf_nu j2 W2). rewrite nu_equal. split.
  - intros [E1 [E2 E3]]. rewrite E1, E2, E3. reflexivity.
  - intro E. apply nu_inj in E. exact E.
Qed.

(* parse_unsafe keeps the parts exactly as split *)
Lemma parse_unsafe_parts s :
  let '(l, d, r) := fst (split_string false s) in
  localpart (fst (parse_unsafe s)) = l /\ domainpart (fst (parse_unsafe s)) = d /\
  resourcepart (fst (parse_unsafe s)) = r.
Proof.
  unfold parse_unsafe. destruct (split_string false s) as [[[l d] r] e]. cbn [fst].
  rewrite nu_local, nu_domain, nu_resource. repeat split.
Qed.
(* ---------- small facts about the pure helpers ---------- *)

Lemma in_bytes_false c s : in_bytes c s = false <-> ~ In c s.
Proof.
  split.
  - intros H F. apply in_bytes_In in F. congruence.
  - intro H. destruct (in_bytes c s) eqn:E; [|reflexivity]. apply in_bytes_In in E. contradiction.
Qed.

Lemma nosep_iff s : nosep s = true <-> ~ In c_slash s /\ ~ In c_at s.
Proof.
  unfold nosep. rewrite andb_true_iff, !negb_true_iff, !in_bytes_false. reflexivity.
Qed.

Lemma bracket_inner_some d i : bracket_inner d = Some i -> d = c_lbr :: i ++ [c_rbr].
Proof.
  unfold bracket_inner. destruct d as [|x rest]; [discriminate|].
  destruct (byte_eqb x c_lbr) eqn:E1; [|discriminate]. apply byte_eqb_eq in E1. subst x.
  destruct (rev rest) as [|y ri] eqn:ER; [discriminate|].
  destruct (byte_eqb y c_rbr) eqn:E2; simpl; [|discriminate]. apply byte_eqb_eq in E2. subst y.
  destruct (negb (is_nil ri)); [|discriminate]. intro H. inversion H; subst i.
  f_equal. rewrite <- (rev_involutive rest), ER. reflexivity.
Qed.

Lemma trim_dot_noop d : ends_dot d = false -> trim_dot d = d.
Proof.
  unfold ends_dot, trim_dot. destruct (rev d) as [|y ri]; [reflexivity|].
  intro H. rewrite H. reflexivity.
Qed.

Lemma local_checks_none l : local_checks l = ENone ->
  (nlen l <= jid_local_max)%N /\ (forall c, In c l -> in_bytes c jid_forbidden_local = false).
Proof.
  unfold local_checks. destruct (jid_local_max <? nlen l)%N eqn:E1; [discriminate|].
  destruct (existsb (fun c => in_bytes c jid_forbidden_local) l) eqn:E2; [discriminate|].
  intros _. split; [apply N.ltb_ge in E1; exact E1|].
  intros c Hc. destruct (in_bytes c jid_forbidden_local) eqn:F; [|reflexivity].
  assert (T : existsb (fun c => in_bytes c jid_forbidden_local) l = true).
  { apply existsb_exists. exists c. split; assumption. }
  congruence.
Qed.

Lemma local_checks_nosep l : local_checks l = ENone -> ~ In c_slash l /\ ~ In c_at l.
Proof.
  intro H. destruct (local_checks_none l H) as [_ F]. split; intro I; apply F in I.
  - rewrite tbl_forbidden_has_slash in I. discriminate.
  - rewrite tbl_forbidden_has_at in I. discriminate.
Qed.

Lemma resource_checks_none r : resource_checks r = ENone -> (nlen r <= jid_resource_max)%N.
Proof.
  unfold resource_checks. destruct (jid_resource_max <? nlen r)%N eqn:E; [discriminate|].
  intros _. apply N.ltb_ge in E. exact E.
Qed.

Lemma local_checks_nil : local_checks [] = ENone.
Proof. vm_compute. reflexivity. Qed.

Lemma resource_checks_nil : resource_checks [] = ENone.
Proof. vm_compute. reflexivity. Qed.

Lemma assemble_nonnil l d r : d <> [] -> is_nil (assemble l d r) = false.
Proof.
  intro H. unfold assemble. destruct l as [|x l]; simpl.
  - destruct d; [congruence | reflexivity].
  - reflexivity.
Qed.

(* ---------- assumptions about the external functions ---------- *)

Record ext_ok (X : ext) : Prop := mk_ext_ok {
  H_user_idem : forall x y, utf8_valid x = true -> x_user X x = Some y -> y <> [] -> x_user X y = Some y;
  H_user_utf8 : forall x y, utf8_valid x = true -> x_user X x = Some y -> utf8_valid y = true;
  H_opaque_idem : forall x y, utf8_valid x = true -> x_opaque X x = Some y -> y <> [] -> x_opaque X y = Some y;
  H_opaque_utf8 : forall x y, utf8_valid x = true -> x_opaque X x = Some y -> utf8_valid y = true;
  H_idna_idem : forall d y, utf8_valid d = true -> x_idna X (trim_dot d) = Some y -> x_idna X y = Some y;
  H_idna_utf8 : forall d y, utf8_valid d = true -> x_idna X (trim_dot d) = Some y -> utf8_valid y = true;
  H_idna_nosep : forall d y, utf8_valid d = true -> x_idna X (trim_dot d) = Some y -> nosep y = true;
  H_ip4_nosep : forall x, x_ip4 X x = true -> nosep x = true;
  H_ip4_len : forall x, x_ip4 X x = true -> x <> [] /\ (nlen x <= jid_domain_max)%N;
  H_ip6_nosep : forall x, x_ip6 X x = true -> nosep x = true;
  H_ip6_len : forall x, x_ip6 X x = true -> (nlen x + 2 <= jid_domain_max)%N }.

Definition fixed (f : bytes -> option bytes) (p : bytes) : Prop := p = [] \/ f p = Some p.

Lemma fixed_norm_part f p : fixed f p -> norm_part f p = Some p.
Proof.
  unfold norm_part. intros [E|E]; [subst; reflexivity|]. destruct p; [reflexivity | exact E].
Qed.

Section Canon.
Variable X : ext.
Hypothesis HX : ext_ok X.

(* ---- normalizeDomainpart ---- *)

Lemma norm_ok_cases d d' : normalize_domain X d = Ok d' ->
  utf8_valid d = true /\
  ((exists i, bracket_inner d = Some i /\ x_ip6 X i = true /\ d' = d) \/
   (x_ip4 X d = true /\ d' = d) \/
   (x_idna X (trim_dot d) = Some d' /\ (jid_domain_min <= nlen d')%N /\
    (nlen d' <= jid_domain_max)%N /\ ends_dot d' = false)).
Proof.
  unfold normalize_domain. destruct (utf8_valid d) eqn:U; simpl negb; cbv iota; [|discriminate].
  intro H. split; [reflexivity|].
  destruct (bracket_inner d) as [i|] eqn:B.
  - destruct (x_ip6 X i) eqn:I6.
    + left. exists i. inversion H; subst. split; [reflexivity|]. split; [exact I6 | reflexivity].
    + right. destruct (x_ip4 X d) eqn:I4; [left; inversion H; subst; split; reflexivity|]. right.
      destruct (x_idna X (trim_dot d)) as [d2|]; [|discriminate].
      destruct ((nlen d2 <? jid_domain_min) || (jid_domain_max <? nlen d2))%N eqn:L; [discriminate|].
      destruct (ends_dot d2) eqn:ED; [discriminate|]. inversion H; subst d2.
      apply orb_false_iff in L. destruct L as [L1 L2]. apply N.ltb_ge in L1. apply N.ltb_ge in L2.
      repeat split; assumption.
  - right. destruct (x_ip4 X d) eqn:I4; [left; inversion H; subst; split; reflexivity|]. right.
    destruct (x_idna X (trim_dot d)) as [d2|]; [|discriminate].
    destruct ((nlen d2 <? jid_domain_min) || (jid_domain_max <? nlen d2))%N eqn:L; [discriminate|].
    destruct (ends_dot d2) eqn:ED; [discriminate|]. inversion H; subst d2.
    apply orb_false_iff in L. destruct L as [L1 L2]. apply N.ltb_ge in L1. apply N.ltb_ge in L2.
    repeat split; assumption.
Qed.

Lemma norm_utf8 d d' : normalize_domain X d = Ok d' -> utf8_valid d' = true.
Proof.
  intro H. destruct (norm_ok_cases d d' H) as [U [(i & _ & _ & E) | [[_ E] | [I _]]]]; try (subst; exact U).
  exact (H_idna_utf8 X HX d d' U I).
Qed.

(* normalizeDomainpart is idempotent *)
Lemma norm_idem d d' : normalize_domain X d = Ok d' -> normalize_domain X d' = Ok d'.
Proof.
  intro H. destruct (norm_ok_cases d d' H) as [U [(i & _ & _ & E) | [[_ E] | (I & L1 & L2 & ED)]]];
    try (subst; exact H).
  pose proof (H_idna_utf8 X HX d d' U I) as U'.
  pose proof (H_idna_idem X HX d d' U I) as I'.
  unfold normalize_domain. rewrite U'. simpl negb. cbv iota.
  destruct (match bracket_inner d' with Some i => x_ip6 X i | None => false end); [reflexivity|].
  destruct (x_ip4 X d'); [reflexivity|].
  rewrite (trim_dot_noop d' ED), I'.
  assert (L : ((nlen d' <? jid_domain_min) || (jid_domain_max <? nlen d'))%N = false).
  { apply orb_false_iff. split; apply N.ltb_ge; assumption. }
  rewrite L, ED. reflexivity.
Qed.

Lemma norm_props d d' : normalize_domain X d = Ok d' ->
  d' <> [] /\ (nlen d' <= jid_domain_max)%N /\ nosep d' = true.
Proof.
  intro H. destruct (norm_ok_cases d d' H) as [U [(i & B & I6 & E) | [[I4 E] | (I & L1 & L2 & ED)]]].
  - subst d'. apply bracket_inner_some in B. subst d.
    pose proof (H_ip6_len X HX i I6) as LN. pose proof (H_ip6_nosep X HX i I6) as NS.
    split; [discriminate|]. split.
    + unfold nlen in *. simpl length. rewrite app_length. simpl length. lia.
    + apply nosep_iff. apply nosep_iff in NS. destruct NS as [N1 N2].
      split; intros [F|F]; try discriminate F; apply in_app_or in F; destruct F as [F|[F|[]]];
        try discriminate F; contradiction.
  - subst d'. destruct (H_ip4_len X HX d I4) as [NE LN]. split; [exact NE|]. split; [exact LN|].
    exact (H_ip4_nosep X HX d I4).
  - split; [|split; [exact L2 | exact (H_idna_nosep X HX d d' U I)]].
    intro E. subst d'. rewrite tbl_domain_min in L1. unfold nlen in L1. simpl in L1. lia.
Qed.

(* ---- canonical addresses ---- *)

Record canon3 (l d r : bytes) : Prop := mk_canon3 {
  c3_l_fixed : fixed (x_user X) l;
  c3_l_utf8 : utf8_valid l = true;
  c3_l_checks : local_checks l = ENone;
  c3_d : normalize_domain X d = Ok d;
  c3_r_fixed : fixed (x_opaque X) r;
  c3_r_utf8 : utf8_valid r = true;
  c3_r_checks : resource_checks r = ENone }.

Definition canon (j : jid) : Prop :=
  wf j /\ canon3 (localpart j) (domainpart j) (resourcepart j).

Lemma canon_nu l d r : canon3 l d r -> canon (new_unsafe l d r).
Proof. intro C. split; [apply nu_wf|]. rewrite nu_local, nu_domain, nu_resource. exact C. Qed.

Lemma canon3_nil_parts d : normalize_domain X d = Ok d -> canon3 [] d [].
Proof.
  intro H. constructor; try reflexivity; try (left; reflexivity); exact H.
Qed.

(* ---- New ---- *)

Lemma new_ok_iff l d r j : new X l d r = Ok j <->
  exists l' d' r', utf8_valid l = true /\ utf8_valid r = true /\ normalize_domain X d = Ok d' /\
    norm_part (x_user X) l = Some l' /\ norm_part (x_opaque X) r = Some r' /\
    local_checks l' = ENone /\ resource_checks r' = ENone /\ j = new_unsafe l' d' r'.
Proof.
  unfold new. split.
  - destruct (utf8_valid l) eqn:U1; destruct (utf8_valid r) eqn:U2; simpl; try discriminate.
    destruct (normalize_domain X d) as [d'|] eqn:N; [|discriminate].
    destruct (norm_part (x_user X) l) as [l'|] eqn:EL; [|discriminate].
    destruct (norm_part (x_opaque X) r) as [r'|] eqn:ER; [|discriminate].
    destruct (local_checks l') eqn:LC; try discriminate.
    destruct (resource_checks r') eqn:RC; try discriminate.
    intro H. inversion H. exists l', d', r'. repeat split; try assumption; reflexivity.
  - intros (l' & d' & r' & U1 & U2 & N & EL & ER & LC & RC & E).
    rewrite U1, U2, N, EL, ER, LC, RC. simpl. subst j. reflexivity.
Qed.

Lemma norm_part_user_fixed l l' : utf8_valid l = true -> norm_part (x_user X) l = Some l' ->
  fixed (x_user X) l' /\ utf8_valid l' = true.
Proof.
  unfold norm_part. intros U H. destruct l as [|b l]; simpl in H.
  - inversion H. split; [left|]; reflexivity.
  - split; [|exact (H_user_utf8 X HX _ _ U H)].
    destruct l' as [|c l']; [left; reflexivity|]. right.
    apply (H_user_idem X HX _ _ U H). discriminate.
Qed.

Lemma norm_part_opaque_fixed r r' : utf8_valid r = true -> norm_part (x_opaque X) r = Some r' ->
  fixed (x_opaque X) r' /\ utf8_valid r' = true.
Proof.
  unfold norm_part. intros U H. destruct r as [|b r]; simpl in H.
  - inversion H. split; [left|]; reflexivity.
  - split; [|exact (H_opaque_utf8 X HX _ _ U H)].
    destruct r' as [|c r']; [left; reflexivity|]. right.
    apply (H_opaque_idem X HX _ _ U H). discriminate.
Qed.

Lemma new_canon l d r j : new X l d r = Ok j ->
  exists l' d' r', j = new_unsafe l' d' r' /\ canon3 l' d' r'.
Proof.
  intro H. apply new_ok_iff in H. destruct H as (l' & d' & r' & U1 & U2 & N & EL & ER & LC & RC & E).
  exists l', d', r'. split; [exact E|].
  destruct (norm_part_user_fixed _ _ U1 EL) as [F1 V1].
  destruct (norm_part_opaque_fixed _ _ U2 ER) as [F2 V2].
  constructor; try assumption. exact (norm_idem _ _ N).
Qed.

Lemma new_returns_canon l d r j : new X l d r = Ok j -> canon j.
Proof.
  intro H. destruct (new_canon _ _ _ _ H) as (l' & d' & r' & E & C). subst j. exact (canon_nu _ _ _ C).
Qed.

Lemma new_of_canon3 l d r : canon3 l d r -> new X l d r = Ok (new_unsafe l d r).
Proof.
  intros [F1 U1 LC N F2 U2 RC]. apply new_ok_iff. exists l, d, r.
  repeat split; try assumption; apply fixed_norm_part; assumption.
Qed.

Lemma parse_returns_canon s j : parse X s = Ok j -> canon j.
Proof.
  unfold parse. destruct (split_string true s) as [[[l d] r] e]. destruct e; try discriminate.
  apply new_returns_canon.
Qed.

(* ---- the round trip ---- *)

Lemma canon3_domain_props l d r : canon3 l d r ->
  d <> [] /\ (nlen d <= jid_domain_max)%N /\ nosep d = true.
Proof. intros C. exact (norm_props d d (c3_d _ _ _ C)). Qed.

Lemma parse_assemble_canon3 l d r : canon3 l d r ->
  parse X (assemble l d r) = Ok (new_unsafe l d r).
Proof.
  intro C. unfold parse.
  destruct (local_checks_nosep l (c3_l_checks _ _ _ C)) as [L1 L2].
  destruct (canon3_domain_props _ _ _ C) as (_ & _ & NS). apply nosep_iff in NS. destruct NS as [D1 D2].
  rewrite (split_assemble true l d r L1 L2 D1 (fun _ => D2)).
  exact (new_of_canon3 _ _ _ C).
Qed.

Lemma canon_roundtrip j : canon j -> parse X (string_of j) = Ok j.
Proof.
  intros [W C]. rewrite (wf_nu j W) at 1. rewrite nu_string.
  rewrite (parse_assemble_canon3 _ _ _ C). rewrite <- (wf_nu j W). reflexivity.
Qed.

Lemma parse_idempotent s j : parse X s = Ok j -> parse X (string_of j) = Ok j.
Proof. intro H. exact (canon_roundtrip j (parse_returns_canon s j H)). Qed.

Lemma canon_string_inj j j2 : canon j -> canon j2 -> string_of j = string_of j2 -> j = j2.
Proof.
  intros C C2 E. pose proof (canon_roundtrip j C) as R. rewrite E, (canon_roundtrip j2 C2) in R.
  inversion R. reflexivity.
Qed.

End Canon.
(* ---------- With* on the normal form ---------- *)

Lemma with_local_nu X jl jd jr x :
  with_local X (new_unsafe jl jd jr) x =
    if is_nil x then (new_unsafe [] jd jr, ENone)
    else if length jd =? 0 then (new_unsafe jl jd jr, EDomainLen)
    else if negb (utf8_valid x) then (new_unsafe jl jd jr, EUtf8)
    else match x_user X x with
         | None => (new_unsafe jl jd jr, EPrecis)
         | Some l' => (new_unsafe l' jd jr, local_checks l')
         end.
Proof.
  unfold with_local, new_unsafe; cbn [j_ll j_dl j_data]. rewrite skipn_len_app. reflexivity.
Qed.

Lemma with_domain_nu X jl jd jr x :
  with_domain X (new_unsafe jl jd jr) x =
    match normalize_domain X x with
    | Er e => (new_unsafe jl jd jr, e)
    | Ok d' => (new_unsafe jl d' jr, ENone)
    end.
Proof.
  unfold with_domain, new_unsafe; cbn [j_ll j_dl j_data].
  rewrite firstn_len_app.
  assert (E : skipn (length jl + length jd) (jl ++ jd ++ jr) = jr).
  { rewrite app_assoc, <- app_length. apply skipn_len_app. }
  rewrite E. reflexivity.
Qed.

Lemma with_resource_nu X jl jd jr x :
  with_resource X (new_unsafe jl jd jr) x =
    if is_nil x then (new_unsafe jl jd [], ENone)
    else if length jd =? 0 then (zero, EDomainLen)
    else if negb (utf8_valid x) then (zero, EUtf8)
    else match x_opaque X x with
         | None => (zero, EPrecis)
         | Some r' => (new_unsafe jl jd r', resource_checks r')
         end.
Proof.
  unfold with_resource. cbv zeta. rewrite nu_bare.
  unfold new_unsafe; cbn [j_ll j_dl j_data].
  destruct (is_nil x); [reflexivity|].
  destruct (length jd =? 0); [reflexivity|].
  destruct (negb (utf8_valid x)); [reflexivity|].
  destruct (x_opaque X x) as [r'|]; [|reflexivity].
  rewrite app_nil_r, <- app_assoc. reflexivity.
Qed.

Section With.
Variable X : ext.
Hypothesis HX : ext_ok X.

Lemma canon3_dlen l d r : canon3 X l d r -> (length d =? 0) = false.
Proof.
  intro C. destruct (canon3_domain_props X HX _ _ _ C) as [NE _].
  destruct d; [congruence | reflexivity].
Qed.

Lemma norm_part_nonnil f x : is_nil x = false -> norm_part f x = f x.
Proof. unfold norm_part. intro H. rewrite H. reflexivity. Qed.

(* Replacing one part of a canonical address (re-validating only that part)
   is the same as rebuilding the address from its parts with New. *)
Lemma with_local_rebuild jl jd jr x j' : canon3 X jl jd jr ->
  (with_local X (new_unsafe jl jd jr) x = (j', ENone) <-> new X x jd jr = Ok j').
Proof.
  intro C. pose proof (canon3_dlen _ _ _ C) as DL. destruct C as [F1 U1 LC N F2 U2 RC].
  rewrite with_local_nu, DL. split.
  - destruct (is_nil x) eqn:EX.
    + apply is_nil_true in EX. subst x. intro H. inversion H. apply new_ok_iff.
      exists [], jd, jr. repeat split; try assumption; try reflexivity.
      apply fixed_norm_part. exact F2.
    + destruct (utf8_valid x) eqn:UX; simpl negb; cbv iota; [|intro H; inversion H].
      destruct (x_user X x) as [l'|] eqn:PU; [|intro H; inversion H].
      intro H. inversion H as [[E1 E2]]. apply new_ok_iff. exists l', jd, jr.
      repeat split; try assumption; try reflexivity.
      * rewrite (norm_part_nonnil _ _ EX). exact PU.
      * apply fixed_norm_part. exact F2.
  - intro H. apply new_ok_iff in H.
    destruct H as (l' & d' & r' & UX & _ & N' & EL & ER & LC' & _ & E).
    rewrite N in N'. inversion N'; subst d'.
    rewrite (fixed_norm_part _ _ F2) in ER. inversion ER; subst r'. subst j'.
    destruct (is_nil x) eqn:EX.
    + unfold norm_part in EL. rewrite EX in EL. inversion EL. reflexivity.
    + rewrite (norm_part_nonnil _ _ EX) in EL. rewrite UX, EL, LC'. reflexivity.
Qed.

Lemma with_resource_rebuild jl jd jr x j' : canon3 X jl jd jr ->
  (with_resource X (new_unsafe jl jd jr) x = (j', ENone) <-> new X jl jd x = Ok j').
Proof.
  intro C. pose proof (canon3_dlen _ _ _ C) as DL. destruct C as [F1 U1 LC N F2 U2 RC].
  rewrite with_resource_nu, DL. split.
  - destruct (is_nil x) eqn:EX.
    + apply is_nil_true in EX. subst x. intro H. inversion H. apply new_ok_iff.
      exists jl, jd, []. repeat split; try assumption; try reflexivity.
      apply fixed_norm_part. exact F1.
    + destruct (utf8_valid x) eqn:UX; simpl negb; cbv iota; [|intro H; inversion H].
      destruct (x_opaque X x) as [r'|] eqn:PO; [|intro H; inversion H].
      intro H. inversion H as [[E1 E2]]. apply new_ok_iff. exists jl, jd, r'.
      repeat split; try assumption; try reflexivity.
      * apply fixed_norm_part. exact F1.
      * rewrite (norm_part_nonnil _ _ EX). exact PO.
  - intro H. apply new_ok_iff in H.
    destruct H as (l' & d' & r' & _ & UX & N' & EL & ER & _ & RC' & E).
    rewrite N in N'. inversion N'; subst d'.
    rewrite (fixed_norm_part _ _ F1) in EL. inversion EL; subst l'. subst j'.
    destruct (is_nil x) eqn:EX.
    + unfold norm_part in ER. rewrite EX in ER. inversion ER. reflexivity.
    + rewrite (norm_part_nonnil _ _ EX) in ER. rewrite UX, ER, RC'. reflexivity.
Qed.

Lemma with_domain_rebuild jl jd jr x j' : canon3 X jl jd jr ->
  (with_domain X (new_unsafe jl jd jr) x = (j', ENone) <-> new X jl x jr = Ok j').
Proof.
  intros [F1 U1 LC N F2 U2 RC]. rewrite with_domain_nu. split.
  - destruct (normalize_domain X x) as [d'|e] eqn:NX.
    + intro H. inversion H. apply new_ok_iff. exists jl, d', jr.
      repeat split; try assumption; try reflexivity; apply fixed_norm_part; assumption.
    + intro H. inversion H as [[E1 E2]]. subst e.
      (* normalize_domain never fails with the "no error" kind *)
      exfalso. unfold normalize_domain in NX.
      destruct (negb (utf8_valid x)); [discriminate|].
      destruct (match bracket_inner x with Some i => x_ip6 X i | None => false end); [discriminate|].
      destruct (x_ip4 X x); [discriminate|].
      destruct (x_idna X (trim_dot x)) as [d2|]; [|discriminate].
      destruct ((nlen d2 <? jid_domain_min) || (jid_domain_max <? nlen d2))%N; [discriminate|].
      destruct (ends_dot d2); discriminate.
  - intro H. apply new_ok_iff in H.
    destruct H as (l' & d' & r' & _ & _ & N' & EL & ER & _ & _ & E).
    rewrite (fixed_norm_part _ _ F1) in EL. inversion EL; subst l'.
    rewrite (fixed_norm_part _ _ F2) in ER. inversion ER; subst r'.
    rewrite N'. subst j'. reflexivity.
Qed.

(* Building an address by successive replacement, in either order, agrees with New. *)
Lemma new_iff_local_then_resource l d r j :
  new X l d r = Ok j <->
  exists j0 j1, new X [] d [] = Ok j0 /\ with_local X j0 l = (j1, ENone) /\
                with_resource X j1 r = (j, ENone).
Proof.
  split.
  - intro H. pose proof H as H0. apply new_ok_iff in H.
    destruct H as (l' & d' & r' & U1 & U2 & N & EL & ER & LC & RC & E).
    pose proof (norm_idem X HX _ _ N) as N'.
    destruct (norm_part_user_fixed X HX _ _ U1 EL) as [FL VL].
    assert (C0 : canon3 X [] d' []) by (apply canon3_nil_parts; exact N').
    assert (C1 : canon3 X l' d' []).
    { constructor; try assumption; try reflexivity. left; reflexivity. }
    exists (new_unsafe [] d' []), (new_unsafe l' d' []). split; [|split].
    + apply new_ok_iff. exists [], d', []. repeat split; try assumption; reflexivity.
    + apply (with_local_rebuild _ _ _ _ _ C0). apply new_ok_iff. exists l', d', [].
      repeat split; try assumption; reflexivity.
    + apply (with_resource_rebuild _ _ _ _ _ C1). apply new_ok_iff. exists l', d', r'.
      repeat split; try assumption; try reflexivity. apply fixed_norm_part. exact FL.
  - intros (j0 & j1 & H0 & H1 & H2).
    apply new_ok_iff in H0. destruct H0 as (l0 & d' & r0 & _ & _ & N & EL0 & ER0 & _ & _ & E0).
    inversion EL0; subst l0. inversion ER0; subst r0. subst j0.
    pose proof (norm_idem X HX _ _ N) as N'.
    assert (C0 : canon3 X [] d' []) by (apply canon3_nil_parts; exact N').
    apply (with_local_rebuild _ _ _ _ _ C0) in H1. pose proof H1 as H1c.
    apply new_ok_iff in H1. destruct H1 as (l' & d2 & r1 & U1 & _ & N2 & EL & ER1 & LC & _ & E1).
    rewrite N' in N2. inversion N2; subst d2. inversion ER1; subst r1. subst j1.
    destruct (norm_part_user_fixed X HX _ _ U1 EL) as [FL VL].
    assert (C1 : canon3 X l' d' []).
    { constructor; try assumption; try reflexivity. left; reflexivity. }
    apply (with_resource_rebuild _ _ _ _ _ C1) in H2.
    apply new_ok_iff in H2. destruct H2 as (l2 & d3 & r' & _ & U2 & N3 & EL2 & ER & _ & RC & E).
    rewrite N' in N3. inversion N3; subst d3.
    rewrite (fixed_norm_part _ _ FL) in EL2. inversion EL2; subst l2.
    apply new_ok_iff. exists l', d', r'. repeat split; assumption.
Qed.

Lemma new_iff_resource_then_local l d r j :
  new X l d r = Ok j <->
  exists j0 j1, new X [] d [] = Ok j0 /\ with_resource X j0 r = (j1, ENone) /\
                with_local X j1 l = (j, ENone).
Proof.
  split.
  - intro H. apply new_ok_iff in H.
    destruct H as (l' & d' & r' & U1 & U2 & N & EL & ER & LC & RC & E).
    pose proof (norm_idem X HX _ _ N) as N'.
    destruct (norm_part_opaque_fixed X HX _ _ U2 ER) as [FR VR].
    assert (C0 : canon3 X [] d' []) by (apply canon3_nil_parts; exact N').
    assert (C1 : canon3 X [] d' r').
    { constructor; try assumption; try reflexivity. left; reflexivity. }
    exists (new_unsafe [] d' []), (new_unsafe [] d' r'). split; [|split].
    + apply new_ok_iff. exists [], d', []. repeat split; try assumption; reflexivity.
    + apply (with_resource_rebuild _ _ _ _ _ C0). apply new_ok_iff. exists [], d', r'.
      repeat split; try assumption; reflexivity.
    + apply (with_local_rebuild _ _ _ _ _ C1). apply new_ok_iff. exists l', d', r'.
      repeat split; try assumption; try reflexivity. apply fixed_norm_part. exact FR.
  - intros (j0 & j1 & H0 & H1 & H2).
    apply new_ok_iff in H0. destruct H0 as (l0 & d' & r0 & _ & _ & N & EL0 & ER0 & _ & _ & E0).
    inversion EL0; subst l0. inversion ER0; subst r0. subst j0.
    pose proof (norm_idem X HX _ _ N) as N'.
    assert (C0 : canon3 X [] d' []) by (apply canon3_nil_parts; exact N').
    apply (with_resource_rebuild _ _ _ _ _ C0) in H1.
    apply new_ok_iff in H1. destruct H1 as (l1 & d2 & r' & _ & U2 & N2 & EL1 & ER & _ & RC & E1).
    rewrite N' in N2. inversion N2; subst d2. inversion EL1; subst l1. subst j1.
    destruct (norm_part_opaque_fixed X HX _ _ U2 ER) as [FR VR].
    assert (C1 : canon3 X [] d' r').
    { constructor; try assumption; try reflexivity. left; reflexivity. }
    apply (with_local_rebuild _ _ _ _ _ C1) in H2.
    apply new_ok_iff in H2. destruct H2 as (l' & d3 & r2 & U1 & _ & N3 & EL & ER2 & LC & _ & E).
    rewrite N' in N3. inversion N3; subst d3.
    rewrite (fixed_norm_part _ _ FR) in ER2. inversion ER2; subst r2.
    apply new_ok_iff. exists l', d', r'. repeat split; assumption.
Qed.

(* New and Parse agree on the assembled string whenever the parts contain no
   separator that splitString would cut at. *)
Lemma parse_assemble_new l d r :
  ~ In c_slash l -> ~ In c_at l -> ~ In c_slash d -> (l = [] -> ~ In c_at d) ->
  parse X (assemble l d r) = new X l d r.
Proof.
  intros A B C D. unfold parse. rewrite (split_assemble true l d r A B C D). reflexivity.
Qed.

(* ---------- everything the package returns without error ---------- *)

Inductive returned : jid -> Prop :=
| R_zero : returned zero
| R_new l d r j : new X l d r = Ok j -> returned j
| R_parse s j : parse X s = Ok j -> returned j
| R_with_local j x j' : returned j -> with_local X j x = (j', ENone) -> returned j'
| R_with_domain j x j' : returned j -> with_domain X j x = (j', ENone) -> returned j'
| R_with_resource j x j' : returned j -> with_resource X j x = (j', ENone) -> returned j'
| R_bare j : returned j -> returned (bare j)
| R_domain j : returned j -> returned (domain j)
| R_attr j0 v j : returned j0 -> unmarshal_attr X j0 v = (j, ENone) -> returned j
| R_elem j0 cd j : returned j0 -> unmarshal_xml X j0 cd = (j, ENone) -> returned j.

Lemma canon_parts j : canon X j ->
  j = new_unsafe (localpart j) (domainpart j) (resourcepart j) /\
  canon3 X (localpart j) (domainpart j) (resourcepart j).
Proof. intros [W C]. split; [exact (wf_nu j W) | exact C]. Qed.

Lemma returned_canonical j : returned j -> j = zero \/ canon X j.
Proof.
  induction 1 as [ | l d r j H | s j H | j x j' R IH H | j x j' R IH H | j x j' R IH H
                  | j R IH | j R IH | j0 v j R IH H | j0 cd j R IH H ].
  - left. reflexivity.
  - right. exact (new_returns_canon X HX _ _ _ _ H).
  - right. exact (parse_returns_canon X HX _ _ H).
  - destruct IH as [E|C].
    + subst j. unfold with_local in H. destruct (is_nil x).
      * inversion H. left. reflexivity.
      * simpl in H. inversion H.
    + destruct (canon_parts j C) as [E C3]. rewrite E in H.
      apply (with_local_rebuild _ _ _ _ _ C3) in H. right. exact (new_returns_canon X HX _ _ _ _ H).
  - destruct IH as [E|C].
    + subst j. change zero with (new_unsafe [] [] []) in H. rewrite with_domain_nu in H.
      destruct (normalize_domain X x) as [d'|e] eqn:N; [|inversion H; subst e].
      * inversion H. right. apply (canon_nu X). apply (canon3_nil_parts X). exact (norm_idem X HX _ _ N).
      * exfalso. unfold normalize_domain in N.
        destruct (negb (utf8_valid x)); [discriminate|].
        destruct (match bracket_inner x with Some i => x_ip6 X i | None => false end); [discriminate|].
        destruct (x_ip4 X x); [discriminate|].
        destruct (x_idna X (trim_dot x)) as [d2|]; [|discriminate].
        destruct ((nlen d2 <? jid_domain_min) || (jid_domain_max <? nlen d2))%N; [discriminate|].
        destruct (ends_dot d2); discriminate.
    + destruct (canon_parts j C) as [E C3]. rewrite E in H.
      apply (with_domain_rebuild _ _ _ _ _ C3) in H. right. exact (new_returns_canon X HX _ _ _ _ H).
  - destruct IH as [E|C].
    + subst j. unfold with_resource in H. cbv zeta in H. destruct (is_nil x).
      * inversion H. left. reflexivity.
      * simpl in H. inversion H.
    + destruct (canon_parts j C) as [E C3]. rewrite E in H.
      apply (with_resource_rebuild _ _ _ _ _ C3) in H. right. exact (new_returns_canon X HX _ _ _ _ H).
  - destruct IH as [E|C]; [subst j; left; reflexivity|]. right.
    destruct (canon_parts j C) as [E [F1 U1 LC N F2 U2 RC]]. rewrite E, nu_bare.
    apply (canon_nu X). constructor; try assumption; try reflexivity. left; reflexivity.
  - destruct IH as [E|C]; [subst j; left; reflexivity|]. right.
    destruct (canon_parts j C) as [E [F1 U1 LC N F2 U2 RC]]. rewrite E, nu_domain_jid.
    apply (canon_nu X). apply (canon3_nil_parts X). exact N.
  - unfold unmarshal_attr in H. destruct (is_nil v); [inversion H; left; reflexivity|].
    destruct (parse X v) as [j1|e] eqn:P.
    + inversion H; subst j1. right. exact (parse_returns_canon X HX _ _ P).
    + inversion H. left. reflexivity.
  - unfold unmarshal_xml in H. destruct (parse X cd) as [j1|e] eqn:P.
    + inversion H; subst j1. right. exact (parse_returns_canon X HX _ _ P).
    + inversion H; subst. exact IH.
Qed.

(* ---------- the parts of a canonical address obey the address rules ---------- *)

Lemma canon_parts_wellformed j : canon X j ->
  let l := localpart j in let d := domainpart j in let r := resourcepart j in
  utf8_valid l = true /\ utf8_valid d = true /\ utf8_valid r = true /\
  (nlen l <= 1023)%N /\ (1 <= nlen d <= 1023)%N /\ (nlen r <= 1023)%N /\
  (forall c, In c rfc7622_forbidden_local -> ~ In c l) /\
  ~ In c_slash d /\ ~ In c_at d /\
  j_data j = l ++ d ++ r /\ j_ll j = length l /\ j_dl j = length d.
Proof.
  intros [W C]. cbv zeta. pose proof C as [F1 U1 LC N F2 U2 RC].
  destruct (local_checks_none _ LC) as [LL LF]. pose proof (resource_checks_none _ RC) as RL.
  destruct (norm_props X HX _ _ N) as (NE & DL & NS). apply nosep_iff in NS. destruct NS as [NS1 NS2].
  rewrite tbl_local_max in LL. rewrite tbl_resource_max in RL. rewrite tbl_domain_max in DL.
  repeat split; try assumption.
  - exact (norm_utf8 X HX _ _ N).
  - assert (nlen (domainpart j) <> 0)%N by (intro Z; apply nlen_nil_iff in Z; contradiction). lia.
  - intros c Hc Hl. apply LF in Hl. rewrite tbl_forbidden_is_rfc7622 in Hl.
    apply in_bytes_In in Hc. congruence.
  - pattern j at 1. rewrite (wf_nu j W). reflexivity.
  - pattern j at 1. rewrite (wf_nu j W). reflexivity.
  - pattern j at 1. rewrite (wf_nu j W). unfold new_unsafe; cbn [j_dl]. reflexivity.
Qed.

(* ---------- XML attribute and element encodings ---------- *)

Lemma canon_string_nonnil j : canon X j -> is_nil (string_of j) = false.
Proof.
  intros [W C]. rewrite (wf_nu j W), nu_string. apply assemble_nonnil.
  exact (proj1 (canon3_domain_props X HX _ _ _ C)).
Qed.

Lemma attr_roundtrip j j0 : canon X j -> unmarshal_attr X j0 (marshal_attr j) = (j, ENone).
Proof.
  intro C. unfold unmarshal_attr, marshal_attr. rewrite (canon_string_nonnil j C).
  rewrite (canon_roundtrip X HX j C). reflexivity.
Qed.

Lemma attr_roundtrip_zero j0 : unmarshal_attr X j0 (marshal_attr zero) = (zero, ENone).
Proof. reflexivity. Qed.

Lemma elem_roundtrip j j0 : canon X j -> unmarshal_xml X j0 (marshal_xml j) = (j, ENone).
Proof.
  intro C. unfold unmarshal_xml, marshal_xml. rewrite (canon_roundtrip X HX j C). reflexivity.
Qed.

End With.
(* ---------- statements lifted from the normal form to any well-formed / canonical JID ---------- *)

Lemma accessors_agree j : wf j ->
  let l := localpart j in let d := domainpart j in let r := resourcepart j in
  string_of j = assemble l d r /\ j_data j = l ++ d ++ r /\
  j_ll j = length l /\ j_dl j = length d /\
  (localpart (bare j) = l /\ domainpart (bare j) = d /\ resourcepart (bare j) = []) /\
  (localpart (domain j) = [] /\ domainpart (domain j) = d /\ resourcepart (domain j) = []) /\
  wf (bare j) /\ wf (domain j) /\
  string_of (bare j) = assemble l d [] /\ string_of (domain j) = assemble [] d [].
Proof.
  intro W. cbv zeta.
  set (l := localpart j). set (d := domainpart j). set (r := resourcepart j).
  assert (E : j = new_unsafe l d r) by exact (wf_nu j W).
  clearbody l d r. subst j.
  rewrite nu_string, nu_bare, nu_domain_jid, !nu_string, !nu_local, !nu_domain, !nu_resource.
  repeat split; try reflexivity; apply nu_wf.
Qed.

Lemma equal_iff_parts j j2 : wf j -> wf j2 ->
  (equal j j2 = true <->
   localpart j = localpart j2 /\ domainpart j = domainpart j2 /\ resourcepart j = resourcepart j2).
Proof.
  intros W W2. rewrite (wf_nu j W) at 1. rewrite (wf_nu j2 W2) at 1. apply nu_equal.
Qed.

Section Lift.
Variable X : ext.
Hypothesis HX : ext_ok X.

Lemma with_local_agrees j x j' : canon X j ->
  (with_local X j x = (j', ENone) <-> new X x (domainpart j) (resourcepart j) = Ok j').
Proof.
  intro C. destruct (canon_parts X j C) as [E C3]. rewrite E at 1.
  apply (with_local_rebuild X HX). exact C3.
Qed.

Lemma with_domain_agrees j x j' : canon X j ->
  (with_domain X j x = (j', ENone) <-> new X (localpart j) x (resourcepart j) = Ok j').
Proof.
  intro C. destruct (canon_parts X j C) as [E C3]. rewrite E at 1.
  apply (with_domain_rebuild X). exact C3.
Qed.

Lemma with_resource_agrees j x j' : canon X j ->
  (with_resource X j x = (j', ENone) <-> new X (localpart j) (domainpart j) x = Ok j').
Proof.
  intro C. destruct (canon_parts X j C) as [E C3]. rewrite E at 1.
  apply (with_resource_rebuild X HX). exact C3.
Qed.

Lemma roundtrip_equal j : canon X j ->
  exists j', parse X (string_of j) = Ok j' /\ equal j j' = true /\ equal j' j = true /\
             string_of j' = string_of j.
Proof.
  intro C. exists j. split; [exact (canon_roundtrip X HX j C)|].
  destruct C as [W _]. pose proof (proj2 (equal_iff_eq j j W W) eq_refl) as E.
  repeat split; try exact E.
Qed.

End Lift.

(* ---------- a concrete instance of the external functions (non-vacuity, witnesses) ---------- *)

Definition toy : ext :=
  mkext (fun x => Some x) (fun x => Some x)
        (fun x => if nosep x && utf8_valid x then Some x else None)
        (fun x => bytes_eqb x (str "127.0.0.1")) (fun x => bytes_eqb x (str "::1")).

Lemma toy_ok : ext_ok toy.
Proof.
  constructor; cbn [toy x_user x_opaque x_idna x_ip4 x_ip6].
  - intros x y _ H _. reflexivity.
  - intros x y U H. inversion H; subst. exact U.
  - intros x y _ H _. reflexivity.
  - intros x y U H. inversion H; subst. exact U.
  - intros d y _ H. destruct (nosep (trim_dot d) && utf8_valid (trim_dot d)) eqn:E; [|discriminate].
    inversion H; subst y. rewrite E. reflexivity.
  - intros d y _ H. destruct (nosep (trim_dot d) && utf8_valid (trim_dot d)) eqn:E; [|discriminate].
    inversion H; subst y. apply andb_true_iff in E. exact (proj2 E).
  - intros d y _ H. destruct (nosep (trim_dot d) && utf8_valid (trim_dot d)) eqn:E; [|discriminate].
    inversion H; subst y. apply andb_true_iff in E. exact (proj1 E).
  - intros x H. apply bytes_eqb_eq in H. subst x. vm_compute. reflexivity.
  - intros x H. apply bytes_eqb_eq in H. subst x. split; [discriminate|].
    apply N.leb_le. vm_compute. reflexivity.
  - intros x H. apply bytes_eqb_eq in H. subst x. vm_compute. reflexivity.
  - intros x H. apply bytes_eqb_eq in H. subst x. apply N.leb_le. vm_compute. reflexivity.
Qed.

(* The element encoding does not round-trip for the zero value. *)
Definition xml_element_roundtrip_statement : Prop :=
  forall X, ext_ok X -> forall j j0, returned X j -> unmarshal_xml X j0 (marshal_xml j) = (j, ENone).

Lemma xml_element_zero_refuted :
  exists X, ext_ok X /\ exists j j0, returned X j /\ unmarshal_xml X j0 (marshal_xml j) <> (j, ENone).
Proof.
  exists toy. split; [exact toy_ok|]. exists zero, zero. split; [constructor|].
  vm_compute. discriminate.
Qed.

Lemma xml_element_statement_false : ~ xml_element_roundtrip_statement.
Proof.
  intro S. destruct xml_element_zero_refuted as (X & HX & j & j0 & R & N). exact (N (S X HX j j0 R)).
Qed.

Lemma xml_element_partial X (HX : ext_ok X) j j0 :
  returned X j -> j <> zero -> unmarshal_xml X j0 (marshal_xml j) = (j, ENone).
Proof.
  intros R NZ. destruct (returned_canonical X HX j R) as [E|C]; [contradiction|].
  exact (elem_roundtrip X HX j j0 C).
Qed.

Lemma xml_attr_roundtrip X (HX : ext_ok X) j j0 :
  returned X j -> unmarshal_attr X j0 (marshal_attr j) = (j, ENone).
Proof.
  intro R. destruct (returned_canonical X HX j R) as [E|C].
  - subst j. reflexivity.
  - exact (attr_roundtrip X HX j j0 C).
Qed.
