(* C11/ProofsHeap.v — the heap-of-backing-arrays layer of the JID model.

   Go JID values share backing arrays (Bare, Domain, Copy, WithResource(""),
   assignment) and append writes in place when the capacity suffices.  Here:
   every modelled function, run as a state transition on the heap,
     (1) only ever writes into arrays it allocated itself in that call
         ([pres]: every array that existed before is unchanged afterwards),
     (2) returns a heap value whose [view] is exactly what the value-level
         function of Model.v computes on the views of its arguments,
   for every capacity policy [slack].  Hence, for every history of calls, every
   value returned earlier keeps its view for ever, and the views of all
   registers are what the value-level program computes. *)
From Coq Require Import ZifyBool ZifyNat ZifyN.
From XV Require Import lib.Bytes gen.Jid C11.Model C11.Proofs.

(* ---------- the write sites of the source (gen/Jid.v) ---------- *)

(* every slice the package writes through (append / precis Append / copy /
   indexed assignment) is a local variable that only ever holds the result of
   make(...) in the same function or of an append to itself *)
Lemma tbl_write_targets_fresh :
  forallb (fun s => match snd s with WFresh => true | WShared => false end) jid_write_sites = true.
Proof. vm_compute. reflexivity. Qed.

(* and the functions that write at all are exactly the ones modelled with writes *)
Lemma tbl_writers_are_modelled :
  jid_writers = [str "New"; str "WithLocal"; str "WithDomain"; str "WithResource"; str "NewUnsafe"].
Proof. vm_compute. reflexivity. Qed.

(* ---------- lists ---------- *)

Lemma upd_length {A} (l : list A) i x : length (upd l i x) = length l.
Proof. revert i; induction l as [|y l IH]; intros [|i]; simpl; try reflexivity. rewrite IH. reflexivity. Qed.

Lemma nth_upd_eq {A} (l : list A) i x d : i < length l -> nth i (upd l i x) d = x.
Proof. revert i; induction l as [|y l IH]; intros [|i] H; simpl in *; try lia; try reflexivity. apply IH. lia. Qed.

Lemma nth_upd_neq {A} (l : list A) i k x d : i <> k -> nth k (upd l i x) d = nth k l d.
Proof.
  revert i k; induction l as [|y l IH]; intros [|i] [|k] H; simpl; try reflexivity; try lia.
  apply IH. lia.
Qed.

Lemma upd_nth_same {A} (l : list A) i d : upd l i (nth i l d) = l.
Proof. revert i; induction l as [|y l IH]; intros [|i]; simpl; try reflexivity. rewrite IH. reflexivity. Qed.

Lemma write_at_nil a pos : write_at a pos [] = a.
Proof. unfold write_at. simpl. rewrite Nat.add_0_r. apply firstn_skipn. Qed.

Lemma write_at_length a pos xs : pos + length xs <= length a -> length (write_at a pos xs) = length a.
Proof.
  intro H. unfold write_at. rewrite !app_length, firstn_length, skipn_length. lia.
Qed.

Lemma firstn_app_exact {A} (a b : list A) n : n = length a -> firstn n (a ++ b) = a.
Proof. intros ->. apply firstn_len_app. Qed.

(* reading [off, off+len+|xs|) after writing xs at off+len *)
Lemma read_write_at a off len xs : off + len + length xs <= length a ->
  firstn (len + length xs) (skipn off (write_at a (off + len) xs)) = firstn len (skipn off a) ++ xs.
Proof.
  intro H. unfold write_at.
  rewrite skipn_app. rewrite firstn_length.
  replace (off - Nat.min (off + len) (length a)) with 0 by lia. simpl skipn at 2.
  rewrite skipn_firstn_comm. replace (off + len - off) with len by lia.
  rewrite app_assoc. apply firstn_app_exact.
  rewrite app_length, firstn_length, skipn_length. lia.
Qed.

(* ---------- slices ---------- *)

Definition slice_ok (h : heap) (s : slice) : Prop :=
  s_len s <= s_cap s /\
  (s_cap s = 0 \/ (s_arr s < length h /\ s_off s + s_cap s <= length (arr_get h (s_arr s)))).

(* every array of h0 is still there, unchanged *)
Definition pres (h0 h : heap) : Prop :=
  length h0 <= length h /\ forall i, i < length h0 -> arr_get h i = arr_get h0 i.

(* the slice lives in an array allocated after h0 *)
Definition fresh (h0 : heap) (s : slice) : Prop := length h0 <= s_arr s.

Lemma pres_refl h : pres h h.
Proof. split; [lia | reflexivity]. Qed.

Lemma pres_trans a b c : pres a b -> pres b c -> pres a c.
Proof. intros [L1 E1] [L2 E2]. split; [lia|]. intros i Hi. rewrite E2 by lia. apply E1. exact Hi. Qed.

Lemma sl_read_length h s : slice_ok h s -> length (sl_read h s) = s_len s.
Proof.
  intros [L [C|[A B]]]; unfold sl_read; rewrite firstn_length, skipn_length; lia.
Qed.

Lemma pres_read h0 h s : pres h0 h -> slice_ok h0 s -> sl_read h s = sl_read h0 s /\ slice_ok h s.
Proof.
  intros [PL PE] [L [C|[A B]]].
  - split.
    + unfold sl_read. replace (s_len s) with 0 by lia. reflexivity.
    + split; [exact L | left; exact C].
  - split.
    + unfold sl_read. rewrite PE by exact A. reflexivity.
    + split; [exact L | right; split; [lia | rewrite PE by exact A; exact B]].
Qed.

Lemma make_spec h0 h n c : pres h0 h -> n <= c ->
  let '(h', s) := sl_make h n c in
  pres h0 h' /\ fresh h0 s /\ slice_ok h' s /\ sl_read h' s = zeros n.
Proof.
  intros [PL PE] Hn. unfold sl_make.
  assert (G : arr_get (h ++ [zeros c]) (length h) = zeros c) by (unfold arr_get; apply nth_middle).
  split; [|split; [|split]].
  - split.
    + rewrite app_length. simpl. lia.
    + intros i Hi. unfold arr_get. rewrite app_nth1 by lia. apply PE. exact Hi.
  - unfold fresh. simpl. lia.
  - split.
    + simpl. exact Hn.
    + right. simpl. rewrite G. rewrite app_length. simpl. unfold zeros. rewrite repeat_length. lia.
  - unfold sl_read. simpl s_arr. simpl s_off. simpl s_len. rewrite G. simpl skipn.
    unfold zeros. clear G. revert c Hn. induction n as [|n IH]; intros [|c] Hn; simpl; try reflexivity; try lia.
    rewrite IH by lia. reflexivity.
Qed.

Lemma append_spec slack h0 h s xs : pres h0 h -> fresh h0 s -> slice_ok h s ->
  let '(h', s') := sl_append slack h s xs in
  pres h0 h' /\ fresh h0 s' /\ slice_ok h' s' /\ sl_read h' s' = sl_read h s ++ xs.
Proof.
  intros [PL PE] F OK. pose proof (sl_read_length h s OK) as RL. destruct OK as [L D].
  unfold sl_append. destruct (s_len s + length xs <=? s_cap s) eqn:Fit.
  - apply Nat.leb_le in Fit. destruct D as [C|[A B]].
    + (* capacity 0: nothing to write *)
      assert (xs = []) by (destruct xs; [reflexivity | simpl in Fit; lia]). subst xs.
      rewrite write_at_nil. unfold arr_get. rewrite upd_nth_same.
      split; [|split; [|split]].
      * split; assumption.
      * exact F.
      * split; [simpl; lia | left; exact C].
      * unfold sl_read. simpl. replace (s_len s + 0) with 0 by lia. replace (s_len s) with 0 by lia.
        reflexivity.
    + set (a := arr_get h (s_arr s)) in *.
      assert (WL : length (write_at a (s_off s + s_len s) xs) = length a) by (apply write_at_length; lia).
      assert (G : arr_get (upd h (s_arr s) (write_at a (s_off s + s_len s) xs)) (s_arr s)
                  = write_at a (s_off s + s_len s) xs) by (unfold arr_get; apply nth_upd_eq; exact A).
      split; [|split; [|split]].
      * split.
        -- rewrite upd_length. exact PL.
        -- intros i Hi. unfold arr_get. rewrite nth_upd_neq by (unfold fresh in F; lia). apply PE. exact Hi.
      * exact F.
      * split.
        -- simpl. exact Fit.
        -- right. simpl. rewrite upd_length. split; [exact A|]. rewrite G, WL. exact B.
      * unfold sl_read at 1. simpl s_arr. simpl s_off. simpl s_len. rewrite G.
        rewrite read_write_at by lia. reflexivity.
  - apply Nat.leb_gt in Fit.
    set (n := s_len s + length xs) in *.
    assert (G : arr_get (h ++ [sl_read h s ++ xs ++ zeros (slack n)]) (length h)
                = sl_read h s ++ xs ++ zeros (slack n)) by (unfold arr_get; apply nth_middle).
    split; [|split; [|split]].
    + split.
      * rewrite app_length. simpl. lia.
      * intros i Hi. unfold arr_get. rewrite app_nth1 by lia. apply PE. exact Hi.
    + unfold fresh. simpl. lia.
    + split.
      * simpl. lia.
      * right. simpl. rewrite G. rewrite !app_length. unfold zeros. rewrite repeat_length. simpl. lia.
    + unfold sl_read at 1. simpl s_arr. simpl s_off. simpl s_len. rewrite G. simpl skipn.
      rewrite app_assoc. apply firstn_app_exact. rewrite app_length. lia.
Qed.

Lemma copy_spec h0 h dst src : pres h0 h -> fresh h0 dst -> slice_ok h dst -> length src = s_len dst ->
  pres h0 (sl_copy h dst src) /\ slice_ok (sl_copy h dst src) dst /\ sl_read (sl_copy h dst src) dst = src.
Proof.
  intros [PL PE] F [L D] HS. unfold sl_copy.
  rewrite firstn_all2 by lia.
  destruct D as [C|[A B]].
  - assert (src = []) by (destruct src; [reflexivity | simpl in HS; lia]). subst src.
    rewrite write_at_nil. unfold arr_get. rewrite upd_nth_same.
    split; [|split].
    + split; assumption.
    + split; [exact L | left; exact C].
    + unfold sl_read. replace (s_len dst) with 0 by lia. reflexivity.
  - set (a := arr_get h (s_arr dst)) in *.
    assert (WL : length (write_at a (s_off dst) src) = length a) by (apply write_at_length; lia).
    assert (G : arr_get (upd h (s_arr dst) (write_at a (s_off dst) src)) (s_arr dst)
                = write_at a (s_off dst) src) by (unfold arr_get; apply nth_upd_eq; exact A).
    split; [|split].
    + split.
      * rewrite upd_length. exact PL.
      * intros i Hi. unfold arr_get. rewrite nth_upd_neq by (unfold fresh in F; lia). apply PE. exact Hi.
    + split; [exact L|].
      right. rewrite upd_length. split; [exact A|]. rewrite G, WL. exact B.
    + unfold sl_read. rewrite G.
      pose proof (read_write_at a (s_off dst) 0 src) as R. rewrite Nat.add_0_r in R. simpl in R.
      rewrite <- HS. apply R. lia.
Qed.

Lemma sub_spec h s a b : slice_ok h s -> a <= b -> b <= s_len s ->
  slice_ok h (sl_sub s a b) /\ sl_read h (sl_sub s a b) = firstn (b - a) (skipn a (sl_read h s)).
Proof.
  intros [L D] Hab Hb. split.
  - split; [simpl; lia|]. simpl. destruct D as [C|[A B]]; [left; lia | right; split; [exact A | lia]].
  - unfold sl_read. simpl.
    rewrite skipn_firstn_comm, firstn_firstn, (skipn_add (s_off s) a).
    replace (Nat.min (b - a) (s_len s - a)) with (b - a) by lia. reflexivity.
Qed.

(* ---------- heap JIDs ---------- *)

Definition hvalid (h : heap) (j : hjid) : Prop :=
  slice_ok h (h_data j) /\ h_ll j + h_dl j <= s_len (h_data j).

Lemma hzero_valid h : hvalid h hzero.
Proof. split; [split; [simpl; lia | left; reflexivity] | simpl; lia]. Qed.

Lemma view_hzero h : view h hzero = zero.
Proof. reflexivity. Qed.

Lemma view_wf h j : hvalid h j -> wf (view h j).
Proof. intros [O W]. unfold wf, view. simpl. rewrite (sl_read_length h _ O). exact W. Qed.

(* the frame: whatever happens to the heap, as long as old arrays are kept,
   an old value stays valid and denotes the same address *)
Lemma pres_hvalid h0 h j : pres h0 h -> hvalid h0 j -> hvalid h j /\ view h j = view h0 j.
Proof.
  intros P [O W]. destruct (pres_read h0 h _ P O) as [R O'].
  split; [split; assumption | unfold view; rewrite R; reflexivity].
Qed.

Lemma h_bare_spec h j : hvalid h j -> hvalid h (h_bare j) /\ view h (h_bare j) = bare (view h j).
Proof.
  intros [O W]. destruct (sub_spec h (h_data j) 0 (h_dl j + h_ll j) O) as [O' R]; [lia | lia |].
  split.
  - split; [exact O' | simpl; lia].
  - unfold view, h_bare, bare. simpl h_data. simpl h_ll. simpl h_dl. simpl j_data. simpl j_ll. simpl j_dl.
    rewrite R. rewrite Nat.sub_0_r. reflexivity.
Qed.

Lemma h_domain_spec h j : hvalid h j -> hvalid h (h_domain j) /\ view h (h_domain j) = domain (view h j).
Proof.
  intros [O W]. destruct (sub_spec h (h_data j) (h_ll j) (h_dl j + h_ll j) O) as [O' R]; [lia | lia |].
  split.
  - split; [exact O' | simpl; lia].
  - unfold view, h_domain, domain. simpl h_data. simpl h_ll. simpl h_dl. simpl j_data. simpl j_ll. simpl j_dl.
    rewrite R. replace (h_dl j + h_ll j - h_ll j) with (h_dl j) by lia. reflexivity.
Qed.

(* the tail data[a:] of a valid slice *)
Lemma sub_tail h s a : slice_ok h s -> a <= s_len s ->
  slice_ok h (sl_sub s a (s_len s)) /\ sl_read h (sl_sub s a (s_len s)) = skipn a (sl_read h s).
Proof.
  intros O Ha. destruct (sub_spec h s a (s_len s) O Ha) as [O' R]; [lia|].
  split; [exact O'|]. rewrite R. apply firstn_all2. rewrite skipn_length, (sl_read_length h s O). lia.
Qed.

Lemma sub_head h s b : slice_ok h s -> b <= s_len s ->
  slice_ok h (sl_sub s 0 b) /\ sl_read h (sl_sub s 0 b) = firstn b (sl_read h s).
Proof.
  intros O Hb. destruct (sub_spec h s 0 b O) as [O' R]; [lia | exact Hb |].
  split; [exact O'|]. rewrite R, Nat.sub_0_r. reflexivity.
Qed.

(* what a call must satisfy: old arrays kept, result valid, result's view and
   error kind as computed on values *)
Definition op_spec (h : heap) (r : heap * (hjid * jerr)) (v : jid * jerr) : Prop :=
  pres h (fst r) /\ hvalid (fst r) (fst (snd r)) /\ (view (fst r) (fst (snd r)), snd (snd r)) = v.

Section Ops.
Variable X : ext.
Variable slack : nat -> nat.

Lemma op_spec_zero h h' e : pres h h' -> op_spec h (h', (hzero, e)) (zero, e).
Proof. intro P. split; [exact P | split; [apply hzero_valid | reflexivity]]. Qed.

Lemma h_new_spec h l d r : op_spec h (h_new X slack h l d r) (res_pair (new X l d r)).
Proof.
  unfold h_new, new.
  destruct (negb (utf8_valid l) || negb (utf8_valid r)); [apply op_spec_zero, pres_refl|].
  destruct (normalize_domain X d) as [d'|e]; [|apply op_spec_zero, pres_refl].
  pose proof (make_spec h h 0 (length l + length d' + length r) (pres_refl h)) as M.
  destruct (sl_make h 0 (length l + length d' + length r)) as [h0 data].
  destruct M as (P0 & F0 & O0 & R0); [lia|].
  destruct (norm_part (x_user X) l) as [l'|]; [|apply op_spec_zero; exact P0].
  pose proof (append_spec slack h h0 data l' P0 F0 O0) as A1.
  destruct (sl_append slack h0 data l') as [h1 data1]. destruct A1 as (P1 & F1 & O1 & R1).
  pose proof (append_spec slack h h1 data1 d' P1 F1 O1) as A2.
  destruct (sl_append slack h1 data1 d') as [h2 data2]. destruct A2 as (P2 & F2 & O2 & R2).
  destruct (norm_part (x_opaque X) r) as [r'|]; [|apply op_spec_zero; exact P2].
  pose proof (append_spec slack h h2 data2 r' P2 F2 O2) as A3.
  destruct (sl_append slack h2 data2 r') as [h3 data3]. destruct A3 as (P3 & F3 & O3 & R3).
  assert (RD : sl_read h3 data3 = l' ++ d' ++ r').
  { rewrite R3, R2, R1, R0. simpl. rewrite <- app_assoc. reflexivity. }
  destruct (local_checks l'); try (apply op_spec_zero; exact P3).
  destruct (resource_checks r'); try (apply op_spec_zero; exact P3).
  split; [exact P3|]. split.
  - split; [exact O3|]. simpl. rewrite <- (sl_read_length h3 data3 O3), RD, !app_length. lia.
  - simpl. unfold view. simpl. rewrite RD. reflexivity.
Qed.

Lemma h_parse_spec h s : op_spec h (h_parse X slack h s) (res_pair (parse X s)).
Proof.
  unfold h_parse, parse. destruct (split_string true s) as [[[l d] r] e].
  destruct e; try (apply op_spec_zero, pres_refl). apply h_new_spec.
Qed.

Lemma h_new_unsafe_spec h l d r :
  op_spec h (fst (h_new_unsafe slack h l d r), (snd (h_new_unsafe slack h l d r), ENone)) (new_unsafe l d r, ENone).
Proof.
  unfold h_new_unsafe.
  pose proof (make_spec h h 0 (length l + length d + length r) (pres_refl h)) as M.
  destruct (sl_make h 0 (length l + length d + length r)) as [h0 data].
  destruct M as (P0 & F0 & O0 & R0); [lia|].
  pose proof (append_spec slack h h0 data l P0 F0 O0) as A1.
  destruct (sl_append slack h0 data l) as [h1 data1]. destruct A1 as (P1 & F1 & O1 & R1).
  pose proof (append_spec slack h h1 data1 d P1 F1 O1) as A2.
  destruct (sl_append slack h1 data1 d) as [h2 data2]. destruct A2 as (P2 & F2 & O2 & R2).
  pose proof (append_spec slack h h2 data2 r P2 F2 O2) as A3.
  destruct (sl_append slack h2 data2 r) as [h3 data3]. destruct A3 as (P3 & F3 & O3 & R3).
  assert (RD : sl_read h3 data3 = l ++ d ++ r).
  { rewrite R3, R2, R1, R0. simpl. rewrite <- app_assoc. reflexivity. }
  split; [exact P3|]. split.
  - split; [exact O3|]. simpl. rewrite <- (sl_read_length h3 data3 O3), RD, !app_length. lia.
  - simpl. unfold view, new_unsafe. simpl. rewrite RD. reflexivity.
Qed.

(* an argument returned unchanged together with an error *)
Lemma op_spec_same h h' j e : pres h h' -> hvalid h j -> op_spec h (h', (j, e)) (view h j, e).
Proof.
  intros P V. destruct (pres_hvalid h h' j P V) as [V' E].
  split; [exact P | split; [exact V' | simpl; rewrite E; reflexivity]].
Qed.

Lemma h_with_local_spec h j l : hvalid h j ->
  op_spec h (h_with_local X slack h j l) (with_local X (view h j) l).
Proof.
  intros V. pose proof V as [O W]. unfold h_with_local, with_local.
  destruct (sub_tail h (h_data j) (h_ll j) O) as [OT RT]; [lia|].
  set (tail := sl_sub (h_data j) (h_ll j) (s_len (h_data j))) in *.
  pose proof (make_spec h h 0 (length l + s_len tail) (pres_refl h)) as M.
  destruct (sl_make h 0 (length l + s_len tail)) as [h0 data].
  destruct M as (P0 & F0 & O0 & R0); [lia|].
  simpl j_ll. simpl j_dl. simpl j_data.
  destruct (is_nil l).
  - destruct (pres_read h h0 tail P0 OT) as [RT0 _].
    pose proof (append_spec slack h h0 data (sl_read h0 tail) P0 F0 O0) as A1.
    destruct (sl_append slack h0 data (sl_read h0 tail)) as [h1 data1]. destruct A1 as (P1 & F1 & O1 & R1).
    assert (RD : sl_read h1 data1 = skipn (h_ll j) (sl_read h (h_data j))).
    { rewrite R1, R0, RT0, RT. reflexivity. }
    split; [exact P1|]. split.
    + split; [exact O1|]. simpl. rewrite <- (sl_read_length h1 data1 O1), RD, skipn_length, (sl_read_length h _ O). lia.
    + simpl. unfold view. simpl. rewrite RD. reflexivity.
  - destruct (h_dl j =? 0); [apply op_spec_same; assumption|].
    destruct (negb (utf8_valid l)); [apply op_spec_same; assumption|].
    destruct (x_user X l) as [l'|]; [|apply op_spec_same; assumption].
    pose proof (append_spec slack h h0 data l' P0 F0 O0) as A1.
    destruct (sl_append slack h0 data l') as [h1 data1]. destruct A1 as (P1 & F1 & O1 & R1).
    destruct (pres_read h h1 tail P1 OT) as [RT1 _].
    pose proof (append_spec slack h h1 data1 (sl_read h1 tail) P1 F1 O1) as A2.
    destruct (sl_append slack h1 data1 (sl_read h1 tail)) as [h2 data2]. destruct A2 as (P2 & F2 & O2 & R2).
    assert (RD : sl_read h2 data2 = l' ++ skipn (h_ll j) (sl_read h (h_data j))).
    { rewrite R2, R1, R0, RT1, RT. reflexivity. }
    split; [exact P2|]. split.
    + split; [exact O2|]. simpl.
      rewrite <- (sl_read_length h2 data2 O2), RD, app_length, skipn_length, (sl_read_length h _ O). lia.
    + simpl. unfold view. simpl. rewrite RD. reflexivity.
Qed.

Lemma h_with_domain_spec h j d : hvalid h j ->
  op_spec h (h_with_domain X slack h j d) (with_domain X (view h j) d).
Proof.
  intros V. pose proof V as [O W]. unfold h_with_domain, with_domain.
  destruct (normalize_domain X d) as [d'|e]; [|apply op_spec_same; [apply pres_refl | exact V]].
  destruct (sub_head h (h_data j) (h_ll j) O) as [OH RH]; [lia|].
  destruct (sub_tail h (h_data j) (h_ll j + h_dl j) O) as [OT RT]; [lia|].
  set (hd := sl_sub (h_data j) 0 (h_ll j)) in *.
  set (tail := sl_sub (h_data j) (h_ll j + h_dl j) (s_len (h_data j))) in *.
  pose proof (make_spec h h 0 (s_len (h_data j) - h_dl j + length d') (pres_refl h)) as M.
  destruct (sl_make h 0 (s_len (h_data j) - h_dl j + length d')) as [h0 data].
  destruct M as (P0 & F0 & O0 & R0); [lia|].
  destruct (pres_read h h0 hd P0 OH) as [RH0 _].
  pose proof (append_spec slack h h0 data (sl_read h0 hd) P0 F0 O0) as A1.
  destruct (sl_append slack h0 data (sl_read h0 hd)) as [h1 data1]. destruct A1 as (P1 & F1 & O1 & R1).
  pose proof (append_spec slack h h1 data1 d' P1 F1 O1) as A2.
  destruct (sl_append slack h1 data1 d') as [h2 data2]. destruct A2 as (P2 & F2 & O2 & R2).
  destruct (pres_read h h2 tail P2 OT) as [RT2 _].
  pose proof (append_spec slack h h2 data2 (sl_read h2 tail) P2 F2 O2) as A3.
  destruct (sl_append slack h2 data2 (sl_read h2 tail)) as [h3 data3]. destruct A3 as (P3 & F3 & O3 & R3).
  assert (RD : sl_read h3 data3 = firstn (h_ll j) (sl_read h (h_data j)) ++ d' ++
                                   skipn (h_ll j + h_dl j) (sl_read h (h_data j))).
  { rewrite R3, R2, R1, R0, RT2, RT, RH0, RH. simpl. rewrite <- app_assoc. reflexivity. }
  split; [exact P3|]. split.
  - split; [exact O3|]. simpl.
    rewrite <- (sl_read_length h3 data3 O3), RD, !app_length, firstn_length, skipn_length, (sl_read_length h _ O). lia.
  - simpl. unfold view. simpl. rewrite RD. reflexivity.
Qed.

Lemma h_with_resource_spec h j r : hvalid h j ->
  op_spec h (h_with_resource X slack h j r) (with_resource X (view h j) r).
Proof.
  intros V. unfold h_with_resource, with_resource.
  destruct (h_bare_spec h j V) as [[OB WB] EB].
  set (b := h_bare j) in *.
  pose proof (make_spec h h (s_len (h_data b)) (s_len (h_data b) + length r) (pres_refl h)) as M.
  destruct (sl_make h (s_len (h_data b)) (s_len (h_data b) + length r)) as [h0 data] eqn:EM.
  destruct M as (P0 & F0 & O0 & R0); [lia|].
  assert (LD : s_len data = s_len (h_data b)) by (unfold sl_make in EM; inversion EM; reflexivity).
  destruct (pres_read h h0 (h_data b) P0 OB) as [RB0 _].
  destruct (copy_spec h h0 data (sl_read h0 (h_data b)) P0 F0 O0) as (P1 & O1 & R1).
  { rewrite RB0, (sl_read_length h _ OB). symmetry. exact LD. }
  set (h1 := sl_copy h0 data (sl_read h0 (h_data b))) in *.
  simpl j_dl.
  destruct (is_nil r).
  - rewrite <- EB. apply op_spec_same; [exact P1 | split; assumption].
  - destruct (h_dl j =? 0); [apply op_spec_zero; exact P1|].
    destruct (negb (utf8_valid r)); [apply op_spec_zero; exact P1|].
    destruct (x_opaque X r) as [r'|]; [|apply op_spec_zero; exact P1].
    pose proof (append_spec slack h h1 data r' P1 F0 O1) as A2.
    destruct (sl_append slack h1 data r') as [h2 data2]. destruct A2 as (P2 & F2 & O2 & R2).
    assert (RD : sl_read h2 data2 = j_data (bare (view h j)) ++ r').
    { rewrite R2, R1, RB0, <- EB. reflexivity. }
    split; [exact P2|]. split.
    + split; [exact O2|]. simpl. rewrite <- (sl_read_length h2 data2 O2), R2, R1, RB0, app_length, (sl_read_length h _ OB).
      subst b. simpl in WB |- *. lia.
    + simpl. unfold view at 1. simpl. rewrite RD. reflexivity.
Qed.

Lemma h_unmarshal_attr_spec h j0 v :
  op_spec h (h_unmarshal_attr X slack h j0 v) (unmarshal_attr X (view h j0) v).
Proof.
  unfold h_unmarshal_attr, unmarshal_attr. destruct (is_nil v); [apply op_spec_zero, pres_refl|].
  pose proof (h_parse_spec h v) as S. destruct (parse X v) as [j|e]; exact S.
Qed.

Lemma new_err_not_none l d r : new X l d r <> Er ENone.
Proof.
  unfold new.
  destruct (negb (utf8_valid l) || negb (utf8_valid r)); [discriminate|].
  unfold normalize_domain.
  destruct (negb (utf8_valid d)); [discriminate|].
  destruct (match bracket_inner d with Some i0 => x_ip6 X i0 | None => false end);
    [|destruct (x_ip4 X d);
      [|destruct (x_idna X (trim_dot d)) as [d2|];
        [destruct ((nlen d2 <? jid_domain_min) || (jid_domain_max <? nlen d2))%N; [discriminate|];
         destruct (ends_dot d2); [discriminate|] | discriminate]]];
  (destruct (norm_part (x_user X) l) as [l'|]; [|discriminate];
   destruct (norm_part (x_opaque X) r) as [r'|]; [|discriminate];
   unfold local_checks, resource_checks;
   destruct (jid_local_max <? nlen l')%N; [discriminate|];
   destruct (existsb (fun c => in_bytes c jid_forbidden_local) l'); [discriminate|];
   destruct (jid_resource_max <? nlen r')%N; discriminate).
Qed.

Lemma parse_err_not_none s : parse X s <> Er ENone.
Proof.
  unfold parse. destruct (split_string true s) as [[[l d] r] e0].
  destruct e0; try discriminate. apply new_err_not_none.
Qed.

Lemma h_unmarshal_xml_spec h j0 cd : hvalid h j0 ->
  op_spec h (h_unmarshal_xml X slack h j0 cd) (unmarshal_xml X (view h j0) cd).
Proof.
  intro V. unfold h_unmarshal_xml, unmarshal_xml.
  pose proof (h_parse_spec h cd) as S. pose proof (parse_err_not_none cd) as NE.
  destruct (h_parse X slack h cd) as [h' [j e]]. destruct S as (P & V' & E). simpl in P, V', E.
  destruct (parse X cd) as [j1|e1]; simpl in E.
  - inversion E; subst. split; [exact P | split; [exact V' | reflexivity]].
  - inversion E; subst e.
    destruct e1; try (apply op_spec_same; assumption). congruence.
Qed.

(* ---------- histories ---------- *)

Definition st_ok (st : hstate) : Prop := Forall (hvalid (st_heap st)) (st_regs st).

Lemma st0_ok : st_ok st0.
Proof. constructor. Qed.

Lemma hreg_valid st i : st_ok st -> hvalid (st_heap st) (hreg st i).
Proof.
  intro H. unfold hreg. destruct (Nat.lt_ge_cases i (length (st_regs st))) as [L|G].
  - apply (proj1 (Forall_forall _ _) H). apply nth_In. exact L.
  - rewrite nth_overflow by lia. apply hzero_valid.
Qed.

Lemma hreg_view st i : view (st_heap st) (hreg st i) = vreg (views st) i.
Proof.
  unfold hreg, vreg, views. rewrite <- (view_hzero (st_heap st)). symmetry. apply map_nth.
Qed.

Lemma h_call_spec st o : st_ok st -> op_spec (st_heap st) (h_call X slack st o) (v_call X (views st) o).
Proof.
  intro OK. pose proof (fun i => hreg_valid st i OK) as HV.
  destruct o as [l d r|s|l d r|i|i|i|i x|i x|i x|i v|i cd]; simpl h_call; simpl v_call;
    try rewrite <- hreg_view.
  - apply h_new_spec.
  - apply h_parse_spec.
  - pose proof (h_new_unsafe_spec (st_heap st) l d r) as S.
    destruct (h_new_unsafe slack (st_heap st) l d r) as [h' j]. exact S.
  - destruct (h_bare_spec _ _ (HV i)) as [V E]. split; [apply pres_refl | split; [exact V | simpl; rewrite E; reflexivity]].
  - destruct (h_domain_spec _ _ (HV i)) as [V E]. split; [apply pres_refl | split; [exact V | simpl; rewrite E; reflexivity]].
  - split; [apply pres_refl | split; [apply HV | reflexivity]].
  - apply h_with_local_spec, HV.
  - apply h_with_domain_spec, HV.
  - apply h_with_resource_spec, HV.
  - apply h_unmarshal_attr_spec.
  - apply h_unmarshal_xml_spec, HV.
Qed.

Lemma views_pres st h' : st_ok st -> pres (st_heap st) h' ->
  map (view h') (st_regs st) = views st /\ Forall (hvalid h') (st_regs st).
Proof.
  intros OK P. unfold views, st_ok in *. induction (st_regs st) as [|j rs IH]; [split; constructor|].
  inversion OK as [|? ? Vj Vrs]; subst. destruct (IH Vrs) as [E F].
  destruct (pres_hvalid _ _ j P Vj) as [Vj' Ej].
  split; [simpl; rewrite E, Ej; reflexivity | constructor; assumption].
Qed.

(* one call: the heap only grows by fresh arrays, every earlier register keeps
   its view, and the new register is what the value-level call computes *)
Lemma h_step_spec st o : st_ok st ->
  let st' := h_step X slack st o in
  st_ok st' /\ pres (st_heap st) (st_heap st') /\
  (views st', st_errs st') = v_step X (views st, st_errs st) o /\
  exists j, st_regs st' = st_regs st ++ [j].
Proof.
  intro OK. pose proof (h_call_spec st o OK) as S. unfold h_step, v_step.
  destruct (h_call X slack st o) as [h' [j e]]. destruct S as (P & V & E). simpl in P, V, E.
  destruct (views_pres st h' OK P) as [EV FV]. simpl.
  split; [|split; [exact P | split; [|exists j; reflexivity]]].
  - unfold st_ok. simpl. apply Forall_app. split; [exact FV | constructor; [exact V | constructor]].
  - rewrite <- E. unfold views at 1. simpl. rewrite map_app, EV. reflexivity.
Qed.

Lemma h_run_spec prog : forall st, st_ok st ->
  let st' := h_run X slack st prog in
  st_ok st' /\ pres (st_heap st) (st_heap st') /\
  (views st', st_errs st') = v_run X (views st, st_errs st) prog /\
  exists more, st_regs st' = st_regs st ++ more.
Proof.
  induction prog as [|o prog IH]; intros st OK; simpl.
  - split; [exact OK | split; [apply pres_refl | split; [reflexivity | exists []; rewrite app_nil_r; reflexivity]]].
  - destruct (h_step_spec st o OK) as (OK1 & P1 & E1 & [j R1]).
    destruct (IH _ OK1) as (OK2 & P2 & E2 & [more R2]).
    split; [exact OK2 | split; [exact (pres_trans _ _ _ P1 P2) | split]].
    + unfold v_run in *. simpl. rewrite <- E1. exact E2.
    + exists (j :: more). unfold h_run in R2 |- *. simpl. rewrite R2, R1, <- app_assoc. reflexivity.
Qed.

(* (A) every history computes, register by register, what the value-level
       program computes *)
Lemma history_refines prog :
  let st := h_run X slack st0 prog in
  (views st, st_errs st) = v_run X ([], []) prog.
Proof. destruct (h_run_spec prog st0 st0_ok) as (_ & _ & E & _). exact E. Qed.

(* (B) no later call changes an earlier value: after any further program, the
       registers that existed are the same heap values, they denote the same
       addresses, and every array that existed is bit for bit unchanged *)
Lemma history_independent pre post :
  let st := h_run X slack st0 pre in
  let st' := h_run X slack st post in
  pres (st_heap st) (st_heap st') /\
  forall i, i < length (st_regs st) ->
    hreg st' i = hreg st i /\ view (st_heap st') (hreg st' i) = view (st_heap st) (hreg st i).
Proof.
  destruct (h_run_spec pre st0 st0_ok) as (OK & _).
  destruct (h_run_spec post _ OK) as (_ & P & _ & [more R]).
  split; [exact P|]. intros i Hi.
  assert (E : hreg (h_run X slack (h_run X slack st0 pre) post) i = hreg (h_run X slack st0 pre) i).
  { unfold hreg. rewrite R. apply app_nth1. exact Hi. }
  split; [exact E|]. rewrite E.
  apply (pres_hvalid _ _ _ P). apply hreg_valid. exact OK.
Qed.

Lemma history_views_prefix pre post :
  exists more, views (h_run X slack (h_run X slack st0 pre) post) = views (h_run X slack st0 pre) ++ more.
Proof.
  destruct (h_run_spec pre st0 st0_ok) as (OK & _).
  destruct (h_run_spec post _ OK) as (_ & P & _ & [more R]).
  destruct (views_pres _ _ OK P) as [EV _].
  exists (map (view (st_heap (h_run X slack (h_run X slack st0 pre) post))) more).
  unfold views at 1. rewrite R, map_app, EV. reflexivity.
Qed.

Lemma h_run_app pre post st : h_run X slack st (pre ++ post) = h_run X slack (h_run X slack st pre) post.
Proof. unfold h_run. apply fold_left_app. Qed.

(* ---------- which registers hold addresses the validating API returned ---------- *)

(* register k is clean when its call returned no error and it is New, Parse, a
   decode, or a view / replacement of a clean register (never NewUnsafe, never a
   value returned together with an error) *)
Definition clean_call (cl : list bool) (o : hop) (e : jerr) : bool :=
  jerr_eqb e ENone &&
  match o with
  | HUnsafe _ _ _ => false
  | HNew _ _ _ | HParse _ | HAttr _ _ | HElem _ _ => true
  | HBare i | HDomain i | HCopy i | HWithL i _ | HWithD i _ | HWithR i _ => nth i cl true
  end.

Fixpoint clean_from (cl : list bool) (prog : list hop) (es : list jerr) : list bool :=
  match prog, es with
  | o :: prog', e :: es' => clean_from (cl ++ [clean_call cl o e]) prog' es'
  | _, _ => cl
  end.

Definition all_returned (vs : list jid) (cl : list bool) : Prop :=
  length cl = length vs /\ forall k, nth k cl true = true -> returned X (vreg vs k).

Lemma jerr_eqb_none e : jerr_eqb e ENone = true -> e = ENone.
Proof. destruct e; simpl; intro H; try discriminate; reflexivity. Qed.

Lemma v_call_returned vs cl o : all_returned vs cl ->
  clean_call cl o (snd (v_call X vs o)) = true -> returned X (fst (v_call X vs o)).
Proof.
  intros [L R] C. unfold clean_call in C. apply andb_true_iff in C. destruct C as [E C].
  apply jerr_eqb_none in E.
  destruct o as [l d r|s|l d r|i|i|i|i x|i x|i x|i v|i cd]; simpl in *; try discriminate.
  - destruct (new X l d r) as [j|e] eqn:N; simpl in *; [exact (R_new X _ _ _ _ N) | apply R_zero].
  - destruct (parse X s) as [j|e] eqn:N; simpl in *; [exact (R_parse X _ _ N) | apply R_zero].
  - apply R_bare, R, C.
  - apply R_domain, R, C.
  - apply R, C.
  - destruct (with_local X (vreg vs i) x) as [j e] eqn:W. simpl in *. subst e. exact (R_with_local X _ _ _ (R i C) W).
  - destruct (with_domain X (vreg vs i) x) as [j e] eqn:W. simpl in *. subst e. exact (R_with_domain X _ _ _ (R i C) W).
  - destruct (with_resource X (vreg vs i) x) as [j e] eqn:W. simpl in *. subst e. exact (R_with_resource X _ _ _ (R i C) W).
  - unfold unmarshal_attr in *. destruct (is_nil v); [apply R_zero|].
    destruct (parse X v) as [j|e] eqn:N; simpl in *; [exact (R_parse X _ _ N) | apply R_zero].
  - unfold unmarshal_xml in *.
    destruct (parse X cd) as [j|e] eqn:N; simpl in *; [exact (R_parse X _ _ N) | subst e].
    exfalso. exact (parse_err_not_none cd N).
Qed.

Lemma v_run_returned prog : forall vs es cl, all_returned vs cl ->
  exists more, snd (v_run X (vs, es) prog) = es ++ more /\
               all_returned (fst (v_run X (vs, es) prog)) (clean_from cl prog more).
Proof.
  clear slack. induction prog as [|o prog IH]; intros vs es cl AR.
  - exists []. simpl. rewrite app_nil_r. split; [reflexivity | exact AR].
  - destruct (v_call X vs o) as [j e] eqn:VC.
    assert (ST : v_step X (vs, es) o = (vs ++ [j], es ++ [e])) by (unfold v_step; simpl; rewrite VC; reflexivity).
    unfold v_run. simpl fold_left. rewrite ST.
    assert (AR1 : all_returned (vs ++ [j]) (cl ++ [clean_call cl o e])).
    { destruct AR as [L R]. split; [rewrite !app_length; simpl; lia|].
      intros k Hk. unfold vreg.
      destruct (Nat.lt_ge_cases k (length vs)) as [Lt|Ge].
      - rewrite app_nth1 by exact Lt. apply R. rewrite app_nth1 in Hk by lia. exact Hk.
      - destruct (Nat.eq_dec k (length vs)) as [Eq|Ne].
        + subst k. rewrite nth_middle. rewrite <- L, nth_middle in Hk.
          pose proof (v_call_returned vs cl o (conj L R)) as VR. rewrite VC in VR. simpl in VR. apply VR. exact Hk.
        + rewrite nth_overflow by (rewrite app_length; simpl; lia). apply R_zero. }
    destruct (IH (vs ++ [j]) (es ++ [e]) _ AR1) as [more [E1 A1]].
    exists (e :: more). unfold v_run in E1, A1. split.
    + rewrite E1, <- app_assoc. reflexivity.
    + simpl clean_from. exact A1.
Qed.

End Ops.

(* (C) canonical for ever: in every history, under the assumptions about the
   external functions, every clean register denotes — at the END of the history,
   whatever was called after it — the zero value or a canonical address *)
Lemma history_canonical X (HX : ext_ok X) slack prog :
  let st := h_run X slack st0 prog in
  forall k, nth k (clean_from [] prog (st_errs st)) true = true ->
    view (st_heap st) (hreg st k) = zero \/ canon X (view (st_heap st) (hreg st k)).
Proof.
  intros st k Hk. subst st.
  pose proof (history_refines X slack prog) as E. simpl in E.
  assert (AR0 : all_returned X [] []).
  { split; [reflexivity|]. intros i _. unfold vreg. destruct i; apply R_zero. }
  destruct (v_run_returned X prog [] [] [] AR0) as [more [E1 [_ R]]].
  rewrite <- E in E1, R. simpl in E1, R. rewrite E1 in Hk.
  rewrite hreg_view. apply (returned_canonical X HX). apply R. exact Hk.
Qed.
