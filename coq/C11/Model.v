(* C11/Model.v — executable model of jid/jid.go and jid/unsafe.go.

   A JID is the packed record {data; locallen; domainlen} exactly as the Go
   struct.  Every exported function of the two files is modelled statement by
   statement; results are (value, error-kind) pairs as in Go (the value that is
   returned together with an error is modelled too).  The external functions
     precis.UsernameCaseMapped / precis.OpaqueString (Append),
     idna.Display.ToUnicode, net.ParseIP (+ To4)
   are the fields of an [ext] record, the single Section variable; utf8.Valid
   is modelled for real ([utf8_valid]).  Constants (forbidden localpart set,
   length limits) come from gen/Jid.v, rewritten from the source on every run.
   No proofs here. *)
From XV Require Import lib.Bytes gen.Jid.

Inductive jerr :=
| ENone | EUtf8 | EPrecis | EIdna | EDomainLen | EDomainDot
| ELongLocal | ELongRes | EForbidden | ENoLocal | ENoRes.

Definition jerr_eqb (a b : jerr) : bool :=
  match a, b with
  | ENone, ENone | EUtf8, EUtf8 | EPrecis, EPrecis | EIdna, EIdna
  | EDomainLen, EDomainLen | EDomainDot, EDomainDot | ELongLocal, ELongLocal
  | ELongRes, ELongRes | EForbidden, EForbidden | ENoLocal, ENoLocal | ENoRes, ENoRes => true
  | _, _ => false
  end.

Inductive res (A : Type) := Ok (a : A) | Er (e : jerr).
Arguments Ok {A} a.
Arguments Er {A} e.

Record jid := mkjid { j_data : bytes; j_ll : nat; j_dl : nat }.

Definition zero : jid := mkjid [] 0 0.

Definition is_nil {A} (l : list A) : bool := match l with [] => true | _ => false end.

Definition c_slash : byte := "/"%byte.
Definition c_at : byte := "@"%byte.
Definition c_dot : byte := "."%byte.
Definition c_lbr : byte := "["%byte.
Definition c_rbr : byte := "]"%byte.

(* ---- strings.Index(s, c) + slicing: cut at the first c ---- *)

Fixpoint cut (c : byte) (s : bytes) : option (bytes * bytes) :=
  match s with
  | [] => None
  | x :: r => if byte_eqb x c then Some ([], r)
              else match cut c r with
                   | Some (a, b) => Some (x :: a, b)
                   | None => None
                   end
  end.

(* splitString(s, safe): the three parts and the error, with the values the Go
   named results hold at each return. *)
Definition split_string (safe : bool) (s : bytes) : (bytes * bytes * bytes) * jerr :=
  let '(s1, r, bad) :=
    match cut c_slash s with
    | None => (s, [], false)
    | Some (a, b) => (a, b, safe && is_nil b)
    end in
  if bad then (([], [], []), ENoRes)
  else match cut c_at s1 with
       | None => (([], s1, r), ENone)
       | Some (a, b) => if safe && is_nil a then (([], [], r), ENoLocal)
                        else ((a, b, r), ENone)
       end.

(* ---- unicode/utf8.Valid ---- *)

Definition in_rng (lo hi : N) (b : byte) : bool := ((lo <=? bN b) && (bN b <=? hi))%N.
Definition is_cont (b : byte) : bool := in_rng 128 191 b.

Fixpoint utf8_valid (s : bytes) : bool :=
  match s with
  | [] => true
  | b0 :: r =>
      if (bN b0 <? 128)%N then utf8_valid r
      else if in_rng 194 223 b0 then
        match r with
        | b1 :: r1 => is_cont b1 && utf8_valid r1
        | _ => false
        end
      else if in_rng 224 239 b0 then
        match r with
        | b1 :: b2 :: r2 =>
            (if (bN b0 =? 224)%N then in_rng 160 191 b1
             else if (bN b0 =? 237)%N then in_rng 128 159 b1
             else is_cont b1) && is_cont b2 && utf8_valid r2
        | _ => false
        end
      else if in_rng 240 244 b0 then
        match r with
        | b1 :: b2 :: b3 :: r3 =>
            (if (bN b0 =? 240)%N then in_rng 144 191 b1
             else if (bN b0 =? 244)%N then in_rng 128 143 b1
             else is_cont b1) && is_cont b2 && is_cont b3 && utf8_valid r3
        | _ => false
        end
      else false
  end.

(* ---- pure helpers of normalizeDomainpart ---- *)

(* l := len(d)-1; l > 1 && d[0] == '[' && d[l] == ']'  =>  d[1:l] *)
Definition bracket_inner (d : bytes) : option bytes :=
  match d with
  | x :: rest =>
      if byte_eqb x c_lbr then
        match rev rest with
        | y :: ri => if byte_eqb y c_rbr && negb (is_nil ri) then Some (rev ri) else None
        | [] => None
        end
      else None
  | [] => None
  end.

(* strings.TrimSuffix(d, ".") *)
Definition trim_dot (d : bytes) : bytes :=
  match rev d with
  | y :: ri => if byte_eqb y c_dot then rev ri else d
  | [] => d
  end.

Definition ends_dot (d : bytes) : bool :=
  match rev d with
  | y :: _ => byte_eqb y c_dot
  | [] => false
  end.

Definition nlen (s : bytes) : N := N.of_nat (length s).

Definition local_checks (l : bytes) : jerr :=
  if (jid_local_max <? nlen l)%N then ELongLocal
  else if existsb (fun c => in_bytes c jid_forbidden_local) l then EForbidden
  else ENone.

Definition resource_checks (r : bytes) : jerr :=
  if (jid_resource_max <? nlen r)%N then ELongRes else ENone.

(* ---- accessors (no external functions) ---- *)

Definition localpart (j : jid) : bytes := firstn (j_ll j) (j_data j).
Definition domainpart (j : jid) : bytes := firstn (j_dl j) (skipn (j_ll j) (j_data j)).
Definition resourcepart (j : jid) : bytes := skipn (j_ll j + j_dl j) (j_data j).

Definition bare (j : jid) : jid := mkjid (firstn (j_dl j + j_ll j) (j_data j)) (j_ll j) (j_dl j).
Definition domain (j : jid) : jid := mkjid (firstn (j_dl j) (skipn (j_ll j) (j_data j))) 0 (j_dl j).

(* String(): the separator arithmetic as written. *)
Definition string_of (j : jid) : bytes :=
  let s0 := domainpart j in
  let '(s, addsep) := if (0 <? j_ll j) then (localpart j ++ c_at :: s0, 1) else (s0, 0) in
  if negb (length s =? length (j_data j) + addsep)
  then s ++ c_slash :: resourcepart j
  else s.

Definition equal (j j2 : jid) : bool :=
  if negb (length (j_data j) =? length (j_data j2)) then false
  else bytes_eqb (j_data j) (j_data j2) && (j_ll j =? j_ll j2) && (j_dl j =? j_dl j2).

(* unsafe.go *)
Definition new_unsafe (l d r : bytes) : jid := mkjid (l ++ d ++ r) (length l) (length d).

Definition parse_unsafe (s : bytes) : jid * jerr :=
  let '((l, d, r), e) := split_string false s in (new_unsafe l d r, e).

Definition marshal_attr (j : jid) : bytes := string_of j.
Definition marshal_xml (j : jid) : bytes := string_of j.   (* the element's chardata *)

(* ---- the part that uses PRECIS / IDNA / net.ParseIP ---- *)

Record ext := mkext {
  x_user : bytes -> option bytes;     (* precis.UsernameCaseMapped.Append(nil, x); None = error *)
  x_opaque : bytes -> option bytes;   (* precis.OpaqueString.Append(nil, x) *)
  x_idna : bytes -> option bytes;     (* idna.Display.ToUnicode(x) *)
  x_ip4 : bytes -> bool;              (* ip := net.ParseIP(x); ip != nil && ip.To4() != nil *)
  x_ip6 : bytes -> bool               (* ip := net.ParseIP(x); ip != nil && ip.To4() == nil *)
}.

(* a part is normalised only when it is not empty *)
Definition norm_part (f : bytes -> option bytes) (p : bytes) : option bytes :=
  if is_nil p then Some [] else f p.

Section WithExt.
Variable X : ext.

Definition normalize_domain (d : bytes) : res bytes :=
  if negb (utf8_valid d) then Er EUtf8
  else if match bracket_inner d with Some i => x_ip6 X i | None => false end then Ok d
  else if x_ip4 X d then Ok d
  else match x_idna X (trim_dot d) with
       | None => Er EIdna
       | Some d2 =>
           if ((nlen d2 <? jid_domain_min) || (jid_domain_max <? nlen d2))%N then Er EDomainLen
           else if ends_dot d2 then Er EDomainDot
           else Ok d2
       end.

Definition new (l d r : bytes) : res jid :=
  if negb (utf8_valid l) || negb (utf8_valid r) then Er EUtf8
  else match normalize_domain d with
  | Er e => Er e
  | Ok d' =>
    match norm_part (x_user X) l with
    | None => Er EPrecis
    | Some l' =>
      match norm_part (x_opaque X) r with
      | None => Er EPrecis
      | Some r' =>
        match local_checks l' with
        | ENone =>
            match resource_checks r' with
            | ENone => Ok (mkjid (l' ++ d' ++ r') (length l') (length d'))
            | e => Er e
            end
        | e => Er e
        end
      end
    end
  end.

Definition parse (s : bytes) : res jid :=
  match split_string true s with
  | ((l, d, r), ENone) => new l d r
  | (_, e) => Er e
  end.

Definition with_local (j : jid) (l : bytes) : jid * jerr :=
  if is_nil l then (mkjid (skipn (j_ll j) (j_data j)) 0 (j_dl j), ENone)
  else if (j_dl j =? 0) then (j, EDomainLen)
  else if negb (utf8_valid l) then (j, EUtf8)
  else match x_user X l with
       | None => (j, EPrecis)
       | Some l' => (mkjid (l' ++ skipn (j_ll j) (j_data j)) (length l') (j_dl j), local_checks l')
       end.

Definition with_domain (j : jid) (d : bytes) : jid * jerr :=
  match normalize_domain d with
  | Er e => (j, e)
  | Ok d' => (mkjid (firstn (j_ll j) (j_data j) ++ d' ++ skipn (j_ll j + j_dl j) (j_data j))
                    (j_ll j) (length d'), ENone)
  end.

Definition with_resource (j : jid) (r : bytes) : jid * jerr :=
  let b := bare j in
  if is_nil r then (b, ENone)
  else if (j_dl j =? 0) then (zero, EDomainLen)
  else if negb (utf8_valid r) then (zero, EUtf8)
  else match x_opaque X r with
       | None => (zero, EPrecis)
       | Some r' => (mkjid (j_data b ++ r') (j_ll j) (j_dl j), resource_checks r')
       end.

(* UnmarshalXMLAttr into a receiver holding j0 *)
Definition unmarshal_attr (j0 : jid) (v : bytes) : jid * jerr :=
  if is_nil v then (zero, ENone)
  else match parse v with
       | Ok j => (j, ENone)
       | Er e => (zero, e)
       end.

(* UnmarshalXML into a receiver holding j0; cd is the element's chardata *)
Definition unmarshal_xml (j0 : jid) (cd : bytes) : jid * jerr :=
  match parse cd with
  | Ok j => (j, ENone)
  | Er e => (j0, e)
  end.

End WithExt.

(* ---- the same functions over a heap of backing arrays --------------------

   Go's JID holds a slice: Bare, Domain, Copy, WithResource("") and plain
   assignment share the backing array between values, and append writes IN
   PLACE when the capacity suffices.  The value-level model above is adequate
   only if no call ever writes into an array an earlier value can see.  This
   layer makes that explicit: a heap is a list of arrays (each as long as its
   capacity), a slice is {array, offset, len, cap}, and every function is a
   state transition on the heap that follows the Go statements (make, copy,
   append, reslice).  [slack n] is the extra capacity the runtime (or
   precis' Append) gives a reallocated array of n bytes: any function. *)

Record slice := mksl { s_arr : nat; s_off : nat; s_len : nat; s_cap : nat }.
Definition heap := list bytes.
Definition nil_slice : slice := mksl 0 0 0 0.

Definition arr_get (h : heap) (a : nat) : bytes := nth a h [].

Definition sl_read (h : heap) (s : slice) : bytes :=
  firstn (s_len s) (skipn (s_off s) (arr_get h (s_arr s))).

Fixpoint upd {A} (l : list A) (i : nat) (x : A) : list A :=
  match l, i with
  | [], _ => []
  | _ :: r, 0 => x :: r
  | y :: r, S i' => y :: upd r i' x
  end.

(* a[pos : pos+len(xs)] = xs *)
Definition write_at (a : bytes) (pos : nat) (xs : bytes) : bytes :=
  firstn pos a ++ xs ++ skipn (pos + length xs) a.

Definition zeros (n : nat) : bytes := repeat x00 n.

(* make([]byte, n, c) *)
Definition sl_make (h : heap) (n c : nat) : heap * slice :=
  (h ++ [zeros c], mksl (length h) 0 n c).

(* s[a:b] *)
Definition sl_sub (s : slice) (a b : nat) : slice :=
  mksl (s_arr s) (s_off s + a) (b - a) (s_cap s - a).

(* copy(dst, src) *)
Definition sl_copy (h : heap) (dst : slice) (src : bytes) : heap :=
  upd h (s_arr dst) (write_at (arr_get h (s_arr dst)) (s_off dst) (firstn (s_len dst) src)).

(* append(s, xs...), also the contract of precis' Append(dst, src): written in
   place when it fits in the capacity, otherwise a new array *)
Definition sl_append (slack : nat -> nat) (h : heap) (s : slice) (xs : bytes) : heap * slice :=
  let n := s_len s + length xs in
  if n <=? s_cap s
  then (upd h (s_arr s) (write_at (arr_get h (s_arr s)) (s_off s + s_len s) xs),
        mksl (s_arr s) (s_off s) n (s_cap s))
  else (h ++ [sl_read h s ++ xs ++ zeros (slack n)], mksl (length h) 0 n (n + slack n)).

Record hjid := mkh { h_data : slice; h_ll : nat; h_dl : nat }.
Definition hzero : hjid := mkh nil_slice 0 0.

(* the value a heap JID denotes *)
Definition view (h : heap) (j : hjid) : jid := mkjid (sl_read h (h_data j)) (h_ll j) (h_dl j).

Definition h_bare (j : hjid) : hjid :=
  mkh (sl_sub (h_data j) 0 (h_dl j + h_ll j)) (h_ll j) (h_dl j).
Definition h_domain (j : hjid) : hjid :=
  mkh (sl_sub (h_data j) (h_ll j) (h_dl j + h_ll j)) 0 (h_dl j).

Section WithHeap.
Variable X : ext.
Variable slack : nat -> nat.

Definition h_new (h : heap) (l d r : bytes) : heap * (hjid * jerr) :=
  if negb (utf8_valid l) || negb (utf8_valid r) then (h, (hzero, EUtf8))
  else match normalize_domain X d with
  | Er e => (h, (hzero, e))
  | Ok d' =>
    let '(h0, data) := sl_make h 0 (length l + length d' + length r) in
    match norm_part (x_user X) l with
    | None => (h0, (hzero, EPrecis))
    | Some l' =>
      let '(h1, data1) := sl_append slack h0 data l' in
      let '(h2, data2) := sl_append slack h1 data1 d' in
      match norm_part (x_opaque X) r with
      | None => (h2, (hzero, EPrecis))
      | Some r' =>
        let '(h3, data3) := sl_append slack h2 data2 r' in
        match local_checks l' with
        | ENone =>
            match resource_checks r' with
            | ENone => (h3, (mkh data3 (length l') (length d'), ENone))
            | e => (h3, (hzero, e))
            end
        | e => (h3, (hzero, e))
        end
      end
    end
  end.

Definition h_parse (h : heap) (s : bytes) : heap * (hjid * jerr) :=
  match split_string true s with
  | ((l, d, r), ENone) => h_new h l d r
  | (_, e) => (h, (hzero, e))
  end.

Definition h_new_unsafe (h : heap) (l d r : bytes) : heap * hjid :=
  let '(h0, data) := sl_make h 0 (length l + length d + length r) in
  let '(h1, data1) := sl_append slack h0 data l in
  let '(h2, data2) := sl_append slack h1 data1 d in
  let '(h3, data3) := sl_append slack h2 data2 r in
  (h3, mkh data3 (length l) (length d)).

Definition h_with_local (h : heap) (j : hjid) (l : bytes) : heap * (hjid * jerr) :=
  let tail := sl_sub (h_data j) (h_ll j) (s_len (h_data j)) in
  let '(h0, data) := sl_make h 0 (length l + s_len tail) in
  if is_nil l then
    let '(h1, data1) := sl_append slack h0 data (sl_read h0 tail) in
    (h1, (mkh data1 0 (h_dl j), ENone))
  else if (h_dl j =? 0) then (h0, (j, EDomainLen))
  else if negb (utf8_valid l) then (h0, (j, EUtf8))
  else match x_user X l with
       | None => (h0, (j, EPrecis))
       | Some l' =>
           let '(h1, data1) := sl_append slack h0 data l' in
           let '(h2, data2) := sl_append slack h1 data1 (sl_read h1 tail) in
           (h2, (mkh data2 (length l') (h_dl j), local_checks l'))
       end.

Definition h_with_domain (h : heap) (j : hjid) (d : bytes) : heap * (hjid * jerr) :=
  match normalize_domain X d with
  | Er e => (h, (j, e))
  | Ok d' =>
    let dj := h_data j in
    let '(h0, data) := sl_make h 0 (s_len dj - h_dl j + length d') in
    let '(h1, data1) := sl_append slack h0 data (sl_read h0 (sl_sub dj 0 (h_ll j))) in
    let '(h2, data2) := sl_append slack h1 data1 d' in
    let '(h3, data3) := sl_append slack h2 data2 (sl_read h2 (sl_sub dj (h_ll j + h_dl j) (s_len dj))) in
    (h3, (mkh data3 (h_ll j) (length d'), ENone))
  end.

Definition h_with_resource (h : heap) (j : hjid) (r : bytes) : heap * (hjid * jerr) :=
  let b := h_bare j in
  let '(h0, data) := sl_make h (s_len (h_data b)) (s_len (h_data b) + length r) in
  let h1 := sl_copy h0 data (sl_read h0 (h_data b)) in
  if is_nil r then (h1, (b, ENone))
  else if (h_dl j =? 0) then (h1, (hzero, EDomainLen))
  else if negb (utf8_valid r) then (h1, (hzero, EUtf8))
  else match x_opaque X r with
       | None => (h1, (hzero, EPrecis))
       | Some r' =>
           let '(h2, data2) := sl_append slack h1 data r' in
           (h2, (mkh data2 (h_ll j) (h_dl j), resource_checks r'))
       end.

(* UnmarshalXMLAttr / UnmarshalXML on a variable holding j0: the new contents
   of the variable *)
Definition h_unmarshal_attr (h : heap) (j0 : hjid) (v : bytes) : heap * (hjid * jerr) :=
  if is_nil v then (h, (hzero, ENone)) else h_parse h v.

Definition h_unmarshal_xml (h : heap) (j0 : hjid) (cd : bytes) : heap * (hjid * jerr) :=
  match h_parse h cd with
  | (h', (j, ENone)) => (h', (j, ENone))
  | (h', (_, e)) => (h', (j0, e))
  end.

(* ---- histories: programs over registers holding JID values.  Every call
   puts its result in a new register; earlier registers are the values the
   caller still holds. ---- *)

Inductive hop :=
| HNew (l d r : bytes) | HParse (s : bytes) | HUnsafe (l d r : bytes)
| HBare (i : nat) | HDomain (i : nat) | HCopy (i : nat)
| HWithL (i : nat) (x : bytes) | HWithD (i : nat) (x : bytes) | HWithR (i : nat) (x : bytes)
| HAttr (i : nat) (v : bytes) | HElem (i : nat) (cd : bytes).

Record hstate := mkst { st_heap : heap; st_regs : list hjid; st_errs : list jerr }.
Definition st0 : hstate := mkst [] [] [].

Definition hreg (st : hstate) (i : nat) : hjid := nth i (st_regs st) hzero.

Definition h_call (st : hstate) (o : hop) : heap * (hjid * jerr) :=
  let h := st_heap st in
  match o with
  | HNew l d r => h_new h l d r
  | HParse s => h_parse h s
  | HUnsafe l d r => let '(h', j) := h_new_unsafe h l d r in (h', (j, ENone))
  | HBare i => (h, (h_bare (hreg st i), ENone))
  | HDomain i => (h, (h_domain (hreg st i), ENone))
  | HCopy i => (h, (hreg st i, ENone))
  | HWithL i x => h_with_local h (hreg st i) x
  | HWithD i x => h_with_domain h (hreg st i) x
  | HWithR i x => h_with_resource h (hreg st i) x
  | HAttr i v => h_unmarshal_attr h (hreg st i) v
  | HElem i cd => h_unmarshal_xml h (hreg st i) cd
  end.

Definition h_step (st : hstate) (o : hop) : hstate :=
  let '(h', (j, e)) := h_call st o in
  mkst h' (st_regs st ++ [j]) (st_errs st ++ [e]).

Definition h_run (st : hstate) (prog : list hop) : hstate := fold_left h_step prog st.

(* the same program over plain values *)
Definition vreg (vs : list jid) (i : nat) : jid := nth i vs zero.

Definition res_pair (r : res jid) : jid * jerr :=
  match r with Ok j => (j, ENone) | Er e => (zero, e) end.

Definition v_call (vs : list jid) (o : hop) : jid * jerr :=
  match o with
  | HNew l d r => res_pair (new X l d r)
  | HParse s => res_pair (parse X s)
  | HUnsafe l d r => (new_unsafe l d r, ENone)
  | HBare i => (bare (vreg vs i), ENone)
  | HDomain i => (domain (vreg vs i), ENone)
  | HCopy i => (vreg vs i, ENone)
  | HWithL i x => with_local X (vreg vs i) x
  | HWithD i x => with_domain X (vreg vs i) x
  | HWithR i x => with_resource X (vreg vs i) x
  | HAttr i v => unmarshal_attr X (vreg vs i) v
  | HElem i cd => unmarshal_xml X (vreg vs i) cd
  end.

Definition v_step (s : list jid * list jerr) (o : hop) : list jid * list jerr :=
  let '(j, e) := v_call (fst s) o in (fst s ++ [j], snd s ++ [e]).

Definition v_run (s : list jid * list jerr) (prog : list hop) : list jid * list jerr :=
  fold_left v_step prog s.

(* the values all registers denote now *)
Definition views (st : hstate) : list jid := map (view (st_heap st)) (st_regs st).

End WithHeap.

(* ---- correspondence records (harness-written case files) ---- *)

Record tables := mktab {
  t_user : list (bytes * option bytes);
  t_opaque : list (bytes * option bytes);
  t_idna : list (bytes * option bytes);
  t_ip4 : list (bytes * bool);
  t_ip6 : list (bytes * bool) }.

Definition poison : option bytes := Some (str "<<not recorded>>").

Fixpoint lookup {A} (dflt : A) (t : list (bytes * A)) (x : bytes) : A :=
  match t with
  | [] => dflt
  | (k, v) :: r => if bytes_eqb k x then v else lookup dflt r x
  end.

Definition ext_of (t : tables) : ext :=
  mkext (lookup poison (t_user t)) (lookup poison (t_opaque t)) (lookup poison (t_idna t))
        (lookup false (t_ip4 t)) (lookup false (t_ip6 t)).

(* observation of a JID through Localpart/Domainpart/Resourcepart + error kind *)
Record pobs := mkpobs { o_l : bytes; o_d : bytes; o_r : bytes; o_e : jerr }.

Definition pobs_eqb (a b : pobs) : bool :=
  bytes_eqb (o_l a) (o_l b) && bytes_eqb (o_d a) (o_d b) && bytes_eqb (o_r a) (o_r b)
  && jerr_eqb (o_e a) (o_e b).

Definition obs_pair (p : jid * jerr) : pobs :=
  mkpobs (localpart (fst p)) (domainpart (fst p)) (resourcepart (fst p)) (snd p).

Definition obs_res (r : res jid) : pobs :=
  match r with
  | Ok j => obs_pair (j, ENone)
  | Er e => obs_pair (zero, e)
  end.

Definition nosep (s : bytes) : bool := negb (in_bytes c_slash s) && negb (in_bytes c_at s).

Definition opt_eqb (a b : option bytes) : bool :=
  match a, b with
  | Some x, Some y => bytes_eqb x y
  | None, None => true
  | _, _ => false
  end.

Inductive case :=
| CSplit (safe : bool) (s : bytes) (ol od or_ : bytes) (oe : jerr)
| CNew (t : tables) (l d r : bytes) (o : pobs)
| CParse (t : tables) (s : bytes) (o : pobs)
| CWithL (t : tables) (jl jd jr : bytes) (x : bytes) (o : pobs)
| CWithD (t : tables) (jl jd jr : bytes) (x : bytes) (o : pobs)
| CWithR (t : tables) (jl jd jr : bytes) (x : bytes) (o : pobs)
| CView (jl jd jr : bytes) (kl kd kr : bytes)
        (ostr : bytes) (ob : pobs) (odm : pobs) (oeq : bool)
| CAttr (t : tables) (jl jd jr : bytes) (v : bytes) (o : pobs)
| CElem (t : tables) (jl jd jr : bytes) (cd : bytes) (o : pobs)
| CUnsafe (s : bytes) (o : pobs) (ostr : bytes)
(* a history of calls; o = what every register reads AFTER the last call
   (three parts) with the error kind its call returned *)
| CHist (t : tables) (prog : list hop) (o : list pobs)
(* one recorded instance of each hypothesis about the external functions *)
| CHypUser (x y : bytes) (y2 : option bytes)      (* user x = Some y, user y = y2 *)
| CHypOpaque (x y : bytes) (y2 : option bytes)
| CHypIdna (x y : bytes) (y2 : option bytes)      (* idna x = Some y, idna y = y2 *)
| CHypIp4 (x : bytes)                             (* ip4 x = true *)
| CHypIp6 (x : bytes).                            (* ip6 x = true *)

Definition hyp_prec_ok (y : bytes) (y2 : option bytes) : bool :=
  (is_nil y || opt_eqb y2 (Some y)) && utf8_valid y.

Fixpoint list_eqb {A} (eqb : A -> A -> bool) (a b : list A) : bool :=
  match a, b with
  | [], [] => true
  | x :: a', y :: b' => eqb x y && list_eqb eqb a' b'
  | _, _ => false
  end.

(* capacity policy used when a case file is evaluated (the theorems hold for every policy) *)
Definition case_slack (n : nat) : nat := n.

Definition hist_obs (st : hstate) : list pobs :=
  map (fun p => obs_pair (view (st_heap st) (fst p), snd p)) (combine (st_regs st) (st_errs st)).

Definition case_ok (c : case) : bool :=
  match c with
  | CSplit safe s ol od or_ oe =>
      let '((l, d, r), e) := split_string safe s in
      bytes_eqb l ol && bytes_eqb d od && bytes_eqb r or_ && jerr_eqb e oe
  | CNew t l d r o => pobs_eqb (obs_res (new (ext_of t) l d r)) o
  | CParse t s o => pobs_eqb (obs_res (parse (ext_of t) s)) o
  | CWithL t jl jd jr x o => pobs_eqb (obs_pair (with_local (ext_of t) (new_unsafe jl jd jr) x)) o
  | CWithD t jl jd jr x o => pobs_eqb (obs_pair (with_domain (ext_of t) (new_unsafe jl jd jr) x)) o
  | CWithR t jl jd jr x o => pobs_eqb (obs_pair (with_resource (ext_of t) (new_unsafe jl jd jr) x)) o
  | CView jl jd jr kl kd kr ostr ob odm oeq =>
      let j := new_unsafe jl jd jr in
      bytes_eqb (localpart j) jl && bytes_eqb (domainpart j) jd && bytes_eqb (resourcepart j) jr
      && bytes_eqb (string_of j) ostr
      && pobs_eqb (obs_pair (bare j, ENone)) ob
      && pobs_eqb (obs_pair (domain j, ENone)) odm
      && Bool.eqb (equal j (new_unsafe kl kd kr)) oeq
  | CAttr t jl jd jr v o => pobs_eqb (obs_pair (unmarshal_attr (ext_of t) (new_unsafe jl jd jr) v)) o
  | CElem t jl jd jr cd o => pobs_eqb (obs_pair (unmarshal_xml (ext_of t) (new_unsafe jl jd jr) cd)) o
  | CUnsafe s o ostr =>
      let p := parse_unsafe s in
      pobs_eqb (obs_pair p) o && bytes_eqb (string_of (fst p)) ostr
  | CHist t prog o =>
      (* the heap-level run, and the value-level run, both against the observation *)
      list_eqb pobs_eqb (hist_obs (h_run (ext_of t) case_slack st0 prog)) o
      && (let '(vs, es) := v_run (ext_of t) ([], []) prog in
          list_eqb pobs_eqb (map obs_pair (combine vs es)) o)
  | CHypUser x y y2 => hyp_prec_ok y y2
  | CHypOpaque x y y2 => hyp_prec_ok y y2
  | CHypIdna x y y2 => opt_eqb y2 (Some y) && utf8_valid y && nosep y
  | CHypIp4 x => nosep x && negb (is_nil x) && (nlen x <=? jid_domain_max)%N
  | CHypIp6 x => nosep x && (nlen x + 2 <=? jid_domain_max)%N
  end.

Fixpoint failing {A} (ok : A -> bool) (i : nat) (l : list A) : list nat :=
  match l with
  | [] => []
  | x :: r => if ok x then failing ok (S i) r else i :: failing ok (S i) r
  end.
