(* C13/HeapProofs.v — readers are independent of later constructor calls.

   Invariant: every array reachable from an existing reader lies below the
   heap size at the time the reader was finished, and constructors whose
   slices have a fresh origin only ever write above the heap size at the time
   they were called ([keeps]).  Hence what a reader still has to deliver never
   changes, and delivered ++ pending is the token list of Model.v at all times. *)
From Coq Require Import ZifyBool ZifyNat.
From XV Require Import lib.Bytes gen.Stanza gen.StanzaAlloc C13.Xml C13.Model C13.Heap.

(* ---- set_nth ---- *)

Lemma set_nth_length {A} (l : list A) : forall i x, length (set_nth l i x) = length l.
Proof. induction l as [|y l IH]; intros [|i] x; cbn; auto. Qed.

Lemma nth_set_nth_same {A} (l : list A) : forall i x d, i < length l -> nth i (set_nth l i x) d = x.
Proof. induction l as [|y l IH]; intros [|i] x d H; cbn in *; try lia; auto. apply IH. lia. Qed.

Lemma nth_set_nth_other {A} (l : list A) : forall i j x d, i <> j -> nth j (set_nth l i x) d = nth j l d.
Proof.
  induction l as [|y l IH]; intros [|i] [|j] x d H; cbn; auto; try congruence.
Qed.

Lemma set_nth_beyond {A} (l : list A) : forall i x, length l <= i -> set_nth l i x = l.
Proof. induction l as [|y l IH]; intros [|i] x H; cbn in *; auto; try lia. f_equal. apply IH. lia. Qed.

Lemma firstn_set_nth_below {A} (l : list A) : forall i n x, n <= i -> firstn n (set_nth l i x) = firstn n l.
Proof.
  induction l as [|y l IH]; intros [|i] [|n] x H; cbn; auto; try lia.
  f_equal. apply IH. lia.
Qed.

Lemma firstn_set_nth_at {A} (l : list A) : forall i x, i < length l -> firstn (S i) (set_nth l i x) = firstn i l ++ [x].
Proof.
  induction l as [|y l IH]; intros [|i] x H; cbn in *; try lia; auto.
  f_equal. apply IH. lia.
Qed.

(* ---- heaps ---- *)

Definition keeps (b : nat) (h h' : heap) : Prop :=
  length h <= length h' /\ forall i, i < b -> nth i h' [] = nth i h [].

Lemma keeps_refl b h : keeps b h h.
Proof. split; auto. Qed.

Lemma keeps_trans b b' h h1 h2 : keeps b h h1 -> keeps b' h1 h2 -> b <= b' -> keeps b h h2.
Proof.
  intros [L1 K1] [L2 K2] Hb. split; [lia|].
  intros i Hi. rewrite K2 by lia. apply K1. exact Hi.
Qed.

Lemma keeps_weaken b b' h h' : keeps b' h h' -> b <= b' -> keeps b h h'.
Proof. intros [L K] Hb. split; auto. intros i Hi. apply K. lia. Qed.

Lemma keeps_app b h ext : b <= length h -> keeps b h (h ++ ext).
Proof.
  intro Hb. split; [rewrite app_length; lia|].
  intros i Hi. apply app_nth1. lia.
Qed.

Definition sl_ok (b : nat) (h : heap) (s : slice) : Prop :=
  b <= sl_arr s /\ sl_arr s < length h /\ sl_len s <= sl_cap s /\ sl_cap s <= length (nth (sl_arr s) h []).

Lemma sl_read_keeps b h h' s : keeps b h h' -> sl_arr s < b -> sl_read h' s = sl_read h s.
Proof. intros [_ K] H. unfold sl_read. rewrite K by exact H. reflexivity. Qed.

Lemma sl_append_ok b h s a h' s' :
  sl_ok b h s -> b <= length h -> sl_append h s a = (h', s') ->
  sl_ok b h' s' /\ keeps b h h' /\ sl_read h' s' = sl_read h s ++ [a].
Proof.
  intros (Hb & Ha & Hl & Hc) Hbh E. unfold sl_append in E.
  destruct (Nat.ltb (sl_len s) (sl_cap s)) eqn:Elt.
  - apply Nat.ltb_lt in Elt. inversion E; subst h' s'; clear E. cbn [sl_arr sl_len sl_cap].
    assert (Hn : nth (sl_arr s) (set_nth h (sl_arr s) (set_nth (nth (sl_arr s) h []) (sl_len s) a)) []
                 = set_nth (nth (sl_arr s) h []) (sl_len s) a) by (apply nth_set_nth_same; exact Ha).
    split; [|split].
    + unfold sl_ok. cbn [sl_arr sl_len sl_cap]. rewrite set_nth_length, Hn, set_nth_length. lia.
    + split; [rewrite set_nth_length; lia|].
      intros i Hi. apply nth_set_nth_other. lia.
    + unfold sl_read. cbn [sl_arr sl_len sl_cap]. rewrite Hn. apply firstn_set_nth_at. lia.
  - apply Nat.ltb_ge in Elt. inversion E; subst h' s'; clear E.
    assert (Hlen : length (sl_read h s) = sl_len s) by (unfold sl_read; rewrite firstn_length; lia).
    assert (Hn : nth (length h) (h ++ [sl_read h s ++ [a]]) [] = sl_read h s ++ [a])
      by (rewrite app_nth2 by lia; rewrite Nat.sub_diag; reflexivity).
    split; [|split].
    + unfold sl_ok. cbn [sl_arr sl_len sl_cap]. rewrite Hn, !app_length, Hlen. cbn. lia.
    + apply keeps_app. exact Hbh.
    + unfold sl_read at 1. cbn [sl_arr sl_len sl_cap]. rewrite Hn.
      replace (S (sl_len s)) with (length (sl_read h s ++ [a])) by (rewrite app_length, Hlen; cbn; lia).
      apply firstn_all.
Qed.

Lemma sl_append_list_ok b l : forall h s h' s',
  sl_ok b h s -> b <= length h -> sl_append_list h s l = (h', s') ->
  sl_ok b h' s' /\ keeps b h h' /\ sl_read h' s' = sl_read h s ++ l.
Proof.
  induction l as [|a l IH]; intros h s h' s' Hok Hb E; cbn in E.
  - inversion E; subst. rewrite app_nil_r. auto using keeps_refl.
  - destruct (sl_append h s a) as [h1 s1] eqn:E1.
    destruct (sl_append_ok _ _ _ _ _ _ Hok Hb E1) as (Hok1 & K1 & R1).
    assert (Hb1 : b <= length h1) by (destruct K1; lia).
    destruct (IH _ _ _ _ Hok1 Hb1 E) as (Hok2 & K2 & R2).
    split; [exact Hok2|]. split.
    + eapply keeps_trans; eauto.
    + rewrite R2, R1, <- app_assoc. reflexivity.
Qed.

(* ---- lazy tokens ---- *)

Definition lt_lt (m : nat) (lt : ltoken) : Prop :=
  match lt with LStart _ s => sl_arr s < m | LTok _ => True end.

Definition reader_lt (m : nat) (r : reader) : Prop := Forall (lt_lt m) r.

Lemma lt_lt_mono m m' lt : lt_lt m lt -> m <= m' -> lt_lt m' lt.
Proof. destruct lt; cbn; auto. lia. Qed.

Lemma reader_lt_mono m m' r : reader_lt m r -> m <= m' -> reader_lt m' r.
Proof. intros H L. eapply Forall_impl; [|exact H]. intros a Ha. eapply lt_lt_mono; eauto. Qed.

Lemma reader_lt_app m a b : reader_lt m a -> reader_lt m b -> reader_lt m (a ++ b).
Proof. intros. apply Forall_app. auto. Qed.

Lemma reader_lt_LTok m l : reader_lt m (map LTok l).
Proof. induction l; constructor; cbn; auto. Qed.

Lemma resolve_keeps b h h' lt : keeps b h h' -> lt_lt b lt -> resolve h' lt = resolve h lt.
Proof. destruct lt as [n s|t]; cbn; intros K H; auto. f_equal. eapply sl_read_keeps; eauto. Qed.

Lemma map_resolve_keeps b h h' r : keeps b h h' -> reader_lt b r -> map (resolve h') r = map (resolve h) r.
Proof.
  intros K H. induction H as [|a r Ha Hr IH]; cbn; auto.
  rewrite IH. f_equal. eapply resolve_keeps; eauto.
Qed.

Lemma map_resolve_LTok h l : map (resolve h) (map LTok l) = l.
Proof. induction l; cbn; congruence. Qed.

(* ---- constructors with fresh origins ---- *)

Lemma mk_start_fresh c n ats h h' lt :
  mk_start (OFresh c) n ats h = (h', lt) ->
  keeps (length h) h h' /\ lt_lt (length h') lt /\ resolve h' lt = TStart n ats.
Proof.
  unfold mk_start, origin_slice. intro E.
  destruct (sl_append_list (h ++ [repeat dummy_attr c]) (mksl (length h) 0 c) ats) as [h2 s] eqn:E2.
  inversion E; subst h' lt; clear E.
  assert (Hok : sl_ok (length h) (h ++ [repeat dummy_attr c]) (mksl (length h) 0 c)).
  { unfold sl_ok. cbn [sl_arr sl_len sl_cap]. rewrite app_length. cbn [length].
    rewrite app_nth2 by lia. rewrite Nat.sub_diag. cbn [nth]. rewrite repeat_length. lia. }
  assert (Hb : length h <= length (h ++ [repeat dummy_attr c])) by (rewrite app_length; lia).
  destruct (sl_append_list_ok _ _ _ _ _ _ Hok Hb E2) as ((_ & Ha & _) & K & R).
  split; [|split].
  - eapply keeps_trans; [apply keeps_app; apply Nat.le_refl | exact K | apply Nat.le_refl].
  - exact Ha.
  - cbn. f_equal. rewrite R. reflexivity.
Qed.

Lemma mk_elem_fresh c n ats body h h' r :
  mk_elem (OFresh c) n ats body h = (h', r) -> reader_lt (length h) body ->
  keeps (length h) h h' /\ reader_lt (length h') r /\
  map (resolve h') r = TStart n ats :: map (resolve h) body ++ [TEnd n].
Proof.
  unfold mk_elem. intros E Hb.
  destruct (mk_start (OFresh c) n ats h) as [h1 st] eqn:E1.
  inversion E; subst h' r; clear E.
  destruct (mk_start_fresh _ _ _ _ _ _ E1) as (K & Hs & R).
  assert (L : length h <= length h1) by (destruct K; auto).
  split; [exact K|]. split.
  - constructor; [exact Hs|]. apply reader_lt_app.
    + eapply reader_lt_mono; eauto.
    + constructor; cbn; auto.
  - cbn [map]. rewrite R, map_app. cbn [map resolve].
    rewrite (map_resolve_keeps _ _ _ _ K Hb). reflexivity.
Qed.

(* a constructor: only writes above the heap it was called on, and the reader
   it returns resolves to [spec] in the heap it leaves *)
Definition creates (mk : heap -> heap * reader) (spec : list token) : Prop :=
  forall h h' r, mk h = (h', r) ->
    keeps (length h) h h' /\ reader_lt (length h') r /\ map (resolve h') r = spec.

Lemma mk_list_creates {A} (mk : A -> heap -> heap * reader) (spec : A -> list token) l :
  (forall x, creates (mk x) (spec x)) -> creates (mk_list mk l) (flat_map spec l).
Proof.
  intro Hmk. induction l as [|x l IH]; intros h h' r E; cbn in E.
  - inversion E; subst. cbn. split; [apply keeps_refl|]. split; constructor.
  - destruct (mk x h) as [h1 a] eqn:E1. destruct (mk_list mk l h1) as [h2 b] eqn:E2.
    inversion E; subst h' r; clear E.
    destruct (Hmk x _ _ _ E1) as (K1 & L1 & R1).
    destruct (IH _ _ _ E2) as (K2 & L2 & R2).
    assert (Le1 : length h <= length h1) by (destruct K1; auto).
    assert (Le2 : length h1 <= length h2) by (destruct K2; auto).
    split; [eapply keeps_trans; eauto|]. split.
    + apply reader_lt_app; auto. eapply reader_lt_mono; eauto.
    + cbn [flat_map]. rewrite map_app, R2. rewrite (map_resolve_keeps _ _ _ _ K2 L1), R1. reflexivity.
Qed.

Lemma flat_map_map' {A B C} (f : B -> list C) (g : A -> B) l :
  flat_map f (map g l) = flat_map (fun x => f (g x)) l.
Proof. induction l; cbn; congruence. Qed.

Lemma is_fresh_inv o : is_fresh o = true -> exists c, o = OFresh c.
Proof. destruct o; cbn; try discriminate. eauto. Qed.

Lemma tokens_of_text_el ns kv :
  tokens_of_tree (Elem (mkname ns L_text) (lang_attr (fst kv)) [Text (snd kv)]) =
  [TStart (mkname ns L_text) (lang_attr (fst kv)); TText (snd kv); TEnd (mkname ns L_text)].
Proof. reflexivity. Qed.

Section Fresh.
  Variable og : origins.
  Hypothesis Hfresh : origins_fresh og = true.

  Ltac fresh_of f :=
    let H := fresh "H" in
    assert (H : is_fresh (f og) = true)
      by (revert Hfresh; unfold origins_fresh; rewrite !andb_true_iff; tauto);
    apply is_fresh_inv in H.

  Lemma start_origin_fresh k : exists c, start_origin og k = OFresh c.
  Proof. destruct k; cbn; [fresh_of o_iq | fresh_of o_message | fresh_of o_presence]; assumption. Qed.

  Lemma shared_nil : o_shared og = [].
  Proof.
    revert Hfresh. unfold origins_fresh. rewrite !andb_true_iff.
    destruct (o_shared og); [reflexivity|]. intros H. decompose [and] H. discriminate.
  Qed.

  Lemma mk_wrap_creates k v body h h' r :
    mk_wrap og k v body h = (h', r) -> reader_lt (length h) body ->
    keeps (length h) h h' /\ reader_lt (length h') r /\
    map (resolve h') r = wrap_tokens k v (map (resolve h) body).
  Proof.
    unfold mk_wrap. destruct (start_origin_fresh k) as [c Ec]. rewrite Ec.
    intros E Hb. exact (mk_elem_fresh _ _ _ _ _ _ _ E Hb).
  Qed.

  Lemma mk_se_text_creates kv : creates (mk_se_text og kv) (tokens_of_tree (se_text_el kv)).
  Proof.
    fresh_of o_se_text. destruct H as [c Ec]. intros h h' r E. unfold mk_se_text in E. rewrite Ec in E.
    apply mk_elem_fresh in E; [|constructor; cbn; auto]. exact E.
  Qed.

  Lemma mk_ste_text_creates kv : creates (mk_ste_text og kv) (tokens_of_tree (ste_text_el kv)).
  Proof.
    fresh_of o_ste_text. destruct H as [c Ec]. intros h h' r E. unfold mk_ste_text in E. rewrite Ec in E.
    apply mk_elem_fresh in E; [|constructor; cbn; auto]. exact E.
  Qed.

  Lemma mk_error_creates e p : creates (mk_error og e p) (error_tokens e p).
  Proof.
    fresh_of o_se_error. destruct H as [c1 Ec1]. fresh_of o_se_cond. destruct H as [c2 Ec2].
    intros h h' r E. unfold mk_error in E. rewrite Ec1, Ec2 in E.
    destruct (mk_start (OFresh c1) error_name (error_attrs e) h) as [h1 st] eqn:E1.
    destruct (mk_list (mk_se_text og) (nonempty_texts (map_of (e_text e))) h1) as [h2 texts] eqn:E2.
    destruct (mk_elem (OFresh c2) (mkname NS_SE (cond_or_default (e_cond e))) [] [] h2) as [h3 cond] eqn:E3.
    inversion E; subst h' r; clear E.
    destruct (mk_start_fresh _ _ _ _ _ _ E1) as (K1 & L1 & R1).
    destruct (mk_list_creates _ _ _ mk_se_text_creates _ _ _ E2) as (K2 & L2 & R2).
    destruct (mk_elem_fresh _ _ _ _ _ _ _ E3 (Forall_nil _)) as (K3 & L3 & R3).
    assert (Le1 : length h <= length h1) by (destruct K1; auto).
    assert (Le2 : length h1 <= length h2) by (destruct K2; auto).
    assert (Le3 : length h2 <= length h3) by (destruct K3; auto).
    assert (K13 : keeps (length h1) h1 h3) by (eapply keeps_trans; eauto).
    split; [eapply keeps_trans; [exact K1| exact K13 | exact Le1]|]. split.
    - constructor; [eapply lt_lt_mono; [exact L1|lia]|].
      apply reader_lt_app; [exact L3|]. apply reader_lt_app; [eapply reader_lt_mono; eauto|].
      apply reader_lt_app; [apply reader_lt_LTok|]. constructor; cbn; auto.
    - cbn [map]. rewrite (resolve_keeps _ _ _ _ K13 L1), R1.
      rewrite !map_app, R3, (map_resolve_keeps _ _ _ _ K3 L2), R2, map_resolve_LTok.
      unfold error_tokens, error_children, tokens_of_forest. cbn [map resolve flat_map tokens_of_tree app].
      rewrite flat_map_map'. reflexivity.
  Qed.

  Lemma mk_error_reply_creates k v e : creates (mk_error_reply og k v e) (error_reply_tokens k v e).
  Proof.
    intros h h' r E. unfold mk_error_reply in E.
    destruct (mk_error og e [] h) as [h1 body] eqn:E1.
    destruct (mk_error_creates _ _ _ _ _ E1) as (K1 & L1 & R1).
    destruct (mk_wrap_creates _ _ _ _ _ _ E L1) as (K2 & L2 & R2).
    assert (Le1 : length h <= length h1) by (destruct K1; auto).
    split; [eapply keeps_trans; eauto|]. split; [exact L2|].
    rewrite R2, R1. reflexivity.
  Qed.

  Lemma mk_stream_error_creates s p : creates (mk_stream_error og s p) (stream_error_tokens s p).
  Proof.
    fresh_of o_ste_error. destruct H as [c1 Ec1]. fresh_of o_ste_cond. destruct H as [c2 Ec2].
    intros h h' r E. unfold mk_stream_error in E. rewrite Ec1, Ec2 in E.
    destruct (mk_elem (OFresh c2) (mkname NS_STE (st_err s)) [] [LTok (TText (st_content s))] h) as [h1 cond] eqn:E1.
    destruct (mk_list (mk_ste_text og) (st_text s) h1) as [h2 texts] eqn:E2.
    assert (Hb0 : reader_lt (length h) [LTok (TText (st_content s))]) by (constructor; cbn; auto).
    destruct (mk_elem_fresh _ _ _ _ _ _ _ E1 Hb0) as (K1 & L1 & R1).
    destruct (mk_list_creates _ _ _ mk_ste_text_creates _ _ _ E2) as (K2 & L2 & R2).
    assert (Le1 : length h <= length h1) by (destruct K1; auto).
    assert (Le2 : length h1 <= length h2) by (destruct K2; auto).
    assert (Hb : reader_lt (length h2) (cond ++ map LTok p ++ texts)).
    { apply reader_lt_app; [eapply reader_lt_mono; eauto|]. apply reader_lt_app; [apply reader_lt_LTok|exact L2]. }
    destruct (mk_elem_fresh _ _ _ _ _ _ _ E Hb) as (K3 & L3 & R3).
    split; [eapply keeps_trans; [eapply keeps_trans; eauto| exact K3 | lia]|]. split; [exact L3|].
    rewrite R3, !map_app, (map_resolve_keeps _ _ _ _ K2 L1), R1, R2, map_resolve_LTok.
    unfold stream_error_tokens, tokens_of_forest. cbn [map resolve app].
    rewrite flat_map_map'. cbn [app]. rewrite <- ?app_assoc. reflexivity.
  Qed.

  Lemma create_creates o : is_creation o = true -> creates (create og o) (spec_tokens o).
  Proof.
    destruct o as [k v|k v p|v p|k v e|e p|s p|i n]; cbn [is_creation create spec_tokens]; intro Hc; try discriminate.
    - intros h h' r E. cbn [create] in E. unfold mk_stanza_start in E. destruct (start_origin_fresh k) as [c Ec]. rewrite Ec in E.
      destruct (mk_start (OFresh c) (start_name k v) (start_attrs k v) h) as [h1 st] eqn:E1.
      inversion E; subst h' r; clear E.
      destruct (mk_start_fresh _ _ _ _ _ _ E1) as (K & L & R).
      split; [exact K|]. split; [constructor; [exact L|constructor]|]. cbn. rewrite R. reflexivity.
    - intros h h' r E. cbn [create] in E. destruct (mk_wrap_creates _ _ _ _ _ _ E (reader_lt_LTok _ _)) as (K & L & R).
      rewrite map_resolve_LTok in R. auto.
    - intros h h' r E. cbn [create] in E. destruct (mk_wrap_creates _ _ _ _ _ _ E (reader_lt_LTok _ _)) as (K & L & R).
      rewrite map_resolve_LTok in R. auto.
    - intros h h' r E. cbn [create] in E. eapply mk_error_reply_creates; eauto.
    - intros h h' r E. cbn [create] in E. eapply mk_error_creates; eauto.
    - intros h h' r E. cbn [create] in E. eapply mk_stream_error_creates; eauto.
  Qed.

  (* ---- the world invariant ---- *)

  Definition inv (w : world) (log : list event) (cs : list hop) : Prop :=
    length (w_readers w) = length cs /\
    (forall j, length cs <= j -> reads_of j log = []) /\
    forall i o, nth_error cs i = Some o ->
      reader_lt (length (w_heap w)) (nth i (w_readers w) []) /\
      reads_of i log ++ pending w i = spec_tokens o.

  Lemma reads_of_app i a b : reads_of i (a ++ b) = reads_of i a ++ reads_of i b.
  Proof. unfold reads_of. apply flat_map_app. Qed.

  Lemma nth_set_nth_skipn {A} (l : list (list A)) i n :
    nth i (set_nth l i (skipn n (nth i l []))) [] = skipn n (nth i l []).
  Proof.
    destruct (Nat.lt_ge_cases i (length l)) as [H|H].
    - apply nth_set_nth_same. exact H.
    - rewrite set_nth_beyond by exact H. rewrite (nth_overflow l [] H). rewrite skipn_nil. reflexivity.
  Qed.

  Lemma reader_lt_skipn m n r : reader_lt m r -> reader_lt m (skipn n r).
  Proof.
    revert r. induction n as [|n IH]; intros r H; cbn; auto.
    destruct r; auto. inversion H; subst. apply IH. assumption.
  Qed.

  Lemma step_inv w log cs o w' e :
    inv w log cs -> step og w o = (w', e) ->
    inv w' (log ++ e) (cs ++ (if is_creation o then [o] else [])).
  Proof.
    intros (Hlen & Hnone & Hall) E.
    destruct (is_creation o) eqn:Hc.
    - (* a constructor call *)
      assert (E' : (let (h', r) := create og o (w_heap w) in (mkw h' (w_readers w ++ [r]), @nil event)) = (w', e))
        by (destruct o; cbn in Hc; try discriminate; exact E).
      destruct (create og o (w_heap w)) as [h' r] eqn:Ecr.
      inversion E'; subst w' e; clear E' E.
      destruct (create_creates o Hc _ _ _ Ecr) as (K & L & R).
      assert (Le : length (w_heap w) <= length h') by (destruct K; auto).
      rewrite app_nil_r. split; [cbn [w_readers]; rewrite !app_length; cbn [length]; lia|]. split.
      + intros j Hj. apply Hnone. rewrite app_length in Hj. cbn in Hj. lia.
      + intros i o' Hi. cbn [w_heap w_readers]. unfold pending. cbn [w_heap w_readers].
        destruct (Nat.lt_ge_cases i (length cs)) as [Hlt|Hge].
        * rewrite nth_error_app1 in Hi by exact Hlt.
          destruct (Hall _ _ Hi) as (Lr & Sp).
          rewrite app_nth1 by lia. split; [eapply reader_lt_mono; eauto|].
          rewrite (map_resolve_keeps _ _ _ _ K Lr). exact Sp.
        * rewrite nth_error_app2 in Hi by exact Hge.
          destruct (i - length cs) as [|d] eqn:Ed; cbn in Hi; [|destruct d; discriminate].
          inversion Hi; subst o'. assert (i = length cs) by lia. subst i.
          rewrite <- Hlen, app_nth2, Nat.sub_diag by lia. cbn [nth].
          split; [exact L|]. rewrite Hnone by lia. cbn. exact R.
    - (* a read *)
      destruct o as [| | | | | |i n]; cbn in Hc; try discriminate.
      cbn in E. inversion E; subst w' e; clear E. rewrite app_nil_r.
      split; [cbn; rewrite set_nth_length; exact Hlen|]. split.
      + intros j Hj. rewrite reads_of_app, Hnone by exact Hj. cbn.
        destruct (Nat.eqb i j) eqn:Eij; [|reflexivity].
        apply Nat.eqb_eq in Eij. subst j.
        rewrite (nth_overflow (w_readers w) []) by lia. rewrite firstn_nil. reflexivity.
      + intros j o' Hj. destruct (Hall _ _ Hj) as (Lr & Sp). unfold pending in *. cbn [w_heap w_readers].
        rewrite reads_of_app. cbn [reads_of flat_map fst snd]. rewrite app_nil_r.
        destruct (Nat.eqb i j) eqn:Eij.
        * apply Nat.eqb_eq in Eij. subst j. unfold reader in *. rewrite !nth_set_nth_skipn.
          split; [apply reader_lt_skipn; exact Lr|].
          rewrite <- app_assoc, <- map_app, firstn_skipn. exact Sp.
        * apply Nat.eqb_neq in Eij. rewrite nth_set_nth_other by exact Eij.
          rewrite app_nil_r. auto.
  Qed.

  Lemma run_inv ops : forall w log cs w' l,
    inv w log cs -> run og w ops = (w', l) -> inv w' (log ++ l) (cs ++ filter is_creation ops).
  Proof.
    induction ops as [|o ops IH]; intros w log cs w' l Hinv E; cbn in E.
    - inversion E; subst. cbn. rewrite !app_nil_r. exact Hinv.
    - destruct (step og w o) as [w1 e] eqn:E1. destruct (run og w1 ops) as [w2 l2] eqn:E2.
      inversion E; subst w' l; clear E.
      pose proof (step_inv _ _ _ _ _ _ Hinv E1) as H1.
      pose proof (IH _ _ _ _ _ H1 E2) as H2.
      cbn [filter]. destruct (is_creation o); rewrite <- !app_assoc in H2; cbn [app] in H2; exact H2.
  Qed.

  Lemma readers_independent_gen ops i o :
    nth_error (filter is_creation ops) i = Some o ->
    reads_of i (snd (run_hist og ops)) ++ pending (fst (run_hist og ops)) i = spec_tokens o.
  Proof.
    intro Hi. unfold run_hist. destruct (run og (init_world og) ops) as [w l] eqn:E.
    assert (H0 : inv (init_world og) [] []).
    { split; [reflexivity|]. split; [reflexivity|]. intros j o' Hj. destruct j; discriminate. }
    destruct (run_inv _ _ _ _ _ _ H0 E) as (_ & _ & Hall). cbn [app] in Hall.
    destruct (Hall _ _ Hi) as (_ & Sp). exact Sp.
  Qed.
End Fresh.

(* ---- the table lemma: every slice origin read from the source is fresh ---- *)

Lemma src_origins_fresh : origins_fresh src_origins = true.
Proof. vm_compute. reflexivity. Qed.

Lemma readers_independent ops i o :
  nth_error (filter is_creation ops) i = Some o ->
  reads_of i (snd (run_hist src_origins ops)) ++ pending (fst (run_hist src_origins ops)) i = spec_tokens o.
Proof. apply readers_independent_gen. exact src_origins_fresh. Qed.

(* what has been delivered is a prefix of the reader's own tokens, and a reader
   with nothing pending has delivered exactly them *)
Lemma reads_prefix ops i o :
  nth_error (filter is_creation ops) i = Some o ->
  exists rest, spec_tokens o = reads_of i (snd (run_hist src_origins ops)) ++ rest.
Proof. intro H. eexists. symmetry. apply readers_independent. exact H. Qed.

Lemma drained_reader ops i o :
  nth_error (filter is_creation ops) i = Some o ->
  nth i (w_readers (fst (run_hist src_origins ops))) [] = [] ->
  reads_of i (snd (run_hist src_origins ops)) = spec_tokens o.
Proof.
  intros H Hd. pose proof (readers_independent _ _ _ H) as R.
  unfold pending in R. rewrite Hd in R. cbn in R. rewrite app_nil_r in R. exact R.
Qed.

(* necessity: with the <error/> start element copied from a package-level
   variable whose Attr has spare capacity, a later constructor call rewrites
   the attributes of a reader that has not been consumed yet *)
Definition shared_error_origins : origins :=
  mkorigins (OFresh 5) (OFresh 5) (OFresh 5) (OShared 0 2) (OFresh 1) (OFresh 0) (OFresh 0)
            (OFresh 0) (OFresh 0) (OFresh 0) (OFresh 0) [2] [].

Definition aliasing_history : list hop :=
  [HErr (mkse [] (str "cancel") (str "item-not-found") []) [];
   HErr (mkse [] (str "auth") (str "forbidden") []) [];
   HRead 0 5; HRead 1 5].

Lemma shared_origin_aliases :
  reads_of 0 (snd (run_hist shared_error_origins aliasing_history)) <>
  spec_tokens (HErr (mkse [] (str "cancel") (str "item-not-found") []) []) /\
  reads_of 0 (snd (run_hist shared_error_origins aliasing_history)) =
  spec_tokens (HErr (mkse [] (str "auth") (str "item-not-found") []) []).
Proof. split; [vm_compute; discriminate | vm_compute; reflexivity]. Qed.
