(* C13/Properties.v — the property theorems of C13 and nothing else.
   "Core stanzas and errors encode consistently and round-trip."

   Reading guide.  [wrap_tokens], [result_tokens], [error_reply_tokens],
   [error_tokens], [stream_error_tokens] are the token sequences the
   hand-written TokenReader/WriteXML/Wrap code emits; [marshal_tree] is what
   xml.Marshal emits from the struct tags; [wire] is the encoder/tokenizer pair
   (bytes on the wire, read back); [unmarshal_stanza], [unmarshal_error],
   [unmarshal_error_iter], [unmarshal_stream_error] are the decoders.  JIDs are
   their String() form; [parse] is jid.Parse and only enters through the
   premises [jid_ok]/[jid_okc] (a JID value parses to itself — property C11). *)
From XV Require Import lib.Bytes gen.Stanza gen.StanzaAlloc C13.Xml C13.Model C13.Proofs C13.Cross C13.Heap C13.HeapProofs.

(* --- well-formedness: whatever bytes the text fields hold, the emitted tokens
   are those of exactly one element whose every name position holds a proper
   name and whose attributes are distinct; text only ever sits in attribute
   values and character data, which the encoder escapes. For errors the
   condition is a name, hence the defined-constant premise. --- *)
Theorem C13_wellformed_stanza : forall k v f,
  forallb wf_tree f = true ->
  parse_forest (wrap_tokens k v (tokens_of_forest f)) = Some [Elem (start_name k v) (start_attrs k v) f] /\
  wf_tree (Elem (start_name k v) (start_attrs k v) f) = true.
Proof. exact wellformed_stanza. Qed.
Print Assumptions C13_wellformed_stanza.

Theorem C13_wellformed_error : forall e f,
  mem (cond_or_default (e_cond e)) SE_CONDS = true -> forallb wf_tree f = true ->
  parse_forest (error_tokens e (tokens_of_forest f)) = Some [error_tree e f] /\ wf_tree (error_tree e f) = true.
Proof. exact wellformed_error. Qed.
Print Assumptions C13_wellformed_error.

Theorem C13_wellformed_error_reply : forall k v e,
  mem (cond_or_default (e_cond e)) SE_CONDS = true ->
  exists t, parse_forest (error_reply_tokens k v e) = Some [t] /\ wf_tree t = true.
Proof. exact wellformed_error_reply. Qed.
Print Assumptions C13_wellformed_error_reply.

Theorem C13_wellformed_stream_error : forall s f,
  mem (st_err s) STE_CONDS = true -> forallb wf_tree f = true ->
  parse_forest (stream_error_tokens s (tokens_of_forest f)) = Some [stream_error_tree s f] /\
  wf_tree (stream_error_tree s f) = true.
Proof. exact wellformed_stream_error. Qed.
Print Assumptions C13_wellformed_stream_error.

(* --- the wrapping helpers: a stanza of the right kind holding the payload
   unchanged; Result and Error set the type and swap the addresses. --- *)
Theorem C13_wrap_preserves_payload : forall k v f,
  parse_forest (wrap_tokens k v (tokens_of_forest f)) =
    Some [Elem (mkname (s_ns v) (kind_local k)) (start_attrs k v) f] /\
  parse_forest (result_tokens v (tokens_of_forest f)) =
    Some [Elem (mkname (s_ns v) L_iq)
               (lattr L_type L_result :: opt_attr L_to (s_from v) ++ opt_attr L_from (s_to v) ++ opt_attr L_id (s_id v) ++ lang_attr (s_lang v)) f] /\
  (forall e, parse_forest (error_reply_tokens k v e) =
    Some [Elem (mkname (s_ns v) (kind_local k))
               (lattr L_type L_error :: opt_attr L_to (s_from v) ++ opt_attr L_from (s_to v) ++ opt_attr L_id (s_id v) ++ lang_attr (s_lang v))
               [error_tree e []]]).
Proof. exact wrap_preserves_payload. Qed.
Print Assumptions C13_wrap_preserves_payload.

(* --- start-element conversion is the inverse of start-element parsing --- *)
Theorem C13_start_element_inverse : forall k parse v,
  jid_ok parse (s_to v) -> jid_ok parse (s_from v) ->
  (k = KMessage -> mem (s_typ v) MSG_TYPES = true) ->
  new_stanza k parse (start_name k v) (start_attrs k v) = Some (set_local v (kind_local k)).
Proof. exact new_of_start. Qed.
Print Assumptions C13_start_element_inverse.

(* --- round trip of the token path, for every content of the text fields:
   decoding what the encoder wrote returns the value with its local name
   normalised and its text as the encoder could carry it ([clean_stanza] is the
   identity on valid XML text, [C13_clean_is_identity]). --- *)
Theorem C13_roundtrip_stanza : forall k parse v f,
  jid_okc parse (s_to v) -> jid_okc parse (s_from v) ->
  (k = KMessage -> mem (s_typ v) MSG_TYPES = true) ->
  unmarshal_stanza k parse (wire [] (Elem (start_name k v) (start_attrs k v) f)) =
  Some (clean_stanza (set_local v (kind_local k))).
Proof. exact unmarshal_token_path. Qed.
Print Assumptions C13_roundtrip_stanza.

Theorem C13_clean_is_identity : forall v, stanza_clean v = true -> clean_stanza v = v.
Proof. exact clean_stanza_id. Qed.
Print Assumptions C13_clean_is_identity.

(* --- the two encoding paths.  Full statement: both decode to the same value. *)
Definition C13_two_paths_agree_statement : Prop := two_paths_statement.

(* refuted by the faithful model: xml.Marshal names the element from the struct
   tag and drops XMLName.Space (known finding C13/stanza/marshal/xmlname-space-dropped) *)
Theorem C13_two_paths_agree_refuted :
  type_defined KIQ two_paths_witness = true /\
  unmarshal_stanza KIQ (fun s => Some s) (wire [] (marshal_tree KIQ two_paths_witness)) <>
  unmarshal_stanza KIQ (fun s => Some s) (wire [] (Elem (start_name KIQ two_paths_witness) (start_attrs KIQ two_paths_witness) [])).
Proof. exact two_paths_refuted. Qed.
Print Assumptions C13_two_paths_agree_refuted.

Theorem C13_two_paths_agree_statement_false : ~ C13_two_paths_agree_statement.
Proof. exact two_paths_statement_false. Qed.
Print Assumptions C13_two_paths_agree_statement_false.

(* proved part: for every defined type both paths decode, to values that agree
   in every field except the name space of XMLName, and the token-path value is
   the round-trip value; with an empty XMLName.Space they agree entirely. *)
Theorem C13_two_paths_agree_partial : forall k parse v,
  jid_okc parse (s_to v) -> jid_okc parse (s_from v) -> type_defined k v = true ->
  exists r,
    unmarshal_stanza k parse (wire [] (Elem (start_name k v) (start_attrs k v) [])) = Some r /\
    unmarshal_stanza k parse (wire [] (marshal_tree k v)) = Some (set_ns r []) /\
    r = clean_stanza (set_local v (kind_local k)).
Proof. exact two_paths_agree_modulo_ns. Qed.
Print Assumptions C13_two_paths_agree_partial.

Theorem C13_two_paths_agree_without_namespace : forall k parse v,
  s_ns v = [] -> jid_okc parse (s_to v) -> jid_okc parse (s_from v) -> type_defined k v = true ->
  unmarshal_stanza k parse (wire [] (marshal_tree k v)) =
  unmarshal_stanza k parse (wire [] (Elem (start_name k v) (start_attrs k v) [])).
Proof. exact two_paths_agree_no_ns. Qed.
Print Assumptions C13_two_paths_agree_without_namespace.

(* --- stanza errors (MarshalXML, WriteXML and TokenReader are one function):
   general form for arbitrary text, then the round trip to the documented normal
   form for valid XML text, with and without an application payload. --- *)
Theorem C13_error_decode_general : forall parse d e f,
  jid_okc parse (e_by e) ->
  bytes_eqb (cond_or_default (e_cond e)) L_text = false ->
  forallb (foreign NS_SE d) f = true ->
  unmarshal_error parse (wire d (error_tree e f)) =
  Some (mkse (clean_text (e_by e)) (clean_text (e_typ e)) (cond_or_default (e_cond e))
             (map_of (map clean_pair (nonempty_texts (map_of (e_text e)))))).
Proof. exact unmarshal_error_wire. Qed.
Print Assumptions C13_error_decode_general.

Theorem C13_roundtrip_error : forall parse d e f,
  error_clean e = true -> jid_ok parse (e_by e) ->
  mem (cond_or_default (e_cond e)) SE_CONDS = true ->
  forallb (foreign NS_SE d) f = true ->
  unmarshal_error parse (wire d (error_tree e f)) = Some (norm_error e).
Proof. exact roundtrip_error_defined. Qed.
Print Assumptions C13_roundtrip_error.

(* the error placed in a reply by IQ/Message/Presence.Error is read back by UnmarshalError *)
Theorem C13_roundtrip_error_reply : forall parse k v e,
  error_clean e = true -> jid_ok parse (e_by e) ->
  mem (cond_or_default (e_cond e)) SE_CONDS = true ->
  exists n at_ ks,
    wire [] (Elem (start_name k (reply v L_error)) (start_attrs k (reply v L_error)) [error_tree e []]) = Elem n at_ ks /\
    unmarshal_error_iter parse ks = Some (norm_error e).
Proof. exact roundtrip_error_reply. Qed.
Print Assumptions C13_roundtrip_error_reply.

(* UnmarshalError passes over children that are not elements (the repaired defect) *)
Theorem C13_unmarshal_error_skips_chardata : forall parse s f,
  unmarshal_error_iter parse (Text s :: f) = unmarshal_error_iter parse f.
Proof. exact unmarshal_error_iter_text. Qed.
Print Assumptions C13_unmarshal_error_skips_chardata.

(* --- stream errors, with an application payload between condition and texts (the repaired defect) --- *)
Theorem C13_stream_error_decode_general : forall d s f,
  bytes_eqb (st_err s) L_text = false ->
  forallb (foreign NS_STE NS_STREAM) f = true ->
  unmarshal_stream_error (wire d (stream_error_tree s f)) =
  Some (mkste (st_err s) (map clean_pair (st_text s))
              (if bytes_eqb (st_err s) L_soh then clean_text (st_content s) else [])).
Proof. exact unmarshal_stream_error_wire. Qed.
Print Assumptions C13_stream_error_decode_general.

Theorem C13_roundtrip_stream_error : forall d s f,
  stream_clean s = true -> mem (st_err s) STE_CONDS = true ->
  forallb (foreign NS_STE NS_STREAM) f = true ->
  unmarshal_stream_error (wire d (stream_error_tree s f)) = Some (norm_stream s).
Proof. exact roundtrip_stream_defined. Qed.
Print Assumptions C13_roundtrip_stream_error.

(* --- the normal forms are normal --- *)
Theorem C13_norm_idempotent :
  (forall e, norm_error (norm_error e) = norm_error e) /\ (forall s, norm_stream (norm_stream s) = norm_stream s).
Proof. exact (conj norm_error_idem norm_stream_idem). Qed.
Print Assumptions C13_norm_idempotent.

(* --- readers are values: what a token reader (or start element) built by the
   library delivers does not depend on constructor calls made after it was
   built.  [run_hist] executes a history of constructor calls (StartElement,
   Wrap, Result, Error, stanza.Error.Wrap/TokenReader, stream.Error.TokenReader)
   interleaved with partial reads, over a heap of backing arrays with Go's
   append semantics (C13/Heap.v); the origins of the attribute slices are read
   from the source (gen/StanzaAlloc.v).  For every history, at every moment and
   for every reader: what it has delivered followed by what it would deliver if
   drained now is exactly the token list of the value it was built from. --- *)
Theorem C13_alloc_sites_fresh : origins_fresh src_origins = true.
Proof. exact src_origins_fresh. Qed.
Print Assumptions C13_alloc_sites_fresh.

Theorem C13_readers_independent : forall ops i o,
  nth_error (filter is_creation ops) i = Some o ->
  reads_of i (snd (run_hist src_origins ops)) ++ pending (fst (run_hist src_origins ops)) i = spec_tokens o.
Proof. exact readers_independent. Qed.
Print Assumptions C13_readers_independent.

(* the same for any source tree whose slice origins are all fresh *)
Theorem C13_readers_independent_of_fresh_origins : forall og, origins_fresh og = true -> forall ops i o,
  nth_error (filter is_creation ops) i = Some o ->
  reads_of i (snd (run_hist og ops)) ++ pending (fst (run_hist og ops)) i = spec_tokens o.
Proof. exact readers_independent_gen. Qed.
Print Assumptions C13_readers_independent_of_fresh_origins.

Theorem C13_drained_reader_delivers_its_value : forall ops i o,
  nth_error (filter is_creation ops) i = Some o ->
  nth i (w_readers (fst (run_hist src_origins ops))) [] = [] ->
  reads_of i (snd (run_hist src_origins ops)) = spec_tokens o.
Proof. exact drained_reader. Qed.
Print Assumptions C13_drained_reader_delivers_its_value.

(* freshness is necessary: with the <error/> start element copied from a
   package-level variable whose Attr slice has spare capacity (OShared), the
   reader of a cancel error that is read after an auth error was built delivers
   type="auth" *)
Theorem C13_shared_backing_array_breaks_independence :
  reads_of 0 (snd (run_hist shared_error_origins aliasing_history)) <>
  spec_tokens (HErr (mkse [] (str "cancel") (str "item-not-found") []) []) /\
  reads_of 0 (snd (run_hist shared_error_origins aliasing_history)) =
  spec_tokens (HErr (mkse [] (str "auth") (str "item-not-found") []) []).
Proof. exact shared_origin_aliases. Qed.
Print Assumptions C13_shared_backing_array_breaks_independence.

(* --- encoding consistently: the standard marshaller and the token path use
   the same attribute names, name space included, and every decoder reads every
   encoding to the same value.  xml.Unmarshal offers an attribute of any name
   space to a field whose tag has none, so the struct decoder alone cannot tell
   `lang=".."` from `xml:lang=".."`; the start element parser New* can.
   [schema_ok] is checked on the struct tags the translator reads from the
   source on every run: every attribute field is named as StartElement names it
   — the Lang field of all three stanza types is
   `http://www.w3.org/XML/1998/namespace lang,attr`. --- *)
Theorem C13_struct_tags_name_attributes_as_start_element :
  schema_ok iq_schema = true /\ schema_ok message_schema = true /\ schema_ok presence_schema = true.
Proof. exact schema_names_are_start_names. Qed.
Print Assumptions C13_struct_tags_name_attributes_as_start_element.

Theorem C13_lang_tag_in_xml_name_space : forall k f,
  In f (schema_of k) -> f_sel f = FLang -> f_space f = NS_XML /\ f_local f = L_lang.
Proof. exact lang_tags_in_xml_name_space. Qed.
Print Assumptions C13_lang_tag_in_xml_name_space.

Theorem C13_two_paths_same_attribute_names : forall k v a,
  (In a (start_attrs k v) -> exists f, aname a = start_attr_name f) /\
  (In a (root_attrs (marshal_tree k v)) -> exists f, aname a = start_attr_name f).
Proof. intros k v a. split; [apply start_attrs_names | apply marshal_attrs_names]. Qed.
Print Assumptions C13_two_paths_same_attribute_names.

(* all four combinations {token path, xml.Marshal} x {xml.Unmarshal, New*} agree,
   modulo the element name space xml.Marshal drops (the known finding) *)
Theorem C13_two_paths_cross_decode : forall k parse v,
  jid_okc parse (s_to v) -> jid_okc parse (s_from v) -> type_defined k v = true ->
  let r := clean_stanza (set_local v (kind_local k)) in
  unmarshal_stanza k parse (wire [] (Elem (start_name k v) (start_attrs k v) [])) = Some r /\
  new_of_tree k parse (wire [] (Elem (start_name k v) (start_attrs k v) [])) = Some r /\
  unmarshal_stanza k parse (wire [] (marshal_tree k v)) = Some (set_ns r []) /\
  new_of_tree k parse (wire [] (marshal_tree k v)) = Some (set_ns r []).
Proof. exact four_ways_agree. Qed.
Print Assumptions C13_two_paths_cross_decode.
