(* C13/Proofs.v — lemmas behind the property theorems of C13. *)
From Coq Require Import ZifyBool ZifyNat ZifyN.
From XV Require Import lib.Bytes gen.Stanza C13.Xml C13.Model.

(* ------------------------------------------------------------------ *)
(* trees, tokens, parsing                                              *)

Section TreeInd.
  Variable P : tree -> Prop.
  Hypothesis Htext : forall s, P (Text s).
  Hypothesis Helem : forall n at_ ks, Forall P ks -> P (Elem n at_ ks).
  Fixpoint tree_ind' (t : tree) : P t :=
    match t with
    | Text s => Htext s
    | Elem n at_ ks =>
        Helem n at_ ks
          ((fix go (l : list tree) : Forall P l :=
              match l with
              | [] => Forall_nil P
              | x :: r => Forall_cons x (tree_ind' x) (go r)
              end) ks)
    end.
End TreeInd.

Lemma bytes_eqb_refl s : bytes_eqb s s = true.
Proof. apply bytes_eqb_eq. reflexivity. Qed.

Lemma bytes_eqb_neq a b : bytes_eqb a b = false <-> a <> b.
Proof.
  split.
  - intros H E. apply bytes_eqb_eq in E. congruence.
  - intro H. destruct (bytes_eqb a b) eqn:E; [apply bytes_eqb_eq in E; contradiction|reflexivity].
Qed.

Lemma name_eqb_refl n : name_eqb n n = true.
Proof. unfold name_eqb. rewrite !bytes_eqb_refl. reflexivity. Qed.

Lemma name_eqb_eq a b : name_eqb a b = true <-> a = b.
Proof.
  destruct a as [s l], b as [s' l']. unfold name_eqb. cbn [nspace nlocal].
  rewrite andb_true_iff, !bytes_eqb_eq. split.
  - intros [H1 H2]. congruence.
  - intro H. inversion H. auto.
Qed.

Lemma parse_tokens_of_tree_gen :
  forall t rest stack cur,
    parse (tokens_of_tree t ++ rest) stack cur = parse rest stack (t :: cur).
Proof.
  induction t as [s | n at_ ks IH] using tree_ind'; intros rest stack cur.
  - reflexivity.
  - cbn [tokens_of_tree app parse].
    assert (Hks : forall l, Forall (fun t => forall rest stack cur,
                   parse (tokens_of_tree t ++ rest) stack cur = parse rest stack (t :: cur)) l ->
                 forall rest' stack' cur',
                   parse (flat_map tokens_of_tree l ++ rest') stack' cur' = parse rest' stack' (rev l ++ cur')).
    { induction l as [|x l IHl]; intros HF rest' stack' cur'.
      - reflexivity.
      - inversion HF as [|? ? Hx Hl]; subst. cbn [flat_map rev]. rewrite <- !app_assoc.
        rewrite Hx. rewrite IHl by exact Hl. cbn [app]. reflexivity. }
    rewrite <- app_assoc. rewrite (Hks ks IH). cbn [app parse]. rewrite name_eqb_refl.
    rewrite app_nil_r, rev_involutive. reflexivity.
Qed.

Lemma parse_tokens_of_forest_gen :
  forall f rest stack cur,
    parse (tokens_of_forest f ++ rest) stack cur = parse rest stack (rev f ++ cur).
Proof.
  unfold tokens_of_forest. induction f as [|t f IH]; intros rest stack cur.
  - reflexivity.
  - cbn [flat_map rev]. rewrite <- !app_assoc. rewrite parse_tokens_of_tree_gen, IH. reflexivity.
Qed.

Lemma parse_forest_tokens f : parse_forest (tokens_of_forest f) = Some f.
Proof.
  unfold parse_forest. rewrite <- (app_nil_r (tokens_of_forest f)).
  rewrite parse_tokens_of_forest_gen. cbn [parse]. rewrite app_nil_r, rev_involutive. reflexivity.
Qed.

(* an element assembled at token level: start, the tokens of its children, end *)
Lemma parse_wrapped n at_ f :
  parse_forest (TStart n at_ :: tokens_of_forest f ++ [TEnd n]) = Some [Elem n at_ f].
Proof.
  unfold parse_forest.
  pose proof (parse_tokens_of_tree_gen (Elem n at_ f) [] [] []) as H.
  cbn [tokens_of_tree] in H. rewrite app_nil_r in H. exact H.
Qed.

Lemma tokens_of_forest_app a b : tokens_of_forest (a ++ b) = tokens_of_forest a ++ tokens_of_forest b.
Proof. unfold tokens_of_forest. apply flat_map_app. Qed.

(* ------------------------------------------------------------------ *)
(* tables read from the source                                         *)

Lemma se_conds_name_ok : forallb name_ok SE_CONDS = true.
Proof. vm_compute. reflexivity. Qed.
Lemma ste_conds_name_ok : forallb name_ok STE_CONDS = true.
Proof. vm_compute. reflexivity. Qed.
Lemma se_conds_not_text : mem L_text SE_CONDS = false /\ mem L_undefined SE_CONDS = true.
Proof. vm_compute. split; reflexivity. Qed.
Lemma ste_conds_not_text : mem L_text STE_CONDS = false /\ mem L_soh STE_CONDS = true.
Proof. vm_compute. split; reflexivity. Qed.
Lemma type_tables_clean :
  forallb xml_clean IQ_TYPES = true /\ forallb xml_clean MSG_TYPES = true /\ forallb xml_clean PRES_TYPES = true /\
  forallb xml_clean ERR_TYPES = true /\ mem [] IQ_TYPES = false /\ mem L_normal MSG_TYPES = true /\ mem [] MSG_TYPES = false.
Proof. vm_compute. repeat split; reflexivity. Qed.
Lemma name_spaces_distinct :
  bytes_eqb NS_STREAM NS_STE = false /\ bytes_eqb NS_CLIENT NS_SE = false /\ bytes_eqb NS_SERVER NS_SE = false /\
  is_empty NS_SE = false /\ is_empty NS_STE = false /\ is_empty NS_STREAM = false.
Proof. vm_compute. repeat split; reflexivity. Qed.
(* the element names the struct tags prescribe are the ones StartElement writes *)
Lemma tags_are_kind_locals :
  tag_name KIQ = mkname [] L_iq /\ tag_name KMessage = mkname [] L_message /\ tag_name KPresence = mkname [] L_presence.
Proof. vm_compute. repeat split; reflexivity. Qed.

Lemma mem_In x l : mem x l = true <-> In x l.
Proof.
  unfold mem. rewrite existsb_exists. split.
  - intros [y [Hy E]]. apply bytes_eqb_eq in E. subst. exact Hy.
  - intro H. exists x. split; [exact H|apply bytes_eqb_refl].
Qed.

Lemma mem_forallb (p : bytes -> bool) x l : forallb p l = true -> mem x l = true -> p x = true.
Proof. intros Hall Hm. apply mem_In in Hm. rewrite forallb_forall in Hall. auto. Qed.

(* ------------------------------------------------------------------ *)
(* token-level encoders produce the tokens of one element              *)

Lemma wrap_parses k v f :
  parse_forest (wrap_tokens k v (tokens_of_forest f)) = Some [Elem (start_name k v) (start_attrs k v) f].
Proof. unfold wrap_tokens. apply parse_wrapped. Qed.

Lemma error_tokens_tree e f : error_tokens e (tokens_of_forest f) = tokens_of_tree (error_tree e f).
Proof.
  unfold error_tokens, error_tree. cbn [tokens_of_tree]. f_equal.
  fold (tokens_of_forest (error_children e ++ f)). rewrite tokens_of_forest_app, <- app_assoc. reflexivity.
Qed.

Lemma error_tokens_nil e : error_tokens e [] = tokens_of_forest [error_tree e []].
Proof.
  change (@nil token) with (tokens_of_forest []) at 1. rewrite error_tokens_tree.
  unfold tokens_of_forest. cbn [flat_map]. rewrite app_nil_r. reflexivity.
Qed.

Lemma error_parses e f : parse_forest (error_tokens e (tokens_of_forest f)) = Some [error_tree e f].
Proof.
  rewrite error_tokens_tree. replace (tokens_of_tree (error_tree e f)) with (tokens_of_forest [error_tree e f]).
  - apply parse_forest_tokens.
  - unfold tokens_of_forest. cbn [flat_map]. apply app_nil_r.
Qed.

Lemma error_reply_parses k v e :
  parse_forest (error_reply_tokens k v e) =
  Some [Elem (start_name k (reply v L_error)) (start_attrs k (reply v L_error)) [error_tree e []]].
Proof. unfold error_reply_tokens. rewrite error_tokens_nil. apply wrap_parses. Qed.

Lemma stream_error_tokens_tree s f :
  stream_error_tokens s (tokens_of_forest f) = tokens_of_tree (stream_error_tree s f).
Proof.
  unfold stream_error_tokens, stream_error_tree. cbn [tokens_of_tree flat_map app]. f_equal. f_equal. f_equal. f_equal.
  fold (tokens_of_forest (f ++ map ste_text_el (st_text s))). rewrite tokens_of_forest_app, <- app_assoc. reflexivity.
Qed.

Lemma stream_error_parses s f : parse_forest (stream_error_tokens s (tokens_of_forest f)) = Some [stream_error_tree s f].
Proof.
  rewrite stream_error_tokens_tree.
  replace (tokens_of_tree (stream_error_tree s f)) with (tokens_of_forest [stream_error_tree s f]).
  - apply parse_forest_tokens.
  - unfold tokens_of_forest. cbn [flat_map]. apply app_nil_r.
Qed.

(* ------------------------------------------------------------------ *)
(* well-formedness: no text field reaches a name position              *)

Lemma start_attrs_wf k v :
  forallb (fun a => name_ok (nlocal (aname a))) (start_attrs k v) = true /\ attr_names_distinct (start_attrs k v) = true.
Proof.
  destruct v as [ns lo id to from lang typ]. unfold start_attrs. cbn [s_typ s_to s_from s_id s_lang].
  destruct k, typ, to, from, id, lang; split; reflexivity.
Qed.

Lemma stanza_tree_wf k v f :
  forallb wf_tree f = true -> wf_tree (Elem (start_name k v) (start_attrs k v) f) = true.
Proof.
  intro Hf. cbn [wf_tree]. destruct (start_attrs_wf k v) as [H1 H2]. rewrite H1, H2, Hf.
  destruct k; reflexivity.
Qed.

Lemma lang_attr_wf l : forallb (fun a => name_ok (nlocal (aname a))) (lang_attr l) = true /\ attr_names_distinct (lang_attr l) = true.
Proof. destruct l; split; reflexivity. Qed.

Lemma se_text_el_wf kv : wf_tree (se_text_el kv) = true.
Proof. unfold se_text_el. cbn [wf_tree]. destruct (lang_attr_wf (fst kv)) as [H1 H2]. rewrite H1, H2. reflexivity. Qed.

Lemma ste_text_el_wf kv : wf_tree (ste_text_el kv) = true.
Proof. unfold ste_text_el. cbn [wf_tree]. destruct (lang_attr_wf (fst kv)) as [H1 H2]. rewrite H1, H2. reflexivity. Qed.

Lemma forallb_map_true {A B} (p : B -> bool) (g : A -> B) l : (forall x, p (g x) = true) -> forallb p (map g l) = true.
Proof. intro H. induction l as [|x l IH]; [reflexivity|]. cbn. rewrite H, IH. reflexivity. Qed.

Lemma error_tree_wf e f :
  name_ok (cond_or_default (e_cond e)) = true -> forallb wf_tree f = true -> wf_tree (error_tree e f) = true.
Proof.
  intros Hc Hf. unfold error_tree. cbn [wf_tree].
  assert (Ha : forallb (fun a => name_ok (nlocal (aname a))) (error_attrs e) = true /\ attr_names_distinct (error_attrs e) = true).
  { unfold error_attrs. destruct (e_typ e), (e_by e); split; reflexivity. }
  destruct Ha as [Ha1 Ha2]. rewrite Ha1, Ha2. rewrite forallb_app, Hf. unfold error_children. cbn [forallb wf_tree nlocal].
  rewrite Hc. rewrite (forallb_map_true wf_tree se_text_el _ se_text_el_wf). reflexivity.
Qed.

Lemma stream_error_tree_wf s f :
  name_ok (st_err s) = true -> forallb wf_tree f = true -> wf_tree (stream_error_tree s f) = true.
Proof.
  intros Hc Hf. unfold stream_error_tree. cbn [wf_tree forallb nlocal attr_names_distinct].
  rewrite Hc. rewrite forallb_app, Hf. rewrite (forallb_map_true wf_tree ste_text_el _ ste_text_el_wf). reflexivity.
Qed.

(* ------------------------------------------------------------------ *)
(* StartElement and New* are inverse                                    *)

Definition jid_ok (parse : jparse) (j : bytes) : Prop := j = [] \/ parse j = Some j.

Definition set_local (v : stanza) (l : bytes) : stanza :=
  mkst (s_ns v) l (s_id v) (s_to v) (s_from v) (s_lang v) (s_typ v).

Lemma msg_default_defined t : mem t MSG_TYPES = true -> msg_default t = t.
Proof. intro H. unfold msg_default. rewrite H. reflexivity. Qed.

Lemma new_of_start k parse v :
  jid_ok parse (s_to v) -> jid_ok parse (s_from v) ->
  (k = KMessage -> mem (s_typ v) MSG_TYPES = true) ->
  new_stanza k parse (start_name k v) (start_attrs k v) = Some (set_local v (kind_local k)).
Proof.
  destruct v as [ns lo id to from lang typ]. unfold jid_ok, set_local. cbn [s_typ s_to s_from s_id s_lang s_ns s_local].
  intros Hto Hfrom Hty.
  assert (Hm : k = KMessage -> msg_default typ = typ) by (intro E; apply msg_default_defined; auto).
  unfold new_stanza, start_attrs, start_name. cbn [s_typ s_to s_from s_id s_lang s_ns s_local nspace nlocal].
  destruct k; [clear Hm Hty | specialize (Hm eq_refl); clear Hty | clear Hm Hty].
  all: destruct to as [|t0 to']; [|destruct Hto as [Hto|Hto]; [discriminate|]].
  all: destruct from as [|f0 from']; [|destruct Hfrom as [Hfrom|Hfrom]; [discriminate|]].
  all: destruct id as [|i0 id'], lang as [|l0 lang'].
  all: try (destruct typ as [|y0 typ']).
  all: cbn -[msg_default]; rewrite ?Hto, ?Hfrom; cbn -[msg_default]; rewrite ?Hm; reflexivity.
Qed.

(* ------------------------------------------------------------------ *)
(* character data through the encoder                                  *)

Lemma clean_text_is_empty s : is_empty (clean_text s) = is_empty s.
Proof.
  destruct s as [|b0 r0]; [reflexivity|]. cbn [clean_text is_empty].
  repeat match goal with
         | |- context [if ?c then _ else _] => destruct c
         | |- context [match ?x with _ => _ end] => destruct x
         end; reflexivity.
Qed.

Lemma xml_clean_eq s : xml_clean s = true -> clean_text s = s.
Proof. unfold xml_clean. apply bytes_eqb_eq. Qed.

Lemma chardata_merge_single s : chardata (merge_text [Text s]) = s.
Proof. destruct s; cbn; [reflexivity|]. rewrite app_nil_r. reflexivity. Qed.

(* ------------------------------------------------------------------ *)
(* stanzas: decode after the wire                                       *)

Definition IQ_SCHEMA := Eval vm_compute in iq_schema.
Definition MESSAGE_SCHEMA := Eval vm_compute in message_schema.
Definition PRESENCE_SCHEMA := Eval vm_compute in presence_schema.
Lemma schemas_eval : iq_schema = IQ_SCHEMA /\ message_schema = MESSAGE_SCHEMA /\ presence_schema = PRESENCE_SCHEMA.
Proof. vm_compute. repeat split; reflexivity. Qed.

Definition jid_okc (parse : jparse) (j : bytes) : Prop := j = [] \/ parse (clean_text j) = Some (clean_text j).

Lemma wire_root_name d n at_ ks :
  wire d (Elem n at_ ks) =
  Elem (mkname (if is_empty (nspace n) then d else nspace n) (nlocal n)) (wire_attrs n at_)
       (merge_text (map (wire (if is_empty (nspace n) then d else nspace n)) ks)).
Proof. reflexivity. Qed.

Ltac stanza_cases v k :=
  destruct v as [ns lo id to from lang typ];
  cbn [s_typ s_to s_from s_id s_lang s_ns s_local] in *.

Lemma unmarshal_token_path k parse v f :
  jid_okc parse (s_to v) -> jid_okc parse (s_from v) ->
  (k = KMessage -> mem (s_typ v) MSG_TYPES = true) ->
  unmarshal_stanza k parse (wire [] (Elem (start_name k v) (start_attrs k v) f)) =
  Some (clean_stanza (set_local v (kind_local k))).
Proof.
  destruct v as [ns lo id to from lang typ]. unfold jid_okc, set_local, clean_stanza.
  cbn [s_typ s_to s_from s_id s_lang s_ns s_local]. intros Hto Hfrom Hty.
  assert (Hm : k = KMessage -> msg_default (clean_text typ) = typ /\ clean_text typ = typ).
  { intro E. specialize (Hty E). destruct type_tables_clean as (_ & Hc & _).
    pose proof (xml_clean_eq _ (mem_forallb xml_clean _ _ Hc Hty)) as Hcl. rewrite Hcl.
    split; [apply msg_default_defined; exact Hty|reflexivity]. }
  rewrite wire_root_name. unfold unmarshal_stanza, start_name, start_attrs, wire_attrs.
  cbn [s_typ s_to s_from s_id s_lang s_ns s_local nspace nlocal].
  destruct tags_are_kind_locals as (T1 & T2 & T3). destruct schemas_eval as (S1 & S2 & S3).
  unfold schema_of. rewrite ?S1, ?S2, ?S3.
  destruct k; [clear Hm Hty; rewrite T1 | specialize (Hm eq_refl); destruct Hm as [Hm1 Hm2]; clear Hty; rewrite T2 | clear Hm Hty; rewrite T3].
  all: unfold IQ_SCHEMA, MESSAGE_SCHEMA, PRESENCE_SCHEMA.
  all: destruct to as [|t0 to']; [|destruct Hto as [Hto|Hto]; [discriminate|]].
  all: destruct from as [|f0 from']; [|destruct Hfrom as [Hfrom|Hfrom]; [discriminate|]].
  all: destruct id as [|i0 id'], lang as [|l0 lang'], ns as [|n0 ns'].
  all: try (destruct typ as [|y0 typ']).
  all: cbn -[clean_text msg_default]; rewrite ?clean_text_is_empty; cbn -[clean_text msg_default];
       rewrite ?Hto, ?Hfrom; cbn -[clean_text msg_default]; rewrite ?clean_text_is_empty; cbn -[clean_text msg_default];
       rewrite ?Hto, ?Hfrom; cbn -[clean_text msg_default]; rewrite ?Hm1; try rewrite Hm2; reflexivity.
Qed.

Definition set_ns (v : stanza) (x : bytes) : stanza :=
  mkst x (s_local v) (s_id v) (s_to v) (s_from v) (s_lang v) (s_typ v).

Lemma unmarshal_marshal_path k parse v :
  jid_okc parse (s_to v) -> jid_okc parse (s_from v) -> type_defined k v = true ->
  unmarshal_stanza k parse (wire [] (marshal_tree k v)) =
  Some (set_ns (clean_stanza (set_local v (kind_local k))) []).
Proof.
  destruct v as [ns lo id to from lang typ]. unfold jid_okc, set_local, clean_stanza, set_ns, type_defined.
  cbn [s_typ s_to s_from s_id s_lang s_ns s_local]. intros Hto Hfrom Hty.
  assert (Hcl : clean_text typ = typ).
  { destruct type_tables_clean as (C1 & C2 & C3 & _).
    apply xml_clean_eq. destruct k; cbn [kind_types] in Hty;
      [exact (mem_forallb xml_clean _ _ C1 Hty)|exact (mem_forallb xml_clean _ _ C2 Hty)|exact (mem_forallb xml_clean _ _ C3 Hty)]. }
  assert (Hne : k <> KPresence -> is_empty typ = false).
  { intro Hk. destruct typ; [|reflexivity]. destruct k; [vm_compute in Hty; discriminate|vm_compute in Hty; discriminate|congruence]. }
  assert (Hm : k = KMessage -> msg_default typ = typ) by (intro E; subst k; apply msg_default_defined; exact Hty).
  unfold marshal_tree, marshal_name. rewrite wire_root_name. unfold unmarshal_stanza, wire_attrs.
  destruct tags_are_kind_locals as (T1 & T2 & T3). destruct schemas_eval as (S1 & S2 & S3).
  unfold schema_of. rewrite ?S1, ?S2, ?S3.
  destruct k; [rewrite T1; clear Hm | rewrite T2; specialize (Hm eq_refl) | rewrite T3; clear Hm Hne].
  all: unfold IQ_SCHEMA, MESSAGE_SCHEMA, PRESENCE_SCHEMA.
  all: try (assert (Hne' : is_empty typ = false) by (apply Hne; discriminate); clear Hne).
  all: clear Hty.
  all: destruct to as [|t0 to']; [|destruct Hto as [Hto|Hto]; [discriminate|]].
  all: destruct from as [|f0 from']; [|destruct Hfrom as [Hfrom|Hfrom]; [discriminate|]].
  all: destruct id as [|i0 id'], lang as [|l0 lang'].
  all: try (destruct typ as [|y0 typ']; [try discriminate Hne'|]).
  all: cbn -[clean_text msg_default]; rewrite ?Hm; rewrite ?clean_text_is_empty; cbn -[clean_text msg_default];
       rewrite ?Hto, ?Hfrom; cbn -[clean_text msg_default]; rewrite ?clean_text_is_empty; cbn -[clean_text msg_default];
       rewrite ?Hto, ?Hfrom; cbn -[clean_text msg_default]; rewrite ?Hcl, ?Hm; reflexivity.
Qed.

(* the two paths agree on every field but the name space of XMLName *)
Lemma two_paths_agree_modulo_ns k parse v :
  jid_okc parse (s_to v) -> jid_okc parse (s_from v) -> type_defined k v = true ->
  exists r,
    unmarshal_stanza k parse (wire [] (Elem (start_name k v) (start_attrs k v) [])) = Some r /\
    unmarshal_stanza k parse (wire [] (marshal_tree k v)) = Some (set_ns r []) /\
    r = clean_stanza (set_local v (kind_local k)).
Proof.
  intros Hto Hfrom Hty. exists (clean_stanza (set_local v (kind_local k))). split; [|split; [|reflexivity]].
  - apply unmarshal_token_path; auto. intro E. subst k. exact Hty.
  - apply unmarshal_marshal_path; auto.
Qed.

Lemma two_paths_agree_no_ns k parse v :
  s_ns v = [] -> jid_okc parse (s_to v) -> jid_okc parse (s_from v) -> type_defined k v = true ->
  unmarshal_stanza k parse (wire [] (marshal_tree k v)) =
  unmarshal_stanza k parse (wire [] (Elem (start_name k v) (start_attrs k v) [])).
Proof.
  intros Hns Hto Hfrom Hty. destruct (two_paths_agree_modulo_ns k parse v Hto Hfrom Hty) as (r & H1 & H2 & Hr).
  rewrite H1, H2. subst r. destruct v as [ns lo id to from lang typ]. cbn [s_ns] in Hns. subst ns. reflexivity.
Qed.

Definition two_paths_statement : Prop :=
  forall k parse v, jid_okc parse (s_to v) -> jid_okc parse (s_from v) -> type_defined k v = true ->
    unmarshal_stanza k parse (wire [] (marshal_tree k v)) =
    unmarshal_stanza k parse (wire [] (Elem (start_name k v) (start_attrs k v) [])).

Definition two_paths_witness : stanza := mkst NS_CLIENT L_iq (str "1") [] [] [] L_get.

Lemma two_paths_refuted :
  type_defined KIQ two_paths_witness = true /\
  unmarshal_stanza KIQ (fun s => Some s) (wire [] (marshal_tree KIQ two_paths_witness)) <>
  unmarshal_stanza KIQ (fun s => Some s) (wire [] (Elem (start_name KIQ two_paths_witness) (start_attrs KIQ two_paths_witness) [])).
Proof. split; [vm_compute; reflexivity|vm_compute; discriminate]. Qed.

Lemma two_paths_statement_false : ~ two_paths_statement.
Proof.
  intro H. destruct two_paths_refuted as [Hd Hneq]. apply Hneq. apply H.
  - left. reflexivity.
  - left. reflexivity.
  - exact Hd.
Qed.

(* ------------------------------------------------------------------ *)
(* the order sort.Strings uses, and maps as sorted association lists    *)

Lemma bN_inj x y : bN x = bN y -> x = y.
Proof. intro H. rewrite <- (byte_of_N_bN x), <- (byte_of_N_bN y), H. reflexivity. Qed.

Lemma bytes_ltb_irrefl a : bytes_ltb a a = false.
Proof.
  induction a as [|x a IH]; [reflexivity|]. cbn [bytes_ltb]. rewrite IH, N.ltb_irrefl, andb_false_r. reflexivity.
Qed.

Lemma bytes_ltb_trans a : forall b c, bytes_ltb a b = true -> bytes_ltb b c = true -> bytes_ltb a c = true.
Proof.
  induction a as [|x a IH]; intros [|y b] [|z c] H1 H2; cbn [bytes_ltb] in *; try discriminate; try reflexivity.
  apply orb_true_iff in H1. apply orb_true_iff in H2. apply orb_true_iff.
  destruct H1 as [H1|H1], H2 as [H2|H2].
  - left. apply N.ltb_lt in H1, H2. apply N.ltb_lt. lia.
  - apply andb_true_iff in H2. destruct H2 as [E _]. apply N.eqb_eq in E. left. rewrite <- E. exact H1.
  - apply andb_true_iff in H1. destruct H1 as [E _]. apply N.eqb_eq in E. left. rewrite E. exact H2.
  - apply andb_true_iff in H1. apply andb_true_iff in H2. destruct H1 as [E1 L1], H2 as [E2 L2].
    apply N.eqb_eq in E1, E2. right. apply andb_true_iff. split; [apply N.eqb_eq; congruence|eapply IH; eauto].
Qed.

Lemma bytes_ltb_neq a b : bytes_ltb a b = true -> bytes_eqb a b = false.
Proof.
  intro H. apply bytes_eqb_neq. intro E. subst. rewrite bytes_ltb_irrefl in H. discriminate.
Qed.

Lemma bytes_ltb_asym a b : bytes_ltb a b = true -> bytes_ltb b a = false.
Proof.
  intro H. destruct (bytes_ltb b a) eqn:E; [|reflexivity].
  pose proof (bytes_ltb_trans _ _ _ H E) as F. rewrite bytes_ltb_irrefl in F. discriminate.
Qed.

Lemma bytes_ltb_total a : forall b, bytes_eqb a b = false -> bytes_ltb a b = false -> bytes_ltb b a = true.
Proof.
  induction a as [|x a IH]; intros [|y b] He Hl; cbn [bytes_ltb bytes_eqb] in *; try discriminate; try reflexivity.
  apply orb_false_iff in Hl. destruct Hl as [L1 L2]. apply N.ltb_ge in L1.
  destruct (N.eqb (bN x) (bN y)) eqn:E.
  - apply N.eqb_eq in E. pose proof (bN_inj _ _ E) as Exy. subst y. rewrite byte_eqb_refl in He. cbn [andb] in *.
    rewrite N.eqb_refl. rewrite (IH b He L2). apply orb_true_r.
  - apply N.eqb_neq in E. apply orb_true_iff. left. apply N.ltb_lt. lia.
Qed.

Definition keys_lt (k : bytes) (m : list (bytes * bytes)) : bool := forallb (fun kv => bytes_ltb k (fst kv)) m.

Fixpoint sorted_keys (m : list (bytes * bytes)) : bool :=
  match m with
  | [] => true
  | kv :: r => keys_lt (fst kv) r && sorted_keys r
  end.

Lemma keys_lt_map_set x k v m :
  bytes_ltb x k = true -> keys_lt x m = true -> keys_lt x (map_set k v m) = true.
Proof.
  intros Hx. induction m as [|[k' v'] r IH]; intro Hm; cbn [map_set keys_lt forallb fst] in *.
  - rewrite Hx. reflexivity.
  - apply andb_true_iff in Hm. destruct Hm as [H1 H2].
    destruct (bytes_eqb k k'); [|destruct (bytes_ltb k k')]; cbn [forallb fst]; rewrite ?Hx, ?H1, ?H2; try reflexivity.
    cbn [andb]. apply IH. exact H2.
Qed.

Lemma keys_lt_trans x k m : bytes_ltb x k = true -> keys_lt k m = true -> keys_lt x m = true.
Proof.
  intros Hx Hm. unfold keys_lt in *. rewrite forallb_forall in *. intros kv Hin.
  eapply bytes_ltb_trans; [exact Hx|apply Hm; exact Hin].
Qed.

Lemma map_set_sorted k v m : sorted_keys m = true -> sorted_keys (map_set k v m) = true.
Proof.
  induction m as [|[k' v'] r IH]; intro Hs; cbn [map_set sorted_keys fst] in *; [reflexivity|].
  apply andb_true_iff in Hs. destruct Hs as [H1 H2].
  destruct (bytes_eqb k k') eqn:E.
  - apply bytes_eqb_eq in E. subst k'. cbn [sorted_keys fst]. rewrite H1, H2. reflexivity.
  - destruct (bytes_ltb k k') eqn:L; cbn [sorted_keys fst keys_lt forallb].
    + rewrite L, H1, H2. cbn [andb]. fold (keys_lt k r). rewrite (keys_lt_trans _ _ _ L H1). reflexivity.
    + rewrite (IH H2), andb_true_r. apply keys_lt_map_set; [|exact H1].
      apply bytes_ltb_total; [|exact L]. exact E.
Qed.

Lemma fold_map_set_sorted l : forall acc, sorted_keys acc = true ->
  sorted_keys (fold_left (fun m kv => map_set (fst kv) (snd kv) m) l acc) = true.
Proof. induction l as [|kv l IH]; intros acc H; cbn [fold_left]; [exact H|]. apply IH. apply map_set_sorted. exact H. Qed.

Lemma map_of_sorted l : sorted_keys (map_of l) = true.
Proof. unfold map_of. apply fold_map_set_sorted. reflexivity. Qed.

Lemma map_set_above k v m :
  (forall kv, In kv m -> bytes_ltb (fst kv) k = true) -> map_set k v m = m ++ [(k, v)].
Proof.
  induction m as [|[k' v'] r IH]; intro H; cbn [map_set app]; [reflexivity|].
  pose proof (H (k', v') (or_introl eq_refl)) as Hk. cbn [fst] in Hk.
  assert (E : bytes_eqb k k' = false).
  { apply bytes_eqb_neq. intro Ek. subst. rewrite bytes_ltb_irrefl in Hk. discriminate. }
  rewrite E, (bytes_ltb_asym _ _ Hk). f_equal. apply IH. intros kv Hin. apply H. right. exact Hin.
Qed.

Lemma sorted_app_below acc k v l :
  sorted_keys (acc ++ (k, v) :: l) = true -> forall kv, In kv acc -> bytes_ltb (fst kv) k = true.
Proof.
  induction acc as [|a acc IH]; intros Hs kv Hin; [destruct Hin|].
  cbn [app sorted_keys] in Hs. apply andb_true_iff in Hs. destruct Hs as [H1 H2].
  destruct Hin as [E|Hin].
  - subst a. unfold keys_lt in H1. rewrite forallb_forall in H1.
    apply (H1 (k, v)). apply in_or_app. right. left. reflexivity.
  - apply IH; assumption.
Qed.

Lemma fold_map_set_id l : forall acc, sorted_keys (acc ++ l) = true ->
  fold_left (fun m kv => map_set (fst kv) (snd kv) m) l acc = acc ++ l.
Proof.
  induction l as [|[k v] l IH]; intros acc Hs; cbn [fold_left fst snd].
  - rewrite app_nil_r. reflexivity.
  - rewrite (map_set_above k v acc (sorted_app_below acc k v l Hs)).
    rewrite IH; rewrite <- app_assoc; cbn [app]; [reflexivity|exact Hs].
Qed.

Lemma map_of_id m : sorted_keys m = true -> map_of m = m.
Proof. intro H. unfold map_of. apply (fold_map_set_id m []). exact H. Qed.

Lemma keys_lt_filter p k m : keys_lt k m = true -> keys_lt k (filter p m) = true.
Proof.
  unfold keys_lt. rewrite !forallb_forall. intros H kv Hin. apply filter_In in Hin. apply H. tauto.
Qed.

Lemma sorted_filter p m : sorted_keys m = true -> sorted_keys (filter p m) = true.
Proof.
  induction m as [|kv r IH]; intro Hs; cbn [filter sorted_keys] in *; [reflexivity|].
  apply andb_true_iff in Hs. destruct Hs as [H1 H2]. destruct (p kv); cbn [sorted_keys]; [|auto].
  rewrite (keys_lt_filter p _ _ H1), (IH H2). reflexivity.
Qed.

Lemma map_set_In x k v m : In x (map_set k v m) -> x = (k, v) \/ In x m.
Proof.
  induction m as [|[k' v'] r IH]; cbn [map_set]; intro H.
  - destruct H as [H|[]]. left. congruence.
  - destruct (bytes_eqb k k'); [|destruct (bytes_ltb k k')]; cbn [In] in *.
    + destruct H as [H|H]; [left; congruence|right; right; exact H].
    + destruct H as [H|H]; [left; congruence|right; exact H].
    + destruct H as [H|H]; [right; left; exact H|]. destruct (IH H) as [E|Hin]; [left; exact E|right; right; exact Hin].
Qed.

Lemma fold_map_set_In x l : forall acc,
  In x (fold_left (fun m kv => map_set (fst kv) (snd kv) m) l acc) -> In x acc \/ In x l.
Proof.
  induction l as [|kv l IH]; intros acc H; cbn [fold_left] in H; [left; exact H|].
  destruct (IH _ H) as [Hin|Hin]; [|right; right; exact Hin].
  destruct (map_set_In _ _ _ _ Hin) as [E|Hacc]; [right; left; destruct kv; exact (eq_sym E)|left; exact Hacc].
Qed.

Lemma map_of_In x l : In x (map_of l) -> In x l.
Proof. intro H. destruct (fold_map_set_In x l [] H) as [[]|Hin]. exact Hin. Qed.

Lemma nonempty_texts_idem l : nonempty_texts (nonempty_texts l) = nonempty_texts l.
Proof.
  unfold nonempty_texts. induction l as [|kv l IH]; [reflexivity|]. cbn [filter].
  destruct (negb (is_empty (snd kv))) eqn:E; cbn [filter]; rewrite ?E, IH; reflexivity.
Qed.

Lemma cond_or_default_idem c : cond_or_default (cond_or_default c) = cond_or_default c.
Proof. unfold cond_or_default. destruct c; reflexivity. Qed.

Lemma norm_error_idem e : norm_error (norm_error e) = norm_error e.
Proof.
  unfold norm_error. cbn [e_by e_typ e_cond e_text]. rewrite cond_or_default_idem. f_equal.
  rewrite map_of_id; [apply nonempty_texts_idem|]. apply sorted_filter. apply map_of_sorted.
Qed.

Lemma norm_stream_idem s : norm_stream (norm_stream s) = norm_stream s.
Proof. unfold norm_stream. cbn [st_err st_text st_content]. destruct (bytes_eqb (st_err s) L_soh); reflexivity. Qed.

(* ------------------------------------------------------------------ *)
(* stanza errors: decode after the wire                                 *)

(* a payload element stays outside name space [ns] when written under default name space [d] *)
Definition foreign (ns d : bytes) (t : tree) : bool :=
  match t with
  | Text _ => true
  | Elem n _ _ => negb (bytes_eqb (if is_empty (nspace n) then d else nspace n) ns)
  end.

Lemma text_entries_merge l : text_entries (merge_text l) = text_entries l.
Proof.
  induction l as [|t r IH]; [reflexivity|]. destruct t as [n a ks|s].
  - cbn [merge_text text_entries]. rewrite IH. reflexivity.
  - destruct s as [|b s]; cbn [merge_text text_entries]; [exact IH|].
    destruct (merge_text r) as [|[n a ks|s'] r'] eqn:E; rewrite <- IH; reflexivity.
Qed.

Lemma any_names_merge l : any_names (merge_text l) = any_names l.
Proof.
  induction l as [|t r IH]; [reflexivity|]. destruct t as [n a ks|s].
  - cbn [merge_text any_names]. rewrite IH. reflexivity.
  - destruct s as [|b s]; cbn [merge_text any_names]; [exact IH|].
    destruct (merge_text r) as [|[n a ks|s'] r'] eqn:E; rewrite <- IH; reflexivity.
Qed.

Lemma text_entries_app a b : text_entries (a ++ b) = text_entries a ++ text_entries b.
Proof.
  induction a as [|t a IH]; [reflexivity|]. destruct t as [n at_ ks|s]; cbn [app text_entries]; [|exact IH].
  destruct (is_se_text n); rewrite IH; reflexivity.
Qed.

Lemma text_entries_foreign d f : forallb (foreign NS_SE d) f = true -> text_entries (map (wire d) f) = [].
Proof.
  induction f as [|t f IH]; intro H; [reflexivity|]. cbn [forallb] in H. apply andb_true_iff in H. destruct H as [H1 H2].
  destruct t as [n at_ ks|s]; cbn [map wire text_entries]; [|apply IH; exact H2].
  unfold is_se_text. cbn [nspace nlocal]. cbn [foreign] in H1. apply negb_true_iff in H1. rewrite H1, andb_false_r.
  apply IH. exact H2.
Qed.

Lemma wire_se_text_entries d l :
  forallb (fun kv => negb (is_empty (snd kv))) l = true ->
  text_entries (map (wire d) (map se_text_el l)) = map clean_pair l.
Proof.
  induction l as [|[k x] l IH]; intro H; [reflexivity|]. cbn [forallb snd] in H. apply andb_true_iff in H. destruct H as [_ H2].
  cbn [map]. unfold se_text_el at 1. cbn [fst snd]. rewrite wire_root_name. cbn [nspace nlocal map wire].
  cbn [text_entries]. replace (is_se_text (mkname (if is_empty NS_SE then d else NS_SE) L_text)) with true by reflexivity.
  rewrite chardata_merge_single. rewrite (IH H2). unfold clean_pair at 2. cbn [fst snd]. f_equal. f_equal.
  unfold wire_attrs, lang_attr. destruct k as [|k0 k']; [reflexivity|]. cbn -[clean_text]. reflexivity.
Qed.

Lemma nonempty_texts_all l : forallb (fun kv => negb (is_empty (snd kv))) (nonempty_texts l) = true.
Proof.
  unfold nonempty_texts. induction l as [|kv l IH]; [reflexivity|]. cbn [filter].
  destruct (negb (is_empty (snd kv))) eqn:E; [cbn [forallb]; rewrite E, IH; reflexivity|exact IH].
Qed.

Lemma nonempty_texts_clean l :
  forallb (fun kv => negb (is_empty (snd kv))) l = true -> nonempty_texts (map clean_pair l) = map clean_pair l.
Proof.
  unfold nonempty_texts. induction l as [|kv l IH]; intro H; [reflexivity|]. cbn [forallb] in H. apply andb_true_iff in H.
  destruct H as [H1 H2]. cbn [map filter]. unfold clean_pair at 1. cbn [snd]. rewrite clean_text_is_empty, H1. rewrite (IH H2). reflexivity.
Qed.

Lemma unmarshal_error_wire parse d e f :
  jid_okc parse (e_by e) ->
  bytes_eqb (cond_or_default (e_cond e)) L_text = false ->
  forallb (foreign NS_SE d) f = true ->
  unmarshal_error parse (wire d (error_tree e f)) =
  Some (mkse (clean_text (e_by e)) (clean_text (e_typ e)) (cond_or_default (e_cond e))
             (map_of (map clean_pair (nonempty_texts (map_of (e_text e)))))).
Proof.
  intros Hby Hc Hf. unfold error_tree. rewrite wire_root_name.
  change (if is_empty (nspace error_name) then d else nspace error_name) with d.
  unfold unmarshal_error.
  (* children *)
  set (texts := nonempty_texts (map_of (e_text e))).
  assert (Hk : text_entries (merge_text (map (wire d) (error_children e ++ f))) = map clean_pair texts /\
               first_cond (any_names (merge_text (map (wire d) (error_children e ++ f)))) = cond_or_default (e_cond e)).
  { rewrite text_entries_merge, any_names_merge. unfold error_children. fold texts. cbn [app map].
    rewrite wire_root_name. cbn [nspace nlocal map]. cbn [text_entries any_names].
    replace (is_empty NS_SE) with false by reflexivity.
    assert (Hn : is_se_text (mkname NS_SE (cond_or_default (e_cond e))) = false).
    { unfold is_se_text. cbn [nspace nlocal]. rewrite Hc. reflexivity. }
    rewrite Hn. split.
    - rewrite map_app, text_entries_app, (text_entries_foreign d f Hf), app_nil_r.
      apply wire_se_text_entries. apply nonempty_texts_all.
    - cbn [first_cond nspace nlocal]. rewrite bytes_eqb_refl. reflexivity. }
  destruct Hk as [Hk1 Hk2]. rewrite Hk1, Hk2. rewrite (nonempty_texts_clean texts (nonempty_texts_all _)).
  (* attributes *)
  unfold error_attrs, wire_attrs, jid_okc in *. cbn [nspace is_empty app].
  destruct (e_typ e) as [|t0 ty], (e_by e) as [|b0 by_]; try (destruct Hby as [Hby|Hby]; [discriminate|]).
  all: cbn -[clean_text map_of]; rewrite ?clean_text_is_empty; cbn -[clean_text map_of]; rewrite ?Hby; reflexivity.
Qed.

Definition text_clean (kv : bytes * bytes) : bool := xml_clean (fst kv) && xml_clean (snd kv).

Definition error_clean (e : serror) : bool :=
  xml_clean (e_by e) && xml_clean (e_typ e) && forallb text_clean (e_text e).

Lemma map_clean_id l : (forall kv, In kv l -> text_clean kv = true) -> map clean_pair l = l.
Proof.
  induction l as [|kv l IH]; intro H; [reflexivity|]. cbn [map]. rewrite IH by (intros; apply H; right; assumption).
  f_equal. pose proof (H kv (or_introl eq_refl)) as Hk. unfold text_clean in Hk. apply andb_true_iff in Hk.
  destruct Hk as [H1 H2]. destruct kv as [a b]. unfold clean_pair. cbn [fst snd] in *.
  rewrite (xml_clean_eq _ H1), (xml_clean_eq _ H2). reflexivity.
Qed.

Lemma unmarshal_error_roundtrip parse d e f :
  error_clean e = true -> jid_ok parse (e_by e) ->
  bytes_eqb (cond_or_default (e_cond e)) L_text = false ->
  forallb (foreign NS_SE d) f = true ->
  unmarshal_error parse (wire d (error_tree e f)) = Some (norm_error e).
Proof.
  intros Hcl Hby Hc Hf. unfold error_clean in Hcl. apply andb_true_iff in Hcl. destruct Hcl as [Hcl Ht].
  apply andb_true_iff in Hcl. destruct Hcl as [Hb Hy].
  rewrite unmarshal_error_wire; auto.
  - rewrite (xml_clean_eq _ Hb), (xml_clean_eq _ Hy). unfold norm_error. f_equal. f_equal.
    rewrite map_clean_id.
    + apply map_of_id. apply sorted_filter. apply map_of_sorted.
    + intros kv Hin. unfold nonempty_texts in Hin. apply filter_In in Hin. destruct Hin as [Hin _].
      apply map_of_In in Hin. rewrite forallb_forall in Ht. apply Ht. exact Hin.
  - unfold jid_okc. rewrite (xml_clean_eq _ Hb). exact Hby.
Qed.

(* UnmarshalError finds the error in a reply, passing over character data *)
Lemma unmarshal_error_iter_text parse s f : unmarshal_error_iter parse (Text s :: f) = unmarshal_error_iter parse f.
Proof. reflexivity. Qed.

Lemma unmarshal_error_iter_reply parse k v e :
  error_clean e = true -> jid_ok parse (e_by e) ->
  bytes_eqb (cond_or_default (e_cond e)) L_text = false ->
  exists n at_ ks,
    wire [] (Elem (start_name k (reply v L_error)) (start_attrs k (reply v L_error)) [error_tree e []]) = Elem n at_ ks /\
    unmarshal_error_iter parse ks = Some (norm_error e).
Proof.
  intros Hcl Hby Hc. rewrite wire_root_name. eexists _, _, _. split; [reflexivity|].
  cbn [map]. set (d := if is_empty (nspace (start_name k (reply v L_error))) then [] else nspace (start_name k (reply v L_error))).
  pose proof (unmarshal_error_roundtrip parse d e [] Hcl Hby Hc eq_refl) as H.
  unfold error_tree in *. rewrite wire_root_name in *. cbn [merge_text]. cbn [unmarshal_error_iter nlocal error_name].
  replace (bytes_eqb L_error L_error) with true by reflexivity. exact H.
Qed.

(* ------------------------------------------------------------------ *)
(* stream errors: decode after the wire                                 *)

Lemma ste_loop_merge l : forall acc, ste_loop (merge_text l) acc = ste_loop l acc.
Proof.
  induction l as [|t r IH]; intro acc; [reflexivity|]. destruct t as [n a ks|s].
  - cbn [merge_text ste_loop]. rewrite !IH. reflexivity.
  - destruct s as [|b s]; cbn [merge_text ste_loop]; [apply IH|].
    destruct (merge_text r) as [|[n a ks|s'] r'] eqn:E; rewrite <- IH; reflexivity.
Qed.

Lemma ste_loop_app a : forall b acc, ste_loop (a ++ b) acc = ste_loop b (ste_loop a acc).
Proof.
  induction a as [|t a IH]; intros b acc; [reflexivity|]. destruct t as [n at_ ks|s]; cbn [app ste_loop]; [|apply IH].
  destruct (bytes_eqb (nspace n) NS_STE); [destruct (bytes_eqb (nlocal n) L_soh); [|destruct (bytes_eqb (nlocal n) L_text)]|]; apply IH.
Qed.

Lemma ste_loop_foreign d f : forall acc, forallb (foreign NS_STE d) f = true -> ste_loop (map (wire d) f) acc = acc.
Proof.
  induction f as [|t f IH]; intros acc H; [reflexivity|]. cbn [forallb] in H. apply andb_true_iff in H. destruct H as [H1 H2].
  destruct t as [n at_ ks|s]; cbn [map wire ste_loop]; [|apply IH; exact H2].
  cbn [nspace]. cbn [foreign] in H1. apply negb_true_iff in H1. rewrite H1. apply IH. exact H2.
Qed.

Lemma ste_loop_texts d l : forall acc,
  ste_loop (map (wire d) (map ste_text_el l)) acc =
  mkste (st_err acc) (st_text acc ++ map clean_pair l) (st_content acc).
Proof.
  induction l as [|[k x] l IH]; intro acc.
  - cbn [map ste_loop]. rewrite app_nil_r. destruct acc; reflexivity.
  - cbn [map]. unfold ste_text_el at 1. cbn [fst snd]. rewrite wire_root_name. cbn [nspace nlocal map wire].
    cbn [ste_loop nspace nlocal]. replace (is_empty NS_STE) with false by reflexivity.
    replace (bytes_eqb NS_STE NS_STE) with true by reflexivity.
    replace (bytes_eqb L_text L_soh) with false by reflexivity. replace (bytes_eqb L_text L_text) with true by reflexivity.
    rewrite chardata_merge_single. rewrite IH. cbn [st_err st_text st_content]. rewrite <- app_assoc. cbn [app].
    unfold clean_pair at 2. cbn [fst snd]. f_equal. f_equal. f_equal. f_equal.
    unfold wire_attrs, lang_attr. destruct k as [|k0 k']; [reflexivity|]. cbn -[clean_text]. reflexivity.
Qed.

Lemma unmarshal_stream_error_wire d s f :
  bytes_eqb (st_err s) L_text = false ->
  forallb (foreign NS_STE NS_STREAM) f = true ->
  unmarshal_stream_error (wire d (stream_error_tree s f)) =
  Some (mkste (st_err s) (map clean_pair (st_text s))
              (if bytes_eqb (st_err s) L_soh then clean_text (st_content s) else [])).
Proof.
  intros Hc Hf. unfold stream_error_tree. rewrite wire_root_name.
  change (if is_empty (nspace stream_error_name) then d else nspace stream_error_name) with NS_STREAM.
  unfold unmarshal_stream_error. f_equal. rewrite ste_loop_merge. cbn [map]. rewrite wire_root_name.
  cbn [nspace nlocal map wire ste_loop]. replace (is_empty NS_STE) with false by reflexivity.
  replace (bytes_eqb NS_STE NS_STE) with true by reflexivity. rewrite Hc. rewrite chardata_merge_single.
  rewrite map_app, !ste_loop_app.
  destruct (bytes_eqb (st_err s) L_soh) eqn:E.
  - apply bytes_eqb_eq in E. rewrite (ste_loop_foreign _ _ _ Hf), ste_loop_texts. cbn [st_err st_text st_content app]. rewrite E. reflexivity.
  - rewrite (ste_loop_foreign _ _ _ Hf), ste_loop_texts. reflexivity.
Qed.

Definition stream_clean (s : sterror) : bool := xml_clean (st_content s) && forallb text_clean (st_text s).

Lemma unmarshal_stream_error_roundtrip d s f :
  stream_clean s = true -> bytes_eqb (st_err s) L_text = false ->
  forallb (foreign NS_STE NS_STREAM) f = true ->
  unmarshal_stream_error (wire d (stream_error_tree s f)) = Some (norm_stream s).
Proof.
  intros Hcl Hc Hf. rewrite unmarshal_stream_error_wire; auto. unfold stream_clean in Hcl. apply andb_true_iff in Hcl.
  destruct Hcl as [H1 H2]. unfold norm_stream. rewrite (xml_clean_eq _ H1). rewrite map_clean_id; [reflexivity|].
  rewrite forallb_forall in H2. exact H2.
Qed.

(* defined constants are never the name "text" *)
Lemma se_cond_defined_not_text c : mem (cond_or_default c) SE_CONDS = true -> bytes_eqb (cond_or_default c) L_text = false.
Proof.
  intro H. apply bytes_eqb_neq. intro E. rewrite E in H. destruct se_conds_not_text as [N _]. rewrite N in H. discriminate.
Qed.

Lemma ste_cond_defined_not_text c : mem c STE_CONDS = true -> bytes_eqb c L_text = false.
Proof.
  intro H. apply bytes_eqb_neq. intro E. rewrite E in H. destruct ste_conds_not_text as [N _]. rewrite N in H. discriminate.
Qed.

(* ------------------------------------------------------------------ *)
(* packaging for Properties.v                                          *)

Definition stanza_clean (v : stanza) : bool :=
  xml_clean (s_id v) && xml_clean (s_to v) && xml_clean (s_from v) && xml_clean (s_lang v) && xml_clean (s_typ v).

Lemma clean_stanza_id v : stanza_clean v = true -> clean_stanza v = v.
Proof.
  unfold stanza_clean. rewrite !andb_true_iff. intros [[[[H1 H2] H3] H4] H5]. destruct v as [ns lo id to from lang typ]. unfold clean_stanza.
  cbn [s_ns s_local s_id s_to s_from s_lang s_typ] in *.
  rewrite (xml_clean_eq _ H1), (xml_clean_eq _ H2), (xml_clean_eq _ H3), (xml_clean_eq _ H4), (xml_clean_eq _ H5). reflexivity.
Qed.

Lemma wellformed_stanza k v f :
  forallb wf_tree f = true ->
  parse_forest (wrap_tokens k v (tokens_of_forest f)) = Some [Elem (start_name k v) (start_attrs k v) f] /\
  wf_tree (Elem (start_name k v) (start_attrs k v) f) = true.
Proof. intro H. split; [apply wrap_parses|apply stanza_tree_wf; exact H]. Qed.

Lemma wellformed_error e f :
  mem (cond_or_default (e_cond e)) SE_CONDS = true -> forallb wf_tree f = true ->
  parse_forest (error_tokens e (tokens_of_forest f)) = Some [error_tree e f] /\ wf_tree (error_tree e f) = true.
Proof.
  intros Hc Hf. split; [apply error_parses|]. apply error_tree_wf; [|exact Hf].
  exact (mem_forallb name_ok _ _ se_conds_name_ok Hc).
Qed.

Lemma wellformed_error_reply k v e :
  mem (cond_or_default (e_cond e)) SE_CONDS = true ->
  exists t, parse_forest (error_reply_tokens k v e) = Some [t] /\ wf_tree t = true.
Proof.
  intro Hc. eexists. split; [apply error_reply_parses|]. apply stanza_tree_wf. cbn [forallb].
  rewrite error_tree_wf; [reflexivity| |reflexivity]. exact (mem_forallb name_ok _ _ se_conds_name_ok Hc).
Qed.

Lemma wellformed_stream_error s f :
  mem (st_err s) STE_CONDS = true -> forallb wf_tree f = true ->
  parse_forest (stream_error_tokens s (tokens_of_forest f)) = Some [stream_error_tree s f] /\
  wf_tree (stream_error_tree s f) = true.
Proof.
  intros Hc Hf. split; [apply stream_error_parses|]. apply stream_error_tree_wf; [|exact Hf].
  exact (mem_forallb name_ok _ _ ste_conds_name_ok Hc).
Qed.

Lemma wrap_preserves_payload k v f :
  parse_forest (wrap_tokens k v (tokens_of_forest f)) =
    Some [Elem (mkname (s_ns v) (kind_local k)) (start_attrs k v) f] /\
  parse_forest (result_tokens v (tokens_of_forest f)) =
    Some [Elem (mkname (s_ns v) L_iq)
               (lattr L_type L_result :: opt_attr L_to (s_from v) ++ opt_attr L_from (s_to v) ++ opt_attr L_id (s_id v) ++ lang_attr (s_lang v)) f] /\
  (forall e, parse_forest (error_reply_tokens k v e) =
    Some [Elem (mkname (s_ns v) (kind_local k))
               (lattr L_type L_error :: opt_attr L_to (s_from v) ++ opt_attr L_from (s_to v) ++ opt_attr L_id (s_id v) ++ lang_attr (s_lang v))
               [error_tree e []]]).
Proof.
  split; [apply wrap_parses|]. split; [unfold result_tokens; rewrite wrap_parses; reflexivity|].
  intro e. rewrite error_reply_parses. destruct k; reflexivity.
Qed.

Lemma roundtrip_error_defined parse d e f :
  error_clean e = true -> jid_ok parse (e_by e) ->
  mem (cond_or_default (e_cond e)) SE_CONDS = true ->
  forallb (foreign NS_SE d) f = true ->
  unmarshal_error parse (wire d (error_tree e f)) = Some (norm_error e).
Proof. intros. apply unmarshal_error_roundtrip; auto. apply se_cond_defined_not_text. assumption. Qed.

Lemma roundtrip_error_reply parse k v e :
  error_clean e = true -> jid_ok parse (e_by e) ->
  mem (cond_or_default (e_cond e)) SE_CONDS = true ->
  exists n at_ ks,
    wire [] (Elem (start_name k (reply v L_error)) (start_attrs k (reply v L_error)) [error_tree e []]) = Elem n at_ ks /\
    unmarshal_error_iter parse ks = Some (norm_error e).
Proof. intros. apply unmarshal_error_iter_reply; auto. apply se_cond_defined_not_text. assumption. Qed.

Lemma roundtrip_stream_defined d s f :
  stream_clean s = true -> mem (st_err s) STE_CONDS = true ->
  forallb (foreign NS_STE NS_STREAM) f = true ->
  unmarshal_stream_error (wire d (stream_error_tree s f)) = Some (norm_stream s).
Proof. intros. apply unmarshal_stream_error_roundtrip; auto. apply ste_cond_defined_not_text. assumption. Qed.
