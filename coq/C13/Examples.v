(* C13/Examples.v — non-vacuity of every hypothesis used in Properties.v and
   worked examples (RFC 6120 §4.9.3 / §8.3.2 style values). *)
From XV Require Import lib.Bytes gen.Stanza gen.StanzaAlloc C13.Xml C13.Model C13.Proofs C13.Cross C13.Heap C13.HeapProofs.

Definition idp : jparse := fun s => Some s.

(* a client IQ with XML-special and non-ASCII text in its fields *)
Definition ex_iq : stanza :=
  mkst NS_CLIENT L_iq (str "a<b&""c'") (str "juliet@capulet.example/balcony") (str "romeo@montague.example")
       (str "en") (str "set").
Definition ex_payload : list tree :=
  [Elem (mkname (str "urn:xmpp:ping") (str "ping")) [] []; Text (str " "); Elem (mkname [] (str "plain")) [lattr L_id (str "x<y")] [Text (str "a"); Text []; Text (str "b")]].

Example ex_hyps_stanza :
  jid_ok idp (s_to ex_iq) /\ jid_okc idp (s_from ex_iq) /\ type_defined KIQ ex_iq = true /\
  stanza_clean ex_iq = true /\ forallb wf_tree ex_payload = true /\ forallb wire_ok ex_payload = true.
Proof. repeat split; try (right; reflexivity); vm_compute; reflexivity. Qed.

Example ex_roundtrip_iq :
  unmarshal_stanza KIQ idp (wire [] (Elem (start_name KIQ ex_iq) (start_attrs KIQ ex_iq) ex_payload)) = Some ex_iq.
Proof. vm_compute. reflexivity. Qed.

(* adjacent and empty character data merge on the wire *)
Example ex_wire_merges :
  wire [] (Elem (mkname [] (str "plain")) [] [Text (str "a"); Text []; Text (str "b")]) =
  Elem (mkname [] (str "plain")) [] [Text (str "ab")].
Proof. vm_compute. reflexivity. Qed.

(* text XML cannot carry is replaced by U+FFFD, byte by byte where the UTF-8 is broken *)
Example ex_clean_text :
  clean_text [x61; x00; xff; xc3; xa9; xed; xa0; x80; xef; xbf; xbe]%byte =
  [x61] ++ fffd ++ fffd ++ [xc3; xa9] ++ fffd ++ fffd ++ fffd ++ fffd.
Proof. vm_compute. reflexivity. Qed.

Example ex_message_default_type :
  new_stanza KMessage idp (mkname NS_CLIENT L_message) [lattr L_type (str "bogus")] =
  Some (mkst NS_CLIENT L_message [] [] [] [] L_normal).
Proof. vm_compute. reflexivity. Qed.

(* a stanza error with several languages, an empty text and an application condition *)
Definition ex_err : serror :=
  mkse (str "example.net") (str "modify") (str "gone")
       [(str "en", str "moved <away>"); ([], str "xmpp:romeo@afterlife.example.net"); (str "de", [])].
Definition ex_app : list tree := [Elem (mkname (str "urn:example:app") (str "too-many-parameters")) [] []].

Example ex_hyps_error :
  error_clean ex_err = true /\ jid_ok idp (e_by ex_err) /\ mem (cond_or_default (e_cond ex_err)) SE_CONDS = true /\
  forallb (foreign NS_SE NS_CLIENT) ex_app = true /\ forallb (foreign NS_SE []) ex_app = true.
Proof. repeat split; try (right; reflexivity); vm_compute; reflexivity. Qed.

Example ex_error_roundtrip :
  unmarshal_error idp (wire [] (error_tree ex_err ex_app)) =
  Some (mkse (str "example.net") (str "modify") (str "gone")
             [([], str "xmpp:romeo@afterlife.example.net"); (str "en", str "moved <away>")]).
Proof. vm_compute. reflexivity. Qed.

Example ex_norm_error_default : e_cond (norm_error (mkse [] [] [] [])) = L_undefined.
Proof. reflexivity. Qed.

(* the defined-constant premises are needed: a condition that is not a name breaks
   well-formedness, and the condition "text" is mistaken for a text element *)
Example ex_bad_condition_not_wf : wf_tree (error_tree (mkse [] [] (str "a b><c") []) []) = false.
Proof. vm_compute. reflexivity. Qed.

Example ex_condition_text_lost :
  unmarshal_error idp (wire [] (error_tree (mkse [] (str "cancel") L_text [([], str "a")]) [])) =
  Some (mkse [] (str "cancel") [] [([], str "a")]).
Proof. vm_compute. reflexivity. Qed.

(* a payload in the stanza-error name space is not foreign, and is indeed read as a text *)
Example ex_payload_not_foreign :
  forallb (foreign NS_SE []) [Elem (mkname NS_SE L_text) [] [Text (str "smuggled")]] = false /\
  unmarshal_error idp (wire [] (error_tree (mkse [] [] (str "gone") []) [Elem (mkname NS_SE L_text) [] [Text (str "smuggled")]])) =
  Some (mkse [] [] (str "gone") [([], str "smuggled")]).
Proof. split; vm_compute; reflexivity. Qed.

(* stream errors: see-other-host keeps its content, an application payload sits between condition and texts *)
Definition ex_ste : sterror := mkste L_soh [(str "en", str "moved"); ([], [])] (str "[2001:41d0:1:a49b::1]:9222").

Example ex_hyps_stream :
  stream_clean ex_ste = true /\ mem (st_err ex_ste) STE_CONDS = true /\ forallb (foreign NS_STE NS_STREAM) ex_app = true.
Proof. repeat split; vm_compute; reflexivity. Qed.

Example ex_stream_roundtrip : unmarshal_stream_error (wire [] (stream_error_tree ex_ste ex_app)) = Some ex_ste.
Proof. vm_compute. reflexivity. Qed.

Example ex_stream_content_dropped :
  unmarshal_stream_error (wire [] (stream_error_tree (mkste (str "host-gone") [] (str "x")) [])) = Some (mkste (str "host-gone") [] []).
Proof. vm_compute. reflexivity. Qed.

(* UnmarshalError: character data before the error element (the repaired panic) *)
Example ex_unmarshal_error_chardata :
  unmarshal_error_iter idp [Text (str " "); Elem (mkname NS_CLIENT L_error) [lattr L_type (str "cancel")]
                              [Elem (mkname NS_SE (str "bad-request")) [] []]] =
  Some (mkse [] (str "cancel") (str "bad-request") []).
Proof. vm_compute. reflexivity. Qed.

(* Result and Error swap the addresses *)
Example ex_result_swaps :
  result_tokens ex_iq [] =
  [TStart (mkname NS_CLIENT L_iq)
     [lattr L_type L_result; lattr L_to (str "romeo@montague.example"); lattr L_from (str "juliet@capulet.example/balcony");
      lattr L_id (str "a<b&""c'"); mkattr (mkname NS_XML L_lang) (str "en")];
   TEnd (mkname NS_CLIENT L_iq)].
Proof. vm_compute. reflexivity. Qed.

(* histories: two error replies and a stream error are built up front, read
   in another order and in pieces; every reader delivers its own value *)
Definition ex_err_a : serror := mkse (str "first.example.net") (str "cancel") (str "item-not-found") [].
Definition ex_err_b : serror := mkse [] (str "auth") (str "forbidden") [([], str "no <&> entry"); (str "de", str "kein Zutritt")].
Definition ex_history : list hop :=
  [HErrReply KIQ ex_iq ex_err_a; HErr ex_err_b [TText (str "x")]; HRead 0 1;
   HStream (mkste (str "host-gone") [(str "en", str "bye")] []) []; HStart KMessage ex_iq;
   HRead 1 100; HRead 0 2; HRead 2 100; HRead 0 100; HRead 3 1].

Example ex_history_creations : length (filter is_creation ex_history) = 4.
Proof. reflexivity. Qed.

Example ex_history_reads :
  reads_of 0 (snd (run_hist src_origins ex_history)) = error_reply_tokens KIQ ex_iq ex_err_a /\
  reads_of 1 (snd (run_hist src_origins ex_history)) = error_tokens ex_err_b [TText (str "x")] /\
  reads_of 2 (snd (run_hist src_origins ex_history)) = stream_error_tokens (mkste (str "host-gone") [(str "en", str "bye")] []) [] /\
  reads_of 3 (snd (run_hist src_origins ex_history)) = [TStart (start_name KMessage ex_iq) (start_attrs KMessage ex_iq)].
Proof. repeat split; vm_compute; reflexivity. Qed.

(* in-place append is really modelled: a slice with spare capacity shares its array *)
Example ex_append_in_place :
  let (h1, s0) := origin_slice (OFresh 2) [] in
  let (h2, s1) := sl_append h1 s0 (lattr L_type (str "cancel")) in
  let (h3, s2) := sl_append h2 s0 (lattr L_type (str "auth")) in
  sl_read h3 s1 = [lattr L_type (str "auth")] /\ length h3 = 1.
Proof. vm_compute. split; reflexivity. Qed.

(* and growth beyond the capacity is a new array: the old slice keeps its contents *)
Example ex_append_grows :
  let (h1, s0) := origin_slice (OFresh 0) [] in
  let (h2, s1) := sl_append h1 s0 (lattr L_type (str "cancel")) in
  let (h3, s2) := sl_append h2 s0 (lattr L_type (str "auth")) in
  sl_read h3 s1 = [lattr L_type (str "cancel")] /\ sl_read h3 s2 = [lattr L_type (str "auth")] /\ length h3 = 3.
Proof. vm_compute. repeat split; reflexivity. Qed.

(* cross-decoding: New* on the marshalled form of an IQ with a language tag;
   with the name space of the Lang tag removed the language is lost *)
Example ex_new_of_marshalled :
  new_of_tree KIQ idp (wire [] (marshal_tree KIQ ex_iq)) = Some (set_ns ex_iq []).
Proof. vm_compute. reflexivity. Qed.

Example ex_lang_tag_space_needed :
  let v := mkst [] L_iq (str "1") [] [] (str "de-CH") L_get in
  new_of_tree KIQ idp (wire [] (Elem (mkname [] L_iq) (flat_map (marshal_field v) (lang_tag_without_space iq_schema)) [])) =
  Some (set_lang v []).
Proof. vm_compute. reflexivity. Qed.
