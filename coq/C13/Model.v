(* C13/Model.v — executable model of the core stanza and error codecs
   (stanza/iq.go, message.go, presence.go, error.go, stream/error.go).

   Values
     stanza   IQ / Message / Presence: XMLName (space, local), ID, To, From, Lang, Type.
              JIDs are represented by their String() form; the zero JID is the
              empty string.  jid.Parse is an input of the model ([jparse]).
     serror   stanza.Error: By, Type, Condition, Text (map: association list).
     sterror  stream.Error: Err, Text (ordered list), Content (+ payload forest).

   Token path (hand-written code)        start_element, new_stanza, wrap_tokens,
     result_tokens, error_reply_tokens, error_tokens (Error.Wrap/TokenReader),
     stream_error_tokens; decoders unmarshal_error (Error.UnmarshalXML — the
     reflection decode of its anonymous struct plus the post-processing),
     unmarshal_error_iter (UnmarshalError, after the nil-start fix),
     unmarshal_stream_error (stream.Error.UnmarshalXML, after the skip fix).
   Reflection path (encoding/xml)        marshal_tree / unmarshal_stanza: a small
     interpreter of the attribute schema the translator reads from the struct
     tags (gen/Stanza.v).
   The encoder/tokenizer pair between the two is [wire] (C13/Xml.v). *)
From XV Require Import lib.Bytes gen.Stanza C13.Xml.

(* constants of the source, evaluated once *)
Definition NS_SE : bytes := Eval vm_compute in ns_stanza_error.
Definition NS_STREAM : bytes := Eval vm_compute in ns_stream.
Definition NS_STE : bytes := Eval vm_compute in ns_stream_error.
Definition NS_CLIENT : bytes := Eval vm_compute in ns_client.
Definition NS_SERVER : bytes := Eval vm_compute in ns_server.
Definition NS_XML : bytes := Eval vm_compute in ns_xml.
Definition IQ_TYPES : list bytes := Eval vm_compute in iq_types.
Definition MSG_TYPES : list bytes := Eval vm_compute in msg_types.
Definition PRES_TYPES : list bytes := Eval vm_compute in pres_types.
Definition ERR_TYPES : list bytes := Eval vm_compute in err_types.
Definition SE_CONDS : list bytes := Eval vm_compute in stanza_conditions.
Definition STE_CONDS : list bytes := Eval vm_compute in stream_conditions.

Definition mem (x : bytes) (l : list bytes) : bool := existsb (bytes_eqb x) l.

(* literals of the function bodies (hand-modelled) *)
Definition L_iq := Eval vm_compute in str "iq".
Definition L_message := Eval vm_compute in str "message".
Definition L_presence := Eval vm_compute in str "presence".
Definition L_type := Eval vm_compute in str "type".
Definition L_to := Eval vm_compute in str "to".
Definition L_from := Eval vm_compute in str "from".
Definition L_id := Eval vm_compute in str "id".
Definition L_lang := Eval vm_compute in str "lang".
Definition L_by := Eval vm_compute in str "by".
Definition L_error := Eval vm_compute in str "error".
Definition L_text := Eval vm_compute in str "text".
Definition L_normal := Eval vm_compute in str "normal".
Definition L_get := Eval vm_compute in str "get".
Definition L_result := Eval vm_compute in str "result".
Definition L_undefined := Eval vm_compute in str "undefined-condition".
Definition L_soh := Eval vm_compute in str "see-other-host".

(* ---- jid.Parse as an input ---- *)

Definition jparse := bytes -> option bytes.

Fixpoint parse_of (tab : list (bytes * option bytes)) (s : bytes) : option bytes :=
  match tab with
  | [] => None
  | (k, r) :: rest => if bytes_eqb k s then r else parse_of rest s
  end.

(* ---- stanzas ---- *)

Inductive kind := KIQ | KMessage | KPresence.

Record stanza := mkst {
  s_ns : bytes; s_local : bytes; s_id : bytes; s_to : bytes; s_from : bytes; s_lang : bytes; s_typ : bytes }.

Definition kind_local (k : kind) : bytes :=
  match k with KIQ => L_iq | KMessage => L_message | KPresence => L_presence end.

Definition kind_types (k : kind) : list bytes :=
  match k with KIQ => IQ_TYPES | KMessage => MSG_TYPES | KPresence => PRES_TYPES end.

Definition type_defined (k : kind) (v : stanza) : bool := mem (s_typ v) (kind_types k).

Definition lattr (l v : bytes) : attr := mkattr (mkname [] l) v.
Definition opt_attr (l v : bytes) : list attr := if is_empty v then [] else [lattr l v].
Definition lang_attr (v : bytes) : list attr :=
  if is_empty v then [] else [mkattr (mkname NS_XML L_lang) v].

(* IQ.StartElement / Message.StartElement / Presence.StartElement *)
Definition start_attrs (k : kind) (v : stanza) : list attr :=
  (match k with
   | KPresence => opt_attr L_type (s_typ v)
   | _ => [lattr L_type (s_typ v)]
   end) ++ opt_attr L_to (s_to v) ++ opt_attr L_from (s_from v) ++ opt_attr L_id (s_id v) ++ lang_attr (s_lang v).

Definition start_name (k : kind) (v : stanza) : name := mkname (s_ns v) (kind_local k).

(* the `default:` / five literal cases of MessageType.UnmarshalXMLAttr and the
   test of MessageType.MarshalText *)
Definition msg_default (t : bytes) : bytes := if mem t MSG_TYPES then t else L_normal.

Definition set_id v x := mkst (s_ns v) (s_local v) x (s_to v) (s_from v) (s_lang v) (s_typ v).
Definition set_to v x := mkst (s_ns v) (s_local v) (s_id v) x (s_from v) (s_lang v) (s_typ v).
Definition set_from v x := mkst (s_ns v) (s_local v) (s_id v) (s_to v) x (s_lang v) (s_typ v).
Definition set_lang v x := mkst (s_ns v) (s_local v) (s_id v) (s_to v) (s_from v) x (s_typ v).
Definition set_typ v x := mkst (s_ns v) (s_local v) (s_id v) (s_to v) (s_from v) (s_lang v) x.

(* NewIQ / NewMessage / NewPresence: None = an error is returned *)
Fixpoint new_loop (k : kind) (parse : jparse) (ns : bytes) (at_ : list attr) (v : stanza) : option stanza :=
  match at_ with
  | [] => Some v
  | a :: r =>
      let an := aname a in
      if bytes_eqb (nlocal an) L_lang && bytes_eqb (nspace an) NS_XML then new_loop k parse ns r (set_lang v (avalue a))
      else if negb (is_empty (nspace an)) && negb (bytes_eqb (nspace an) ns) then new_loop k parse ns r v
      else if bytes_eqb (nlocal an) L_id then new_loop k parse ns r (set_id v (avalue a))
      else if bytes_eqb (nlocal an) L_to then
        (if is_empty (avalue a) then new_loop k parse ns r v
         else match parse (avalue a) with
              | Some j => new_loop k parse ns r (set_to v j)
              | None => None
              end)
      else if bytes_eqb (nlocal an) L_from then
        (if is_empty (avalue a) then new_loop k parse ns r v
         else match parse (avalue a) with
              | Some j => new_loop k parse ns r (set_from v j)
              | None => None
              end)
      else if bytes_eqb (nlocal an) L_type then
        new_loop k parse ns r (set_typ v (match k with KMessage => msg_default (avalue a) | _ => avalue a end))
      else new_loop k parse ns r v
  end.

Definition new_stanza (k : kind) (parse : jparse) (n : name) (at_ : list attr) : option stanza :=
  new_loop k parse (nspace n) at_
    (mkst (nspace n) (nlocal n) [] [] [] [] (match k with KMessage => L_normal | _ => [] end)).

(* Wrap / Result / Error helpers, at token level (xmlstream.Wrap = start, payload, end) *)
Definition wrap_tokens (k : kind) (v : stanza) (payload : list token) : list token :=
  TStart (start_name k v) (start_attrs k v) :: payload ++ [TEnd (start_name k v)].

Definition reply (v : stanza) (typ : bytes) : stanza :=
  mkst (s_ns v) (s_local v) (s_id v) (s_from v) (s_to v) (s_lang v) typ.

Definition result_tokens (v : stanza) (payload : list token) : list token :=
  wrap_tokens KIQ (reply v L_result) payload.

(* ---- stanza errors ---- *)

Record serror := mkse { e_by : bytes; e_typ : bytes; e_cond : bytes; e_text : list (bytes * bytes) }.

Fixpoint bytes_ltb (a b : bytes) : bool :=
  match a, b with
  | _, [] => false
  | [], _ :: _ => true
  | x :: a', y :: b' => (bN x <? bN y)%N || ((bN x =? bN y)%N && bytes_ltb a' b')
  end.

(* insert into a key-sorted association list, replacing an equal key (a Go map assignment) *)
Fixpoint map_set (k v : bytes) (m : list (bytes * bytes)) : list (bytes * bytes) :=
  match m with
  | [] => [(k, v)]
  | (k', v') :: r =>
      if bytes_eqb k k' then (k, v) :: r
      else if bytes_ltb k k' then (k, v) :: m
      else (k', v') :: map_set k v r
  end.

(* the map an association list denotes, later entries winning: sorted, one entry per key *)
Definition map_of (l : list (bytes * bytes)) : list (bytes * bytes) :=
  fold_left (fun m kv => map_set (fst kv) (snd kv) m) l [].

Definition nonempty_texts (l : list (bytes * bytes)) : list (bytes * bytes) :=
  filter (fun kv => negb (is_empty (snd kv))) l.

Definition cond_or_default (c : bytes) : bytes := if is_empty c then L_undefined else c.

Definition se_text_el (kv : bytes * bytes) : tree :=
  Elem (mkname NS_SE L_text) (lang_attr (fst kv)) [Text (snd kv)].

Definition error_name : name := mkname [] L_error.

Definition error_attrs (e : serror) : list attr := opt_attr L_type (e_typ e) ++ opt_attr L_by (e_by e).

(* the children Error.Wrap emits before the payload: condition, then the non-empty texts in key order *)
Definition error_children (e : serror) : list tree :=
  Elem (mkname NS_SE (cond_or_default (e_cond e))) [] [] ::
  map se_text_el (nonempty_texts (map_of (e_text e))).

(* Error.Wrap(payload) / Error.TokenReader() = Wrap(nil) *)
Definition error_tokens (e : serror) (payload : list token) : list token :=
  TStart error_name (error_attrs e) :: tokens_of_forest (error_children e) ++ payload ++ [TEnd error_name].

Definition error_tree (e : serror) (payload : list tree) : tree :=
  Elem error_name (error_attrs e) (error_children e ++ payload).

(* IQ.Error / Message.Error / Presence.Error *)
Definition error_reply_tokens (k : kind) (v : stanza) (e : serror) : list token :=
  wrap_tokens k (reply v L_error) (error_tokens e []).

(* Error.UnmarshalXML on the element [t] (names as the decoder resolved them) *)
Definition is_se_text (n : name) : bool := bytes_eqb (nlocal n) L_text && bytes_eqb (nspace n) NS_SE.
Definition is_xml_lang (a : attr) : bool :=
  bytes_eqb (nlocal (aname a)) L_lang && bytes_eqb (nspace (aname a)) NS_XML.

(* `by,attr` on a jid.JID: every attribute whose local name is "by" is offered to UnmarshalXMLAttr *)
Fixpoint decode_jid_attr (parse : jparse) (l : bytes) (at_ : list attr) (cur : bytes) : option bytes :=
  match at_ with
  | [] => Some cur
  | a :: r =>
      if bytes_eqb (nlocal (aname a)) l then
        (if is_empty (avalue a) then decode_jid_attr parse l r cur
         else match parse (avalue a) with
              | Some j => decode_jid_attr parse l r j
              | None => None
              end)
      else decode_jid_attr parse l r cur
  end.

(* the `,any` elements (everything that is not a stanza-error <text/>), in order *)
Fixpoint any_names (ks : list tree) : list name :=
  match ks with
  | [] => []
  | Elem n _ _ :: r => if is_se_text n then any_names r else n :: any_names r
  | Text _ :: r => any_names r
  end.

Fixpoint text_entries (ks : list tree) : list (bytes * bytes) :=
  match ks with
  | [] => []
  | Elem n at_ cs :: r =>
      if is_se_text n then (last_attr is_xml_lang at_ [], chardata cs) :: text_entries r else text_entries r
  | Text _ :: r => text_entries r
  end.

Fixpoint first_cond (l : list name) : bytes :=
  match l with
  | [] => []
  | n :: r => if bytes_eqb (nspace n) NS_SE then nlocal n else first_cond r
  end.

Definition unmarshal_error (parse : jparse) (t : tree) : option serror :=
  match t with
  | Text _ => None
  | Elem _ at_ ks =>
      match decode_jid_attr parse L_by at_ [] with
      | None => None
      | Some by_ =>
          Some (mkse by_
                     (last_attr (fun a => bytes_eqb (nlocal (aname a)) L_type) at_ [])
                     (first_cond (any_names ks))
                     (map_of (nonempty_texts (text_entries ks))))
      end
  end.

(* UnmarshalError: the first child element named "error" (any name space) is decoded;
   children that are not elements are passed over (after the fix). None = error. *)
Fixpoint unmarshal_error_iter (parse : jparse) (f : list tree) : option serror :=
  match f with
  | [] => None
  | Elem n at_ ks :: r =>
      if bytes_eqb (nlocal n) L_error then unmarshal_error parse (Elem n at_ ks)
      else unmarshal_error_iter parse r
  | Text _ :: r => unmarshal_error_iter parse r
  end.

(* UnmarshalIQError(r, start): (the IQ, its error payload when the type is "error") *)
Definition unmarshal_iq_error (parse : jparse) (n : name) (at_ : list attr) (f : list tree)
  : option (stanza * option serror) :=
  match new_stanza KIQ parse n at_ with
  | None => None
  | Some v =>
      if bytes_eqb (s_typ v) L_error then
        match unmarshal_error_iter parse f with
        | Some e => Some (v, Some e)
        | None => None
        end
      else Some (v, None)
  end.

(* the documented normal form of an Error value *)
Definition norm_error (e : serror) : serror :=
  mkse (e_by e) (e_typ e) (cond_or_default (e_cond e)) (nonempty_texts (map_of (e_text e))).

Definition clean_pair (kv : bytes * bytes) : bytes * bytes := (clean_text (fst kv), clean_text (snd kv)).

(* ---- stream errors ---- *)

Record sterror := mkste { st_err : bytes; st_text : list (bytes * bytes); st_content : bytes }.

Definition ste_text_el (kv : bytes * bytes) : tree :=
  Elem (mkname NS_STE L_text) (lang_attr (fst kv)) [Text (snd kv)].

Definition stream_error_name : name := mkname NS_STREAM L_error.

Definition stream_error_tree (s : sterror) (payload : list tree) : tree :=
  Elem stream_error_name []
       (Elem (mkname NS_STE (st_err s)) [] [Text (st_content s)] :: payload ++ map ste_text_el (st_text s)).

Definition stream_error_tokens (s : sterror) (payload : list token) : list token :=
  TStart stream_error_name [] ::
  (TStart (mkname NS_STE (st_err s)) [] :: TText (st_content s) :: [TEnd (mkname NS_STE (st_err s))]) ++
  payload ++ tokens_of_forest (map ste_text_el (st_text s)) ++ [TEnd stream_error_name].

(* stream.Error.UnmarshalXML: the token loop over the children of the element *)
Fixpoint ste_loop (ks : list tree) (acc : sterror) : sterror :=
  match ks with
  | [] => acc
  | Text _ :: r => ste_loop r acc
  | Elem n at_ cs :: r =>
      if bytes_eqb (nspace n) NS_STE then
        if bytes_eqb (nlocal n) L_soh then ste_loop r (mkste (nlocal n) (st_text acc) (chardata cs))
        else if bytes_eqb (nlocal n) L_text then
          ste_loop r (mkste (st_err acc) (st_text acc ++ [(last_attr is_xml_lang at_ [], chardata cs)]) (st_content acc))
        else ste_loop r (mkste (nlocal n) (st_text acc) (st_content acc))
      else ste_loop r acc   (* elements of other name spaces are skipped whole *)
  end.

Definition unmarshal_stream_error (t : tree) : option sterror :=
  match t with
  | Text _ => None
  | Elem _ _ ks => Some (ste_loop ks (mkste [] [] []))
  end.

(* Content is only carried by see-other-host *)
Definition norm_stream (s : sterror) : sterror :=
  mkste (st_err s) (st_text s) (if bytes_eqb (st_err s) L_soh then st_content s else []).

(* ---- the reflection path: encoding/xml on the struct tags ---- *)

Definition schema_of (k : kind) : list afield :=
  match k with KIQ => iq_schema | KMessage => message_schema | KPresence => presence_schema end.
Definition tag_name (k : kind) : name :=
  match k with
  | KIQ => mkname iq_tag_space iq_tag_local
  | KMessage => mkname message_tag_space message_tag_local
  | KPresence => mkname presence_tag_space presence_tag_local
  end.

Definition get_field (v : stanza) (f : fsel) : bytes :=
  match f with FID => s_id v | FTo => s_to v | FFrom => s_from v | FLang => s_lang v | FType => s_typ v end.
Definition set_field (v : stanza) (f : fsel) (x : bytes) : stanza :=
  match f with FID => set_id v x | FTo => set_to v x | FFrom => set_from v x | FLang => set_lang v x | FType => set_typ v x end.

Definition has_marshal_text (k : fkind) : bool :=
  match k with KIQType => iqtype_has_marshal_text | KMsgType => msgtype_has_marshal_text
             | KPresType => prestype_has_marshal_text | _ => false end.
Definition has_unmarshal_attr (k : fkind) : bool :=
  match k with KIQType => iqtype_has_unmarshal_attr | KMsgType => msgtype_has_unmarshal_attr
             | KPresType => prestype_has_unmarshal_attr | _ => false end.

(* bodies of IQType.MarshalText and MessageType.MarshalText *)
Definition marshal_text (k : fkind) (x : bytes) : bytes :=
  if has_marshal_text k then
    match k with
    | KIQType => if is_empty x then L_get else x
    | KMsgType => msg_default x
    | _ => x
    end
  else x.

(* marshalValue's attribute loop for one field: omitempty is tested on the Go
   value (a JID struct is never empty); a MarshalerAttr (JID) or TextMarshaler
   supplies the value *)
Definition marshal_field (v : stanza) (f : afield) : list attr :=
  let x := get_field v (f_sel f) in
  let n := mkname (f_space f) (f_local f) in
  match f_kind f with
  | KJid => [mkattr n x]
  | k => if f_omit f && is_empty x then [] else [mkattr n (marshal_text k x)]
  end.

(* xml.Marshal(v): the XMLName tag wins over the XMLName value when it names an element *)
Definition marshal_name (k : kind) (v : stanza) : name :=
  if is_empty (nlocal (tag_name k)) then mkname (s_ns v) (s_local v) else tag_name k.

Definition marshal_tree (k : kind) (v : stanza) : tree :=
  Elem (marshal_name k v) (flat_map (marshal_field v) (schema_of k)) [].

Definition field_matches (f : afield) (a : attr) : bool :=
  bytes_eqb (nlocal (aname a)) (f_local f) &&
  (is_empty (f_space f) || bytes_eqb (f_space f) (nspace (aname a))).

(* unmarshalAttr into one field *)
Definition assign_field (parse : jparse) (v : stanza) (f : afield) (x : bytes) : option stanza :=
  match f_kind f with
  | KJid => if is_empty x then Some v
            else match parse x with Some j => Some (set_field v (f_sel f) j) | None => None end
  | k => Some (set_field v (f_sel f)
                 (if has_unmarshal_attr k then match k with KMsgType => msg_default x | _ => x end else x))
  end.

Fixpoint assign_fields (parse : jparse) (fs : list afield) (a : attr) (v : stanza) : option stanza :=
  match fs with
  | [] => Some v
  | f :: r =>
      if field_matches f a then
        match assign_field parse v f (avalue a) with
        | Some v' => assign_fields parse r a v'
        | None => None
        end
      else assign_fields parse r a v
  end.

Fixpoint assign_attrs (parse : jparse) (fs : list afield) (at_ : list attr) (v : stanza) : option stanza :=
  match at_ with
  | [] => Some v
  | a :: r =>
      match assign_fields parse fs a v with
      | Some v' => assign_attrs parse fs r v'
      | None => None
      end
  end.

(* xml.Unmarshal into IQ / Message / Presence (children are skipped) *)
Definition unmarshal_stanza (k : kind) (parse : jparse) (t : tree) : option stanza :=
  match t with
  | Text _ => None
  | Elem n at_ _ =>
      let tn := tag_name k in
      if negb (is_empty (nlocal tn)) && negb (bytes_eqb (nlocal tn) (nlocal n)) then None
      else if negb (is_empty (nlocal tn)) && negb (is_empty (nspace tn)) && negb (bytes_eqb (nspace tn) (nspace n)) then None
      else assign_attrs parse (schema_of k) at_ (mkst (nspace n) (nlocal n) [] [] [] [] [])
  end.

(* what a value looks like after the encoder sanitised its text *)
Definition clean_stanza (v : stanza) : stanza :=
  mkst (s_ns v) (s_local v) (clean_text (s_id v)) (clean_text (s_to v)) (clean_text (s_from v))
       (clean_text (s_lang v)) (clean_text (s_typ v)).

(* ---- comparison and correspondence cases ---- *)

Definition stanza_eqb (a b : stanza) : bool :=
  bytes_eqb (s_ns a) (s_ns b) && bytes_eqb (s_local a) (s_local b) && bytes_eqb (s_id a) (s_id b) &&
  bytes_eqb (s_to a) (s_to b) && bytes_eqb (s_from a) (s_from b) && bytes_eqb (s_lang a) (s_lang b) &&
  bytes_eqb (s_typ a) (s_typ b).

Definition pair_eqb (a b : bytes * bytes) : bool := bytes_eqb (fst a) (fst b) && bytes_eqb (snd a) (snd b).

Definition serror_eqb (a b : serror) : bool :=
  bytes_eqb (e_by a) (e_by b) && bytes_eqb (e_typ a) (e_typ b) && bytes_eqb (e_cond a) (e_cond b) &&
  list_eqb pair_eqb (e_text a) (e_text b).

Definition sterror_eqb (a b : sterror) : bool :=
  bytes_eqb (st_err a) (st_err b) && list_eqb pair_eqb (st_text a) (st_text b) &&
  bytes_eqb (st_content a) (st_content b).

Definition opt_eqb {A} (eqb : A -> A -> bool) (a b : option A) : bool :=
  match a, b with
  | None, None => true
  | Some x, Some y => eqb x y
  | _, _ => false
  end.

Definition jtab := list (bytes * option bytes).

Inductive case :=
| CStart (k : kind) (v : stanza) (n : name) (at_ : list attr)
| CNew (k : kind) (tab : jtab) (n : name) (at_ : list attr) (res : option stanza)
| CWrap (k : kind) (v : stanza) (payload obs : list token)
| CResult (v : stanza) (payload obs : list token)
| CErrReply (k : kind) (v : stanza) (e : serror) (obs : list token)
| CMarshal (k : kind) (v : stanza) (obs : tree)
| CWire (t obs : tree)
| CUnmarshal (k : kind) (tab : jtab) (t : tree) (res : option stanza)
| CErrTokens (e : serror) (payload obs : list token)
| CErrUnmarshal (tab : jtab) (t : tree) (res : option serror)
| CUnmarshalError (tab : jtab) (f : list tree) (res : option serror)
| CIQError (tab : jtab) (n : name) (at_ : list attr) (f : list tree) (res : option (stanza * option serror))
| CStreamTokens (s : sterror) (payload obs : list token)
| CStreamUnmarshal (t : tree) (res : option sterror).

Definition case_ok (c : case) : bool :=
  match c with
  | CStart k v n at_ => name_eqb (start_name k v) n && list_eqb attr_eqb (start_attrs k v) at_
  | CNew k tab n at_ res => opt_eqb stanza_eqb (new_stanza k (parse_of tab) n at_) res
  | CWrap k v p obs => list_eqb token_eqb (wrap_tokens k v p) obs
  | CResult v p obs => list_eqb token_eqb (result_tokens v p) obs
  | CErrReply k v e obs => list_eqb token_eqb (error_reply_tokens k v e) obs
  | CMarshal k v obs => tree_eqb (wire [] (marshal_tree k v)) obs
  | CWire t obs => if wire_ok t then tree_eqb (wire [] t) obs else false
  | CUnmarshal k tab t res => opt_eqb stanza_eqb (unmarshal_stanza k (parse_of tab) t) res
  | CErrTokens e p obs => list_eqb token_eqb (error_tokens e p) obs
  | CErrUnmarshal tab t res => opt_eqb serror_eqb (unmarshal_error (parse_of tab) t) res
  | CUnmarshalError tab f res => opt_eqb serror_eqb (unmarshal_error_iter (parse_of tab) f) res
  | CIQError tab n at_ f res =>
      opt_eqb (fun a b => stanza_eqb (fst a) (fst b) && opt_eqb serror_eqb (snd a) (snd b))
              (unmarshal_iq_error (parse_of tab) n at_ f) res
  | CStreamTokens s p obs => list_eqb token_eqb (stream_error_tokens s p) obs
  | CStreamUnmarshal t res => opt_eqb sterror_eqb (unmarshal_stream_error t) res
  end.

(* short constructors for the harness-written case files *)
Definition Nm := mkname.
Definition At (sp lo v : bytes) : attr := mkattr (mkname sp lo) v.

Fixpoint failing {A} (ok : A -> bool) (i : nat) (l : list A) : list nat :=
  match l with
  | [] => []
  | x :: r => if ok x then failing ok (S i) r else i :: failing ok (S i) r
  end.
