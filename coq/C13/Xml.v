(* C13/Xml.v — XML token trees for the C13 model (definitions only).

   [tree] is what a xml.TokenReader delivers, read as a forest: elements with
   a resolved name (name space URL, local part), attributes, children, and
   character data.  [tokens_of_forest]/[parse] relate trees and token lists.

   [wire] is the model of the encoding/xml oracle used as a pair: what
   xml.Decoder.Token() (Strict) delivers for the bytes xml.Encoder writes when
   it is given the tokens of a tree:
     - an element whose Name.Space is empty is written without xmlns and
       inherits the default name space in scope; one with a Space is written
       with xmlns="Space", which comes back as a leading attribute;
     - attributes with an empty Local are dropped; values and character data
       are escaped, every byte sequence that is not a valid UTF-8 encoding of
       an XML Char being replaced by U+FFFD ([clean_text] mirrors
       xml.EscapeText + utf8.DecodeRune);
     - empty character data disappears and adjacent character data merges.
   It is validated differentially by the harness (case kind CWire) and is part
   of the trusted base; it is defined for trees whose attribute name spaces are
   empty or the XML name space ([wire_ok]). *)
From XV Require Import lib.Bytes.

Record name := mkname { nspace : bytes; nlocal : bytes }.
Record attr := mkattr { aname : name; avalue : bytes }.

Inductive tree :=
| Elem (n : name) (attrs : list attr) (kids : list tree)
| Text (s : bytes).

Inductive token :=
| TStart (n : name) (attrs : list attr)
| TEnd (n : name)
| TText (s : bytes).

Definition name_eqb (a b : name) : bool :=
  bytes_eqb (nspace a) (nspace b) && bytes_eqb (nlocal a) (nlocal b).

Definition attr_eqb (a b : attr) : bool :=
  name_eqb (aname a) (aname b) && bytes_eqb (avalue a) (avalue b).

Fixpoint list_eqb {A} (eqb : A -> A -> bool) (a b : list A) : bool :=
  match a, b with
  | [], [] => true
  | x :: a', y :: b' => eqb x y && list_eqb eqb a' b'
  | _, _ => false
  end.

Fixpoint tree_eqb (a b : tree) : bool :=
  match a, b with
  | Text s, Text s' => bytes_eqb s s'
  | Elem n at_ ks, Elem n' at' ks' =>
      name_eqb n n' && list_eqb attr_eqb at_ at' &&
      (fix go (x y : list tree) : bool :=
         match x, y with
         | [], [] => true
         | t :: x', u :: y' => tree_eqb t u && go x' y'
         | _, _ => false
         end) ks ks'
  | _, _ => false
  end.

Definition token_eqb (a b : token) : bool :=
  match a, b with
  | TStart n at_, TStart n' at' => name_eqb n n' && list_eqb attr_eqb at_ at'
  | TEnd n, TEnd n' => name_eqb n n'
  | TText s, TText s' => bytes_eqb s s'
  | _, _ => false
  end.

(* ---- trees <-> tokens ---- *)

Fixpoint tokens_of_tree (t : tree) : list token :=
  match t with
  | Text s => [TText s]
  | Elem n at_ ks => TStart n at_ :: flat_map tokens_of_tree ks ++ [TEnd n]
  end.

Definition tokens_of_forest (f : list tree) : list token := flat_map tokens_of_tree f.

(* A frame of the parser: the open element and the children of its parent
   collected so far (reversed). *)
Definition frame := (name * list attr * list tree)%type.

(* [parse ts stack cur]: [cur] is the reversed list of trees completed at the
   current depth.  An end tag must carry the name of the open element (as
   encoding/xml's Decoder and Encoder both insist). *)
Fixpoint parse (ts : list token) (stack : list frame) (cur : list tree) : option (list tree) :=
  match ts with
  | [] => match stack with [] => Some (rev cur) | _ => None end
  | TText s :: r => parse r stack (Text s :: cur)
  | TStart n at_ :: r => parse r ((n, at_, cur) :: stack) []
  | TEnd n :: r =>
      match stack with
      | [] => None
      | (n', at_, saved) :: st =>
          if name_eqb n n' then parse r st (Elem n' at_ (rev cur) :: saved) else None
      end
  end.

Definition parse_forest (ts : list token) : option (list tree) := parse ts [] [].

(* ---- names ---- *)

Definition is_empty (s : bytes) : bool := match s with [] => true | _ => false end.

Definition name_start_byte (b : byte) : bool :=
  let n := bN b in
  ((65 <=? n) && (n <=? 90) || (97 <=? n) && (n <=? 122) || (n =? 95) || (128 <=? n))%N.

Definition name_byte (b : byte) : bool :=
  let n := bN b in
  (name_start_byte b || (48 <=? n) && (n <=? 57) || (n =? 45) || (n =? 46))%N.

(* a conservative XML Name: ASCII letters, digits, '-', '.', '_' and non-ASCII bytes *)
Definition name_ok (s : bytes) : bool :=
  match s with
  | [] => false
  | b :: r => name_start_byte b && forallb name_byte r
  end.

Fixpoint attr_names_distinct (l : list attr) : bool :=
  match l with
  | [] => true
  | a :: r => negb (existsb (fun b => name_eqb (aname a) (aname b)) r) && attr_names_distinct r
  end.

(* What the encoder needs from a token tree to write well-formed XML: proper
   names in every name position and no repeated attribute. Character data and
   attribute values are unconstrained. *)
Fixpoint wf_tree (t : tree) : bool :=
  match t with
  | Text _ => true
  | Elem n at_ ks =>
      name_ok (nlocal n) && forallb (fun a => name_ok (nlocal (aname a))) at_ &&
      attr_names_distinct at_ && forallb wf_tree ks
  end.

(* ---- character data as it survives the encoder ---- *)

Definition fffd : bytes := [xef; xbf; xbd]%byte.

Definition ascii_char_ok (n : N) : bool :=
  ((n =? 9) || (n =? 10) || (n =? 13) || (32 <=? n))%N.

Definition in_rng (b : byte) (lo hi : N) : bool := ((lo <=? bN b) && (bN b <=? hi))%N.

(* utf8 acceptRanges for the second byte, by first byte *)
Definition lo1 (n0 : N) : N := (if n0 =? 224 then 160 else if n0 =? 240 then 144 else 128)%N.
Definition hi1 (n0 : N) : N := (if n0 =? 237 then 159 else if n0 =? 244 then 143 else 191)%N.

Fixpoint clean_text (s : bytes) : bytes :=
  match s with
  | [] => []
  | b0 :: r0 =>
      let n0 := bN b0 in
      if (n0 <? 128)%N then (if ascii_char_ok n0 then [b0] else fffd) ++ clean_text r0
      else if ((n0 <? 194) || (244 <? n0))%N then fffd ++ clean_text r0
      else
        match r0 with
        | [] => fffd
        | b1 :: r1 =>
            if negb (in_rng b1 (lo1 n0) (hi1 n0)) then fffd ++ clean_text r0
            else if (n0 <? 224)%N then b0 :: b1 :: clean_text r1
            else
              match r1 with
              | [] => fffd ++ clean_text r0
              | b2 :: r2 =>
                  if negb (in_rng b2 128 191) then fffd ++ clean_text r0
                  else if (n0 <? 240)%N then
                    (if (n0 =? 239)%N && (bN b1 =? 191)%N && (190 <=? bN b2)%N  (* U+FFFE, U+FFFF *)
                     then fffd else [b0; b1; b2]) ++ clean_text r2
                  else
                    match r2 with
                    | [] => fffd ++ clean_text r0
                    | b3 :: r3 =>
                        if negb (in_rng b3 128 191) then fffd ++ clean_text r0
                        else b0 :: b1 :: b2 :: b3 :: clean_text r3
                    end
              end
        end
  end.

Definition xml_clean (s : bytes) : bool := bytes_eqb (clean_text s) s.

(* ---- the encoder/tokenizer pair ---- *)

Definition xmlns_name : name := mkname [] (str "xmlns").
Definition XML_NS : bytes := Eval vm_compute in str "http://www.w3.org/XML/1998/namespace".

Definition wire_attr (a : attr) : attr := mkattr (aname a) (clean_text (avalue a)).

Definition wire_attrs (n : name) (at_ : list attr) : list attr :=
  (if is_empty (nspace n) then [] else [mkattr xmlns_name (clean_text (nspace n))]) ++
  map wire_attr (filter (fun a => negb (is_empty (nlocal (aname a)))) at_).

(* drop empty character data, merge adjacent character data *)
Fixpoint merge_text (l : list tree) : list tree :=
  match l with
  | [] => []
  | Text s :: r =>
      match s with
      | [] => merge_text r
      | _ => match merge_text r with
             | Text s' :: r' => Text (s ++ s') :: r'
             | r' => Text s :: r'
             end
      end
  | t :: r => t :: merge_text r
  end.

Fixpoint wire (d : bytes) (t : tree) : tree :=
  match t with
  | Text s => Text (clean_text s)
  | Elem n at_ ks =>
      let d' := if is_empty (nspace n) then d else nspace n in
      Elem (mkname d' (nlocal n)) (wire_attrs n at_) (merge_text (map (wire d') ks))
  end.

Definition attr_space_ok (a : attr) : bool :=
  is_empty (nspace (aname a)) || bytes_eqb (nspace (aname a)) XML_NS.

(* trees on which [wire] is claimed to describe encoding/xml *)
Fixpoint wire_ok (t : tree) : bool :=
  match t with
  | Text _ => true
  | Elem n at_ ks =>
      name_ok (nlocal n) && xml_clean (nspace n) &&
      forallb (fun a => name_ok (nlocal (aname a)) && attr_space_ok a &&
                        negb (name_eqb (aname a) xmlns_name)) at_ &&
      attr_names_distinct at_ && forallb wire_ok ks
  end.

(* ---- helpers shared by the decoders ---- *)

(* concatenation of the direct character data of an element (",chardata") *)
Fixpoint chardata (ks : list tree) : bytes :=
  match ks with
  | [] => []
  | Text s :: r => s ++ chardata r
  | Elem _ _ _ :: r => chardata r
  end.

(* value of the last attribute selected by [p] (reflection assigns every match in order) *)
Fixpoint last_attr (p : attr -> bool) (at_ : list attr) (dflt : bytes) : bytes :=
  match at_ with
  | [] => dflt
  | a :: r => last_attr p r (if p a then avalue a else dflt)
  end.
