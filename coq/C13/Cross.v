(* C13/Cross.v — the two encodings carry the same attribute NAMES, and the start
   element parser New* reads both to the same value.

   xml.Unmarshal offers an attribute of any name space to a field whose tag has
   none, so the struct decoder reads `lang=".."` and `xml:lang=".."` alike and
   the struct-only theorems of Proofs.v cannot see a tag that lost (or changed)
   its name space.  The start element parser NewIQ/NewMessage/NewPresence and
   every name-space-aware consumer can.  Here:
     schema_names_are_start_names   table lemma over the struct tags read from
                                    the source: every attribute field is named,
                                    name space included, as StartElement names it
                                    (Lang: the XML name space, `lang`)
     new_token_path / new_marshal_path
                                    New* on the wire form of either encoding
                                    returns the (sanitised) value, so all four
                                    encoder/decoder combinations agree modulo
                                    the element name space of xml.Marshal. *)
From Coq Require Import ZifyBool ZifyNat ZifyN.
From XV Require Import lib.Bytes gen.Stanza C13.Xml C13.Model C13.Proofs.

(* the attribute name IQ/Message/Presence.StartElement gives each field *)
Definition start_attr_name (f : fsel) : name :=
  match f with
  | FID => mkname [] L_id
  | FTo => mkname [] L_to
  | FFrom => mkname [] L_from
  | FLang => mkname NS_XML L_lang
  | FType => mkname [] L_type
  end.

Definition field_named_as_start (f : afield) : bool :=
  name_eqb (mkname (f_space f) (f_local f)) (start_attr_name (f_sel f)).

Definition has_field (s : list afield) (x : fsel) : bool :=
  existsb (fun f => match f_sel f, x with
                    | FID, FID | FTo, FTo | FFrom, FFrom | FLang, FLang | FType, FType => true
                    | _, _ => false end) s.

Definition schema_ok (s : list afield) : bool :=
  forallb field_named_as_start s &&
  has_field s FID && has_field s FTo && has_field s FFrom && has_field s FLang && has_field s FType.

(* table lemma: the struct tags of the source name every attribute as StartElement does;
   in particular the Lang field of all three types is `http://www.w3.org/XML/1998/namespace lang,attr` *)
Lemma schema_names_are_start_names :
  schema_ok iq_schema = true /\ schema_ok message_schema = true /\ schema_ok presence_schema = true.
Proof. vm_compute. repeat split; reflexivity. Qed.

Lemma lang_tags_in_xml_name_space k f :
  In f (schema_of k) -> f_sel f = FLang -> f_space f = NS_XML /\ f_local f = L_lang.
Proof.
  intros Hin Hsel.
  assert (H : forallb field_named_as_start (schema_of k) = true).
  { destruct schema_names_are_start_names as (H1 & H2 & H3).
    destruct k; cbn [schema_of]; [revert H1|revert H2|revert H3]; unfold schema_ok; rewrite !andb_true_iff; tauto. }
  rewrite forallb_forall in H. specialize (H _ Hin). unfold field_named_as_start in H. rewrite Hsel in H.
  apply name_eqb_eq in H. inversion H. split; reflexivity.
Qed.

(* the names StartElement writes are these *)
Lemma start_attrs_names k v a :
  In a (start_attrs k v) -> exists f, aname a = start_attr_name f.
Proof.
  unfold start_attrs, opt_attr, lang_attr, lattr. intro H.
  repeat (apply in_app_or in H; destruct H as [H|H]).
  - exists FType. destruct k; [| |destruct (is_empty (s_typ v))]; cbn in H; intuition; subst; reflexivity.
  - exists FTo. destruct (is_empty (s_to v)); cbn in H; intuition; subst; reflexivity.
  - exists FFrom. destruct (is_empty (s_from v)); cbn in H; intuition; subst; reflexivity.
  - exists FID. destruct (is_empty (s_id v)); cbn in H; intuition; subst; reflexivity.
  - exists FLang. destruct (is_empty (s_lang v)); cbn in H; intuition; subst; reflexivity.
Qed.

(* every attribute xml.Marshal writes is named as StartElement names that field *)
Lemma marshal_attrs_names k v a :
  In a (flat_map (marshal_field v) (schema_of k)) -> exists f, aname a = start_attr_name f.
Proof.
  intro H. apply in_flat_map in H. destruct H as (f & Hf & Ha).
  assert (Hn : field_named_as_start f = true).
  { destruct schema_names_are_start_names as (H1 & H2 & H3).
    assert (H : forallb field_named_as_start (schema_of k) = true)
      by (destruct k; cbn [schema_of]; [revert H1|revert H2|revert H3]; unfold schema_ok; rewrite !andb_true_iff; tauto).
    rewrite forallb_forall in H. exact (H _ Hf). }
  apply name_eqb_eq in Hn. exists (f_sel f). rewrite <- Hn.
  unfold marshal_field in Ha. destruct (f_kind f);
    try (destruct (f_omit f && is_empty (get_field v (f_sel f))));
    cbn in Ha; intuition; subst; reflexivity.
Qed.

(* ---- New* on the wire form of either encoding ---- *)

Definition root_name (t : tree) : name := match t with Elem n _ _ => n | Text _ => mkname [] [] end.
Definition root_attrs (t : tree) : list attr := match t with Elem _ a _ => a | Text _ => [] end.

(* New*(start) where start is the first token of the document *)
Definition new_of_tree (k : kind) (parse : jparse) (t : tree) : option stanza :=
  new_stanza k parse (root_name t) (root_attrs t).

Lemma new_token_path k parse v f :
  jid_okc parse (s_to v) -> jid_okc parse (s_from v) -> type_defined k v = true ->
  new_of_tree k parse (wire [] (Elem (start_name k v) (start_attrs k v) f)) =
  Some (clean_stanza (set_local v (kind_local k))).
Proof.
  destruct v as [ns lo id to from lang typ]. unfold jid_okc, set_local, clean_stanza, type_defined.
  cbn [s_typ s_to s_from s_id s_lang s_ns s_local]. intros Hto Hfrom Hty.
  assert (Hcl : clean_text typ = typ).
  { destruct type_tables_clean as (C1 & C2 & C3 & _).
    apply xml_clean_eq. destruct k; cbn [kind_types] in Hty;
      [exact (mem_forallb xml_clean _ _ C1 Hty)|exact (mem_forallb xml_clean _ _ C2 Hty)|exact (mem_forallb xml_clean _ _ C3 Hty)]. }
  assert (Hm : k = KMessage -> msg_default typ = typ) by (intro E; subst k; apply msg_default_defined; exact Hty).
  assert (Hne : k = KMessage -> is_empty typ = false).
  { intro Hk. subst k. destruct typ; [vm_compute in Hty; discriminate|reflexivity]. }
  rewrite wire_root_name. unfold new_of_tree, root_name, root_attrs, new_stanza, start_name, start_attrs, wire_attrs, opt_attr, lang_attr, lattr.
  cbn [s_typ s_to s_from s_id s_lang s_ns s_local nspace nlocal].
  clear Hty.
  destruct to as [|t0 to']; [|destruct Hto as [Hto|Hto]; [discriminate|]].
  all: destruct from as [|f0 from']; [|destruct Hfrom as [Hfrom|Hfrom]; [discriminate|]].
  all: destruct id as [|i0 id'], lang as [|l0 lang'], ns as [|n0 ns'].
  all: destruct k; [clear Hm Hne | specialize (Hm eq_refl); specialize (Hne eq_refl) | clear Hm Hne].
  all: destruct typ as [|y0 typ']; try discriminate Hne.
  all: cbn -[clean_text msg_default]; rewrite ?clean_text_is_empty; cbn -[clean_text msg_default];
       rewrite ?Hto, ?Hfrom; cbn -[clean_text msg_default]; rewrite ?clean_text_is_empty; cbn -[clean_text msg_default];
       rewrite ?Hto, ?Hfrom; cbn -[clean_text msg_default]; rewrite ?Hcl, ?Hm; reflexivity.
Qed.

Lemma new_marshal_path k parse v :
  jid_okc parse (s_to v) -> jid_okc parse (s_from v) -> type_defined k v = true ->
  new_of_tree k parse (wire [] (marshal_tree k v)) =
  Some (set_ns (clean_stanza (set_local v (kind_local k))) []).
Proof.
  destruct v as [ns lo id to from lang typ]. unfold jid_okc, set_local, clean_stanza, set_ns, type_defined.
  cbn [s_typ s_to s_from s_id s_lang s_ns s_local]. intros Hto Hfrom Hty.
  assert (Hcl : clean_text typ = typ).
  { destruct type_tables_clean as (C1 & C2 & C3 & _).
    apply xml_clean_eq. destruct k; cbn [kind_types] in Hty;
      [exact (mem_forallb xml_clean _ _ C1 Hty)|exact (mem_forallb xml_clean _ _ C2 Hty)|exact (mem_forallb xml_clean _ _ C3 Hty)]. }
  assert (Hne : k <> KPresence -> is_empty typ = false).
  { intro Hk. destruct typ; [|reflexivity]. destruct k; [vm_compute in Hty; discriminate|vm_compute in Hty; discriminate|congruence]. }
  assert (Hm : k = KMessage -> msg_default typ = typ) by (intro E; subst k; apply msg_default_defined; exact Hty).
  unfold marshal_tree, marshal_name. rewrite wire_root_name. unfold new_of_tree, root_name, root_attrs, new_stanza, wire_attrs.
  destruct tags_are_kind_locals as (T1 & T2 & T3). destruct schemas_eval as (S1 & S2 & S3).
  unfold schema_of. rewrite ?S1, ?S2, ?S3.
  destruct k; [rewrite T1; clear Hm | rewrite T2; specialize (Hm eq_refl) | rewrite T3; clear Hm Hne].
  all: unfold IQ_SCHEMA, MESSAGE_SCHEMA, PRESENCE_SCHEMA.
  all: try (assert (Hne' : is_empty typ = false) by (apply Hne; discriminate); clear Hne).
  all: clear Hty.
  all: destruct to as [|t0 to']; [|destruct Hto as [Hto|Hto]; [discriminate|]].
  all: destruct from as [|f0 from']; [|destruct Hfrom as [Hfrom|Hfrom]; [discriminate|]].
  all: destruct id as [|i0 id'], lang as [|l0 lang'].
  all: try (destruct typ as [|y0 typ']; [try discriminate Hne'|]).
  all: cbn -[clean_text msg_default]; rewrite ?Hm; rewrite ?clean_text_is_empty; cbn -[clean_text msg_default];
       rewrite ?Hto, ?Hfrom; cbn -[clean_text msg_default]; rewrite ?clean_text_is_empty; cbn -[clean_text msg_default];
       rewrite ?Hto, ?Hfrom; cbn -[clean_text msg_default]; rewrite ?Hcl, ?Hm; reflexivity.
Qed.

(* all four encoder/decoder combinations, modulo the element name space of xml.Marshal *)
Lemma four_ways_agree k parse v :
  jid_okc parse (s_to v) -> jid_okc parse (s_from v) -> type_defined k v = true ->
  let r := clean_stanza (set_local v (kind_local k)) in
  unmarshal_stanza k parse (wire [] (Elem (start_name k v) (start_attrs k v) [])) = Some r /\
  new_of_tree k parse (wire [] (Elem (start_name k v) (start_attrs k v) [])) = Some r /\
  unmarshal_stanza k parse (wire [] (marshal_tree k v)) = Some (set_ns r []) /\
  new_of_tree k parse (wire [] (marshal_tree k v)) = Some (set_ns r []).
Proof.
  intros Hto Hfrom Hty. cbn zeta. repeat split.
  - apply unmarshal_token_path; auto. intro E. subst k. exact Hty.
  - apply new_token_path; auto.
  - apply unmarshal_marshal_path; auto.
  - apply new_marshal_path; auto.
Qed.

(* necessity of the table lemma: with the name space of the Lang tag removed
   (`xml:"lang,attr,omitempty"`), New* finds no language on the marshalled form *)
Definition lang_tag_without_space (s : list afield) : list afield :=
  map (fun f => match f_sel f with FLang => mkfield FLang [] (f_local f) (f_omit f) (f_kind f) | _ => f end) s.

Lemma lang_tag_space_needed :
  let v := mkst [] L_iq (str "1") [] [] (str "de-CH") L_get in
  let t := Elem (mkname [] L_iq) (flat_map (marshal_field v) (lang_tag_without_space iq_schema)) [] in
  new_of_tree KIQ (fun s => Some s) (wire [] t) = Some (set_lang v []) /\
  new_of_tree KIQ (fun s => Some s) (wire [] (marshal_tree KIQ v)) = Some v.
Proof. vm_compute. split; reflexivity. Qed.
