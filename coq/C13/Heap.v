(* C13/Heap.v — the token-reader constructors as state transitions over a heap
   of backing arrays (definitions only).

   Why.  IQ/Message/Presence.Wrap/Result/Error, stanza.Error.Wrap/TokenReader and
   stream.Error.TokenReader do not return tokens, they return *readers*:
   xmlstream.Wrap(r, start) keeps [start] — a name and a slice header — and
   delivers it when the reader is consumed; the attributes are whatever the
   backing array of start.Attr holds at that moment.  [Model.v] describes the
   tokens of a reader that is consumed at once; this file describes histories:
   readers (and start elements) are created, other readers are created, and
   the first ones are read later, in any interleaving.

   Go semantics modelled
     slice         (array, len, cap); reading = the first len cells of the array
     append(s, a)  len < cap: writes cell len of the SAME array and returns
                   (array, len+1, cap); otherwise allocates a new array holding
                   the old elements and a.  (The growth factor of the new array
                   is not observable here: the old slice value is dropped by
                   `x = append(x, ...)`, so the new array has a single owner.)
     origin        where the slice a constructor starts from comes from — read
                   from the source by the translator (gen/StanzaAlloc.v):
                   [OFresh c]    allocated by the call (literal, make, nil)
                   [OShared g c] the array of a package-level variable: every
                                 call starts at cell 0 of the same array
   A reader is the list of the tokens it has not delivered yet, start elements
   being lazy ([LStart]: resolved against the heap when delivered). *)
From XV Require Import lib.Bytes gen.Stanza gen.StanzaAlloc C13.Xml C13.Model.

Definition dummy_attr : attr := mkattr (mkname [] []) [].

Record slice := mksl { sl_arr : nat; sl_len : nat; sl_cap : nat }.
Definition heap := list (list attr).

Fixpoint set_nth {A} (l : list A) (i : nat) (x : A) : list A :=
  match l, i with
  | [], _ => []
  | _ :: r, O => x :: r
  | y :: r, S j => y :: set_nth r j x
  end.

Definition sl_read (h : heap) (s : slice) : list attr := firstn (sl_len s) (nth (sl_arr s) h []).

Definition sl_append (h : heap) (s : slice) (a : attr) : heap * slice :=
  if Nat.ltb (sl_len s) (sl_cap s) then
    (set_nth h (sl_arr s) (set_nth (nth (sl_arr s) h []) (sl_len s) a),
     mksl (sl_arr s) (S (sl_len s)) (sl_cap s))
  else (h ++ [sl_read h s ++ [a]], mksl (length h) (S (sl_len s)) (S (sl_len s))).

Fixpoint sl_append_list (h : heap) (s : slice) (l : list attr) : heap * slice :=
  match l with
  | [] => (h, s)
  | a :: r => let (h', s') := sl_append h s a in sl_append_list h' s' r
  end.

Definition origin_slice (o : origin) (h : heap) : heap * slice :=
  match o with
  | OFresh c => (h ++ [repeat dummy_attr c], mksl (length h) 0 c)
  | OShared g c => (h, mksl g 0 c)
  | OUnknown => (h, mksl 0 0 0)
  end.

(* the origins of one source tree *)
Record origins := mkorigins {
  o_iq : origin; o_message : origin; o_presence : origin;
  o_se_error : origin; o_se_text : origin; o_se_cond : origin; o_se_other : origin;
  o_ste_error : origin; o_ste_text : origin; o_ste_cond : origin; o_ste_other : origin;
  o_shared : list nat;                       (* capacities of the package-level arrays *)
  o_globals : list (bytes * list bytes) }.   (* package-level variables each constructor mentions *)

Definition src_origins : origins :=
  mkorigins iq_start_origin message_start_origin presence_start_origin
            se_error_origin se_text_origin se_cond_origin se_other_origin
            ste_error_origin ste_text_origin ste_cond_origin ste_other_origin
            shared_arrays reader_fn_globals.

Definition is_fresh (o : origin) : bool := match o with OFresh _ => true | _ => false end.

Definition origins_fresh (og : origins) : bool :=
  is_fresh (o_iq og) && is_fresh (o_message og) && is_fresh (o_presence og) &&
  is_fresh (o_se_error og) && is_fresh (o_se_text og) && is_fresh (o_se_cond og) && is_fresh (o_se_other og) &&
  is_fresh (o_ste_error og) && is_fresh (o_ste_text og) && is_fresh (o_ste_cond og) && is_fresh (o_ste_other og) &&
  match o_shared og with [] => true | _ => false end &&
  forallb (fun p => match snd p with [] => true | _ => false end) (o_globals og).

(* ---- lazy tokens and readers ---- *)

Inductive ltoken := LStart (n : name) (s : slice) | LTok (t : token).

Definition resolve (h : heap) (lt : ltoken) : token :=
  match lt with LStart n s => TStart n (sl_read h s) | LTok t => t end.

Definition reader := list ltoken.

(* xml.StartElement{Name: n, Attr: <origin>} followed by the appends of [ats] *)
Definition mk_start (o : origin) (n : name) (ats : list attr) (h : heap) : heap * ltoken :=
  let (h1, s0) := origin_slice o h in
  let (h2, s) := sl_append_list h1 s0 ats in
  (h2, LStart n s).

(* xmlstream.Wrap(body, start) *)
Definition mk_elem (o : origin) (n : name) (ats : list attr) (body : reader) (h : heap) : heap * reader :=
  let (h', st) := mk_start o n ats h in (h', st :: body ++ [LTok (TEnd n)]).

Fixpoint mk_list {A} (mk : A -> heap -> heap * reader) (l : list A) (h : heap) : heap * reader :=
  match l with
  | [] => (h, [])
  | x :: r => let (h1, a) := mk x h in let (h2, b) := mk_list mk r h1 in (h2, a ++ b)
  end.

Definition start_origin (og : origins) (k : kind) : origin :=
  match k with KIQ => o_iq og | KMessage => o_message og | KPresence => o_presence og end.

(* v.StartElement() *)
Definition mk_stanza_start (og : origins) (k : kind) (v : stanza) (h : heap) : heap * ltoken :=
  mk_start (start_origin og k) (start_name k v) (start_attrs k v) h.

(* v.Wrap(body) = xmlstream.Wrap(body, v.StartElement()) *)
Definition mk_wrap (og : origins) (k : kind) (v : stanza) (body : reader) (h : heap) : heap * reader :=
  mk_elem (start_origin og k) (start_name k v) (start_attrs k v) body h.

(* stanza.Error.Wrap(payload): start element and its appends first, then one
   wrapper per non-empty text, then the condition element *)
Definition mk_se_text (og : origins) (kv : bytes * bytes) (h : heap) : heap * reader :=
  mk_elem (o_se_text og) (mkname NS_SE L_text) (lang_attr (fst kv)) [LTok (TText (snd kv))] h.

Definition mk_error (og : origins) (e : serror) (payload : list token) (h : heap) : heap * reader :=
  let (h1, st) := mk_start (o_se_error og) error_name (error_attrs e) h in
  let (h2, texts) := mk_list (mk_se_text og) (nonempty_texts (map_of (e_text e))) h1 in
  let (h3, cond) := mk_elem (o_se_cond og) (mkname NS_SE (cond_or_default (e_cond e))) [] [] h2 in
  (h3, st :: cond ++ texts ++ map LTok payload ++ [LTok (TEnd error_name)]).

(* v.Error(e) = v'.Wrap(e.TokenReader()): the argument is evaluated first *)
Definition mk_error_reply (og : origins) (k : kind) (v : stanza) (e : serror) (h : heap) : heap * reader :=
  let (h1, body) := mk_error og e [] h in
  mk_wrap og k (reply v L_error) body h1.

(* stream.Error.TokenReader() *)
Definition mk_ste_text (og : origins) (kv : bytes * bytes) (h : heap) : heap * reader :=
  mk_elem (o_ste_text og) (mkname NS_STE L_text) (lang_attr (fst kv)) [LTok (TText (snd kv))] h.

Definition mk_stream_error (og : origins) (s : sterror) (payload : list token) (h : heap) : heap * reader :=
  let (h1, cond) := mk_elem (o_ste_cond og) (mkname NS_STE (st_err s)) [] [LTok (TText (st_content s))] h in
  let (h2, texts) := mk_list (mk_ste_text og) (st_text s) h1 in
  mk_elem (o_ste_error og) stream_error_name [] (cond ++ map LTok payload ++ texts) h2.

(* ---- histories ---- *)

Inductive hop :=
| HStart (k : kind) (v : stanza)                       (* v.StartElement(), kept by the caller *)
| HWrap (k : kind) (v : stanza) (p : list token)       (* v.Wrap(p) *)
| HResult (v : stanza) (p : list token)                (* iq.Result(p) *)
| HErrReply (k : kind) (v : stanza) (e : serror)       (* v.Error(e) *)
| HErr (e : serror) (p : list token)                   (* e.Wrap(p) / e.TokenReader() *)
| HStream (s : sterror) (p : list token)               (* s.TokenReader(), with ApplicationError(p) *)
| HRead (i n : nat).                                   (* read up to n tokens from the i-th reader created *)

(* the tokens of a reader that is consumed at once (Model.v) *)
Definition spec_tokens (o : hop) : list token :=
  match o with
  | HStart k v => [TStart (start_name k v) (start_attrs k v)]
  | HWrap k v p => wrap_tokens k v p
  | HResult v p => result_tokens v p
  | HErrReply k v e => error_reply_tokens k v e
  | HErr e p => error_tokens e p
  | HStream s p => stream_error_tokens s p
  | HRead _ _ => []
  end.

Definition is_creation (o : hop) : bool := match o with HRead _ _ => false | _ => true end.

Definition create (og : origins) (o : hop) (h : heap) : heap * reader :=
  match o with
  | HStart k v => let (h', st) := mk_stanza_start og k v h in (h', [st])
  | HWrap k v p => mk_wrap og k v (map LTok p) h
  | HResult v p => mk_wrap og KIQ (reply v L_result) (map LTok p) h
  | HErrReply k v e => mk_error_reply og k v e h
  | HErr e p => mk_error og e p h
  | HStream s p => mk_stream_error og s p h
  | HRead _ _ => (h, [])
  end.

Record world := mkw { w_heap : heap; w_readers : list reader }.

Definition event := (nat * list token)%type.

Definition step (og : origins) (w : world) (o : hop) : world * list event :=
  match o with
  | HRead i n =>
      let r := nth i (w_readers w) [] in
      (mkw (w_heap w) (set_nth (w_readers w) i (skipn n r)), [(i, map (resolve (w_heap w)) (firstn n r))])
  | _ => let (h', r) := create og o (w_heap w) in (mkw h' (w_readers w ++ [r]), [])
  end.

Fixpoint run (og : origins) (w : world) (ops : list hop) : world * list event :=
  match ops with
  | [] => (w, [])
  | o :: r => let (w1, e) := step og w o in let (w2, l) := run og w1 r in (w2, e ++ l)
  end.

Definition init_world (og : origins) : world := mkw (map (repeat dummy_attr) (o_shared og)) [].

Definition run_hist (og : origins) (ops : list hop) : world * list event := run og (init_world og) ops.

(* everything reader i has delivered *)
Definition reads_of (i : nat) (log : list event) : list token :=
  flat_map (fun e : event => if Nat.eqb (fst e) i then snd e else []) log.

(* what reader i would still deliver if it were drained now *)
Definition pending (w : world) (i : nat) : list token := map (resolve (w_heap w)) (nth i (w_readers w) []).

(* ---- correspondence case (harness-written) ---- *)

Definition event_eqb (a b : event) : bool := Nat.eqb (fst a) (fst b) && list_eqb token_eqb (snd a) (snd b).

Inductive hcase := CHist (ops : list hop) (obs : list event).

Definition hcase_ok (c : hcase) : bool :=
  match c with CHist ops obs => list_eqb event_eqb (snd (run_hist src_origins ops)) obs end.
