(* C08/Properties.v — the property theorems of C08 and nothing else.
   "Handlers see one element at a time; stream-level input never reaches them."

   Vocabulary (C08/Model.v): [scan ws 0 l = (pre, e)] splits what follows a start
   tag into the readable tokens [pre] and how they end ([SEComplete rest]: at the
   element's end tag, [rest] follows; [SEDirty t r]: at a stream-level construct;
   [SETrunc]: the input ends). [view k pre term] is what k Token() calls return:
   the first k of pre, then the error [term] for ever. [follows] (C08/Proofs.v)
   relates a script to the invocations and the result of Serve. Every theorem
   holds for every handler (any strategy tree), on both name spaces and both
   framings. *)
From XV Require Import lib.Bytes lib.Xml gen.Serve C08.Model C08.Proofs.

(* The handler of an element is given that element's start tag and, read by
   read, exactly the element's tokens in order; after its end tag (or at a
   stream-level construct inside it) every further read fails with the same
   error: it can never be given a token of what follows. *)
Theorem C08_view_is_exactly_the_element :
  forall (c : cfg) (fuel : nat) (hf : handlers) (pd : N) (n : name) (a : list attr)
         (l pre : list token) (e : scan_end),
  clean (c_ws c) (TStart n a) = true -> scan (c_ws c) 0 l = (pre, e) -> length l < fuel ->
  exists v p', his c fuel hf (mkp (TStart n a :: l) pd false) = (HRInv v, p') /\
    (exists k, v_seen v = view k pre (term_of (c_ws c) e)) /\
    (forall t x, In (Some t, x) (v_seen v) -> In t pre /\ x = None).
Proof. exact c08_view. Qed.
Print Assumptions C08_view_is_exactly_the_element.

(* The readable part is the element: for an element without stream-level
   constructs it is the tokens up to and including the matching end tag as plain
   depth counting finds it, and conversely. *)
Theorem C08_readable_part_is_the_element :
  forall (ws : bool) (l : list token),
  (forall b rest, elem_body 0 l = Some (b, rest) -> Forall (fun t => clean ws t = true) b ->
                  scan ws 0 l = (b, SEComplete rest)) /\
  (forall pre rest, scan ws 0 l = (pre, SEComplete rest) -> l = pre ++ rest /\ elem_body 0 l = Some (pre, rest)) /\
  (forall pre t r, scan ws 0 l = (pre, SEDirty t r) -> l = pre ++ t :: r /\ clean ws t = false) /\
  (forall k pre term, k <= length pre -> view k pre term = map ok_res (firstn k pre)) /\
  (forall k pre term, length pre <= k ->
      view k pre term = map ok_res pre ++ repeat (None, Some term) (k - length pre)).
Proof. exact c08_readable. Qed.
Print Assumptions C08_readable_part_is_the_element.

(* Whatever part the handler consumed, if the invocation ends without error the
   input is positioned exactly after the element's end tag; an element that is
   cut short or holds a stream-level construct never ends without error; and an
   invocation never ends with a bare EOF (which Serve would take for the peer's
   close). *)
Theorem C08_resync :
  forall (c : cfg) (fuel : nat) (hf : handlers) (pd : N) (n : name) (a : list attr)
         (l pre : list token) (e : scan_end),
  clean (c_ws c) (TStart n a) = true -> scan (c_ws c) 0 l = (pre, e) -> length l < fuel ->
  exists v p', his c fuel hf (mkp (TStart n a :: l) pd false) = (HRInv v, p') /\
    (forall rest, e = SEComplete rest -> v_ret v = None -> p' = mkp rest pd false) /\
    (term_of (c_ws c) e <> EEOF -> v_ret v <> None) /\
    v_ret v <> Some EEOF.
Proof. exact c08_resync. Qed.
Print Assumptions C08_resync.

(* The start tag shown is the one received, except that on a stanza of the
   stream's content name space the first unqualified from attribute is emptied
   when it equals the session's own bare address; nothing else changes. *)
Theorem C08_from_normalised :
  (forall (c : cfg) (fuel : nat) (hf : handlers) (pd : N) (n : name) (a : list attr) (l : list token),
   clean (c_ws c) (TStart n a) = true -> length l < fuel ->
   exists v p', his c fuel hf (mkp (TStart n a :: l) pd false) = (HRInv v, p') /\
     v_name v = n /\ v_attrs v = (if stanza_is n (c_ns c) then norm_from (c_own c) a else a)) /\
  (forall own a,
     Forall2 (fun x y => aname y = aname x /\
                         (aval y = aval x \/ (is_from x = true /\ aval x = own /\ aval y = [])))
             a (norm_from own a)) /\
  (forall own a, attr_get s_from (norm_from own a)
                 = if bytes_eqb (attr_get s_from a) own then [] else attr_get s_from a).
Proof. exact (conj c08_from (conj norm_from_spec norm_from_get)). Qed.
Print Assumptions C08_from_normalised.

(* Serve follows the script: one invocation per top-level element in arrival
   order, each satisfying the per-invocation specification and beginning at the
   next top-level element; whitespace between elements is skipped; the run ends
   at the first stream-level construct, close, tokenizer error or failed
   invocation, with the corresponding return value. [ends_match] is the
   tokenizer's guarantee that end tags match start tags. *)
Theorem C08_one_invocation_per_element_in_order :
  forall (c : cfg) (hf : nat -> handlers) (toks : list token) (base : list name),
  ends_match base toks = true ->
  follows c toks (s_invs (serve_all c hf toks)) (s_ret (serve_all c hf toks)).
Proof. exact c08_serve_follows. Qed.
Print Assumptions C08_one_invocation_per_element_in_order.

(* Serve returns nil exactly when the peer closed the stream: the script is
   keep-alives and complete elements without stream-level constructs up to the
   peer's closing tag, and every handler invocation ended without error. So no
   error a handler returns ends Serve with nil — an error that wraps io.EOF or
   claims to be it ([EWrapEOF]) no more than any other; a handler's bare io.EOF is
   reported as ErrUnexpectedEOF (C08_resync) —, and the only inputs that read as
   the close are </stream:stream> and, on a WebSocket stream, a top-level framing
   element whose name ends the input (<close/>). The comparison `err == io.EOF`
   in Serve is read from the source ([sv_serve_eof_identity]). *)
Theorem C08_nil_only_at_peer_close :
  (forall (c : cfg) (hf : nat -> handlers) (toks : list token) (base : list name),
   ends_match base toks = true ->
   (s_ret (serve_all c hf toks) = None <->
    reaches_close c toks /\ Forall (fun v => v_ret v = None) (s_invs (serve_all c hf toks)))) /\
  (forall (c : cfg) (l : list token), top_err (c_ws c) l = Some EEOF ->
    (exists n r, l = TEnd n :: r /\ bytes_eqb (nspace n) sv_ns_stream = true /\ bytes_eqb (nlocal n) s_stream = true) \/
    (exists n a r, l = TStart n a :: r /\ c_ws c = true /\ bytes_eqb (nspace n) sv_ns_framing = true /\
                   in_list (nlocal n) sv_ws_eof_locals = true)) /\
  (forall (c : cfg) (fuel : nat) (hf : handlers) (pd : N) (n : name) (a : list attr) (l : list token),
   clean (c_ws c) (TStart n a) = true -> length l < fuel -> (forall a', hf n a' = HRet (Some EWrapEOF)) ->
   exists v p', his c fuel hf (mkp (TStart n a :: l) pd false) = (HRInv v, p') /\ v_ret v = Some EWrapEOF) /\
  (sv_serve_eof_identity = true /\ sv_serve_switches = 1 /\ sv_serve_clauses = 3).
Proof. exact (conj c08_nil_iff_close (conj top_err_eof (conj c08_wrapped_eof tbl_serve_eof))). Qed.
Print Assumptions C08_nil_only_at_peer_close.

(* Stream-level constructs never reach a handler and end the session:
   - nothing a handler reads is a stream-level token;
   - between elements, a stream-level construct, non-whitespace text or a
     tokenizer error ends Serve with that error and no further invocation; the
     peer's closing tag ends it with nil; a received stream error is returned as
     that error, also one without a defined condition;
   - inside an element, whatever the handler does (even if it ignores read
     errors), the invocation fails, hence Serve ends with an error;
   - the same for the framing elements of a WebSocket stream (last clauses). *)
Theorem C08_stream_level_never_delivered :
  (forall ws l c0 pre e, scan ws c0 l = (pre, e) -> Forall (fun t => clean ws t = true) pre) /\
  (forall c hf toks e, top_err (c_ws c) toks = Some e ->
     s_invs (serve_all c hf toks) = [] /\ s_ret (serve_all c hf toks) = ret_of e) /\
  (forall c hf n rest, bytes_eqb (nspace n) sv_ns_stream = true -> bytes_eqb (nlocal n) s_stream = true ->
     s_invs (serve_all c hf (TEnd n :: rest)) = [] /\ s_ret (serve_all c hf (TEnd n :: rest)) = None) /\
  (forall c hf cond a a1 n1 n2 rest, bytes_eqb cond s_text = false ->
     let toks := TStart (mkname sv_ns_stream s_error) a
                 :: TStart (mkname sv_ns_stream_error cond) a1 :: TEnd n1 :: TEnd n2 :: rest in
     s_invs (serve_all c hf toks) = [] /\ s_ret (serve_all c hf toks) = Some (EStreamErr cond)) /\
  (forall c hf a n2 rest,
     let toks := TStart (mkname sv_ns_stream s_error) a :: TEnd n2 :: rest in
     s_invs (serve_all c hf toks) = [] /\ s_ret (serve_all c hf toks) = Some (EStreamErr [])) /\
  (forall c fuel hf pd n a l pre t r base,
     clean (c_ws c) (TStart n a) = true -> scan (c_ws c) 0 l = (pre, SEDirty t r) -> length l < fuel ->
     ends_match (n :: base) l = true ->
     exists v p', his c fuel hf (mkp (TStart n a :: l) pd false) = (HRInv v, p') /\ v_ret v <> None /\
       (forall tk x, In (Some tk, x) (v_seen v) -> clean (c_ws c) tk = true)) /\
  (* WebSocket framing (RFC 7395): between elements the peer's <close/> ends Serve
     with nil like </stream:stream> on TCP, any other framing element (<open/>)
     ends it with the unexpected-restart error, and no handler is invoked; inside
     an element every framing element, <close/> included, is a stream-level
     construct (not clean, so the clause above applies) whose error is that
     restart error, never the end of the input *)
  (forall c hf n a rest, c_ws c = true -> bytes_eqb (nspace n) sv_ns_framing = true -> nlocal n = str "close" ->
     s_invs (serve_all c hf (TStart n a :: rest)) = [] /\ s_ret (serve_all c hf (TStart n a :: rest)) = None) /\
  (forall c hf n a rest, c_ws c = true -> bytes_eqb (nspace n) sv_ns_framing = true ->
     in_list (nlocal n) sv_ws_eof_locals = false ->
     s_invs (serve_all c hf (TStart n a :: rest)) = [] /\ s_ret (serve_all c hf (TStart n a :: rest)) = Some ERestart) /\
  (forall ws n a r, ws && bytes_eqb (nspace n) sv_ns_framing = true ->
     clean ws (TStart n a) = false /\ dirty_err ws (TStart n a) r = ERestart) /\
  (sv_ws_eof_locals = [str "close"] /\ sv_ws_eof_top_only = true /\ sv_ws_eof_unrecognised = 0).
Proof.
  exact (conj c08_scan_clean (conj c08_top (conj c08_close (conj c08_stream_error_returned (conj c08_stream_error_no_condition (conj c08_nested_fatal
          (conj c08_ws_close (conj c08_ws_restart (conj c08_ws_nested tbl_ws_close))))))))).
Qed.
Print Assumptions C08_stream_level_never_delivered.
